import PyomaVerif.Lemmas.PlscfChain
import PyomaVerif.Lemmas.GaussComplete
import PyomaVerif.Props.C05
import PyomaVerif.Props.C05Charpoly
import Mathlib.Algebra.Polynomial.Roots
import Mathlib.LinearAlgebra.Matrix.Charpoly.Coeff
import Mathlib.Algebra.Order.Field.Rat
import Mathlib.Tactic.NormNum
import Mathlib.Data.Complex.Basic
/-!
# C05, end to end — from an exactly rational spectrum to the pole table

`Props/C05.lean` and `Props/C05Charpoly.lean` prove the stages (normal equations, companion,
characteristic polynomial, cell rules, padding).  Here they are chained into closed statements
about the model functions `plscfOrder` → (`reshape`, `moveaxis`) → `rmfd2ac` → `ac2mpPoly` →
`padTables`, for a spectrum that is *exactly* a right matrix fraction `Sy(z_f)·A(z_f) = B(z_f)`
(`ExactRMFD`, `Lemmas/PlscfChain.lean`) with real `A` (`Nch × Nch`), `B` (`Nref × Nch`) of degree
`n` whose constrained coefficient `A_c` is invertible (`G = A_c⁻¹`).

Conventions, exactly as coded (`hi = (sgn_basf == 1)`):

* `LO`, `sgn_basf = -1` (`method_SD = "per"` in the class): the basis value is
  `z = exp(-iωΔt)`, the *lowest* coefficient is constrained, `c = 0`, the returned stack is
  `A_k·A_0⁻¹`.  `det A(0) = det A_0 ≠ 0`, so `0` is never a root of `det A`: the zero eigenvalue of
  the matrix `rmfd2ac` builds has multiplicity exactly `Nch` (the extra block, F12).  `rmfd2ac`
  still divides by the *last* coefficient, `A_n·A_0⁻¹`; when it returns, that coefficient is
  invertible (one of its solves has the identity `A_0·A_0⁻¹` as right-hand side), so `det A` has
  full degree `n·Nch` — a singular `A_n` ("root at infinity" of `det A`, i.e. a zero root in the
  variable `1/z`) makes `rmfd2ac` return `none` (numpy: `LinAlgError`).
* `HI`, `sgn_basf = +1` (`method_SD = "cor"`): `z = exp(+iωΔt)`, the *highest* coefficient is
  constrained, `c = n`, the stack is `A_k·A_n⁻¹`, `det A` always has degree `n·Nch`, but
  `det A(0) = det A_0` may vanish: such zero roots are indistinguishable from the `Nch` extra
  zeros and are reported as NaN like them.
* the two are exchanged by `z ↔ 1/z` and reversal of the stack:
  `A_rev(1/λ) = λ^(-n)·A(λ)` (`C05_e2e_reciprocal`), so the non-zero roots of `det A_rev` are the
  reciprocals of the non-zero roots of `det A`; the code never applies this exchange — for either
  sign the reported discrete poles are the roots of `det A(z)` *in the basis variable `z` it was
  given*, and `log λ/Δt` is taken of those.

No statement depends on `Om` lying on the unit circle.

Contracts that remain (everything else is derived): the spectrum is exactly rational (`ExactRMFD`),
the constrained coefficient has an inverse `G`, the models of `pLSCF` (order `n`) and `rmfd2ac`
return — every `np.linalg.solve` they model is exact elimination, sound (`solveChecked_sound`) and
complete (`solveChecked_injective`, `Lemmas/GaussComplete.lean`), so the injectivity hypotheses of
`C05_exact_fit_unique_*` / `_beta` are consequences of "returns" (`C05_e2e_inj_of_run`,
`C05_e2e_Ro_inj_of_run`; the theorems are stated both with them, as the stage theorems are, and
closed, `…_closed`) — and, for the table, the recorded output of `np.linalg.eig`/`np.log`
(`hrec`).  Above the true order the model returns `none` (`C05_e2e_above_none`).
-/
namespace PV.C05
open PV PV.Plscf PV.BlockCompanion Finset Polynomial Matrix

variable {K : Type}

/-! ## Stage 1: the denominator (and numerator) returned for order `n` is the normalised truth -/

section field
variable [Field K] [DecidableEq K] [Inhabited K]

/-- **Denominator.**  Exactly rational spectrum, `G` a right inverse of the constrained
    coefficient (`A_0` for `LO`, `A_n` for `HI`), the model returns (`hrun`: every `solve` was
    exact), the unconstrained block of the returned `M` is injective (the hypothesis of
    `C05_exact_fit_unique_LO/_HI`).  Then the order-`n` denominator is `A_k·G`, entry by entry. -/
theorem C05_e2e_denominator (Nch Nref Nf n : Nat) (hi : Bool) (Om : Nat → Cx K)
    (Sy : Nat → Nat → Nat → Cx K) (A B : Nat → Nat → Nat → K) (G : Nat → Nat → K)
    (hfit : ExactRMFD Nch Nref Nf n Om Sy A B)
    (hG : ∀ a < Nch, ∀ b < Nch,
      ∑ t ∈ range Nch, A (cIdx hi n) a t * G t b = if a = b then 1 else 0)
    (out : OrderOut K) (hrun : plscfOrder Nch Nref Nf n hi Om Sy = some out)
    (hinj : ∀ y : Nat → K,
      (∀ I < n * Nch, ∑ J ∈ range (n * Nch),
          out.M (cOff hi Nch + I) (cOff hi Nch + J) * y J = 0) → ∀ J < n * Nch, y J = 0) :
    ∀ k < n + 1, ∀ a < Nch, ∀ b < Nch,
      out.alpha (k * Nch + a) b = ∑ t ∈ range Nch, A k a t * G t b := by
  have hfit' : ∀ o < Nref, ∀ f < Nf, ∀ c < Nch,
      residRe Nch n Om (Sy o) (fun J c => ∑ k ∈ range Nch, flatA Nch A J k * G k c)
          ((fun o i c => ∑ k ∈ range Nch, B o i k * G k c) o) f c = 0
      ∧ residIm Nch n Om (Sy o) (fun J c => ∑ k ∈ range Nch, flatA Nch A J k * G k c)
          ((fun o i c => ∑ k ∈ range Nch, B o i k * G k c) o) f c = 0 := by
    intro o ho f hf c _
    exact C05_fit_rightmul Nch n Om (Sy o) (flatA Nch A) (B o) G f c
      (fun k hk => exact_resid Nch Nref Nf n Om Sy A B hfit o ho f hf k hk)
  have halpha : ∀ I < (n + 1) * Nch, ∀ c < Nch,
      out.alpha I c = ∑ k ∈ range Nch, flatA Nch A I k * G k c := by
    cases hi with
    | false =>
      refine C05_exact_fit_unique_LO Nch Nref Nf n Om Sy out hrun _ _ hfit' ?_ ?_
      · intro I hI c hc
        have := hG I hI c hc
        simp only [cIdx, Bool.false_eq_true, if_false] at this
        rw [← this]
        apply Finset.sum_congr rfl
        intro t _
        unfold flatA
        rw [Nat.div_eq_of_lt hI, Nat.mod_eq_of_lt hI]
      · simpa [cOff] using hinj
    | true =>
      refine C05_exact_fit_unique_HI Nch Nref Nf n Om Sy out hrun _ _ hfit' ?_ ?_
      · intro I hI c hc
        have := hG I hI c hc
        simp only [cIdx, if_true] at this
        rw [← this]
        apply Finset.sum_congr rfl
        intro t _
        rw [flatA_blk Nch A n I t hI]
      · simpa [cOff] using hinj
  intro k hk a ha b hb
  rw [halpha (k * Nch + a) (blk_lt hk ha) b hb]
  apply Finset.sum_congr rfl
  intro t _
  rw [flatA_blk Nch A k a t ha]

/-- **Numerator.**  With `Ro` injective as well, the numerator returned for every reference row
    is `B_k·G`. -/
theorem C05_e2e_numerator (Nch Nref Nf n : Nat) (hi : Bool) (Om : Nat → Cx K)
    (Sy : Nat → Nat → Nat → Cx K) (A B : Nat → Nat → Nat → K) (G : Nat → Nat → K)
    (hfit : ExactRMFD Nch Nref Nf n Om Sy A B)
    (hG : ∀ a < Nch, ∀ b < Nch,
      ∑ t ∈ range Nch, A (cIdx hi n) a t * G t b = if a = b then 1 else 0)
    (out : OrderOut K) (hrun : plscfOrder Nch Nref Nf n hi Om Sy = some out)
    (hinj : ∀ y : Nat → K,
      (∀ I < n * Nch, ∑ J ∈ range (n * Nch),
          out.M (cOff hi Nch + I) (cOff hi Nch + J) * y J = 0) → ∀ J < n * Nch, y J = 0)
    (hRinj : ∀ y : Nat → K,
      (∀ i < n + 1, ∑ t ∈ range (n + 1), Ro Nf Om i t * y t = 0) → ∀ t < n + 1, y t = 0) :
    ∀ o < Nref, ∀ k < n + 1, ∀ c < Nch,
      (moveaxisBn Nch Nref n out.beta).blk k o c = ∑ t ∈ range Nch, B o k t * G t c := by
  have hden := C05_e2e_denominator Nch Nref Nf n hi Om Sy A B G hfit hG out hrun hinj
  have hfit' : ∀ o < Nref, ∀ f < Nf, ∀ c < Nch,
      residRe Nch n Om (Sy o) (fun J c => ∑ k ∈ range Nch, flatA Nch A J k * G k c)
          ((fun o i c => ∑ k ∈ range Nch, B o i k * G k c) o) f c = 0
      ∧ residIm Nch n Om (Sy o) (fun J c => ∑ k ∈ range Nch, flatA Nch A J k * G k c)
          ((fun o i c => ∑ k ∈ range Nch, B o i k * G k c) o) f c = 0 := by
    intro o ho f hf c _
    exact C05_fit_rightmul Nch n Om (Sy o) (flatA Nch A) (B o) G f c
      (fun k hk => exact_resid Nch Nref Nf n Om Sy A B hfit o ho f hf k hk)
  have halpha : ∀ I < (n + 1) * Nch, ∀ c < Nch,
      out.alpha I c = ∑ k ∈ range Nch, flatA Nch A I k * G k c := by
    intro I hI c hc
    have hm : 0 < Nch := Nat.pos_of_ne_zero (by rintro rfl; simp at hc)
    have hq : I / Nch < n + 1 := (Nat.div_lt_iff_lt_mul hm).mpr hI
    have hr : I % Nch < Nch := Nat.mod_lt _ hm
    have := hden (I / Nch) hq (I % Nch) hr c hc
    rw [Nat.div_add_mod' I Nch] at this
    rw [this]
    rfl
  intro o ho k hk c hc
  exact C05_exact_fit_beta Nch Nref Nf n hi Om Sy out hrun _ _ hfit' halpha hRinj o ho k hk c hc

/-! ## Stage 2: `rmfd2ac` of that denominator — characteristic polynomial and eigenvalues -/

/-- **`C05_e2e_roots`.**  Under the hypotheses of `C05_e2e_denominator` and the exact-solve
    contract of `rmfd2ac` (`hrm`: the model returns on the reshaped output of `pLSCF`):

    1. the denominator handed to `rmfd2ac` is the normalised truth `A_k·A_c⁻¹`;
    2. the state matrix is `(n+1)·Nch` square;
    3. the last coefficient `A_n` is invertible (also for `LO`) and
       `det A_n · charpoly(Am) = X^Nch · det A(X)` — for `HI` (`c = n`) this is
       `charpoly = X^Nch · det A(X) / det A_c`;
    4. over every field `L ⊇ K` (`f : K →+* L`; `ℂ` for the eigenvalues `np.linalg.eig` looks for)
       the multiset of eigenvalues is `Nch` zeros together with the roots of `det A(z)`, with
       multiplicity;
    5. `det A(X)` has degree exactly `n·Nch`;
    6. `LO`: `det A(0) ≠ 0` — no root of `det A` is zero, the zero eigenvalue has multiplicity
       exactly `Nch`. -/
theorem C05_e2e_roots {L : Type} [Field L] (f : K →+* L) (Nch Nref Nf n : Nat) (hi : Bool)
    (Om : Nat → Cx K) (Sy : Nat → Nat → Nat → Cx K) (A B : Nat → Nat → Nat → K)
    (G : Nat → Nat → K)
    (hfit : ExactRMFD Nch Nref Nf n Om Sy A B)
    (hG : ∀ a < Nch, ∀ b < Nch,
      ∑ t ∈ range Nch, A (cIdx hi n) a t * G t b = if a = b then 1 else 0)
    (out : OrderOut K) (hrun : plscfOrder Nch Nref Nf n hi Om Sy = some out)
    (hinj : ∀ y : Nat → K,
      (∀ I < n * Nch, ∑ J ∈ range (n * Nch),
          out.M (cOff hi Nch + I) (cOff hi Nch + J) * y J = 0) → ∀ J < n * Nch, y J = 0)
    (Am Cm : Mat K)
    (hrm : rmfd2ac (reshapeAd Nch n out.alpha) (moveaxisBn Nch Nref n out.beta) = some (Am, Cm)) :
    (∀ k < n + 1, ∀ a < Nch, ∀ b < Nch,
        (reshapeAd Nch n out.alpha).blk k a b = ∑ t ∈ range Nch, A k a t * G t b)
    ∧ Am.r = (n + 1) * Nch ∧ Am.c = (n + 1) * Nch
    ∧ (blkMx Nch A n).det ≠ 0
    ∧ C (blkMx Nch A n).det * (toMx ((n + 1) * Nch) ((n + 1) * Nch) Am.e).charpoly
        = (X : K[X]) ^ Nch * (polyMx n Nch A).det
    ∧ ((toMx ((n + 1) * Nch) ((n + 1) * Nch) Am.e).charpoly.map f).roots
        = Multiset.replicate Nch 0 + ((polyMx n Nch A).det.map f).roots
    ∧ (polyMx n Nch A).det.natDegree = n * Nch
    ∧ (hi = false → (evalMx n Nch A 0).det ≠ 0) := by
  have hden := C05_e2e_denominator Nch Nref Nf n hi Om Sy A B G hfit hG out hrun hinj
  have hAd : ∀ k < n + 1, ∀ a < Nch, ∀ b < Nch,
      (reshapeAd Nch n out.alpha).blk k a b = ∑ t ∈ range Nch, A k a t * G t b := hden
  obtain ⟨P, -, -, hsolve⟩ := C05_rmfd2ac_solves (reshapeAd Nch n out.alpha)
    (moveaxisBn Nch Nref n out.beta) n rfl rfl Am Cm hrm
  obtain ⟨hr, hc, hchar⟩ := C05_rmfd2ac_charpoly (reshapeAd Nch n out.alpha)
    (moveaxisBn Nch Nref n out.beta) n rfl rfl Am Cm hrm
  change ∀ i < n, ∀ a < Nch, ∀ b < Nch,
    ∑ t ∈ range Nch, (reshapeAd Nch n out.alpha).blk n a t * P i t b
      = (reshapeAd Nch n out.alpha).blk (n - 1 - i) a b at hsolve
  change Am.r = (n + 1) * Nch at hr
  change Am.c = (n + 1) * Nch at hc
  change C (blkMx Nch (reshapeAd Nch n out.alpha).blk n).det
      * (toMx ((n + 1) * Nch) ((n + 1) * Nch) Am.e).charpoly
    = (X : K[X]) ^ Nch * (polyMx n Nch (reshapeAd Nch n out.alpha).blk).det at hchar
  -- the constrained coefficient times `G` is the identity
  have hcg : blkMx Nch A (cIdx hi n) * gMx Nch G = 1 := blkMx_mul_gMx_one Nch A G _ hG
  have hdg : (gMx Nch G).det ≠ 0 := by
    intro h0
    have := congrArg Matrix.det hcg
    rw [Matrix.det_mul, h0, mul_zero, Matrix.det_one] at this
    exact zero_ne_one this
  have hblk : ∀ k < n + 1, blkMx Nch (reshapeAd Nch n out.alpha).blk k = blkMx Nch A k * gMx Nch G :=
    fun k hk => blkMx_mul_right Nch _ A G k (hAd k hk)
  -- the last coefficient of the normalised stack is invertible
  have hlast : (blkMx Nch (reshapeAd Nch n out.alpha).blk n).det ≠ 0 := by
    have hone : ∃ Q : Matrix (Fin Nch) (Fin Nch) K,
        blkMx Nch (reshapeAd Nch n out.alpha).blk n * Q = 1 := by
      cases hi with
      | true =>
        refine ⟨1, ?_⟩
        rw [Matrix.mul_one, hblk n (Nat.lt_succ_self n)]
        simpa [cIdx] using hcg
      | false =>
        rcases Nat.eq_zero_or_pos n with h0 | hpos
        · subst h0
          refine ⟨1, ?_⟩
          rw [Matrix.mul_one, hblk 0 (by omega)]
          simpa [cIdx] using hcg
        · refine ⟨blkMx Nch P (n - 1), ?_⟩
          rw [blk_solve n Nch _ P hsolve (n - 1) (by omega)]
          have e : n - 1 - (n - 1) = 0 := by omega
          rw [e, hblk 0 (by omega)]
          simpa [cIdx] using hcg
    obtain ⟨Q, hQ⟩ := hone
    intro h0
    have := congrArg Matrix.det hQ
    rw [Matrix.det_mul, h0, zero_mul, Matrix.det_one] at this
    exact zero_ne_one this
  have hAn : (blkMx Nch A n).det ≠ 0 := by
    rw [hblk n (Nat.lt_succ_self n), Matrix.det_mul] at hlast
    exact left_ne_zero_of_mul hlast
  -- cancel `det G`
  have hchar' : C (blkMx Nch A n).det * (toMx ((n + 1) * Nch) ((n + 1) * Nch) Am.e).charpoly
      = (X : K[X]) ^ Nch * (polyMx n Nch A).det := by
    rw [hblk n (Nat.lt_succ_self n), Matrix.det_mul,
      det_polyMx_mul_right n Nch _ A G hAd, C_mul] at hchar
    have hC : (C (gMx Nch G).det : K[X]) ≠ 0 := C_ne_zero.mpr hdg
    apply mul_right_cancel₀ hC
    calc C (blkMx Nch A n).det * (toMx ((n + 1) * Nch) ((n + 1) * Nch) Am.e).charpoly
            * C (gMx Nch G).det
          = C (blkMx Nch A n).det * C (gMx Nch G).det
              * (toMx ((n + 1) * Nch) ((n + 1) * Nch) Am.e).charpoly := by ring
      _ = (X : K[X]) ^ Nch * ((polyMx n Nch A).det * C (gMx Nch G).det) := hchar
      _ = (X : K[X]) ^ Nch * (polyMx n Nch A).det * C (gMx Nch G).det := by ring
  have hmonic := Matrix.charpoly_monic (toMx ((n + 1) * Nch) ((n + 1) * Nch) Am.e)
  refine ⟨hAd, hr, hc, hAn, hchar', ?_, ?_, ?_⟩
  · exact (roots_of_scaled f _ hAn Nch _ _ hmonic.ne_zero hchar').2
  · refine natDegree_of_scaled _ hAn Nch (n * Nch) _ _ hmonic ?_ hchar'
    rw [Matrix.charpoly_natDegree_eq_dim, Fintype.card_fin, Nat.succ_mul, Nat.add_comm]
  · intro hlo
    subst hlo
    rw [evalMx_zero]
    intro h0
    have := congrArg Matrix.det hcg
    simp only [cIdx, Bool.false_eq_true, if_false] at this
    rw [Matrix.det_mul, h0, zero_mul, Matrix.det_one] at this
    exact zero_ne_one this

/-- The same in the normalised form of the property text: the polynomial matrix of the stack
    handed to `rmfd2ac` has determinant `det A(X) / det A_c`, and under `HI` the characteristic
    polynomial is exactly `X^Nch · det A(X) / det A_c`. -/
theorem C05_e2e_charpoly_normalised (Nch Nref Nf n : Nat) (hi : Bool)
    (Om : Nat → Cx K) (Sy : Nat → Nat → Nat → Cx K) (A B : Nat → Nat → Nat → K)
    (G : Nat → Nat → K)
    (hfit : ExactRMFD Nch Nref Nf n Om Sy A B)
    (hG : ∀ a < Nch, ∀ b < Nch,
      ∑ t ∈ range Nch, A (cIdx hi n) a t * G t b = if a = b then 1 else 0)
    (out : OrderOut K) (hrun : plscfOrder Nch Nref Nf n hi Om Sy = some out)
    (hinj : ∀ y : Nat → K,
      (∀ I < n * Nch, ∑ J ∈ range (n * Nch),
          out.M (cOff hi Nch + I) (cOff hi Nch + J) * y J = 0) → ∀ J < n * Nch, y J = 0)
    (Am Cm : Mat K)
    (hrm : rmfd2ac (reshapeAd Nch n out.alpha) (moveaxisBn Nch Nref n out.beta) = some (Am, Cm)) :
    (polyMx n Nch (reshapeAd Nch n out.alpha).blk).det
        = (polyMx n Nch A).det * C ((blkMx Nch A (cIdx hi n)).det)⁻¹
    ∧ (hi = true → (toMx ((n + 1) * Nch) ((n + 1) * Nch) Am.e).charpoly
        = (X : K[X]) ^ Nch * ((polyMx n Nch A).det * C ((blkMx Nch A n).det)⁻¹)) := by
  obtain ⟨hAd, -, -, hAn, hchar, -⟩ := C05_e2e_roots (RingHom.id K) Nch Nref Nf n hi Om Sy A B G
    hfit hG out hrun hinj Am Cm hrm
  have hcg : blkMx Nch A (cIdx hi n) * gMx Nch G = 1 := blkMx_mul_gMx_one Nch A G _ hG
  have hdet : (blkMx Nch A (cIdx hi n)).det * (gMx Nch G).det = 1 := by
    rw [← Matrix.det_mul, hcg, Matrix.det_one]
  have hg : (gMx Nch G).det = ((blkMx Nch A (cIdx hi n)).det)⁻¹ :=
    eq_inv_of_mul_eq_one_right hdet
  refine ⟨by rw [det_polyMx_mul_right n Nch _ A G hAd, hg], ?_⟩
  intro hhi
  have hC : (C (blkMx Nch A n).det : K[X]) ≠ 0 := C_ne_zero.mpr hAn
  apply mul_left_cancel₀ hC
  rw [hchar]
  have : (C (blkMx Nch A n).det : K[X]) * C ((blkMx Nch A n).det)⁻¹ = 1 := by
    rw [← C_mul, mul_inv_cancel₀ hAn, C_1]
  calc (X : K[X]) ^ Nch * (polyMx n Nch A).det
        = (X : K[X]) ^ Nch * (polyMx n Nch A).det
            * (C (blkMx Nch A n).det * C ((blkMx Nch A n).det)⁻¹) := by rw [this, mul_one]
    _ = _ := by ring

omit [DecidableEq K] [Inhabited K] in
/-- **The `z ↔ 1/z` exchange** between the two conventions (never applied by the code): for the
    reversed stack `A_rev[k] = A[n-k]` and `λ ≠ 0`, `A_rev(1/λ) = λ^(-n)·A(λ)`; hence `1/λ` is a
    root of `det A_rev` iff `λ` is a root of `det A`, and `0` is a root of `det A_rev` iff `A_n`
    is singular. -/
theorem C05_e2e_reciprocal (n m : Nat) (A : Nat → Nat → Nat → K) (lam : K) (hlam : lam ≠ 0) :
    evalMx n m (fun k => A (n - k)) lam⁻¹ = (lam⁻¹) ^ n • evalMx n m A lam
    ∧ ((evalMx n m (fun k => A (n - k)) lam⁻¹).det = 0 ↔ (evalMx n m A lam).det = 0)
    ∧ ((evalMx n m (fun k => A (n - k)) 0).det = 0 ↔ (blkMx m A n).det = 0) := by
  have h1 : evalMx n m (fun k => A (n - k)) lam⁻¹ = (lam⁻¹) ^ n • evalMx n m A lam := by
    unfold evalMx
    rw [← Finset.sum_range_reflect, Finset.smul_sum]
    apply Finset.sum_congr rfl
    intro k hk
    have hk' : k < n + 1 := mem_range.mp hk
    have e1 : n + 1 - 1 - k = n - k := by omega
    have e2 : blkMx m (fun k => A (n - k)) (n - k) = blkMx m A k := by
      unfold blkMx
      have : n - (n - k) = k := by omega
      simp only [this]
    rw [e1, e2, smul_smul]
    congr 1
    have : n = (n - k) + k := by omega
    conv_rhs => rw [this, pow_add, mul_assoc, ← mul_pow, inv_mul_cancel₀ hlam, one_pow, mul_one]
  refine ⟨h1, ?_, ?_⟩
  · rw [h1, Matrix.det_smul]
    have : (lam⁻¹ ^ n) ^ Fintype.card (Fin m) ≠ 0 := pow_ne_zero _ (pow_ne_zero _ (inv_ne_zero hlam))
    rw [mul_eq_zero]
    constructor
    · rintro (h | h)
      · exact absurd h this
      · exact h
    · intro h; exact Or.inr h
  · rw [evalMx_zero]
    have : blkMx m (fun k => A (n - k)) 0 = blkMx m A n := by
      unfold blkMx; simp
    rw [this]

end field


/-! ## Stage 3: the pole table of order `n` -/

section ordered
variable [Field K] [LinearOrder K] [IsStrictOrderedRing K] [Inhabited K]

/-- **`C05_e2e_table`.**  Hypotheses of `C05_e2e_roots`, plus the recorded-`eig` contract: `eigs`
    is what `np.linalg.eig(Am)` returned for the matrix `rmfd2ac` built, and its eigenvalues —
    recorded pairs `(re, im)` read in a field `L ⊇ K` with `I² = -1` (`ℂ`) — are exactly the roots
    of the characteristic polynomial of `Am`, with multiplicity (`hrec`).  `(Cm, eigs)` is entry
    `k` of the per-order inputs of `pLSCF_poles` (`k = n-1` in the code), `T` the padded tables.

    Then
    1. the records with `λ ≠ 0` are exactly the non-zero roots of `det A(z)`, each as often as its
       multiplicity, and there are `Nch + mult₀(det A)` records with `λ = 0`;
    2. row `r` of column `k` of the pole table is NaN beyond the record, NaN for `λ_r = 0`, NaN
       when `Re μ_r > 0` (`μ_r = log λ_r/Δt`), and otherwise `μ_r` — shifted by the window
       correction `1/(τΔt)` when `methodSy = "cor"`;
    3. the frequency cell is `|μ|/2π` of the pole cell, the damping cell `-Re μ/|μ|` of it (NaN
       for `μ = 0`), the mode-shape cell the model's `phiCell` of record `r`: NaN exactly where the
       pole cell is, and nothing else in the column. -/
theorem C05_e2e_table {L : Type} [Field L] [DecidableEq L] (f : K →+* L) (I : L)
    (hI : I * I = -1) (Nch Nref Nf n : Nat) (hi : Bool)
    (Om : Nat → Cx K) (Sy : Nat → Nat → Nat → Cx K) (A B : Nat → Nat → Nat → K)
    (G : Nat → Nat → K)
    (hfit : ExactRMFD Nch Nref Nf n Om Sy A B)
    (hG : ∀ a < Nch, ∀ b < Nch,
      ∑ t ∈ range Nch, A (cIdx hi n) a t * G t b = if a = b then 1 else 0)
    (out : OrderOut K) (hrun : plscfOrder Nch Nref Nf n hi Om Sy = some out)
    (hinj : ∀ y : Nat → K,
      (∀ I < n * Nch, ∑ J ∈ range (n * Nch),
          out.M (cOff hi Nch + I) (cOff hi Nch + J) * y J = 0) → ∀ J < n * Nch, y J = 0)
    (Am Cm : Mat K)
    (hrm : rmfd2ac (reshapeAd Nch n out.alpha) (moveaxisBn Nch Nref n out.beta) = some (Am, Cm))
    (sqrt : K → K) (twoPi invdt : K) (cor : Bool) (invTau : K)
    (inputs : List (Mat K × List (EigIn K))) (T : Tables K)
    (hpad : padTables (inputs.map fun p => ac2mpPoly sqrt twoPi invdt cor invTau p.1 p.2) = .ok T)
    (k : Nat) (hk : k < inputs.length) (eigs : List (EigIn K)) (hin : inputs[k] = (Cm, eigs))
    (hrec : Multiset.map (fun e => emb f I e.lamd) (eigs : Multiset (EigIn K))
      = ((toMx ((n + 1) * Nch) ((n + 1) * Nch) Am.e).charpoly.map f).roots) :
    Multiset.map (fun e => emb f I e.lamd)
        ((eigs.filter fun e => !decide (e.lamd.re = 0 ∧ e.lamd.im = 0) : List (EigIn K))
          : Multiset (EigIn K))
      = ((polyMx n Nch A).det.map f).roots.filter (· ≠ 0)
    ∧ (eigs.filter fun e => decide (e.lamd.re = 0 ∧ e.lamd.im = 0)).length
        = Nch + ((polyMx n Nch A).det.map f).roots.count 0
    ∧ ∀ r,
        cellOf T.lam r k = (eigs[r]?).bind (fun e =>
          if e.lamd.re = 0 ∧ e.lamd.im = 0 then none
          else if 0 < e.logv.re * invdt then none
          else some (if cor then ⟨e.logv.re * invdt - invTau, e.logv.im * invdt⟩
                     else ⟨e.logv.re * invdt, e.logv.im * invdt⟩))
        ∧ cellOf T.fn r k
            = (cellOf T.lam r k).map (fun l => sqrt (l.re * l.re + l.im * l.im) / twoPi)
        ∧ cellOf T.xi r k = (cellOf T.lam r k).bind (fun l =>
            if l.re = 0 ∧ l.im = 0 then none
            else some (-(l.re / sqrt (l.re * l.re + l.im * l.im))))
        ∧ cellOf T.phi r k = (eigs[r]?).bind (fun e => phiCell Cm (lambdOf invdt e) e.q)
        ∧ (eigs.length ≤ r → cellOf T.lam r k = none ∧ cellOf T.fn r k = none
            ∧ cellOf T.xi r k = none ∧ cellOf T.phi r k = none) := by
  obtain ⟨-, -, -, -, -, hroots, -, -⟩ := C05_e2e_roots f Nch Nref Nf n hi Om Sy A B G
    hfit hG out hrun hinj Am Cm hrm
  rw [hroots] at hrec
  refine ⟨?_, ?_, ?_⟩
  · refine nonzero_records (fun e => emb f I e.lamd) eigs Nch _ _ ?_ hrec
    intro e
    rw [Ne, emb_eq_zero f I hI]
    simp
    tauto
  · refine zero_records (fun e => emb f I e.lamd) eigs Nch _ _ ?_ hrec
    intro e
    rw [emb_eq_zero f I hI]
    simp
  · intro r
    have hk' : k < (inputs.map fun p => ac2mpPoly sqrt twoPi invdt cor invTau p.1 p.2).length := by
      simpa using hk
    obtain ⟨hfn, hxi, hlam, hphi⟩ := C05_table _ T hpad k hk' r
    have hcol := C05_column sqrt twoPi invdt cor invTau (inputs[k]).1 (inputs[k]).2 r
    simp only [List.getElem_map] at hfn hxi hlam hphi
    rw [hfn, hxi, hlam, hphi, hcol.1, hcol.2.1, hcol.2.2.1, hcol.2.2.2, hin]
    simp only
    cases he : eigs[r]? with
    | none =>
      simp
    | some e =>
      have hlen : ¬ eigs.length ≤ r := by
        intro h
        rw [List.getElem?_eq_none_iff.mpr h] at he
        exact absurd he (by simp)
      simp only [Option.map_some, Option.join_some, Option.bind_some]
      refine ⟨?_, ?_, ?_, trivial, fun h => absurd h hlen⟩
      · unfold lambdOf toContinuousBlank blanked
        by_cases h0 : e.lamd.re = 0 ∧ e.lamd.im = 0
        · simp [h0]
        · by_cases hp : 0 < e.logv.re * invdt
          · simp [h0, hp]
          · cases cor <;> simp [h0, hp]
      · cases toContinuousBlank cor invTau (lambdOf invdt e) with
        | none => rfl
        | some l => rfl
      · cases toContinuousBlank cor invTau (lambdOf invdt e) with
        | none => rfl
        | some l =>
          simp [xiCell, Plscf.xiOf, Cx.normSq]

/-- **Identical NaN pattern in the four tables.**  For the column of an order whose inputs are
    what `rmfd2ac` returned (`Am`, `Cm`) and a recorded eigen-decomposition in which
    * the eigenvectors recorded for `λ = 0` are exact null vectors of `Am` (`hq0`),
    * the output `Cm·q` of every record with `λ ≠ 0` is not the zero vector (`hobs`; for an exact
      eigenvector `q = [λⁿw; …; w]` it is `λ·B(λ)·w`, which vanishes only when the numerator
      cancels the pole), and
    * no record with `λ ≠ 0` has the continuous-time value `log λ/Δt` (minus the window shift)
      exactly `0` (`hnz`; `λ = 1` without window correction),
    a cell is NaN in the frequency, damping and mode-shape tables exactly when it is NaN in the
    pole table. -/
theorem C05_e2e_nan_pattern (Ad Bn : Coefs K) (p : Nat) (hA : Ad.len = p + 1)
    (hB : Bn.len = p + 1) (Am Cm : Mat K) (hrm : rmfd2ac Ad Bn = some (Am, Cm))
    (sqrt : K → K) (twoPi invdt : K) (cor : Bool) (invTau : K)
    (inputs : List (Mat K × List (EigIn K))) (T : Tables K)
    (hpad : padTables (inputs.map fun p => ac2mpPoly sqrt twoPi invdt cor invTau p.1 p.2) = .ok T)
    (k : Nat) (hk : k < inputs.length) (eigs : List (EigIn K)) (hin : inputs[k] = (Cm, eigs))
    (hq0 : ∀ e ∈ eigs, (e.lamd.re = 0 ∧ e.lamd.im = 0) →
      (∀ r < (p + 1) * Bn.c, mulVec Am (fun t => (e.q.getD t ⟨0, 0⟩).re) r = 0)
        ∧ ∀ r < (p + 1) * Bn.c, mulVec Am (fun t => (e.q.getD t ⟨0, 0⟩).im) r = 0)
    (hobs : ∀ e ∈ eigs, ¬ (e.lamd.re = 0 ∧ e.lamd.im = 0) →
      ∃ y ∈ phiRaw Cm e.q, ¬ (y.re = 0 ∧ y.im = 0))
    (hnz : ∀ e ∈ eigs, ¬ (e.lamd.re = 0 ∧ e.lamd.im = 0) →
      ¬ (e.logv.re * invdt - (if cor then invTau else 0) = 0 ∧ e.logv.im * invdt = 0)) (r : Nat) :
    (cellOf T.fn r k).isSome = (cellOf T.lam r k).isSome
    ∧ (cellOf T.xi r k).isSome = (cellOf T.lam r k).isSome
    ∧ (cellOf T.phi r k).isSome = (cellOf T.lam r k).isSome := by
  obtain ⟨P, hAm, hCm, -⟩ := C05_rmfd2ac_solves Ad Bn p hA hB Am Cm hrm
  have hk' : k < (inputs.map fun p => ac2mpPoly sqrt twoPi invdt cor invTau p.1 p.2).length := by
    simpa using hk
  obtain ⟨hfn, hxi, hlam, hphi⟩ := C05_table _ T hpad k hk' r
  have hcol := C05_column sqrt twoPi invdt cor invTau (inputs[k]).1 (inputs[k]).2 r
  simp only [List.getElem_map] at hfn hxi hlam hphi
  rw [hfn, hxi, hlam, hphi, hcol.1, hcol.2.1, hcol.2.2.1, hcol.2.2.2, hin]
  simp only
  cases he : eigs[r]? with
  | none => simp
  | some e =>
    have hmem : e ∈ eigs := List.mem_of_getElem? he
    simp only [Option.map_some, Option.join_some]
    refine ⟨?_, ?_, ?_⟩
    · cases toContinuousBlank cor invTau (lambdOf invdt e) <;> rfl
    · cases hl : toContinuousBlank cor invTau (lambdOf invdt e) with
      | none => rfl
      | some l =>
        have hne : ¬ (l.re = 0 ∧ l.im = 0) := by
          have h0 : ¬ (e.lamd.re = 0 ∧ e.lamd.im = 0) := by
            intro h0
            rw [(C05_zero_eig_nan sqrt twoPi invdt cor invTau e h0).1] at hl
            exact absurd hl (by simp)
          have hz := hnz e hmem h0
          unfold lambdOf toContinuousBlank at hl
          split at hl
          · simp at hl
          · rename_i l' hl'
            split at hl' <;> simp at hl'
            subst hl'
            split at hl
            · simp at hl
            · injection hl with hl
              subst hl
              cases cor <;> simpa using hz
        simp [xiCell, hne]
    · by_cases h0 : e.lamd.re = 0 ∧ e.lamd.im = 0
      · have hnone : toContinuousBlank cor invTau (lambdOf invdt e) = none :=
          (C05_zero_eig_nan sqrt twoPi invdt cor invTau e h0).1
        obtain ⟨hre, him⟩ := hq0 e hmem h0
        subst hAm hCm
        rw [hnone, C05_zero_eig_phi_nan p Bn.r Bn.c Bn.blk P e.q _ hre him]
        rfl
      · have hcell := (C05_cell_iff sqrt twoPi invdt cor invTau e).1
        by_cases hp : 0 < e.logv.re * invdt
        · have hnone : toContinuousBlank cor invTau (lambdOf invdt e) = none := by
            rw [← Option.not_isSome_iff_eq_none, hcell]
            exact fun h => h.2 hp
          have hbl : blanked (lambdOf invdt e) = true := by
            simp [lambdOf, h0, blanked, hp]
          rw [hnone, (phiCell_eq_none_iff Cm _ e.q).mpr (Or.inl hbl)]
          rfl
        · have hsome : (toContinuousBlank cor invTau (lambdOf invdt e)).isSome = true :=
            hcell.mpr ⟨h0, hp⟩
          rw [hsome]
          have hbl : ¬ blanked (lambdOf invdt e) = true := by
            simp [lambdOf, h0, blanked, hp]
          obtain ⟨y, hy, hyne⟩ := hobs e hmem h0
          rw [Option.isSome_iff_ne_none, Ne, phiCell_eq_none_iff]
          rintro (h | h)
          · exact hbl h
          · exact hyne (h y hy)

end ordered

/-! ## Orders above `n` (`ordmax = n + extra`) -/

section above
variable [Field K]

/-- **The unconstrained block is singular at every order above `n`.**  For an exactly rational
    spectrum of order `n` (constrained coefficient invertible, `Nch ≥ 1`), every `extra ≥ 1` and
    every exact result `X` of the `solve(Ro, So)` calls at order `n' = n + extra`: the block
    `M[:n'·Nch, :n'·Nch]` (`HI`) / `M[Nch:, Nch:]` (`LO`) of the normal matrix `pLSCF` accumulates
    has an explicit non-zero null vector — the coefficients of `A(z)` padded with zeros (`HI`), of
    `z·A(z)` (`LO`).  So the injectivity hypothesis of `C05_exact_fit_unique_LO/_HI` is false
    there, no recovery is claimed, and `np.linalg.solve` is called on an exactly singular
    matrix. -/
theorem C05_e2e_above_singular (Nch Nref Nf n extra : Nat) (hextra : 1 ≤ extra) (hNch : 0 < Nch)
    (hi : Bool) (Om : Nat → Cx K) (Sy : Nat → Nat → Nat → Cx K) (A B : Nat → Nat → Nat → K)
    (G : Nat → Nat → K)
    (hfit : ExactRMFD Nch Nref Nf n Om Sy A B)
    (hG : ∀ a < Nch, ∀ b < Nch,
      ∑ t ∈ range Nch, A (cIdx hi n) a t * G t b = if a = b then 1 else 0)
    (X : Nat → Nat → Nat → K)
    (hX : ∀ o < Nref, ∀ i < n + extra + 1, ∀ J < (n + extra + 1) * Nch,
      sumTo (n + extra + 1) (fun t => Ro Nf Om i t * X o t J) = So Nch Nf Om (Sy o) i J) :
    ∃ y : Nat → K,
      (∀ I < (n + extra) * Nch, ∑ J ∈ range ((n + extra) * Nch),
          Mmat Nch Nref Nf (n + extra) Om Sy X (cOff hi Nch + I) (cOff hi Nch + J) * y J = 0)
      ∧ ∃ J < (n + extra) * Nch, y J ≠ 0 := by
  -- a non-zero entry in row 0 of the constrained coefficient
  obtain ⟨t, ht, hAt⟩ : ∃ t < Nch, A (cIdx hi n) 0 t ≠ 0 := by
    by_contra hcon
    have hz : ∀ t ∈ range Nch, A (cIdx hi n) 0 t * G t 0 = 0 := by
      intro t ht
      have : A (cIdx hi n) 0 t = 0 := by
        by_contra h
        exact hcon ⟨t, mem_range.mp ht, h⟩
      rw [this, zero_mul]
    have := hG 0 hNch 0 hNch
    rw [Finset.sum_eq_zero hz] at this
    simp at this
  cases hi with
  | true =>
    simp only [cIdx, if_true] at hAt
    have hfit' := exact_pad Nch Nref Nf n extra Om Sy A B hfit
    have hM := C05_exact_fit Nch Nref Nf (n + extra) Om Sy X hX
      (flatA Nch (padStack n A)) (padStackB n B)
      (exact_resid Nch Nref Nf (n + extra) Om Sy _ _ hfit')
    refine ⟨fun J => flatA Nch (padStack n A) J t, ?_, ?_⟩
    · intro I hI
      have := hM I (by rw [Nat.succ_mul]; omega) t ht
      rw [sumTo_eq, Nat.succ_mul, Finset.sum_range_add] at this
      have hz : ∑ x ∈ range Nch, Mmat Nch Nref Nf (n + extra) Om Sy X I ((n + extra) * Nch + x)
          * flatA Nch (padStack n A) ((n + extra) * Nch + x) t = 0 := by
        apply Finset.sum_eq_zero
        intro x hx
        rw [flatA_blk Nch _ (n + extra) x t (mem_range.mp hx)]
        unfold padStack
        rw [if_neg (by omega), mul_zero]
      rw [hz, add_zero] at this
      simpa [cOff] using this
    · refine ⟨n * Nch + 0, ?_, ?_⟩
      · have : n * Nch < (n + extra) * Nch := Nat.mul_lt_mul_of_pos_right (by omega) hNch
        omega
      · show flatA Nch (padStack n A) (n * Nch + 0) t ≠ 0
        rw [flatA_blk Nch _ n 0 t hNch]
        unfold padStack
        rw [if_pos (Nat.lt_succ_self n)]
        exact hAt
  | false =>
    simp only [cIdx, Bool.false_eq_true, if_false] at hAt
    obtain ⟨e, rfl⟩ : ∃ e, extra = e + 1 := ⟨extra - 1, by omega⟩
    have hn : n + (e + 1) = n + 1 + e := by omega
    rw [hn] at hX ⊢
    have hfit' := exact_pad Nch Nref Nf (n + 1) e Om Sy _ _
      (exact_shift Nch Nref Nf n Om Sy A B hfit)
    have hM := C05_exact_fit Nch Nref Nf (n + 1 + e) Om Sy X hX
      (flatA Nch (padStack (n + 1) (shiftStack A))) (padStackB (n + 1) (shiftStackB B))
      (exact_resid Nch Nref Nf (n + 1 + e) Om Sy _ _ hfit')
    refine ⟨fun J => flatA Nch (padStack (n + 1) (shiftStack A)) (Nch + J) t, ?_, ?_⟩
    · intro I hI
      have := hM (Nch + I) (by rw [Nat.succ_mul]; omega) t ht
      have hd : (n + 1 + e + 1) * Nch = Nch + (n + 1 + e) * Nch := by
        rw [Nat.succ_mul, Nat.add_comm]
      rw [sumTo_eq, hd, Finset.sum_range_add] at this
      have hz : ∑ x ∈ range Nch, Mmat Nch Nref Nf (n + 1 + e) Om Sy X (Nch + I) x
          * flatA Nch (padStack (n + 1) (shiftStack A)) x t = 0 := by
        apply Finset.sum_eq_zero
        intro x hx
        have hx' := mem_range.mp hx
        unfold flatA padStack shiftStack
        rw [Nat.div_eq_of_lt hx']
        simp
      rw [hz, zero_add] at this
      simpa [cOff] using this
    · refine ⟨0, Nat.mul_pos (by omega) hNch, ?_⟩
      show flatA Nch (padStack (n + 1) (shiftStack A)) (Nch + 0) t ≠ 0
      have : Nch + 0 = 1 * Nch + 0 := by omega
      rw [this, flatA_blk Nch _ 1 0 t hNch]
      unfold padStack shiftStack
      simpa using hAt

variable [DecidableEq K] [Inhabited K]

/-- a returned order exhibits the constrained solve it made: `solveChecked` on the unconstrained
    block of the returned `M` returned -/
theorem C05_plscfOrder_block_solve (Nch Nref Nf n : Nat) (hi : Bool)
    (Om : Nat → Cx K) (Sy : Nat → Nat → Nat → Cx K) (out : OrderOut K)
    (h : plscfOrder Nch Nref Nf n hi Om Sy = some out) :
    ∃ Z, solveChecked (n * Nch) Nch
        (fun I J => - out.M (cOff hi Nch + I) (cOff hi Nch + J))
        (fun I c => out.M (cOff hi Nch + I) (if hi then n * Nch + c else c)) = some Z := by
  unfold plscfOrder at h
  dsimp only at h
  split at h
  · exact absurd h (by simp)
  · split at h
    · exact absurd h (by simp)
    · rename_i Z hZs
      split at h
      · exact absurd h (by simp)
      · injection h with h
        subst h
        refine ⟨Z, ?_⟩
        cases hi
        · simp only [Bool.false_eq_true, ↓reduceIte, cOff] at hZs ⊢
          exact hZs
        · simp only [↓reduceIte, cOff, Nat.zero_add] at hZs ⊢
          exact hZs

/-- the step from the singular block to the model's value, for any complete elimination
    (`hcomplete`: `solveChecked` returns only for an injective matrix — proved for the model's
    `gaussJordan` in `Lemmas/GaussComplete.lean`, `solveChecked_injective`) -/
theorem C05_e2e_above_none_of_complete
    (hcomplete : ∀ (d c : Nat) (M R X : Nat → Nat → K), solveChecked d c M R = some X →
      ∀ y : Nat → K, (∀ I < d, ∑ J ∈ range d, M I J * y J = 0) → ∀ J < d, y J = 0)
    (Nch Nref Nf n extra : Nat) (hextra : 1 ≤ extra) (hNch : 0 < Nch)
    (hi : Bool) (Om : Nat → Cx K) (Sy : Nat → Nat → Nat → Cx K) (A B : Nat → Nat → Nat → K)
    (G : Nat → Nat → K)
    (hfit : ExactRMFD Nch Nref Nf n Om Sy A B)
    (hG : ∀ a < Nch, ∀ b < Nch,
      ∑ t ∈ range Nch, A (cIdx hi n) a t * G t b = if a = b then 1 else 0) :
    plscfOrder Nch Nref Nf (n + extra) hi Om Sy = none := by
  cases hrun' : plscfOrder Nch Nref Nf (n + extra) hi Om Sy with
  | none => rfl
  | some out' =>
    exfalso
    obtain ⟨X, Z', cert⟩ := plscfOrder_sound Nch Nref Nf (n + extra) hi Om Sy out' hrun'
    obtain ⟨y, hy0, J, hJ, hyJ⟩ := C05_e2e_above_singular Nch Nref Nf n extra hextra hNch hi Om Sy
      A B G hfit hG X cert.hX
    obtain ⟨Z, hZ⟩ := C05_plscfOrder_block_solve Nch Nref Nf (n + extra) hi Om Sy out' hrun'
    refine hyJ (hcomplete _ _ _ _ Z hZ y ?_ J hJ)
    intro I hI
    have hoff : cOff hi Nch ≤ Nch := by unfold cOff; split <;> omega
    have := hy0 I hI
    rw [← neg_eq_zero, ← Finset.sum_neg_distrib] at this
    rw [← this]
    apply Finset.sum_congr rfl
    intro J hJ'
    have hJ'' := mem_range.mp hJ'
    rw [cert.hM _ (by rw [Nat.succ_mul]; omega) _ (by rw [Nat.succ_mul]; omega)]
    ring

/-- **What the model does above `n`.**  For an exactly rational spectrum of order `n` the model
    returns `none` at every order `n + extra`, `extra ≥ 1`, for both conventions: the constrained
    solve meets an exactly singular matrix (`C05_e2e_above_singular`) and the exact elimination
    returns only for injective matrices (`solveChecked_injective`, the imperative `gaussJordan`
    verified as written).  In exact arithmetic the code raises `LinAlgError: Singular matrix`; in
    floating point `np.linalg.solve` returns one element of the solution family, about which the
    property claims nothing. -/
theorem C05_e2e_above_none (Nch Nref Nf n extra : Nat) (hextra : 1 ≤ extra) (hNch : 0 < Nch)
    (hi : Bool) (Om : Nat → Cx K) (Sy : Nat → Nat → Nat → Cx K) (A B : Nat → Nat → Nat → K)
    (G : Nat → Nat → K)
    (hfit : ExactRMFD Nch Nref Nf n Om Sy A B)
    (hG : ∀ a < Nch, ∀ b < Nch,
      ∑ t ∈ range Nch, A (cIdx hi n) a t * G t b = if a = b then 1 else 0) :
    plscfOrder Nch Nref Nf (n + extra) hi Om Sy = none :=
  C05_e2e_above_none_of_complete (fun d c M R X h => solveChecked_injective d c M R X h)
    Nch Nref Nf n extra hextra hNch hi Om Sy A B G hfit hG

/-! ## Closed forms: the injectivity hypotheses follow from the exact-solve contract -/

/-- **The injectivity hypothesis of `C05_exact_fit_unique_LO/_HI` holds whenever the model
    returns**: the constrained solve of a returned order was made by an elimination that returns
    only for injective matrices. -/
theorem C05_e2e_inj_of_run (Nch Nref Nf n : Nat) (hi : Bool)
    (Om : Nat → Cx K) (Sy : Nat → Nat → Nat → Cx K) (out : OrderOut K)
    (hrun : plscfOrder Nch Nref Nf n hi Om Sy = some out) :
    ∀ y : Nat → K,
      (∀ I < n * Nch, ∑ J ∈ range (n * Nch),
          out.M (cOff hi Nch + I) (cOff hi Nch + J) * y J = 0) → ∀ J < n * Nch, y J = 0 := by
  obtain ⟨Z, hZ⟩ := C05_plscfOrder_block_solve Nch Nref Nf n hi Om Sy out hrun
  intro y hy
  refine solveChecked_injective _ _ _ _ Z hZ y ?_
  intro I hI
  have := hy I hI
  rw [← neg_eq_zero, ← Finset.sum_neg_distrib] at this
  rw [← this]
  apply Finset.sum_congr rfl
  intro J _; ring

/-- … and so does the injectivity of `Ro` (hypothesis of `C05_exact_fit_beta`), when there is at
    least one reference row. -/
theorem C05_e2e_Ro_inj_of_run (Nch Nref Nf n : Nat) (hNref : 0 < Nref) (hi : Bool)
    (Om : Nat → Cx K) (Sy : Nat → Nat → Nat → Cx K) (out : OrderOut K)
    (hrun : plscfOrder Nch Nref Nf n hi Om Sy = some out) :
    ∀ y : Nat → K,
      (∀ i < n + 1, ∑ t ∈ range (n + 1), Ro Nf Om i t * y t = 0) → ∀ t < n + 1, y t = 0 := by
  unfold plscfOrder at hrun
  dsimp only at hrun
  split at hrun
  · exact absurd hrun (by simp)
  · rename_i X hXs
    obtain ⟨k, rfl⟩ : ∃ k, Nref = k + 1 := ⟨Nref - 1, by omega⟩
    unfold solveEach at hXs
    split at hXs
    · rename_i P0 X0 hP0 hX0
      intro y hy
      refine solveChecked_injective _ _ _ _ X0 hX0 y ?_
      intro i hi'
      rw [← hy i hi']
      apply Finset.sum_congr rfl
      intro t ht
      rw [rd_memoArr _ _ _ i t hi' (mem_range.mp ht)]
    · exact absurd hXs (by simp)

/-- **`C05_e2e_roots`, closed**: exactly rational spectrum, constrained coefficient invertible,
    the model of `pLSCF` returns at order `n`, the model of `rmfd2ac` returns on its output —
    nothing else.  Conclusions as in `C05_e2e_roots`, plus the numerator when `Nref ≥ 1`. -/
theorem C05_e2e_roots_closed {L : Type} [Field L] (f : K →+* L) (Nch Nref Nf n : Nat) (hi : Bool)
    (Om : Nat → Cx K) (Sy : Nat → Nat → Nat → Cx K) (A B : Nat → Nat → Nat → K)
    (G : Nat → Nat → K)
    (hfit : ExactRMFD Nch Nref Nf n Om Sy A B)
    (hG : ∀ a < Nch, ∀ b < Nch,
      ∑ t ∈ range Nch, A (cIdx hi n) a t * G t b = if a = b then 1 else 0)
    (out : OrderOut K) (hrun : plscfOrder Nch Nref Nf n hi Om Sy = some out)
    (Am Cm : Mat K)
    (hrm : rmfd2ac (reshapeAd Nch n out.alpha) (moveaxisBn Nch Nref n out.beta) = some (Am, Cm)) :
    (∀ k < n + 1, ∀ a < Nch, ∀ b < Nch,
        (reshapeAd Nch n out.alpha).blk k a b = ∑ t ∈ range Nch, A k a t * G t b)
    ∧ (∀ o < Nref, ∀ k < n + 1, ∀ c < Nch,
        (moveaxisBn Nch Nref n out.beta).blk k o c = ∑ t ∈ range Nch, B o k t * G t c)
    ∧ C (blkMx Nch A n).det * (toMx ((n + 1) * Nch) ((n + 1) * Nch) Am.e).charpoly
        = (X : K[X]) ^ Nch * (polyMx n Nch A).det
    ∧ ((toMx ((n + 1) * Nch) ((n + 1) * Nch) Am.e).charpoly.map f).roots
        = Multiset.replicate Nch 0 + ((polyMx n Nch A).det.map f).roots := by
  have hinj := C05_e2e_inj_of_run Nch Nref Nf n hi Om Sy out hrun
  obtain ⟨h1, -, -, -, h5, h6, -⟩ := C05_e2e_roots f Nch Nref Nf n hi Om Sy A B G hfit hG out hrun
    hinj Am Cm hrm
  refine ⟨h1, ?_, h5, h6⟩
  intro o ho
  exact C05_e2e_numerator Nch Nref Nf n hi Om Sy A B G hfit hG out hrun hinj
    (C05_e2e_Ro_inj_of_run Nch Nref Nf n (by omega) hi Om Sy out hrun) o ho

end above

section orderedClosed
variable [Field K] [LinearOrder K] [IsStrictOrderedRing K] [Inhabited K]

/-- **`C05_e2e_table`, closed**: the same statement with the injectivity hypothesis discharged
    by `C05_e2e_inj_of_run` — exactly rational spectrum, invertible constrained coefficient, the
    models of `pLSCF`, `rmfd2ac`, `pLSCF_poles` return, the recorded eigenvalues are the roots of
    the characteristic polynomial of the matrix `rmfd2ac` built. -/
theorem C05_e2e_table_closed {L : Type} [Field L] [DecidableEq L] (f : K →+* L) (I : L)
    (hI : I * I = -1) (Nch Nref Nf n : Nat) (hi : Bool)
    (Om : Nat → Cx K) (Sy : Nat → Nat → Nat → Cx K) (A B : Nat → Nat → Nat → K)
    (G : Nat → Nat → K)
    (hfit : ExactRMFD Nch Nref Nf n Om Sy A B)
    (hG : ∀ a < Nch, ∀ b < Nch,
      ∑ t ∈ range Nch, A (cIdx hi n) a t * G t b = if a = b then 1 else 0)
    (out : OrderOut K) (hrun : plscfOrder Nch Nref Nf n hi Om Sy = some out)
    (Am Cm : Mat K)
    (hrm : rmfd2ac (reshapeAd Nch n out.alpha) (moveaxisBn Nch Nref n out.beta) = some (Am, Cm))
    (sqrt : K → K) (twoPi invdt : K) (cor : Bool) (invTau : K)
    (inputs : List (Mat K × List (EigIn K))) (T : Tables K)
    (hpad : padTables (inputs.map fun p => ac2mpPoly sqrt twoPi invdt cor invTau p.1 p.2) = .ok T)
    (k : Nat) (hk : k < inputs.length) (eigs : List (EigIn K)) (hin : inputs[k] = (Cm, eigs))
    (hrec : Multiset.map (fun e => emb f I e.lamd) (eigs : Multiset (EigIn K))
      = ((toMx ((n + 1) * Nch) ((n + 1) * Nch) Am.e).charpoly.map f).roots) :
    Multiset.map (fun e => emb f I e.lamd)
        ((eigs.filter fun e => !decide (e.lamd.re = 0 ∧ e.lamd.im = 0) : List (EigIn K))
          : Multiset (EigIn K))
      = ((polyMx n Nch A).det.map f).roots.filter (· ≠ 0)
    ∧ (eigs.filter fun e => decide (e.lamd.re = 0 ∧ e.lamd.im = 0)).length
        = Nch + ((polyMx n Nch A).det.map f).roots.count 0
    ∧ ∀ r,
        cellOf T.lam r k = (eigs[r]?).bind (fun e =>
          if e.lamd.re = 0 ∧ e.lamd.im = 0 then none
          else if 0 < e.logv.re * invdt then none
          else some (if cor then ⟨e.logv.re * invdt - invTau, e.logv.im * invdt⟩
                     else ⟨e.logv.re * invdt, e.logv.im * invdt⟩))
        ∧ cellOf T.fn r k
            = (cellOf T.lam r k).map (fun l => sqrt (l.re * l.re + l.im * l.im) / twoPi)
        ∧ cellOf T.xi r k = (cellOf T.lam r k).bind (fun l =>
            if l.re = 0 ∧ l.im = 0 then none
            else some (-(l.re / sqrt (l.re * l.re + l.im * l.im))))
        ∧ cellOf T.phi r k = (eigs[r]?).bind (fun e => phiCell Cm (lambdOf invdt e) e.q)
        ∧ (eigs.length ≤ r → cellOf T.lam r k = none ∧ cellOf T.fn r k = none
            ∧ cellOf T.xi r k = none ∧ cellOf T.phi r k = none) :=
  C05_e2e_table f I hI Nch Nref Nf n hi Om Sy A B G hfit hG out hrun
    (C05_e2e_inj_of_run Nch Nref Nf n hi Om Sy out hrun) Am Cm hrm sqrt twoPi invdt cor invTau
    inputs T hpad k hk eigs hin hrec

end orderedClosed

/-! ## Non-vacuity: one exact rational instance satisfying all hypotheses jointly

Two channels, one reference row, order 2, six lines on the unit circle (Pythagorean points):
`A(z) = [[1,1],[0,1]] · [[(2z-1)(z-3), z], [0, (3z-1)(z+2)]]`, `B(z) = [1+z², z+z²]`,
`det A(z) = (2z-1)(z-3)(3z-1)(z+2)`, roots `1/2, 3, 1/3, -2`.  Neither `A_0` nor `A_2` is the
identity: the normalisation is not trivial in either convention. -/
section examples

def e2eA : Nat → Nat → Nat → Rat := fun k a b =>
  match k, a, b with
  | 0, 0, 0 => 3 | 0, 0, 1 => -2 | 0, 1, 0 => 0 | 0, 1, 1 => -2
  | 1, 0, 0 => -7 | 1, 0, 1 => 6 | 1, 1, 0 => 0 | 1, 1, 1 => 5
  | 2, 0, 0 => 2 | 2, 0, 1 => 3 | 2, 1, 0 => 0 | 2, 1, 1 => 3
  | _, _, _ => 0
def e2eB : Nat → Nat → Nat → Rat := fun _ k c =>
  match k, c with
  | 0, 0 => 1 | 0, 1 => 0 | 1, 0 => 0 | 1, 1 => 1 | 2, 0 => 1 | 2, 1 => 1
  | _, _ => 0
/-- basis values `1, (4+3i)/5, (3+4i)/5, i, (-3+4i)/5, -1` -/
def e2eOm : Nat → Cx Rat := fun f =>
  match f with
  | 0 => ⟨1, 0⟩ | 1 => ⟨4/5, 3/5⟩ | 2 => ⟨3/5, 4/5⟩ | 3 => ⟨0, 1⟩ | 4 => ⟨-3/5, 4/5⟩ | _ => ⟨-1, 0⟩
def e2eCxSum (n : Nat) (g : Nat → Cx Rat) : Cx Rat :=
  (List.range n).foldl (fun acc i => Cx.add acc (g i)) ⟨0, 0⟩
def e2eAz (z : Cx Rat) (a b : Nat) : Cx Rat :=
  e2eCxSum 3 fun k => Cx.mul (Cx.pow z k) ⟨e2eA k a b, 0⟩
def e2eBz (z : Cx Rat) (o c : Nat) : Cx Rat :=
  e2eCxSum 3 fun k => Cx.mul (Cx.pow z k) ⟨e2eB o k c, 0⟩
/-- the spectrum `Sy(z_f) = B(z_f)·adj A(z_f) / det A(z_f)`, computed exactly -/
def e2eSy : Nat → Nat → Nat → Cx Rat := fun o c f =>
  let z := e2eOm f
  let det := Cx.add (Cx.mul (e2eAz z 0 0) (e2eAz z 1 1)) (Cx.neg (Cx.mul (e2eAz z 0 1) (e2eAz z 1 0)))
  let adj : Nat → Nat → Cx Rat := fun a b =>
    if a = 0 then (if b = 0 then e2eAz z 1 1 else Cx.neg (e2eAz z 0 1))
    else (if b = 0 then Cx.neg (e2eAz z 1 0) else e2eAz z 0 0)
  Cx.div (Cx.add (Cx.mul (e2eBz z o 0) (adj 0 c)) (Cx.mul (e2eBz z o 1) (adj 1 c))) det
/-- `A_0⁻¹` (`LO`) / `A_2⁻¹` (`HI`) -/
def e2eG (hi : Bool) : Nat → Nat → Rat := fun a b =>
  if hi then (match a, b with | 0, 0 => 1/2 | 0, 1 => -1/2 | 1, 1 => 1/3 | _, _ => 0)
  else (match a, b with | 0, 0 => 1/3 | 0, 1 => -1/3 | 1, 1 => -1/2 | _, _ => 0)

def e2eOut (hi : Bool) : OrderOut Rat :=
  (plscfOrder 2 1 6 2 hi e2eOm e2eSy).getD ⟨fun _ _ => 0, fun _ _ => 0, fun _ _ _ => 0⟩
/-- left inverse of the unconstrained block, computed by the model's own elimination -/
def e2eLi (hi : Bool) : Nat → Nat → Rat :=
  let X := (solveChecked 4 4 (fun i j => (e2eOut hi).M (cOff hi 2 + j) (cOff hi 2 + i))
    (fun i j => if i = j then 1 else 0)).getD (fun _ _ => 0)
  fun i t => X t i
def e2eAC (hi : Bool) : Mat Rat × Mat Rat :=
  (rmfd2ac (reshapeAd 2 2 (e2eOut hi).alpha) (moveaxisBn 2 1 2 (e2eOut hi).beta)).getD
    (⟨0, 0, fun _ _ => 0⟩, ⟨0, 0, fun _ _ => 0⟩)

theorem e2e_fit : ExactRMFD 2 1 6 2 e2eOm e2eSy e2eA e2eB := by
  unfold ExactRMFD; decide +kernel
theorem e2e_G (hi : Bool) : ∀ a < 2, ∀ b < 2,
    ∑ t ∈ range 2, e2eA (cIdx hi 2) a t * e2eG hi t b = if a = b then 1 else 0 := by
  cases hi <;> decide +kernel
theorem e2e_run (hi : Bool) : plscfOrder 2 1 6 2 hi e2eOm e2eSy = some (e2eOut hi) :=
  some_getD_of_isSome _ _ (by cases hi <;> decide +kernel)
theorem e2e_inj (hi : Bool) : ∀ y : Nat → Rat,
    (∀ I < 2 * 2, ∑ J ∈ range (2 * 2), (e2eOut hi).M (cOff hi 2 + I) (cOff hi 2 + J) * y J = 0)
      → ∀ J < 2 * 2, y J = 0 :=
  inj_of_leftInv 4 (fun I J => (e2eOut hi).M (cOff hi 2 + I) (cOff hi 2 + J)) (e2eLi hi)
    (by cases hi <;> decide +kernel)
theorem e2e_rm (hi : Bool) :
    rmfd2ac (reshapeAd 2 2 (e2eOut hi).alpha) (moveaxisBn 2 1 2 (e2eOut hi).beta)
      = some ((e2eAC hi).1, (e2eAC hi).2) :=
  some_getD_of_isSome _ _ (by cases hi <;> decide +kernel)

/-- `det A(X) = 6·(X - 1/2)(X - 3)(X - 1/3)(X + 2)` -/
theorem e2e_detA : (polyMx 2 2 e2eA).det
    = C 6 * (Multiset.map (fun a => X - C a) ({1/2, 3, 1/3, -2} : Multiset ℚ)).prod := by
  apply Polynomial.funext
  intro r
  rw [eval_det_polyMx, Matrix.det_fin_two]
  simp [evalMx, blkMx, e2eA, Finset.sum_range_succ]
  ring

/-- the explicit root list, in every field `L ⊇ ℚ` -/
theorem e2e_detA_roots {L : Type} [Field L] (f : ℚ →+* L) :
    ((polyMx 2 2 e2eA).det.map f).roots = {f (1/2), f 3, f (1/3), f (-2)} := by
  have h6 : f 6 ≠ 0 := (map_ne_zero f).mpr (by norm_num)
  have : (polyMx 2 2 e2eA).det.map f
      = C (f 6) * (Multiset.map (fun a => X - C a)
          ({f (1/2), f 3, f (1/3), f (-2)} : Multiset L)).prod := by
    rw [e2e_detA]
    simp [Polynomial.map_mul, Polynomial.map_sub]
  rw [this, roots_C_mul _ h6, roots_multiset_prod_X_sub_C]

-- **all hypotheses of `C05_e2e_roots` hold jointly, for both conventions; the conclusion
-- instantiated**: the denominator handed to `rmfd2ac` is `A_k·A_c⁻¹` and the eigenvalues of the
-- 6×6 matrix it builds are `0, 0` (extra block) and the roots `1/2, 3, 1/3, -2` of `det A`
example (hi : Bool) :
    (∀ k < 3, ∀ a < 2, ∀ b < 2,
      (reshapeAd 2 2 (e2eOut hi).alpha).blk k a b = ∑ t ∈ range 2, e2eA k a t * e2eG hi t b)
    ∧ (toMx 6 6 (e2eAC hi).1.e).charpoly.roots = {0, 0, 1/2, 3, 1/3, -2}
    ∧ (polyMx 2 2 e2eA).det.natDegree = 4 := by
  obtain ⟨h1, -, -, -, -, h6, h7, -⟩ := C05_e2e_roots (RingHom.id ℚ) 2 1 6 2 hi e2eOm e2eSy
    e2eA e2eB (e2eG hi) e2e_fit (e2e_G hi) (e2eOut hi) (e2e_run hi) (e2e_inj hi) _ _ (e2e_rm hi)
  refine ⟨h1, ?_, h7⟩
  rw [Polynomial.map_id, e2e_detA_roots (RingHom.id ℚ)] at h6
  rw [h6]
  rfl
-- the numerator as well (`Ro` is non-singular: hypothesis of `C05_e2e_numerator`)
def e2eRi : Nat → Nat → Rat :=
  let X := (solveChecked 3 3 (fun i j => Ro 6 e2eOm j i) (fun i j => if i = j then 1 else 0)).getD
    (fun _ _ => 0)
  fun i t => X t i
example (hi : Bool) := C05_e2e_numerator 2 1 6 2 hi e2eOm e2eSy e2eA e2eB (e2eG hi) e2e_fit
  (e2e_G hi) (e2eOut hi) (e2e_run hi) (e2e_inj hi)
  (inj_of_leftInv 3 (Ro 6 e2eOm) e2eRi (by decide +kernel))
example (hi : Bool) := C05_e2e_charpoly_normalised 2 1 6 2 hi e2eOm e2eSy e2eA e2eB (e2eG hi)
  e2e_fit (e2e_G hi) (e2eOut hi) (e2e_run hi) (e2e_inj hi) _ _ (e2e_rm hi)
-- `C05_e2e_reciprocal`: `1/2` is a root of `det A`, `2` of the reversed stack
example : (evalMx 2 2 (fun k => e2eA (2 - k)) (1/2 : ℚ)⁻¹).det = 0 := by
  rw [(C05_e2e_reciprocal 2 2 e2eA (1/2) (by norm_num)).2.1, Matrix.det_fin_two]
  simp [evalMx, blkMx, e2eA, Finset.sum_range_succ]
  norm_num

/-! ### the pole table of that order (`LO`), with a recorded eigen-decomposition -/

/-- `[λ²w; λw; w]` as a recorded (real) eigenvector -/
def e2eQ (lam w0 w1 : Rat) : List (Cx Rat) :=
  [⟨lam * lam * w0, 0⟩, ⟨lam * lam * w1, 0⟩, ⟨lam * w0, 0⟩, ⟨lam * w1, 0⟩, ⟨w0, 0⟩, ⟨w1, 0⟩]
/-- what `np.linalg.eig` would record for the `LO` matrix: the two zeros of the extra block with
    unit eigenvectors, and the four roots with `np.log` values to one decimal
    (`log(-2) = 0.7 + 3.1i`) -/
def e2eEigs : List (EigIn Rat) :=
  [⟨⟨0, 0⟩, ⟨0, 0⟩, e2eQ 0 1 0⟩, ⟨⟨0, 0⟩, ⟨0, 0⟩, e2eQ 0 0 1⟩,
   ⟨⟨1/2, 0⟩, ⟨-7/10, 0⟩, e2eQ (1/2) 1 0⟩, ⟨⟨3, 0⟩, ⟨11/10, 0⟩, e2eQ 3 1 0⟩,
   ⟨⟨1/3, 0⟩, ⟨-11/10, 0⟩, e2eQ (1/3) 25 16⟩, ⟨⟨-2, 0⟩, ⟨7/10, 31/10⟩, e2eQ (-2) 22 25⟩]
def e2eInputs : List (Mat Rat × List (EigIn Rat)) := [((e2eAC false).2, e2eEigs)]
def e2eT : Tables Rat :=
  match padTables (e2eInputs.map fun p => ac2mpPoly id 1 10 false 0 p.1 p.2) with
  | .ok T => T
  | .error _ => ⟨[], [], [], []⟩

-- the recorded vectors are exact eigenvectors of the matrix `rmfd2ac` built
example : ∀ e ∈ e2eEigs, ∀ r < 6,
    mulVec (e2eAC false).1 (fun t => (e.q.getD t ⟨0, 0⟩).re) r
      = e.lamd.re * (e.q.getD r ⟨0, 0⟩).re := by decide +kernel

theorem e2e_pad :
    padTables (e2eInputs.map fun p => ac2mpPoly id 1 10 false 0 p.1 p.2) = .ok e2eT := by
  have h : (padTables (e2eInputs.map fun p => ac2mpPoly id 1 10 false 0 p.1 p.2)).toBool = true := by
    decide +kernel
  unfold e2eT
  cases hp : padTables (e2eInputs.map fun p => ac2mpPoly id 1 10 false 0 p.1 p.2) with
  | ok T => rfl
  | error e => rw [hp] at h; simp [Except.toBool] at h

/-- the recorded-`eig` contract over `ℂ`: recorded eigenvalues = roots of the characteristic
    polynomial of `Am` -/
theorem e2e_rec : Multiset.map (fun e => emb (Rat.castHom ℂ) Complex.I e.lamd)
      (e2eEigs : Multiset (EigIn Rat))
    = ((toMx ((2 + 1) * 2) ((2 + 1) * 2) (e2eAC false).1.e).charpoly.map (Rat.castHom ℂ)).roots := by
  obtain ⟨-, -, -, -, -, h6, -⟩ := C05_e2e_roots (Rat.castHom ℂ) 2 1 6 2 false e2eOm e2eSy
    e2eA e2eB (e2eG false) e2e_fit (e2e_G false) (e2eOut false) (e2e_run false) (e2e_inj false)
    _ _ (e2e_rm false)
  rw [h6, e2e_detA_roots (Rat.castHom ℂ), Multiset.map_coe]
  have : List.map (fun e => emb (Rat.castHom ℂ) Complex.I e.lamd) e2eEigs
      = [0, 0, (Rat.castHom ℂ) (1/2), (Rat.castHom ℂ) 3, (Rat.castHom ℂ) (1/3),
          (Rat.castHom ℂ) (-2)] := by
    simp [e2eEigs, emb]
  rw [this]
  rfl

-- all hypotheses of `C05_e2e_table` hold jointly; its conclusion, and the column it describes
example := C05_e2e_table (Rat.castHom ℂ) Complex.I Complex.I_mul_I 2 1 6 2 false e2eOm e2eSy
  e2eA e2eB (e2eG false) e2e_fit (e2e_G false) (e2eOut false) (e2e_run false) (e2e_inj false)
  _ _ (e2e_rm false) id 1 10 false 0 e2eInputs e2eT e2e_pad 0 (by decide) e2eEigs rfl e2e_rec
example := C05_e2e_table_closed (Rat.castHom ℂ) Complex.I Complex.I_mul_I 2 1 6 2 false e2eOm e2eSy
  e2eA e2eB (e2eG false) e2e_fit (e2e_G false) (e2eOut false) (e2e_run false)
  _ _ (e2e_rm false) id 1 10 false 0 e2eInputs e2eT e2e_pad 0 (by decide) e2eEigs rfl e2e_rec
example : (List.range 7).map (fun r => (cellOf e2eT.lam r 0).map fun z => (z.re, z.im))
    = [none, none, some (-7, 0), none, some (-11, 0), none, none] := by decide +kernel
-- … and of `C05_e2e_nan_pattern`
example (r : Nat) := C05_e2e_nan_pattern (reshapeAd 2 2 (e2eOut false).alpha)
  (moveaxisBn 2 1 2 (e2eOut false).beta) 2 rfl rfl _ _ (e2e_rm false) id 1 10 false 0
  e2eInputs e2eT e2e_pad 0 (by decide) e2eEigs rfl (by decide +kernel) (by decide +kernel)
  (by decide +kernel) r

/-! ### orders 3 and 4 on the same spectrum -/

-- the model's value above the true order: `none` (numpy: `LinAlgError: Singular matrix`), for
-- both conventions
example : ∀ hi : Bool, ∀ extra < 3, 1 ≤ extra →
    (plscfOrder 2 1 6 (2 + extra) hi e2eOm e2eSy).isNone = true := by decide +kernel
example (hi : Bool) (extra : Nat) (h : 1 ≤ extra) :
    plscfOrder 2 1 6 (2 + extra) hi e2eOm e2eSy = none :=
  C05_e2e_above_none 2 1 6 2 extra h (by decide) hi e2eOm e2eSy e2eA e2eB (e2eG hi) e2e_fit
    (e2e_G hi)
example (hi : Bool) := C05_e2e_roots_closed (RingHom.id ℚ) 2 1 6 2 hi e2eOm e2eSy e2eA e2eB
  (e2eG hi) e2e_fit (e2e_G hi) (e2eOut hi) (e2e_run hi) _ _ (e2e_rm hi)
-- hypotheses of `C05_e2e_above_singular`: an exact result of `solve(Ro, So)` at order 3
def e2eX3 : Nat → Nat → Nat → Rat :=
  (solveEach 4 8 (Ro 6 e2eOm) (fun o => So 2 6 e2eOm (e2eSy o)) 1).getD (fun _ _ _ => 0)
example (hi : Bool) := C05_e2e_above_singular 2 1 6 2 1 (by decide) (by decide) hi e2eOm e2eSy
  e2eA e2eB (e2eG hi) e2e_fit (e2e_G hi) e2eX3 (by decide +kernel)

end examples

end PV.C05
