import PyomaVerif.Props.C05E2E
import PyomaVerif.Lemmas.PolesPlscf
/-!
# C05, end to end, on the tables the models of `plscf.pLSCF` and `plscf.pLSCF_poles` return

`C05_e2e_table` (Props/C05E2E.lean) takes the per-order inputs of `pLSCF_poles` as a hypothesis
(`inputs`, `hin : inputs[k] = (Cm, eigs)`), the basis `Om` and the constraint `hi` as two independent
parameters, and one pass `plscfOrder` of the loop.  Here everything between the spectrum and the tables
is the two model functions of `Model/Poles.lean` (run by the driver ops `plscf_all`, `plscf_poles`,
compared with the real functions by the streams `pLSCF[all orders]`, `pLSCF_poles[loop]`):

* `plscfAll … sgn OmOf Sy = .ok (Ad, Bn)` — ONE sign `sgn ∈ {−1, 1}` fixes constraint and basis; the
  loop over the orders; the reshapes;
* `plscfPoles … Ad Bn eigsAll = .ok (T, As)` — the loop over the list positions and the padding.

`C05_e2e_table_model`: the column of order `n` is column `n − 1` of `T`, derived; the `eig` contract
`hrec` is about `As[n−1]`, the matrix the model hands to `eig` in that pass; the tables have `ordmax`
columns (`C05_table_width`).
-/
open Finset Polynomial Matrix
namespace PV.C05
open PV PV.Plscf PV.BlockCompanion

section
variable {K : Type} [Field K] [LinearOrder K] [IsStrictOrderedRing K] [Inhabited K]

omit [IsStrictOrderedRing K] in
/-- **the pole tables have `ordmax` columns** (one per order `1..ordmax`), as soon as some order
    produced at least one row. -/
theorem C05_table_width (Nch Nref Nf ordmax : Nat) (sgn : Int) (hs : sgn = -1 ∨ sgn = 1)
    (OmOf : Int → Nat → Cx K) (Sy : Nat → Nat → Nat → Cx K) (Ad Bn : List (Coefs K))
    (hall : plscfAll Nch Nref Nf ordmax sgn OmOf Sy = .ok (Ad, Bn))
    (sqrt : K → K) (twoPi invdt : K) (cor : Bool) (invTau : K)
    (eigsAll : List (List (EigIn K))) (T : Tables K) (As : List (Mat K))
    (hpoles : plscfPoles sqrt twoPi invdt cor invTau Ad Bn eigsAll = .ok (T, As))
    (hrow : 0 < (tblMat T.fn).r) :
    1 ≤ ordmax ∧ (tblMat T.fn).c = ordmax ∧ (tblMat T.xi).c = ordmax ∧ (tblMat T.lam).c = ordmax := by
  obtain ⟨l1, _, _⟩ := plscfAll_get Nch Nref Nf ordmax sgn hs OmOf Sy Ad Bn hall
  obtain ⟨hne, _, inp, hlen, hpad, _⟩ :=
    plscfPoles_get sqrt twoPi invdt cor invTau Ad Bn eigsAll T As hpoles
  have hpos : 1 ≤ ordmax := by
    rw [← l1]
    exact Nat.pos_of_ne_zero (fun e => hne (List.length_eq_zero_iff.mp e))
  unfold padTables at hpad
  split at hpad
  · cases hpad
  · injection hpad with hpad
    subst hpad
    simp only [] at hrow ⊢
    have hr : (tblMat (zipLongest ((inp.map fun p =>
        ac2mpPoly sqrt twoPi invdt cor invTau p.1 p.2).map (·.fn)))).r
        = (((inp.map fun p => ac2mpPoly sqrt twoPi invdt cor invTau p.1 p.2).map (·.fn)).map
            List.length).foldl max 0 := by
      unfold tblMat zipLongest; simp
    have hfn := tblMat_c ((inp.map fun p =>
      ac2mpPoly sqrt twoPi invdt cor invTau p.1 p.2).map (·.fn)) (by rw [← hr]; exact hrow)
    -- the four columns of one order have the same length
    have hlens : ∀ (g : Column K → List (Option K)), (∀ c : Mat K, ∀ e : List (EigIn K),
        (g (ac2mpPoly sqrt twoPi invdt cor invTau c e)).length = e.length) →
        (((inp.map fun p => ac2mpPoly sqrt twoPi invdt cor invTau p.1 p.2).map g).map List.length)
          = inp.map (fun p => p.2.length) := by
      intro g hg
      simp only [List.map_map]
      apply List.map_congr_left
      intro p _
      exact hg p.1 p.2
    have e1 := hlens (·.fn) (fun c e => by simp [ac2mpPoly])
    have e2 := hlens (·.xi) (fun c e => by simp [ac2mpPoly])
    have hxi := tblMat_c ((inp.map fun p =>
      ac2mpPoly sqrt twoPi invdt cor invTau p.1 p.2).map (·.xi)) (by
        rw [e2, ← e1, ← hr]; exact hrow)
    have hlam := tblMat_c ((inp.map fun p =>
      ac2mpPoly sqrt twoPi invdt cor invTau p.1 p.2).map (·.lam)) (by
        have e3 : (((inp.map fun p => ac2mpPoly sqrt twoPi invdt cor invTau p.1 p.2).map (·.lam)).map
            List.length) = inp.map (fun p => p.2.length) := by
          simp only [List.map_map]
          apply List.map_congr_left
          intro p _
          simp [ac2mpPoly]
        rw [e3, ← e1, ← hr]; exact hrow)
    refine ⟨hpos, ?_, ?_, ?_⟩
    · rw [hfn.1]; simp [hlen, l1]
    · rw [hxi.1]; simp [hlen, l1]
    · rw [hlam.1]; simp [hlen, l1]

/-- **`C05_e2e_table_model`.**  Exactly rational spectrum of order `n` at the basis values of sign `sgn`
    (`hfit`), constrained coefficient of the true pair invertible (`hG`; `A_n` for `sgn = 1`, `A_0` for
    `sgn = −1`), the model of `pLSCF` returns up to `ordmax ≥ n`, the model of `pLSCF_poles` returns on
    its two lists with the recorded eigen-decompositions `eigsAll`, and the eigenvalues recorded in pass
    `n − 1` are the roots of the characteristic polynomial of the matrix `As[n−1]` the model handed to
    `eig` in that pass (`hrec`).  Then there are the order-`n` result `out` of the loop body and the pair
    `(Am, Cm)` that `rmfd2ac` made of its reshaped coefficients, `As[n−1] = Am`, and column `n − 1` of
    the tables is as `C05_e2e_table` states for that pair and the record `eigsAll[n−1]`. -/
theorem C05_e2e_table_model {L : Type} [Field L] [DecidableEq L] (f : K →+* L) (I : L)
    (hI : I * I = -1) (Nch Nref Nf n ordmax : Nat) (hn1 : 1 ≤ n) (hno : n ≤ ordmax)
    (sgn : Int) (hs : sgn = -1 ∨ sgn = 1) (OmOf : Int → Nat → Cx K)
    (Sy : Nat → Nat → Nat → Cx K) (A B : Nat → Nat → Nat → K) (G : Nat → Nat → K)
    (hfit : ExactRMFD Nch Nref Nf n (OmOf sgn) Sy A B)
    (hG : ∀ a < Nch, ∀ b < Nch,
      ∑ t ∈ range Nch, A (cIdx (decide (sgn = 1)) n) a t * G t b = if a = b then 1 else 0)
    (Ad Bn : List (Coefs K)) (hall : plscfAll Nch Nref Nf ordmax sgn OmOf Sy = .ok (Ad, Bn))
    (sqrt : K → K) (twoPi invdt : K) (cor : Bool) (invTau : K)
    (eigsAll : List (List (EigIn K))) (T : Tables K) (As : List (Mat K))
    (hpoles : plscfPoles sqrt twoPi invdt cor invTau Ad Bn eigsAll = .ok (T, As))
    (hrec : ∀ Am, As[n - 1]? = some Am →
      Multiset.map (fun e => emb f I e.lamd) ((eigsAll.getD (n - 1) [] : List (EigIn K)) : Multiset (EigIn K))
        = ((toMx ((n + 1) * Nch) ((n + 1) * Nch) Am.e).charpoly.map f).roots) :
    ∃ (out : OrderOut K) (Am Cm : Mat K),
      plscfOrder Nch Nref Nf n (decide (sgn = 1)) (OmOf sgn) Sy = some out
      ∧ rmfd2ac (reshapeAd Nch n out.alpha) (moveaxisBn Nch Nref n out.beta) = some (Am, Cm)
      ∧ As[n - 1]? = some Am
      ∧ Multiset.map (fun e => emb f I e.lamd)
          (((eigsAll.getD (n - 1) []).filter fun e => !decide (e.lamd.re = 0 ∧ e.lamd.im = 0)
            : List (EigIn K)) : Multiset (EigIn K))
        = ((polyMx n Nch A).det.map f).roots.filter (· ≠ 0)
      ∧ ((eigsAll.getD (n - 1) []).filter fun e => decide (e.lamd.re = 0 ∧ e.lamd.im = 0)).length
          = Nch + ((polyMx n Nch A).det.map f).roots.count 0
      ∧ ∀ r,
          cellOf T.lam r (n - 1) = ((eigsAll.getD (n - 1) [])[r]?).bind (fun e =>
            if e.lamd.re = 0 ∧ e.lamd.im = 0 then none
            else if 0 < e.logv.re * invdt then none
            else some (if cor then ⟨e.logv.re * invdt - invTau, e.logv.im * invdt⟩
                       else ⟨e.logv.re * invdt, e.logv.im * invdt⟩))
          ∧ cellOf T.fn r (n - 1)
              = (cellOf T.lam r (n - 1)).map (fun l => sqrt (l.re * l.re + l.im * l.im) / twoPi)
          ∧ cellOf T.xi r (n - 1) = (cellOf T.lam r (n - 1)).bind (fun l =>
              if l.re = 0 ∧ l.im = 0 then none
              else some (-(l.re / sqrt (l.re * l.re + l.im * l.im))))
          ∧ cellOf T.phi r (n - 1)
              = ((eigsAll.getD (n - 1) [])[r]?).bind (fun e => phiCell Cm (lambdOf invdt e) e.q)
          ∧ ((eigsAll.getD (n - 1) []).length ≤ r → cellOf T.lam r (n - 1) = none
              ∧ cellOf T.fn r (n - 1) = none ∧ cellOf T.xi r (n - 1) = none
              ∧ cellOf T.phi r (n - 1) = none) := by
  obtain ⟨l1, _, hord⟩ := plscfAll_get Nch Nref Nf ordmax sgn hs OmOf Sy Ad Bn hall
  obtain ⟨out, hout, hA, hB⟩ := hord n hn1 hno
  obtain ⟨_, _, inp, hlen, hpad, hpos⟩ :=
    plscfPoles_get sqrt twoPi invdt cor invTau Ad Bn eigsAll T As hpoles
  obtain ⟨B_num, Am, Cm, hBn, hrm, hAs, hinp⟩ := hpos (n - 1) _ hA
  rw [hB] at hBn
  obtain rfl : moveaxisBn Nch Nref n out.beta = B_num := Option.some.inj hBn
  have hk : n - 1 < inp.length := by rw [hlen, l1]; omega
  have hin : inp[n - 1] = (Cm, eigsAll.getD (n - 1) []) := by
    have := List.getElem?_eq_getElem hk
    rw [hinp] at this
    exact (Option.some.inj this).symm
  obtain ⟨c1, c2, c3⟩ := C05_e2e_table_closed f I hI Nch Nref Nf n (decide (sgn = 1)) (OmOf sgn) Sy
    A B G hfit hG out hout Am Cm hrm sqrt twoPi invdt cor invTau inp T hpad (n - 1) hk
    (eigsAll.getD (n - 1) []) hin (hrec Am hAs)
  exact ⟨out, Am, Cm, hout, hrm, hAs, c1, c2, c3⟩

end

/-! ## Non-vacuity: the instance of `Props/C05E2E.lean` (two channels, one reference row, true order 2,
`sgn_basf = −1`), run through both model functions with `ordmax = 2` and two recorded
eigen-decompositions, satisfies all hypotheses of `C05_e2e_table_model` jointly. -/
section examples

/-- what `np.exp(s·1j·omega·dt)` returns: the instance's basis for `s = −1` -/
def e2eOmOf : Int → Nat → Cx Rat := fun _ => e2eOm
/-- the record of pass 0 (order 1): four zero eigenvalues (every cell of column 0 NaN) -/
def e2eEigs1 : List (EigIn Rat) := List.replicate 4 ⟨⟨0, 0⟩, ⟨0, 0⟩, []⟩

def e2eLists : List (Coefs Rat) × List (Coefs Rat) :=
  match plscfAll 2 1 6 2 (-1) e2eOmOf e2eSy with
  | .ok p => p
  | .error _ => ([], [])

theorem e2e_all : plscfAll 2 1 6 2 (-1) e2eOmOf e2eSy = .ok (e2eLists.1, e2eLists.2) := by
  have h : (plscfAll 2 1 6 2 (-1) e2eOmOf e2eSy).toBool = true := by decide +kernel
  unfold e2eLists
  cases hp : plscfAll 2 1 6 2 (-1) e2eOmOf e2eSy with
  | ok T => rfl
  | error e => rw [hp] at h; simp [Except.toBool] at h

def e2eTabs : Tables Rat × List (Mat Rat) :=
  match plscfPoles id 1 10 false 0 e2eLists.1 e2eLists.2 [e2eEigs1, e2eEigs] with
  | .ok p => p
  | .error _ => (⟨[], [], [], []⟩, [])

theorem e2e_poles : plscfPoles id 1 10 false 0 e2eLists.1 e2eLists.2 [e2eEigs1, e2eEigs]
    = .ok (e2eTabs.1, e2eTabs.2) := by
  have h : (plscfPoles id 1 10 false 0 e2eLists.1 e2eLists.2 [e2eEigs1, e2eEigs]).toBool = true := by
    decide +kernel
  unfold e2eTabs
  cases hp : plscfPoles id 1 10 false 0 e2eLists.1 e2eLists.2 [e2eEigs1, e2eEigs] with
  | ok T => rfl
  | error e => rw [hp] at h; simp [Except.toBool] at h

/-- the matrix handed to `eig` in pass 1 is the companion matrix of the order-2 result, and the
    recorded eigenvalues are the roots of its characteristic polynomial -/
theorem e2e_rec_model : ∀ Am, e2eTabs.2[2 - 1]? = some Am →
    Multiset.map (fun e => emb (Rat.castHom ℂ) Complex.I e.lamd)
        (([e2eEigs1, e2eEigs].getD (2 - 1) [] : List (EigIn Rat)) : Multiset (EigIn Rat))
      = ((toMx ((2 + 1) * 2) ((2 + 1) * 2) Am.e).charpoly.map (Rat.castHom ℂ)).roots := by
  intro Am hAm
  obtain ⟨_, _, hord⟩ := plscfAll_get 2 1 6 2 (-1) (Or.inl rfl) e2eOmOf e2eSy _ _ e2e_all
  obtain ⟨out, hout, hA, hB⟩ := hord 2 (by decide) (by decide)
  have ho : out = e2eOut false := by
    have h2 := e2e_run false
    have : plscfOrder 2 1 6 2 false e2eOm e2eSy = some out := hout
    rw [h2] at this
    exact (Option.some.inj this).symm
  subst ho
  obtain ⟨_, _, inp, _, _, hpos⟩ := plscfPoles_get id 1 10 false 0 _ _ _ _ _ e2e_poles
  obtain ⟨B, A', C', hBn, hrm, hAs, _⟩ := hpos (2 - 1) _ hA
  rw [hB] at hBn
  obtain rfl := Option.some.inj hBn
  rw [e2e_rm false] at hrm
  rw [hAs] at hAm
  obtain rfl := Option.some.inj hAm
  have : A' = (e2eAC false).1 := (congrArg Prod.fst (Option.some.inj hrm)).symm
  subst this
  exact e2e_rec

/-- all hypotheses of `C05_e2e_table_model` hold jointly (its first three conclusions, instantiated) -/
theorem e2e_table_model : ∃ (out : OrderOut Rat) (Am Cm : Mat Rat),
    plscfOrder 2 1 6 2 false e2eOm e2eSy = some out
    ∧ rmfd2ac (reshapeAd 2 2 out.alpha) (moveaxisBn 2 1 2 out.beta) = some (Am, Cm)
    ∧ e2eTabs.2[2 - 1]? = some Am := by
  obtain ⟨out, Am, Cm, h1, h2, h3, _⟩ := C05_e2e_table_model (Rat.castHom ℂ) Complex.I
    Complex.I_mul_I 2 1 6 2 2
    (by decide) (by decide) (-1) (Or.inl rfl) e2eOmOf e2eSy e2eA e2eB (e2eG false) e2e_fit (e2e_G false)
    e2eLists.1 e2eLists.2 e2e_all id 1 10 false 0 [e2eEigs1, e2eEigs] e2eTabs.1 e2eTabs.2 e2e_poles
    e2e_rec_model
  exact ⟨out, Am, Cm, h1, h2, h3⟩

-- the column of order 2 is column 1 of the table the model returns; column 0 (order 1) is NaN
example : (List.range 7).map (fun r => (cellOf e2eTabs.1.lam r 1).map fun z => (z.re, z.im))
    = [none, none, some (-7, 0), none, some (-11, 0), none, none]
    ∧ (List.range 7).map (fun r => (cellOf e2eTabs.1.lam r 0).map fun z => (z.re, z.im))
    = [none, none, none, none, none, none, none] := by decide +kernel

example : (tblMat e2eTabs.1.fn).c = 2 :=
  (C05_table_width 2 1 6 2 (-1) (Or.inl rfl) e2eOmOf e2eSy _ _ e2e_all id 1 10 false 0 _ _ _
    e2e_poles (by decide +kernel)).2.1

end examples

end PV.C05
