import PyomaVerif.Props.C03E2E
import PyomaVerif.Props.C01Stored
/-!
# C03 ∘ C09 — multi-setup identification composed with the hard criteria: the STORED tables

`C03E2E.Conclusion` (clause 5) speaks about the raw pole table of `ssi.SSI_poles`; `SSIdat_MS.run` /
`SSIcov_MS.run` store the tables after the hard-criteria masks.  `C03_stored`: for the conclusion of
`C03_e2e_core / _cov / _dat` and a global mode that passes the enabled criteria, the stored
`Fn_poles / Xi_poles / Phi_poles / Lambds` of every class program hold at `(k, n)` the recovered frequency,
damping, the unity-normalised GLOBAL shape over all sensors (`C_g[order]·w`) and the pole; extraction at
order `n` from the stored frequency table returns it.  `Ex.stored`: the two-setup instance of
`Props/C03E2E.lean` satisfies every hypothesis (conjugate criterion on, `mpc_lim = 1/2` — the global shape
over the three sensors has MPC `1777/3364`).
-/
namespace PV.C03Stored
open PV PV.Mat PV.Cov PV.Hc PV.HcFn PV.C09 PV.C09C18 PV.C09All PV.Stored PV.C09Stored PV.FreeVib PV.C11
open PV.MsFreeVib PV.Multi PV.C01E2E PV.C03C11 PV.C03E2E PV.C01Stored Matrix

/-- **C03_stored.**  Hypotheses: the conclusion of the multi-setup chain (`C03_e2e_core`, `_cov`, `_dat`), the
    order-`n` column filled by the `ac2mp` model from the realised global pair, and — on the mode, as in
    `C01_stored` — stored damping in `(0, xi_max)`, MPC / MPD of the true global shape within the limits, and
    (with `conj` on) a pole of the column whose recorded `λ_c` is the conjugate. -/
theorem C03_stored {n : ℕ} (A : Matrix (Fin n) (Fin n) ℚ) (Cg : ℕ → Fin n → ℚ) (br N : ℕ) (refIds : List ℕ)
    (movIds : List (List ℕ)) (U : ℕ → Mat ℚ) (S sq : ℕ → ℕ → ℚ) (P : ℕ → Mat ℚ) (Q Rinv : Mat ℚ)
    (Vf : Mat (Cpx ℚ)) (lamf : ℕ → Cpx ℚ) (dt : ℝ) (lam : Cpx ℚ) (w : Fin n → Cpx ℚ) (mu : ℂ)
    (hcon : Conclusion A Cg br N refIds movIds U S sq P Q Rinv Vf lamf dt lam w mu)
    (ordmax : ℕ) (hno : n ≤ ordmax) (lamc : ℕ → Cpx ℚ) (absl : ℕ → ℚ) (twoPi : ℚ)
    (perFn perXi : ℕ → List ℚ) (perPhi : ℕ → List (List (Cpx ℚ))) (perLam : ℕ → List (Cpx ℚ))
    (hfill : OrderFilled n (outC (obsAllOf br N refIds movIds U sq P) (nDof refIds movIds) n) Vf lamc absl twoPi
      perFn perXi perPhi perLam)
    (cl : ClassSpec) (hcl : cl ∈ classes) (conjOn : Bool) (xiMax mpcLim mpdLim covMax : ℚ)
    (dir : Nat → (Nat → Cx Rat) → ℝ × ℝ)
    (k : ℕ) (hk : k < n) (hlam : lamf k = lam)
    (hdamp : 0 < xiOf (lamc k) (absl k) ∧ xiOf (lamc k) (absl k) < xiMax)
    (hshape : ShapeOk dir mpcLim mpdLim
      ((normalise (trueShape (msC Cg (orderOf refIds movIds)) (nDof refIds movIds) w)).map C01Stored.cx))
    (hconj : conjOn = true → ∃ k', k' < n ∧ lamc k' = Cpx.conj (lamc k)) :
    let p := (ssiRaw ordmax perFn perXi perPhi perLam).params ordmax (ordmax + 1) xiMax mpcLim mpdLim covMax dir
    ∃ e' Tf Tx Tp, runOf cl conjOn false p = some e' ∧
      e' (retVar cl.prog "Fn_poles") = some (CVal.tbl Tf) ∧ FiltOf p conjOn false .fn Tf ∧
      e' (retVar cl.prog "Xi_poles") = some (CVal.tbl Tx) ∧ FiltOf p conjOn false .xi Tx ∧
      e' (retVar cl.prog "Phi_poles") = some (CVal.tbl Tp) ∧ FiltOf p conjOn false .phi Tp ∧
      Kept p conjOn false (k, n) ∧
      Tf (k, n) = some (.real (fnOf (absl k) twoPi)) ∧
      Tx (k, n) = some (.real (xiOf (lamc k) (absl k))) ∧
      Tp (k, n) = some (shapeCell
        ((normalise (trueShape (msC Cg (orderOf refIds movIds)) (nDof refIds movIds) w)).map C01Stored.cx)) ∧
      (cl.hasCov = true → ∃ Tl, e' (retVar cl.prog "Lambds") = some (CVal.tbl Tl) ∧
        FiltOf p conjOn false .lam Tl ∧ Tl (k, n) = some (.cplx (C01Stored.cx (lamc k)))) ∧
      ∀ (rtol : ℚ) (reqs : List (ℚ × Option ℕ)) (cells : List (ℕ × ℕ)), 0 ≤ rtol →
        Extracted (toMat ordmax (ordmax + 1) Tf) rtol reqs cells →
        (fnOf (absl k) twoPi, some n) ∈ reqs →
        ∃ r', (r', n) ∈ cells ∧ (toMat ordmax (ordmax + 1) Tf).e r' n = some (fnOf (absl k) twoPi) :=
  C01_stored A (msC Cg (orderOf refIds movIds)) (nDof refIds movIds) dt lam w mu _ _ Vf lamf hcon.2.2 ordmax hno
    lamc absl twoPi perFn perXi perPhi perLam hfill cl hcl conjOn xiMax mpcLim mpdLim covMax dir k hk hlam hdamp
    hshape hconj

/-! ## Non-vacuity: the two-setup instance of `Props/C03E2E.lean` (`Ex`: undamped rotation, poles `±i`, sensors
`[1, 0, 2]`, second setup with gain 2).  Records `λ_c = −1 ± 157i`, `|λ_c| = 157`, `2π = 157/25`. -/
namespace Ex
open C03E2E.Ex
open _root_.PV.C01E2E.ExDat (lams Vec lam w mu)

def lamc : ℕ → Cpx ℚ := fun k => if k = 0 then ⟨-1, 157⟩ else ⟨-1, -157⟩
def absl : ℕ → ℚ := fun _ => 157
def twoPi : ℚ := 157 / 25
abbrev Chat : Mat ℚ := outC (obsAllOf 3 2 refIds movIds U sq P) (nDof refIds movIds) 2
def perFn : ℕ → List ℚ := fun c => (List.range c).map fun j => fnOf (absl j) twoPi
def perXi : ℕ → List ℚ := fun c => (List.range c).map fun j => xiOf (lamc j) (absl j)
def perPhi : ℕ → List (List (Cpx ℚ)) := fun c => (List.range c).map fun j => (shapesOf (cplx Chat) Vec).getD j []
def perLam : ℕ → List (Cpx ℚ) := fun c => (List.range c).map lamc

theorem filled : OrderFilled 2 Chat Vec lamc absl twoPi perFn perXi perPhi perLam := ⟨rfl, rfl, rfl, rfl⟩

theorem shape_val : (normalise (trueShape (msC Cg (orderOf refIds movIds)) 3 w)).map C01Stored.cx
    = [⟨1, 0⟩, ⟨1/2, 1/8⟩, ⟨1/8, -1/2⟩] := by
  have h : normalise (trueShape (msC Cg (orderOf refIds movIds)) 3 w) = [⟨1, 0⟩, ⟨1/2, 1/8⟩, ⟨1/8, -1/2⟩] := by
    decide +kernel
  rw [h]; rfl

theorem shapeOk : ShapeOk (fun _ _ => (1, -1)) (1 / 2) 2
    ((normalise (trueShape (msC Cg (orderOf refIds movIds)) 3 w)).map C01Stored.cx) := by
  rw [shape_val]
  refine ⟨⟨1777 / 3364, by decide +kernel, by decide +kernel⟩, by decide +kernel, ?_⟩
  have hb := (PV.C18.C18_mpd_bounds 3
    (castShape fun k => ([⟨1, 0⟩, ⟨1/2, 1/8⟩, ⟨1/8, -1/2⟩] : List (Cx Rat)).getD k ⟨0, 0⟩) (1 : ℝ) (-1)).2
  have hpi : Real.pi / 2 ≤ 2 := by linarith [Real.pi_le_four]
  have h2 : ((2 : ℚ) : ℝ) = 2 := by norm_num
  rw [h2]
  exact le_trans hb hpi

/-- the run's data of the instance -/
noncomputable def Pm : Params (ℕ × ℕ) :=
  (ssiRaw 2 perFn perXi perPhi perLam).params 2 (2 + 1) (1 / 10) (1 / 2) 2 1 (fun _ _ => (1, -1))

/-- **the stored tables of every class hold the recovered global mode of the instance** (`conj` on) -/
theorem stored (cl : ClassSpec) (hcl : cl ∈ classes) :
    ∃ e' Tf Tx Tp, runOf cl true false Pm = some e' ∧
      e' (retVar cl.prog "Fn_poles") = some (CVal.tbl Tf) ∧
      e' (retVar cl.prog "Xi_poles") = some (CVal.tbl Tx) ∧
      e' (retVar cl.prog "Phi_poles") = some (CVal.tbl Tp) ∧
      Kept Pm true false (0, 2) ∧
      Tf (0, 2) = some (.real 25) ∧ Tx (0, 2) = some (.real (1 / 157)) ∧
      Tp (0, 2) = some (shapeCell [⟨1, 0⟩, ⟨1/2, 1/8⟩, ⟨1/8, -1/2⟩]) := by
  obtain ⟨e', Tf, Tx, Tp, he', hTf, _, hTx, _, hTp, _, hk, eF, eX, eP, _, _⟩ :=
    C03_stored A Cg 3 2 refIds movIds U S sq P Q Rinv Vec lams (1 / 100) lam w mu C03E2E.Ex.recovered 2 (le_refl _)
      lamc absl twoPi perFn perXi perPhi perLam filled cl hcl true (1 / 10) (1 / 2) 2 1 (fun _ _ => (1, -1)) 0
      (by decide) rfl (by decide +kernel) shapeOk (fun _ => ⟨1, by decide, by decide +kernel⟩)
  refine ⟨e', Tf, Tx, Tp, he', hTf, hTx, hTp, hk, ?_, ?_, ?_⟩
  · rw [eF]; congr 2; decide +kernel
  · rw [eX]; congr 2; decide +kernel
  · rw [eP]
    have : (normalise (trueShape (msC Cg (orderOf refIds movIds)) (nDof refIds movIds) w)).map C01Stored.cx
        = [⟨1, 0⟩, ⟨1/2, 1/8⟩, ⟨1/8, -1/2⟩] := shape_val
    rw [this]

end Ex

end PV.C03Stored
