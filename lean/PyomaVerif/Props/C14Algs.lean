import PyomaVerif.Model.PrepAlgs
import PyomaVerif.Lemmas.PrepAlgs
import PyomaVerif.Props.C14
/-!
# C14 — `add_algorithms` by name: every algorithm keeps what it was handed when IT was (last) added

`sRunN v c ops` / `mRunN v c ops` (Model/PrepAlgs.lean) is the setup after a history of preprocessing calls and
`add_algorithms(*algs)` calls with several named algorithm objects; `.base` is the object of `Model/Prep.lean`
(so every theorem of `Props/C14.lean` applies to it), `.algorithms` is the dict `name ↦ object`, `.held` what
each object holds.  `ops.map NOp.toOp` is the history as `Model/Prep.lean` sees it.
-/
namespace PV.C14
open PV.Prep

/-- the underlying object is the one `Props/C14.lean` is about. -/
theorem C14_named_base_single (v : Variant) (c : SCfg) (ops : List NOp) :
    (sRunN v c ops).base = sRun v c (ops.map NOp.toOp) := sRunN_base v c ops

theorem C14_named_base_multi (v : Variant) (c : MCfg) (ops : List NOp) :
    (mRunN v c ops).base = mRun v c (ops.map NOp.toOp) := mRunN_base v c ops

/-- **Each algorithm holds the fold of the operations at the time IT was last added** (SingleSetup): if the object
    `o` is among those passed to `add_algorithms` after the history `pre`, and no later `add_algorithms` of `post`
    passes it again, then after `pre ++ [add] ++ post` — whatever preprocessing, rollbacks, additions of OTHER
    algorithms (also under the same name) `post` contains — it holds the spec fold of `pre`, that `fs`, and `1/fs`. -/
theorem C14_alg_holds_single (v : Variant) (c : SCfg) (pre post : List NOp) (algs : List Alg) (o : Nat)
    (h : o ∈ algs.map (fun a => a.oid))
    (hpost : ∀ nop ∈ post, ∀ algs', nop = .addN algs' → o ∉ algs'.map (fun a => a.oid)) :
    ∃ t, (c.spec (pre.map NOp.toOp)).terms = [t] ∧
      dictGet (sRunN v c (pre ++ [.addN algs] ++ post)).held o =
        some ⟨t, (c.spec (pre.map NOp.toOp)).fs, 1 / (c.spec (pre.map NOp.toOp)).fs⟩ := by
  have hi := sRun_inv v c (pre.map NOp.toOp)
  refine ⟨(sRun v c (pre.map NOp.toOp)).data, hi.terms, ?_⟩
  have := runN_held (sStep v c) sBind (sStep_add_ok v c) (sInit c) pre post algs o h hpost
  rw [sRunN, this]
  have hb : (runN (sStep v c) sBind (sInit c) pre).base = sRun v c (pre.map NOp.toOp) := sRunN_base v c pre
  rw [hb, sBind, ← hi.fs]

/-- the same for PreGER: `pre_multisetup` of the per-dataset folds at the time of the last addition. -/
theorem C14_alg_holds_multi (v : Variant) (hv : v.multiRepaired = true) (c : MCfg) (hc : c.n0 ≠ [])
    (pre post : List NOp) (algs : List Alg) (o : Nat)
    (h : o ∈ algs.map (fun a => a.oid))
    (hpost : ∀ nop ∈ post, ∀ algs', nop = .addN algs' → o ∉ algs'.map (fun a => a.oid)) :
    dictGet (mRunN v c (pre ++ [.addN algs] ++ post)).held o =
      some ⟨preMultisetup c.nchf (c.spec (pre.map NOp.toOp)).terms c.refInd,
            (c.spec (pre.map NOp.toOp)).fs, 1 / (c.spec (pre.map NOp.toOp)).fs⟩ := by
  have hi := mRun_inv v hv c hc (pre.map NOp.toOp)
  have := runN_held (mStep v c) mBind (mStep_add_ok v c) (mInit c) pre post algs o h hpost
  rw [mRunN, this]
  have hb : (runN (mStep v c) mBind (mInit c) pre).base = mRun v c (pre.map NOp.toOp) := mRunN_base v c pre
  rw [hb, mBind, ← hi.fs, ← hi.data]

/-- an algorithm object never passed to `add_algorithms` holds nothing. -/
theorem C14_alg_never_added (v : Variant) (c : SCfg) (ops : List NOp) (o : Nat)
    (h : ∀ nop ∈ ops, ∀ algs, nop = .addN algs → o ∉ algs.map (fun a => a.oid)) :
    dictGet (sRunN v c ops).held o = none :=
  runN_held_none (sStep v c) sBind (sInit c) ops o h

/-- **`self.algorithms[name]`** is the last object carrying that name in the last `add_algorithms` call that had
    one (dict overwrite: re-adding a name replaces the object under it), provided no rollback came after. -/
theorem C14_algorithms_dict_single (v : Variant) (c : SCfg) (pre post : List NOp) (algs : List Alg) (k o : Nat)
    (h : lastNamed algs k = some o)
    (hr : ∀ nop ∈ post, nop ≠ .prep .rollback)
    (hpost : ∀ nop ∈ post, ∀ algs', nop = .addN algs' → lastNamed algs' k = none) :
    dictGet (sRunN v c (pre ++ [.addN algs] ++ post)).algorithms k = some o :=
  runN_dict (sStep v c) sBind (sStep_add_ok v c) (sInit c) pre post algs k o h hr hpost

theorem C14_algorithms_dict_multi (v : Variant) (c : MCfg) (pre post : List NOp) (algs : List Alg) (k o : Nat)
    (h : lastNamed algs k = some o)
    (hr : ∀ nop ∈ post, nop ≠ .prep .rollback)
    (hpost : ∀ nop ∈ post, ∀ algs', nop = .addN algs' → lastNamed algs' k = none) :
    dictGet (mRunN v c (pre ++ [.addN algs] ++ post)).algorithms k = some o :=
  runN_dict (mStep v c) mBind (mStep_add_ok v c) (mInit c) pre post algs k o h hr hpost

/-- rollback empties `self.algorithms`; the algorithm objects keep what they hold. -/
theorem C14_algorithms_rollback_single (v : Variant) (c : SCfg) (ops : List NOp) :
    (sRunN v c (ops ++ [.prep .rollback])).algorithms = [] ∧
    (sRunN v c (ops ++ [.prep .rollback])).held = (sRunN v c ops).held := by
  rw [sRunN, runN_snoc]
  exact stepN'_rollback (sStep v c) sBind (sStep_rollback_ok v c) _

theorem C14_algorithms_rollback_multi (v : Variant) (c : MCfg) (ops : List NOp) :
    (mRunN v c (ops ++ [.prep .rollback])).algorithms = [] ∧
    (mRunN v c (ops ++ [.prep .rollback])).held = (mRunN v c ops).held := by
  rw [mRunN, runN_snoc]
  exact stepN'_rollback (mStep v c) mBind (mStep_rollback_ok v c) _

/-! non-vacuity: object 0 ("A") added first; afterwards a decimation, object 1 under the SAME name, object 2. -/
example :
    let algs : List Alg := [⟨0, 7⟩]
    let post : List NOp := [.prep (.decimate 2 {}), .addN [⟨1, 7⟩, ⟨2, 8⟩], .prep (.detrend {})]
    (0 ∈ algs.map (fun a => a.oid)) ∧
    (∀ nop ∈ post, ∀ algs', nop = .addN algs' → 0 ∉ algs'.map (fun a => a.oid)) := by
  refine ⟨by decide, ?_⟩
  intro nop hn algs' he
  simp only [List.mem_cons, List.mem_nil_iff, or_false] at hn
  rcases hn with rfl | rfl | rfl <;> cases he
  decide

example :
    let post : List NOp := [.prep (.decimate 2 {}), .addN [⟨2, 8⟩], .prep (.detrend {})]
    lastNamed [⟨0, 7⟩, ⟨1, 7⟩] 7 = some 1 ∧ (∀ nop ∈ post, nop ≠ .prep .rollback) ∧
    (∀ nop ∈ post, ∀ algs', nop = .addN algs' → lastNamed algs' 7 = none) := by
  refine ⟨by decide, by decide, ?_⟩
  intro nop hn algs' he
  simp only [List.mem_cons, List.mem_nil_iff, or_false] at hn
  rcases hn with rfl | rfl | rfl <;> cases he
  decide

end PV.C14
