import PyomaVerif.Model.Wiring
/-!
# Wiring of the `run()` methods (C01, C03, C04, C05, C10, C12, C13, C17): which run parameter / data
every parameter of the library routines receives.  Regenerated from /repo on every run.
-/
namespace PV.WiringRun
open PV.Wiring

/-- **C12 / C01.** `SSIdat.run` (inherited by SSIcov): the Hankel matrix is built from all channels and
    from the reference channels IN THE ORDER LISTED by the user (`Y[ref_ind, :]`, all channels when no list
    is given), with the user's block rows and method. -/
theorem C12_run_build_hank :
    args "SSIdat" "run" "ssi.build_hank"
      [("Y", "self.data.T"),
       ("Yref", "if(self.run_params.ref_ind is not None){self.data.T[self.run_params.ref_ind, :]}else{self.data.T}"),
       ("br", "self.run_params.br"), ("method", "self.run_params.method or self.method"),
       ("calc_unc", "self.run_params.calc_unc"), ("nb", "self.run_params.nb")] = true := by
  decide

/-- **C01 / C17.** the realisation receives that Hankel matrix and its covariance factor; the pole routine
    receives the realisation's outputs position by position (`Obs, A, C, Q1, Q2, Q3, Q4`), the setup's `dt`. -/
theorem C01_run_realisation :
    args "SSIdat" "run" "ssi.SSI_fast"
      [("H", "ssi.build_hank[0]#0"), ("T", "ssi.build_hank[0]#1"), ("br", "self.run_params.br"),
       ("ordmax", "self.run_params.ordmax"), ("step", "self.run_params.step"),
       ("calc_unc", "self.run_params.calc_unc"), ("nb", "self.run_params.nb")] = true
    ∧ args "SSIdat" "run" "ssi.SSI_poles"
      [("Obs", "ssi.SSI_fast[0]#0"), ("AA", "ssi.SSI_fast[0]#1"), ("CC", "ssi.SSI_fast[0]#2"),
       ("Q1", "ssi.SSI_fast[0]#3"), ("Q2", "ssi.SSI_fast[0]#4"), ("Q3", "ssi.SSI_fast[0]#5"), ("Q4", "ssi.SSI_fast[0]#6"),
       ("ordmax", "self.run_params.ordmax"), ("dt", "self.dt"), ("step", "self.run_params.step"),
       ("calc_unc", "self.run_params.calc_unc")] = true
    ∧ args "SSIdat" "run" "return SSIResult"
      [("Obs", "ssi.SSI_fast[0]#0"), ("A", "ssi.SSI_fast[0]#1"), ("C", "ssi.SSI_fast[0]#2"), ("H", "ssi.build_hank[0]#0"),
       ("Lab", "gen.SC_apply[0]#all")] = true := by
  decide

/-- **C03.** the multi-setup run hands the split data, `fs`, block rows, order and method to
    `SSI_multi_setup`, and its outputs to the pole routine. -/
theorem C03_run_multi :
    args "SSIdat_MS" "run" "ssi.SSI_multi_setup"
      [("Y", "self.data"), ("fs", "self.fs"), ("br", "self.run_params.br"), ("ordmax", "self.run_params.ordmax"),
       ("method_hank", "self.run_params.method or self.method")] = true
    ∧ args "SSIdat_MS" "run" "ssi.SSI_poles"
      [("Obs", "ssi.SSI_multi_setup[0]#0"), ("AA", "ssi.SSI_multi_setup[0]#1"), ("CC", "ssi.SSI_multi_setup[0]#2"),
       ("ordmax", "self.run_params.ordmax"), ("dt", "self.dt")] = true := by
  decide

/-- **C10.** the labels are computed from the very expressions stored as `Fn_poles`, `Xi_poles`,
    `Phi_poles` (after the last mask), with the user's order range and tolerances; for pLSCF the
    call is `ordmax − 1`, step 1.  Every class that has a `run` of its own (SSIdat, SSIdat_MS, pLSCF, pLSCF_MS;
    SSIcov / SSIcov_MS inherit, `WiringClass.C10_run_inherited`) is pinned in full: the three tables (with an
    `.isSome` guard, so that two missing rows do not compare equal), `ordmin / ordmax / step` and the three
    tolerances, and nothing else is passed. -/
theorem C10_sc_apply_wiring :
    (arg "SSIdat" "run" "gen.SC_apply" "Fn" = arg "SSIdat" "run" "return SSIResult" "Fn_poles"
      ∧ arg "SSIdat" "run" "gen.SC_apply" "Xi" = arg "SSIdat" "run" "return SSIResult" "Xi_poles"
      ∧ arg "SSIdat" "run" "gen.SC_apply" "Phi" = arg "SSIdat" "run" "return SSIResult" "Phi_poles"
      ∧ (arg "SSIdat" "run" "gen.SC_apply" "Fn").isSome ∧ (arg "SSIdat" "run" "gen.SC_apply" "Xi").isSome
      ∧ (arg "SSIdat" "run" "gen.SC_apply" "Phi").isSome)
    ∧ args "SSIdat" "run" "gen.SC_apply"
      [("ordmin", "self.run_params.ordmin"), ("ordmax", "self.run_params.ordmax"), ("step", "self.run_params.step"),
       ("err_fn", "self.run_params.sc['err_fn']"), ("err_xi", "self.run_params.sc['err_xi']"),
       ("err_phi", "self.run_params.sc['err_phi']")] = true
    ∧ (arg "SSIdat_MS" "run" "gen.SC_apply" "Fn" = arg "SSIdat_MS" "run" "return SSIResult" "Fn_poles"
      ∧ arg "SSIdat_MS" "run" "gen.SC_apply" "Xi" = arg "SSIdat_MS" "run" "return SSIResult" "Xi_poles"
      ∧ arg "SSIdat_MS" "run" "gen.SC_apply" "Phi" = arg "SSIdat_MS" "run" "return SSIResult" "Phi_poles"
      ∧ (arg "SSIdat_MS" "run" "gen.SC_apply" "Fn").isSome ∧ (arg "SSIdat_MS" "run" "gen.SC_apply" "Xi").isSome
      ∧ (arg "SSIdat_MS" "run" "gen.SC_apply" "Phi").isSome)
    ∧ args "SSIdat_MS" "run" "gen.SC_apply"
      [("ordmin", "self.run_params.ordmin"), ("ordmax", "self.run_params.ordmax"), ("step", "self.run_params.step"),
       ("err_fn", "self.run_params.sc['err_fn']"), ("err_xi", "self.run_params.sc['err_xi']"),
       ("err_phi", "self.run_params.sc['err_phi']")] = true
    ∧ (arg "pLSCF" "run" "gen.SC_apply" "Fn" = arg "pLSCF" "run" "return self.ResultCls" "Fn_poles"
      ∧ arg "pLSCF" "run" "gen.SC_apply" "Xi" = arg "pLSCF" "run" "return self.ResultCls" "Xi_poles"
      ∧ arg "pLSCF" "run" "gen.SC_apply" "Phi" = arg "pLSCF" "run" "return self.ResultCls" "Phi_poles"
      ∧ (arg "pLSCF" "run" "gen.SC_apply" "Fn").isSome ∧ (arg "pLSCF" "run" "gen.SC_apply" "Xi").isSome
      ∧ (arg "pLSCF" "run" "gen.SC_apply" "Phi").isSome)
    ∧ args "pLSCF" "run" "gen.SC_apply"
      [("ordmin", "self.run_params.ordmin"), ("ordmax", "self.run_params.ordmax - 1"), ("step", "1"),
       ("err_fn", "self.run_params.sc['err_fn']"), ("err_xi", "self.run_params.sc['err_xi']"),
       ("err_phi", "self.run_params.sc['err_phi']")] = true
    ∧ (arg "pLSCF_MS" "run" "gen.SC_apply" "Fn" = arg "pLSCF_MS" "run" "return self.ResultCls" "Fn_poles"
      ∧ arg "pLSCF_MS" "run" "gen.SC_apply" "Xi" = arg "pLSCF_MS" "run" "return self.ResultCls" "Xi_poles"
      ∧ arg "pLSCF_MS" "run" "gen.SC_apply" "Phi" = arg "pLSCF_MS" "run" "return self.ResultCls" "Phi_poles"
      ∧ (arg "pLSCF_MS" "run" "gen.SC_apply" "Fn").isSome ∧ (arg "pLSCF_MS" "run" "gen.SC_apply" "Xi").isSome
      ∧ (arg "pLSCF_MS" "run" "gen.SC_apply" "Phi").isSome)
    ∧ args "pLSCF_MS" "run" "gen.SC_apply"
      [("ordmin", "self.run_params.ordmin"), ("ordmax", "self.run_params.ordmax - 1"), ("step", "1"),
       ("err_fn", "self.run_params.sc['err_fn']"), ("err_xi", "self.run_params.sc['err_xi']"),
       ("err_phi", "self.run_params.sc['err_phi']")] = true
    ∧ (["SSIdat", "SSIdat_MS", "pLSCF", "pLSCF_MS"].all fun c =>
        onlyParams c "run" "gen.SC_apply" ["Fn", "Xi", "Phi", "ordmin", "ordmax", "step", "err_fn", "err_xi", "err_phi"]) = true := by
  decide

/-- **C13 / C04.** the spectral classes pass the user's segment length, estimator and overlap on to
    the estimator (single setup: data against itself with the setup's `dt`; multi setup: the split data
    with the setup's `fs`). -/
theorem C13_run_spectral :
    args "FDD" "run" "fdd.SD_est"
      [("Yall", "self.data.T"), ("Yref", "self.data.T"), ("dt", "self.dt"), ("nxseg", "self.run_params.nxseg"),
       ("method", "self.run_params.method_SD"), ("pov", "self.run_params.pov")] = true
    ∧ args "pLSCF" "run" "fdd.SD_est"
      [("Yall", "self.data.T"), ("Yref", "self.data.T"), ("dt", "self.dt"), ("nxseg", "self.run_params.nxseg"),
       ("method", "self.run_params.method_SD"), ("pov", "self.run_params.pov")] = true
    ∧ args "FDD" "run" "fdd.SD_svalsvec" [("SD", "fdd.SD_est[0]#1")] = true := by
  decide

theorem C04_run_spectral_ms :
    args "FDD_MS" "run" "fdd.SD_PreGER"
      [("Y", "self.data"), ("fs", "self.fs"), ("nxseg", "self.run_params.nxseg"),
       ("method", "self.run_params.method_SD"), ("pov", "self.run_params.pov")] = true
    ∧ args "EFDD_MS" "run" "fdd.SD_PreGER"
      [("Y", "self.data"), ("fs", "self.fs"), ("nxseg", "self.run_params.nxseg"),
       ("method", "self.run_params.method_SD"), ("pov", "self.run_params.pov")] = true
    ∧ args "pLSCF_MS" "run" "fdd.SD_PreGER"
      [("Y", "self.data"), ("fs", "self.fs"), ("nxseg", "self.run_params.nxseg"),
       ("method", "self.run_params.method_SD"), ("pov", "self.run_params.pov")] = true
    ∧ args "FDD_MS" "run" "fdd.SD_svalsvec" [("SD", "fdd.SD_PreGER[0]#1")] = true
    ∧ args "EFDD_MS" "run" "fdd.SD_svalsvec" [("SD", "fdd.SD_PreGER[0]#1")] = true := by
  decide

/-- **C05 / C08.** pLSCF: the basis-function sign follows the spectral estimator (−1 for the
    periodogram, +1 for the correlogram) and IS passed on; the pole routine gets the fitted
    coefficients, `dt`, the segment length and the estimator name (for the window correction). -/
theorem C05_run_plscf :
    args "pLSCF" "run" "plscf.pLSCF"
      [("Sy", "fdd.SD_est[0]#1"), ("dt", "self.dt"), ("ordmax", "self.run_params.ordmax"),
       ("sgn_basf", "if(self.run_params.method_SD == 'per'){-1}else{if(self.run_params.method_SD == 'cor'){+1}else{<unbound>}}")] = true
    ∧ args "pLSCF" "run" "plscf.pLSCF_poles"
      [("Ad", "plscf.pLSCF[0]#0"), ("Bn", "plscf.pLSCF[0]#1"), ("dt", "self.dt"),
       ("nxseg", "self.run_params.nxseg"), ("methodSy", "self.run_params.method_SD")] = true
    ∧ args "pLSCF_MS" "run" "plscf.pLSCF"
      [("Sy", "fdd.SD_PreGER[0]#1"), ("dt", "self.dt"), ("ordmax", "self.run_params.ordmax"),
       ("sgn_basf", "if(self.run_params.method_SD == 'per'){-1}else{if(self.run_params.method_SD == 'cor'){+1}else{<unbound>}}")] = true
    ∧ args "pLSCF_MS" "run" "plscf.pLSCF_poles"
      [("Ad", "plscf.pLSCF[0]#0"), ("Bn", "plscf.pLSCF[0]#1"), ("dt", "self.dt"),
       ("nxseg", "self.run_params.nxseg"), ("methodSy", "self.run_params.method_SD")] = true := by
  decide

end PV.WiringRun
