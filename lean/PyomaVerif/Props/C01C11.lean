import PyomaVerif.Props.C11
import Mathlib.Tactic.Linarith
/-!
# C01 ∘ C11 — extraction at the exact order returns the exact poles
Last sentence of C01 ("extracting modes at that order returns those values") as a corollary of C11.
-/
namespace PV.C01C11
open PV PV.C11

/-- **C01_extract.** Whatever else the pole table contains: if the order column requested for a frequency
    `fj` contains a retained pole of exactly that frequency, then the extraction (any `rtol ≥ 0`) returns for
    that request a cell of that column holding exactly `fj` — its own damping, shape and covariances follow from
    `C11_whole`. Together with `C01_realisation_*` / `pole_recovery` (the order-2m column holds the system's
    frequencies) this is the extraction claim of C01. -/
theorem C01_extract (Fn : Mat NR) (rtol : Rat) (hr : 0 ≤ rtol) :
    ∀ (reqs : List (Rat × Option Nat)) (cells : List (Nat × Nat)), Extracted Fn rtol reqs cells →
      ∀ fj ord, (fj, some ord) ∈ reqs → (∃ r, r < Fn.r ∧ Fn.e r ord = some fj) →
        ∃ r', (r', ord) ∈ cells ∧ Fn.e r' ord = some fj := by
  intro reqs cells h
  induction h with
  | nil => intro fj ord hmem; cases hmem
  | @close fj0 ord0 r0 v reqs' cells' hnear hclose _ ih =>
    intro fj ord hmem hex
    rcases List.mem_cons.mp hmem with heq | htail
    · obtain ⟨rfl, hord⟩ := Prod.mk.inj heq
      have hord' : ord = ord0 := Option.some.inj hord
      subst hord'
      obtain ⟨r, hrlt, hrv⟩ := hex
      obtain ⟨_, hv, hall, _⟩ := hnear
      have := hall r hrlt fj hrv
      have hz : |v - fj| = 0 := by
        have h0 : |fj - fj| = 0 := by simp
        have hnn := abs_nonneg (v - fj)
        linarith
      have hvf : v = fj := by
        have := abs_eq_zero.mp hz; linarith
      have hv' : Fn.e r0 ord = some v := hv
      exact ⟨r0, by simp, by rw [hv', hvf]⟩
    · obtain ⟨r', hr', hv'⟩ := ih fj ord htail hex
      exact ⟨r', by simp [hr'], hv'⟩
  | @far fj0 ord0 r0 v reqs' cells' hnear hfar _ ih =>
    intro fj ord hmem hex
    rcases List.mem_cons.mp hmem with heq | htail
    · exfalso
      obtain ⟨rfl, hord⟩ := Prod.mk.inj heq
      have hord' : ord = ord0 := Option.some.inj hord
      subst hord'
      obtain ⟨r, hrlt, hrv⟩ := hex
      obtain ⟨_, hv, hall, _⟩ := hnear
      have := hall r hrlt fj hrv
      have h0 : |fj - fj| = 0 := by simp
      have hnn := abs_nonneg (v - fj)
      apply hfar
      have hat : (0 : Rat) ≤ iscloseAtol := by unfold iscloseAtol; norm_num
      have : 0 ≤ rtol * |fj| := mul_nonneg hr (abs_nonneg fj)
      linarith
    · exact ih fj ord htail hex

end PV.C01C11
