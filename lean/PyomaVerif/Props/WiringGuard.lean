import PyomaVerif.Model.Wiring
import PyomaVerif.Props.C15
import PyomaVerif.Ops.C15
/-!
# Guards of `mpe` / `mpe_from_plot`, derived from the source (C15)

`C15_gating_mpe*` assume `AllGuarded sem`: every class's `mpe` checks for a result before it stores anything.  Here
that is an obligation over the tables regenerated from /repo on every run (`Gen.methods`, `Gen.classes`,
`Gen.stores`, `Gen.sites`): for each of the eleven algorithm classes, the body that `mpe` resolves to starts with
`if not self.result: raise ValueError` — directly (EFDD) or as `super().mpe(...)` reaching `BaseAlgorithm.mpe`, whose
body is that test — with nothing in front of it but the docstring / aliases of arguments, and every recorded store
and library call after it (`Wiring.guarded`).
-/
namespace PV.WiringGuard
open PV.Wiring

/-- no algorithm class has an unguarded `mpe` … -/
theorem C15_mpe_guarded_from_source : unguarded "mpe" = [] := by
  decide

/-- … nor an unguarded `mpe_from_plot`. -/
theorem C15_mpe_from_plot_guarded_from_source : unguarded "mpe_from_plot" = [] := by
  decide

/-- the classes this is about (so that the list cannot silently shrink) and where their `mpe` bodies are. -/
theorem C15_guard_sites :
    algClasses = ["SSIdat", "SSIcov", "SSIdat_MS", "SSIcov_MS", "pLSCF", "pLSCF_MS", "FDD", "EFDD", "FSDD", "FDD_MS", "EFDD_MS"]
    ∧ (algClasses.map fun c => resolve c "mpe")
      = [some "SSIdat", some "SSIdat", some "SSIdat", some "SSIdat", some "pLSCF", some "pLSCF",
         some "FDD", some "EFDD", some "EFDD", some "FDD", some "EFDD"]
    ∧ (["SSIdat", "pLSCF", "FDD"].all fun c => ["mpe", "mpe_from_plot"].all fun m =>
        (methodInfo c m).map (fun i => (i.guardKind, i.guardArg, i.pre)) == some ("super", m, [])) = true
    ∧ (["BaseAlgorithm", "EFDD"].all fun c => ["mpe", "mpe_from_plot"].all fun m =>
        (methodInfo c m).map (fun i => (i.guardKind, i.guardArg, i.pre))
          == some ("raise", "if not self.result: raise ValueError", [])) = true := by
  decide

/-- **C15.** the hypothesis of the gating theorems holds for the term semantics the driver runs, instantiated with
    the unguarded-class list READ OFF THE SOURCE (the harness passes `[]`; this says that is what the tree gives). -/
theorem C15_AllGuarded_from_source : PV.C15.AllGuarded (PV.Ops.C15.termSem (unguarded "mpe")) := by
  rw [C15_mpe_guarded_from_source]
  intro c
  rfl

end PV.WiringGuard
