import PyomaVerif.Lemmas.PreGER
import Mathlib.Algebra.Field.Rat
import Mathlib.Tactic.NormNum
import Mathlib.Tactic.Positivity
/-!
# C04 — PreGER spectral merging is consistent with the single-setup spectral matrix

Property theorems about `PV.sdPreGER` (model of `fdd.SD_PreGER`), for any number of setups,
channels and frequency lines, any estimator `sd` and inverse routine `inv` meeting the stated
contracts, over any field `K` (ℂ in the application).

Notation of the statements (`Lemmas/PreGER.lean`): `sdArgs fs nxseg method pov` is the argument
record handed to the estimator, `yAll Y ii = [ref; mov]` of setup `ii`, `estRef … ii` the
all × ref estimate of setup `ii`; `refBlock`, `movBlock`, `meanRefRef` are the model's
`Gyy[ii][:n_ref,:n_ref][:,:,f]`, `Gyy[ii][n_ref:,:n_ref][:,:,f]`, `Gy_refref`.
-/
namespace PV.C04
open PV PV.Mat Finset

variable {T D F K : Type} [One T] [Div T] [Field K]
variable {sd : Estimator T D F K} {inv : Mat K → Mat K} {fs : T} {nxseg : Nat} {pov : T}
  {method : SdMethod} {n : Nat} {Y : Nat → Setup D}

/-- shape and grid: `(n_ref + Σ n_mov) × n_ref × len(freq)`, `freq` of the last setup's
    all × ref call. -/
theorem C04_shape (hs : SdShape sd) (hm : method ≠ .other)
    (href : ∀ ii, ii < n → (Y ii).ref.r = (Y 0).ref.r) :
    (sdPreGER sd inv fs nxseg pov method n Y).S.n0 = (Y 0).ref.r + ∑ k ∈ range n, (Y k).mov.r
    ∧ (sdPreGER sd inv fs nxseg pov method n Y).S.n1 = (Y 0).ref.r
    ∧ (sdPreGER sd inv fs nxseg pov method n Y).S.n2
        = (sdPreGER sd inv fs nxseg pov method n Y).freq.length
    ∧ (sdPreGER sd inv fs nxseg pov method n Y).freq
        = (estRef sd fs nxseg pov method Y (n - 1)).freq :=
  sdPreGER_shape inv hs hm href

/-- **Blocks of the merged matrix.**  (1) the reference block is the mean over the setups of
    the reference auto/cross spectra; (2) roving block `ii` (rows
    `n_ref + Σ_{k<ii} n_mov k + a`) is `G_mov,ref⁽ⁱⁱ⁾ · inv(G_ref,ref⁽ⁱⁱ⁾) · mean` at every
    line; (3) what these blocks are in terms of the estimator's output. -/
theorem C04_blocks (hs : SdShape sd) (hm : method ≠ .other)
    (href : ∀ ii, ii < n → (Y ii).ref.r = (Y 0).ref.r) :
    (∀ i j f, i < (Y 0).ref.r → j < (Y 0).ref.r →
      (sdPreGER sd inv fs nxseg pov method n Y).S.e i j f
        = (1 / (n : K)) * ∑ ii ∈ range n, (estRef sd fs nxseg pov method Y ii).S.e i j f)
    ∧ (∀ ii a j f, ii < n → a < (Y ii).mov.r →
      (sdPreGER sd inv fs nxseg pov method n Y).S.e
          ((Y 0).ref.r + (∑ k ∈ range ii, (Y k).mov.r) + a) j f
        = (Mat.mul
            (Mat.mul (movBlock (Y 0).ref.r (gyy sd fs nxseg pov method Y) ii f)
                     (inv (refBlock (Y 0).ref.r (gyy sd fs nxseg pov method Y) ii f)))
            ((meanRefRef n (Y 0).ref.r (gyy sd fs nxseg pov method Y)).line f)).e a j)
    ∧ (∀ ii f, ii < n →
        (refBlock (Y 0).ref.r (gyy sd fs nxseg pov method Y) ii f).r = (Y 0).ref.r
        ∧ (refBlock (Y 0).ref.r (gyy sd fs nxseg pov method Y) ii f).c = (Y 0).ref.r
        ∧ (movBlock (Y 0).ref.r (gyy sd fs nxseg pov method Y) ii f).r = (Y ii).mov.r
        ∧ (movBlock (Y 0).ref.r (gyy sd fs nxseg pov method Y) ii f).c = (Y 0).ref.r
        ∧ ∀ i j, j < (Y 0).ref.r →
          (refBlock (Y 0).ref.r (gyy sd fs nxseg pov method Y) ii f).e i j
            = (estRef sd fs nxseg pov method Y ii).S.e i j f
          ∧ (movBlock (Y 0).ref.r (gyy sd fs nxseg pov method Y) ii f).e i j
            = (estRef sd fs nxseg pov method Y ii).S.e ((Y 0).ref.r + i) j f
          ∧ ((meanRefRef n (Y 0).ref.r (gyy sd fs nxseg pov method Y)).line f).e i j
            = (1 / (n : K)) * ∑ k ∈ range n, (estRef sd fs nxseg pov method Y k).S.e i j f) := by
  refine ⟨?_, ?_, ?_⟩
  · intro i j f hi hj
    rw [sdPreGER_ref inv hs hm i j f hi, mean_e hs hm href i j f hj]
  · intro ii a j f hii ha
    rw [sdPreGER_roving inv hs hm href ii a j f hii ha]
    rfl
  · intro ii f hii
    have e := href ii hii
    refine ⟨?_, ?_, ?_, ?_, ?_⟩
    · rw [← e]; exact refBlock_r hs hm ii f
    · rw [← e]; exact refBlock_c hs hm ii f
    · rw [← e]; exact movBlock_r hs hm ii f
    · rw [← e]; exact movBlock_c hs hm ii f
    · intro i j hj
      refine ⟨refBlock_e hs hm ii f i j (by rw [e]; exact hj) _,
        movBlock_e hs hm ii f i j (by rw [e]; exact hj) _, ?_⟩
      exact mean_e hs hm href i j f hj

/-- **One recording cut into setups.**  If the estimator is pairwise and all setups carry the
    same reference records, then for every parameter record (`fs`, `nxseg`, `pov`, estimator
    `per`/`cor`) the merged matrix *is* the single-setup estimate of `[refs; mov₀; mov₁; …]`
    against `refs`, on the same frequency grid — provided `np.linalg.inv` meets its contract
    and the reference block `G_ref,ref(f)` of that single-setup estimate is invertible at
    every line. -/
theorem C04_identical_refs (hs : SdShape sd) (hp : Pairwise sd) (hinv : InvContract inv)
    (hm : method ≠ .other) (hn : (n : K) ≠ 0)
    (hR : ∀ ii, ii < n → (Y ii).ref = (Y 0).ref)
    (hG : ∀ f, f < (sd (sdArgs fs nxseg method pov)
                  (Mat.vstack2 (Y 0).ref (Mat.vstackFn n (fun k => (Y k).mov))) (Y 0).ref).S.n2 →
      ∃ W, IsLeftInv W ⟨(Y 0).ref.r, (Y 0).ref.r, fun i j =>
        (sd (sdArgs fs nxseg method pov)
          (Mat.vstack2 (Y 0).ref (Mat.vstackFn n (fun k => (Y k).mov))) (Y 0).ref).S.e i j f⟩) :
    (sdPreGER sd inv fs nxseg pov method n Y).freq
        = (sd (sdArgs fs nxseg method pov)
            (Mat.vstack2 (Y 0).ref (Mat.vstackFn n (fun k => (Y k).mov))) (Y 0).ref).freq
    ∧ (sdPreGER sd inv fs nxseg pov method n Y).S.n0
        = (sd (sdArgs fs nxseg method pov)
            (Mat.vstack2 (Y 0).ref (Mat.vstackFn n (fun k => (Y k).mov))) (Y 0).ref).S.n0
    ∧ (sdPreGER sd inv fs nxseg pov method n Y).S.n1
        = (sd (sdArgs fs nxseg method pov)
            (Mat.vstack2 (Y 0).ref (Mat.vstackFn n (fun k => (Y k).mov))) (Y 0).ref).S.n1
    ∧ (sdPreGER sd inv fs nxseg pov method n Y).S.n2
        = (sd (sdArgs fs nxseg method pov)
            (Mat.vstack2 (Y 0).ref (Mat.vstackFn n (fun k => (Y k).mov))) (Y 0).ref).S.n2
    ∧ ∀ i j f, i < (sdPreGER sd inv fs nxseg pov method n Y).S.n0 →
        j < (sdPreGER sd inv fs nxseg pov method n Y).S.n1 →
        f < (sdPreGER sd inv fs nxseg pov method n Y).S.n2 →
        (sdPreGER sd inv fs nxseg pov method n Y).S.e i j f
          = (sd (sdArgs fs nxseg method pov)
              (Mat.vstack2 (Y 0).ref (Mat.vstackFn n (fun k => (Y k).mov))) (Y 0).ref).S.e i j f := by
  obtain ⟨gf, hgf⟩ := hp.grid
  obtain ⟨g, hg⟩ := hp.entry
  have href : ∀ ii, ii < n → (Y ii).ref.r = (Y 0).ref.r := fun ii h => by rw [hR ii h]
  have hn1 : 0 < n := by
    rcases Nat.eq_zero_or_pos n with h | h
    · exact absurd (by rw [h]; simp) hn
    · exact h
  obtain ⟨sh0, sh1, sh2, shf⟩ := sdPreGER_shape (fs := fs) (nxseg := nxseg) (pov := pov) inv hs hm href
  -- the common value of every reference auto/cross spectrum
  have hrow : ∀ ii, ii < n → ∀ i, i < (Y 0).ref.r → (yAll Y ii).e i = (Y 0).ref.e i := by
    intro ii hii i hi
    funext t
    simp only [yAll, Mat.vstack2, hR ii hii, if_pos hi]
  have hallc : ∀ ii, ii < n → (yAll Y ii).c = (Y 0).ref.c := by
    intro ii hii; simp only [yAll, Mat.vstack2, hR ii hii]
  have hest : ∀ ii, ii < n → ∀ i j f, i < (Y 0).ref.r →
      (estRef sd fs nxseg pov method Y ii).S.e i j f
        = g (sdArgs fs nxseg method pov) (Y 0).ref.c (Y 0).ref.c ((Y 0).ref.e i) ((Y 0).ref.e j) f := by
    intro ii hii i j f hi
    simp only [estRef, hg, hallc ii hii, hrow ii hii i hi, hR ii hii]
  have hbigrow : ∀ i, i < (Y 0).ref.r →
      (Mat.vstack2 (Y 0).ref (Mat.vstackFn n (fun k => (Y k).mov))).e i = (Y 0).ref.e i := by
    intro i hi; funext t; simp only [Mat.vstack2, if_pos hi]
  have hsingle : ∀ i j f, i < (Y 0).ref.r →
      (sd (sdArgs fs nxseg method pov)
          (Mat.vstack2 (Y 0).ref (Mat.vstackFn n (fun k => (Y k).mov))) (Y 0).ref).S.e i j f
        = g (sdArgs fs nxseg method pov) (Y 0).ref.c (Y 0).ref.c ((Y 0).ref.e i) ((Y 0).ref.e j) f := by
    intro i j f hi
    rw [hg, hbigrow i hi]; rfl
  have hmean : ∀ i j f, i < (Y 0).ref.r → j < (Y 0).ref.r →
      (meanRefRef n (Y 0).ref.r (gyy sd fs nxseg pov method Y)).e i j f
        = g (sdArgs fs nxseg method pov) (Y 0).ref.c (Y 0).ref.c ((Y 0).ref.e i) ((Y 0).ref.e j) f := by
    intro i j f hi hj
    rw [mean_e hs hm href i j f hj,
      Finset.sum_congr rfl (fun ii hii => hest ii (mem_range.mp hii) i j f hi)]
    rw [Finset.sum_const, card_range, nsmul_eq_mul]
    field_simp
  have hfreq : (sdPreGER sd inv fs nxseg pov method n Y).freq
      = (sd (sdArgs fs nxseg method pov)
          (Mat.vstack2 (Y 0).ref (Mat.vstackFn n (fun k => (Y k).mov))) (Y 0).ref).freq := by
    rw [shf]
    simp only [estRef, hgf, hallc (n - 1) (by omega), hR (n - 1) (by omega)]
    rfl
  have hn2 : (sdPreGER sd inv fs nxseg pov method n Y).S.n2
      = (sd (sdArgs fs nxseg method pov)
          (Mat.vstack2 (Y 0).ref (Mat.vstackFn n (fun k => (Y k).mov))) (Y 0).ref).S.n2 := by
    rw [sh2, hfreq, hs.n2]
  refine ⟨hfreq, ?_, ?_, hn2, ?_⟩
  · rw [sh0, hs.n0]; simp only [Mat.vstack2, Mat.vstackFn_r]
  · rw [sh1, hs.n1]
  · intro i j f hi hj hf
    rw [sh1] at hj
    rw [sh0] at hi
    rw [hn2] at hf
    by_cases hlt : i < (Y 0).ref.r
    · rw [sdPreGER_ref inv hs hm i j f hlt, hmean i j f hlt hj, hsingle i j f hlt]
    · -- a roving row: block `ii`, channel `a`
      obtain ⟨ii, a, hii, ha, hia⟩ := Mat.row_decomp (fun k => (Y k).mov.r) n (i - (Y 0).ref.r) (by omega)
      have hi' : i = (Y 0).ref.r + (∑ k ∈ range ii, (Y k).mov.r) + a := by omega
      rw [hi', sdPreGER_roving inv hs hm href ii a j f hii ha]
      have e := href ii hii
      -- the reference block of setup `ii` is the single-setup one, hence invertible
      have hGii : ∃ W, IsLeftInv W (refBlock (Y 0).ref.r (gyy sd fs nxseg pov method Y) ii f) := by
        obtain ⟨W, hW⟩ := hG f hf
        refine ⟨W, isLeftInv_congr ?_ ?_ ?_ hW⟩
        · rw [← e]; exact refBlock_r hs hm ii f
        · rw [← e]; exact refBlock_c hs hm ii f
        · intro s t hs' ht
          rw [refBlock_e hs hm ii f s t (by rw [e]; exact ht), hest ii hii s t f hs']
          exact (hsingle s t f hs').symm
      have hsq : (refBlock (Y 0).ref.r (gyy sd fs nxseg pov method Y) ii f).r
          = (refBlock (Y 0).ref.r (gyy sd fs nxseg pov method Y) ii f).c := by
        rw [← e, refBlock_r hs hm ii f, refBlock_c hs hm ii f]
      have hc : (refBlock (Y 0).ref.r (gyy sd fs nxseg pov method Y) ii f).c = (Y 0).ref.r := by
        rw [← e]; exact refBlock_c hs hm ii f
      have hr : (refBlock (Y 0).ref.r (gyy sd fs nxseg pov method Y) ii f).r = (Y 0).ref.r := by
        rw [← e]; exact refBlock_r hs hm ii f
      have hW := hinv _ hsq hGii
      simp only [rovingLine]
      rw [mul_inv_mul_cancel hW (by rw [hc, ← e]; exact movBlock_c hs hm ii f) ?_ a j (by rw [hc]; exact hj)]
      · rw [movBlock_e hs hm ii f a j (by rw [e]; exact hj)]
        simp only [estRef, hg]
        have h1 : (yAll Y ii).e ((Y 0).ref.r + a) = (Y ii).mov.e a := by
          funext t
          simp only [yAll, Mat.vstack2, e]
          rw [if_neg (by omega)]
          congr 1; omega
        have h2 : (Mat.vstack2 (Y 0).ref (Mat.vstackFn n (fun k => (Y k).mov))).e
            ((Y 0).ref.r + (∑ k ∈ range ii, (Y k).mov.r) + a) = (Y ii).mov.e a := by
          funext t
          simp only [Mat.vstack2]
          rw [if_neg (by omega)]
          have : (Y 0).ref.r + (∑ k ∈ range ii, (Y k).mov.r) + a - (Y 0).ref.r
              = (∑ k ∈ range ii, (Y k).mov.r) + a := by omega
          rw [this]
          exact Mat.vstackFn_e (fun k => (Y k).mov) n ii a t hii ha
        rw [h1, h2, hallc ii hii, hR ii hii]
        rfl
      · intro s t hs' ht
        rw [hr] at hs'
        rw [hc] at ht
        simp only [TenG.line]
        rw [hmean s t f hs' ht, refBlock_e hs hm ii f s t (by rw [e]; exact ht), hest ii hii s t f hs']

/-- **Gains.**  Multiply every channel of setup `k` by `c` (estimator homogeneous:
    `sd(cA, dB) = φ c · ψ d · sd(A, B)`, `φ c · ψ c ≠ 0`; reference block of setup `k`
    invertible).  Then (1) in the mean reference block only setup `k`'s term changes, by the
    factor `φ c · ψ c`; (2) every roving block is still `T_ii · mean'` with the
    transmissibility `T_ii = G_mov,ref⁽ⁱⁱ⁾ · inv(G_ref,ref⁽ⁱⁱ⁾)` of the *unscaled* records — the
    roving blocks depend on the gain only through the mean block. -/
theorem C04_gain [Mul D] (φ ψ : D → K) (hs : SdShape sd) (hh : SdHomog sd φ ψ)
    (hinv : InvContract inv) (hm : method ≠ .other)
    (href : ∀ ii, ii < n → (Y ii).ref.r = (Y 0).ref.r)
    (k : Nat) (hk : k < n) (c : D) (hc : φ c * ψ c ≠ 0)
    (hG : ∀ f, ∃ W, IsLeftInv W (refBlock (Y 0).ref.r (gyy sd fs nxseg pov method Y) k f)) :
    (∀ i j f, i < (Y 0).ref.r → j < (Y 0).ref.r →
      (sdPreGER sd inv fs nxseg pov method n (scaleSetup c k Y)).S.e i j f
        = (1 / (n : K)) * ∑ ii ∈ range n,
            (if ii = k then φ c * ψ c else 1) * (estRef sd fs nxseg pov method Y ii).S.e i j f)
    ∧ (∀ ii a j f, ii < n → a < (Y ii).mov.r →
      (sdPreGER sd inv fs nxseg pov method n (scaleSetup c k Y)).S.e
          ((Y 0).ref.r + (∑ k' ∈ range ii, (Y k').mov.r) + a) j f
        = (Mat.mul
            (Mat.mul (movBlock (Y 0).ref.r (gyy sd fs nxseg pov method Y) ii f)
                     (inv (refBlock (Y 0).ref.r (gyy sd fs nxseg pov method Y) ii f)))
            ((meanRefRef n (Y 0).ref.r
              (gyy sd fs nxseg pov method (scaleSetup c k Y))).line f)).e a j) := by
  have href' : ∀ ii, ii < n → (scaleSetup c k Y ii).ref.r = (scaleSetup c k Y 0).ref.r := by
    intro ii hii; rw [scaleSetup_ref_r, scaleSetup_ref_r]; exact href ii hii
  have h0 : (scaleSetup c k Y 0).ref.r = (Y 0).ref.r := scaleSetup_ref_r c k Y 0
  refine ⟨?_, ?_⟩
  · intro i j f hi hj
    rw [sdPreGER_ref inv hs hm i j f (by rw [h0]; exact hi),
      mean_e hs hm href' i j f (by rw [h0]; exact hj)]
    congr 1
    apply Finset.sum_congr rfl
    intro ii _
    by_cases hik : ii = k
    · subst hik; rw [if_pos rfl, estRef_scaled hh]
    · rw [if_neg hik, one_mul, estRef_congr sd fs nxseg pov method (scaleSetup_ne c Y hik)]
  · intro ii a j f hii ha
    have := sdPreGER_roving (sd := sd) (fs := fs) (nxseg := nxseg) (pov := pov) (Y := scaleSetup c k Y)
      inv hs hm href' ii a j f hii (by rw [scaleSetup_mov_r]; exact ha)
    simp only [scaleSetup_mov_r, h0] at this
    rw [this]
    by_cases hik : ii = k
    · subst hik
      obtain ⟨g0, g1, ge⟩ := gyy_scaled hh fs nxseg pov hm c ii Y
      have e := href ii hii
      have hmb : movBlock (Y 0).ref.r (gyy sd fs nxseg pov method (scaleSetup c ii Y)) ii f
          = Mat.scale (φ c * ψ c) (movBlock (Y 0).ref.r (gyy sd fs nxseg pov method Y) ii f) := by
        simp only [movBlock, TenG.tail0head1, TenG.line, Mat.scale, g0, g1, ge]
      have hrb : refBlock (Y 0).ref.r (gyy sd fs nxseg pov method (scaleSetup c ii Y)) ii f
          = Mat.scale (φ c * ψ c) (refBlock (Y 0).ref.r (gyy sd fs nxseg pov method Y) ii f) := by
        simp only [refBlock, TenG.head01, TenG.line, Mat.scale, g0, g1, ge]
      have hcG : (refBlock (Y 0).ref.r (gyy sd fs nxseg pov method Y) ii f).c = (Y 0).ref.r := by
        rw [← e]; exact refBlock_c hs hm ii f
      have hrG : (refBlock (Y 0).ref.r (gyy sd fs nxseg pov method Y) ii f).r = (Y 0).ref.r := by
        rw [← e]; exact refBlock_r hs hm ii f
      have hsq : (refBlock (Y 0).ref.r (gyy sd fs nxseg pov method Y) ii f).r
          = (refBlock (Y 0).ref.r (gyy sd fs nxseg pov method Y) ii f).c := by rw [hrG, hcG]
      have hAc : (movBlock (Y 0).ref.r (gyy sd fs nxseg pov method Y) ii f).c
          = (refBlock (Y 0).ref.r (gyy sd fs nxseg pov method Y) ii f).c := by
        rw [hcG, ← e]; exact movBlock_c hs hm ii f
      obtain ⟨W0, hW0⟩ := hG f
      have hW : IsLeftInv (inv (refBlock (Y 0).ref.r (gyy sd fs nxseg pov method Y) ii f)) _ :=
        hinv _ hsq ⟨W0, hW0⟩
      have hW' : IsLeftInv (inv (Mat.scale (φ c * ψ c)
          (refBlock (Y 0).ref.r (gyy sd fs nxseg pov method Y) ii f))) _ :=
        hinv _ hsq ⟨_, isLeftInv_scale hc hW0⟩
      simp only [rovingLine, hmb, hrb]
      -- both products sum over the `n_ref` columns of the inverse
      have c1 : (Mat.mul (Mat.scale (φ c * ψ c) (movBlock (Y 0).ref.r (gyy sd fs nxseg pov method Y) ii f))
          (inv (Mat.scale (φ c * ψ c) (refBlock (Y 0).ref.r (gyy sd fs nxseg pov method Y) ii f)))).c
            = (refBlock (Y 0).ref.r (gyy sd fs nxseg pov method Y) ii f).c := by
        simp only [Mat.mul]; rw [hW'.2.1]; simp only [Mat.scale]; exact hsq
      have c2 : (Mat.mul (movBlock (Y 0).ref.r (gyy sd fs nxseg pov method Y) ii f)
          (inv (refBlock (Y 0).ref.r (gyy sd fs nxseg pov method Y) ii f))).c
            = (refBlock (Y 0).ref.r (gyy sd fs nxseg pov method Y) ii f).c := by
        simp only [Mat.mul]; rw [hW.2.1]; exact hsq
      show sumTo _ _ = sumTo _ _
      rw [sumTo_eq, sumTo_eq, c1, c2]
      apply Finset.sum_congr rfl
      intro t ht
      rw [transmissibility_scale hinv hc hsq ⟨W0, hW0⟩ hAc a t (mem_range.mp ht)]
    · have hg : gyy sd fs nxseg pov method (scaleSetup c k Y) ii = gyy sd fs nxseg pov method Y ii :=
        gyy_congr sd fs nxseg pov method (scaleSetup_ne c Y hik)
      simp only [rovingLine, movBlock, refBlock, hg]

omit [Field K] in
/-- **Call trace.**  For `per` and `cor` the code calls the estimator exactly twice per setup,
    in setup order — all × ref, then all × mov — each time with `dt = 1/fs`, the caller's
    `nxseg`, `method` **and `pov`**; `Gyy[ii]` is the `hstack` of precisely these two calls. -/
theorem C04_calls (hm : method ≠ .other) :
    sdPreGERcalls fs nxseg pov method n Y
        = (List.range n).flatMap (fun ii =>
            [(sdArgs fs nxseg method pov, yAll Y ii, (Y ii).ref),
             (sdArgs fs nxseg method pov, yAll Y ii, (Y ii).mov)])
    ∧ (∀ c ∈ sdPreGERcalls fs nxseg pov method n Y,
        c.1.pov = pov ∧ c.1.nxseg = nxseg ∧ c.1.method = method ∧ c.1.dt = 1 / fs)
    ∧ ∀ ii, gyy sd fs nxseg pov method Y ii
        = TenG.hstack (sd (sdArgs fs nxseg method pov) (yAll Y ii) (Y ii).ref).S
                      (sd (sdArgs fs nxseg method pov) (yAll Y ii) (Y ii).mov).S := by
  have h1 : sdPreGERcalls fs nxseg pov method n Y
        = (List.range n).flatMap (fun ii =>
            [(sdArgs fs nxseg method pov, yAll Y ii, (Y ii).ref),
             (sdArgs fs nxseg method pov, yAll Y ii, (Y ii).mov)]) := by
    cases method <;> first | rfl | exact absurd rfl hm
  refine ⟨h1, ?_, fun ii => gyy_eq sd fs nxseg pov method Y hm ii⟩
  intro c hc
  rw [h1, List.mem_flatMap] at hc
  obtain ⟨ii, _, hc⟩ := hc
  simp only [List.mem_cons, List.not_mem_nil, or_false] at hc
  rcases hc with rfl | rfl <;> exact ⟨rfl, rfl, rfl, rfl⟩

/-- the exception wrapper returns the value of `sdPreGER` (with the partial inverse made
    total) whenever it returns at all, and then there was a setup and a known method -/
theorem C04_checked_ok (invOpt : Mat K → Option (Mat K)) (out : SdOut F K)
    (h : sdPreGERchecked sd invOpt fs nxseg pov method n Y = .ok out) :
    out = sdPreGER sd (fun G => (invOpt G).getD G) fs nxseg pov method n Y
      ∧ n ≠ 0 ∧ method ≠ .other := by
  unfold sdPreGERchecked at h
  split at h
  · cases h
  · split at h
    · cases h
    · simp only [] at h
      split at h
      · cases h
      · split at h
        · cases h
        · split at h
          · cases h
          · split at h
            · cases h
            · rename_i h0 h1 _ _ _ _
              exact ⟨(Except.ok.inj h).symm, h0, h1⟩

/-- `FDD_MS.run`, `EFDD_MS.run`, `pLSCF_MS.run` hand their run parameters on unchanged -/
theorem C04_run_params (invOpt : Mat K → Option (Mat K)) (rp : MSRunParams T) :
    msRunSpectrum sd invOpt fs rp n Y
      = sdPreGERchecked sd invOpt fs rp.nxseg rp.pov rp.method_SD n Y := rfl

/-! ### Non-vacuity: a concrete estimator, inverse routine and two setups over ℚ meeting every
hypothesis (the generic definitions are instantiated at ℚ only here). -/
section nonvacuity
variable {K : Type} [Field K]

/-- a toy estimator: zero-lag correlation of the two channels, weighted per line and by `pov` -/
def exSd : Estimator K K K K := fun π A B =>
  ⟨[0, 1], ⟨A.r, B.r, 2, fun i j f => (∑ t ∈ range A.c, A.e i t * B.e j t) * ((f : K) + 1 + π.pov)⟩⟩

theorem exShape : SdShape (exSd (K := K)) := ⟨fun _ _ _ => rfl, fun _ _ _ => rfl, fun _ _ _ => rfl⟩
theorem exPair : Pairwise (exSd (K := K)) :=
  ⟨⟨fun _ _ _ => [0, 1], fun _ _ _ => rfl⟩,
   ⟨fun π cA _ ra rb f => (∑ t ∈ range cA, ra t * rb t) * ((f : K) + 1 + π.pov), fun _ _ _ _ _ _ => rfl⟩⟩
theorem exHomog : SdHomog (exSd (K := K)) id id := by
  refine ⟨fun _ _ _ _ _ => rfl, fun _ _ _ _ _ => rfl, fun _ _ _ _ _ => rfl, fun _ _ _ _ _ => rfl, ?_⟩
  intro π A B c d i j f
  simp only [exSd, Mat.scale, id]
  have : ∑ t ∈ range A.c, c * A.e i t * (d * B.e j t)
      = c * d * ∑ t ∈ range A.c, A.e i t * B.e j t := by
    rw [Finset.mul_sum]; exact Finset.sum_congr rfl (fun t _ => by ring)
  rw [this]; ring

open Classical in
/-- some inverse routine meeting the contract -/
noncomputable def exInv : Mat K → Mat K := fun G =>
  if h : ∃ W, IsLeftInv W G then Classical.choose h else G
theorem exInv_contract : InvContract (exInv (K := K)) := fun G _ h => by
  simp only [exInv, dif_pos h]; exact Classical.choose_spec h

/-- two setups, one shared reference record `(1, 2)`, one and two roving channels -/
def exY : Nat → Setup K := fun ii =>
  ⟨⟨1, 2, fun _ t => (t : K) + 1⟩,
   if ii = 0 then ⟨1, 2, fun _ t => 2 - (t : K)⟩ else ⟨2, 2, fun a t => (a : K) * t + 3⟩⟩

theorem one_by_one (G : Mat K) (hr : G.r = 1) (hc : G.c = 1) (h : G.e 0 0 ≠ 0) :
    ∃ W, IsLeftInv W G := by
  refine ⟨⟨1, 1, fun _ _ => 1 / G.e 0 0⟩, hc.symm, hr.symm, ?_⟩
  intro i j hi hj
  rw [hc] at hi hj
  have hi0 : i = 0 := by omega
  have hj0 : j = 0 := by omega
  subst hi0 hj0
  simp only [Mat.mul, sumTo_eq, Finset.sum_range_one, if_pos]
  field_simp

theorem exRefSpec (π : SdArgs K) (A : Mat K) (h : A.e 0 = (exY (K := K) 0).ref.e 0) (hc : A.c = 2) (f : Nat) :
    (exSd π A (exY 0).ref).S.e 0 0 f = 5 * ((f : K) + 1 + π.pov) := by
  simp only [exSd, h, hc, exY, Finset.sum_range_succ, Finset.sum_range_zero]
  norm_num
end nonvacuity


example := C04_shape (K := ℚ) (sd := exSd) (inv := exInv) (fs := 100) (nxseg := 8) (pov := 1/4)
    (method := .cor) (n := 2) (Y := exY) exShape (by decide) (fun _ _ => rfl)

example := C04_blocks (K := ℚ) (sd := exSd) (inv := exInv) (fs := 100) (nxseg := 8) (pov := 1/4)
    (method := .cor) (n := 2) (Y := exY) exShape (by decide) (fun _ _ => rfl)

example := C04_identical_refs (K := ℚ) (sd := exSd) (inv := exInv) (fs := 100) (nxseg := 8) (pov := 1/4)
    (method := .per) (n := 2) (Y := exY) exShape exPair exInv_contract (by decide) (by norm_num)
    (fun _ _ => rfl)
    (fun f _ => one_by_one _ rfl rfl (by
      show (exSd _ _ (exY 0).ref).S.e 0 0 f ≠ 0
      rw [exRefSpec (sdArgs 100 8 .per (1/4))
        (Mat.vstack2 (exY 0).ref (Mat.vstackFn 2 fun k => (exY k).mov)) rfl rfl f]
      simp only [sdArgs]
      positivity))

example := C04_gain (K := ℚ) (sd := exSd) (inv := exInv) (fs := 100) (nxseg := 8) (pov := 1/4)
    (method := .per) (n := 2) (Y := exY) id id exShape exHomog exInv_contract (by decide)
    (fun _ _ => rfl) 1 (by decide) 3 (by norm_num)
    (fun f => one_by_one _ rfl rfl (by
      rw [refBlock_e exShape (by decide) 1 f 0 0 (by decide)]
      simp only [estRef]
      show (exSd _ _ (exY 0).ref).S.e 0 0 f ≠ 0
      rw [exRefSpec (sdArgs 100 8 .per (1/4)) (yAll exY 1) rfl rfl f]
      simp only [sdArgs]
      positivity))

example : sdPreGERcalls (100 : ℚ) 8 (1/4) .per 2 (exY (K := ℚ)) ≠ [] := by
  simp [sdPreGERcalls, List.range_succ]

end PV.C04
