import PyomaVerif.Props.C05Table
import PyomaVerif.Lemmas.PlscfAbove
import Mathlib.Data.Complex.Basic
import Mathlib.Analysis.Complex.Norm
/-!
# C05 — orders above the true one, and HOW MANY poles the order-`n` column reports

On the model functions of `plscf.pLSCF` / `plscf.pLSCF_poles` (`plscfAll`, `plscfPoles`, `Model/Poles.lean`;
ops `plscf_all`, `plscf_poles`; streams `pLSCF[all orders]`, `pLSCF[above n]`, `pLSCF_poles[loop]`).

* `C05_plscfAll_above_error` — for an exactly rational spectrum of order `n` the call with `ordmax > n` raises
  `LinAlgError` in exact arithmetic (no `try` in the loop: the lower orders are lost with it);
  `C05_e2e_ordmax_eq`: so the hypothesis "`plscfAll … ordmax` returns" of `C05_e2e_table_model` forces
  `ordmax = n` — recorded as a theorem instead of a remark.
* `C05_order_prefix`, `C05_order_column_independent` — what a returning call stores for order `n` does not
  depend on `ordmax` (the clause "model orders up to ordmax ≥ n", as far as exact arithmetic has a value).
* `C05_e2e_count` — under the sign form of the `np.log` contract (`LogContract`: `Re log λ > 0 ⇔ |λ| > 1` on
  the recorded non-zero eigenvalues; checked on every recorded value by `ctx.contract("log")`) and `1/dt > 0`,
  the number of non-NaN cells of column `n − 1` of the pole table (and of the frequency table) is the number of
  roots `ρ` of `det A(z)` over `ℂ`, counted with multiplicity, with `ρ ≠ 0` and `|ρ| ≤ 1` — "exactly one pole
  for each root with non-positive real part of its logarithm, and nothing else".
-/
open Finset Polynomial Matrix
namespace PV.C05
open PV PV.Plscf PV.BlockCompanion

/-! ## orders above `n` through the whole call -/
section above
variable {K : Type} [Field K] [DecidableEq K] [Inhabited K]

/-- **`pLSCF(Sy, dt, ordmax, sgn_basf)` with `ordmax > n` on an exactly rational spectrum of order `n` raises
    `LinAlgError`** (exact arithmetic): the pass of order `n + 1` meets an exactly singular constrained block
    (`C05_e2e_above_none`) and nothing catches it. -/
theorem C05_plscfAll_above_error (Nch Nref Nf n ordmax : Nat) (hNch : 0 < Nch) (hn : n < ordmax)
    (sgn : Int) (hs : sgn = -1 ∨ sgn = 1) (OmOf : Int → Nat → Cx K)
    (Sy : Nat → Nat → Nat → Cx K) (A B : Nat → Nat → Nat → K) (G : Nat → Nat → K)
    (hfit : ExactRMFD Nch Nref Nf n (OmOf sgn) Sy A B)
    (hG : ∀ a < Nch, ∀ b < Nch,
      ∑ t ∈ range Nch, A (cIdx (decide (sgn = 1)) n) a t * G t b = if a = b then 1 else 0) :
    plscfAll Nch Nref Nf ordmax sgn OmOf Sy = .error "LinAlgError" :=
  plscfAll_error_of_none Nch Nref Nf ordmax sgn hs OmOf Sy (n + 1) (by omega) (by omega)
    (C05_e2e_above_none Nch Nref Nf n 1 (le_refl 1) hNch (decide (sgn = 1)) (OmOf sgn) Sy A B G hfit hG)

/-- **a returning call on an exactly rational spectrum of order `n` has `ordmax ≤ n`**: together with
    `n ≤ ordmax` of `C05_e2e_table_model` this is `ordmax = n`. -/
theorem C05_e2e_ordmax_eq (Nch Nref Nf n ordmax : Nat) (hNch : 0 < Nch) (hno : n ≤ ordmax)
    (sgn : Int) (hs : sgn = -1 ∨ sgn = 1) (OmOf : Int → Nat → Cx K)
    (Sy : Nat → Nat → Nat → Cx K) (A B : Nat → Nat → Nat → K) (G : Nat → Nat → K)
    (hfit : ExactRMFD Nch Nref Nf n (OmOf sgn) Sy A B)
    (hG : ∀ a < Nch, ∀ b < Nch,
      ∑ t ∈ range Nch, A (cIdx (decide (sgn = 1)) n) a t * G t b = if a = b then 1 else 0)
    (Ad Bn : List (Coefs K)) (hall : plscfAll Nch Nref Nf ordmax sgn OmOf Sy = .ok (Ad, Bn)) :
    ordmax = n := by
  by_contra hne
  have := C05_plscfAll_above_error Nch Nref Nf n ordmax hNch (by omega) sgn hs OmOf Sy A B G hfit hG
  rw [this] at hall
  cases hall

omit [Field K] in
/-- **The lower orders do not depend on `ordmax`**: a returning call with `ordmax` has, as prefixes of its
    lists, exactly what the call with `ordmax' ≤ ordmax` returns. -/
theorem C05_order_prefix [Zero K] [One K] [Add K] [Sub K] [Neg K] [Mul K] [Div K]
    (Nch Nref Nf ordmax ordmax' : Nat) (hle : ordmax' ≤ ordmax)
    (sgn : Int) (hs : sgn = -1 ∨ sgn = 1) (OmOf : Int → Nat → Cx K) (Sy : Nat → Nat → Nat → Cx K)
    (Ad Bn : List (Coefs K)) (hall : plscfAll Nch Nref Nf ordmax sgn OmOf Sy = .ok (Ad, Bn)) :
    plscfAll Nch Nref Nf ordmax' sgn OmOf Sy = .ok (Ad.take ordmax', Bn.take ordmax') :=
  plscfAll_take Nch Nref Nf ordmax sgn hs OmOf Sy Ad Bn hall ordmax' hle

omit [Field K] in
/-- **The order-`n` entries of two returning calls agree** whatever the two `ordmax ≥ n` are. -/
theorem C05_order_column_independent [Zero K] [One K] [Add K] [Sub K] [Neg K] [Mul K] [Div K]
    (Nch Nref Nf n o1 o2 : Nat) (hn1 : 1 ≤ n) (h1 : n ≤ o1) (h2 : n ≤ o2)
    (sgn : Int) (hs : sgn = -1 ∨ sgn = 1) (OmOf : Int → Nat → Cx K) (Sy : Nat → Nat → Nat → Cx K)
    (Ad1 Bn1 Ad2 Bn2 : List (Coefs K))
    (ha1 : plscfAll Nch Nref Nf o1 sgn OmOf Sy = .ok (Ad1, Bn1))
    (ha2 : plscfAll Nch Nref Nf o2 sgn OmOf Sy = .ok (Ad2, Bn2)) :
    Ad1[n - 1]? = Ad2[n - 1]? ∧ Bn1[n - 1]? = Bn2[n - 1]? ∧ (Ad1[n - 1]?).isSome := by
  obtain ⟨_, _, g1⟩ := plscfAll_get Nch Nref Nf o1 sgn hs OmOf Sy Ad1 Bn1 ha1
  obtain ⟨_, _, g2⟩ := plscfAll_get Nch Nref Nf o2 sgn hs OmOf Sy Ad2 Bn2 ha2
  obtain ⟨out1, r1, a1, b1⟩ := g1 n hn1 h1
  obtain ⟨out2, r2, a2, b2⟩ := g2 n hn1 h2
  rw [r1] at r2
  obtain rfl := Option.some.inj r2
  exact ⟨by rw [a1, a2], by rw [b1, b2], by rw [a1]; rfl⟩

end above

/-! ## the number of reported poles -/

/-- **the `np.log` contract, sign form**, on one recorded eigen-decomposition: for every recorded non-zero
    eigenvalue, `Re log λ > 0` exactly when `|λ|² > 1`.  (`exp(log λ) = λ` itself has no exact rational
    instances; the harness checks `|exp(logv) − λ| ≤ 1e-13·|λ|` and this sign form on every recorded value,
    `ctx.contract("log")`.) -/
def LogContract {K : Type} [Zero K] [One K] [Add K] [Mul K] [LT K] (eigs : List (EigIn K)) : Prop :=
  ∀ e ∈ eigs, ¬ (e.lamd.re = 0 ∧ e.lamd.im = 0) → (0 < e.logv.re ↔ 1 < Cx.normSq e.lamd)

theorem normSq_emb (z : Cx ℚ) :
    Complex.normSq (emb (Rat.castHom ℂ) Complex.I z) = ((Cx.normSq z : ℚ) : ℝ) := by
  simp only [emb, Cx.normSq, Complex.normSq_apply, Rat.coe_castHom, Complex.add_re, Complex.add_im,
    Complex.mul_re, Complex.mul_im, Complex.I_re, Complex.I_im, Complex.ratCast_re, Complex.ratCast_im]
  push_cast
  ring

/-- counting over the row indices of a list is counting over the list -/
theorem countP_range_eq {α : Type} (l : List α) (p : α → Bool) (q : Nat → Bool)
    (h : ∀ r, (hr : r < l.length) → q r = p l[r]) :
    (List.range l.length).countP q = l.countP p := by
  induction l using List.reverseRecOn generalizing q with
  | nil => simp
  | append_singleton l a ih =>
    rw [List.length_append, List.length_singleton, List.range_succ, List.countP_append,
      List.countP_append]
    congr 1
    · apply ih
      intro r hr
      have := h r (by simp; omega)
      rw [this, List.getElem_append_left hr]
    · have := h l.length (by simp)
      simp only [List.countP_singleton, this]
      simp

open scoped Classical in
/-- **`C05_e2e_count`.**  Hypotheses of `C05_e2e_table_model` over `ℚ` (roots taken in `ℂ`), `1/dt > 0` and the
    `np.log` contract on the record of pass `n − 1`.  Then, `eigs` being that record, among the rows
    `r < eigs.length` of column `n − 1` exactly as many cells of the pole table — and of the frequency table —
    are non-NaN as `det A(z)` has roots `ρ ≠ 0` with `|ρ|² ≤ 1`, counted with multiplicity; every row below is
    NaN (last conjunct of `C05_e2e_table_model`). -/
theorem C05_e2e_count (Nch Nref Nf n ordmax : Nat) (hn1 : 1 ≤ n) (hno : n ≤ ordmax)
    (sgn : Int) (hs : sgn = -1 ∨ sgn = 1) (OmOf : Int → Nat → Cx ℚ)
    (Sy : Nat → Nat → Nat → Cx ℚ) (A B : Nat → Nat → Nat → ℚ) (G : Nat → Nat → ℚ)
    (hfit : ExactRMFD Nch Nref Nf n (OmOf sgn) Sy A B)
    (hG : ∀ a < Nch, ∀ b < Nch,
      ∑ t ∈ range Nch, A (cIdx (decide (sgn = 1)) n) a t * G t b = if a = b then 1 else 0)
    (Ad Bn : List (Coefs ℚ)) (hall : plscfAll Nch Nref Nf ordmax sgn OmOf Sy = .ok (Ad, Bn))
    (sqrt : ℚ → ℚ) (twoPi invdt : ℚ) (hdt : 0 < invdt) (cor : Bool) (invTau : ℚ)
    (eigsAll : List (List (EigIn ℚ))) (T : Tables ℚ) (As : List (Mat ℚ))
    (hpoles : plscfPoles sqrt twoPi invdt cor invTau Ad Bn eigsAll = .ok (T, As))
    (hrec : ∀ Am, As[n - 1]? = some Am →
      Multiset.map (fun e => emb (Rat.castHom ℂ) Complex.I e.lamd)
          ((eigsAll.getD (n - 1) [] : List (EigIn ℚ)) : Multiset (EigIn ℚ))
        = ((toMx ((n + 1) * Nch) ((n + 1) * Nch) Am.e).charpoly.map (Rat.castHom ℂ)).roots)
    (hlog : LogContract (eigsAll.getD (n - 1) [])) :
    ((List.range (eigsAll.getD (n - 1) []).length).countP
        fun r => (cellOf T.lam r (n - 1)).isSome)
      = Multiset.card ((((polyMx n Nch A).det.map (Rat.castHom ℂ)).roots.filter (· ≠ 0)).filter
          fun ρ => Complex.normSq ρ ≤ 1)
    ∧ ((List.range (eigsAll.getD (n - 1) []).length).countP
        fun r => (cellOf T.fn r (n - 1)).isSome)
      = Multiset.card ((((polyMx n Nch A).det.map (Rat.castHom ℂ)).roots.filter (· ≠ 0)).filter
          fun ρ => Complex.normSq ρ ≤ 1) := by
  obtain ⟨out, Am, Cm, _, _, _, c1, _, c3⟩ := C05_e2e_table_model (Rat.castHom ℂ) Complex.I
    Complex.I_mul_I Nch Nref Nf n ordmax hn1 hno sgn hs OmOf Sy A B G hfit hG Ad Bn hall sqrt twoPi invdt
    cor invTau eigsAll T As hpoles hrec
  generalize eigsAll.getD (n - 1) [] = eigs at c1 c3 hlog ⊢
  -- the filled cells are the non-zero records inside the closed unit disc
  let P : EigIn ℚ → Bool := fun e =>
    !decide (e.lamd.re = 0 ∧ e.lamd.im = 0) && decide (Cx.normSq e.lamd ≤ 1)
  have hcell : ∀ r, (hr : r < eigs.length) → (cellOf T.lam r (n - 1)).isSome = P eigs[r] := by
    intro r hr
    rw [(c3 r).1, List.getElem?_eq_getElem hr]
    simp only [Option.bind_some, P]
    by_cases hz : (eigs[r]).lamd.re = 0 ∧ (eigs[r]).lamd.im = 0
    · simp [hz]
    · have hl := hlog eigs[r] (List.getElem_mem hr) hz
      have hm : 0 < (eigs[r]).logv.re * invdt ↔ 0 < (eigs[r]).logv.re := by
        constructor
        · intro h; exact (pos_iff_pos_of_mul_pos h).mpr hdt
        · intro h; exact mul_pos h hdt
      by_cases hb : 0 < (eigs[r]).logv.re * invdt
      · have : ¬ Cx.normSq (eigs[r]).lamd ≤ 1 := not_le.mpr (hl.mp (hm.mp hb))
        simp [hz, hb, this]
      · have : Cx.normSq (eigs[r]).lamd ≤ 1 := not_lt.mp (fun h => hb (hm.mpr (hl.mpr h)))
        simp [hz, hb, this]
  have hfn : ∀ r, (hr : r < eigs.length) → (cellOf T.fn r (n - 1)).isSome = P eigs[r] := by
    intro r hr
    rw [(c3 r).2.1, Option.isSome_map]
    exact hcell r hr
  have hcount : eigs.countP P = Multiset.card ((((polyMx n Nch A).det.map (Rat.castHom ℂ)).roots.filter
      (· ≠ 0)).filter fun ρ => Complex.normSq ρ ≤ 1) := by
    rw [← c1, Multiset.filter_map, Multiset.card_map, Multiset.filter_coe, Multiset.coe_card,
      List.filter_filter, ← List.countP_eq_length_filter]
    apply List.countP_congr
    intro e _
    simp only [P, Function.comp, normSq_emb, Bool.and_eq_true, decide_eq_true_eq, Bool.not_eq_true',
      decide_eq_false_iff_not]
    have : ((Cx.normSq e.lamd : ℚ) : ℝ) ≤ 1 ↔ Cx.normSq e.lamd ≤ 1 := by
      rw [← Rat.cast_one, Rat.cast_le]
    rw [this]
    tauto
  exact ⟨(countP_range_eq eigs P _ hcell).trans hcount, (countP_range_eq eigs P _ hfn).trans hcount⟩

/-! ## Non-vacuity -/
section examples

-- the `np.log` contract holds on both records of the instance of `Props/C05Table.lean`
theorem e2e_log : LogContract ([e2eEigs1, e2eEigs].getD (2 - 1) []) := by
  unfold LogContract; decide +kernel

/-- all hypotheses of `C05_e2e_count` hold jointly on the instance (two channels, order 2, `sgn_basf = −1`,
    `1/dt = 10`): column 1 has two filled cells, `det A` has two roots (`1/2`, `1/3`) in the unit disc. -/
example :=
  C05_e2e_count 2 1 6 2 2 (by decide) (by decide) (-1) (Or.inl rfl) e2eOmOf e2eSy e2eA e2eB (e2eG false)
    e2e_fit (e2e_G false) e2eLists.1 e2eLists.2 e2e_all id 1 10 (by decide) false 0 [e2eEigs1, e2eEigs]
    e2eTabs.1 e2eTabs.2 e2e_poles e2e_rec_model e2e_log

example : ((List.range ([e2eEigs1, e2eEigs].getD (2 - 1) []).length).countP
    fun r => (cellOf e2eTabs.1.lam r (2 - 1)).isSome) = 2 := by decide +kernel

-- `C05_plscfAll_above_error` / `C05_e2e_ordmax_eq` on the instance: `ordmax = 3 > 2` raises
example : plscfAll 2 1 6 3 (-1) e2eOmOf e2eSy = .error "LinAlgError" :=
  C05_plscfAll_above_error 2 1 6 2 3 (by decide) (by decide) (-1) (Or.inl rfl) e2eOmOf e2eSy e2eA e2eB
    (e2eG false) e2e_fit (e2e_G false)
example : (2 : Nat) = 2 :=
  C05_e2e_ordmax_eq 2 1 6 2 2 (by decide) (by decide) (-1) (Or.inl rfl) e2eOmOf e2eSy e2eA e2eB
    (e2eG false) e2e_fit (e2e_G false) e2eLists.1 e2eLists.2 e2e_all
-- prefix: the call with `ordmax = 1` returns the first entries of the call with `ordmax = 2`
example : plscfAll 2 1 6 1 (-1) e2eOmOf e2eSy = .ok (e2eLists.1.take 1, e2eLists.2.take 1) :=
  C05_order_prefix 2 1 6 2 1 (by decide) (-1) (Or.inl rfl) e2eOmOf e2eSy _ _ e2e_all
example := C05_order_column_independent 2 1 6 1 1 2 (by decide) (by decide) (by decide) (-1) (Or.inl rfl)
  e2eOmOf e2eSy _ _ _ _
  (C05_order_prefix 2 1 6 2 1 (by decide) (-1) (Or.inl rfl) e2eOmOf e2eSy _ _ e2e_all) e2e_all

end examples

end PV.C05
