import PyomaVerif.Props.C04C13
import PyomaVerif.Props.C06C13
import PyomaVerif.Lemmas.MsFdd
/-!
# C04 ∘ C06 (∘ C13) — multi-setup FDD end to end

`FDD_MS.run` is `SD_PreGER` (C04's model `sdPreGER`, with C13's estimator models through
`C04C13.sdEst`) followed by `SD_svalsvec`; `FDD_MS.mpe` is `FDD_mpe` (C06's model `fddOne`).
The data model of this file: setup `ii` records the channels `g_ii · a[row] · s_ii(t)` of ONE
global real shape `a` — reference rows `refId`, shared by the setups, and its own roving rows
`movId ii` — with its own gain `g_ii ≠ 0` and its own scalar signal `s_ii` (`OneShape`).

What the models (and the pinned code, see the replay numbers at the end) give:

* `C04C06_setup_rank_one` — each setup's spectral matrix is `S_ii(k)·g_ii²·a[rows]·a[refs]ᵀ`
  (C13's rank-one theorems, either estimator).
* `C04C06_transmissibility` — for ANY records whose roving channels are a fixed real combination
  `T` of the same setup's reference channels: the merged matrix's roving rows are `T` times its
  reference rows (the mean block), whenever that setup's reference block is invertible at the line.
* `C04C06_ref_block_singular` / `C04C06_linalg_error` — with TWO OR MORE references the
  reference block `g²·S(k)·a_ref·a_refᵀ` of exact one-shape data is singular at every line:
  `SD_PreGER` raises `LinAlgError` (model: `sdPreGERchecked` never returns a value).  The
  non-degeneracy the merge needs is therefore **exactly one reference channel**, `a[ref] ≠ 0`,
  `g_ii ≠ 0`, `S_ii(k) ≠ 0`.
* `C04C06_merged_rank_one` — then (one reference) the merged matrix is the `N × 1` column
  `σ(k)·a[order]·a[ref]`, `order` = reference then roving rows by setup, with the explicit
  `σ(k) = (1/n)·Σ_ii g_ii²·S_ii(k)`: the gains and signals enter through the scalar `σ` only.
* `C04C06_shape_at_line` — at every line with `σ(k) ≠ 0` the row `Svec[0,:,k]` that
  `SD_svalsvec` stores (recorded SVD of that one-column matrix), normalised as `FDD_mpe` does,
  is exactly `a[order] / a[order][argmax|·|]` — independent of the gains and of the signals.
* `C04C06_one_ref_index_error` — but `FDD_mpe` cannot be run on it: with one reference
  `Sval` is `1 × 1 × nf` and `Sval[1, 1, …]` raises `IndexError` (model: `fddOne` returns the
  error).  So for exact one-shape data the end-to-end statement "FDD_MS returns the global shape"
  holds for the stored singular vector at every line, never for the value of `FDD_MS.mpe`:
  one reference → `IndexError`, two or more → `LinAlgError`.
-/
set_option linter.unusedSectionVars false
namespace PV.C04C06
open PV PV.Mat Finset PV.C04C13 PV.C06C13

/-! ## the estimator on one-shape and on combined records (method-generic forms of C13's theorems) -/
section est
variable {K : Type} [Field K] [LinearOrder K] [IsStrictOrderedRing K]

/-- `SD_est(s, s, dt, nxseg, method, pov)[0, 0, k]`: the auto-spectrum of the scalar signal `s`
    (`C06C13.autoPer` / `autoCor`, selected by the argument record as `sdEst` does) -/
def autoSd (tb : Tables K) (π : SdArgs K) (s : Nat → K) (Ndat : Nat) (k : Nat) : CxS K :=
  (sdEst tb π (scalarRec Ndat s) (scalarRec Ndat s)).S.e 0 0 k

/-- `C13_rank_one_*_entry` through the adapter `sdEst` -/
theorem sdEst_rank_one_entry (tb : Tables K) (π : SdArgs K) (Yall Yref : Mat K) (s : Nat → K)
    (ai bj : K) (i j k : Nat) (hA : ∀ t, t < Yref.c → Yall.e i t = ai * s t)
    (hB : ∀ t, t < Yref.c → Yref.e j t = bj * s t) :
    (sdEst tb π Yall Yref).S.e i j k = CxS.ofReal (ai * bj) * autoSd tb π s Yref.c k := by
  rcases π with ⟨dt, nx, m, pov⟩
  cases m
  · exact C13_rank_one_per_entry Yall Yref s ai bj dt nx _ _ i j k hA hB
  · exact C13_rank_one_cor_entry Yall Yref s ai bj dt nx _ _ _ i j k hA hB
  · show (0 : CxS K) = _ * (0 : CxS K)
    rw [mul_zero]

/-- `C13_superposition_*` through the adapter `sdEst` -/
theorem sdEst_superposition (tb : Tables K) (π : SdArgs K) (Yall Yref Sg : Mat K)
    (Φ Ψ : Nat → Nat → K) (hc : Sg.c = Yref.c)
    (hA : ∀ i, i < Yall.r → ∀ t, t < Yref.c → Yall.e i t = ∑ μ ∈ range Sg.r, Φ i μ * Sg.e μ t)
    (hB : ∀ j, j < Yref.r → ∀ t, t < Yref.c → Yref.e j t = ∑ ν ∈ range Sg.r, Ψ j ν * Sg.e ν t)
    (i j k : Nat) (hi : i < Yall.r) (hj : j < Yref.r) :
    (sdEst tb π Yall Yref).S.e i j k
      = ∑ μ ∈ range Sg.r, ∑ ν ∈ range Sg.r,
          CxS.ofReal (Φ i μ) * (sdEst tb π Sg Sg).S.e μ ν k * CxS.ofReal (Ψ j ν) := by
  rcases π with ⟨dt, nx, m, pov⟩
  cases m
  · exact C13_superposition_per Yall Yref Sg Φ Ψ hc hA hB dt nx _ _ i j k hi hj
  · exact C13_superposition_cor Yall Yref Sg Φ Ψ hc hA hB dt nx _ _ _ i j k hi hj
  · show (0 : CxS K) = _
    symm
    apply sum_eq_zero; intro μ _
    apply sum_eq_zero; intro ν _
    show _ * (0 : CxS K) * _ = 0
    ring

/-- **Left-linearity on the rows of the reference record.** If row `i` of the data is the real
    combination `Σ_μ c_μ·Yref[μ]` of the reference channels, entry `(i, j)` of the estimate is
    `Σ_μ c_μ·SD_est(Yref, Yref)[μ, j]` at every line. -/
theorem sdEst_rows_of_ref (tb : Tables K) (π : SdArgs K) (Yall Yref : Mat K) (Φ : Nat → Nat → K)
    (hA : ∀ i, i < Yall.r → ∀ t, t < Yref.c → Yall.e i t = ∑ μ ∈ range Yref.r, Φ i μ * Yref.e μ t)
    (i j k : Nat) (hi : i < Yall.r) (hj : j < Yref.r) :
    (sdEst tb π Yall Yref).S.e i j k
      = ∑ μ ∈ range Yref.r, CxS.ofReal (Φ i μ) * (sdEst tb π Yref Yref).S.e μ j k := by
  rw [sdEst_superposition tb π Yall Yref Yref Φ (fun j ν => if j = ν then 1 else 0) rfl hA
    (fun j hj t _ => by simp [Finset.sum_ite_eq, hj]) i j k hi hj]
  apply sum_congr rfl; intro μ _
  rw [sum_eq_single j]
  · rw [if_pos rfl, CxS.ofReal_one, mul_one]
  · intro ν _ hν
    rw [if_neg (Ne.symm hν), CxS.ofReal_zero, mul_zero]
  · intro h; exact absurd (mem_range.mpr hj) h

end est

/-! ## the merge -/
section merge
variable {K : Type} [Field K] [LinearOrder K] [IsStrictOrderedRing K]
variable (tb : Tables K) {inv : Mat (CxS K) → Mat (CxS K)} {fs : K} {nxseg : Nat} {pov : K}
  {method : SdMethod} {n : Nat} {Y : Nat → Setup K}

/-- **Transmissibility.** Setup `ii`'s roving channels are a fixed real combination of its own
    reference channels, `Y_mov[b] = Σ_s T[b,s]·Y_ref[s]` (any signals): at every line where that
    setup's reference block is invertible, the roving rows of the merged matrix are `T` times its
    reference rows (the mean block) — for every `fs`, `nxseg`, overlap and either estimator. -/
theorem C04C06_transmissibility (hinv : InvContract inv) (hm : method ≠ .other)
    (href : ∀ ii, ii < n → (Y ii).ref.r = (Y 0).ref.r) (ii : Nat) (hii : ii < n)
    (Tm : Nat → Nat → K)
    (hmov : ∀ b, b < (Y ii).mov.r → ∀ t, t < (Y ii).ref.c →
      (Y ii).mov.e b t = ∑ s ∈ range (Y 0).ref.r, Tm b s * (Y ii).ref.e s t)
    (f : Nat)
    (hG : ∃ W, IsLeftInv W (refBlock (Y 0).ref.r (gyy (sdEst tb) fs nxseg pov method Y) ii f)) :
    ∀ b j, b < (Y ii).mov.r → j < (Y 0).ref.r →
      (sdPreGER (sdEst tb) inv fs nxseg pov method n Y).S.e
          ((Y 0).ref.r + (∑ k ∈ range ii, (Y k).mov.r) + b) j f
        = ∑ s ∈ range (Y 0).ref.r, CxS.ofReal (Tm b s)
            * (sdPreGER (sdEst tb) inv fs nxseg pov method n Y).S.e s j f := by
  intro b j hb hj
  have hs := sdEst_shape tb
  have e := href ii hii
  have hcG : (refBlock (Y 0).ref.r (gyy (sdEst tb) fs nxseg pov method Y) ii f).c = (Y 0).ref.r := by
    rw [← e]; exact refBlock_c hs hm ii f
  have hrG : (refBlock (Y 0).ref.r (gyy (sdEst tb) fs nxseg pov method Y) ii f).r = (Y 0).ref.r := by
    rw [← e]; exact refBlock_r hs hm ii f
  have hsq : (refBlock (Y 0).ref.r (gyy (sdEst tb) fs nxseg pov method Y) ii f).r
      = (refBlock (Y 0).ref.r (gyy (sdEst tb) fs nxseg pov method Y) ii f).c := by rw [hrG, hcG]
  have hAc : (movBlock (Y 0).ref.r (gyy (sdEst tb) fs nxseg pov method Y) ii f).c
      = (refBlock (Y 0).ref.r (gyy (sdEst tb) fs nxseg pov method Y) ii f).c := by
    rw [hcG, ← e]; exact movBlock_c hs hm ii f
  have hW := hinv _ hsq hG
  -- the rows of `[ref; mov]` as combinations of the reference rows
  have hrows : ∀ i, i < (yAll Y ii).r → ∀ t, t < (Y ii).ref.c →
      (yAll Y ii).e i t = ∑ μ ∈ range (Y ii).ref.r,
        (if i < (Y 0).ref.r then (if i = μ then 1 else 0) else Tm (i - (Y 0).ref.r) μ)
          * (Y ii).ref.e μ t := by
    intro i hi t ht
    simp only [yAll, Mat.vstack2] at hi ⊢
    by_cases hlt : i < (Y 0).ref.r
    · rw [if_pos (by rw [e]; exact hlt)]
      simp only [if_pos hlt]
      simp [Finset.sum_ite_eq, e, hlt]
    · rw [if_neg (by rw [e]; exact hlt)]
      simp only [if_neg hlt]
      rw [e, hmov (i - (Y 0).ref.r) (by omega) t ht]
  have hest : ∀ i u, i < (Y 0).ref.r + (Y ii).mov.r → u < (Y 0).ref.r →
      (estRef (sdEst tb) fs nxseg pov method Y ii).S.e i u f
        = ∑ μ ∈ range (Y 0).ref.r,
            CxS.ofReal (if i < (Y 0).ref.r then (if i = μ then 1 else 0) else Tm (i - (Y 0).ref.r) μ)
              * (sdEst tb (sdArgs fs nxseg method pov) (Y ii).ref (Y ii).ref).S.e μ u f := by
    intro i u hi hu
    have := sdEst_rows_of_ref tb (sdArgs fs nxseg method pov) (yAll Y ii) (Y ii).ref _ hrows i u f
      (by simp only [yAll, Mat.vstack2]; omega) (by rw [e]; exact hu)
    rw [e] at this
    exact this
  have hrefE : ∀ s u, s < (Y 0).ref.r → u < (Y 0).ref.r →
      (estRef (sdEst tb) fs nxseg pov method Y ii).S.e s u f
        = (sdEst tb (sdArgs fs nxseg method pov) (Y ii).ref (Y ii).ref).S.e s u f := by
    intro s u hs' hu
    rw [hest s u (by omega) hu]
    simp only [if_pos hs']
    rw [sum_eq_single s]
    · rw [if_pos rfl, CxS.ofReal_one, one_mul]
    · intro μ _ hμ; rw [if_neg (Ne.symm hμ), CxS.ofReal_zero, zero_mul]
    · intro h; exact absurd (mem_range.mpr hs') h
  rw [sdPreGER_roving inv hs hm href ii b j f hii hb]
  simp only [rovingLine]
  rw [transmissibility_cancel (fun b s => CxS.ofReal (Tm b s)) hsq hW hAc b ?_ j, hcG]
  · apply sum_congr rfl; intro s hs'
    rw [sdPreGER_ref inv hs hm s j f (mem_range.mp hs')]
    rfl
  · intro u hu
    rw [hcG] at hu ⊢
    rw [movBlock_e hs hm ii f b u (by rw [e]; exact hu), hest _ u (by omega) hu]
    simp only [if_neg (show ¬ (Y 0).ref.r + b < (Y 0).ref.r by omega), Nat.add_sub_cancel_left]
    apply sum_congr rfl; intro s hs'
    rw [refBlock_e hs hm ii f s u (by rw [e]; exact hu), hrefE s u (mem_range.mp hs') hu]

/-! ### one global shape -/

/-- **The data model.** `n` setups of one global real shape `a`: the shared reference channels
    are the rows `refId j` of the structure, setup `ii`'s roving channels the rows `movId ii b`;
    every channel of setup `ii` is `g_ii · a[row] · s_ii(t)` on that setup's `Ndat_ii` samples. -/
structure OneShape (n : Nat) (Y : Nat → Setup K) (a : Nat → K) (refId : Nat → Nat)
    (movId : Nat → Nat → Nat) (g : Nat → K) (s : Nat → Nat → K) : Prop where
  nref : ∀ ii, ii < n → (Y ii).ref.r = (Y 0).ref.r
  ref : ∀ ii, ii < n → ∀ j, j < (Y 0).ref.r → ∀ t, t < (Y ii).ref.c →
    (Y ii).ref.e j t = g ii * a (refId j) * s ii t
  mov : ∀ ii, ii < n → ∀ b, b < (Y ii).mov.r → ∀ t, t < (Y ii).ref.c →
    (Y ii).mov.e b t = g ii * a (movId ii b) * s ii t

/-- the structure row measured at row `i` of the merged matrix: references (listed order), then
    each setup's roving channels, in setup order -/
def order (n : Nat) (Y : Nat → Setup K) (refId : Nat → Nat) (movId : Nat → Nat → Nat) : Nat → Nat :=
  stackFn (Y 0).ref.r refId (fun ii => (Y ii).mov.r) movId n

/-- number of rows of the merged matrix -/
def nRows (n : Nat) (Y : Nat → Setup K) : Nat := (Y 0).ref.r + ∑ k ∈ range n, (Y k).mov.r

/-- `σ(k) = (1/n)·Σ_ii g_ii²·S_ii(k)`, `S_ii` the estimated auto-spectrum of setup `ii`'s signal -/
def sigma (fs : K) (nxseg : Nat) (pov : K) (method : SdMethod) (n : Nat) (Y : Nat → Setup K)
    (g : Nat → K) (s : Nat → Nat → K) (k : Nat) : CxS K :=
  (1 / (n : CxS K)) * ∑ ii ∈ range n, CxS.ofReal (g ii * g ii)
    * autoSd tb (sdArgs fs nxseg method pov) (s ii) (Y ii).ref.c k

variable {a : Nat → K} {refId : Nat → Nat} {movId : Nat → Nat → Nat} {g : Nat → K}
  {s : Nat → Nat → K}

/-- **Each setup's spectral matrix is rank one** (C13 through `C06C13`): entry `(i, j)` of the
    all × ref estimate of setup `ii` is `g_ii² · a[row i]·a[ref j] · S_ii(k)`. -/
theorem C04C06_setup_rank_one (hd : OneShape n Y a refId movId g s) (ii : Nat) (hii : ii < n)
    (i j k : Nat) (hi : i < (Y 0).ref.r + (Y ii).mov.r) (hj : j < (Y 0).ref.r) :
    (estRef (sdEst tb) fs nxseg pov method Y ii).S.e i j k
      = CxS.ofReal (g ii * g ii)
        * CxS.ofReal (a (if i < (Y 0).ref.r then refId i else movId ii (i - (Y 0).ref.r)) * a (refId j))
        * autoSd tb (sdArgs fs nxseg method pov) (s ii) (Y ii).ref.c k := by
  have e := hd.nref ii hii
  have h := sdEst_rank_one_entry tb (sdArgs fs nxseg method pov) (yAll Y ii) (Y ii).ref (s ii)
    (g ii * a (if i < (Y 0).ref.r then refId i else movId ii (i - (Y 0).ref.r))) (g ii * a (refId j))
    i j k (by
      intro t ht
      simp only [yAll, Mat.vstack2, e]
      by_cases hlt : i < (Y 0).ref.r
      · simp only [if_pos hlt]; exact hd.ref ii hii i hlt t ht
      · simp only [if_neg hlt]; exact hd.mov ii hii _ (by omega) t ht)
    (hd.ref ii hii j hj)
  show (sdEst tb (sdArgs fs nxseg method pov) (yAll Y ii) (Y ii).ref).S.e i j k = _
  rw [h, ← CxS.ofReal_mul]
  congr 2; ring

/-- **Two or more references: the reference block is singular at every line.** -/
theorem C04C06_ref_block_singular (hd : OneShape n Y a refId movId g s) (hm : method ≠ .other)
    (h2 : 2 ≤ (Y 0).ref.r) (ii : Nat) (hii : ii < n) (f : Nat) :
    ¬ ∃ W, IsLeftInv W (refBlock (Y 0).ref.r (gyy (sdEst tb) fs nxseg pov method Y) ii f) := by
  have hs := sdEst_shape tb
  have e := hd.nref ii hii
  have hcG : (refBlock (Y 0).ref.r (gyy (sdEst tb) fs nxseg pov method Y) ii f).c = (Y 0).ref.r := by
    rw [← e]; exact refBlock_c hs hm ii f
  have hrG : (refBlock (Y 0).ref.r (gyy (sdEst tb) fs nxseg pov method Y) ii f).r = (Y 0).ref.r := by
    rw [← e]; exact refBlock_r hs hm ii f
  apply rank_one_no_leftInv (by rw [hrG, hcG]) (by rw [hcG]; exact h2)
    (CxS.ofReal (g ii * g ii) * autoSd tb (sdArgs fs nxseg method pov) (s ii) (Y ii).ref.c f)
    (fun j => CxS.ofReal (a (refId j)))
  intro i j hi hj
  rw [hcG] at hi hj
  rw [refBlock_e hs hm ii f i j (by rw [e]; exact hj),
    C04C06_setup_rank_one tb hd ii hii i j f (by omega) hj, if_pos hi]
  simp only [CxS.ofReal_mul]
  ring

/-- **… hence `SD_PreGER` raises `LinAlgError`** (model: the checked variant returns no value,
    for every partial inverse that only ever returns left inverses). -/
theorem C04C06_linalg_error (hd : OneShape n Y a refId movId g s) (h2 : 2 ≤ (Y 0).ref.r)
    (invOpt : Mat (CxS K) → Option (Mat (CxS K)))
    (hsound : ∀ G W, invOpt G = some W → IsLeftInv W G) :
    ∀ out, sdPreGERchecked (sdEst tb) invOpt fs nxseg pov method n Y ≠ .ok out := by
  intro out h
  unfold sdPreGERchecked at h
  split at h
  · cases h
  · split at h
    · cases h
    · simp only [] at h
      split at h
      · cases h
      · split at h
        · cases h
        · split at h
          · cases h
          · split at h
            · cases h
            · rename_i h0 h1 _ hnf _ hlines
              have hlines' := (Bool.not_eq_true _).mp hlines
              rw [Bool.not_eq_false'] at hlines'
              rw [List.all_eq_true] at hlines'
              have hn0 : 0 < n := Nat.pos_of_ne_zero h0
              have hf0 := hlines' 0 (List.mem_range.mpr (Nat.pos_of_ne_zero hnf))
              rw [List.all_eq_true] at hf0
              have h00 := hf0 0 (List.mem_range.mpr hn0)
              simp only [Bool.and_eq_true] at h00
              obtain ⟨W, hW⟩ := Option.isSome_iff_exists.mp h00.2
              exact C04C06_ref_block_singular tb hd h1 h2 0 hn0 0 ⟨W, hsound _ _ hW⟩

/-- **One reference: the merged matrix is the column `σ(k)·a[order]·a[ref]`.**  Hypotheses:
    exactly one reference channel, measuring a non-zero component of the shape; every gain
    non-zero; every setup's auto-spectrum non-zero at the line (then each `1 × 1` reference block
    is invertible — and by `C04C06_ref_block_singular` it is not with more references). -/
theorem C04C06_merged_rank_one (hd : OneShape n Y a refId movId g s) (hinv : InvContract inv)
    (hm : method ≠ .other) (h1 : (Y 0).ref.r = 1) (ha : a (refId 0) ≠ 0)
    (hg : ∀ ii, ii < n → g ii ≠ 0) (f : Nat)
    (hS : ∀ ii, ii < n → autoSd tb (sdArgs fs nxseg method pov) (s ii) (Y ii).ref.c f ≠ 0) :
    (sdPreGER (sdEst tb) inv fs nxseg pov method n Y).S.n0 = nRows n Y
    ∧ (sdPreGER (sdEst tb) inv fs nxseg pov method n Y).S.n1 = 1
    ∧ ∀ i, i < nRows n Y →
      (sdPreGER (sdEst tb) inv fs nxseg pov method n Y).S.e i 0 f
        = CxS.ofReal (a (order n Y refId movId i) * a (refId 0)) * sigma tb fs nxseg pov method n Y g s f := by
  have hs := sdEst_shape tb
  obtain ⟨sh0, sh1, _, _⟩ := sdPreGER_shape (sd := sdEst tb) (fs := fs) (nxseg := nxseg) (pov := pov)
    (method := method) (n := n) (Y := Y) inv hs hm hd.nref
  refine ⟨sh0, by rw [sh1, h1], ?_⟩
  -- the reference entry: the mean of the reference auto-spectra
  have h00 : (sdPreGER (sdEst tb) inv fs nxseg pov method n Y).S.e 0 0 f
      = CxS.ofReal (a (refId 0) * a (refId 0)) * sigma tb fs nxseg pov method n Y g s f := by
    rw [sdPreGER_ref inv hs hm 0 0 f (by omega), mean_e hs hm hd.nref 0 0 f (by omega)]
    simp only [sigma]
    rw [mul_left_comm]
    congr 1
    rw [mul_sum]
    apply sum_congr rfl; intro ii hii
    rw [C04C06_setup_rank_one tb hd ii (mem_range.mp hii) 0 0 f (by omega) (by omega),
      if_pos (by omega)]
    ring
  intro i hi
  by_cases hlt : i < (Y 0).ref.r
  · have hi0 : i = 0 := by omega
    subst hi0
    simp only [order]
    rw [stackFn_ref _ _ _ _ _ _ hlt, h00]
  · obtain ⟨ii, b, hii, hb, hib⟩ := Mat.row_decomp (fun k => (Y k).mov.r) n (i - (Y 0).ref.r)
      (by simp only [nRows] at hi; omega)
    have hi' : i = (Y 0).ref.r + (∑ k ∈ range ii, (Y k).mov.r) + b := by omega
    have e := hd.nref ii hii
    -- the `1 × 1` reference block of setup `ii` is invertible
    have hG : ∃ W, IsLeftInv W (refBlock (Y 0).ref.r (gyy (sdEst tb) fs nxseg pov method Y) ii f) := by
      apply C04.one_by_one
      · rw [← e, refBlock_r hs hm ii f, e, h1]
      · rw [← e, refBlock_c hs hm ii f, e, h1]
      · rw [refBlock_e hs hm ii f 0 0 (by omega),
          C04C06_setup_rank_one tb hd ii hii 0 0 f (by omega) (by omega), if_pos (by omega)]
        exact mul_ne_zero (mul_ne_zero (ofReal_ne_zero (mul_ne_zero (hg ii hii) (hg ii hii)))
          (ofReal_ne_zero (mul_ne_zero ha ha))) (hS ii hii)
    have hT := C04C06_transmissibility tb (inv := inv) (fs := fs) (nxseg := nxseg) (pov := pov)
      (method := method) (n := n) (Y := Y) hinv hm hd.nref ii hii
      (fun b _ => a (movId ii b) / a (refId 0))
      (by
        intro b hb t ht
        rw [h1, Finset.sum_range_one, hd.mov ii hii b hb t ht, hd.ref ii hii 0 (by omega) t ht]
        field_simp)
      f hG b 0 hb (by omega)
    rw [hi']
    simp only [order]
    rw [stackFn_mov _ _ (fun ii => (Y ii).mov.r) _ n ii b hii hb, hT, h1, Finset.sum_range_one, h00,
      ← mul_assoc, ← CxS.ofReal_mul]
    congr 2
    field_simp

end merge

/-! ## the FDD stage -/
section fdd
variable {K : Type} [Field K] [LinearOrder K] [IsStrictOrderedRing K]
variable (tb : Tables K) {inv : Mat (CxS K) → Mat (CxS K)} {fs : K} {nxseg : Nat} {pov : K}
  {method : SdMethod} {n : Nat} {Y : Nat → Setup K}
  {a : Nat → K} {refId : Nat → Nat} {movId : Nat → Nat → Nat} {g : Nat → K} {s : Nat → Nat → K}

/-- one pass of `FDD_mpe` on what `FDD_MS.run` stores: `freq, Sy = SD_PreGER(…)`,
    `Sval, Svec = SD_svalsvec(Sy)` (placement of the recorded `√S`, `U`), `FDD_mpe(Sval, Svec, freq,
    [sel], DF)`.  `Sval` has the shape `(n_ref, n_ref, nf)`, `Svec[0, :, k]` one entry per row of `Sy`. -/
def fddMsOne (inv : Mat (CxS K) → Mat (CxS K)) (fs : K) (nxseg : Nat) (pov : K) (method : SdMethod)
    (n : Nat) (Y : Nat → Setup K) (sq : Nat → Nat → K) (U : Nat → Nat → Nat → Fdd.Cx K) (DF sel : K) :
    Except String (Fdd.ModeOut K) :=
  let out := sdPreGER (sdEst tb) inv fs nxseg pov method n Y
  Fdd.fddOne out.S.n0 out.S.n1 out.S.n2 (fun k => out.freq.getD k 0)
    (Fdd.svalPlace sq) (Fdd.svecPlace U) DF sel

/-- **One reference: `FDD_mpe` raises.** With a single reference channel `Sval[1, 1, :]` does not
    exist; whatever the data, the recorded SVD, the band and the selected frequency, the pass
    returns an exception (`IndexError`, or `ValueError` for an empty grid) — never a mode. -/
theorem C04C06_one_ref_index_error (hm : method ≠ .other)
    (href : ∀ ii, ii < n → (Y ii).ref.r = (Y 0).ref.r) (h1 : (Y 0).ref.r = 1)
    (sq : Nat → Nat → K) (U : Nat → Nat → Nat → Fdd.Cx K) (DF sel : K) :
    ∃ e, fddMsOne tb inv fs nxseg pov method n Y sq U DF sel = .error e
      ∧ (0 < (sdPreGER (sdEst tb) inv fs nxseg pov method n Y).freq.length →
          e = "IndexError: index 1 is out of bounds") := by
  obtain ⟨_, sh1, sh2, _⟩ := sdPreGER_shape (sd := sdEst tb) (fs := fs) (nxseg := nxseg) (pov := pov)
    (method := method) (n := n) (Y := Y) inv (sdEst_shape tb) hm href
  simp only [fddMsOne, Fdd.fddOne, Fdd.fddPick, sh1, h1, sh2]
  by_cases h0 : (sdPreGER (sdEst tb) inv fs nxseg pov method n Y).freq.length = 0
  · simp [h0]
  · simp [h0]

/-- **The stored singular vector is the global shape, at every line.** One reference (forced),
    `σ(k) ≠ 0`, and the recorded SVD of the one-column matrix `Sy[:, :, k]` reproduces it
    (`Sy[i, 0, k] = s₁·U[i, 0]·conj(v₀)` — for one column this is `U·diag(S)·Vᴴ` itself): the
    row `Svec[0, :, k]`, normalised as `FDD_mpe` normalises the picked row, is exactly
    `a[order] / a[order][argmax |a[order]|]` — no gain, no signal in it. -/
theorem C04C06_shape_at_line (hd : OneShape n Y a refId movId g s) (hinv : InvContract inv)
    (hm : method ≠ .other) (h1 : (Y 0).ref.r = 1) (ha : a (refId 0) ≠ 0)
    (hg : ∀ ii, ii < n → g ii ≠ 0) (k : Nat)
    (hS : ∀ ii, ii < n → autoSd tb (sdArgs fs nxseg method pov) (s ii) (Y ii).ref.c k ≠ 0)
    (hσ : sigma tb fs nxseg pov method n Y g s k ≠ 0)
    (U : Nat → Nat → Nat → Fdd.Cx K) (s1 v0 : Fdd.Cx K)
    (hsvd : ∀ i, i < nRows n Y →
      toCx ((sdPreGER (sdEst tb) inv fs nxseg pov method n Y).S.e i 0 k)
        = s1 * U k i 0 * Fdd.Cx.conj v0) :
    a (order n Y refId movId (amax (nRows n Y) fun i => a (order n Y refId movId i))) ≠ 0
    ∧ (Fdd.normalise (nRows n Y) (fun i => Fdd.svecPlace U 0 i k)).map
        (fun v => (List.range (nRows n Y)).map v)
      = some (unitShape (nRows n Y) fun i => a (order n Y refId movId i)) := by
  obtain ⟨_, _, hcol⟩ := C04C06_merged_rank_one tb hd hinv hm h1 ha hg k hS
  have hN : 0 < nRows n Y := by simp only [nRows]; omega
  have h0 : a (order n Y refId movId 0) ≠ 0 := by
    simp only [order]; rw [stackFn_ref _ _ _ _ _ _ (by omega)]; exact ha
  obtain ⟨w, hw, hu⟩ := Fdd.first_left_of_rank_one_col (nRows n Y)
    (fun i => toCx ((sdPreGER (sdEst tb) inv fs nxseg pov method n Y).S.e i 0 k))
    (toCx (sigma tb fs nxseg pov method n Y g s k)) s1 (Fdd.Cx.conj v0)
    (fun i => a (order n Y refId movId i)) (a (refId 0))
    (fun i hi => by
      show toCx _ = _
      rw [hcol i hi, toCx_mul, toCx_ofReal, Fdd.Cx.ofReal_mul]; ring)
    (fun i => U k i 0) hsvd (toCx_ne_zero hσ) ha 0 hN h0
  obtain ⟨c, hc, _, hrow⟩ := C06.C06_convention U k (nRows n Y)
    (fun j => Fdd.Cx.ofReal (a (order n Y refId movId j))) w hw hu
  obtain ⟨hak, out, hout, hval⟩ := Fdd.normalise_collinear (nRows n Y)
    (fun i => Fdd.svecPlace U 0 i k) c hc (fun i => a (order n Y refId movId i)) hrow 0 hN h0
  refine ⟨hak, ?_⟩
  rw [hout, Option.map_some]
  congr 1
  exact List.map_congr_left (fun i hi => hval i (List.mem_range.mp hi))

end fdd

/-! ## Non-vacuity over ℚ
Structure rows `0..3` with the shape `a = (−1, 2, 2, 4)`; the reference channel measures row 1;
setup 0 roves row 0 with gain `1/2` on C13's record `exX`, setup 1 roves rows 2, 3 with gain `−3`
on `exYd`; 8 samples, `nxseg = 4` (exact twiddle `tw4`), both estimators, line 1.
`order = (1, 0, 2, 3)`, `a[order] = (2, −1, 2, 4)`, returned shape `(1/2, −1/4, 1/2, 1)`. -/
section example_
open PV.C13

def exA : Nat → ℚ := fun r => if r = 0 then -1 else if r = 3 then 4 else 2
def exRefId : Nat → Nat := fun _ => 1
def exMovId : Nat → Nat → Nat := fun ii b => if ii = 0 then 0 else 2 + b
def exG : Nat → ℚ := fun ii => if ii = 0 then 1 / 2 else -3
def exS : Nat → Nat → ℚ := fun ii => if ii = 0 then exX else exYd
def exYs : Nat → Setup ℚ := fun ii =>
  ⟨⟨1, 8, fun j t => exG ii * exA (exRefId j) * exS ii t⟩,
   ⟨if ii = 0 then 1 else 2, 8, fun b t => exG ii * exA (exMovId ii b) * exS ii t⟩⟩

theorem exShape : OneShape 2 exYs exA exRefId exMovId exG exS :=
  ⟨fun _ _ => rfl, fun _ _ _ _ _ _ => rfl, fun _ _ _ _ _ _ => rfl⟩

example : nRows 2 exYs = 4 := by decide +kernel
example : (List.range 4).map (order 2 exYs exRefId exMovId) = [1, 0, 2, 3] := by decide +kernel

theorem ex_auto_per : ∀ ii, ii < 2 →
    autoSd exTb (sdArgs 1 4 .per (1/2)) (exS ii) (exYs ii).ref.c 1 ≠ 0 := by decide +kernel
theorem ex_auto_cor : ∀ ii, ii < 2 →
    autoSd exTb (sdArgs 1 4 .cor (1/2)) (exS ii) (exYs ii).ref.c 1 ≠ 0 := by decide +kernel
theorem ex_gain : ∀ ii, ii < 2 → exG ii ≠ 0 := by decide +kernel
theorem ex_sigma_per : sigma exTb 1 4 (1/2) .per 2 exYs exG exS 1 ≠ 0 := by decide +kernel
theorem ex_sigma_cor : sigma exTb 1 4 (1/2) .cor 2 exYs exG exS 1 ≠ 0 := by decide +kernel

-- 1. each setup's matrix is rank one; the merged matrix is the column `σ·a[order]·a[ref]`
example := C04C06_setup_rank_one exTb (fs := 1) (nxseg := 4) (pov := 1/2) (method := .per) exShape 1
  (by decide) 2 0 1 (by decide +kernel) (by decide +kernel)
example := C04C06_merged_rank_one exTb (inv := C04.exInv) (fs := 1) (nxseg := 4) (pov := 1/2)
  (method := .per) exShape C04.exInv_contract (by decide) rfl (by decide +kernel) ex_gain 1 ex_auto_per
example := C04C06_merged_rank_one exTb (inv := C04.exInv) (fs := 1) (nxseg := 4) (pov := 1/2)
  (method := .cor) exShape C04.exInv_contract (by decide) rfl (by decide +kernel) ex_gain 1 ex_auto_cor

-- 2. the stored singular vector: `U[:,0] = a[order]` (any scaling of it would do),
-- `s₁ = a[ref]·σ(1)`, `v₀ = 1` reproduce the one-column matrix
def exU : Nat → Nat → Nat → Fdd.Cx ℚ := fun _ i r =>
  if r = 0 then Fdd.Cx.ofReal (exA (order 2 exYs exRefId exMovId i)) else 0

theorem ex_shape_per :
    (Fdd.normalise 4 (fun i => Fdd.svecPlace exU 0 i 1)).map (fun v => (List.range 4).map v)
      = some (unitShape 4 fun i => exA (order 2 exYs exRefId exMovId i)) := by
  have h := C04C06_shape_at_line exTb (inv := C04.exInv) (fs := 1) (nxseg := 4) (pov := 1/2)
    (method := .per) exShape C04.exInv_contract (by decide) rfl (by decide +kernel) ex_gain 1
    ex_auto_per ex_sigma_per exU
    (Fdd.Cx.ofReal (exA (exRefId 0)) * toCx (sigma exTb 1 4 (1/2) .per 2 exYs exG exS 1)) 1
    (by
      intro i hi
      rw [(C04C06_merged_rank_one exTb (inv := C04.exInv) (fs := 1) (nxseg := 4) (pov := 1/2)
        (method := .per) exShape C04.exInv_contract (by decide) rfl (by decide +kernel) ex_gain 1
        ex_auto_per).2.2 i hi, toCx_mul, toCx_ofReal, Fdd.Cx.ofReal_mul]
      have : Fdd.Cx.conj (1 : Fdd.Cx ℚ) = 1 := by decide +kernel
      rw [this]
      simp only [exU, if_true]
      ring)
  exact h.2

theorem ex_shape_cor :
    (Fdd.normalise 4 (fun i => Fdd.svecPlace exU 0 i 1)).map (fun v => (List.range 4).map v)
      = some (unitShape 4 fun i => exA (order 2 exYs exRefId exMovId i)) := by
  have h := C04C06_shape_at_line exTb (inv := C04.exInv) (fs := 1) (nxseg := 4) (pov := 1/2)
    (method := .cor) exShape C04.exInv_contract (by decide) rfl (by decide +kernel) ex_gain 1
    ex_auto_cor ex_sigma_cor exU
    (Fdd.Cx.ofReal (exA (exRefId 0)) * toCx (sigma exTb 1 4 (1/2) .cor 2 exYs exG exS 1)) 1
    (by
      intro i hi
      rw [(C04C06_merged_rank_one exTb (inv := C04.exInv) (fs := 1) (nxseg := 4) (pov := 1/2)
        (method := .cor) exShape C04.exInv_contract (by decide) rfl (by decide +kernel) ex_gain 1
        ex_auto_cor).2.2 i hi, toCx_mul, toCx_ofReal, Fdd.Cx.ofReal_mul]
      have : Fdd.Cx.conj (1 : Fdd.Cx ℚ) = 1 := by decide +kernel
      rw [this]
      simp only [exU, if_true]
      ring)
  exact h.2

/-- the shape is `a[order]/4 = (1/2, −1/4, 1/2, 1)`: the gains `1/2`, `−3` and the two different
    signals have left no trace -/
example : (unitShape 4 fun i => exA (order 2 exYs exRefId exMovId i))
    = [⟨1/2, 0⟩, ⟨-1/4, 0⟩, ⟨1/2, 0⟩, ⟨1, 0⟩] := by decide +kernel

-- 3. … but `FDD_mpe` raises on it (one reference), whatever is recorded and requested
example := C04C06_one_ref_index_error exTb (inv := C04.exInv) (fs := 1) (nxseg := 4) (pov := 1/2)
  (method := .per) (n := 2) (Y := exYs) (by decide) (fun _ _ => rfl) rfl (fun _ _ => 1) exU 30 25

-- 4. two references (rows 1 and 3): the reference block is singular, `SD_PreGER` raises
def exRefId2 : Nat → Nat := fun j => if j = 0 then 1 else 3
def exYs2 : Nat → Setup ℚ := fun ii =>
  ⟨⟨2, 8, fun j t => exG ii * exA (exRefId2 j) * exS ii t⟩,
   ⟨1, 8, fun b t => exG ii * exA (exMovId ii b) * exS ii t⟩⟩
theorem exShape2 : OneShape 2 exYs2 exA exRefId2 exMovId exG exS :=
  ⟨fun _ _ => rfl, fun _ _ _ _ _ _ => rfl, fun _ _ _ _ _ _ => rfl⟩

example := C04C06_ref_block_singular exTb (fs := 1) (nxseg := 4) (pov := 1/2) (method := .per)
  exShape2 (by decide) (by decide +kernel) 1 (by decide) 1

open Classical in
/-- a partial inverse that returns a left inverse whenever there is one -/
noncomputable def exInvOpt : Mat (CxS ℚ) → Option (Mat (CxS ℚ)) := fun G =>
  if h : ∃ W, IsLeftInv W G then some (Classical.choose h) else none
theorem exInvOpt_sound : ∀ G W, exInvOpt G = some W → IsLeftInv W G := by
  intro G W h
  unfold exInvOpt at h
  split at h
  · rename_i hex
    cases h
    exact Classical.choose_spec hex
  · cases h

example := C04C06_linalg_error exTb (fs := 1) (nxseg := 4) (pov := 1/2) (method := .cor)
  exShape2 (by decide +kernel) exInvOpt exInvOpt_sound

-- 5. transmissibility with TWO references and general (not one-shape) records: setup 0 has the
-- references `exX`, `exYd` and the roving channel `2·exX − exYd`; its `2 × 2` reference block at
-- line 1 is invertible (two segments), the inverse being exhibited
def exT : Nat → Nat → ℚ := fun _ s => if s = 0 then 2 else -1
def exYt : Nat → Setup ℚ := fun ii =>
  ⟨⟨2, 8, fun j t => if (j = 0) = (ii = 0) then exX t else exYd t⟩,
   ⟨1, 8, fun _ t => if ii = 0 then 2 * exX t - exYd t else (t : ℚ) * t - 3⟩⟩
def exG2 : Mat (CxS ℚ) := refBlock 2 (gyy (sdEst exTb) 1 4 (1/2) .per exYt) 0 1
def exW2 : Mat (CxS ℚ) :=
  let d := exG2.e 0 0 * exG2.e 1 1 - exG2.e 0 1 * exG2.e 1 0
  ⟨2, 2, fun i j =>
    (if i = 0 then (if j = 0 then exG2.e 1 1 else -exG2.e 0 1)
      else (if j = 0 then -exG2.e 1 0 else exG2.e 0 0)) * d⁻¹⟩
theorem ex_leftInv2 : IsLeftInv exW2 exG2 := by
  refine ⟨by decide +kernel, by decide +kernel, ?_⟩
  intro i j hi hj
  have hc : exG2.c = 2 := by decide +kernel
  rw [hc] at hi hj
  interval_cases i <;> interval_cases j <;> decide +kernel

example := C04C06_transmissibility exTb (inv := C04.exInv) (fs := 1) (nxseg := 4) (pov := 1/2)
  (method := .per) (n := 2) (Y := exYt) C04.exInv_contract (by decide) (fun _ _ => rfl) 0 (by decide)
  exT (by
    intro b _ t _
    show 2 * exX t - exYd t = ∑ s ∈ range 2, exT b s * (if (s = 0) = (0 = 0) then exX t else exYd t)
    simp [Finset.sum_range_succ, exT]; ring)
  1 ⟨exW2, ex_leftInv2⟩

end example_
end PV.C04C06
