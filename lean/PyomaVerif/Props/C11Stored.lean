import PyomaVerif.Props.C11
import PyomaVerif.Lemmas.HcStored
/-!
# C11 ∘ C09 — extraction from the STORED tables returns whole RETAINED poles

`Props/C11.lean` is about arbitrary tables `Fn`, `Xi`, `Phi` (independent NaN patterns allowed); the classes hand
`SSI_mpe` the tables `result.Fn_poles / Xi_poles / Phi_poles`, i.e. the unfiltered ones blanked by ONE mask
(`FiltOf`, C09).  Composed (audit C11 gap 4):

* `C11_stored_whole` — for tables that are `FiltOf` the unfiltered solution, every cell a successful
  `SSI_mpe(order = int | list)` call selects is a pole that passes every enabled hard criterion (`Kept`), and
  the frequency, damping and shape returned for it are the UNFILTERED values of that one pole — none of the
  three is NaN because of the masks;
* `C11_run_extract` — the same for the stored tables of the concrete run of each of the six class programs.
-/
namespace PV.C11Stored
open PV PV.Hc PV.C09 PV.C09C18 PV.C09All PV.Stored PV.C11

variable {p : Params (Nat × Nat)} {conjOn covOn : Bool} {Tf Tx Tp : Nat × Nat → Option Cell}

/-- **C11_stored_whole.** -/
theorem C11_stored_whole (hf : FiltOf p conjOn covOn .fn Tf) (hx : FiltOf p conjOn covOn .xi Tx)
    (hp : FiltOf p conjOn covOn .phi Tp) (r c d : Nat) (freq : List Rat) (order : MpeOrder)
    (hex : order ≠ .findMin) (Lab : Option (Mat Int)) (rtol : Rat) (out : MpeOut)
    (h : ssiMpe freq (toMat r c Tf) (toMat r c Tx) (toTen r c d Tp) order Lab rtol none = .ok out) :
    ∃ cells : List (Nat × Nat), cells = mpeCells (toMat r c Tf) (chkOwn rtol) (reqsOf freq order) ∧
      (∀ cl ∈ cells, Kept p conjOn covOn cl ∧ ∃ fj v, (fj, some cl.2) ∈ reqsOf freq order ∧
        p.orig .fn cl = some (.real v) ∧ |v - fj| ≤ iscloseAtol + rtol * |fj|) ∧
      out.acc.fn = cells.map (fun cl => (p.orig .fn cl).bind Cell.real?) ∧
      out.acc.xi = cells.map (fun cl => (p.orig .xi cl).bind Cell.real?) ∧
      out.acc.phi = cells.map (fun cl => (List.range d).map (shapeVec (p.orig .phi cl))) := by
  obtain ⟨cells, hcells, hfn, hxi, hphi, _, _⟩ :=
    C11_whole freq (toMat r c Tf) (toMat r c Tx) (toTen r c d Tp) Lab rtol none hex h
  have hkept : ∀ cl ∈ cells, Kept p conjOn covOn cl ∧ ∃ fj v, (fj, some cl.2) ∈ reqsOf freq order ∧
      p.orig .fn cl = some (.real v) ∧ |v - fj| ≤ iscloseAtol + rtol * |fj| := by
    intro cl hcl
    rw [hcells] at hcl
    obtain ⟨fj, v, hreq, hnear, hclose⟩ := C11_nearest (toMat r c Tf) rtol _ cl hcl
    have hv : (toMat r c Tf).e cl.1 cl.2 = some v := hnear.2.1
    obtain ⟨ho, hk⟩ := (toMat_some_iff hf r c cl.1 cl.2 v).mp hv
    exact ⟨hk, fj, v, hreq, ho, hclose⟩
  refine ⟨cells, hcells, hkept, ?_, ?_, ?_⟩
  · rw [hfn]
    apply List.map_congr_left
    intro cl hcl
    show (Tf (cl.1, cl.2)).bind Cell.real? = _
    rw [hf.eq_of_kept _ (hkept cl hcl).1]
  · rw [hxi]
    apply List.map_congr_left
    intro cl hcl
    show (Tx (cl.1, cl.2)).bind Cell.real? = _
    rw [hx.eq_of_kept _ (hkept cl hcl).1]
  · rw [hphi]
    apply List.map_congr_left
    intro cl hcl
    show (List.range d).map (fun k => shapeVec (Tp (cl.1, cl.2)) k) = _
    rw [hp.eq_of_kept _ (hkept cl hcl).1]

/-- **C11_run_extract — through the classes.**  The three pole tables the concrete run of any of the six class
    programs stores (every flag combination that exists, all data and limits) have the property of
    `C11_stored_whole`: whatever `SSI_mpe` (explicit orders) extracts from `result.Fn_poles / Xi_poles / Phi_poles`
    is, mode by mode, one pole of the unfiltered solution that passes every enabled hard criterion, returned with
    its unfiltered frequency, damping and shape. -/
theorem C11_run_extract (cl : ClassSpec) (hcl : cl ∈ classes) (conjOn covOn : Bool)
    (hflag : flagOk cl.hasCov covOn = true) (p : Params (Nat × Nat)) (r c d : Nat) :
    ∃ e' Tf Tx Tp, runOf cl conjOn covOn p = some e' ∧
      e' (retVar cl.prog "Fn_poles") = some (CVal.tbl Tf) ∧
      e' (retVar cl.prog "Xi_poles") = some (CVal.tbl Tx) ∧
      e' (retVar cl.prog "Phi_poles") = some (CVal.tbl Tp) ∧
      ∀ (freq : List Rat) (order : MpeOrder), order ≠ .findMin → ∀ (Lab : Option (Mat Int)) (rtol : Rat)
        (out : MpeOut),
        ssiMpe freq (toMat r c Tf) (toMat r c Tx) (toTen r c d Tp) order Lab rtol none = .ok out →
        ∃ cells : List (Nat × Nat), cells = mpeCells (toMat r c Tf) (chkOwn rtol) (reqsOf freq order) ∧
          (∀ x ∈ cells, Kept p conjOn covOn x) ∧
          out.acc.fn = cells.map (fun x => (p.orig .fn x).bind Cell.real?) ∧
          out.acc.xi = cells.map (fun x => (p.orig .xi x).bind Cell.real?) ∧
          out.acc.phi = cells.map (fun x => (List.range d).map (shapeVec (p.orig .phi x))) := by
  obtain ⟨e', Tf, Tx, Tp, he', hTf, fF, hTx, fX, hTp, fP⟩ := stored_tables cl hcl conjOn covOn hflag p
  refine ⟨e', Tf, Tx, Tp, he', hTf, hTx, hTp, ?_⟩
  intro freq order hex Lab rtol out h
  obtain ⟨cells, h1, h2, h3, h4, h5⟩ := C11_stored_whole fF fX fP r c d freq order hex Lab rtol out h
  exact ⟨cells, h1, fun x hx => (h2 x hx).1, h3, h4, h5⟩

/-! ### Non-vacuity: the 2 orders × 3 poles instance of `Props/C09All.lean`, `conj` on — a successful call -/
section example_
open PV.C09All

/-- request 5 Hz at order column 0: the nearest unfiltered pole `(1,0)` (5 Hz) has no conjugate and is masked, so
    the call on the STORED tables selects the kept pole `(0,0)` (2 Hz) with `rtol = 2` — and returns its values -/
example : (match ssiMpe [5] (toMat 3 2 (exT true .fn)) (toMat 3 2 (exT true .xi)) (toTen 3 2 2 (exT true .phi))
      (.int 0) none 2 none with
    | .ok out => some (out.acc.fn, out.acc.xi)
    | .error _ => none) = some ([some 2], [some (1 / 50)]) := by decide +kernel

example (out : MpeOut)
    (h : ssiMpe [5] (toMat 3 2 (exT true .fn)) (toMat 3 2 (exT true .xi)) (toTen 3 2 2 (exT true .phi))
      (.int 0) none 2 none = .ok out) :=
  C11_stored_whole (exT_filt true .fn) (exT_filt true .xi) (exT_filt true .phi) 3 2 2 [5] (.int 0) (by simp) none 2
    out h
end example_

end PV.C11Stored
