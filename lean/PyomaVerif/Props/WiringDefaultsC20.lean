import PyomaVerif.Props.WiringDefaults
/-! Default values as regenerated obligations — part C20 (see `Props/WiringDefaults.lean`; one module per property so that a
changed default is reported by the property it belongs to). -/
namespace PV.WiringDefaults
open PV.Defaults PV.DefaultsTbl PV.Wiring

/-- **C20 defaults.** `plot_stab(freqlim=None, hide_poles=True)` and `plot_cluster(freqlim=None, hide_poles=True)` as
    seen from all six pole-table classes; the functions behind them: `stab_plot(…, ordmin=0, freqlim=None,
    hide_poles=True, fig=None, ax=None, Fn_cov=None)`, `cluster_plot(…, ordmin=0, freqlim=None, hide_poles=True)`;
    `plot_CMIF(freqlim=None, nSv="all")` as seen from the five FDD classes and `CMIF_plot(…, freqlim=None, nSv="all")`. -/
theorem C20_plot_defaults :
    methodDefaults (ssiClasses ++ plscfClasses) "plot_stab" [("freqlim", .none), ("hide_poles", .bool true)] = true
    ∧ methodDefaults (ssiClasses ++ plscfClasses) "plot_cluster" [("freqlim", .none), ("hide_poles", .bool true)] = true
    ∧ funcDefaults "plot.stab_plot" [("Fn", .required), ("Lab", .required), ("step", .required), ("ordmax", .required),
        ("ordmin", .int 0), ("freqlim", .none), ("hide_poles", .bool true), ("fig", .none), ("ax", .none), ("Fn_cov", .none)] = true
    ∧ funcDefaults "plot.cluster_plot" [("Fn", .required), ("Xi", .required), ("Lab", .required),
        ("ordmin", .int 0), ("freqlim", .none), ("hide_poles", .bool true)] = true
    ∧ methodDefaults (fddClasses ++ efddClasses) "plot_CMIF" [("freqlim", .none), ("nSv", .str "all")] = true
    ∧ funcDefaults "plot.CMIF_plot" [("S_val", .required), ("freq", .required), ("freqlim", .none), ("nSv", .str "all"),
        ("fig", .none), ("ax", .none)] = true := by
  decide

end PV.WiringDefaults
