import PyomaVerif.Props.C09C18
import PyomaVerif.Props.C18Contracts
/-!
# C09 ∘ C18 — the MPD criterion does not depend on the SVD's choice (depth round, gap 10)

In `Props/C09C18.lean` the direction `V[:,1]` used by `gen.MPD` is an uninterpreted parameter
`Params.dir` of the run.  With `Props/C18Contracts.lean` it can be interpreted: under the SVD
contract (`DirContract`) the value the criterion compares with `mpd_lim` is `mpdClosed` — the
closed-form MPD the driver runs against `gen.MPD` — for every kept shape whose two singular
values are not exactly equal, and it is a number (never NaN) for every non-zero shape.
-/
namespace PV.C09C18
open PV PV.C18 PV.C09

variable {Idx : Type}

/-- the SVD contract for the direction parameter of a run: for every non-zero shape the
    direction is a non-zero eigenvector of the Gram matrix for its smaller eigenvalue -/
def DirContract (p : Params Idx) : Prop :=
  ∀ n v, shapeNonZero n v = true →
    (∃ μ, SvdMinor n (castShape v) (p.dir n v).1 (p.dir n v).2 μ)
      ∧ ((p.dir n v).1 ≠ 0 ∨ (p.dir n v).2 ≠ 0)

/-- the closed-form direction (`Sym2.minorDir` of the Gram matrix) as a `dir` parameter -/
noncomputable def closedDir : Nat → (Nat → Cx Rat) → ℝ × ℝ :=
  fun n v => (gram2 n (castShape v)).minorDir

/-- the contract is satisfiable: the closed form meets it for every shape -/
theorem C09_closedDir_contract (p : Params Idx) : DirContract { p with dir := closedDir } :=
  fun n v _ => ⟨⟨_, C18_minorDir_svd n (castShape v)⟩, C18_minorDir_ne n (castShape v)⟩

theorem shapeNonZero_cast (n : Nat) (v : Nat → Cx Rat) (h : shapeNonZero n v = true) :
    NonZero n (castShape v) := by
  unfold shapeNonZero at h
  rw [List.any_eq_true] at h
  obtain ⟨k, hk, hv⟩ := h
  refine ⟨k, List.mem_range.mp hk, ?_⟩
  simp only [Bool.or_eq_true, decide_eq_true_eq] at hv
  rcases hv with h1 | h1
  · left; simp only [castShape]; exact_mod_cast h1
  · right; simp only [castShape]; exact_mod_cast h1

/-- **the MPD value of a run is the closed form**, whatever direction the SVD returned under
    its contract — unless the shape's two singular values are exactly equal. -/
theorem C09_mpdVal_closed (p : Params Idx) (hp : DirContract p) (n : Nat) (v : Nat → Cx Rat)
    (hv : shapeNonZero n v = true) (htie : (gram2 n (castShape v)).disc ≠ 0) :
    mpdVal p n v = mpdClosed n (castShape v) := by
  obtain ⟨⟨μ, hμ⟩, hne⟩ := hp n v hv
  exact C18_mpd_svd_closed n (castShape v) _ _ μ hμ hne htie

/-- **the MPD criterion read with the closed form**: for a pole whose shape has no exact tie of
    singular values, `MpdOk` (what `C09_kept_mpd` / `C09_kept_iff_all` speak about) says
    `mpdClosed(φ) ≤ mpd_lim` — no reference to the SVD left. -/
theorem C09_MpdOk_closed (p : Params Idx) (hp : DirContract p) (i : Idx)
    (hnt : ∀ n v, p.orig .phi i = some (.shape n v) → (gram2 n (castShape v)).disc ≠ 0) :
    MpdOk p i ↔ ∃ n v, p.orig .phi i = some (.shape n v) ∧ shapeNonZero n v = true
      ∧ mpdClosed n (castShape v) ≤ (p.mpdLim : ℝ) := by
  constructor
  · rintro ⟨n, v, h1, h2, h3⟩
    exact ⟨n, v, h1, h2, by rw [← C09_mpdVal_closed p hp n v h2 (hnt n v h1)]; exact h3⟩
  · rintro ⟨n, v, h1, h2, h3⟩
    exact ⟨n, v, h1, h2, by rw [C09_mpdVal_closed p hp n v h2 (hnt n v h1)]; exact h3⟩

/-- **the MPD of a kept pole is a number**: for every non-zero shape cell, `gen.MPD` as an
    `Option` (`none` = NaN) is `some` of the value the criterion uses. -/
theorem C09_mpdVal_finite (p : Params Idx) (hp : DirContract p) (n : Nat) (v : Nat → Cx Rat)
    (hv : shapeNonZero n v = true) :
    mpd? n (castShape v) (p.dir n v).1 (p.dir n v).2 = some (mpdVal p n v) :=
  (C18_mpd_some n (castShape v) _ _ (shapeNonZero_cast n v hv) (hp n v hv).2).1


/-! ## MPC: the criterion with the eigenvalue step of `gen.MPC` -/

theorem cov2_cast (n : Nat) (v : Nat → Cx Rat) :
    (cov2 n (castShape v)).a = (((cov2 n v).a : Rat) : ℝ)
    ∧ (cov2 n (castShape v)).b = (((cov2 n v).b : Rat) : ℝ)
    ∧ (cov2 n (castShape v)).d = (((cov2 n v).d : Rat) : ℝ) := by
  refine ⟨?_, ?_, ?_⟩
  · rw [cov2_a, cov2_a]; simp only [dev, castShape]; push_cast; rfl
  · rw [cov2_b, cov2_b]; simp only [dev, castShape]; push_cast; rfl
  · rw [cov2_d, cov2_d]; simp only [dev, castShape]; push_cast; rfl

theorem collin?_cast (a b d : Rat) :
    collin? (a : ℝ) (b : ℝ) (d : ℝ) = (collin? a b d).map (fun q : Rat => (q : ℝ)) := by
  rw [collin?_eq, collin?_eq]
  by_cases h : (a + d) * (a + d) = 0
  · have h' : ((a : ℝ) + d) * ((a : ℝ) + d) = 0 := by exact_mod_cast h
    rw [if_pos h, if_pos h']; rfl
  · have h' : ¬ (((a : ℝ) + d) * ((a : ℝ) + d) = 0) := by exact_mod_cast h
    rw [if_neg h, if_neg h']
    simp only [Option.map_some]
    congr 1
    push_cast
    rfl

/-- the rational closed form the driver computes is the real one of the same shape -/
theorem mpcClosed?_cast (n : Nat) (v : Nat → Cx Rat) :
    mpcClosed? n (castShape v) = (mpcClosed? n v).map (fun q : Rat => (q : ℝ)) := by
  obtain ⟨ha, hb, hd⟩ := cov2_cast n v
  unfold mpcClosed?
  by_cases hn : n ≤ 1
  · rw [if_pos hn, if_pos hn]; rfl
  · rw [if_neg hn, if_neg hn]
    simp only [ha, hb, hd]
    by_cases h : (cov2 n v).a + (cov2 n v).d = 0
    · have h' : (((cov2 n v).a : Rat) : ℝ) + (((cov2 n v).d : Rat) : ℝ) = 0 := by exact_mod_cast h
      rw [if_pos h, if_pos h']
      simp
    · have h' : ¬ ((((cov2 n v).a : Rat) : ℝ) + (((cov2 n v).d : Rat) : ℝ) = 0) := by exact_mod_cast h
      rw [if_neg h, if_neg h']
      exact collin?_cast _ _ _

/-- **the MPC criterion read with `gen.MPC`'s own eigenvalue step**: `MpcOk` (stated with the
    rational trace/determinant closed form the driver runs) holds iff `gen.MPC` evaluated over
    `ℝ` with the eigenvalues of the covariance in closed form (`mpcEig? Real.sqrt`, equal to
    *any* pair `np.linalg.eigvals` may return under its contract: `C18_eig_contract_unique`,
    `C18_mpc_eig_order`) is a number `≥ mpc_lim`. -/
theorem C09_MpcOk_eig (p : Params Idx) (i : Idx) :
    MpcOk p i ↔ ∃ n v, ∃ q : Rat, p.orig .phi i = some (.shape n v)
      ∧ mpcEig? Real.sqrt n (castShape v) = some (q : ℝ) ∧ p.mpcLim ≤ q := by
  constructor
  · rintro ⟨n, v, q, h1, h2, h3⟩
    refine ⟨n, v, q, h1, ?_, h3⟩
    rw [C18_mpcEig_closed Real.sqrt real_sqrt_contract, mpcClosed?_cast, h2]; rfl
  · rintro ⟨n, v, q, h1, h2, h3⟩
    refine ⟨n, v, q, h1, ?_, h3⟩
    rw [C18_mpcEig_closed Real.sqrt real_sqrt_contract, mpcClosed?_cast] at h2
    cases hq : mpcClosed? n v with
    | none => rw [hq] at h2; cases h2
    | some q' =>
      rw [hq] at h2
      simp only [Option.map_some, Option.some.injEq] at h2
      have : q' = q := by exact_mod_cast h2
      rw [this]

/-! ## Non-vacuity -/
section examples
/-- a run whose direction parameter is the closed form satisfies `DirContract` -/
example : DirContract { exParams with dir := closedDir } := C09_closedDir_contract exParams
/-- the pinned shape `[1+2j, 2+3j, 3+4j]` has no tie: Gram matrix `[[14,20],[20,29]]` -/
example : (gram2 3 (castShape exShape)).disc ≠ 0 := by
  simp [Sym2.disc_eq, gram2_a, gram2_b, gram2_d, Finset.sum_range_succ, castShape, exShape]
  norm_num
end examples

end PV.C09C18
