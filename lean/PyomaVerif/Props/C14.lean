import PyomaVerif.Model.Prep
import PyomaVerif.Lemmas.Prep
/-!
# C14 — preprocessing composes, metadata stays truthful, rollback restores the start

Property theorems about the state machines of `Model/Prep.lean`, for **every** operation
sequence (`List Op`), every configuration and every keyword record.  `sRun v c ops` /
`mRun v c ops` is the object after the history `ops` (an exception leaves it unchanged);
`c.spec ops` is the obvious fold of the statement; `activeQs ops` are the factors of the
accepted decimations since the last rollback.

`v : Variant` says which statements of the pinned tree are kept.  The SingleSetup theorems
hold for every `v` (except the duration); the PreGER theorems need `v.multiRepaired`
(`proposed_fixes/fix_1..4`), which `Variant.current` — the tree the driver model mirrors —
satisfies.  `Mutants/C14.lean` shows each of them fails when one repair is missing.
-/
namespace PV.C14
open PV.Prep

/-- **Invariant, SingleSetup.** After every history: `fs = fs₀/Πq`, `dt = 1/fs`, the sample count
    is the length of the current array, and the current array and `fs` are the fold of the
    statement (scipy operations in call order, each filter normalised by the `fs` of that moment). -/
theorem C14_invariant_single (v : Variant) (c : SCfg) (ops : List Op) :
    (sRun v c ops).fs = c.fs0 / ((prodNat (activeQs ops) : Nat) : Rat) ∧
    (sRun v c ops).dt = 1 / (sRun v c ops).fs ∧
    (sRun v c ops).Ndat = c.len (sRun v c ops).data ∧
    (c.spec ops).terms = [(sRun v c ops).data] ∧
    (c.spec ops).fs = (sRun v c ops).fs := by
  have h := sRun_inv v c ops
  exact ⟨h.fs.trans h.fsq, h.dt, h.ndat, h.terms, h.fs.symm⟩

/-- **Duration law of the code as it is** (`Variant.current`): `T·q = Ndat·dt`, `q` the last
    active decimation factor (1 if none) — the stored duration is short by that factor. -/
theorem C14_duration_single_law (c : SCfg) (ops : List Op) :
    (sRun .current c ops).T * ((lastQ (activeQs ops) : Nat) : Rat)
      = ((sRun .current c ops).Ndat : Rat) * (sRun .current c ops).dt := by
  have h := (sRun_inv .current c ops).dur
  simpa [Variant.current] using h

/-- **Duration, partial.** `T = Ndat·dt` as long as no decimation has been accepted since the start
    or the last rollback.  Missing for the full statement: the case after a decimation, where
    `SingleSetup.decimate_data` stores the helper's `T = 1/fs/q·Ndat` (known finding: a pinned
    repository test asserts that the duration changes under decimation, so it is not repaired). -/
theorem C14_duration_single_partial (c : SCfg) (ops : List Op) (h : activeQs ops = []) :
    (sRun .current c ops).T = ((sRun .current c ops).Ndat : Rat) * (sRun .current c ops).dt := by
  have := C14_duration_single_law c ops
  simpa [h, lastQ] using this

example : activeQs [Op.decimate 3 {}, Op.detrend {}, Op.rollback, Op.filter (.one 5) 4 .lowpass, Op.add] = [] := by
  decide

/-- the full duration statement for the code as it is … -/
def C14_duration_single_full : Prop :=
  ∀ (c : SCfg) (ops : List Op),
    (sRun .current c ops).T = ((sRun .current c ops).Ndat : Rat) * (sRun .current c ops).dt

/-- … is false: 30 samples at 100 Hz decimated by 2 are 15 samples at 50 Hz = 0.3 s, stored 0.15 s. -/
theorem C14_duration_single_full_false : ¬ C14_duration_single_full := by
  intro h
  have := h ⟨30, 2, 100⟩ [.decimate 2 {}]
  revert this
  decide +kernel

/-- **Duration once `self.T = dt * Ndat` is in** (`v.helperTS = false`). -/
theorem C14_duration_single_repaired (v : Variant) (hv : v.helperTS = false) (c : SCfg) (ops : List Op) :
    (sRun v c ops).T = ((sRun v c ops).Ndat : Rat) * (sRun v c ops).dt := by
  have h := (sRun_inv v c ops).dur
  simpa [hv] using h

/-- **Invariant, MultiSetup_PreGER** (tree with the four repairs): `fs = fs₀/Πq`, `dt = 1/fs`,
    per-dataset counts = lengths, durations = count·dt, `datasets` is the fold of the statement
    per dataset, and `data` is `pre_multisetup` of that fold with the constructor's `ref_ind`
    (reference/roving split re-applied). -/
theorem C14_invariant_multi (v : Variant) (hv : v.multiRepaired = true) (c : MCfg) (hc : c.n0 ≠ [])
    (ops : List Op) :
    (mRun v c ops).fs = c.fs0 / ((prodNat (activeQs ops) : Nat) : Rat) ∧
    (mRun v c ops).dt = 1 / (mRun v c ops).fs ∧
    (mRun v c ops).Ndats = (mRun v c ops).datasets.map (Term.len c.n0f) ∧
    (mRun v c ops).Ts = (mRun v c ops).datasets.map
        (fun d => (mRun v c ops).dt * ((d.len c.n0f : Nat) : Rat)) ∧
    (mRun v c ops).datasets = (c.spec ops).terms ∧
    (mRun v c ops).data = preMultisetup c.nchf (c.spec ops).terms c.refInd ∧
    (mRun v c ops).fs = (c.spec ops).fs := by
  have h := mRun_inv v hv c hc ops
  exact ⟨h.fs.trans h.fsq, h.dt, h.datasets ▸ h.ndats, h.datasets ▸ h.durs, h.datasets, h.data, h.fs⟩

example : Variant.current.multiRepaired = true ∧ (⟨[600, 500], [4, 3], 100, [[2, 0], [1, 0]]⟩ : MCfg).n0 ≠ [] := by
  decide

/-- the split that `pre_multisetup` re-applies: references in the order of `ref_ind[i]`, the roving
    channels are `range(nch)` with the references removed, both taken from the same array. -/
theorem C14_split (nch : Nat → Nat) (y : Term) (ref : List Nat) :
    preMultisetup nch [y] [ref] =
      [{ ref := ref, mov := ref.foldl (fun l r => l.erase r) (List.range (y.ncols nch)), y := y }] := rfl

/-- `len (dec q t) = ⌈len t / q⌉`: the least `k` with `len t ≤ q·k`. -/
theorem C14_len_dec (n0 : Nat → Nat) (q : Nat) (hq : 0 < q) (kw : DecKw) (t : Term) (k : Nat) :
    (Term.dec q kw t).len n0 ≤ k ↔ t.len n0 ≤ q * k := by
  simp only [Term.len]
  rw [Nat.div_le_iff_le_mul_add_pred hq]
  omega

example : (0 : Nat) < 4 := by decide

/-- **A filter is normalised with the sampling frequency current at that point** (SingleSetup):
    whenever scipy accepts the cut-off for `fs₀/Πq`, the new array is `filt (fs₀/Πq) …` of the old. -/
theorem C14_filter_fs_single (v : Variant) (c : SCfg) (ops : List Op) (wn : Wn) (o : Nat) (bt : BType)
    (h : butterOk (c.fs0 / ((prodNat (activeQs ops) : Nat) : Rat)) wn bt = true) :
    (sRun v c (ops ++ [.filter wn o bt])).data =
      .filt (c.fs0 / ((prodNat (activeQs ops) : Nat) : Rat)) wn o bt (sRun v c ops).data := by
  have hi := sRun_inv v c ops
  have hfs : (sRun v c ops).fs = c.fs0 / ((prodNat (activeQs ops) : Nat) : Rat) := hi.fs.trans hi.fsq
  have hk : butterOk (sRun v c ops).fs wn bt = true := hfs ▸ h
  rw [sRun_snoc]
  simp only [sStep', sStep, helperFilter_ok _ _ _ _ _ hk, bind, Except.bind, pure, Except.pure]
  rw [← hfs]

example : butterOk ((100 : Rat) / ((prodNat (activeQs [Op.decimate 4 {}]) : Nat) : Rat)) (.one 5) .lowpass = true := by
  decide +kernel

/-- the same for every dataset of a PreGER object. -/
theorem C14_filter_fs_multi (v : Variant) (hv : v.multiRepaired = true) (c : MCfg) (hc : c.n0 ≠ [])
    (ops : List Op) (wn : Wn) (o : Nat) (bt : BType)
    (h : butterOk (c.fs0 / ((prodNat (activeQs ops) : Nat) : Rat)) wn bt = true) :
    (mRun v c (ops ++ [.filter wn o bt])).datasets =
      (mRun v c ops).datasets.map (.filt (c.fs0 / ((prodNat (activeQs ops) : Nat) : Rat)) wn o bt) := by
  have hi := mRun_inv v hv c hc ops
  have hfs : (mRun v c ops).fs = c.fs0 / ((prodNat (activeQs ops) : Nat) : Rat) := hi.fs.trans hi.fsq
  have hk : butterOk (mRun v c ops).fs wn bt = true := hfs ▸ h
  rw [mRun_snoc]
  simp only [mStep', mStep_filter_ok v hv c _ wn o bt hk]
  rw [← hfs]

/-- **What `add_algorithms` binds** (SingleSetup): the fold of the operations so far, the current
    `fs`, and `dt = 1/fs`. -/
theorem C14_bound_single (v : Variant) (c : SCfg) (ops : List Op) :
    ∃ t, (c.spec ops).terms = [t] ∧
      (sRun v c (ops ++ [.add])).bound.head? = some ⟨t, (c.spec ops).fs, 1 / (c.spec ops).fs⟩ := by
  have hi := sRun_inv v c ops
  refine ⟨(sRun v c ops).data, hi.terms, ?_⟩
  simp only [sRun, List.foldl_append, List.foldl_cons, List.foldl_nil, sStep', sStep, pure, Except.pure,
    List.head?_cons]
  rw [← hi.fs]; rfl

/-- **What `add_algorithms` binds** (PreGER): `pre_multisetup` of the per-dataset folds. -/
theorem C14_bound_multi (v : Variant) (hv : v.multiRepaired = true) (c : MCfg) (hc : c.n0 ≠ []) (ops : List Op) :
    (mRun v c (ops ++ [.add])).bound.head? =
      some ⟨preMultisetup c.nchf (c.spec ops).terms c.refInd, (c.spec ops).fs, 1 / (c.spec ops).fs⟩ := by
  have hi := mRun_inv v hv c hc ops
  simp only [mRun, List.foldl_append, List.foldl_cons, List.foldl_nil, mStep', mStep, pure, Except.pure,
    List.head?_cons]
  rw [← hi.fs, ← hi.data]; rfl

/-- **Rollback restores the start** (SingleSetup): after any history, `rollback` succeeds and the
    object equals a freshly constructed one in every field (the history of bindings aside). -/
theorem C14_rollback_single (v : Variant) (c : SCfg) (ops : List Op) :
    sStep v c (sRun v c ops) .rollback = .ok { sInit c with bound := (sRun v c ops).bound } := by
  have hi := sRun_inv v c ops
  simp only [sStep, pure, Except.pure, hi.initData, hi.initFs]
  rfl

/-- **Rollback restores the start** (PreGER). -/
theorem C14_rollback_multi (v : Variant) (hv : v.multiRepaired = true) (c : MCfg) (hc : c.n0 ≠ []) (ops : List Op) :
    mStep v c (mRun v c ops) .rollback = .ok { mInit c with bound := (mRun v c ops).bound } := by
  have hi := mRun_inv v hv c hc ops
  simp only [mStep, pure, Except.pure, hi.initFs, hi.initRefInd, hi.initDatasets]
  rfl

/-- **Every documented keyword record of `decimate` is accepted** by `SingleSetup.decimate_data`,
    in every state, for every factor `2 ≤ q` (the property's factors are 2..5; what happens at
    `q = 0, 1` is `C14_decimate_q_single`). -/
theorem C14_kw_single (v : Variant) (c : SCfg) (s : SState) (q : Nat) (hq : 2 ≤ q) (kw : DecKwIn)
    (h : kw.documented = true) : ∃ s', sStep v c s (.decimate q kw) = .ok s' :=
  ⟨_, sStep_decimate_ok v c s q kw (decOk_of_documented q kw h hq)⟩

/-- … and by `MultiSetup_PreGER.decimate_data` once the keywords are popped (fix_4). -/
theorem C14_kw_multi (v : Variant) (hv : v.multiRepaired = true) (c : MCfg) (s : MState) (q : Nat) (hq : 2 ≤ q)
    (kw : DecKwIn) (h : kw.documented = true) : ∃ s', mStep v c s (.decimate q kw) = .ok s' :=
  ⟨_, mStep_decimate_ok v hv c s q kw (decOk_of_documented q kw h hq)⟩

example : (2 : Nat) ≤ 3 ∧ (⟨some (some 12), some .fir, true, some false, false⟩ : DecKwIn).documented = true := by decide

/-- **Outcome** (SingleSetup): a call raises exactly when scipy must reject it on the current array
    at the current `fs` (unknown keyword, bad `ftype`/`type`, breakpoint beyond the current length,
    cut-off outside `(0, fs/2)`), and then nothing changes (`sStep'`). -/
theorem C14_outcome_single (v : Variant) (c : SCfg) (s : SState) (op : Op) :
    (∃ s', sStep v c s op = .ok s') ↔ op.accepted [c.len s.data] s.fs = true := by
  cases op with
  | decimate q kw =>
    by_cases hk : decOk q kw = true
    · simp only [Op.accepted, hk, iff_true]; exact ⟨_, sStep_decimate_ok v c s q kw hk⟩
    · have hk' : decOk q kw = false := by simpa using hk
      obtain ⟨e, he⟩ := sStep_decimate_err v c s q kw hk'
      simp [Op.accepted, hk', he]
  | detrend kw =>
    have hacc : Op.accepted [c.len s.data] s.fs (.detrend kw) = detOk (c.len s.data) kw := by
      simp only [Op.accepted, detOk, List.all_cons, List.all_nil, Bool.and_true]
    rw [hacc]
    by_cases hk : detOk (c.len s.data) kw = true
    · simp only [hk, iff_true]
      exact ⟨_, by simp only [sStep, helperDetrend_ok (fun _ => c.n0) s.data kw hk, bind, Except.bind]; rfl⟩
    · have hk' : detOk (c.len s.data) kw = false := by simpa using hk
      obtain ⟨e, he⟩ := helperDetrend_err (fun _ => c.n0) s.data kw hk'
      simp [hk', sStep, he, bind, Except.bind]
  | filter wn o bt =>
    by_cases hk : butterOk s.fs wn bt = true
    · simp only [Op.accepted, hk, iff_true]
      exact ⟨_, by simp only [sStep, helperFilter_ok _ _ _ _ _ hk, bind, Except.bind]; rfl⟩
    · have hk' : butterOk s.fs wn bt = false := by simpa using hk
      simp [Op.accepted, hk', sStep, helperFilter_err _ _ _ _ _ hk', bind, Except.bind]
  | rollback => simp [Op.accepted, sStep, pure, Except.pure]
  | add => simp [Op.accepted, sStep, pure, Except.pure]

/-- **Outcome** (PreGER, at least one dataset): all-or-nothing over the datasets. -/
theorem C14_outcome_multi (v : Variant) (hv : v.multiRepaired = true) (c : MCfg) (s : MState)
    (hne : s.datasets ≠ []) (op : Op) :
    (∃ s', mStep v c s op = .ok s') ↔ op.accepted (s.datasets.map (Term.len c.n0f)) s.fs = true := by
  cases op with
  | decimate q kw =>
    by_cases hk : decOk q kw = true
    · simp only [Op.accepted, hk, iff_true]; exact ⟨_, mStep_decimate_ok v hv c s q kw hk⟩
    · have hk' : decOk q kw = false := by simpa using hk
      obtain ⟨e, he⟩ := mStep_decimate_err v hv c s q kw hk' hne
      simp [Op.accepted, hk', he]
  | detrend kw =>
    rw [detrend_accepted_iff c.n0f s.datasets s.fs kw hne]
    constructor
    · rintro ⟨s', hs'⟩ d hd
      by_contra hcon
      obtain ⟨e, he⟩ := mStep_detrend_err v c s kw ⟨d, hd, by simpa using hcon⟩
      rw [he] at hs'; cases hs'
    · intro h; exact ⟨_, mStep_detrend_ok v hv c s kw h⟩
  | filter wn o bt =>
    by_cases hk : butterOk s.fs wn bt = true
    · simp only [Op.accepted, hk, iff_true]; exact ⟨_, mStep_filter_ok v hv c s wn o bt hk⟩
    · have hk' : butterOk s.fs wn bt = false := by simpa using hk
      obtain ⟨e, he⟩ := mStep_filter_err v c s wn o bt hk' hne
      simp [Op.accepted, hk', he]
  | rollback => simp [Op.accepted, mStep, pure, Except.pure]
  | add => simp [Op.accepted, mStep, pure, Except.pure]

example : (mInit ⟨[600, 500], [4, 3], 100, [[2, 0], [1, 0]]⟩).datasets ≠ [] := by decide

/-! ## The decimation factor itself (`q = 0`, `q = 1`) -/

/-- **Which decimation calls succeed** (SingleSetup, every state): exactly those with documented keywords
    and a factor scipy can design a filter for — `2 ≤ q`, or `q = 1` with the IIR design (a legal call:
    Chebyshev low-pass at 0.8·Nyquist, every sample kept, `fs/1`).  `Op.accepted`, hence the spec fold and
    `activeQs` of the invariant theorems, carry these side conditions. -/
theorem C14_decimate_q_single (v : Variant) (c : SCfg) (s : SState) (q : Nat) (kw : DecKwIn) :
    (∃ s', sStep v c s (.decimate q kw) = .ok s') ↔
      kw.documented = true ∧ (2 ≤ q ∨ (q = 1 ∧ kw.resolve.ftype = .iir)) := by
  rw [C14_outcome_single]
  simp [Op.accepted, decOk, decQOk]

/-- the same for PreGER (at least one dataset). -/
theorem C14_decimate_q_multi (v : Variant) (hv : v.multiRepaired = true) (c : MCfg) (s : MState)
    (hne : s.datasets ≠ []) (q : Nat) (kw : DecKwIn) :
    (∃ s', mStep v c s (.decimate q kw) = .ok s') ↔
      kw.documented = true ∧ (2 ≤ q ∨ (q = 1 ∧ kw.resolve.ftype = .iir)) := by
  rw [C14_outcome_multi v hv c s hne]
  simp [Op.accepted, decOk, decQOk]

/-- `q = 0` with documented keywords is scipy's `ZeroDivisionError` (`0.8 / q`, `1. / q`), raised before
    anything is assigned — not the `ValueError` the docstring of `_decimate_data` announces. -/
theorem C14_decimate_q0_single (v : Variant) (c : SCfg) (s : SState) (kw : DecKwIn) (h : kw.documented = true) :
    sStep v c s (.decimate 0 kw) = .error .zeroDivisionError := by
  obtain ⟨h1, h2⟩ := (documented_iff kw).mp h
  have hg : ∀ k : DecKwIn, k.bogus = false → k.resolve.ftype ≠ .bad →
      sciDecimate s.data 0 k = .error .zeroDivisionError := by
    intro k hb hf; simp [sciDecimate, hb, hf]
  have hs := hg ({ kw with axis0 := true } : DecKwIn) h1 h2
  simp only [sStep, mergeKw_single, bind, Except.bind, helperDecimate, hs]

/-- a rejected factor leaves the object and the bookkeeping of the invariant untouched: after any history,
    `decimate(q = 0)` / FIR `decimate(q = 1)` change neither the object nor the spec fold nor `activeQs`. -/
theorem C14_decimate_bad_q_noop (v : Variant) (c : SCfg) (ops : List Op) (q : Nat) (kw : DecKwIn)
    (h : decOk q kw = false) :
    sRun v c (ops ++ [.decimate q kw]) = sRun v c ops ∧
      c.spec (ops ++ [.decimate q kw]) = c.spec ops ∧ activeQs (ops ++ [.decimate q kw]) = activeQs ops := by
  obtain ⟨e, he⟩ := sStep_decimate_err v c (sRun v c ops) q kw h
  refine ⟨by rw [sRun_snoc, sStep', he], ?_, ?_⟩
  · simp [SCfg.spec, specRun, List.foldl_append, specStep, Op.accepted, h]
  · simp [activeQs, List.foldl_append, qsStep, h]

example : decOk 0 {} = false ∧ decOk 1 { ftype := some .fir } = false ∧ decOk 1 {} = true ∧
    (mInit ⟨[600, 500], [4, 3], 100, [[2, 0], [1, 0]]⟩).datasets ≠ [] := by decide

/-! ## Malformed `ref_ind` (the constructor raises) -/

/-- **Which reference lists the constructor accepts for one dataset with `n` channels**: the removals
    `mov_id.remove(r)` succeed exactly when the list is duplicate-free and in range (`ValueError` otherwise). -/
theorem C14_refs_valid_iff (n : Nat) (r : List Nat) :
    (∃ m, removeRefs (List.range n) r = .ok m) ↔ r.Nodup ∧ ∀ x ∈ r, x < n := by
  rw [removeRefs_ok_iff _ List.nodup_range r]
  simp [List.mem_range]

/-- **On the lists the constructor accepts, the total split of the state machines is the constructor's**: when
    `pre_multisetup` (with its `list.remove` / `reflist[i]` / `reshape` exceptions) returns, and there is one
    reference list per dataset, the result is `preMultisetup` — the function all C14 theorems are about; on
    duplicated / out-of-range / missing / empty / exhaustive reference lists no object exists, so the theorems'
    quantification over every `MCfg` says nothing false about the code there. -/
theorem C14_ctor_split_eq (nch : Nat → Nat) (ds : List Term) (rs : List (List Nat)) (Y : List Split)
    (h : preMultisetupChecked nch ds rs = .ok Y) (hl : rs.length = ds.length) : Y = preMultisetup nch ds rs :=
  preMultisetupChecked_eq nch ds rs Y h hl

example : ∃ Y, preMultisetupChecked (fun _ => 4) [.init 0, .init 1] [[2, 0], [1, 3]] = .ok Y ∧
    ([[2, 0], [1, 3]] : List (List Nat)).length = ([.init 0, .init 1] : List Term).length := ⟨_, rfl, rfl⟩

/-- duplicated, out-of-range, missing, empty and exhaustive reference lists: the exception classes of the code. -/
theorem C14_ctor_split_errors :
    preMultisetupChecked (fun _ => 4) [.init 0, .init 1] [[0, 0], [0, 1]] = .error .valueError ∧
    preMultisetupChecked (fun _ => 4) [.init 0, .init 1] [[0, 7], [0, 1]] = .error .valueError ∧
    preMultisetupChecked (fun _ => 4) [.init 0, .init 1] [[0, 1]] = .error .indexError ∧
    preMultisetupChecked (fun _ => 4) [.init 0, .init 1] [[], []] = .error .valueError ∧
    preMultisetupChecked (fun _ => 4) [.init 0, .init 1] [[0, 1, 2, 3], [0]] = .error .valueError ∧
    (∃ Y, preMultisetupChecked (fun _ => 4) [.init 0, .init 1] [[0], [1], [2]] = .ok Y) := by
  refine ⟨by decide, by decide, by decide, by decide, by decide, ⟨_, rfl⟩⟩

end PV.C14
