import PyomaVerif.Model.Pick
import PyomaVerif.Lemmas.Pick
/-!
# C16 — interactive pole picking hands over exactly the picked (frequency, order) pairs

Property theorems only.  `run p State.init evs` is the dialog (`SelFromPlot`, model
`Model/Pick.lean`, mirroring the code after repair F11) after ANY history `evs` of key and
mouse events; `specRun p evs` is the abstract dialog — a list of (frequency, order) pairs
kept in ascending frequency.  The abstraction map is `pairs s = zip s.selFreq s.ind`; what
`SelFromPlot.__init__` stores in `.result` is `State.result s = (s.selFreq, s.ind)`.
All statements are for every pole table (any shape, NaN anywhere), every frequency axis and
every event history — no bound on lengths.
-/
namespace PV.C16
open PV PV.Pick

/-- the states the dialog can be in: after some history of events from the initial state -/
def Reachable (p : Plot) (s : State) : Prop := ∃ evs, s = run p State.init evs

/-- **Refinement.** After every history the two parallel lists, zipped, are the abstract
    selection; the modifier flag agrees; the lists have equal length. -/
theorem C16_refine (p : Plot) (evs : List Event) :
    (run p State.init evs).selFreq.zip (run p State.init evs).ind = (specRun p evs).2
      ∧ (run p State.init evs).shift = (specRun p evs).1
      ∧ (run p State.init evs).selFreq.length = (run p State.init evs).ind.length := by
  obtain ⟨hi, hr⟩ := run_init_refine p evs
  have h1 := congrArg Prod.fst hr
  have h2 := congrArg Prod.snd hr
  exact ⟨h2, h1, hi.len⟩

/-- **Hand-over (stabilisation diagrams).** The `(sel_freq, pole_ind)` handed to
    `SSI_mpe` / `pLSCF_mpe` are, component by component, the frequencies and the orders of
    the pairs still selected: the k-th frequency goes with the k-th order. -/
theorem C16_handover (t : Mat (Option Rat)) (evs : List Event) :
    (run (.stab t) State.init evs).result.1 = ((specRun (.stab t) evs).2).map Prod.fst
      ∧ (run (.stab t) State.init evs).result.2 = ((specRun (.stab t) evs).2).map Prod.snd := by
  obtain ⟨hz, -, hl⟩ := C16_refine (.stab t) evs
  simp only [State.result]
  rw [← hz]
  exact ⟨(List.map_fst_zip (by omega)).symm, (List.map_snd_zip (by omega)).symm⟩

/-- **Hand-over (FDD).** Only the frequency list is handed to `FDD_mpe`/`EFDD_mpe`: it is
    the list of frequency lines still selected. -/
theorem C16_fdd (freq : List Rat) (evs : List Event) :
    (run (.fdd freq) State.init evs).result.1 = ((specRun (.fdd freq) evs).2).map Prod.fst := by
  obtain ⟨hz, -, hl⟩ := C16_refine (.fdd freq) evs
  simp only [State.result]
  rw [← hz]
  exact (List.map_fst_zip (by omega)).symm

/-- The selection is always in ascending frequency and every selected pair designates an
    entry of the table (`Fn_poles[r, o] = f`) resp. of the frequency axis (`freq[i] = f`). -/
theorem C16_sorted (p : Plot) (evs : List Event) :
    ((specRun p evs).2).Pairwise (fun a b => a.1 ≤ b.1) ∧ ∀ q ∈ (specRun p evs).2, IsPole p q := by
  obtain ⟨hi, hr⟩ := run_init_refine p evs
  have h2 := congrArg Prod.snd hr
  simp only at h2
  rw [← h2]
  exact ⟨hi.sorted, hi.pole⟩

/-- **What a pick designates.** A select click at `(x, y)` designates `(Fn[r, o], o)` with `o`
    the FIRST order index nearest to `y` and `r` the FIRST row whose non-NaN pole of that order
    is nearest to `x`. -/
theorem C16_pick (t : Mat (Option Rat)) (x y f : Rat) (o : Nat) (h : pick t x y = some (f, o)) :
    o < t.c
      ∧ (∀ j, j < t.c → |(o : Rat) - y| ≤ |(j : Rat) - y|)
      ∧ (∀ j, j < o → |(o : Rat) - y| < |(j : Rat) - y|)
      ∧ ∃ r, r < t.r ∧ t.e r o = some f
          ∧ (∀ r' g, r' < t.r → t.e r' o = some g → |f - x| ≤ |g - x|)
          ∧ (∀ r' g, r' < r → t.e r' o = some g → |f - x| < |g - x|) := by
  unfold pick at h
  split at h
  · simp at h
  · rename_i yInd v hco
    split at h
    · simp at h
    · rename_i sel w hcr
      obtain ⟨hlt, g, hg, -, hmin, hfirst⟩ := closestRow_spec t yInd x sel w hcr
      rw [hg] at h
      simp only [Option.some.injEq, Prod.mk.injEq] at h
      obtain ⟨rfl, rfl⟩ := h
      obtain ⟨h1, h2, h3⟩ := argminV_spec _ _ _ hco
      have hy : yInd < t.c := by
        by_contra hc
        rw [List.getElem?_eq_none (by simpa using Nat.le_of_not_lt hc)] at h1
        simp at h1
      simp only [List.getElem?_map, List.getElem?_range hy, Option.map_some, Option.some.injEq] at h1
      refine ⟨hy, ?_, ?_, sel, hlt, hg, ?_, ?_⟩
      · intro j hj
        rw [← absR_eq_abs, ← absR_eq_abs, h1]
        exact h2 j _ (by simp [List.getElem?_range hj])
      · intro j hj
        rw [← absR_eq_abs, ← absR_eq_abs, h1]
        exact h3 j _ hj (by simp [List.getElem?_range (Nat.lt_trans hj hy)])
      · intro r' g' hr' hg'
        rw [← absR_eq_abs, ← absR_eq_abs]; exact hmin r' g' hr' hg'
      · intro r' g' hr' hg'
        rw [← absR_eq_abs, ← absR_eq_abs]; exact hfirst r' g' hr' hg'

/-- FDD: a pick designates `(freq[i], i)` with `i` the FIRST line nearest to `x`. -/
theorem C16_pick_fdd (freq : List Rat) (x y f : Rat) (i : Nat)
    (h : specPick (.fdd freq) x y = some (f, i)) :
    freq[i]? = some f
      ∧ (∀ (j : Nat) g, freq[j]? = some g → |f - x| ≤ |g - x|)
      ∧ (∀ (j : Nat) g, j < i → freq[j]? = some g → |f - x| < |g - x|) := by
  have hp := specPick_fdd_isPole freq x y (f, i) h
  simp only [IsPole] at hp
  simp only [specPick] at h
  cases ha : argminV (freq.map fun f => absR (f - x)) with
  | none => rw [ha] at h; simp at h
  | some q =>
    obtain ⟨i', v⟩ := q
    rw [ha] at h
    simp only [Option.map_some, Option.some.injEq, Prod.mk.injEq] at h
    obtain ⟨-, rfl⟩ := h
    obtain ⟨h1, h2, h3⟩ := argminV_spec _ _ _ ha
    simp only [List.getElem?_map, hp, Option.map_some, Option.some.injEq] at h1
    refine ⟨hp, ?_, ?_⟩
    · intro j g hj
      rw [← absR_eq_abs, ← absR_eq_abs, h1]
      exact h2 j _ (by simp [hj])
    · intro j g hji hj
      rw [← absR_eq_abs, ← absR_eq_abs, h1]
      exact h3 j _ hji (by simp [hj])

/-- **A pick adds exactly the designated pair** (modifier held, any reachable state): the new
    selection is the old one with that pair inserted — a permutation of `q :: old`, every old
    pair unchanged; if the clicked order has no retained pole nothing changes. -/
theorem C16_select_adds_one (p : Plot) (s : State) (hreach : Reachable p s) (x y : Rat)
    (hsh : s.shift = true) :
    match specPick p x y with
    | some q => pairs (stepKeep p s (.click 1 (some (x, y)))) = specInsert q (pairs s)
        ∧ (pairs (stepKeep p s (.click 1 (some (x, y))))).Perm (q :: pairs s)
        ∧ (stepKeep p s (.click 1 (some (x, y)))).selFreq.length = s.selFreq.length + 1
        ∧ (stepKeep p s (.click 1 (some (x, y)))).ind.length = s.ind.length + 1
    | none => stepKeep p s (.click 1 (some (x, y))) = s := by
  obtain ⟨evs, rfl⟩ := hreach
  obtain ⟨hi, -⟩ := run_init_refine p evs
  obtain ⟨hi', hr⟩ := step_refine p _ (.click 1 (some (x, y))) hi
  have h2 := congrArg Prod.snd hr
  simp only [specStep, hsh, Bool.not_true, Bool.false_eq_true, if_false] at h2
  cases hp : specPick p x y with
  | none =>
    simp only
    cases p with
    | stab t =>
      rcases getClosestPole_eq t (run (.stab t) State.init evs) x y with ⟨-, m, hm⟩ | ⟨f, o, hq, -⟩
      · simp [stepKeep, step, onClickSSI, hsh, hm]
      · simp only [specPick] at hp; rw [hp] at hq; simp at hq
    | fdd freq =>
      rcases getClosestFreq_eq freq (run (.fdd freq) State.init evs) x y with ⟨-, m, hm⟩ | ⟨f, o, hq, -⟩
      · simp [stepKeep, step, onClickFDD, hsh, hm]
      · rw [hp] at hq; simp at hq
  | some q =>
    rw [hp] at h2
    simp only at h2 ⊢
    have hperm := h2 ▸ specInsert_perm q (pairs (run p State.init evs))
    have hlen := hperm.length_eq
    have hz : ∀ s : State, s.selFreq.length = s.ind.length → (pairs s).length = s.selFreq.length := by
      intro s h; simp [pairs, List.length_zip, h]
    rw [hz _ hi'.len, List.length_cons, hz _ hi.len] at hlen
    refine ⟨h2, hperm, hlen, ?_⟩
    have := hi'.len; have := hi.len; omega

/-- **Deselect-one** (right button, modifier held, reachable state, non-empty selection)
    removes exactly one selected pair — the last, i.e. the one of highest frequency — and
    leaves every other pair as it was. -/
theorem C16_deselect_one (p : Plot) (s : State) (hreach : Reachable p s)
    (pos : Option (Rat × Rat)) (hsh : s.shift = true) (hne : pairs s ≠ []) :
    pairs (stepKeep p s (.click 3 pos)) = (pairs s).eraseIdx ((pairs s).length - 1)
      ∧ (pairs (stepKeep p s (.click 3 pos))).length + 1 = (pairs s).length
      ∧ (stepKeep p s (.click 3 pos)).selFreq.length = (stepKeep p s (.click 3 pos)).ind.length := by
  obtain ⟨evs, rfl⟩ := hreach
  obtain ⟨hi, -⟩ := run_init_refine p evs
  obtain ⟨hi', hr⟩ := step_refine p _ (.click 3 pos) hi
  have h2 := congrArg Prod.snd hr
  simp only [specStep, hsh, Bool.not_true, Bool.false_eq_true, if_false] at h2
  refine ⟨?_, ?_, hi'.len⟩
  · rw [h2]
    exact List.dropLast_eq_eraseIdx (by have := List.length_pos_of_ne_nil hne; omega)
  · rw [h2, List.length_dropLast]
    have := List.length_pos_of_ne_nil hne
    omega

/-- **Deselect-nearest** (middle button at `x`, modifier held, reachable state, non-empty
    selection) removes exactly one selected pair: the FIRST one whose frequency is nearest to
    the click; every other pair stays as it was. -/
theorem C16_deselect_nearest (p : Plot) (s : State) (hreach : Reachable p s) (x y : Rat)
    (hsh : s.shift = true) (hne : pairs s ≠ []) :
    ∃ i f o, (pairs s)[i]? = some (f, o)
      ∧ pairs (stepKeep p s (.click 2 (some (x, y)))) = (pairs s).eraseIdx i
      ∧ (pairs (stepKeep p s (.click 2 (some (x, y))))).length + 1 = (pairs s).length
      ∧ (∀ (j : Nat) g o', (pairs s)[j]? = some (g, o') → |f - x| ≤ |g - x|)
      ∧ (∀ (j : Nat) g o', j < i → (pairs s)[j]? = some (g, o') → |f - x| < |g - x|) := by
  obtain ⟨evs, rfl⟩ := hreach
  obtain ⟨hi, -⟩ := run_init_refine p evs
  obtain ⟨-, hr⟩ := step_refine p _ (.click 2 (some (x, y))) hi
  have h2 := congrArg Prod.snd hr
  simp only [specStep, hsh, Bool.not_true, Bool.false_eq_true, if_false] at h2
  generalize run p State.init evs = s at *
  cases ha : argminV ((pairs s).map fun q => absR (q.1 - x)) with
  | none =>
    have := argminV_eq_none _ ha
    simp at this
    exact absurd this hne
  | some q =>
    obtain ⟨i, v⟩ := q
    have hsn : specNearest x (pairs s) = some i := by simp [specNearest, ha]
    rw [hsn] at h2
    simp only at h2
    obtain ⟨h1, hmin, hfirst⟩ := argminV_spec _ _ _ ha
    have hlt : i < (pairs s).length := by
      by_contra hc
      rw [List.getElem?_eq_none (by simpa using Nat.le_of_not_lt hc)] at h1
      simp at h1
    have hget : (pairs s)[i]? = some ((pairs s)[i]) := List.getElem?_eq_getElem hlt
    simp only [List.getElem?_map, hget, Option.map_some, Option.some.injEq] at h1
    refine ⟨i, ((pairs s)[i]).1, ((pairs s)[i]).2, hget, h2, ?_, ?_, ?_⟩
    · rw [h2, List.length_eraseIdx, if_pos hlt]; omega
    · intro j g o' hj
      rw [← absR_eq_abs, ← absR_eq_abs, h1]
      exact hmin j _ (by simp [hj])
    · intro j g o' hji hj
      rw [← absR_eq_abs, ← absR_eq_abs, h1]
      exact hfirst j _ hji (by simp [hj])

/-- **Modifier gating.** Without the modifier no mouse event changes anything. -/
theorem C16_no_shift_noop (p : Plot) (s : State) (b : Nat) (pos : Option (Rat × Rat))
    (h : s.shift = false) : stepKeep p s (.click b pos) = s := by
  cases p <;> simp [stepKeep, step, onClickSSI, onClickFDD, h, deselect_noshift s b pos h]

/-- **Independence of the click order, I.** With the modifier held, after the picks `cs` (in
    any order, repetitions allowed) the selection is the stable ascending-frequency sort of the
    designated pairs: a permutation of exactly those pairs, each frequency with its order. -/
theorem C16_click_order (p : Plot) (cs : List (Rat × Rat)) :
    let s := run p State.init (.keyPress "shift" :: clicksOf cs)
    pairs s = sortByKey Prod.fst (cs.filterMap fun c => specPick p c.1 c.2)
      ∧ (pairs s).Perm (cs.filterMap fun c => specPick p c.1 c.2) := by
  intro s
  obtain ⟨-, hr⟩ := run_init_refine p (.keyPress "shift" :: clicksOf cs)
  have h2 := congrArg Prod.snd hr
  have : specRun p (.keyPress "shift" :: clicksOf cs)
      = (true, sortByKey Prod.fst (cs.filterMap fun c => specPick p c.1 c.2)) := by
    rw [← spec_clicks]; simp [specRun, specStep]
  rw [this] at h2
  have h2' : pairs s = sortByKey Prod.fst (cs.filterMap fun c => specPick p c.1 c.2) := h2
  exact ⟨h2', h2' ▸ sortByKey_perm _ _⟩

/-- **Independence of the click order, II.** Two click orders of the same picks, designating
    poles of pairwise distinct frequencies, hand over the SAME lists. -/
theorem C16_click_order_eq (p : Plot) (cs₁ cs₂ : List (Rat × Rat)) (hperm : cs₁.Perm cs₂)
    (hd : ((cs₁.filterMap fun c => specPick p c.1 c.2).map Prod.fst).Nodup) :
    (run p State.init (.keyPress "shift" :: clicksOf cs₁)).result
      = (run p State.init (.keyPress "shift" :: clicksOf cs₂)).result := by
  obtain ⟨h1, -⟩ := C16_click_order p cs₁
  obtain ⟨h2, -⟩ := C16_click_order p cs₂
  obtain ⟨hi1, -⟩ := run_init_refine p (.keyPress "shift" :: clicksOf cs₁)
  obtain ⟨hi2, -⟩ := run_init_refine p (.keyPress "shift" :: clicksOf cs₂)
  have heq : pairs (run p State.init (.keyPress "shift" :: clicksOf cs₁))
      = pairs (run p State.init (.keyPress "shift" :: clicksOf cs₂)) := by
    rw [h1, h2]
    exact sortByKey_eq_of_perm _ _ _ (hperm.filterMap _) hd
  have hf := congrArg (List.map Prod.fst) heq
  have hs := congrArg (List.map Prod.snd) heq
  simp only [pairs] at hf hs
  rw [List.map_fst_zip (by simp [hi1.len]), List.map_fst_zip (by simp [hi2.len])] at hf
  rw [List.map_snd_zip (by simp [hi1.len]), List.map_snd_zip (by simp [hi2.len])] at hs
  simp only [State.result, hf, hs]

-- `C16_extract` ("the modes extracted afterwards are those poles") is in `Props/C16Extract.lean`, stated over
-- C11's extraction models `ssiMpe` / `plscfMpe`.

/-! ## non-vacuity: concrete instances of the hypotheses -/

/-- a 3×4 table with one NaN cell -/
def tbl : Mat (Option Rat) :=
  ⟨3, 4, fun i j => ([[some 1, some (5/4), some (3/2), some 1],
                      [some 3, none, some (13/4), some (7/2)],
                      [some 5, some (11/2), some (21/4), some 5]].getD i []).getD j none⟩

example : pick tbl (43/8) 1 = some (11/2, 1) := by decide +kernel
example : specPick (.fdd [0, 3/4, 3/2, 9/4]) (7/8) 0 = some (3/4, 1) := by decide +kernel
/-- picking a high pole at order 1, then a low pole at order 0 hands over the right pairs -/
example : (run (.stab tbl) State.init
    [.keyPress "shift", .click 1 (some (43/8, 1)), .click 1 (some (7/8, 1/4))]).result
      = ([1, 11/2], [0, 1]) := by decide +kernel
example : (run (.stab tbl) State.init [.keyPress "shift", .click 1 (some (43/8, 1))]).shift = true
    ∧ pairs (run (.stab tbl) State.init [.keyPress "shift", .click 1 (some (43/8, 1))]) ≠ [] := by
  decide +kernel
example : Reachable (.stab tbl) (run (.stab tbl) State.init [.keyPress "shift", .click 1 (some (43/8, 1))]) :=
  ⟨_, rfl⟩
example : (State.init).shift = false := rfl
example : [((43 : Rat)/8, (1 : Rat)), (7/8, 1/4)].Perm [(7/8, 1/4), (43/8, 1)] ∧
    (([((43 : Rat)/8, (1 : Rat)), (7/8, 1/4)].filterMap
      fun c => specPick (.stab tbl) c.1 c.2).map Prod.fst).Nodup := by
  refine ⟨List.Perm.swap _ _ _, ?_⟩
  decide +kernel

end PV.C16
