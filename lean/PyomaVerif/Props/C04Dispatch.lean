import PyomaVerif.Props.C04C13
import PyomaVerif.Props.C13Dispatch
/-!
# C04 ∘ C13 — the estimator of the PreGER theorems IS the executed `SD_est` model

`Props/C04C13.lean` states the merging theorems for `sdEst tb`, where `tb : Tables K` leaves the overlap `tb.nov`, the lag
window `tb.ew` and the twiddles open.  Here `tb` is built from the platform record `SdEnv` of the executed dispatching
model `sdEstM` (driver op `sd_est`, stream `SD_est[dispatch]`): `nov = int(nxseg·pov)`, `ew = exp(−t/τ)`; whenever the
executed function returns, `sdEst (tablesOf env)` is its result (`sdEst_of_sdEstM`), and the third method value of the
PreGER model corresponds to the `UnboundLocalError` (`sdEstM_other`).
-/
namespace PV.C04C13
open PV PV.C13

section
variable {K : Type} [Field K] [LinearOrder K] [IsStrictOrderedRing K]

/-- the tables of `Props/C04C13` as `SD_est` computes them (`env n`: the platform record for segment length `n`) -/
def tablesOf (env : Nat → SdEnv K) : Tables K where
  tw := fun n => (env n).tw
  tw2 := fun n => (env n).tw2
  ew := fun n => expWin (env n).expf (env n).logf (2 * (n / 2))
  nov := fun pov n => (perNoverlap (env n).trunc n pov).toNat

/-- the string `SD_PreGER` passes on as `method` -/
def methodName : SdMethod → String
  | .per => "per"
  | .cor => "cor"
  | .other => "neither"

omit [LinearOrder K] [IsStrictOrderedRing K] in
/-- **The estimator of the C04 theorems is the executed one.** Whenever `SD_est` (model `sdEstM`) returns `S` for the
    arguments of a call `SD_PreGER` makes, `sdEst (tablesOf env)` is `S`. -/
theorem sdEst_of_sdEstM (env : Nat → SdEnv K) (π : SdArgs K) (A B : Mat K) (S : Spec K)
    (h : sdEstM (env π.nxseg) (methodName π.method) A B π.dt π.nxseg π.pov = .ok S) :
    sdEst (tablesOf env) π A B = ofSpec S := by
  rcases π with ⟨dt, nx, m, pov⟩
  rcases sdEstM_ok_inv _ _ A B dt nx pov S h with ⟨hm, _, _, _, _, rfl⟩ | ⟨hm, _, _, rfl⟩
  · cases m
    · rfl
    · simp [methodName] at hm
    · simp [methodName] at hm
  · cases m
    · simp [methodName] at hm
    · rfl
    · simp [methodName] at hm

omit [LinearOrder K] [IsStrictOrderedRing K] in
/-- **The third method value.** `SD_est` with a method that is neither `"per"` nor `"cor"` raises `UnboundLocalError`
    (`SD_PreGER` itself never reaches the call: `Model/PreGER.sdPreGERchecked` raises the same class one line later). -/
theorem sdEstM_other (env : SdEnv K) (A B : Mat K) (dt : K) (nxseg : Nat) (pov : K) :
    sdEstM env (methodName .other) A B dt nxseg pov = .error .unboundLocal :=
  sdEstM_other_raises env _ A B dt nxseg pov (by decide) (by decide)

/-- **Overlap of the C04 theorems.** With Python's `int` and `0 ≤ pov`, the overlap in `C04_identical_refs_per`,
    `C04_gain_per`, … instantiated at `tablesOf env` is `⌊nxseg·pov⌋`. -/
theorem tablesOf_nov [FloorRing K] (env : Nat → SdEnv K) (henv : ∀ n, (env n).trunc = pyInt) (pov : K) (h0 : 0 ≤ pov)
    (nxseg : Nat) : (tablesOf env).nov pov nxseg = ⌊(nxseg : K) * pov⌋₊ := by
  simp only [tablesOf, henv, (perNoverlap_int (K := K) nxseg pov h0).1]
  rfl

/-- a platform record over ℚ and a one-channel record of eight samples -/
def exEnv : SdEnv ℚ := ⟨pyInt, id, id, fun _ => 0, fun _ => 0⟩
def exY : Mat ℚ := ⟨1, 8, fun _ t => (t : ℚ)⟩

/-- non-vacuity of `sdEst_of_sdEstM` (one channel, eight samples, `nxseg = 4`, `pov = 1/2`) and of `tablesOf_nov` -/
example : sdEst (tablesOf fun _ => exEnv) ⟨1, 4, .per, 1/2⟩ exY exY
    = ofSpec (sdEstPer exY exY 1 4 ⌊((4 : Nat) : ℚ) * (1/2)⌋₊ fun _ => 0) :=
  sdEst_of_sdEstM (fun _ => exEnv) ⟨1, 4, .per, 1/2⟩ exY exY _
    (sdEstM_per_pov exEnv rfl exY exY 1 4 (1/2) rfl (by decide) (by decide) (by decide) (by decide)
      (by norm_num) (by norm_num))

example : (tablesOf fun _ => exEnv).nov (7/10) 10 = 7 := by
  rw [tablesOf_nov _ (fun _ => rfl) _ (by norm_num)]
  norm_num [Nat.floor_eq_iff]

end

end PV.C04C13
