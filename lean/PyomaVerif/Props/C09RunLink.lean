import PyomaVerif.Props.C09Run
import PyomaVerif.Props.C09Stored
/-!
# The executable run (`HcFn.lrunClass`, op `hc_run`) returns the tables the C09 / C01 / C03 / C05 theorems speak about

`Props/C09Run.lean`: the executable run returns every stored table as the unfiltered one blanked where a criterion —
evaluated by the `HcFn` cell functions on the RECORDED MPC / MPD values — fails.  `Props/C09All.lean`,
`Props/C01Stored.lean` …: the stored tables of `runOf` are the unfiltered ones blanked where a criterion — with the
library's MPC / MPD definitions (`Model/Indicators.lean`, C18) — fails (`FiltOf`).  `C09_lrun_is_runOf`: under the
contract that the recorded indicator values decide the library's criteria at the limits (`IndContract`: what
`gen.MPC` / `gen.MPD` returned for a shape is on the same side of the limit as the definitions' value), the two
coincide: the table the executable run returns for a field, read as cells, IS the `FiltOf` table — hence (by
`FiltOf.unique`) the table `runOf` stores.
-/
namespace PV.C09RunLink
open PV PV.Hc PV.HcFn PV.C09 PV.C09C18 PV.C09All PV.Stored PV.C09Run

/-- a cell of the executable run as a cell of `Props/C09C18.lean` -/
def toCell : LCell → Cell
  | .real x => .real x
  | .cplx z => .cplx ⟨z.1, z.2⟩
  | .shape v _ _ => shapeCell (v.map fun z => ⟨z.1, z.2⟩)

/-- the data of the run are the raw tables of the executable run, with the same limits and `gen.HC_conj`'s model -/
structure SameData (p : Params (Nat × Nat)) (L : Lims) (r c : Nat) (raw : Tbl → T LCell) : Prop where
  orig : ∀ o i, p.orig o i = (cellAt (raw o) i).map toCell
  xi : L.xiMax = p.xiMax
  mpc : L.mpcLim = p.mpcLim
  mpd : L.mpdLim = p.mpdLim
  cov : L.covMax = p.covMax
  conj : p.conjT = conjTGrid r c

/-- **the contract on the recorded indicator values**: for every unfiltered shape cell, the recorded MPC / MPD
    (what the library's `gen.MPC` / `gen.MPD` returned, `none` = NaN or exception) pass the limit iff the
    shape passes it with the definitions of `Model/Indicators.lean` -/
def IndContract (p : Params (Nat × Nat)) (raw : Tbl → T LCell) : Prop :=
  ∀ i v d m, cellAt (raw .phi) i = some (.shape v d m) →
    mpcMask p.mpcLim m = cellOk p (.mpc .mpcLim) (some (toCell (.shape v d m))) ∧
    mpdMask p.mpdLim d = cellOk p (.mpd .mpdLim) (some (toCell (.shape v d m)))

theorem real?_toCell (x : Option LCell) : (x.map toCell).bind Cell.real? = x.bind LCell.real? := by
  cases x with
  | none => rfl
  | some cl => cases cl <;> rfl

theorem cplx?_toCell (x : Option LCell) : (x.map toCell).bind Stored.cplx? = x.bind LCell.cplx? := by
  cases x with
  | none => rfl
  | some cl => cases cl <;> rfl

/-- every enabled criterion has the same truth value in the two readings -/
theorem crit_eq {p : Params (Nat × Nat)} {L : Lims} {r c : Nat} {raw : Tbl → T LCell}
    (hd : SameData p L r c raw) (hc : IndContract p raw) (conjOn covOn : Bool) (cr : Crit)
    (hcr : cr ∈ enabled conjOn covOn) (i : Nat × Nat) :
    critOrig (semL L r c raw) cr i = critOrig (semIndicators p) cr i := by
  have hmem : cr = .conj ∨ cr = .damp .xiMax ∨ cr = .mpd .mpdLim ∨ cr = .mpc .mpcLim ∨ cr = .cov .covMax := by
    cases conjOn <;> cases covOn <;> simp [enabled] at hcr <;> tauto
  rcases hmem with rfl | rfl | rfl | rfl | rfl
  · show conjGrid r c (fun y => (cellAt (raw .lam) y).bind LCell.cplx?) i = p.conjT (p.orig .lam) i
    rw [hd.conj]
    unfold conjTGrid
    congr 1
    funext y
    rw [hd.orig, cplx?_toCell]
  · show dampMask L.xiMax ((cellAt (raw .xi) i).bind LCell.real?) = dampMask p.xiMax ((p.orig .xi i).bind Cell.real?)
    rw [hd.orig, real?_toCell, hd.xi]
  · show mpdMask L.mpdLim ((cellAt (raw .phi) i).bind LCell.mpd?) = cellOk p (.mpd .mpdLim) (p.orig .phi i)
    rw [hd.orig, hd.mpd]
    cases hcell : cellAt (raw .phi) i with
    | none => simp [cellOk, mpdMask]
    | some cl =>
      cases cl with
      | real x => simp [cellOk, mpdMask, LCell.mpd?, toCell]
      | cplx z => simp [cellOk, mpdMask, LCell.mpd?, toCell]
      | shape v d m => exact (hc i v d m hcell).2
  · show mpcMask L.mpcLim ((cellAt (raw .phi) i).bind LCell.mpc?) = cellOk p (.mpc .mpcLim) (p.orig .phi i)
    rw [hd.orig, hd.mpc]
    cases hcell : cellAt (raw .phi) i with
    | none => simp [cellOk, mpcMask]
    | some cl =>
      cases cl with
      | real x => simp [cellOk, mpcMask, LCell.mpc?, toCell, Cell.mpc?]
      | cplx z => simp [cellOk, mpcMask, LCell.mpc?, toCell, Cell.mpc?]
      | shape v d m => exact (hc i v d m hcell).1
  · show covMask L.covMax ((cellAt (raw .fncov) i).bind LCell.real?) = covMask p.covMax ((p.orig .fncov i).bind Cell.real?)
    rw [hd.orig, real?_toCell, hd.cov]

/-- **C09_lrun_is_runOf.**  For each of the six classes, every flag combination that exists: the executable run
    returns; a tracked, present field `f` is returned as a list-of-rows table `t` whose cell reading is `FiltOf`
    the unfiltered table (criteria with the library's MPC / MPD) — and it is the very table the concrete run
    `runOf` of `Props/C09All.lean` (the object of `C01_stored`, `C03_stored`, `C05_stored`, `C11_run_extract`)
    holds in the variable returned as `f`. -/
theorem C09_lrun_is_runOf (cl : ClassSpec) (hcl : cl ∈ classes) (conjOn covOn : Bool)
    (hflag : flagOk cl.hasCov covOn = true) (p : Params (Nat × Nat)) (L : Lims) (r c : Nat) (raw : Tbl → T LCell)
    (hfit : ∀ o, Fits r c (raw o)) (hd : SameData p L r c raw) (hc : IndContract p raw) :
    ∃ res e', lrunClass cl.prog L conjOn covOn raw = some res ∧ runOf cl conjOn covOn p = some e' ∧
      ∀ f x o, (f, x) ∈ cl.prog.ret → fieldTbl f = some o → (isCovTbl o && !covOn) = false →
        ∃ t, (f, some t) ∈ res ∧ FiltOf p conjOn covOn o (fun i => (cellAt t i).map toCell) ∧
          e' x = some (CVal.tbl fun i => (cellAt t i).map toCell) := by
  have hchk := C09_seq_all cl hcl conjOn covOn hflag
  obtain ⟨res, hres, hall⟩ := C09_lrun_stored cl.prog cl.required conjOn covOn hchk L r c raw hfit
  obtain ⟨e', he', _, hrun⟩ := C09_kept_iff_all cl hcl conjOn covOn hflag p
  refine ⟨res, e', hres, he', ?_⟩
  intro f x o hmem hf hpres
  have h1 := hall f x o hmem hf
  rw [if_neg (by simp [hpres])] at h1
  obtain ⟨t, ht, hiff⟩ := h1
  have h2 := hrun f x o hmem hf
  rw [if_neg (by simp [hpres])] at h2
  obtain ⟨T, hT, hF⟩ := h2
  have hfilt : FiltOf p conjOn covOn o (fun i => (cellAt t i).map toCell) := by
    intro i cc
    show ((cellAt t i).map toCell = some cc) ↔ (p.orig o i = some cc ∧ Kept p conjOn covOn i)
    have hk : Kept p conjOn covOn i ↔ ∀ cr ∈ enabled conjOn covOn, CritL L r c raw cr i := by
      unfold Kept
      rw [← enabled_iff]
      constructor
      · intro h cr hcr
        show critOrig (semL L r c raw) cr i = true
        rw [crit_eq hd hc conjOn covOn cr hcr i]; exact h cr hcr
      · intro h cr hcr
        rw [← crit_eq hd hc conjOn covOn cr hcr i]; exact h cr hcr
    rw [hk, hd.orig]
    constructor
    · intro h
      cases hci : cellAt t i with
      | none => rw [hci] at h; cases h
      | some v =>
        rw [hci] at h
        obtain ⟨h1, h2⟩ := (hiff i v).mp hci
        exact ⟨by rw [h1]; exact h, h2⟩
    · rintro ⟨h1, h2⟩
      cases hri : cellAt (raw o) i with
      | none => rw [hri] at h1; cases h1
      | some v =>
        rw [hri] at h1
        rw [(hiff i v).mpr ⟨hri, h2⟩]
        exact h1
  refine ⟨t, ht, hfilt, ?_⟩
  rw [hT, hF.unique hfilt]

/-! ### Non-vacuity: `SameData`, `IndContract` and `Fits` hold jointly (one order, a conjugate pair of poles,
two-channel shapes: MPC = 1 by definition and as recorded; `mpd_lim = 2 ≥ π/2`) -/
section example_

def exRaw : Tbl → T LCell
  | .fn => [[some (.real 2)], [some (.real 2)]]
  | .xi => [[some (.real (1/50))], [some (.real (1/50))]]
  | .phi => [[some (.shape [(1, 0), (1/2, 0)] (some 0) (some 1))], [some (.shape [(1, 0), (1/2, 1/4)] (some (1/3)) (some 1))]]
  | .lam => [[some (.cplx (-1, 10))], [some (.cplx (-1, -10))]]
  | _ => []

noncomputable def exP : Params (Nat × Nat) where
  orig := fun o i => (cellAt (exRaw o) i).map toCell
  xiMax := 1 / 10
  mpcLim := 7 / 10
  mpdLim := 2
  covMax := 1
  dir := fun _ _ => (1, -1)
  conjT := conjTGrid 2 1

theorem exRaw_fits : ∀ o, Fits 2 1 (exRaw o) := by
  intro o
  cases o <;> exact ⟨by decide, by decide⟩

theorem ex_same : SameData exP ⟨1 / 10, 7 / 10, 2, 1⟩ 2 1 exRaw := ⟨fun _ _ => rfl, rfl, rfl, rfl, rfl, rfl⟩

theorem mpd_le_two (n : Nat) (v : Nat → Cx Rat) : mpdVal exP n v ≤ (exP.mpdLim : ℝ) := by
  show mpdVal exP n v ≤ ((2 : Rat) : ℝ)
  have hb := (PV.C18.C18_mpd_bounds n (castShape v) (exP.dir n v).1 (exP.dir n v).2).2
  have hpi : Real.pi / 2 ≤ 2 := by linarith [Real.pi_le_four]
  have h2 : ((2 : Rat) : ℝ) = 2 := by norm_num
  rw [h2]
  exact le_trans hb hpi

theorem ex_contract : IndContract exP exRaw := by
  intro i v d m h
  obtain ⟨h1, h2⟩ := cellAt_lt _ 2 1 (exRaw_fits .phi) i _ h
  obtain ⟨a, b⟩ := i
  have hb : b = 0 := by simp only at h2; omega
  subst hb
  have ha : a = 0 ∨ a = 1 := by simp only at h1; omega
  rcases ha with rfl | rfl
  · have e : cellAt (exRaw .phi) (0, 0) = some (.shape [(1, 0), (1/2, 0)] (some 0) (some 1)) := rfl
    rw [e] at h
    cases h
    constructor
    · show mpcMask (7 / 10) (some 1) = mpcMask (7 / 10) (mpcClosed? 2 _)
      decide +kernel
    · simp only [cellOk, toCell, shapeCell]
      rw [decide_eq_true (mpd_le_two _ _)]
      decide +kernel
  · have e : cellAt (exRaw .phi) (1, 0) = some (.shape [(1, 0), (1/2, 1/4)] (some (1/3)) (some 1)) := rfl
    rw [e] at h
    cases h
    constructor
    · show mpcMask (7 / 10) (some 1) = mpcMask (7 / 10) (mpcClosed? 2 _)
      decide +kernel
    · simp only [cellOk, toCell, shapeCell]
      rw [decide_eq_true (mpd_le_two _ _)]
      decide +kernel

/-- all hypotheses of `C09_lrun_is_runOf` hold jointly, for every class (`conj` on) -/
example (cl : ClassSpec) (hcl : cl ∈ classes) :=
  C09_lrun_is_runOf cl hcl true false (by simp [flagOk]) exP ⟨1 / 10, 7 / 10, 2, 1⟩ 2 1 exRaw exRaw_fits ex_same
    ex_contract

end example_

end PV.C09RunLink
