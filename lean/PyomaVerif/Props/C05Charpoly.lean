import PyomaVerif.Lemmas.BlockCompanion
import PyomaVerif.Props.C05
import Mathlib.Algebra.Polynomial.Roots
import Mathlib.FieldTheory.IsAlgClosed.Basic
import Mathlib.LinearAlgebra.Matrix.Charpoly.Coeff
import Mathlib.Analysis.Complex.Polynomial.Basic
import Mathlib.Tactic.NormNum
/-!
# C05, multiplicity half — the characteristic polynomial of the matrix `rmfd2ac` builds

`Props/C05.lean` proves the eigen*vector* correspondence (`C05_companion`, `…_conv`, `…_kernel`).
Here the *count*: for every order `p`, channel count `m` and coefficient stack,

* the `p`-block companion of the solves `P_j = A_p⁻¹A_{p-1-j}` has characteristic polynomial
  `det (X^p·I + Σ_j X^(p-1-j)·P_j)` (`C05_charpoly_companion`);
* the matrix the code really builds (`p+1` blocks, F12) has `X^m` times that
  (`C05_charpoly_rmfd2ac_layout`), and `det A_p · charpoly = X^m · det A(X)` with
  `A(X) = Σ_k X^k·A_k` (`C05_charpoly_detA`) — `rmfd2ac` normalises by the *last* coefficient
  for either sign of the basis function; under the `HI` constraint (`sgn_basf = +1`) `A_p = I`
  and the factor disappears (`C05_charpoly_HI`), under `LO` (`sgn_basf = -1`) `A_0 = I` and
  `0` is not a root of `det A(X)`, so the zero eigenvalue has multiplicity exactly `m`
  (`C05_LO_zero_multiplicity`);
* corollaries: degree `p·m`, eigenvalue ⇔ root of `det A`, equal multiplicities, the multiset
  of eigenvalues, the count over an algebraically closed field, and the statement for the
  value returned by the model of `rmfd2ac` itself (`C05_rmfd2ac_charpoly`).

`toMx` (`Lemmas/Realise.lean`) is the image of the model's entry function as a Mathlib matrix;
`blkMx m A k` the `k`-th coefficient block; `monicMx`, `polyMx`, `evalMx` in
`Lemmas/BlockCompanion.lean`.
-/
namespace PV.C05
open PV PV.Plscf PV.BlockCompanion Polynomial Matrix

variable {K : Type}

section ring
variable [CommRing K]

/-- **Characteristic polynomial of the block companion** (any commutative ring, every `p ≥ 1`,
    every block size `m`): for the `p`-block matrix with top block row `-P_0 … -P_{p-1}` and
    identity blocks below the diagonal — `companionA p m p P`, the layout of `rmfd2ac` without
    its extra block — `charpoly = det (X^p·I + Σ_{j<p} X^(p-1-j)·P_j)`. -/
theorem C05_charpoly_companion (p m : ℕ) (hp : 1 ≤ p) (P : ℕ → ℕ → ℕ → K) :
    (toMx (p * m) (p * m) (companionA p m p P).e).charpoly = (monicMx p m P).det := by
  obtain ⟨n, rfl⟩ : ∃ n, p = n + 1 := ⟨p - 1, by omega⟩
  exact charpoly_pure n m P

/-- **… of the matrix `rmfd2ac` builds** (`p+1` blocks, the last block column zero, F12):
    `charpoly = X^m · det (X^p·I + Σ_{j<p} X^(p-1-j)·P_j)`, for every `p ≥ 0`. -/
theorem C05_charpoly_rmfd2ac_layout (p m : ℕ) (P : ℕ → ℕ → ℕ → K) :
    (toMx ((p + 1) * m) ((p + 1) * m) (companionA (p + 1) m p P).e).charpoly
      = (X : K[X]) ^ m * (monicMx p m P).det :=
  charpoly_code p m P

/-- **Roots of `det A(z)`.**  `P i` is what `solve(A_p, A_{p-1-i})` returned (exact solves).
    Then `det A_p · charpoly = X^m · det A(X)`, `A(X) = Σ_{k≤p} X^k·A_k` as a polynomial matrix. -/
theorem C05_charpoly_detA (p m : ℕ) (A P : ℕ → ℕ → ℕ → K)
    (hsolve : ∀ i < p, ∀ a < m, ∀ b < m, ∑ t ∈ Finset.range m, A p a t * P i t b = A (p - 1 - i) a b) :
    C (blkMx m A p).det * (toMx ((p + 1) * m) ((p + 1) * m) (companionA (p + 1) m p P).e).charpoly
      = (X : K[X]) ^ m * (polyMx p m A).det := by
  rw [charpoly_code, det_polyMx p m A P hsolve]
  ring

/-- the same for the `p`-block companion (no extra block): `det A_p · charpoly = det A(X)`. -/
theorem C05_charpoly_detA_companion (p m : ℕ) (hp : 1 ≤ p) (A P : ℕ → ℕ → ℕ → K)
    (hsolve : ∀ i < p, ∀ a < m, ∀ b < m, ∑ t ∈ Finset.range m, A p a t * P i t b = A (p - 1 - i) a b) :
    C (blkMx m A p).det * (toMx (p * m) (p * m) (companionA p m p P).e).charpoly
      = (polyMx p m A).det := by
  rw [C05_charpoly_companion p m hp, det_polyMx p m A P hsolve]

/-- **`HI` constraint (`sgn_basf = +1`)**: `pLSCF` returns `A_p = I`, the normalisation is
    trivial and `charpoly = X^m · det A(X)` exactly. -/
theorem C05_charpoly_HI (p m : ℕ) (A P : ℕ → ℕ → ℕ → K)
    (hsolve : ∀ i < p, ∀ a < m, ∀ b < m, ∑ t ∈ Finset.range m, A p a t * P i t b = A (p - 1 - i) a b)
    (hAp : ∀ a < m, ∀ b < m, A p a b = if a = b then 1 else 0) :
    (toMx ((p + 1) * m) ((p + 1) * m) (companionA (p + 1) m p P).e).charpoly
      = (X : K[X]) ^ m * (polyMx p m A).det := by
  have h1 : blkMx m A p = 1 := by
    ext a b
    simp only [blkMx, of_apply, hAp a a.2 b b.2, Matrix.one_apply, Fin.ext_iff]
  have := C05_charpoly_detA p m A P hsolve
  rwa [h1, det_one, C_1, one_mul] at this

/-- **Degree.**  `det (X^p·I + …)` is monic of degree `p·m`: the companion has exactly `p·m`
    eigenvalues counted by the characteristic polynomial (plus the `m` zeros of the extra block:
    `(p+1)·m` for the matrix as built). -/
theorem C05_charpoly_degree [Nontrivial K] (p m : ℕ) (P : ℕ → ℕ → ℕ → K) :
    (monicMx p m P).det.Monic ∧ (monicMx p m P).det.natDegree = p * m
      ∧ (toMx ((p + 1) * m) ((p + 1) * m) (companionA (p + 1) m p P).e).charpoly.natDegree
          = (p + 1) * m := by
  have hc := charpoly_code p m P
  have hm : ((X : K[X]) ^ m * (monicMx p m P).det).Monic := by
    rw [← hc]; exact Matrix.charpoly_monic _
  have hd : (monicMx p m P).det.Monic := Monic.of_mul_monic_left (monic_X_pow m) hm
  have hdeg := Matrix.charpoly_natDegree_eq_dim
    (toMx ((p + 1) * m) ((p + 1) * m) (companionA (p + 1) m p P).e)
  refine ⟨hd, ?_, by simp⟩
  rw [hc, (monic_X_pow m).natDegree_mul' hd.ne_zero, natDegree_X_pow, Fintype.card_fin,
    Nat.succ_mul] at hdeg
  omega

end ring

section field
variable [Field K]

/-- `det A(X)` has degree exactly `p·m` when the leading coefficient is non-singular. -/
theorem C05_detA_degree (p m : ℕ) (A P : ℕ → ℕ → ℕ → K)
    (hsolve : ∀ i < p, ∀ a < m, ∀ b < m, ∑ t ∈ Finset.range m, A p a t * P i t b = A (p - 1 - i) a b)
    (hdet : (blkMx m A p).det ≠ 0) :
    (polyMx p m A).det.natDegree = p * m := by
  rw [det_polyMx p m A P hsolve, natDegree_C_mul hdet]
  exact (C05_charpoly_degree p m P).2.1

theorem C05_detA_ne_zero (p m : ℕ) (A P : ℕ → ℕ → ℕ → K)
    (hsolve : ∀ i < p, ∀ a < m, ∀ b < m, ∑ t ∈ Finset.range m, A p a t * P i t b = A (p - 1 - i) a b)
    (hdet : (blkMx m A p).det ≠ 0) : (polyMx p m A).det ≠ 0 := by
  rw [det_polyMx p m A P hsolve]
  exact mul_ne_zero (C_ne_zero.mpr hdet) (C05_charpoly_degree p m P).1.ne_zero

/-- **Eigenvalue ⇔ root of `det A`.**  `λ` is a root of the characteristic polynomial of the
    matrix `rmfd2ac` builds iff `det A(λ) = 0` (`A(λ) = Σ_k λ^k·A_k`) or `λ = 0` (extra block). -/
theorem C05_eigenvalue_iff (p m : ℕ) (A P : ℕ → ℕ → ℕ → K)
    (hsolve : ∀ i < p, ∀ a < m, ∀ b < m, ∑ t ∈ Finset.range m, A p a t * P i t b = A (p - 1 - i) a b)
    (hdet : (blkMx m A p).det ≠ 0) (lam : K) :
    (toMx ((p + 1) * m) ((p + 1) * m) (companionA (p + 1) m p P).e).charpoly.IsRoot lam
      ↔ (lam = 0 ∧ m ≠ 0) ∨ (evalMx p m A lam).det = 0 := by
  have h := congrArg (eval lam) (C05_charpoly_detA p m A P hsolve)
  rw [eval_mul, eval_mul, eval_C, eval_pow, eval_X, eval_det_polyMx] at h
  unfold IsRoot
  constructor
  · intro hr
    rw [hr, mul_zero] at h
    rcases mul_eq_zero.mp h.symm with h0 | h0
    · left
      refine ⟨pow_eq_zero_iff (M₀ := K) (n := m) ?_ |>.mp h0, ?_⟩ <;>
      · rintro rfl; simp at h0
    · right; exact h0
  · rintro (⟨rfl, hm⟩ | h0)
    · rw [zero_pow hm, zero_mul] at h
      exact (mul_eq_zero.mp h).resolve_left hdet
    · rw [h0, mul_zero] at h
      exact (mul_eq_zero.mp h).resolve_left hdet

/-- **The multiset of eigenvalues**: `m` zeros (extra block) and the roots of `det A(X)`, with
    their multiplicities. -/
theorem C05_charpoly_roots (p m : ℕ) (A P : ℕ → ℕ → ℕ → K)
    (hsolve : ∀ i < p, ∀ a < m, ∀ b < m, ∑ t ∈ Finset.range m, A p a t * P i t b = A (p - 1 - i) a b)
    (hdet : (blkMx m A p).det ≠ 0) :
    (toMx ((p + 1) * m) ((p + 1) * m) (companionA (p + 1) m p P).e).charpoly.roots
      = Multiset.replicate m 0 + (polyMx p m A).det.roots := by
  have h := congrArg Polynomial.roots (C05_charpoly_detA p m A P hsolve)
  rw [roots_C_mul _ hdet, roots_mul (mul_ne_zero (pow_ne_zero m X_ne_zero)
    (C05_detA_ne_zero p m A P hsolve hdet)), roots_X_pow, Multiset.nsmul_singleton] at h
  exact h

/-- **Multiplicities agree**: for every `λ`, the multiplicity of `λ` as an eigenvalue of the
    matrix `rmfd2ac` builds is its multiplicity as a root of `det A(X)` — plus `m` at `λ = 0`. -/
theorem C05_rootMultiplicity [DecidableEq K] (p m : ℕ) (A P : ℕ → ℕ → ℕ → K)
    (hsolve : ∀ i < p, ∀ a < m, ∀ b < m, ∑ t ∈ Finset.range m, A p a t * P i t b = A (p - 1 - i) a b)
    (hdet : (blkMx m A p).det ≠ 0) (lam : K) :
    rootMultiplicity lam
        (toMx ((p + 1) * m) ((p + 1) * m) (companionA (p + 1) m p P).e).charpoly
      = (if lam = 0 then m else 0) + rootMultiplicity lam (polyMx p m A).det := by
  rw [← count_roots, ← count_roots, C05_charpoly_roots p m A P hsolve hdet, Multiset.count_add,
    Multiset.count_replicate]
  simp only [eq_comm]

/-- … and without the extra block they agree exactly. -/
theorem C05_rootMultiplicity_companion (p m : ℕ) (hp : 1 ≤ p) (A P : ℕ → ℕ → ℕ → K)
    (hsolve : ∀ i < p, ∀ a < m, ∀ b < m, ∑ t ∈ Finset.range m, A p a t * P i t b = A (p - 1 - i) a b)
    (hdet : (blkMx m A p).det ≠ 0) (lam : K) :
    rootMultiplicity lam (toMx (p * m) (p * m) (companionA p m p P).e).charpoly
      = rootMultiplicity lam (polyMx p m A).det := by
  classical
  rw [← count_roots, ← count_roots, ← C05_charpoly_detA_companion p m hp A P hsolve,
    roots_C_mul _ hdet]

/-- **`LO` constraint (`sgn_basf = -1`)**: `pLSCF` returns `A_0 = I`, so `det A(0) = 1`, `0` is
    not a root of `det A(X)` and the zero eigenvalue of the matrix as built has multiplicity
    exactly `m` — the extra block, nothing else. -/
theorem C05_LO_zero_multiplicity (p m : ℕ) (A P : ℕ → ℕ → ℕ → K)
    (hsolve : ∀ i < p, ∀ a < m, ∀ b < m, ∑ t ∈ Finset.range m, A p a t * P i t b = A (p - 1 - i) a b)
    (hdet : (blkMx m A p).det ≠ 0)
    (hA0 : ∀ a < m, ∀ b < m, A 0 a b = if a = b then 1 else 0) :
    rootMultiplicity 0
        (toMx ((p + 1) * m) ((p + 1) * m) (companionA (p + 1) m p P).e).charpoly = m := by
  classical
  rw [C05_rootMultiplicity p m A P hsolve hdet, if_pos rfl]
  have h1 : evalMx p m A 0 = 1 := by
    unfold evalMx
    rw [Finset.sum_range_succ', Finset.sum_eq_zero]
    · ext a b
      simp only [pow_zero, one_smul, zero_add, blkMx, of_apply, hA0 a a.2 b b.2, Matrix.one_apply,
        Fin.ext_iff]
    · intro k _; simp
  have h2 : ¬ (polyMx p m A).det.IsRoot 0 := by
    unfold IsRoot
    rw [eval_det_polyMx, h1, det_one]
    exact one_ne_zero
  rw [rootMultiplicity_eq_zero h2, add_zero]

/-- **Count.**  Over an algebraically closed field: exactly `p·m` roots of `det A(X)`, exactly
    `(p+1)·m` eigenvalues of the matrix as built, counted with multiplicity. -/
theorem C05_card_roots [IsAlgClosed K] (p m : ℕ) (A P : ℕ → ℕ → ℕ → K)
    (hsolve : ∀ i < p, ∀ a < m, ∀ b < m, ∑ t ∈ Finset.range m, A p a t * P i t b = A (p - 1 - i) a b)
    (hdet : (blkMx m A p).det ≠ 0) :
    Multiset.card (polyMx p m A).det.roots = p * m
      ∧ Multiset.card
          (toMx ((p + 1) * m) ((p + 1) * m) (companionA (p + 1) m p P).e).charpoly.roots
          = (p + 1) * m := by
  have h1 : Multiset.card (polyMx p m A).det.roots = p * m := by
    rw [IsAlgClosed.card_roots_eq_natDegree, C05_detA_degree p m A P hsolve hdet]
  refine ⟨h1, ?_⟩
  rw [C05_charpoly_roots p m A P hsolve hdet, Multiset.card_add, Multiset.card_replicate, h1,
    Nat.succ_mul, Nat.add_comm]

/-- **The value `rmfd2ac` returns.**  Whenever the model of `rmfd2ac` returns on stacks of equal
    length `p+1` (every `solve` certificate re-checked), the state matrix `Am` satisfies
    `det A_p · charpoly(Am) = X^m · det A(X)` for the denominator stack it was given — the Mathlib
    matrix is `toMx` of the very entry function the driver evaluates. -/
theorem C05_rmfd2ac_charpoly [DecidableEq K] [Inhabited K] (Ad Bn : Coefs K) (p : ℕ)
    (hA : Ad.len = p + 1) (hB : Bn.len = p + 1) (Am Cm : Mat K)
    (h : rmfd2ac Ad Bn = some (Am, Cm)) :
    Am.r = (p + 1) * Bn.c ∧ Am.c = (p + 1) * Bn.c
      ∧ C (blkMx Bn.c Ad.blk p).det
          * (toMx ((p + 1) * Bn.c) ((p + 1) * Bn.c) Am.e).charpoly
        = (X : K[X]) ^ Bn.c * (polyMx p Bn.c Ad.blk).det := by
  obtain ⟨P, hAm, -, hsolve⟩ := C05_rmfd2ac_solves Ad Bn p hA hB Am Cm h
  subst hAm
  exact ⟨rfl, rfl, C05_charpoly_detA p Bn.c Ad.blk P hsolve⟩

end field

/-! ## Non-vacuity: concrete two-channel, order-2 stacks satisfying the hypotheses -/
section examples
open Finset
/-- two channels, order 2, `LO`-normalised (`A_0 = I`):
    `A(X) = I + [[0,1],[1,0]]·X + [[1,1],[0,1]]·X²` -/
def exL : Nat → Nat → Nat → Rat := fun k a b =>
  if k = 0 then (if a = b then 1 else 0)
  else if k = 1 then (if a = b then 0 else 1)
  else (if a = 1 ∧ b = 0 then 0 else 1)
/-- the solves `A_2⁻¹A_1 = [[-1,1],[1,0]]`, `A_2⁻¹A_0 = [[1,-1],[0,1]]` -/
def exLP : Nat → Nat → Nat → Rat := fun i a b =>
  if i = 0 then (if a = 0 then (if b = 0 then -1 else 1) else (if b = 0 then 1 else 0))
  else (if a = b then 1 else if a = 0 then -1 else 0)

example : ∀ i < 2, ∀ a < 2, ∀ b < 2,
    ∑ t ∈ range 2, exL 2 a t * exLP i t b = exL (2 - 1 - i) a b := by decide +kernel
example : (blkMx 2 exL 2).det ≠ 0 := by
  rw [Matrix.det_fin_two]; simp [blkMx, exL]
example : ∀ a < 2, ∀ b < 2, exL 0 a b = if a = b then 1 else 0 := by decide +kernel
example : (rmfd2ac ⟨3, 2, 2, exL⟩ ⟨3, 1, 2, fun _ _ _ => (1 : Rat)⟩).map (fun AC => AC.1.toLists)
    = some [[1, -1, -1, 1, 0, 0], [-1, 0, 0, -1, 0, 0], [1, 0, 0, 0, 0, 0], [0, 1, 0, 0, 0, 0],
            [0, 0, 1, 0, 0, 0], [0, 0, 0, 1, 0, 0]] := by decide +kernel

/-- two channels, order 2, `HI`-normalised (`A_2 = I`):
    `A(X) = diag((X-1)(X-2), (X-3)(X+1))` -/
def exH : Nat → Nat → Nat → Rat := fun k a b =>
  if a = b then
    (if k = 2 then 1 else if k = 1 then (if a = 0 then -3 else -2) else (if a = 0 then 2 else -3))
  else 0
def exHP : Nat → Nat → Nat → Rat := fun i => exH (1 - i)

theorem exH_solve : ∀ i < 2, ∀ a < 2, ∀ b < 2,
    ∑ t ∈ range 2, exH 2 a t * exHP i t b = exH (2 - 1 - i) a b := by decide +kernel
theorem exH_top : ∀ a < 2, ∀ b < 2, exH 2 a b = if a = b then 1 else 0 := by decide +kernel
theorem exH_det : (blkMx 2 exH 2).det ≠ 0 := by
  rw [Matrix.det_fin_two]; simp [blkMx, exH]
theorem exH_root : (evalMx 2 2 exH 2).det = 0 := by
  rw [Matrix.det_fin_two]
  simp [evalMx, blkMx, exH, Finset.sum_range_succ]
  norm_num

-- the conclusions on this instance: `2` is an eigenvalue of the 6×6 matrix as built, the
-- characteristic polynomial is `X² · det A(X)`, `det A(X)` has degree `2·2`
example : (toMx 6 6 (companionA 3 2 2 exHP).e).charpoly.IsRoot 2 :=
  (C05_eigenvalue_iff 2 2 exH exHP exH_solve exH_det 2).mpr (Or.inr exH_root)
example : (toMx 6 6 (companionA 3 2 2 exHP).e).charpoly = X ^ 2 * (polyMx 2 2 exH).det :=
  C05_charpoly_HI 2 2 exH exHP exH_solve exH_top
example : (polyMx 2 2 exH).det.natDegree = 4 := C05_detA_degree 2 2 exH exHP exH_solve exH_det
example : rootMultiplicity 2 (toMx 6 6 (companionA 3 2 2 exHP).e).charpoly
    = rootMultiplicity 2 (polyMx 2 2 exH).det := by
  rw [C05_rootMultiplicity 2 2 exH exHP exH_solve exH_det 2]; simp

-- `C05_card_roots`: the same stack over the algebraically closed field `ℂ`
example : ∀ i < 2, ∀ a < 2, ∀ b < 2,
    ∑ t ∈ range 2, ((exH 2 a t : ℚ) : ℂ) * ((exHP i t b : ℚ) : ℂ) = ((exH (2 - 1 - i) a b : ℚ) : ℂ) := by
  intro i hi a ha b hb
  exact_mod_cast exH_solve i hi a ha b hb
example : (blkMx 2 (fun k a b => ((exH k a b : ℚ) : ℂ)) 2).det ≠ 0 := by
  rw [Matrix.det_fin_two]; simp [blkMx, exH]
end examples

end PV.C05
