import PyomaVerif.Model.Mpe
import PyomaVerif.Lemmas.NanTable
import PyomaVerif.Lemmas.Mpe
import Mathlib.Tactic.Linarith
/-!
# C11 — modal parameter extraction returns the requested pole, whole and only if close
(`ssi.SSI_mpe`, `plscf.pLSCF_mpe`)

Property theorems only, for every table size, NaN pattern, request list, order form and `rtol`.
`ssiMpe`/`plscfMpe` model the routines *after* the proposed repair of the closeness test
(`np.isclose(pole, fj, rtol)`); the pinned test (`… freq_ref).any()`) is `Mutants/C11.lean`.
`mpeCells` (in `Lemmas/Mpe.lean`) is the list of table cells the request loop selects,
`accOfCells` the six returned lists read off one list of cells, `reqsOf` the (request, column) pairs of
the call, `Servable` the domain condition "the column exists and holds a retained pole".
-/
namespace PV.C11
open PV

variable (freq : List Rat) (Fn Xi : Mat NR) (Phi : Ten3 (Option CQ)) (Lab : Option (Mat Int))
  (rtol : Rat) (cov : Option MpeCov)

/-- "each request contributes the first nearest retained pole of its column, and only if that pole is
    `np.isclose` to **that** request" — the relation between the request list and the returned cells. -/
inductive Extracted (Fn : Mat NR) (rtol : Rat) : List (Rat × Option Nat) → List (Nat × Nat) → Prop
  | nil : Extracted Fn rtol [] []
  | close {fj : Rat} {ord r : Nat} {v : Rat} {reqs : List (Rat × Option Nat)} {cells : List (Nat × Nat)} :
      IsFirstNearest (fun r => Fn.e r ord) Fn.r fj r v → |v - fj| ≤ iscloseAtol + rtol * |fj| →
      Extracted Fn rtol reqs cells → Extracted Fn rtol ((fj, some ord) :: reqs) ((r, ord) :: cells)
  | far {fj : Rat} {ord r : Nat} {v : Rat} {reqs : List (Rat × Option Nat)} {cells : List (Nat × Nat)} :
      IsFirstNearest (fun r => Fn.e r ord) Fn.r fj r v → ¬ |v - fj| ≤ iscloseAtol + rtol * |fj| →
      Extracted Fn rtol reqs cells → Extracted Fn rtol ((fj, some ord) :: reqs) cells

/-- the relation is functional: the returned cells are determined by the requests. -/
theorem Extracted.unique {Fn : Mat NR} {rtol : Rat} {reqs : List (Rat × Option Nat)} {c c' : List (Nat × Nat)}
    (h : Extracted Fn rtol reqs c) (h' : Extracted Fn rtol reqs c') : c = c' := by
  induction h generalizing c' with
  | nil => cases h'; rfl
  | close hn hc _ ih =>
    cases h' with
    | close hn' hc' hrest => obtain ⟨rfl, rfl⟩ := hn.unique hn'; rw [ih hrest]
    | far hn' hc' hrest => obtain ⟨rfl, rfl⟩ := hn.unique hn'; exact absurd hc hc'
  | far hn hc _ ih =>
    cases h' with
    | close hn' hc' hrest => obtain ⟨rfl, rfl⟩ := hn.unique hn'; exact absurd hc' hc
    | far hn' hc' hrest => exact ih hrest

/-- core fact for explicit orders (`int`, `list`): a successful call served every request and returned
    the six lists read off the one cell list `mpeCells`. -/
theorem ssi_explicit {order : MpeOrder} (hex : order ≠ .findMin) {out : MpeOut}
    (h : ssiMpe freq Fn Xi Phi order Lab rtol cov = .ok out) :
    (∀ q ∈ reqsOf freq order, Servable Fn q) ∧
      out.acc = accOfCells Fn Xi Phi cov (mpeCells Fn (chkOwn rtol) (reqsOf freq order)) := by
  unfold ssiMpe ssiMpeWith at h
  cases order with
  | findMin => exact absurd rfl hex
  | int o =>
    simp only at h
    cases hl : mpeLoop Fn Xi Phi cov (chkOwn rtol) (freq.map fun f => (f, some o)) {} with
    | error e => rw [hl] at h; cases h
    | ok acc =>
      rw [hl] at h
      rw [← accOfCells_nil Fn Xi Phi cov] at hl
      obtain ⟨hs, hacc⟩ := mpeLoop_ok Fn Xi Phi cov (chkOwn rtol) _ [] acc hl
      simp only at h
      split at h
      · cases h
      · simp only [pure, Except.pure, Except.ok.injEq] at h
        subst h
        exact ⟨hs, by simpa [reqsOf] using hacc⟩
  | list os =>
    simp only at h
    cases hl : mpeLoop Fn Xi Phi cov (chkOwn rtol) (listReqs freq os) {} with
    | error e => rw [hl] at h; cases h
    | ok acc =>
      rw [hl] at h
      rw [← accOfCells_nil Fn Xi Phi cov] at hl
      obtain ⟨hs, hacc⟩ := mpeLoop_ok Fn Xi Phi cov (chkOwn rtol) _ [] acc hl
      simp only [pure, Except.pure, Except.ok.injEq] at h
      subst h
      exact ⟨hs, by simpa [reqsOf] using hacc⟩

/-- **C11_whole.** Whenever modes are returned, frequency, damping, shape and (if given) the three
    covariances of the `k`-th returned mode are the entries of **one** cell `(r, order)` — the same `r`
    in every table. -/
theorem C11_whole {order : MpeOrder} (hex : order ≠ .findMin) {out : MpeOut}
    (h : ssiMpe freq Fn Xi Phi order Lab rtol cov = .ok out) :
    ∃ cells : List (Nat × Nat), cells = mpeCells Fn (chkOwn rtol) (reqsOf freq order) ∧
      out.acc.fn = cells.map (fun c => Fn.e c.1 c.2) ∧
      out.acc.xi = cells.map (fun c => Xi.e c.1 c.2) ∧
      out.acc.phi = cells.map (fun c => ten3Row Phi c.1 c.2) ∧
      (∀ cv, cov = some cv →
        out.acc.fnCov = cells.map (fun c => cv.fn.e c.1 c.2) ∧
        out.acc.xiCov = cells.map (fun c => cv.xi.e c.1 c.2) ∧
        out.acc.phiCov = cells.map (fun c => ten3Row cv.phi c.1 c.2)) ∧
      (cov = none → out.acc.fnCov = [] ∧ out.acc.xiCov = [] ∧ out.acc.phiCov = []) := by
  obtain ⟨_, hacc⟩ := ssi_explicit freq Fn Xi Phi Lab rtol cov hex h
  refine ⟨_, rfl, ?_⟩
  rw [hacc]
  refine ⟨rfl, rfl, rfl, ?_, ?_⟩
  · intro cv hcv; subst hcv; exact ⟨rfl, rfl, rfl⟩
  · intro hcv; subst hcv; exact ⟨rfl, rfl, rfl⟩

/-- **C11_nearest.** Every returned cell `(r, ord)` is the first nearest non-NaN row of column `ord` to one of
    the requests made at that column. -/
theorem C11_nearest (reqs : List (Rat × Option Nat)) (c : Nat × Nat)
    (hc : c ∈ mpeCells Fn (chkOwn rtol) reqs) :
    ∃ fj v, (fj, some c.2) ∈ reqs ∧ IsFirstNearest (fun r => Fn.e r c.2) Fn.r fj c.1 v ∧
      |v - fj| ≤ iscloseAtol + rtol * |fj| := by
  unfold mpeCells at hc
  obtain ⟨q, hq, hsel⟩ := List.mem_filterMap.mp hc
  obtain ⟨fj, ord?⟩ := q
  cases ord? with
  | none => simp at hsel
  | some ord =>
    simp only [Option.bind_some, selCell] at hsel
    cases hidx : nanargminAbs (fun r => Fn.e r ord) Fn.r (some fj) with
    | none => rw [hidx] at hsel; cases hsel
    | some sel =>
      rw [hidx] at hsel
      simp only at hsel
      split at hsel
      · rename_i hchk
        cases hsel
        obtain ⟨v, hv⟩ := (nanargminAbs_some _ _ _ _).mp hidx
        have hval : Fn.e sel ord = some v := hv.2.1
        rw [chkOwn, hval, isclose_some] at hchk
        exact ⟨fj, v, hq, hv, hchk⟩
      · cases hsel

/-- **C11_only_if_close.** With every request servable (its column holds a retained pole), the returned cells
    are exactly: for each request in turn, the first nearest retained pole of its column **iff** it is
    `isclose` to *that* request — nothing for a request whose nearest pole is not close. -/
theorem C11_only_if_close : ∀ (reqs : List (Rat × Option Nat)), (∀ q ∈ reqs, Servable Fn q) →
    Extracted Fn rtol reqs (mpeCells Fn (chkOwn rtol) reqs) := by
  intro reqs
  induction reqs with
  | nil => intro _; exact Extracted.nil
  | cons q rest ih =>
    intro hs
    obtain ⟨fj, ord?⟩ := q
    have hrest := ih (fun q hq => hs q (List.mem_cons_of_mem _ hq))
    obtain ⟨ord, ho, _, r0, hr0, hne⟩ := hs (fj, ord?) List.mem_cons_self
    simp only at ho
    subst ho
    cases hidx : nanargminAbs (fun r => Fn.e r ord) Fn.r (some fj) with
    | none => exact absurd ((nanargminAbs_none _ _ _).mp hidx r0 hr0) hne
    | some sel =>
      obtain ⟨v, hv⟩ := (nanargminAbs_some _ _ _ _).mp hidx
      have hval : Fn.e sel ord = some v := hv.2.1
      by_cases hclose : |v - fj| ≤ iscloseAtol + rtol * |fj|
      · have hchk : chkOwn rtol fj (Fn.e sel ord) = true := by
          rw [chkOwn, hval, isclose_some]; exact hclose
        have : mpeCells Fn (chkOwn rtol) ((fj, some ord) :: rest)
            = (sel, ord) :: mpeCells Fn (chkOwn rtol) rest := by
          simp [mpeCells, selCell, hidx, hchk]
        rw [this]
        exact Extracted.close hv hclose hrest
      · have hchk : ¬ chkOwn rtol fj (Fn.e sel ord) = true := by
          rw [chkOwn, hval, isclose_some]; exact hclose
        have : mpeCells Fn (chkOwn rtol) ((fj, some ord) :: rest) = mpeCells Fn (chkOwn rtol) rest := by
          simp [mpeCells, selCell, hidx, hchk]
        rw [this]
        exact Extracted.far hv hclose hrest

/-- `order_out` echoes an explicit request: the `int` itself, `np.array(order)` for a list. -/
theorem C11_order_out_echo {order : MpeOrder} {out : MpeOut}
    (h : ssiMpe freq Fn Xi Phi order Lab rtol cov = .ok out) :
    (∀ o, order = .int o → out.orderOut = .int o) ∧
      (∀ os, order = .list os → out.orderOut = .arr (os.map Int.ofNat)) := by
  unfold ssiMpe ssiMpeWith at h
  constructor
  · intro o ho; subst ho
    simp only at h
    split at h
    · cases h
    · split at h
      · cases h
      · simp only [pure, Except.pure, Except.ok.injEq] at h; subst h; rfl
  · intro os ho; subst ho
    simp only at h
    split at h
    · cases h
    · simp only [pure, Except.pure, Except.ok.injEq] at h; subst h; rfl

/-- the explicit-order call is defined (does not raise) exactly on the property's domain: every requested
    column exists and holds a retained pole (and, for an `int` order, at least one request is made —
    otherwise `order_out` is unbound). -/
theorem C11_error_iff {order : MpeOrder} (hex : order ≠ .findMin) :
    (∃ out, ssiMpe freq Fn Xi Phi order Lab rtol cov = .ok out) ↔
      (∀ q ∈ reqsOf freq order, Servable Fn q) ∧ (∀ o, order = .int o → freq ≠ []) := by
  constructor
  · rintro ⟨out, h⟩
    refine ⟨(ssi_explicit freq Fn Xi Phi Lab rtol cov hex h).1, ?_⟩
    intro o ho hf; subst ho; subst hf
    simp [ssiMpe, ssiMpeWith, mpeLoop, pure, Except.pure, throw, throwThe, MonadExceptOf.throw] at h
  · rintro ⟨hs, hne⟩
    unfold ssiMpe ssiMpeWith
    cases order with
    | findMin => exact absurd rfl hex
    | int o =>
      simp only
      cases hl : mpeLoop Fn Xi Phi cov (chkOwn rtol) (freq.map fun f => (f, some o)) {} with
      | error e =>
        obtain ⟨q, hq, hns⟩ := mpeLoop_error Fn Xi Phi cov (chkOwn rtol) _ _ e hl
        exact absurd (hs q hq) hns
      | ok acc =>
        have : freq.isEmpty = false := by
          cases hf : freq with
          | nil => exact absurd hf (hne o rfl)
          | cons a t => rfl
        simp [this, pure, Except.pure]
    | list os =>
      simp only
      cases hl : mpeLoop Fn Xi Phi cov (chkOwn rtol) (listReqs freq os) {} with
      | error e =>
        obtain ⟨q, hq, hns⟩ := mpeLoop_error Fn Xi Phi cov (chkOwn rtol) _ _ e hl
        exact absurd (hs q hq) hns
      | ok acc => simp [pure, Except.pure]

/-- **pLSCF, explicit orders**: `pLSCF_mpe` runs the same request loop; its `Fn`, `Xi`, `Phi` are read off the
    same cell list `mpeCells` (so `C11_nearest` and `C11_only_if_close` apply verbatim). -/
theorem C11_plscf_whole_nearest_close (deltaf : Rat) {order : MpeOrder} (hex : order ≠ .findMin) {out : MpeOut}
    (h : plscfMpe freq Fn Xi Phi order Lab deltaf rtol = .ok out) :
    (∀ q ∈ reqsOf freq order, Servable Fn q) ∧
      out.acc = accOfCells Fn Xi Phi none (mpeCells Fn (chkOwn rtol) (reqsOf freq order)) ∧
      Extracted Fn rtol (reqsOf freq order) (mpeCells Fn (chkOwn rtol) (reqsOf freq order)) := by
  unfold plscfMpe plscfMpeWith at h
  cases order with
  | findMin => exact absurd rfl hex
  | int o =>
    simp only at h
    cases hl : mpeLoop Fn Xi Phi none (chkOwn rtol) (freq.map fun f => (f, some o)) {} with
    | error e => rw [hl] at h; cases h
    | ok acc =>
      rw [hl] at h
      rw [← accOfCells_nil Fn Xi Phi none] at hl
      obtain ⟨hs, hacc⟩ := mpeLoop_ok Fn Xi Phi none (chkOwn rtol) _ [] acc hl
      simp only [pure, Except.pure, Except.ok.injEq] at h
      subst h
      exact ⟨hs, by simpa [reqsOf] using hacc, C11_only_if_close Fn rtol _ hs⟩
  | list os =>
    simp only at h
    cases hl : mpeLoop Fn Xi Phi none (chkOwn rtol) (listReqs freq os) {} with
    | error e => rw [hl] at h; cases h
    | ok acc =>
      rw [hl] at h
      rw [← accOfCells_nil Fn Xi Phi none] at hl
      obtain ⟨hs, hacc⟩ := mpeLoop_ok Fn Xi Phi none (chkOwn rtol) _ [] acc hl
      simp only [pure, Except.pure, Except.ok.injEq] at h
      subst h
      exact ⟨hs, by simpa [reqsOf] using hacc, C11_only_if_close Fn rtol _ hs⟩

/-- pLSCF `order_out`: the `int` itself (an empty array if nothing is requested); for a list, `order[ii]` for
    the requests made (length `len(sel_freq)`, not `len(order)`). -/
theorem C11_plscf_order_out_echo (deltaf : Rat) {order : MpeOrder} {out : MpeOut}
    (h : plscfMpe freq Fn Xi Phi order Lab deltaf rtol = .ok out) :
    (∀ o, order = .int o → freq ≠ [] → out.orderOut = .int o) ∧
      (∀ os, order = .list os → out.orderOut = .arr ((os.take freq.length).map Int.ofNat)) := by
  unfold plscfMpe plscfMpeWith at h
  constructor
  · intro o ho hne; subst ho
    simp only at h
    split at h
    · cases h
    · simp only [pure, Except.pure, Except.ok.injEq] at h
      subst h
      cases freq with
      | nil => exact absurd rfl hne
      | cons a t => rfl
  · intro os ho; subst ho
    simp only at h
    split at h
    · cases h
    · simp only [pure, Except.pure, Except.ok.injEq] at h; subst h; rfl

/-! ### `find_min` (SSI) -/

/-- outcome of the automatic order search, in terms of the coded column test `ssiQual`
    (`len(unique_poles) == len(freq_ref) and np.allclose(unique_poles, freq_ref, rtol)`). -/
theorem ssi_findmin (L : Mat Int) {out : MpeOut}
    (h : ssiMpe freq Fn Xi Phi .findMin (some L) rtol cov = .ok out) :
    (out.orderOut = .none ∧ out.acc = {} ∧ ∀ i, i < Fn.c → ssiQual (aggClosed Fn L 1 freq rtol) freq rtol i = none) ∨
    (∃ i u, out.orderOut = .int (i : Nat) ∧ i < Fn.c ∧
      ssiQual (aggClosed Fn L 1 freq rtol) freq rtol i = some u ∧
      (∀ i', i' < i → ssiQual (aggClosed Fn L 1 freq rtol) freq rtol i' = none) ∧
      pickLoop (aggClosed Fn L 1 freq rtol) Xi Phi cov i u { fn := u.map some } = .ok out.acc) := by
  unfold ssiMpe ssiMpeWith at h
  simp only at h
  cases hf : firstSome (ssiQual (aggClosed Fn L 1 freq rtol) freq rtol) (aggClosed Fn L 1 freq rtol).c 0 with
  | none =>
    rw [hf] at h
    simp only [pure, Except.pure, Except.ok.injEq] at h
    subst h
    left
    refine ⟨rfl, rfl, ?_⟩
    intro i hi
    exact (firstSome_none _ _ _).mp hf i (Nat.zero_le _) (by simpa [aggClosed] using hi)
  | some iu =>
    obtain ⟨i, u⟩ := iu
    rw [hf] at h
    simp only at h
    obtain ⟨_, hlt, hq, hmin⟩ := (firstSome_some _ _ _ _ _).mp hf
    cases hp : pickLoop (aggClosed Fn L 1 freq rtol) Xi Phi cov i u { fn := u.map some } with
    | error e => rw [hp] at h; cases h
    | ok acc =>
      rw [hp] at h
      simp only [pure, Except.pure, Except.ok.injEq] at h
      subst h
      right
      exact ⟨i, u, rfl, by simpa [aggClosed] using hlt, hq, fun i' hi' => hmin i' (Nat.zero_le _) hi', hp⟩

/-- **C11_find_min (minimality).** The reported order is the least column passing the routine's test;
    no column below it passes. -/
theorem C11_find_min_least (L : Mat Int) {out : MpeOut}
    (h : ssiMpe freq Fn Xi Phi .findMin (some L) rtol cov = .ok out) (i : Nat)
    (hi : out.orderOut = .int (i : Nat)) :
    i < Fn.c ∧ (ssiQual (aggClosed Fn L 1 freq rtol) freq rtol i).isSome ∧
      ∀ i', i' < i → ssiQual (aggClosed Fn L 1 freq rtol) freq rtol i' = none := by
  rcases ssi_findmin freq Fn Xi Phi rtol cov L h with ⟨h0, _⟩ | ⟨i0, u, h0, h1, h2, h3, _⟩
  · rw [h0] at hi; cases hi
  · rw [h0] at hi
    have : i0 = i := by simpa using hi
    subst this
    exact ⟨h1, by simp [h2], h3⟩

/-- no order is reported (`order_out = None`, nothing returned) iff no column passes the test. -/
theorem C11_find_min_none (L : Mat Int) {out : MpeOut}
    (h : ssiMpe freq Fn Xi Phi .findMin (some L) rtol cov = .ok out) :
    (out.orderOut = .none ↔ ∀ i, i < Fn.c → ssiQual (aggClosed Fn L 1 freq rtol) freq rtol i = none) ∧
      (out.orderOut = .none → out.acc = {}) := by
  rcases ssi_findmin freq Fn Xi Phi rtol cov L h with ⟨h0, h1, h2⟩ | ⟨i0, u, h0, h1, h2, _, _⟩
  · exact ⟨⟨fun _ => h2, fun _ => h0⟩, fun _ => h1⟩
  · refine ⟨⟨fun hn => ?_, fun hall => ?_⟩, fun hn => ?_⟩
    · rw [h0] at hn; cases hn
    · rw [hall i0 h1] at h2; cases h2
    · rw [h0] at hn; cases hn

theorem MpeAcc.eq_of_fields {a b : MpeAcc} (h1 : a.fn = b.fn) (h2 : a.xi = b.xi) (h3 : a.phi = b.phi)
    (h4 : a.fnCov = b.fnCov) (h5 : a.xiCov = b.xiCov) (h6 : a.phiCov = b.phiCov) : a = b := by
  cases a; cases b; simp only at *; subst h1 h2 h3 h4 h5 h6; rfl

/-- **C11_find_min (every parameter from that order, exactly one stable pole per request).**
    With the requests ascending and their bands `[f − rtol, f + rtol]` disjoint, a reported order `i` comes
    with rows `r_0 … r_{n−1}` (one per requested frequency) such that
    * all six returned lists are read off the cells `(r_k, i)` — frequency, damping, shape, covariances of
      the `k`-th mode from the same pole of order `i`;
    * each `(r_k, i)` is labelled stable, lies in a band and is `isclose` to the `k`-th request;
    * every stable pole of order `i` inside a band has the frequency of one of them (no second distinct
      stable frequency competes). -/
theorem C11_find_min_from_order (L : Mat Int) (hd : BandsDisjoint freq rtol) {out : MpeOut}
    (h : ssiMpe freq Fn Xi Phi .findMin (some L) rtol cov = .ok out) (i : Nat)
    (hi : out.orderOut = .int (i : Nat)) :
    ∃ rows : List Nat, rows.length = freq.length ∧
      out.acc = accOfCells Fn Xi Phi cov (rows.map fun r => (r, i)) ∧
      (∀ r ∈ rows, r < Fn.r ∧ L.e r i = 1) ∧
      (∀ k (h1 : k < rows.length) (h2 : k < freq.length), ∃ v, Fn.e rows[k] i = some v ∧
        |v - freq[k]| ≤ iscloseAtol + rtol * |freq[k]| ∧ InSomeBand freq rtol v) ∧
      (∀ r v, r < Fn.r → L.e r i = 1 → Fn.e r i = some v → v ≠ 0 → InSomeBand freq rtol v →
        ∃ r' ∈ rows, Fn.e r' i = some v) := by
  rcases ssi_findmin freq Fn Xi Phi rtol cov L h with ⟨h0, _⟩ | ⟨i0, u, h0, _, hq, _, hp⟩
  · rw [h0] at hi; cases hi
  rw [h0] at hi
  have : i0 = i := by simpa using hi
  subst this
  set agg := aggClosed Fn L 1 freq rtol with hagg
  -- what the column test says
  unfold ssiQual at hq
  simp only at hq
  split at hq
  swap
  · cases hq
  rename_i hcond
  simp only [Option.some.injEq] at hq
  rw [Bool.and_eq_true, decide_eq_true_eq] at hcond
  obtain ⟨hlen, hclose⟩ := hcond
  rw [hq] at hlen hclose
  have hmemu : ∀ f, f ∈ u ↔ ∃ r, r < agg.r ∧ agg.e r i0 = some f := by
    intro f; rw [← hq]; exact mem_uniqueNonNan _ _ _
  -- the row picked for each value
  have hrow : ∀ f ∈ u, ∃ r, nanargminAbs (fun r => agg.e r i0) agg.r (some f) = some r ∧ r < Fn.r ∧
      L.e r i0 = 1 ∧ Fn.e r i0 = some f ∧ f ≠ 0 ∧ InSomeBand freq rtol f := by
    intro f hf
    obtain ⟨r, hr, hlt, hval, _⟩ := nanargminAbs_of_mem (fun r => agg.e r i0) agg.r f ((hmemu f).mp hf)
    obtain ⟨a, b, c, d⟩ := (aggClosed_some Fn L 1 freq rtol hd r i0 f).mp hval
    exact ⟨r, hr, hlt, a, b, c, d⟩
  obtain ⟨_, a1, a2, a3, a4, a5, a6⟩ := pickLoop_ok agg Xi Phi cov i0 u _ _ hp
  have hrows_fn : ∀ f ∈ u, Fn.e ((nanargminAbs (fun r => agg.e r i0) agg.r (some f)).getD 0) i0 = some f := by
    intro f hf
    obtain ⟨r, hr, _, _, hfn, _⟩ := hrow f hf
    rw [hr]; exact hfn
  refine ⟨pickRows agg i0 u, by simp [pickRows, hlen], ?_, ?_, ?_, ?_⟩
  · apply MpeAcc.eq_of_fields
    · rw [a1]
      simp only [accOfCells, pickRows, List.map_map]
      apply List.map_congr_left
      intro f hf
      exact (hrows_fn f hf).symm
    · rw [a2]; simp [accOfCells, List.map_map, Function.comp_def]
    · rw [a3]; simp [accOfCells, List.map_map, Function.comp_def]
    · rw [a4]; cases cov <;> simp [accOfCells, List.map_map, Function.comp_def]
    · rw [a5]; cases cov <;> simp [accOfCells, List.map_map, Function.comp_def]
    · rw [a6]; cases cov <;> simp [accOfCells, List.map_map, Function.comp_def]
  · intro r hr
    simp only [pickRows, List.mem_map] at hr
    obtain ⟨f, hf, rfl⟩ := hr
    obtain ⟨r, hr, hlt, hl, _⟩ := hrow f hf
    rw [hr]; exact ⟨hlt, hl⟩
  · intro k h1 h2
    have hk : k < u.length := by simpa [pickRows] using h1
    have hget : (pickRows agg i0 u)[k] = (nanargminAbs (fun r => agg.e r i0) agg.r (some u[k])).getD 0 := by
      simp [pickRows]
    have hmem : u[k] ∈ u := List.getElem_mem hk
    obtain ⟨r, hr, _, _, hfn, _, hband⟩ := hrow u[k] hmem
    refine ⟨u[k], ?_, ?_, hband⟩
    · rw [hget, hr]; exact hfn
    · exact (isclose_some _ _ _).mp ((allcloseL_iff rtol u freq hlen).mp hclose k hk h2)
  · intro r v hr hl hfn hv hband
    have hval : agg.e r i0 = some v := (aggClosed_some Fn L 1 freq rtol hd r i0 v).mpr ⟨hl, hfn, hv, hband⟩
    have hvu : v ∈ u := (hmemu v).mpr ⟨r, hr, hval⟩
    refine ⟨(nanargminAbs (fun r => agg.e r i0) agg.r (some v)).getD 0, ?_, hrows_fn v hvu⟩
    simp only [pickRows, List.mem_map]
    exact ⟨v, hvu, rfl⟩

/-- `v` is the frequency of a retained, non-zero pole of column `i` labelled stable -/
def StableVal (Fn : Mat NR) (L : Mat Int) (i : Nat) (v : Rat) : Prop :=
  ∃ r, r < Fn.r ∧ L.e r i = 1 ∧ Fn.e r i = some v ∧ v ≠ 0

/-- requests ascending with pairwise disjoint `np.isclose` regions -/
def CloseDisjoint (freq : List Rat) (rtol : Rat) : Prop :=
  freq.Pairwise (fun f g => f + (iscloseAtol + rtol * |f|) < g - (iscloseAtol + rtol * |g|))

/-- **C11_find_min (what the column test means).** With requests ascending, bands `[f − rtol, f + rtol]`
    disjoint and `isclose` regions disjoint, column `i` passes the routine's test
    (`len(unique) == len(freq_ref) and allclose`) **iff** its distinct stable in-band frequencies are exactly one
    per requested frequency, the `k`-th being `isclose` to the `k`-th request.  Together with
    `C11_find_min_least` / `C11_find_min_none`: the reported order is the lowest such order, and `None` is
    reported iff there is none. -/
theorem C11_find_min_qual_iff (L : Mat Int) (hd : BandsDisjoint freq rtol) (hcd : CloseDisjoint freq rtol) (i : Nat) :
    (ssiQual (aggClosed Fn L 1 freq rtol) freq rtol i).isSome ↔
      ∃ vs : List Rat, vs.length = freq.length ∧
        (∀ k (h1 : k < vs.length) (h2 : k < freq.length), StableVal Fn L i vs[k] ∧ InSomeBand freq rtol vs[k] ∧
          |vs[k] - freq[k]| ≤ iscloseAtol + rtol * |freq[k]|) ∧
        (∀ v, StableVal Fn L i v → InSomeBand freq rtol v → v ∈ vs) := by
  set agg := aggClosed Fn L 1 freq rtol with hagg
  have hmem : ∀ v, v ∈ uniqueNonNan (fun r => agg.e r i) agg.r ↔ StableVal Fn L i v ∧ InSomeBand freq rtol v := by
    intro v
    rw [mem_uniqueNonNan]
    constructor
    · rintro ⟨r, hr, hval⟩
      obtain ⟨a, b, c, d⟩ := (aggClosed_some Fn L 1 freq rtol hd r i v).mp hval
      exact ⟨⟨r, hr, a, b, c⟩, d⟩
    · rintro ⟨⟨r, hr, a, b, c⟩, d⟩
      exact ⟨r, hr, (aggClosed_some Fn L 1 freq rtol hd r i v).mpr ⟨a, b, c, d⟩⟩
  constructor
  · intro hq
    unfold ssiQual at hq
    simp only at hq
    split at hq
    swap
    · cases hq
    rename_i hcond
    rw [Bool.and_eq_true, decide_eq_true_eq] at hcond
    obtain ⟨hlen, hclose⟩ := hcond
    refine ⟨_, hlen, ?_, ?_⟩
    · intro k h1 h2
      have := (hmem _).mp (List.getElem_mem h1)
      exact ⟨this.1, this.2, (isclose_some _ _ _).mp ((allcloseL_iff rtol _ freq hlen).mp hclose k h1 h2)⟩
    · intro v h1 h2; exact (hmem v).mpr ⟨h1, h2⟩
  · rintro ⟨vs, hlen, hk, hall⟩
    -- `vs` is strictly ascending
    have hvs : vs.Pairwise (· < ·) := by
      rw [List.pairwise_iff_getElem]
      intro a b ha hb hab
      have hfa : a < freq.length := by omega
      have hfb : b < freq.length := by omega
      have h1 := (hk a ha hfa).2.2
      have h2 := (hk b hb hfb).2.2
      have h3 := (List.pairwise_iff_getElem.mp hcd) a b hfa hfb hab
      have e1 := (abs_le.mp h1).2
      have e2 := (abs_le.mp h2).1
      linarith
    have heq : uniqueNonNan (fun r => agg.e r i) agg.r = vs := by
      apply sorted_ext _ _ (uniqueSorted_sorted _) hvs
      intro x
      show x ∈ uniqueNonNan (fun r => agg.e r i) agg.r ↔ x ∈ vs
      rw [hmem]
      constructor
      · rintro ⟨h1, h2⟩; exact hall x h1 h2
      · intro hx
        obtain ⟨k, hk1, rfl⟩ := List.getElem_of_mem hx
        have := hk k hk1 (by omega)
        exact ⟨this.1, this.2.1⟩
    unfold ssiQual
    simp only [heq, hlen, decide_true, Bool.true_and]
    have : allcloseL vs freq rtol = true := by
      rw [allcloseL_iff rtol vs freq hlen]
      intro k h1 h2
      exact (isclose_some _ _ _).mpr (hk k h1 h2).2.2
    simp [this]

/-! ### `find_min` (pLSCF): the pinned routine never finds an order (defect F6) -/

/-- **`…_partial` for `pLSCF_mpe(order="find_min")`.** The routine selects poles labelled `7`; the labels
    `SC_apply` produces are `0`/`1`.  So on any label table without a `7`, whatever the poles are, it returns
    no mode at all and reports the order `columns − 2`.  What is missing w.r.t. the property: everything — the
    statement "lowest order with exactly one stable pole per request" is false for this routine
    (witness in `Mutants/C11.lean`); the repair `Lab == 1` contradicts the pinned unit test
    `test_pLSCF_mpe[find_min-1]`, so the routine is modelled as it stands. -/
theorem C11_plscf_find_min_never_finds_partial (L : Mat Int) (deltaf : Rat)
    (hL : ∀ r o, L.e r o ≠ 7) (hne : freq ≠ []) (hc : 0 < Fn.c) :
    plscfMpe freq Fn Xi Phi .findMin (some L) deltaf rtol = .ok ⟨{}, .int ((Fn.c : Int) - 1 - 1)⟩ := by
  unfold plscfMpe plscfMpeWith
  have hemp : freq.isEmpty = false := by
    cases freq with
    | nil => exact absurd rfl hne
    | cons a t => rfl
  have hnan : ∀ r o, (aggOpen Fn L 7 freq deltaf).e r o = none := aggOpen_none Fn L 7 freq deltaf hL
  have hcc : (aggOpen Fn L 7 freq deltaf).c = Fn.c := rfl
  have hw := plscfWhile_allNan (aggOpen Fn L 7 freq deltaf) freq rtol hne hnan
    (aggOpen Fn L 7 freq deltaf).c 0 (by rw [hcc]; exact hc) (by simp)
  simp only [hemp, Bool.false_eq_true, if_false, hcc, Nat.ne_of_gt hc, hw]
  rw [hcc] at hw
  have hcol : ∀ col, nonNan (fun r => (aggOpen Fn L 7 freq deltaf).e r col) (aggOpen Fn L 7 freq deltaf).r = [] := by
    intro col
    unfold nonNan
    rw [List.filterMap_eq_nil_iff]
    intro a _; exact hnan a col
  simp only [hw, hcol, List.any_nil, Bool.false_eq_true, if_false, List.map_nil, pure, Except.pure]
  congr 3
  omega

/-! ### Non-vacuity -/
/-- three orders, three rows; the pole near 2 Hz is present at every order, the one near 5 Hz from order 1 on. -/
def exFn : Mat NR := ⟨3, 3, fun r o =>
  if r = 0 then some (2 + (o : Rat) / 100) else if r = 1 then (if o = 0 then none else some (5 + (o : Rat) / 50)) else
  if o = 2 then some 9 else none⟩
def exXi : Mat NR := ⟨3, 3, fun r o => some (((r : Rat) + 1) / 100 + (o : Rat) / 1000)⟩
def exPhi : Ten3 (Option CQ) := ⟨3, 3, 2, fun r o k => some ((r : Rat) + k, (o : Rat))⟩
def exLab : Mat Int := ⟨3, 3, fun r o => if o = 0 then 0 else if r = 2 then 0 else 1⟩
def exCov : MpeCov := ⟨exXi, exFn, ⟨3, 3, 2, fun r o k => some ((r : Rat) + o + k)⟩⟩

def outSummary (r : Except String MpeOut) : Option (List NR × List NR × OrderOut) :=
  match r with
  | .ok out => some (out.acc.fn, out.acc.xi, out.orderOut)
  | .error _ => none

/-- explicit order 1, requests 2.0 and 5.4 (the latter not within 5 % of 5.02): only the first is returned -/
example : outSummary (ssiMpe [2, 27 / 5] exFn exXi exPhi (.int 1) none (1 / 20) (some exCov))
    = some ([some (201 / 100)], [some (11 / 1000)], .int 1) := by decide +kernel
example : outSummary (ssiMpe [2, 5] exFn exXi exPhi (.list [0, 2]) none (1 / 20) none)
    = some ([some 2, some (126 / 25)], [some (1 / 100), some (11 / 500)], .arr [0, 2]) := by decide +kernel
/-- `find_min`: order 0 has no stable pole, order 1 has exactly one per request -/
example : outSummary (ssiMpe [2, 5] exFn exXi exPhi .findMin (some exLab) (1 / 20) (some exCov))
    = some ([some (201 / 100), some (251 / 50)], [some (11 / 1000), some (21 / 1000)], .int 1) := by decide +kernel
example : BandsDisjoint [2, 5] (1 / 20) := by
  unfold BandsDisjoint; simp only [List.pairwise_cons, List.mem_cons, List.mem_nil_iff]; norm_num
example : CloseDisjoint [2, 5] (1 / 20) := by
  unfold CloseDisjoint iscloseAtol; simp only [List.pairwise_cons, List.mem_cons, List.mem_nil_iff]; norm_num
example : Servable exFn (2, some 0) ∧ Servable exFn (5, some 2) :=
  ⟨⟨0, rfl, by decide, 0, by decide, by decide +kernel⟩, ⟨2, rfl, by decide, 1, by decide, by decide +kernel⟩⟩
example : ∀ r o, exLab.e r o ≠ 7 := by
  intro r o; simp only [exLab]; split <;> [decide; (split <;> decide)]

end PV.C11
