import PyomaVerif.Props.C18
import PyomaVerif.Props.C10
import PyomaVerif.Model.Efdd
/-!
# The three models of `gen.MAC` are one function (depth round, audit gap 10)

`gen.MAC` is modelled three times: `PV.macEntry?` / `PV.mac` (Model/Indicators, C18 — the
faithful one, with Python's left-to-right parse of the denominator), `PV.scMac` (Model/Stab,
the 1-D call inside `gen.SC_apply`, C10, on `Option (ℚ × ℚ)` components with NaN) and
`PV.Efdd.mac` (Model/Efdd, the MAC filter of `SDOF_bellandMS`, C07, over `PV.Fdd.Cx`).  The
theorems below tie the second and the third to the first, so that a theorem or a
correspondence stream about one of them is about all three.
-/
namespace PV.C18
open PV Finset
set_option linter.unusedSectionVars false

/-! ## `scMac` (C10) -/

/-- a Gaussian rational of `Model/Stab` as a `Cx ℚ` of `Model/Indicators` -/
def cqToCx (z : CQ) : Cx ℚ := ⟨z.1, z.2⟩

/-- **`scMac` is `macEntry?`** on shapes without NaN components (with a NaN component
    `scMac` is NaN: `scMac_nan_left`, `scMac_nan_right`). -/
theorem C18_scMac_eq_macEntry (d : Nat) (x y : Nat → Option CQ) (xs ys : Nat → CQ)
    (hx : ∀ k, k < d → x k = some (xs k)) (hy : ∀ k, k < d → y k = some (ys k)) :
    scMac d x y = macEntry? d (fun k => cqToCx (xs k)) (fun k => cqToCx (ys k)) := by
  have h := PV.C10.C10_mac_formula d x y xs ys hx hy
  simp only at h
  have e1 : nrm d (fun k => cqToCx (xs k)) = ∑ k ∈ range d, ((xs k).1 * (xs k).1 + (xs k).2 * (xs k).2) := rfl
  have e2 : nrm d (fun k => cqToCx (ys k)) = ∑ k ∈ range d, ((ys k).1 * (ys k).1 + (ys k).2 * (ys k).2) := rfl
  have e3 : pre d (fun k => cqToCx (xs k)) (fun k => cqToCx (ys k))
      = ∑ k ∈ range d, ((xs k).1 * (ys k).1 + (xs k).2 * (ys k).2) := rfl
  have e4 : pim d (fun k => cqToCx (xs k)) (fun k => cqToCx (ys k))
      = ∑ k ∈ range d, ((xs k).1 * (ys k).2 - (xs k).2 * (ys k).1) := rfl
  rw [h, macEntry?_eq, e1, e2, e3, e4]
  by_cases h0 : (∑ k ∈ range d, ((xs k).1 * (xs k).1 + (xs k).2 * (xs k).2))
      * ∑ k ∈ range d, ((ys k).1 * (ys k).1 + (ys k).2 * (ys k).2) = 0
  · rw [if_pos h0, if_pos h0]
  · rw [if_neg h0, if_neg h0]; congr 1; ring

/-- … hence the value `gen.SC_apply` compares with `err_phi` is the model of the 1-D call
    `gen.MAC(x, y)` (scalar result, no exception). -/
theorem C18_scMac_eq_mac (d : Nat) (x y : Nat → Option CQ) (xs ys : Nat → CQ)
    (hx : ∀ k, k < d → x k = some (xs k)) (hy : ∀ k, k < d → y k = some (ys k)) :
    mac (.vec d fun k => cqToCx (xs k)) (.vec d fun k => cqToCx (ys k))
      = .ok (.scalar (scMac d x y)) := by
  rw [C18_mac_vec, C18_scMac_eq_macEntry d x y xs ys hx hy]

/-! ## `Efdd.mac` (C07) -/
section efdd
variable {K : Type}

/-- a complex number of `Model/Fdd` as one of `Model/Indicators` (same pair) -/
def ofFdd (z : PV.Fdd.Cx K) : Cx K := ⟨z.re, z.im⟩

private theorem foldl_ofFdd [Add K] (f : Nat → PV.Fdd.Cx K) (l : List Nat) (acc : PV.Fdd.Cx K) :
    ofFdd (l.foldl (fun a i => a + f i) acc) = l.foldl (fun a i => a + ofFdd (f i)) (ofFdd acc) := by
  induction l generalizing acc with
  | nil => rfl
  | cons h t ih => simp only [List.foldl_cons]; rw [ih]; rfl

theorem sumTo_ofFdd [Zero K] [Add K] (n : Nat) (f : Nat → PV.Fdd.Cx K) :
    ofFdd (sumTo n f) = sumTo n fun k => ofFdd (f k) := by
  unfold sumTo; rw [foldl_ofFdd]; rfl

/-- the two denominators `conj(x) @ x * conj(a) @ a` are the same sum, term by term -/
theorem efdd_den [Zero K] [Add K] [Sub K] [Mul K] [Neg K] (n : Nat) (x a : Nat → PV.Fdd.Cx K) :
    ofFdd (sumTo n fun i => (PV.Efdd.cdot n x x * (a i).conj) * a i)
      = sumTo n fun k => (dotc n (fun k => ofFdd (x k)) (fun k => ofFdd (x k)) * Cx.conj (ofFdd (a k)))
          * ofFdd (a k) := by
  rw [sumTo_ofFdd]
  have hd : ofFdd (PV.Efdd.cdot n x x) = dotc n (fun k => ofFdd (x k)) (fun k => ofFdd (x k)) := by
    unfold PV.Efdd.cdot dotc; rw [sumTo_ofFdd]; rfl
  congr 1
  funext k
  rw [← hd]; rfl

theorem efdd_num [Zero K] [Add K] [Sub K] [Mul K] [Neg K] (n : Nat) (x a : Nat → PV.Fdd.Cx K) :
    (PV.Efdd.cdot n x a).normSq = Cx.normSq (dotc n (fun k => ofFdd (x k)) (fun k => ofFdd (a k))) := by
  have hd : ofFdd (PV.Efdd.cdot n x a) = dotc n (fun k => ofFdd (x k)) (fun k => ofFdd (a k)) := by
    unfold PV.Efdd.cdot dotc; rw [sumTo_ofFdd]; rfl
  rw [← hd]; rfl

/-- `macEntry?` on the transported shapes, written with the pieces of `Efdd.mac` -/
theorem macEntry?_ofFdd [Zero K] [Add K] [Sub K] [Mul K] [Neg K] [Div K] [DecidableEq K]
    (n : Nat) (x a : Nat → PV.Fdd.Cx K) :
    macEntry? n (fun k => ofFdd (x k)) (fun k => ofFdd (a k))
      = (Cx.div? ⟨(PV.Efdd.cdot n x a).normSq, 0⟩
          (ofFdd (sumTo n fun i => (PV.Efdd.cdot n x x * (a i).conj) * a i))).map Cx.re := by
  rw [efdd_den, efdd_num]
  rfl

/-- **`Efdd.mac` is `macEntry?`**, structurally (any scalar type, no algebra): where
    `macEntry?` is a number it is `Efdd.mac`; `macEntry? = none` is the division by a zero
    denominator, which `Efdd.mac` (written with the field's `/`) does not represent. -/
theorem C18_efddMac_eq_macEntry [Zero K] [Add K] [Sub K] [Mul K] [Neg K] [Div K] [DecidableEq K]
    (n : Nat) (x a : Nat → PV.Fdd.Cx K) (q : K)
    (h : macEntry? n (fun k => ofFdd (x k)) (fun k => ofFdd (a k)) = some q) :
    PV.Efdd.mac n x a = q := by
  rw [macEntry?_ofFdd] at h
  unfold Cx.div? at h
  split_ifs at h with h0
  · simp at h
  · simp only [Option.map_some, Option.some.injEq] at h
    rw [← h]
    rfl

end efdd

/-- over a field (where `x / 0 = 0`): `Efdd.mac = macEntry?` with `none ↦ 0`. -/
theorem C18_efddMac_getD {K : Type} [Field K] [LinearOrder K] [IsStrictOrderedRing K]
    (n : Nat) (x a : Nat → PV.Fdd.Cx K) :
    PV.Efdd.mac n x a = (macEntry? n (fun k => ofFdd (x k)) (fun k => ofFdd (a k))).getD 0 := by
  cases hq : macEntry? n (fun k => ofFdd (x k)) (fun k => ofFdd (a k)) with
  | some q => exact C18_efddMac_eq_macEntry n x a q hq
  | none =>
    rw [macEntry?_ofFdd] at hq
    unfold Cx.div? at hq
    split_ifs at hq with h0
    · have h0' : PV.Fdd.Cx.normSq (sumTo n fun i => (PV.Efdd.cdot n x x * (a i).conj) * a i) = 0 := h0
      show _ / PV.Fdd.Cx.normSq (sumTo n fun i => (PV.Efdd.cdot n x x * (a i).conj) * a i) = 0
      rw [h0', div_zero]
    · simp at hq

/-! ## Non-vacuity -/
section examples
def exXs : Nat → CQ := fun k => ((k : ℚ) + 1, (k : ℚ) + 2)
def exYs : Nat → CQ := fun k => ((k : ℚ) + 2, (k : ℚ) + 3)
example : scMac 3 (fun k => some (exXs k)) (fun k => some (exYs k)) = some (3373 / 3397) := by
  decide +kernel
example : macEntry? 3 (fun k => cqToCx (exXs k)) (fun k => cqToCx (exYs k)) = some (3373 / 3397) := by
  decide +kernel
def exFx : Nat → PV.Fdd.Cx ℚ := fun k => ⟨(k : ℚ) + 1, (k : ℚ) + 2⟩
def exFa : Nat → PV.Fdd.Cx ℚ := fun k => ⟨(k : ℚ) + 2, (k : ℚ) + 3⟩
example : macEntry? 3 (fun k => ofFdd (exFx k)) (fun k => ofFdd (exFa k)) = some (3373 / 3397) := by
  decide +kernel
end examples

end PV.C18
