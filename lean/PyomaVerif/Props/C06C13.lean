import PyomaVerif.Props.C06
import PyomaVerif.Props.C13
import PyomaVerif.Props.C18
import PyomaVerif.Lemmas.RankOneSpec
import Mathlib.Algebra.Order.Ring.Rat
/-!
# C06 ∘ C13 — the FDD premise, derived from the library's own estimator

Classical FDD starts from "`G(ω) = Φ·S(ω)·Φᵀ`, hence near a mode the spectral matrix is rank
one and its first singular vector is the mode shape".  Here that premise is a *theorem about
the code's estimator*: with C13's models of `fdd.SD_est` (`sdEstPer` — Welch/Hann — and
`sdEstCor` — the correlogram chain — used as they are)

1. channels `x_i(t) = a_i·s(t)` give, at every line and for every segment length, overlap,
   record length and channel count, `G(k) = S(k)·a·aᵀ` with `S(k)` the same estimator applied
   to the scalar signal `s` (`C13_rank_one_*`, from C13's pairing and bilinearity theorems);
2. channels `x = Σ_μ Φ[:,μ]·s_μ(t)` give `G(k) = Φ·S(k)·Φᵀ` with `S(k)` the estimated
   spectral matrix of the scalar signals (`C13_superposition_*`);
3. composed with C06's model of `SD_svalsvec` + `FDD_mpe`: for proportional channels, whatever
   line `FDD_mpe` picks, if `S ≠ 0` there the returned shape is *exactly* `a / a[argmax|a|]`
   (real, largest component 1, MAC 1 with `a`) — under C06's own reading of "first singular
   vector" (`C06_rank_one`: the matrix handed to `np.linalg.svd` equals its leading term
   `s₁·u·vᴴ`; `*_shape_*`), and under the plain LAPACK contract `A = U·diag(S)·Vᴴ`, `S` sorted,
   unit columns (`*_shape_*_svd`).  No hypothesis about the estimator is left.

`toCx` is the identity between the two pair-complex types of the C13 and C06 models (the array
returned by `SD_est` is the array `SD_svalsvec` receives).
-/
set_option linter.unusedSectionVars false
namespace PV.C06C13
open PV Finset

/-- the one-channel record holding the scalar signal `s` -/
def scalarRec {K : Type} (Ndat : Nat) (s : Nat → K) : Mat K := ⟨1, Ndat, fun _ => s⟩

/-- `SD_est(s, s, dt, nxseg, "per", pov)[0, 0, k]`: auto-spectrum of the scalar signal `s` -/
def autoPer {K : Type} [Field K] (s : Nat → K) (Ndat : Nat) (dt : K) (nxseg nov : Nat)
    (tw : Nat → CxS K) (k : Nat) : CxS K :=
  (sdEstPer (scalarRec Ndat s) (scalarRec Ndat s) dt nxseg nov tw).e 0 0 k

/-- `SD_est(s, s, dt, nxseg, "cor")[0, 0, k]` -/
def autoCor {K : Type} [Field K] (s : Nat → K) (Ndat : Nat) (dt : K) (nxseg : Nat)
    (tw tw2 : Nat → CxS K) (ew : Nat → K) (k : Nat) : CxS K :=
  (sdEstCor (scalarRec Ndat s) (scalarRec Ndat s) dt nxseg tw tw2 ew).e 0 0 k

/-! ## 1. rank-one spectrum from proportional channels -/
section rank_one
variable {K : Type} [Field K]

/-- **Entry form ("per").** If row `i` of the data is `aᵢ·s` and row `j` of the reference data
    is `bⱼ·s` (on the `Ndat` samples), entry `(i, j)` of every line is `aᵢ·bⱼ` times the
    auto-spectrum of `s`.  From `C13.sd_pairing_per` and `C13.sd_bilinear_per_smul`. -/
theorem C13_rank_one_per_entry (Yall Yref : Mat K) (s : Nat → K) (ai bj dt : K) (nxseg nov : Nat)
    (tw : Nat → CxS K) (i j k : Nat)
    (hA : ∀ t, t < Yref.c → Yall.e i t = ai * s t)
    (hB : ∀ t, t < Yref.c → Yref.e j t = bj * s t) :
    (sdEstPer Yall Yref dt nxseg nov tw).e i j k
      = CxS.ofReal (ai * bj) * autoPer s Yref.c dt nxseg nov tw k := by
  have h1 := C13.sd_pairing_per (Mat.scale ai ⟨Yall.r, Yref.c, fun _ => s⟩)
    (Mat.scale bj ⟨Yref.r, Yref.c, fun _ => s⟩) Yall Yref dt nxseg nov tw i j k rfl hA hB
  rw [h1, C13.sd_bilinear_per_smul]
  rfl

/-- **Entry form ("cor").** The same for the correlogram chain. -/
theorem C13_rank_one_cor_entry (Yall Yref : Mat K) (s : Nat → K) (ai bj dt : K) (nxseg : Nat)
    (tw tw2 : Nat → CxS K) (ew : Nat → K) (i j k : Nat)
    (hA : ∀ t, t < Yref.c → Yall.e i t = ai * s t)
    (hB : ∀ t, t < Yref.c → Yref.e j t = bj * s t) :
    (sdEstCor Yall Yref dt nxseg tw tw2 ew).e i j k
      = CxS.ofReal (ai * bj) * autoCor s Yref.c dt nxseg tw tw2 ew k := by
  have h1 := C13.sd_pairing_cor (Mat.scale ai ⟨Yall.r, Yref.c, fun _ => s⟩)
    (Mat.scale bj ⟨Yref.r, Yref.c, fun _ => s⟩) Yall Yref dt nxseg tw tw2 ew i j k rfl hA hB
  rw [h1, C13.sd_bilinear_cor_smul]
  rfl

/-- **Rank-one spectrum ("per").** Every channel a real multiple of one signal,
    `Y[i, t] = aᵢ·s[t]`: the estimated spectral matrix `SD_est(Y, Y, …, "per")` is
    `G(k) = S(k)·a·aᵀ` at every line `k`, `S` the estimator on the scalar `s`. -/
theorem C13_rank_one_per (Y : Mat K) (a s : Nat → K)
    (hY : ∀ i, i < Y.r → ∀ t, t < Y.c → Y.e i t = a i * s t) (dt : K) (nxseg nov : Nat)
    (tw : Nat → CxS K) (i j k : Nat) (hi : i < Y.r) (hj : j < Y.r) :
    (sdEstPer Y Y dt nxseg nov tw).e i j k
      = CxS.ofReal (a i * a j) * autoPer s Y.c dt nxseg nov tw k :=
  C13_rank_one_per_entry Y Y s (a i) (a j) dt nxseg nov tw i j k (hY i hi) (hY j hj)

/-- **Rank-one spectrum ("cor").** -/
theorem C13_rank_one_cor (Y : Mat K) (a s : Nat → K)
    (hY : ∀ i, i < Y.r → ∀ t, t < Y.c → Y.e i t = a i * s t) (dt : K) (nxseg : Nat)
    (tw tw2 : Nat → CxS K) (ew : Nat → K) (i j k : Nat) (hi : i < Y.r) (hj : j < Y.r) :
    (sdEstCor Y Y dt nxseg tw tw2 ew).e i j k
      = CxS.ofReal (a i * a j) * autoCor s Y.c dt nxseg tw tw2 ew k :=
  C13_rank_one_cor_entry Y Y s (a i) (a j) dt nxseg tw tw2 ew i j k (hY i hi) (hY j hj)

/-! ## 2. superposition: `G(k) = Φ·S(k)·Ψᵀ` -/

/-- **Superposition ("per").** Data rows `Σ_μ Φ[i,μ]·s_μ`, reference rows `Σ_ν Ψ[j,ν]·s_ν`
    (`s_μ` the rows of `Sg`): every line of the estimate is `Φ·S(k)·Ψᵀ`, `S(k)` the estimated
    spectral matrix `SD_est(Sg, Sg, …)` of the scalar signals (auto- and cross-spectra). -/
theorem C13_superposition_per (Yall Yref Sg : Mat K) (Φ Ψ : Nat → Nat → K) (hc : Sg.c = Yref.c)
    (hA : ∀ i, i < Yall.r → ∀ t, t < Yref.c → Yall.e i t = ∑ μ ∈ range Sg.r, Φ i μ * Sg.e μ t)
    (hB : ∀ j, j < Yref.r → ∀ t, t < Yref.c → Yref.e j t = ∑ ν ∈ range Sg.r, Ψ j ν * Sg.e ν t)
    (dt : K) (nxseg nov : Nat) (tw : Nat → CxS K) (i j k : Nat) (hi : i < Yall.r) (hj : j < Yref.r) :
    (sdEstPer Yall Yref dt nxseg nov tw).e i j k
      = ∑ μ ∈ range Sg.r, ∑ ν ∈ range Sg.r,
          CxS.ofReal (Φ i μ) * (sdEstPer Sg Sg dt nxseg nov tw).e μ ν k * CxS.ofReal (Ψ j ν) := by
  have h1 := C13.sd_pairing_per
    (⟨Yall.r, Yref.c, fun i t => ∑ μ ∈ range Sg.r, Φ i μ * Sg.e μ t⟩ : Mat K)
    ⟨Yref.r, Yref.c, fun j t => ∑ ν ∈ range Sg.r, Ψ j ν * Sg.e ν t⟩ Yall Yref dt nxseg nov tw i j k
    rfl (hA i hi) (hB j hj)
  rw [h1, C13.sd_pairing_per_entry]
  show (welchCsd (fun t => ∑ μ ∈ range Sg.r, Φ i μ * Sg.e μ t)
    (fun t => ∑ ν ∈ range Sg.r, Ψ j ν * Sg.e ν t) Yref.c (1 / dt) (hann tw) nxseg nov nxseg tw).val k = _
  rw [welchCsd_lin]
  apply sum_congr rfl; intro μ _
  apply sum_congr rfl; intro ν _
  rw [C13.sd_pairing_per_entry, hc, CxS.ofReal_mul]; ring

/-- **Superposition ("cor").** -/
theorem C13_superposition_cor (Yall Yref Sg : Mat K) (Φ Ψ : Nat → Nat → K) (hc : Sg.c = Yref.c)
    (hA : ∀ i, i < Yall.r → ∀ t, t < Yref.c → Yall.e i t = ∑ μ ∈ range Sg.r, Φ i μ * Sg.e μ t)
    (hB : ∀ j, j < Yref.r → ∀ t, t < Yref.c → Yref.e j t = ∑ ν ∈ range Sg.r, Ψ j ν * Sg.e ν t)
    (dt : K) (nxseg : Nat) (tw tw2 : Nat → CxS K) (ew : Nat → K) (i j k : Nat)
    (hi : i < Yall.r) (hj : j < Yref.r) :
    (sdEstCor Yall Yref dt nxseg tw tw2 ew).e i j k
      = ∑ μ ∈ range Sg.r, ∑ ν ∈ range Sg.r,
          CxS.ofReal (Φ i μ) * (sdEstCor Sg Sg dt nxseg tw tw2 ew).e μ ν k * CxS.ofReal (Ψ j ν) := by
  have h1 := C13.sd_pairing_cor
    (⟨Yall.r, Yref.c, fun i t => ∑ μ ∈ range Sg.r, Φ i μ * Sg.e μ t⟩ : Mat K)
    ⟨Yref.r, Yref.c, fun j t => ∑ ν ∈ range Sg.r, Ψ j ν * Sg.e ν t⟩ Yall Yref dt nxseg tw tw2 ew i j k
    rfl (hA i hi) (hB j hj)
  rw [h1]
  have hP : corPxy (⟨Yall.r, Yref.c, fun i t => ∑ μ ∈ range Sg.r, Φ i μ * Sg.e μ t⟩ : Mat K)
      ⟨Yref.r, Yref.c, fun j t => ∑ ν ∈ range Sg.r, Ψ j ν * Sg.e ν t⟩ nxseg tw i j
      = fun q => ∑ μ ∈ range Sg.r, ∑ ν ∈ range Sg.r,
          CxS.ofReal (Φ i μ * Ψ j ν) * corPxy Sg Sg nxseg tw μ ν q := by
    funext q
    show (welchCsd (fun t => ∑ μ ∈ range Sg.r, Φ i μ * Sg.e μ t)
      (fun t => ∑ ν ∈ range Sg.r, Ψ j ν * Sg.e ν t) Yref.c 1 (fun _ => 1) (nxseg / 2) 0 nxseg tw).val q = _
    rw [welchCsd_lin]
    simp only [corPxy, hc]
  simp only [sdEstCor]
  rw [hP, corFromPxy_sum]
  apply sum_congr rfl; intro μ _
  rw [corFromPxy_sum]
  apply sum_congr rfl; intro ν _
  rw [corFromPxy_smul, CxS.ofReal_mul]; ring

end rank_one

/-! ## 3. composition with C06: the shape `FDD_mpe` returns -/
section fdd
variable {K : Type} [Field K] [LinearOrder K] [IsStrictOrderedRing K]

/-- first index of largest `|a|` among the `n` channels (`np.argmax(np.abs(a))`) -/
def amax (n : Nat) (a : Nat → K) : Nat := Fdd.argmaxTo n fun i => a i * a i

/-- the vector `a / a[argmax |a|]` as the list of complex numbers `FDD_mpe` returns -/
def unitShape (n : Nat) (a : Nat → K) : List (Fdd.Cx K) :=
  (List.range n).map fun i => Fdd.Cx.ofReal (a i / a (amax n a))

/-- **From the first left singular vector to the returned shape** (`C06_mode`,
    `C06_convention`, the normalisation): if at the line `FDD_mpe` picks the first column of
    `U` is `w·conj(a)`, `w ≠ 0`, `a` real and not zero, the returned shape is `a / a[argmax|a|]`. -/
theorem fdd_shape_of_first_left (n nref nf : Nat) (freq : Nat → K) (sq : Nat → Nat → K)
    (U : Nat → Nat → Nat → Fdd.Cx K) (DF sel : K) (m : Fdd.ModeOut K) (a : Nat → K)
    (hrun : Fdd.fddOne n nref nf freq (Fdd.svalPlace sq) (Fdd.svecPlace U) DF sel = .ok m)
    (w : Fdd.Cx K) (hw : w ≠ 0)
    (hU : ∀ j, j < n → U m.pick.idx j 0 = w * Fdd.Cx.conj (Fdd.Cx.ofReal (a j)))
    (i0 : Nat) (hi0 : i0 < n) (ha : a i0 ≠ 0) :
    a (amax n a) ≠ 0 ∧ m.phi = some (unitShape n a) := by
  obtain ⟨_, _, hphi⟩ := C06.C06_mode n nref nf freq _ _ DF sel m hrun
  obtain ⟨c, hc, _, hrow⟩ :=
    C06.C06_convention U m.pick.idx n (fun j => Fdd.Cx.ofReal (a j)) w hw hU
  obtain ⟨hak, out, hout, hval⟩ := Fdd.normalise_collinear n
    (fun i => Fdd.svecPlace U 0 i m.pick.idx) c hc a hrow i0 hi0 ha
  refine ⟨hak, ?_⟩
  rw [hphi, hout, Option.map_some]
  congr 1
  exact List.map_congr_left (fun i hi => hval i (List.mem_range.mp hi))

/-- **Rank-one matrix, C06's reading of the SVD.** If the matrix at the picked line is
    `σ·a·aᵀ` (`σ ≠ 0`) and equals the leading term `s₁·u·vᴴ` of what `np.linalg.svd` returned
    for it (`C06.C06_rank_one`), `FDD_mpe` returns `a / a[argmax|a|]`. -/
theorem fdd_shape_of_rank_one (n nref nf : Nat) (freq : Nat → K) (sq : Nat → Nat → K)
    (U : Nat → Nat → Nat → Fdd.Cx K) (DF sel : K) (m : Fdd.ModeOut K) (a : Nat → K)
    (hrun : Fdd.fddOne n nref nf freq (Fdd.svalPlace sq) (Fdd.svecPlace U) DF sel = .ok m)
    (G : Nat → Nat → Nat → CxS K) (σ : CxS K)
    (hG : ∀ i j, i < n → j < n → G i j m.pick.idx = CxS.ofReal (a i * a j) * σ) (hσ : σ ≠ 0)
    (s1 : Fdd.Cx K) (v : Nat → Fdd.Cx K)
    (hsvd : ∀ i j, i < n → j < n →
      toCx (G i j m.pick.idx) = s1 * U m.pick.idx i 0 * Fdd.Cx.conj (v j))
    (i0 : Nat) (hi0 : i0 < n) (ha : a i0 ≠ 0) :
    a (amax n a) ≠ 0 ∧ m.phi = some (unitShape n a) := by
  obtain ⟨w, hw, hu⟩ := C06.C06_rank_one (S := Fdd.Cx K) (ι := Fin n) (toCx σ) s1
    (fun i => Fdd.Cx.ofReal (a i)) (fun i => U m.pick.idx i 0) (fun j => v j)
    (toCx_ne_zero hσ) ⟨i0, hi0⟩ (Fdd.Cx.ofReal_ne_zero ha) (fun i j => by
      rw [Fdd.Cx.star_eq_conj, Fdd.Cx.star_eq_conj, Fdd.Cx.conj_ofReal, ← hsvd i j i.2 j.2,
        hG i j i.2 j.2, toCx_mul, toCx_ofReal, Fdd.Cx.ofReal_mul]
      ring)
  exact fdd_shape_of_first_left n nref nf freq sq U DF sel m a hrun w hw
    (fun j hj => hu ⟨j, hj⟩) i0 hi0 ha

/-- **Rank-one matrix, LAPACK contract.** The same from the contract of `np.linalg.svd` at the
    picked line `k`: `A = U·diag(S)·Vᴴ`, first column of `V` of unit norm and orthogonal to the
    other columns, `0 ≤ S_r ≤ S₀`, first column of `U` of unit norm. -/
theorem fdd_shape_of_rank_one_svd (n nref nf : Nat) (freq : Nat → K) (sq : Nat → Nat → K)
    (U : Nat → Nat → Nat → Fdd.Cx K) (DF sel : K) (m : Fdd.ModeOut K) (a : Nat → K)
    (hrun : Fdd.fddOne n nref nf freq (Fdd.svalPlace sq) (Fdd.svecPlace U) DF sel = .ok m)
    (G : Nat → Nat → Nat → CxS K) (σ : CxS K)
    (hG : ∀ i j, i < n → j < n → G i j m.pick.idx = CxS.ofReal (a i * a j) * σ) (hσ : σ ≠ 0)
    (S : Nat → K) (V : Nat → Nat → Fdd.Cx K)
    (hdec : ∀ i j, i < n → j < n → toCx (G i j m.pick.idx)
      = ∑ r ∈ range n, Fdd.Cx.ofReal (S r) * U m.pick.idx i r * Fdd.Cx.conj (V j r))
    (hV : ∀ r, r < n → ∑ j ∈ range n, Fdd.Cx.conj (V j r) * V j 0 = if r = 0 then 1 else 0)
    (hnn : ∀ r, r < n → 0 ≤ S r) (hord : ∀ r, r < n → S r ≤ S 0)
    (hU : ∑ i ∈ range n, Fdd.Cx.normSq (U m.pick.idx i 0) = 1)
    (i0 : Nat) (hi0 : i0 < n) (ha : a i0 ≠ 0) :
    a (amax n a) ≠ 0 ∧ m.phi = some (unitShape n a) := by
  obtain ⟨w, hw, hu⟩ := Fdd.svd_first_left_of_rank_one n (fun i j => toCx (G i j m.pick.idx))
    (toCx σ) a (fun i j hi hj => by
      show toCx (G i j m.pick.idx) = _
      rw [hG i j hi hj, toCx_mul, toCx_ofReal, Fdd.Cx.ofReal_mul]; ring)
    S (fun i r => U m.pick.idx i r) V hdec hV hnn hord hU (toCx_ne_zero hσ) i0 hi0 ha
  exact fdd_shape_of_first_left n nref nf freq sq U DF sel m a hrun w hw hu i0 hi0 ha

/-! ### the four end-to-end statements: `SD_est` → `SD_svalsvec` → `FDD_mpe` -/

/-- **C06 ∘ C13, "per".** Channels `Y[i,t] = aᵢ·s[t]`; `Sy = SD_est(Y, Y, dt, nxseg, "per", pov)`;
    `Sval, Svec = SD_svalsvec(Sy)` with `sq`, `U` what `np.linalg.svd` returned; one pass of
    `FDD_mpe(Sval, Svec, freq, [sel], DF)` returns `m`.  If the auto-spectrum of `s` is not zero
    at the picked line and the leading SVD term there reproduces `Sy[:,:,k]`, the returned
    shape is `a / a[argmax|a|]`. -/
theorem C06C13_shape_per (Y : Mat K) (a s : Nat → K)
    (hY : ∀ i, i < Y.r → ∀ t, t < Y.c → Y.e i t = a i * s t) (dt : K) (nxseg nov : Nat)
    (tw : Nat → CxS K) (sq : Nat → Nat → K) (U : Nat → Nat → Nat → Fdd.Cx K) (DF sel : K)
    (m : Fdd.ModeOut K)
    (hrun : Fdd.fddOne Y.r Y.r (sdEstPer Y Y dt nxseg nov tw).nf (sdEstPer Y Y dt nxseg nov tw).freq
      (Fdd.svalPlace sq) (Fdd.svecPlace U) DF sel = .ok m)
    (hS : autoPer s Y.c dt nxseg nov tw m.pick.idx ≠ 0)
    (s1 : Fdd.Cx K) (v : Nat → Fdd.Cx K)
    (hsvd : ∀ i j, i < Y.r → j < Y.r → toCx ((sdEstPer Y Y dt nxseg nov tw).e i j m.pick.idx)
      = s1 * U m.pick.idx i 0 * Fdd.Cx.conj (v j))
    (i0 : Nat) (hi0 : i0 < Y.r) (ha : a i0 ≠ 0) :
    a (amax Y.r a) ≠ 0 ∧ m.phi = some (unitShape Y.r a) :=
  fdd_shape_of_rank_one Y.r Y.r _ _ sq U DF sel m a hrun (sdEstPer Y Y dt nxseg nov tw).e _
    (fun i j hi hj => C13_rank_one_per Y a s hY dt nxseg nov tw i j _ hi hj) hS s1 v hsvd i0 hi0 ha

/-- **C06 ∘ C13, "cor".** The same for the correlogram estimator. -/
theorem C06C13_shape_cor (Y : Mat K) (a s : Nat → K)
    (hY : ∀ i, i < Y.r → ∀ t, t < Y.c → Y.e i t = a i * s t) (dt : K) (nxseg : Nat)
    (tw tw2 : Nat → CxS K) (ew : Nat → K) (sq : Nat → Nat → K) (U : Nat → Nat → Nat → Fdd.Cx K)
    (DF sel : K) (m : Fdd.ModeOut K)
    (hrun : Fdd.fddOne Y.r Y.r (sdEstCor Y Y dt nxseg tw tw2 ew).nf
      (sdEstCor Y Y dt nxseg tw tw2 ew).freq (Fdd.svalPlace sq) (Fdd.svecPlace U) DF sel = .ok m)
    (hS : autoCor s Y.c dt nxseg tw tw2 ew m.pick.idx ≠ 0)
    (s1 : Fdd.Cx K) (v : Nat → Fdd.Cx K)
    (hsvd : ∀ i j, i < Y.r → j < Y.r → toCx ((sdEstCor Y Y dt nxseg tw tw2 ew).e i j m.pick.idx)
      = s1 * U m.pick.idx i 0 * Fdd.Cx.conj (v j))
    (i0 : Nat) (hi0 : i0 < Y.r) (ha : a i0 ≠ 0) :
    a (amax Y.r a) ≠ 0 ∧ m.phi = some (unitShape Y.r a) :=
  fdd_shape_of_rank_one Y.r Y.r _ _ sq U DF sel m a hrun (sdEstCor Y Y dt nxseg tw tw2 ew).e _
    (fun i j hi hj => C13_rank_one_cor Y a s hY dt nxseg tw tw2 ew i j _ hi hj) hS s1 v hsvd i0 hi0 ha

/-- **C06 ∘ C13, "per", LAPACK contract.** As `C06C13_shape_per`, with the SVD hypothesis
    replaced by the contract of `np.linalg.svd` for the matrix `Sy[:,:,k]` at the picked line. -/
theorem C06C13_shape_per_svd (Y : Mat K) (a s : Nat → K)
    (hY : ∀ i, i < Y.r → ∀ t, t < Y.c → Y.e i t = a i * s t) (dt : K) (nxseg nov : Nat)
    (tw : Nat → CxS K) (sq : Nat → Nat → K) (U : Nat → Nat → Nat → Fdd.Cx K) (DF sel : K)
    (m : Fdd.ModeOut K)
    (hrun : Fdd.fddOne Y.r Y.r (sdEstPer Y Y dt nxseg nov tw).nf (sdEstPer Y Y dt nxseg nov tw).freq
      (Fdd.svalPlace sq) (Fdd.svecPlace U) DF sel = .ok m)
    (hS : autoPer s Y.c dt nxseg nov tw m.pick.idx ≠ 0)
    (S : Nat → K) (V : Nat → Nat → Fdd.Cx K)
    (hdec : ∀ i j, i < Y.r → j < Y.r → toCx ((sdEstPer Y Y dt nxseg nov tw).e i j m.pick.idx)
      = ∑ r ∈ range Y.r, Fdd.Cx.ofReal (S r) * U m.pick.idx i r * Fdd.Cx.conj (V j r))
    (hV : ∀ r, r < Y.r → ∑ j ∈ range Y.r, Fdd.Cx.conj (V j r) * V j 0 = if r = 0 then 1 else 0)
    (hnn : ∀ r, r < Y.r → 0 ≤ S r) (hord : ∀ r, r < Y.r → S r ≤ S 0)
    (hU : ∑ i ∈ range Y.r, Fdd.Cx.normSq (U m.pick.idx i 0) = 1)
    (i0 : Nat) (hi0 : i0 < Y.r) (ha : a i0 ≠ 0) :
    a (amax Y.r a) ≠ 0 ∧ m.phi = some (unitShape Y.r a) :=
  fdd_shape_of_rank_one_svd Y.r Y.r _ _ sq U DF sel m a hrun (sdEstPer Y Y dt nxseg nov tw).e _
    (fun i j hi hj => C13_rank_one_per Y a s hY dt nxseg nov tw i j _ hi hj) hS S V hdec hV hnn hord
    hU i0 hi0 ha

/-- **C06 ∘ C13, "cor", LAPACK contract.** -/
theorem C06C13_shape_cor_svd (Y : Mat K) (a s : Nat → K)
    (hY : ∀ i, i < Y.r → ∀ t, t < Y.c → Y.e i t = a i * s t) (dt : K) (nxseg : Nat)
    (tw tw2 : Nat → CxS K) (ew : Nat → K) (sq : Nat → Nat → K) (U : Nat → Nat → Nat → Fdd.Cx K)
    (DF sel : K) (m : Fdd.ModeOut K)
    (hrun : Fdd.fddOne Y.r Y.r (sdEstCor Y Y dt nxseg tw tw2 ew).nf
      (sdEstCor Y Y dt nxseg tw tw2 ew).freq (Fdd.svalPlace sq) (Fdd.svecPlace U) DF sel = .ok m)
    (hS : autoCor s Y.c dt nxseg tw tw2 ew m.pick.idx ≠ 0)
    (S : Nat → K) (V : Nat → Nat → Fdd.Cx K)
    (hdec : ∀ i j, i < Y.r → j < Y.r → toCx ((sdEstCor Y Y dt nxseg tw tw2 ew).e i j m.pick.idx)
      = ∑ r ∈ range Y.r, Fdd.Cx.ofReal (S r) * U m.pick.idx i r * Fdd.Cx.conj (V j r))
    (hV : ∀ r, r < Y.r → ∑ j ∈ range Y.r, Fdd.Cx.conj (V j r) * V j 0 = if r = 0 then 1 else 0)
    (hnn : ∀ r, r < Y.r → 0 ≤ S r) (hord : ∀ r, r < Y.r → S r ≤ S 0)
    (hU : ∑ i ∈ range Y.r, Fdd.Cx.normSq (U m.pick.idx i 0) = 1)
    (i0 : Nat) (hi0 : i0 < Y.r) (ha : a i0 ≠ 0) :
    a (amax Y.r a) ≠ 0 ∧ m.phi = some (unitShape Y.r a) :=
  fdd_shape_of_rank_one_svd Y.r Y.r _ _ sq U DF sel m a hrun (sdEstCor Y Y dt nxseg tw tw2 ew).e _
    (fun i j hi hj => C13_rank_one_cor Y a s hY dt nxseg tw tw2 ew i j _ hi hj) hS S V hdec hV hnn
    hord hU i0 hi0 ha

/-- **The returned shape is proportional to `a`** — component `amax` is exactly 1, every
    component is `a_i` times the one non-zero real `1 / a[amax]`, none exceeds 1 in modulus. -/
theorem unitShape_spec (n : Nat) (a : Nat → K) (hk : a (amax n a) ≠ 0) :
    (unitShape n a).length = n ∧
    (∀ i, i < n → (unitShape n a)[i]? = some (Fdd.Cx.ofReal (1 / a (amax n a)) * Fdd.Cx.ofReal (a i))) ∧
    (0 < n → (unitShape n a)[amax n a]? = some 1) ∧
    (∀ i, i < n → |a i / a (amax n a)| ≤ 1) := by
  refine ⟨by simp [unitShape], ?_, ?_, ?_⟩
  · intro i hi
    simp only [unitShape, List.getElem?_map, List.getElem?_range hi, Option.map_some]
    rw [← Fdd.Cx.ofReal_mul]; congr 2; ring
  · intro hn
    have hlt : amax n a < n := Fdd.argmaxTo_lt hn _
    simp only [unitShape, List.getElem?_map, List.getElem?_range hlt, Option.map_some, div_self hk]
    rfl
  · intro i hi
    have h := Fdd.argmaxTo_le (fun i => a i * a i) i hi
    rw [abs_div, div_le_one (abs_pos.mpr hk)]
    exact (mul_self_le_mul_self_iff (abs_nonneg _) (abs_nonneg _)).mpr
      (by rw [abs_mul_abs_self, abs_mul_abs_self]; exact h)

/-- the returned complex numbers as `gen.MAC`'s model (C18) reads them -/
def asCx (z : Fdd.Cx K) : Cx K := ⟨z.re, z.im⟩

/-- **MAC = 1** (with C18's model of `gen.MAC`): the shape `a / a[argmax|a|]` that `FDD_mpe`
    returns for proportional channels has MAC exactly 1 with the proportionality vector `a`,
    in either argument order. -/
theorem C06C13_mac_one (n : Nat) (a : Nat → K) (i0 : Nat) (hi0 : i0 < n) (ha : a i0 ≠ 0)
    (hk : a (amax n a) ≠ 0) :
    macEntry? n (fun i => asCx ((unitShape n a).getD i 0)) (ofRealVec a) = some 1 ∧
    macEntry? n (ofRealVec a) (fun i => asCx ((unitShape n a).getD i 0)) = some 1 := by
  have hx : C18.NonZero n (ofRealVec a) := ⟨i0, hi0, Or.inl ha⟩
  have hc : C18.CNonZero (Cx.ofReal (1 / a (amax n a)) : Cx K) :=
    Or.inl (one_div_ne_zero hk)
  have hmac := C18.C18_collinear_mac n _ hc _ hx
  have hre : ∀ i, i < n → (asCx ((unitShape n a).getD i 0)).re
      = (cscale (Cx.ofReal (1 / a (amax n a))) (ofRealVec a) i).re := by
    intro i hi
    simp only [unitShape, List.getD_eq_getElem?_getD, List.getElem?_map, List.getElem?_range hi,
      Option.map_some, Option.getD_some, asCx, cscale_re, Cx.ofReal_re, Cx.ofReal_im, ofRealVec_re,
      ofRealVec_im, Fdd.Cx.ofReal]
    ring
  have him : ∀ i, i < n → (asCx ((unitShape n a).getD i 0)).im
      = (cscale (Cx.ofReal (1 / a (amax n a))) (ofRealVec a) i).im := by
    intro i hi
    simp only [unitShape, List.getD_eq_getElem?_getD, List.getElem?_map, List.getElem?_range hi,
      Option.map_some, Option.getD_some, asCx, cscale_im, Cx.ofReal_re, Cx.ofReal_im, ofRealVec_re,
      ofRealVec_im, Fdd.Cx.ofReal]
    ring
  have hn : nrm n (fun i => asCx ((unitShape n a).getD i 0))
      = nrm n (cscale (Cx.ofReal (1 / a (amax n a))) (ofRealVec a)) := by
    unfold nrm
    exact sum_congr rfl (fun i hi => by rw [hre i (mem_range.mp hi), him i (mem_range.mp hi)])
  have hp : pre n (fun i => asCx ((unitShape n a).getD i 0)) (ofRealVec a)
      = pre n (cscale (Cx.ofReal (1 / a (amax n a))) (ofRealVec a)) (ofRealVec a) := by
    unfold pre
    exact sum_congr rfl (fun i hi => by rw [hre i (mem_range.mp hi), him i (mem_range.mp hi)])
  have hq : pim n (fun i => asCx ((unitShape n a).getD i 0)) (ofRealVec a)
      = pim n (cscale (Cx.ofReal (1 / a (amax n a))) (ofRealVec a)) (ofRealVec a) := by
    unfold pim
    exact sum_congr rfl (fun i hi => by rw [hre i (mem_range.mp hi), him i (mem_range.mp hi)])
  have e1 : macEntry? n (fun i => asCx ((unitShape n a).getD i 0)) (ofRealVec a)
      = macEntry? n (cscale (Cx.ofReal (1 / a (amax n a))) (ofRealVec a)) (ofRealVec a) := by
    rw [macEntry?_eq, macEntry?_eq, hn, hp, hq]
  exact ⟨e1.trans hmac.1, by rw [macEntry?_symm, e1]; exact hmac.1⟩

end fdd
/-! ## Non-vacuity over ℚ: three channels `a = (2, −1, 2)` (one negative) times C13's 8-sample
record `exX`, `nxseg = 4` with the exact length-4 twiddle `(−i)^m`, overlap 2; the orthonormal
rational matrix `Q = [a, (2,2,−1), (−1,2,2)]/3` serves as `U = V` of the SVD at every line. -/
section example_
open PV.C13

def exA : Nat → ℚ := fun i => if i = 1 then -1 else 2
def exY : Mat ℚ := ⟨3, 8, fun i t => exA i * exX t⟩
theorem exY_prop : ∀ i, i < exY.r → ∀ t, t < exY.c → exY.e i t = exA i * exX t :=
  fun _ _ _ _ => rfl
/-- a rational stand-in for the decaying exponential window of the correlogram chain -/
def exEw : Nat → ℚ := fun t => 1 / ((t : ℚ) + 1)

-- 1. rank one: an instance of the conclusion, and the scalar auto-spectrum is not zero
example : (sdEstPer exY exY (1/100) 4 2 tw4).e 0 1 1
    = CxS.ofReal (2 * -1) * autoPer exX 8 (1/100) 4 2 tw4 1 :=
  C13_rank_one_per exY exA exX exY_prop (1/100) 4 2 tw4 0 1 1 (by decide) (by decide)
example : (sdEstCor exY exY (1/100) 4 tw4 tw4 exEw).e 2 1 1
    = CxS.ofReal (2 * -1) * autoCor exX 8 (1/100) 4 tw4 tw4 exEw 1 :=
  C13_rank_one_cor exY exA exX exY_prop (1/100) 4 tw4 tw4 exEw 2 1 1 (by decide) (by decide)
theorem ex_autoPer_ne : autoPer exX 8 (1/100) 4 2 tw4 1 ≠ 0 := by decide +kernel
theorem ex_autoCor_ne : autoCor exX 8 (1/100) 4 tw4 tw4 exEw 1 ≠ 0 := by decide +kernel
/-- a constant signal has zero estimated spectrum (segment means are removed): the hypothesis
    `S(k) ≠ 0` of the composition is not automatic -/
example : autoPer (fun _ => 3) 8 (1/100) 4 2 tw4 1 = 0
    ∧ autoCor (fun _ => 3) 8 (1/100) 4 tw4 tw4 exEw 1 = 0 := by decide +kernel

-- 2. superposition: two scalar signals (C13's `exX`, `exYd`), shapes with a negative, a zero
-- and a near-zero component
def exSg : Mat ℚ := ⟨2, 8, fun μ t => if μ = 0 then exX t else exYd t⟩
def exPhi : Nat → Nat → ℚ := fun i μ =>
  if i = 0 then (if μ = 0 then 1 else 2) else if i = 1 then (if μ = 0 then -3 else 1)
  else (if μ = 0 then 0 else 1 / 1000)
def exYsup : Mat ℚ := ⟨3, 8, fun i t => ∑ μ ∈ range exSg.r, exPhi i μ * exSg.e μ t⟩
example := C13_superposition_per exYsup exYsup exSg exPhi exPhi rfl (fun _ _ _ _ => rfl)
  (fun _ _ _ _ => rfl) (1/100) 4 2 tw4 0 2 1 (by decide) (by decide)
example := C13_superposition_cor exYsup exYsup exSg exPhi exPhi rfl (fun _ _ _ _ => rfl)
  (fun _ _ _ _ => rfl) (1/100) 4 tw4 tw4 exEw 0 2 1 (by decide) (by decide)
-- the cross-spectra of the two scalar signals are not zero: the double sum is not diagonal
example : (sdEstPer exSg exSg (1/100) 4 2 tw4).e 0 1 1 ≠ 0
    ∧ (sdEstCor exSg exSg (1/100) 4 tw4 tw4 exEw).e 0 1 1 ≠ 0 := by decide +kernel

-- 3. composition: grid 0, 25, 50 Hz; `sel = 25`, `DF = 30` gives the band `[0, 2)`; the stored
-- values make line 1 the pick
def exQ : Nat → Nat → Fdd.Cx ℚ := fun i r =>
  Fdd.Cx.ofReal ((if r = 0 then exA i
    else if r = 1 then (if i = 2 then -1 else 2) else (if i = 0 then -1 else 2)) / 3)
def exU : Nat → Nat → Nat → Fdd.Cx ℚ := fun _ i r => exQ i r
def exSq : Nat → Nat → ℚ := fun k r => if r = 0 then (k : ℚ) + 1 else 1 / 2

theorem ex_run_per : ∃ m, Fdd.fddOne 3 3 (sdEstPer exY exY (1/100) 4 2 tw4).nf
    (sdEstPer exY exY (1/100) 4 2 tw4).freq (Fdd.svalPlace exSq) (Fdd.svecPlace exU) 30 25 = .ok m
    ∧ m.pick.idx = 1 := by
  have h1 : (match Fdd.fddOne 3 3 (sdEstPer exY exY (1/100) 4 2 tw4).nf
      (sdEstPer exY exY (1/100) 4 2 tw4).freq (Fdd.svalPlace exSq) (Fdd.svecPlace exU) 30 25 with
    | .ok m => m.pick.idx | .error _ => 9) = 1 := by decide +kernel
  cases h : Fdd.fddOne 3 3 (sdEstPer exY exY (1/100) 4 2 tw4).nf
      (sdEstPer exY exY (1/100) 4 2 tw4).freq (Fdd.svalPlace exSq) (Fdd.svecPlace exU) 30 25 with
  | ok m => rw [h] at h1; exact ⟨m, rfl, h1⟩
  | error e => rw [h] at h1; cases h1

theorem ex_run_cor : ∃ m, Fdd.fddOne 3 3 (sdEstCor exY exY (1/100) 4 tw4 tw4 exEw).nf
    (sdEstCor exY exY (1/100) 4 tw4 tw4 exEw).freq (Fdd.svalPlace exSq) (Fdd.svecPlace exU) 30 25
      = .ok m ∧ m.pick.idx = 1 := by
  have h1 : (match Fdd.fddOne 3 3 (sdEstCor exY exY (1/100) 4 tw4 tw4 exEw).nf
      (sdEstCor exY exY (1/100) 4 tw4 tw4 exEw).freq (Fdd.svalPlace exSq) (Fdd.svecPlace exU) 30 25 with
    | .ok m => m.pick.idx | .error _ => 9) = 1 := by decide +kernel
  cases h : Fdd.fddOne 3 3 (sdEstCor exY exY (1/100) 4 tw4 tw4 exEw).nf
      (sdEstCor exY exY (1/100) 4 tw4 tw4 exEw).freq (Fdd.svalPlace exSq) (Fdd.svecPlace exU) 30 25 with
  | ok m => rw [h] at h1; exact ⟨m, rfl, h1⟩
  | error e => rw [h] at h1; cases h1

/-- C06's reading: `Sy[:,:,1] = s₁·u·vᴴ` with `s₁ = 9·S(1)`, `u = v = a/3` — "per" -/
theorem ex_leading_per : ∀ i j, i < 3 → j < 3 →
    toCx ((sdEstPer exY exY (1/100) 4 2 tw4).e i j 1)
      = (Fdd.Cx.ofReal 9 * toCx (autoPer exX 8 (1/100) 4 2 tw4 1)) * exU 1 i 0
        * Fdd.Cx.conj (exQ j 0) := by
  intro i j hi hj
  interval_cases i <;> interval_cases j <;> decide +kernel

/-- … and "cor" (`S(1)` is a complex number there) -/
theorem ex_leading_cor : ∀ i j, i < 3 → j < 3 →
    toCx ((sdEstCor exY exY (1/100) 4 tw4 tw4 exEw).e i j 1)
      = (Fdd.Cx.ofReal 9 * toCx (autoCor exX 8 (1/100) 4 tw4 tw4 exEw 1)) * exU 1 i 0
        * Fdd.Cx.conj (exQ j 0) := by
  intro i j hi hj
  interval_cases i <;> interval_cases j <;> decide +kernel

example : ∃ m, Fdd.fddOne 3 3 (sdEstPer exY exY (1/100) 4 2 tw4).nf
    (sdEstPer exY exY (1/100) 4 2 tw4).freq (Fdd.svalPlace exSq) (Fdd.svecPlace exU) 30 25 = .ok m
    ∧ m.phi = some (unitShape 3 exA) := by
  obtain ⟨m, hrun, hidx⟩ := ex_run_per
  refine ⟨m, hrun, (C06C13_shape_per exY exA exX exY_prop (1/100) 4 2 tw4 exSq exU 30 25 m hrun
    (by rw [hidx]; exact ex_autoPer_ne) _ (fun j => exQ j 0)
    (by rw [hidx]; exact ex_leading_per) 1 (by decide) (by decide)).2⟩

example : ∃ m, Fdd.fddOne 3 3 (sdEstCor exY exY (1/100) 4 tw4 tw4 exEw).nf
    (sdEstCor exY exY (1/100) 4 tw4 tw4 exEw).freq (Fdd.svalPlace exSq) (Fdd.svecPlace exU) 30 25
      = .ok m ∧ m.phi = some (unitShape 3 exA) := by
  obtain ⟨m, hrun, hidx⟩ := ex_run_cor
  refine ⟨m, hrun, (C06C13_shape_cor exY exA exX exY_prop (1/100) 4 tw4 tw4 exEw exSq exU 30 25 m
    hrun (by rw [hidx]; exact ex_autoCor_ne) _ (fun j => exQ j 0)
    (by rw [hidx]; exact ex_leading_cor) 1 (by decide) (by decide)).2⟩

/-- the shape is `(1, −1/2, 1)`: first component of largest modulus is 1, the sign of `a₁` kept -/
example : unitShape 3 exA = [⟨1, 0⟩, ⟨-1/2, 0⟩, ⟨1, 0⟩] := by decide +kernel

/-- LAPACK contract at line 1 ("per"; `S(1)` is a positive real): `S = (9·S(1), 0, 0)`, `U = V = Q` -/
def exSv : Nat → ℚ := fun r => if r = 0 then 9 * (autoPer exX 8 (1/100) 4 2 tw4 1).re else 0

theorem ex_dec_per : ∀ i j, i < 3 → j < 3 →
    toCx ((sdEstPer exY exY (1/100) 4 2 tw4).e i j 1)
      = ∑ r ∈ range 3, Fdd.Cx.ofReal (exSv r) * exU 1 i r * Fdd.Cx.conj (exQ j r) := by
  intro i j hi hj
  interval_cases i <;> interval_cases j <;> decide +kernel

example : ∃ m, Fdd.fddOne 3 3 (sdEstPer exY exY (1/100) 4 2 tw4).nf
    (sdEstPer exY exY (1/100) 4 2 tw4).freq (Fdd.svalPlace exSq) (Fdd.svecPlace exU) 30 25 = .ok m
    ∧ m.phi = some (unitShape 3 exA) := by
  obtain ⟨m, hrun, hidx⟩ := ex_run_per
  refine ⟨m, hrun, (C06C13_shape_per_svd exY exA exX exY_prop (1/100) 4 2 tw4 exSq exU 30 25 m hrun
    (by rw [hidx]; exact ex_autoPer_ne) exSv exQ (by rw [hidx]; exact ex_dec_per)
    (by decide +kernel) (by decide +kernel) (by decide +kernel)
    (by rw [hidx]; decide +kernel) 1 (by decide) (by decide)).2⟩

/-- "cor", LAPACK contract: a real positive `σ` stands for the auto-spectrum (over ℚ the modulus of
    the complex `S(1)` of the correlogram chain is not rational); the generic theorem on an
    abstract rank-one line -/
example : ∀ m, Fdd.fddOne 3 3 3 (fun k => (k : ℚ) * 25) (Fdd.svalPlace exSq) (Fdd.svecPlace exU) 30 25
    = .ok m → m.phi = some (unitShape 3 exA) := by
  intro m hrun
  exact (fdd_shape_of_rank_one_svd 3 3 3 _ exSq exU 30 25 m exA hrun
    (fun i j _ => CxS.ofReal (exA i * exA j) * CxS.ofReal 5) (CxS.ofReal 5) (fun _ _ _ _ => rfl)
    (by decide +kernel) (fun r => if r = 0 then 45 else 0) exQ
    (by intro i j hi hj; simp only [exU]; interval_cases i <;> interval_cases j <;> decide +kernel)
    (by decide +kernel) (by decide +kernel) (by decide +kernel)
    (by simp only [exU]; decide +kernel) 1 (by decide) (by decide)).2

-- MAC = 1
example := C06C13_mac_one 3 exA 1 (by decide) (by decide) (by decide +kernel)
example := unitShape_spec 3 exA (by decide +kernel)

end example_
end PV.C06C13
