import PyomaVerif.Model.Efdd
import PyomaVerif.Lemmas.Bell
import PyomaVerif.Props.C07
/-!
# C07 (depth) — the SDOF bell of `fdd.SDOF_bellandMS` on a structured spectrum

Property theorems only (helpers: `Lemmas/Bell.lean`).  All statements are for every channel
count `nch`, line count `nf`, number of modes `M`, number of close modes `cm`, and every
ordered field of scalars.

**Setting.**  `Sy(l) = Σ_{m<M} s_m(l)·a_m·a_mᴴ` (`Bell.structSy`), weights `s_m(l)` real.  The
SVD enters *as recorded* (the convention of Props/C06, C07): at line `l` the stored vector of
close mode `csm` is a non-zero multiple of the shape `ψ_{σ(csm,l)}` of one of the modes,
distinct close modes record distinct modes (`Recorded`), and the stored value squares to that
mode's weight.  `σ(0,l)` is the dominant mode under the SVD ordering (`C07_bell_dominant`).
For orthonormal `a` the pairs `(s_m, a_m)` *are* singular pairs of `Sy(l)`
(`C07_structured_singular`), so these hypotheses are what `np.linalg.svd` returns away from
ties.

**Conjugation.**  `SD_svalsvec` stores `conj(U)`: for `Sy = Σ s_m a_m a_mᴴ` the stored shapes
are `ψ_m = conj(a_m)`.  The selection statements only involve `ψ`; the FSDD value involves
`φᴴ·a_m`.  With `φ = c·ψ_r` (what `FDD_mpe` hands over) this is the *bilinear* pairing
`Σ_i a_r(i)·a_m(i)`: equal to the Hermitian one for real shapes (the domain of C07,
`C07_bell_structured_coded_real`), different for complex shapes
(`C07_bell_structured_coded`, witness `C07_fsdd_complex_shape_witness`).
-/
set_option linter.unusedSectionVars false
namespace PV.C07Bell
open PV PV.Fdd PV.Efdd PV.Bell Finset
open scoped PV.Bell

variable {K : Type} [Field K] [LinearOrder K] [IsStrictOrderedRing K]

/-- **SVD as recorded** at line `l`: for each close mode `csm < cm` the stored vector
    `Svec[csm, :, l]` is a non-zero multiple of the shape `ψ_{σ(csm,l)}` of a mode
    `σ(csm,l) < M`, and distinct close modes record distinct modes. -/
structure Recorded (nch cm M : Nat) (ψ : Nat → Nat → Cx K) (σ : Nat → Nat → Nat)
    (Svec : Nat → Nat → Nat → Cx K) (l : Nat) : Prop where
  lt : ∀ csm, csm < cm → σ csm l < M
  vec : ∀ csm, csm < cm → ∃ w : Cx K, w ≠ 0 ∧ ∀ i, i < nch → Svec csm i l = w * ψ (σ csm l) i
  inj : ∀ c c', c < cm → c' < cm → σ c l = σ c' l → c = c'

/-- line `l` lies in the analysis band `[idxlim[0], idxlim[1])` of `SDOF_bellandMS` -/
abbrev inBand (nf : Nat) (dt sel DF : K) (l : Nat) : Prop :=
  bandLo nf (bellFreq nf dt) sel DF ≤ l ∧ l < bandHi nf (bellFreq nf dt) sel DF

/-- the value a selected line carries: the weight of the reference mode (EFDD, repaired code)
    resp. `φᴴ·Sy(l)·φ` (FSDD) -/
def selVal (m : Method) (nch : Nat) (phi : Nat → Cx K) (Sy : Nat → Nat → Nat → Cx K)
    (s : Nat → Nat → K) (r l : Nat) : Cx K :=
  match m with
  | .EFDD => Cx.ofReal (s r l)
  | .FSDD => quadForm nch phi Sy l
  | .other => 0

theorem sdofBell_band (m : Method) (nch cm nf : Nat) (dt : K) (Sy : Nat → Nat → Nat → Cx K)
    (Sval : Nat → Nat → Nat → K) (Svec : Nat → Nat → Nat → Cx K) (phi : Nat → Cx K)
    (sel DF MAClim : K) (l : Nat) :
    sdofBell m nch cm nf dt Sy Sval Svec phi sel DF MAClim l
      = if inBand nf dt sel DF l then bellAt m nch cm Sy Sval Svec phi MAClim l else 0 := rfl

/-! ## 1. Bell selection on a structured spectrum -/

/-- **MAC mask = recorded mode is the reference mode.**  If the reference shape passes the MAC
    test against the shape of mode `r` and fails it against every other mode's shape (MAC
    separation), then close mode `csm` passes the test at line `l` exactly when the vector
    recorded there belongs to mode `r`. -/
theorem C07_mask_select (nch cm M : Nat) (ψ : Nat → Nat → Cx K) (σ : Nat → Nat → Nat)
    (Svec : Nat → Nat → Nat → Cx K) (phi : Nat → Cx K) (MAClim : K) (r l : Nat)
    (hrec : Recorded nch cm M ψ σ Svec l)
    (href : MAClim < mac nch phi (ψ r))
    (hsep : ∀ m, m < M → m ≠ r → mac nch phi (ψ m) ≤ MAClim)
    (csm : Nat) (hc : csm < cm) :
    maskAt nch phi Svec MAClim csm l = true ↔ σ csm l = r := by
  obtain ⟨w, hw, hv⟩ := hrec.vec csm hc
  have e : mac nch phi (fun i => Svec csm i l) = mac nch phi (ψ (σ csm l)) := by
    rw [mac_congr_right nch phi _ (fun i => w * ψ (σ csm l) i) hv, mac_smul_right nch w hw]
  simp only [maskAt, decide_eq_true_eq, e]
  constructor
  · intro h
    by_contra hne
    exact absurd h (not_lt.mpr (hsep _ (hrec.lt csm hc) hne))
  · intro h; rw [h]; exact href

/-- **C07_bell_select.**  Under the recorded-SVD and MAC-separation hypotheses, the model of
    `SDOF_bellandMS` is non-zero *exactly* on the lines of the band where the reference mode
    is among the `cm` recorded modes, and there it returns exactly the reference mode's
    weight `s_r(l)` (EFDD; the stored value is its square root) resp. `φᴴ·Sy(l)·φ` (FSDD) —
    once, even for `cm > 1`. -/
theorem C07_bell_select (m : Method) (nch cm nf M : Nat) (dt : K) (Sy : Nat → Nat → Nat → Cx K)
    (Sval : Nat → Nat → Nat → K) (Svec : Nat → Nat → Nat → Cx K) (phi : Nat → Cx K)
    (sel DF MAClim : K) (ψ : Nat → Nat → Cx K) (σ : Nat → Nat → Nat) (s : Nat → Nat → K)
    (r l : Nat) (hrec : Recorded nch cm M ψ σ Svec l)
    (href : MAClim < mac nch phi (ψ r))
    (hsep : ∀ m, m < M → m ≠ r → mac nch phi (ψ m) ≤ MAClim)
    (hval : m = .EFDD → ∀ csm, csm < cm → Sval csm csm l ^ 2 = s (σ csm l) l) :
    sdofBell m nch cm nf dt Sy Sval Svec phi sel DF MAClim l
      = if inBand nf dt sel DF l ∧ ∃ csm, csm < cm ∧ σ csm l = r
        then selVal m nch phi Sy s r l else 0 := by
  have hsel := bellAt_select m nch cm Sy Sval Svec phi MAClim l σ r (selVal m nch phi Sy s r l)
    (C07_mask_select nch cm M ψ σ Svec phi MAClim r l hrec href hsep) hrec.inj
    (by
      intro csm hc hσ
      cases m with
      | FSDD => rfl
      | EFDD =>
        simp only [bellVal, selVal]
        rw [← hσ, ← hval rfl csm hc, sq]
      | other => rfl)
  rw [sdofBell_band, hsel]
  by_cases hb : inBand nf dt sel DF l
  · rw [if_pos hb]
    by_cases he : ∃ csm, csm < cm ∧ σ csm l = r
    · rw [if_pos he, if_pos ⟨hb, he⟩]
    · rw [if_neg he, if_neg (fun h => he h.2)]
  · rw [if_neg hb, if_neg (fun h => hb h.1)]

/-- the recorded first mode is the reference mode when that one strictly dominates, and is not
    when another mode strictly dominates it (SVD ordering: `σ₀` carries the largest weight) -/
theorem C07_dominant (M : Nat) (s : Nat → K) (σ0 r : Nat) (hr : r < M) (hσ : σ0 < M)
    (hdom : ∀ m, m < M → s m ≤ s σ0) :
    ((∀ m, m < M → m ≠ r → s m < s r) → σ0 = r) ∧ ((∃ m, m < M ∧ s r < s m) → σ0 ≠ r) := by
  constructor
  · intro h
    by_contra hne
    exact absurd (h σ0 hσ hne) (not_lt.mpr (hdom r hr))
  · rintro ⟨m, hm, hlt⟩ heq
    subst heq
    exact absurd hlt (not_lt.mpr (hdom m hm))

/-- **C07_bell_dominant** (`cm = 1`, the default).  With the SVD ordering (the recorded first
    mode carries the largest weight): on a line of the band where the reference mode strictly
    dominates, the bell is `s_r(l)` (EFDD) resp. `φᴴ·Sy(l)·φ` (FSDD); on a line where another
    mode strictly dominates it, or outside the band, the bell is zero.  So away from ties the
    support of the bell is exactly the dominance set of the reference mode inside the band. -/
theorem C07_bell_dominant (m : Method) (nch nf M : Nat) (dt : K) (Sy : Nat → Nat → Nat → Cx K)
    (Sval : Nat → Nat → Nat → K) (Svec : Nat → Nat → Nat → Cx K) (phi : Nat → Cx K)
    (sel DF MAClim : K) (ψ : Nat → Nat → Cx K) (σ : Nat → Nat → Nat) (s : Nat → Nat → K)
    (r l : Nat) (hr : r < M) (hrec : Recorded nch 1 M ψ σ Svec l)
    (href : MAClim < mac nch phi (ψ r))
    (hsep : ∀ m, m < M → m ≠ r → mac nch phi (ψ m) ≤ MAClim)
    (hval : m = .EFDD → ∀ csm, csm < 1 → Sval csm csm l ^ 2 = s (σ csm l) l)
    (hdom : ∀ m, m < M → s m l ≤ s (σ 0 l) l) :
    (inBand nf dt sel DF l → (∀ m, m < M → m ≠ r → s m l < s r l) →
      sdofBell m nch 1 nf dt Sy Sval Svec phi sel DF MAClim l = selVal m nch phi Sy s r l) ∧
    ((¬ inBand nf dt sel DF l ∨ ∃ m, m < M ∧ s r l < s m l) →
      sdofBell m nch 1 nf dt Sy Sval Svec phi sel DF MAClim l = 0) := by
  have hsel := C07_bell_select m nch 1 nf M dt Sy Sval Svec phi sel DF MAClim ψ σ s r l hrec
    href hsep hval
  obtain ⟨d1, d2⟩ := C07_dominant M (fun m => s m l) (σ 0 l) r hr (hrec.lt 0 Nat.one_pos) hdom
  constructor
  · intro hb hstrict
    rw [hsel, if_pos ⟨hb, 0, Nat.one_pos, d1 hstrict⟩]
  · intro h
    rw [hsel, if_neg]
    rintro ⟨hb, csm, hc, hσ⟩
    have h0 : csm = 0 := by omega
    subst h0
    rcases h with h | h
    · exact h hb
    · exact d2 h hσ

/-- **FSDD value.**  `φᴴ·(Σ_m s_m·a_m·a_mᴴ)·φ = Σ_m s_m·|φᴴ·a_m|²`, for every `φ`. -/
theorem C07_fsdd_value (nch M : Nat) (phi : Nat → Cx K) (s : Nat → Nat → K)
    (a : Nat → Nat → Cx K) (csm l : Nat) (Sval : Nat → Nat → Nat → K) :
    bellVal .FSDD nch (structSy M s a) Sval phi csm l
      = Cx.ofReal (∑ m ∈ range M, s m l * Cx.normSq (cdot nch phi (a m))) :=
  quadForm_struct nch M phi s a l

/-- **FSDD value for `φ = c·a_r`, unit-norm shapes**:
    `|c|²·(s_r + Σ_{m≠r} |a_rᴴ·a_m|²·s_m)`; `|c|² = ‖φ‖²` is the documented scaling (the FDD
    shape is normalised to a unit component, not to unit length). -/
theorem C07_fsdd_value_ref (nch M : Nat) (s : Nat → Nat → K) (a : Nat → Nat → Cx K)
    (c : Cx K) (r l : Nat) (hr : r < M) (hunit : nrm2 nch (a r) = 1) :
    quadForm nch (fun i => c * a r i) (structSy M s a) l
      = Cx.ofReal (Cx.normSq c *
          (s r l + ∑ m ∈ (range M).erase r, Cx.normSq (cdot nch (a r) (a m)) * s m l)) := by
  rw [quadForm_struct]
  congr 1
  have e : ∀ m, s m l * Cx.normSq (cdot nch (fun i => c * a r i) (a m))
      = Cx.normSq c * (Cx.normSq (cdot nch (a r) (a m)) * s m l) := by
    intro m
    rw [cdot_smul_left, Cx.normSq_mul, Cx.normSq_conj]; ring
  simp only [e]
  rw [← mul_sum, ← add_sum_erase (range M) _ (mem_range.mpr hr), cdot_self, hunit,
    normSq_ofReal]
  ring

/-- **C07_bell_structured** (stored vectors are the shapes of `Sy`, `ψ = a`: the statement as
    posed; what the code does for real shapes).  Unit-norm shapes, MAC-separated from the
    reference shape (`|a_rᴴ·a_m|² ≤ MAClim < 1` for `m ≠ r`), reference `φ = c·a_r`, `c ≠ 0`.
    EFDD returns exactly `s_r(l)` on the lines of the band where mode `r` is among the `cm`
    recorded modes and `0` elsewhere; FSDD returns
    `|c|²·(s_r(l) + Σ_{m≠r} |a_rᴴ·a_m|²·s_m(l))` on the same lines and `0` elsewhere. -/
theorem C07_bell_structured (nch cm nf M : Nat) (dt : K) (s : Nat → Nat → K)
    (a : Nat → Nat → Cx K) (Sval : Nat → Nat → Nat → K) (Svec : Nat → Nat → Nat → Cx K)
    (c : Cx K) (sel DF MAClim : K) (σ : Nat → Nat → Nat) (r l : Nat) (hr : r < M) (hc : c ≠ 0)
    (hunit : ∀ m, m < M → nrm2 nch (a m) = 1)
    (hsep : ∀ m, m < M → m ≠ r → Cx.normSq (cdot nch (a r) (a m)) ≤ MAClim)
    (hlim : MAClim < 1)
    (hrec : Recorded nch cm M a σ Svec l)
    (hval : ∀ csm, csm < cm → Sval csm csm l ^ 2 = s (σ csm l) l) :
    sdofBell .EFDD nch cm nf dt (structSy M s a) Sval Svec (fun i => c * a r i) sel DF MAClim l
      = (if inBand nf dt sel DF l ∧ ∃ csm, csm < cm ∧ σ csm l = r
          then Cx.ofReal (s r l) else 0) ∧
    sdofBell .FSDD nch cm nf dt (structSy M s a) Sval Svec (fun i => c * a r i) sel DF MAClim l
      = (if inBand nf dt sel DF l ∧ ∃ csm, csm < cm ∧ σ csm l = r
          then Cx.ofReal (Cx.normSq c *
            (s r l + ∑ m ∈ (range M).erase r, Cx.normSq (cdot nch (a r) (a m)) * s m l))
          else 0) := by
  have hmac : ∀ m, m < M → mac nch (fun i => c * a r i) (a m) = Cx.normSq (cdot nch (a r) (a m)) :=
    fun m hm => by rw [mac_smul_left nch c hc, mac_unit nch _ _ (hunit r hr) (hunit m hm)]
  have href : MAClim < mac nch (fun i => c * a r i) (a r) := by
    rw [hmac r hr, cdot_self, hunit r hr, normSq_ofReal, mul_one]; exact hlim
  have hsep' : ∀ m, m < M → m ≠ r → mac nch (fun i => c * a r i) (a m) ≤ MAClim :=
    fun m hm hne => by rw [hmac m hm]; exact hsep m hm hne
  constructor
  · exact C07_bell_select .EFDD nch cm nf M dt _ Sval Svec _ sel DF MAClim a σ s r l hrec href
      hsep' (fun _ => hval)
  · rw [C07_bell_select .FSDD nch cm nf M dt _ Sval Svec _ sel DF MAClim a σ s r l hrec href
      hsep' (fun h => by cases h)]
    simp only [selVal, C07_fsdd_value_ref nch M s a c r l hr (hunit r hr)]

/-- **Orthonormal shapes**: both methods return the reference mode's own weight (FSDD up to the
    factor `|c|² = ‖φ‖²`) on the selected lines, for any threshold `0 ≤ MAClim < 1`. -/
theorem C07_bell_orthonormal (nch cm nf M : Nat) (dt : K) (s : Nat → Nat → K)
    (a : Nat → Nat → Cx K) (Sval : Nat → Nat → Nat → K) (Svec : Nat → Nat → Nat → Cx K)
    (c : Cx K) (sel DF MAClim : K) (σ : Nat → Nat → Nat) (r l : Nat) (hr : r < M) (hc : c ≠ 0)
    (horth : ∀ m m', m < M → m' < M → cdot nch (a m) (a m') = if m = m' then 1 else 0)
    (hlim0 : 0 ≤ MAClim) (hlim : MAClim < 1)
    (hrec : Recorded nch cm M a σ Svec l)
    (hval : ∀ csm, csm < cm → Sval csm csm l ^ 2 = s (σ csm l) l) :
    sdofBell .EFDD nch cm nf dt (structSy M s a) Sval Svec (fun i => c * a r i) sel DF MAClim l
      = (if inBand nf dt sel DF l ∧ ∃ csm, csm < cm ∧ σ csm l = r
          then Cx.ofReal (s r l) else 0) ∧
    sdofBell .FSDD nch cm nf dt (structSy M s a) Sval Svec (fun i => c * a r i) sel DF MAClim l
      = (if inBand nf dt sel DF l ∧ ∃ csm, csm < cm ∧ σ csm l = r
          then Cx.ofReal (Cx.normSq c * s r l) else 0) := by
  have hunit : ∀ m, m < M → nrm2 nch (a m) = 1 := by
    intro m hm
    have := horth m m hm hm
    rw [if_pos rfl, cdot_self] at this
    exact congrArg Cx.re this
  have hz : ∀ m, m < M → m ≠ r → Cx.normSq (cdot nch (a r) (a m)) = 0 := by
    intro m hm hne
    rw [horth r m hr hm, if_neg (Ne.symm hne), normSq_zero]
  obtain ⟨h1, h2⟩ := C07_bell_structured nch cm nf M dt s a Sval Svec c sel DF MAClim σ r l hr hc
    hunit (fun m hm hne => by rw [hz m hm hne]; exact hlim0) hlim hrec hval
  refine ⟨h1, ?_⟩
  rw [h2]
  have : ∑ m ∈ (range M).erase r, Cx.normSq (cdot nch (a r) (a m)) * s m l = 0 := by
    apply sum_eq_zero
    intro m hm
    rw [hz m (mem_range.mp (mem_of_mem_erase hm)) (ne_of_mem_erase hm), zero_mul]
  rw [this, add_zero]

/-- **Structured spectra have the recorded singular pairs.**  For orthonormal `a`,
    `Sy(l)·a_m = s_m(l)·a_m`: each `(s_m(l), a_m)` is a singular pair of the Hermitian
    matrix `Sy(l) = Σ s_m a_m a_mᴴ` — the "as recorded" hypotheses are the SVD's output
    (up to unit factors and the choice among equal weights). -/
theorem C07_structured_singular (nch M : Nat) (s : Nat → Nat → K) (a : Nat → Nat → Cx K)
    (horth : ∀ m m', m < M → m' < M → cdot nch (a m) (a m') = if m = m' then 1 else 0)
    (m' : Nat) (hm' : m' < M) (i l : Nat) :
    applyM nch (fun i j => structSy M s a i j l) (a m') i = Cx.smul (s m' l) (a m' i) := by
  rw [applyM_eq]
  simp only [structSy_eq, sum_mul]
  rw [sum_comm]
  have h : ∀ m ∈ range M, ∑ j ∈ range nch,
      Cx.ofReal (s m l) * (a m i * Cx.conj (a m j)) * a m' j
      = if m = m' then Cx.ofReal (s m l) * a m i else 0 := by
    intro m hm
    have e : ∑ j ∈ range nch, Cx.ofReal (s m l) * (a m i * Cx.conj (a m j)) * a m' j
        = Cx.ofReal (s m l) * a m i * cdot nch (a m) (a m') := by
      rw [cdot_eq, mul_sum]
      apply sum_congr rfl; intro j _; ring
    rw [e, horth m m' (mem_range.mp hm) hm']
    split_ifs <;> simp
  rw [sum_congr rfl h, sum_ite_eq' (range M) m', if_pos (mem_range.mpr hm'), smul_eq]

/-! ### the convention of the code: stored vectors are `conj(U)` -/

/-- **C07_bell_structured_coded.**  As `SD_svalsvec` stores them: `U[:, csm]` (recorded) is a
    non-zero multiple of `a_{σ(csm,l)}`, `S_vec = conj(U)ᵀ` (`svecPlace`), so the stored shapes
    are `ψ_m = conj(a_m)`, and the reference is `φ = c·ψ_r` (`FDD_mpe`, C06).  The selection
    and the EFDD values are as in `C07_bell_structured`; the FSDD value is
    `|c|²·Σ_m s_m(l)·|Σ_i a_r(i)·a_m(i)|²` — the pairing without conjugation. -/
theorem C07_bell_structured_coded (nch cm nf M : Nat) (dt : K) (s : Nat → Nat → K)
    (a : Nat → Nat → Cx K) (Sval : Nat → Nat → Nat → K) (U : Nat → Nat → Nat → Cx K)
    (c : Cx K) (sel DF MAClim : K) (σ : Nat → Nat → Nat) (r l : Nat) (hr : r < M) (hc : c ≠ 0)
    (hunit : ∀ m, m < M → nrm2 nch (a m) = 1)
    (hsep : ∀ m, m < M → m ≠ r → Cx.normSq (cdot nch (a r) (a m)) ≤ MAClim)
    (hlim : MAClim < 1)
    (hlt : ∀ csm, csm < cm → σ csm l < M)
    (hU : ∀ csm, csm < cm → ∃ w : Cx K, w ≠ 0 ∧ ∀ i, i < nch → U l i csm = w * a (σ csm l) i)
    (hinj : ∀ c c', c < cm → c' < cm → σ c l = σ c' l → c = c')
    (hval : ∀ csm, csm < cm → Sval csm csm l ^ 2 = s (σ csm l) l) :
    sdofBell .EFDD nch cm nf dt (structSy M s a) Sval (svecPlace U)
        (fun i => c * Cx.conj (a r i)) sel DF MAClim l
      = (if inBand nf dt sel DF l ∧ ∃ csm, csm < cm ∧ σ csm l = r
          then Cx.ofReal (s r l) else 0) ∧
    sdofBell .FSDD nch cm nf dt (structSy M s a) Sval (svecPlace U)
        (fun i => c * Cx.conj (a r i)) sel DF MAClim l
      = (if inBand nf dt sel DF l ∧ ∃ csm, csm < cm ∧ σ csm l = r
          then Cx.ofReal (Cx.normSq c *
            ∑ m ∈ range M, s m l * Cx.normSq (∑ i ∈ range nch, a r i * a m i))
          else 0) := by
  set ψ : Nat → Nat → Cx K := fun m i => Cx.conj (a m i) with hψ
  have hcd : ∀ m m', cdot nch (ψ m) (ψ m') = Cx.conj (cdot nch (a m) (a m')) := by
    intro m m'
    rw [cdot_eq, cdot_eq, conj_sum]
    apply sum_congr rfl; intro i _
    simp only [hψ, Cx.conj_mul]
  have hn : ∀ m, nrm2 nch (ψ m) = nrm2 nch (a m) :=
    fun m => sum_congr rfl (fun i _ => Cx.normSq_conj _)
  have hrec : Recorded nch cm M ψ σ (svecPlace U) l := by
    refine ⟨hlt, ?_, hinj⟩
    intro csm hcsm
    obtain ⟨w, hw, hv⟩ := hU csm hcsm
    refine ⟨Cx.conj w, ?_, ?_⟩
    · intro e
      apply hw
      have := congrArg Cx.conj e
      rwa [Cx.conj_conj, conj_zero] at this
    · intro i hi
      simp only [svecPlace, hv i hi, Cx.conj_mul, hψ]
  have hmac : ∀ m, m < M → mac nch (fun i => c * ψ r i) (ψ m)
      = Cx.normSq (cdot nch (a r) (a m)) := fun m hm => by
    rw [mac_smul_left nch c hc, mac_unit nch _ _ ((hn r).trans (hunit r hr))
      ((hn m).trans (hunit m hm)), hcd, Cx.normSq_conj]
  have href : MAClim < mac nch (fun i => c * ψ r i) (ψ r) := by
    rw [hmac r hr, cdot_self, hunit r hr, normSq_ofReal, mul_one]; exact hlim
  have hsep' : ∀ m, m < M → m ≠ r → mac nch (fun i => c * ψ r i) (ψ m) ≤ MAClim :=
    fun m hm hne => by rw [hmac m hm]; exact hsep m hm hne
  constructor
  · exact C07_bell_select .EFDD nch cm nf M dt _ Sval _ _ sel DF MAClim ψ σ s r l hrec href
      hsep' (fun _ => hval)
  · rw [C07_bell_select .FSDD nch cm nf M dt _ Sval _ _ sel DF MAClim ψ σ s r l hrec href
      hsep' (fun h => by cases h)]
    simp only [selVal, quadForm_struct]
    have e : ∀ m, s m l * Cx.normSq (cdot nch (fun i => c * ψ r i) (a m))
        = Cx.normSq c * (s m l * Cx.normSq (∑ i ∈ range nch, a r i * a m i)) := by
      intro m
      rw [cdot_smul_left, Cx.normSq_mul, Cx.normSq_conj, cdot_eq]
      simp only [hψ, Cx.conj_conj]
      ring
    simp only [e, ← mul_sum]

/-- **… for real shapes** (the domain of C07): the code's convention and the posed statement
    coincide — FSDD returns `|c|²·(s_r(l) + Σ_{m≠r} |a_rᴴ·a_m|²·s_m(l))`. -/
theorem C07_bell_structured_coded_real (nch cm nf M : Nat) (dt : K) (s : Nat → Nat → K)
    (a : Nat → Nat → Cx K) (Sval : Nat → Nat → Nat → K) (U : Nat → Nat → Nat → Cx K)
    (c : Cx K) (sel DF MAClim : K) (σ : Nat → Nat → Nat) (r l : Nat) (hr : r < M) (hc : c ≠ 0)
    (hreal : ∀ m i, (a m i).im = 0)
    (hunit : ∀ m, m < M → nrm2 nch (a m) = 1)
    (hsep : ∀ m, m < M → m ≠ r → Cx.normSq (cdot nch (a r) (a m)) ≤ MAClim)
    (hlim : MAClim < 1)
    (hlt : ∀ csm, csm < cm → σ csm l < M)
    (hU : ∀ csm, csm < cm → ∃ w : Cx K, w ≠ 0 ∧ ∀ i, i < nch → U l i csm = w * a (σ csm l) i)
    (hinj : ∀ c c', c < cm → c' < cm → σ c l = σ c' l → c = c')
    (hval : ∀ csm, csm < cm → Sval csm csm l ^ 2 = s (σ csm l) l) :
    sdofBell .EFDD nch cm nf dt (structSy M s a) Sval (svecPlace U)
        (fun i => c * a r i) sel DF MAClim l
      = (if inBand nf dt sel DF l ∧ ∃ csm, csm < cm ∧ σ csm l = r
          then Cx.ofReal (s r l) else 0) ∧
    sdofBell .FSDD nch cm nf dt (structSy M s a) Sval (svecPlace U)
        (fun i => c * a r i) sel DF MAClim l
      = (if inBand nf dt sel DF l ∧ ∃ csm, csm < cm ∧ σ csm l = r
          then Cx.ofReal (Cx.normSq c *
            (s r l + ∑ m ∈ (range M).erase r, Cx.normSq (cdot nch (a r) (a m)) * s m l))
          else 0) := by
  have hconj : ∀ m i, Cx.conj (a m i) = a m i := by
    intro m i; ext
    · rfl
    · simp [hreal m i]
  have hrec : Recorded nch cm M a σ (svecPlace U) l := by
    refine ⟨hlt, ?_, hinj⟩
    intro csm hcsm
    obtain ⟨w, hw, hv⟩ := hU csm hcsm
    refine ⟨Cx.conj w, ?_, ?_⟩
    · intro e
      apply hw
      have := congrArg Cx.conj e
      rwa [Cx.conj_conj, conj_zero] at this
    · intro i hi
      simp only [svecPlace, hv i hi, Cx.conj_mul, hconj]
  exact C07_bell_structured nch cm nf M dt s a Sval _ c sel DF MAClim σ r l hr hc hunit hsep hlim
    hrec hval

/-! ## 2. Consequences used by the accuracy oracle -/

/-- `(c·z = 0) ↔ (z = 0)` for a non-zero real factor -/
theorem smul_eq_zero_iff (c : K) (hc : c ≠ 0) (z : Cx K) : Cx.smul c z = 0 ↔ z = 0 := by
  constructor
  · intro h
    have h1 : c * z.re = 0 := congrArg Cx.re h
    have h2 : c * z.im = 0 := congrArg Cx.im h
    ext
    · simpa using (mul_eq_zero.mp h1).resolve_left hc
    · simpa using (mul_eq_zero.mp h2).resolve_left hc
  · intro h; rw [h]; exact CxL.smul_zero c

/-- **(a) Scale covariance of the bell and scale-freeness of its support.**  For `c > 0`, under
    the SVD contract (`U` unchanged, stored square roots multiplied by `r`, `r² = c`):
    `bell(c·Sy) = c·bell(Sy)` on every line, so the set of non-zero lines does not change. -/
theorem C07_bell_scale_support (m : Method) (hm : m = .FSDD ∨ m = .EFDD) (nch cm nf : Nat)
    (dt : K) (Sy : Nat → Nat → Nat → Cx K) (Sval : Nat → Nat → Nat → K)
    (Svec : Nat → Nat → Nat → Cx K) (phi : Nat → Cx K) (sel DF MAClim c r : K) (hc : 0 < c)
    (hr : r * r = c) (l : Nat) :
    sdofBell m nch cm nf dt (fun i j l => Cx.smul c (Sy i j l)) (fun i j l => r * Sval i j l)
        Svec phi sel DF MAClim l
      = Cx.smul c (sdofBell m nch cm nf dt Sy Sval Svec phi sel DF MAClim l) ∧
    (sdofBell m nch cm nf dt (fun i j l => Cx.smul c (Sy i j l)) (fun i j l => r * Sval i j l)
        Svec phi sel DF MAClim l = 0
      ↔ sdofBell m nch cm nf dt Sy Sval Svec phi sel DF MAClim l = 0) := by
  have hb : sdofBell m nch cm nf dt (fun i j l => Cx.smul c (Sy i j l))
        (fun i j l => r * Sval i j l) Svec phi sel DF MAClim l
      = Cx.smul c (sdofBell m nch cm nf dt Sy Sval Svec phi sel DF MAClim l) := by
    rcases hm with rfl | rfl
    · exact C07.C07_bell_scale_fsdd nch cm nf dt Sy Sval _ Svec phi sel DF MAClim c l
    · rw [← hr]; exact C07.C07_bell_scale_efdd nch cm nf dt Sy _ Sval Svec phi sel DF MAClim r l
  exact ⟨hb, by rw [hb]; exact smul_eq_zero_iff c (ne_of_gt hc) _⟩

/-- the modelled inverse transform (`np.fft.ifft(…, n=5·nf, norm="ortho").real`) is
    homogeneous for real factors, whatever the twiddle table and the `"ortho"` factor -/
theorem C07_ifft_homogeneous (nf : Nat) (tw : Nat → Cx K) (rs s : K) (b : Nat → Cx K) :
    ifftRe nf tw rs (fun l => Cx.smul s (b l)) = fun t => s * ifftRe nf tw rs b t := by
  funext t
  simp only [ifftRe, CxL.smul_mul, sumTo_smul, Cx.smul_re]
  ring

/-- **(a, continued) The normalised autocorrelation is scale free — through the modelled
    inverse FFT.**  `C07_scale` with its transform hypothesis discharged by the model
    `ifftRe` of `np.fft.ifft(SDOFbell, n=nIFFT, norm="ortho").real`: for `c > 0` the
    normalised correlation `SDOFcorr1[:n//2]/SDOFcorr1[argmax]` of `c·Sy` is the same sequence
    as that of `Sy`, hence so is everything `EFDD_mpe` computes from it. -/
theorem C07_scale_ifft (m : Method) (hm : m = .FSDD ∨ m = .EFDD) (nch cm nf : Nat) (dt : K)
    (Sy : Nat → Nat → Nat → Cx K) (Sval : Nat → Nat → Nat → K) (Svec : Nat → Nat → Nat → Cx K)
    (phi : Nat → Cx K) (sel DF MAClim c r : K) (hc : 0 < c) (hr : r * r = c)
    (tw : Nat → Cx K) (rs : K) (sppk npmax : Nat) :
    (∀ i, normCorr (5 * nf)
        (ifftRe nf tw rs (sdofBell m nch cm nf dt (fun i j l => Cx.smul c (Sy i j l))
          (fun i j l => r * Sval i j l) Svec phi sel DF MAClim)) i
      = normCorr (5 * nf)
        (ifftRe nf tw rs (sdofBell m nch cm nf dt Sy Sval Svec phi sel DF MAClim)) i) ∧
    postFft nf (normCorr (5 * nf)
        (ifftRe nf tw rs (sdofBell m nch cm nf dt (fun i j l => Cx.smul c (Sy i j l))
          (fun i j l => r * Sval i j l) Svec phi sel DF MAClim))) dt sppk npmax
      = postFft nf (normCorr (5 * nf)
        (ifftRe nf tw rs (sdofBell m nch cm nf dt Sy Sval Svec phi sel DF MAClim))) dt sppk npmax :=
  C07.C07_scale m hm nch cm nf dt Sy Sval Svec phi sel DF MAClim c r hc hr (ifftRe nf tw rs)
    (fun s b _ => C07_ifft_homogeneous nf tw rs s b) sppk npmax

/-- **(b) The MAC mask is invariant under a unitary change of the channel basis** applied to
    the reference shape and to the stored vectors. -/
theorem C07_mask_unitary (nch : Nat) (P : Nat → Nat → Cx K) (hP : IsUnitaryOn nch P)
    (phi : Nat → Cx K) (Svec : Nat → Nat → Nat → Cx K) (MAClim : K) (csm l : Nat) :
    maskAt nch (applyM nch P phi) (fun csm i l => applyM nch P (fun j => Svec csm j l) i)
        MAClim csm l
      = maskAt nch phi Svec MAClim csm l := by
  simp only [maskAt]
  rw [show (fun i => applyM nch P (fun j => Svec csm j l) i)
      = applyM nch P (fun j => Svec csm j l) from rfl, mac_unitary nch P hP]

/-- **(b) Unitary change of the channel basis.**  Replace `Sy` by `P·Sy·Pᴴ`, the reference
    shape by `P·φ` and the stored vectors by `P·S_vec` (singular values unchanged), `PᴴP = I`:
    the bell is the same sequence — same selected index set, same values — for both methods.

    (With the code's storage `conj(U)` the three replacements are what the SVD of `P·Sy·Pᴴ`
    gives when `P` is real — channel permutations, sign changes, rotations.  For a complex
    unitary `P` the stored vectors of `P·Sy·Pᴴ` turn with `conj(P)`: the mask statement
    `C07_mask_unitary` then applies with `conj(P)`, the FSDD value statement
    `quadForm_unitary` with `P`.) -/
theorem C07_bell_unitary (m : Method) (nch cm nf : Nat) (dt : K) (P : Nat → Nat → Cx K)
    (hP : IsUnitaryOn nch P) (Sy : Nat → Nat → Nat → Cx K) (Sval : Nat → Nat → Nat → K)
    (Svec : Nat → Nat → Nat → Cx K) (phi : Nat → Cx K) (sel DF MAClim : K) (l : Nat) :
    sdofBell m nch cm nf dt (conjBy nch P Sy) Sval
        (fun csm i l => applyM nch P (fun j => Svec csm j l) i) (applyM nch P phi)
        sel DF MAClim l
      = sdofBell m nch cm nf dt Sy Sval Svec phi sel DF MAClim l := by
  have hv : ∀ csm, bellVal m nch (conjBy nch P Sy) Sval (applyM nch P phi) csm l
      = bellVal m nch Sy Sval phi csm l := by
    intro csm
    cases m with
    | FSDD => exact quadForm_unitary nch P hP phi Sy l
    | EFDD => rfl
    | other => rfl
  simp only [sdofBell, bellAt, C07_mask_unitary nch P hP, hv]

/-! ## Non-vacuity and a witness -/
section examples

/-- two orthonormal complex shapes on two channels -/
def exA : Nat → Nat → Cx Rat := fun m i =>
  if m = 0 then (if i = 0 then ⟨3/5, 0⟩ else ⟨0, 4/5⟩) else (if i = 0 then ⟨0, 4/5⟩ else ⟨3/5, 0⟩)
/-- line weights of the two modes on six lines -/
def exS : Nat → Nat → Rat := fun m l =>
  if m = 0 then [1, 4, 9, 16, 4, 0].getD l 0 else [4, 1, 1, 4, 9, 25].getD l 0
/-- the dominant and the second mode per line -/
def exσ : Nat → Nat → Nat := fun csm l =>
  let d := if exS 1 l < exS 0 l then 0 else 1
  if csm = 0 then d else 1 - d
/-- stored square roots of the recorded weights -/
def exSval : Nat → Nat → Nat → Rat := fun i j l =>
  if i = j then [[1, 2, 3, 4, 2, 0], [2, 1, 1, 2, 3, 5]].getD (exσ i l) [] |>.getD l 0 else 0
/-- stored vectors: `i·a_{σ(csm,l)}` -/
def exSvec : Nat → Nat → Nat → Cx Rat := fun csm i l => (⟨0, 1⟩ : Cx Rat) * exA (exσ csm l) i

example : ∀ m, m < 2 → ∀ m', m' < 2 →
    (cdot 2 (exA m) (exA m')).re = (if m = m' then 1 else 0) ∧
    (cdot 2 (exA m) (exA m')).im = 0 := by decide +kernel

/-- the hypotheses of `C07_bell_orthonormal` hold for this instance (`cm = 2`, every line) -/
example (l : Nat) : Recorded 2 2 2 exA exσ exSvec l where
  lt := by
    intro csm _
    simp only [exσ]
    split_ifs <;> omega
  vec := fun csm _ => ⟨⟨0, 1⟩, by intro h; have := congrArg Cx.im h; simp at this, fun i _ => rfl⟩
  inj := by
    intro c c' hc hc' h
    simp only [exσ] at h
    have h0 : c = 0 ∨ c = 1 := by omega
    have h1 : c' = 0 ∨ c' = 1 := by omega
    rcases h0 with rfl | rfl <;> rcases h1 with rfl | rfl <;> simp at h <;>
      first | rfl | (split_ifs at h)

example : ∀ l, l < 6 → ∀ csm, csm < 2 → exSval csm csm l ^ 2 = exS (exσ csm l) l := by
  decide +kernel

/-- the conclusion on this instance, by evaluation (`cm = 1`, band `[1, 5)`, `φ = 2·a₀`):
    EFDD keeps `s₀` exactly on the lines 1, 2, 3 where mode 0 dominates;
    FSDD returns `|2|²·s₀` there -/
example : (List.range 6).map (fun l =>
    (sdofBell .EFDD 2 1 6 (1/12 : Rat) (structSy 2 exS exA) exSval exSvec
      (fun i => (⟨2, 0⟩ : Cx Rat) * exA 0 i) 3 2 (17/20) l).re) = [0, 4, 9, 16, 0, 0] := by
  decide +kernel
example : (List.range 6).map (fun l =>
    (sdofBell .FSDD 2 1 6 (1/12 : Rat) (structSy 2 exS exA) exSval exSvec
      (fun i => (⟨2, 0⟩ : Cx Rat) * exA 0 i) 3 2 (17/20) l).re) = [0, 16, 36, 64, 0, 0] := by
  decide +kernel
/-- `cm = 2`: mode 0 is among the two recorded modes on every line of the band -/
example : (List.range 6).map (fun l =>
    (sdofBell .EFDD 2 2 6 (1/12 : Rat) (structSy 2 exS exA) exSval exSvec
      (fun i => (⟨2, 0⟩ : Cx Rat) * exA 0 i) 3 2 (17/20) l).re) = [0, 4, 9, 16, 4, 0] := by
  decide +kernel

/-- a real rotation is unitary (`IsUnitaryOn` is satisfiable by a non-trivial matrix) -/
def exP : Nat → Nat → Cx Rat := fun i j =>
  if i = 0 then (if j = 0 then ⟨3/5, 0⟩ else ⟨-4/5, 0⟩) else (if j = 0 then ⟨4/5, 0⟩ else ⟨3/5, 0⟩)
example : ∀ j, j < 2 → ∀ k, k < 2 →
    (sumTo 2 (fun i => Cx.conj (exP i j) * exP i k)).re = (if j = k then 1 else 0) ∧
    (sumTo 2 (fun i => Cx.conj (exP i j) * exP i k)).im = 0 := by decide +kernel

/-- `C07_bell_scale_support`, `C07_scale_ifft`: `c = 4`, `r = 2` -/
example : (0 : Rat) < 4 ∧ (2 : Rat) * 2 = 4 := by decide +kernel

/-- **Witness (complex shapes, convention of the code).**  Stored shapes `ψ_m = conj(a_m)`,
    reference `φ = ψ₀`, weights `s₀ = 625`, `s₁ = 0` on the line: the MAC test passes
    (the line belongs to mode 0), EFDD returns `625`, but FSDD's `φᴴ·Sy·φ` is `49`, and with
    `s₀ = 0`, `s₁ = 625` it is `576` although mode 0 is absent:
    `|Σ a₀(i)²|² = 49/625`, `|Σ a₀(i)·a₁(i)|² = 576/625`.  For complex mode shapes the FSDD
    bell of the code is *not* the reference mode's spectral density (outside the domain of
    C07, which is stated for real mode shapes). -/
theorem C07_fsdd_complex_shape_witness :
    let ψ0 : Nat → Cx Rat := fun i => Cx.conj (exA 0 i)
    let Sy0 : Nat → Nat → Nat → Cx Rat := structSy 2 (fun m _ => if m = 0 then 625 else 0) exA
    let Sy1 : Nat → Nat → Nat → Cx Rat := structSy 2 (fun m _ => if m = 0 then 0 else 625) exA
    let Svec : Nat → Nat → Nat → Cx Rat := fun _ i _ => ψ0 i
    maskAt 2 ψ0 Svec (17/20) 0 0 = true ∧
    (bellAt .EFDD 2 1 Sy0 (fun _ _ _ => 25) Svec ψ0 (17/20) 0).re = 625 ∧
    (bellAt .FSDD 2 1 Sy0 (fun _ _ _ => 25) Svec ψ0 (17/20) 0).re = 49 ∧
    (bellAt .FSDD 2 1 Sy1 (fun _ _ _ => 25) Svec ψ0 (17/20) 0).re = 576 := by
  decide +kernel

end examples
end PV.C07Bell
