import PyomaVerif.Props.C12
import PyomaVerif.Lemmas.Realise
namespace PV.C12
open PV PV.Mat Matrix Finset

variable {K : Type} [Field K]

/-- splitting a sum over `Fin (a+b)` at `a` (functions of the index value) -/
theorem sum_fin_split (a b : ℕ) (f : ℕ → K) :
    ∑ t : Fin (a + b), f t.1 = ∑ t : Fin a, f t.1 + ∑ t : Fin b, f (a + t.1) := by
  rw [Fin.sum_univ_add]
  simp

def datH (a b : ℕ) (r : ℕ → ℕ → K) : Matrix (Fin b) (Fin a) K := Matrix.of fun i j => r j.1 (a + i.1)
def datL11 (a : ℕ) (r : ℕ → ℕ → K) : Matrix (Fin a) (Fin a) K := Matrix.of fun i t => r t.1 i.1
def datL22 (a b : ℕ) (r : ℕ → ℕ → K) : Matrix (Fin b) (Fin b) K := Matrix.of fun i t => r (a + t.1) (a + i.1)
def datQ1 (a n : ℕ) (q : ℕ → ℕ → K) : Matrix (Fin n) (Fin a) K := Matrix.of fun c t => q c.1 t.1
def datQ2 (a b n : ℕ) (q : ℕ → ℕ → K) : Matrix (Fin n) (Fin b) K := Matrix.of fun c t => q c.1 (a + t.1)
def datYf (a b n : ℕ) (ys : ℕ → ℕ → K) : Matrix (Fin b) (Fin n) K := Matrix.of fun i c => ys (a + i.1) c.1

/-- **Data-driven method, at the level of the model.** Let `Ys = [Yp; Yf]` be the stacked past-reference
    / future data matrices the model builds (`a` and `b` rows, `n` columns), and suppose the external QR
    returned `Q` (n × (a+b), orthonormal columns) and an upper-triangular `R` with `Ysᵀ = Q·R`.
    Then the block the code cuts out, `H = Rᵀ[a:, :a]` (`hankDatOfR`, see `hankDatOfR_entry`), has the
    Gram matrix of the orthogonal projection of the future outputs onto the past reference outputs. -/
theorem C12_dat_model {a b n : ℕ} (ys q r : ℕ → ℕ → K)
    (hQR : ∀ (i : Fin (a + b)) (c : Fin n), ys i.1 c.1 = ∑ t : Fin (a + b), q c.1 t.1 * r t.1 i.1)
    (hOrth : ∀ (s t : Fin (a + b)), ∑ c : Fin n, q c.1 s.1 * q c.1 t.1 = if s = t then 1 else 0)
    (hTri : ∀ i j, j < i → r i j = 0)
    (W : Matrix (Fin a) (Fin a) K)
    (hW : (toMx a n ys * (toMx a n ys)ᵀ) * W = 1) :
    datH a b r * (datH a b r)ᵀ
      = datYf a b n ys * (toMx a n ys)ᵀ * W * (toMx a n ys * (datYf a b n ys)ᵀ) := by
  have h11 : (datQ1 a n q)ᵀ * datQ1 a n q = 1 := by
    ext s t
    have := hOrth ⟨s.1, by omega⟩ ⟨t.1, by omega⟩
    simp only [Matrix.mul_apply, Matrix.transpose_apply, Matrix.one_apply, datQ1, Matrix.of_apply]
    rw [this]; simp [Fin.ext_iff]
  have h21 : (datQ2 a b n q)ᵀ * datQ1 a n q = 0 := by
    ext s t
    have := hOrth ⟨a + s.1, by omega⟩ ⟨t.1, by omega⟩
    simp only [Matrix.mul_apply, Matrix.transpose_apply, Matrix.zero_apply, datQ2, datQ1, Matrix.of_apply]
    rw [this]
    have : (⟨a + s.1, by omega⟩ : Fin (a + b)) ≠ ⟨t.1, by omega⟩ := by
      intro h; have := congrArg Fin.val h; simp at this; omega
    simp [this]
  have hYp : toMx a n ys = datL11 a r * (datQ1 a n q)ᵀ := by
    ext i c
    have := hQR ⟨i.1, by omega⟩ c
    simp only [toMx, Matrix.mul_apply, Matrix.transpose_apply, datL11, datQ1, Matrix.of_apply]
    rw [this, sum_fin_split a b (fun t => q c.1 t * r t i.1)]
    have hz : ∑ t : Fin b, q c.1 (a + t.1) * r (a + t.1) i.1 = 0 := by
      apply Finset.sum_eq_zero; intro t _
      rw [hTri (a + t.1) i.1 (by omega), mul_zero]
    rw [hz, add_zero]
    apply Finset.sum_congr rfl; intro t _; ring
  have hYf : datYf a b n ys = datH a b r * (datQ1 a n q)ᵀ + datL22 a b r * (datQ2 a b n q)ᵀ := by
    ext i c
    have := hQR ⟨a + i.1, by omega⟩ c
    simp only [datYf, Matrix.add_apply, Matrix.mul_apply, Matrix.transpose_apply, datH, datL22, datQ1, datQ2,
      Matrix.of_apply]
    rw [this, sum_fin_split a b (fun t => q c.1 t * r t (a + i.1))]
    congr 1
    · apply Finset.sum_congr rfl; intro t _; ring
    · apply Finset.sum_congr rfl; intro t _; ring
  exact C12_dat_gram (datL11 a r) (datH a b r) (datL22 a b r) (datQ1 a n q) (datQ2 a b n q)
    (toMx a n ys) (datYf a b n ys) h11 h21 hYp hYf W hW

omit [Field K] in
/-- the model's `hankDatOfR` is that block: entry `(i, j)` is `R[j, nref·(p+1) + i]`, i.e.
    `datH (nref·(p+1)) _ R.e` -/
theorem hankDatOfR_entry (R : Mat K) (nref p i j : ℕ) :
    (hankDatOfR R nref p).e i j = R.e j (nref * (p + 1) + i) := rfl

/-- and the stacked matrix of the model has the past-reference rows first, then the future rows -/
theorem hankYs_rows (Y Yref : Mat K) (p : ℕ) (s : K) (i c : ℕ) :
    (hankYs Y Yref p s).e i c =
      if i < (hankYp Y.c Yref p s).r then (hankYp Y.c Yref p s).e i c
      else (hankYf Y p s).e (i - (hankYp Y.c Yref p s).r) c := rfl

end PV.C12
