import PyomaVerif.Props.C12
import PyomaVerif.Lemmas.Realise
import PyomaVerif.Lemmas.DatGram
namespace PV.C12
open PV PV.Mat Matrix Finset

variable {K : Type} [Field K]

/-- splitting a sum over `Fin (a+b)` at `a` (functions of the index value) -/
theorem sum_fin_split (a b : ℕ) (f : ℕ → K) :
    ∑ t : Fin (a + b), f t.1 = ∑ t : Fin a, f t.1 + ∑ t : Fin b, f (a + t.1) := by
  rw [Fin.sum_univ_add]
  simp

def datH (a b : ℕ) (r : ℕ → ℕ → K) : Matrix (Fin b) (Fin a) K := Matrix.of fun i j => r j.1 (a + i.1)
def datL11 (a : ℕ) (r : ℕ → ℕ → K) : Matrix (Fin a) (Fin a) K := Matrix.of fun i t => r t.1 i.1
def datL22 (a b : ℕ) (r : ℕ → ℕ → K) : Matrix (Fin b) (Fin b) K := Matrix.of fun i t => r (a + t.1) (a + i.1)
def datQ1 (a n : ℕ) (q : ℕ → ℕ → K) : Matrix (Fin n) (Fin a) K := Matrix.of fun c t => q c.1 t.1
def datQ2 (a b n : ℕ) (q : ℕ → ℕ → K) : Matrix (Fin n) (Fin b) K := Matrix.of fun c t => q c.1 (a + t.1)
def datYf (a b n : ℕ) (ys : ℕ → ℕ → K) : Matrix (Fin b) (Fin n) K := Matrix.of fun i c => ys (a + i.1) c.1

/-- **Data-driven method, at the level of the model.** Let `Ys = [Yp; Yf]` be the stacked past-reference
    / future data matrices the model builds (`a` and `b` rows, `n` columns), and suppose the external QR
    returned `Q` (n × (a+b), orthonormal columns) and an upper-triangular `R` with `Ysᵀ = Q·R`.
    Then the block the code cuts out, `H = Rᵀ[a:, :a]` (`hankDatOfR`, see `hankDatOfR_entry`), has the
    Gram matrix of the orthogonal projection of the future outputs onto the past reference outputs. -/
theorem C12_dat_model {a b n : ℕ} (ys q r : ℕ → ℕ → K)
    (hQR : ∀ (i : Fin (a + b)) (c : Fin n), ys i.1 c.1 = ∑ t : Fin (a + b), q c.1 t.1 * r t.1 i.1)
    (hOrth : ∀ (s t : Fin (a + b)), ∑ c : Fin n, q c.1 s.1 * q c.1 t.1 = if s = t then 1 else 0)
    (hTri : ∀ i j, j < i → r i j = 0)
    (W : Matrix (Fin a) (Fin a) K)
    (hW : (toMx a n ys * (toMx a n ys)ᵀ) * W = 1) :
    datH a b r * (datH a b r)ᵀ
      = datYf a b n ys * (toMx a n ys)ᵀ * W * (toMx a n ys * (datYf a b n ys)ᵀ) := by
  have h11 : (datQ1 a n q)ᵀ * datQ1 a n q = 1 := by
    ext s t
    have := hOrth ⟨s.1, by omega⟩ ⟨t.1, by omega⟩
    simp only [Matrix.mul_apply, Matrix.transpose_apply, Matrix.one_apply, datQ1, Matrix.of_apply]
    rw [this]; simp [Fin.ext_iff]
  have h21 : (datQ2 a b n q)ᵀ * datQ1 a n q = 0 := by
    ext s t
    have := hOrth ⟨a + s.1, by omega⟩ ⟨t.1, by omega⟩
    simp only [Matrix.mul_apply, Matrix.transpose_apply, Matrix.zero_apply, datQ2, datQ1, Matrix.of_apply]
    rw [this]
    have : (⟨a + s.1, by omega⟩ : Fin (a + b)) ≠ ⟨t.1, by omega⟩ := by
      intro h; have := congrArg Fin.val h; simp at this; omega
    simp [this]
  have hYp : toMx a n ys = datL11 a r * (datQ1 a n q)ᵀ := by
    ext i c
    have := hQR ⟨i.1, by omega⟩ c
    simp only [toMx, Matrix.mul_apply, Matrix.transpose_apply, datL11, datQ1, Matrix.of_apply]
    rw [this, sum_fin_split a b (fun t => q c.1 t * r t i.1)]
    have hz : ∑ t : Fin b, q c.1 (a + t.1) * r (a + t.1) i.1 = 0 := by
      apply Finset.sum_eq_zero; intro t _
      rw [hTri (a + t.1) i.1 (by omega), mul_zero]
    rw [hz, add_zero]
    apply Finset.sum_congr rfl; intro t _; ring
  have hYf : datYf a b n ys = datH a b r * (datQ1 a n q)ᵀ + datL22 a b r * (datQ2 a b n q)ᵀ := by
    ext i c
    have := hQR ⟨a + i.1, by omega⟩ c
    simp only [datYf, Matrix.add_apply, Matrix.mul_apply, Matrix.transpose_apply, datH, datL22, datQ1, datQ2,
      Matrix.of_apply]
    rw [this, sum_fin_split a b (fun t => q c.1 t * r t (a + i.1))]
    congr 1
    · apply Finset.sum_congr rfl; intro t _; ring
    · apply Finset.sum_congr rfl; intro t _; ring
  exact C12_dat_gram (datL11 a r) (datH a b r) (datL22 a b r) (datQ1 a n q) (datQ2 a b n q)
    (toMx a n ys) (datYf a b n ys) h11 h21 hYp hYf W hW

omit [Field K] in
/-- the model's `hankDatOfR` is that block: entry `(i, j)` is `R[j, nref·(p+1) + i]`, i.e.
    `datH (nref·(p+1)) _ R.e` -/
theorem hankDatOfR_entry (R : Mat K) (nref p i j : ℕ) :
    (hankDatOfR R nref p).e i j = R.e j (nref * (p + 1) + i) := rfl

/-- and the stacked matrix of the model has the past-reference rows first, then the future rows -/
theorem hankYs_rows (Y Yref : Mat K) (p : ℕ) (s : K) (i c : ℕ) :
    (hankYs Y Yref p s).e i c =
      if i < (hankYp Y.c Yref p s).r then (hankYp Y.c Yref p s).e i c
      else (hankYf Y p s).e (i - (hankYp Y.c Yref p s).r) c := rfl

/-! ## The data-driven clause over the model functions, for a recorded QR factor of any height

`build_hank(…, "dat")` is `hankDat R r p` for `R = np.linalg.qr(Ys.T, mode="r")`, `Ys = hankYs Y Yref p s`
(driver op `hank_dat_rec`, compared entrywise with the real function on the recorded `R`).  The contract
`QrRec` of the recorded factor is defined in `Lemmas/DatGram.lean`. -/

omit [Field K] in
/-- **Layout of the data-driven matrix, every record length.**  `R` has `(r+l)(p+1)` columns (one per row
    of `Ys`): the returned block has `(p+1)·l` rows and `min((p+1)·r, R.r)` columns. -/
theorem C12_shape_dat_rec (R : Mat K) (l r p : ℕ) (hc : R.c = (r + l) * (p + 1)) :
    (hankDat R r p).r = (p + 1) * l ∧ (hankDat R r p).c = min ((p + 1) * r) R.r := by
  simp only [hankDat, Mat.transpose, hc]
  constructor
  · rw [Nat.add_mul, Nat.add_sub_cancel_left, Nat.mul_comm]
  · rw [Nat.mul_comm]

omit [Field K] in
/-- with numpy's height `R.r = min(n, (r+l)(p+1))` (`n = N−1` columns of `Ys`): `min((p+1)·r, n)` columns —
    the prescribed `(p+1)·r` **iff** `(p+1)·r ≤ n`; a shorter record gives a NARROWER matrix (the real
    function does that: 6×2 for `l=3, r=2, br=1`, 6 samples). -/
theorem C12_shape_dat_numpy (R : Mat K) (l r p n : ℕ) (hc : R.c = (r + l) * (p + 1))
    (hk : R.r = min n ((r + l) * (p + 1))) :
    (hankDat R r p).r = (p + 1) * l ∧ (hankDat R r p).c = min ((p + 1) * r) n := by
  refine ⟨(C12_shape_dat_rec R l r p hc).1, ?_⟩
  rw [(C12_shape_dat_rec R l r p hc).2, hk]
  have : (p + 1) * r ≤ (r + l) * (p + 1) := by
    rw [Nat.mul_comm]; exact Nat.mul_le_mul_right _ (Nat.le_add_right r l)
  omega

omit [Field K] in
/-- the two model functions agree (shape and entries) as soon as `R` has at least `r(p+1)` rows -/
theorem hankDat_eq_hankDatOfR (R : Mat K) (r p : ℕ) (h : r * (p + 1) ≤ R.r) :
    hankDat R r p = hankDatOfR R r p := by
  simp only [hankDat, hankDatOfR, Mat.transpose, Nat.min_eq_left h]

section gram
variable (Y Yref : Mat K) (p : ℕ) (s : K) (Q R : Mat K)

/-- **Data-driven clause, no rank condition.**  For the model's stacked matrix `Ys = hankYs Y Yref p s`
    and a recorded factor `R` with the QR contract, the returned block `H = hankDat R r p`
    (`a' = min((p+1)r, R.r)` columns) has the Gram matrix of the future outputs `Yf = hankYf Y p s`
    projected on the span of the first `a'` columns of `Q` — a subspace that CONTAINS the rows of the
    past reference outputs `Yp` (third conjunct: `Yp = L₁₁·Q₁ᵀ`), and equals their span exactly when `Yp` has
    full rank (`C12_dat_gram_model`). -/
theorem C12_dat_gram_span_model (hqr : QrRec (hankYs Y Yref p s) Q R) :
    let a := (p + 1) * Yref.r
    let b := (p + 1) * Y.r
    let n := Y.c - p - (p + 1) - 1
    let a' := min a R.r
    let H := toMx b a' (hankDat R Yref.r p).e
    let Q1 : Matrix (Fin n) (Fin a') K := toMx n a' Q.e
    let Yf := toMx b n (hankYf Y p s).e
    Q1ᵀ * Q1 = 1 ∧ H = Yf * Q1 ∧ H * Hᵀ = Yf * (Q1 * Q1ᵀ) * Yfᵀ ∧
      ∃ L11 : Matrix (Fin a) (Fin a') K, toMx a n (hankYp Y.c Yref p s).e = L11 * Q1ᵀ := by
  intro a b n a' H Q1 Yf
  obtain ⟨h11, h21, hYp, hYf⟩ := qr_blocks Y Yref p s Q R hqr
  exact ⟨h11, DatGram.L21_eq _ _ _ _ _ h11 h21 hYf, DatGram.gram_span _ _ _ _ _ h11 h21 hYf, _, hYp⟩

/-- **Data-driven clause over the model, projection form valid for rank-deficient Gram matrices and short
    records.**  `Ys = hankYs Y Yref p s` (the model's stacked matrix), `R` a recorded factor with the QR
    contract `QrRec` (any height), `H = hankDat R r p` the block the code returns.  `W` is ANY generalised
    inverse of the past Gram matrix `PP = Yp·Ypᵀ` (`PP·W·PP = PP`: the inverse when there is one — the
    former hypothesis `hW` — the Moore–Penrose inverse otherwise), so that `Ypᵀ·W·Yp` is the orthogonal
    projector on the row space of `Yp`.  Then
    `H·Hᵀ = Yf·Ypᵀ·W·Yp·Yfᵀ` — the Gram matrix of the orthogonal projection of the future outputs on the
    past reference outputs.

    Remaining hypothesis beyond the property text: **`Yp` has full rank**, given by a one-sided inverse
    `Z` (`Yp·Z = 1`: independent rows, needs `(p+1)r ≤ N−1`; or `Z·Yp = 1`: independent columns, the
    short-record case `N−1 ≤ (p+1)r`, where `PP` is necessarily singular).  It cannot be dropped:
    `C12_dat_rank_needed` is an instance of the model with a duplicated reference channel where everything
    else holds and the identity fails; the real function does the same (`ref_ind = [0, 0]`: relative
    difference 0.9 between the two Gram matrices). -/
theorem C12_dat_gram_model (hqr : QrRec (hankYs Y Yref p s) Q R)
    (W : Matrix (Fin ((p + 1) * Yref.r)) (Fin ((p + 1) * Yref.r)) K)
    (Z : Matrix (Fin (Y.c - p - (p + 1) - 1)) (Fin ((p + 1) * Yref.r)) K) :
    let a := (p + 1) * Yref.r
    let b := (p + 1) * Y.r
    let n := Y.c - p - (p + 1) - 1
    let H := toMx b (min a R.r) (hankDat R Yref.r p).e
    let Yp := toMx a n (hankYp Y.c Yref p s).e
    let Yf := toMx b n (hankYf Y p s).e
    (Yp * Ypᵀ) * W * (Yp * Ypᵀ) = Yp * Ypᵀ → (Yp * Z = 1 ∨ Z * Yp = 1) →
      H * Hᵀ = Yf * Ypᵀ * W * (Yp * Yfᵀ) := by
  intro a b n H Yp Yf hW hZ
  obtain ⟨h11, h21, hYp, hYf⟩ := qr_blocks Y Yref p s Q R hqr
  exact (DatGram.gram_ginv _ _ _ _ _ Yp Yf (Nat.min_le_left _ _) h11 h21 hYp hYf W hW Z hZ).2

/-- **Short records** (`R` has at most `(p+1)r` rows — with numpy's height: `N−1 ≤ (p+1)r`): the returned
    block has `R.r` columns and its Gram matrix is that of the future outputs themselves, `H·Hᵀ = Yf·Yfᵀ`
    (the past outputs span at most — for full rank exactly — the whole sample space, the projector is the
    identity).  No rank condition. -/
theorem C12_dat_gram_short (hqr : QrRec (hankYs Y Yref p s) Q R) (hk : R.r ≤ (p + 1) * Yref.r) :
    let b := (p + 1) * Y.r
    let n := Y.c - p - (p + 1) - 1
    let H := toMx b (min ((p + 1) * Yref.r) R.r) (hankDat R Yref.r p).e
    let Yf := toMx b n (hankYf Y p s).e
    H * Hᵀ = Yf * Yfᵀ := by
  intro b n H Yf
  obtain ⟨h11, h21, -, hYf⟩ := qr_blocks Y Yref p s Q R hqr
  have hb' : R.r - min ((p + 1) * Yref.r) R.r = 0 := by omega
  have hYf' : Yf = H * (toMx n (min ((p + 1) * Yref.r) R.r) Q.e)ᵀ := by
    show toMx _ _ (hankYf Y p s).e = _
    rw [hYf]
    ext i c
    simp only [Matrix.add_apply, Matrix.mul_apply, H]
    rw [add_eq_left]
    apply Finset.sum_eq_zero
    intro x _
    exact absurd x.2 (by omega)
  rw [hYf', Matrix.transpose_mul, Matrix.transpose_transpose, Matrix.mul_assoc,
    ← Matrix.mul_assoc _ (toMx n _ Q.e), h11, Matrix.one_mul]

end gram

/-! ### Non-vacuity and sharpness: exact rational instances of the model

In all three the data are chosen so that `Ys` is lower trapezoidal: `R = Ysᵀ` (cut to `min(n, a+b)` rows,
which is `Ysᵀ` itself here) with `Q` = identity satisfies the QR contract — numpy returns this `R` up to
the signs of its rows. -/
section instances

/-- `Q` = the `n × n` identity -/
def exQ (n : ℕ) : Mat ℚ := ⟨n, n, fun i j => if i = j then 1 else 0⟩

/-- (A) long record: 1 channel, 1 independent reference, `br = 1`, 8 samples: `Ys` is 4 × 4,
    `Yp = [[2,0,0,0],[1,2,0,0]]` (independent rows), `Yf = [[3,1,2,0],[1,2,0,5]]`, `H = [[3,1],[1,2]]`. -/
def exA_Y : Mat ℚ := ⟨1, 8, fun _ t => if t = 3 then 3 else if t = 4 then 1 else if t = 5 then 2 else if t = 7 then 5 else 0⟩
def exA_Yr : Mat ℚ := ⟨1, 8, fun _ t => if t = 1 then 1 else if t = 2 then 2 else 0⟩
def exA_R : Mat ℚ := Mat.transpose (hankYs exA_Y exA_Yr 1 1)
def exA_W : ℕ → ℕ → ℚ := fun i j =>
  if i = 0 ∧ j = 0 then 5/16 else if i = 1 ∧ j = 1 then 4/16 else -2/16
def exA_Z : ℕ → ℕ → ℚ := fun i j =>
  if i = 0 ∧ j = 0 then 1/2 else if i = 1 ∧ j = 0 then -1/4 else if i = 1 ∧ j = 1 then 1/2 else 0

theorem exA_qr : QrRec (hankYs exA_Y exA_Yr 1 1) (exQ 4) exA_R where
  cols := by decide
  dec := by decide +kernel
  orth := by decide +kernel
  tri := by decide +kernel

example : (hankDat exA_R exA_Yr.r 1).r = 2 ∧ (hankDat exA_R exA_Yr.r 1).c = 2 ∧
    (hankDat exA_R exA_Yr.r 1).e 0 0 = 3 ∧ (hankDat exA_R exA_Yr.r 1).e 0 1 = 1 ∧
    (hankDat exA_R exA_Yr.r 1).e 1 0 = 1 ∧ (hankDat exA_R exA_Yr.r 1).e 1 1 = 2 := by decide +kernel

/-- all hypotheses of `C12_dat_gram_model` hold jointly (right-inverse branch, `W = (Yp·Ypᵀ)⁻¹`) -/
example := C12_dat_gram_model exA_Y exA_Yr 1 1 (exQ 4) exA_R exA_qr (toMx _ _ exA_W) (toMx _ _ exA_Z)
  (by decide +kernel) (Or.inl (by decide +kernel))

/-- (B) short record: 1 channel, 2 independent references, `br = 1`, 7 samples: `n = 3 < a = 4`, `Ys` is
    6 × 3, `Yp = [[1,0,0],[2,1,0],[3,1,0],[0,2,1]]` (independent columns, `Yp·Ypᵀ` singular),
    `R` is 3 × 6 and `H = Rᵀ[4:, :4]` is 2 × 3. -/
def exB_Y : Mat ℚ := ⟨1, 7, fun _ t => (t : ℚ) - 2⟩
def exB_Yr : Mat ℚ := ⟨2, 7, fun ch t =>
  if ch = 0 then (if t = 1 then 3 else if t = 2 then 1 else 0)
  else (if t = 2 then 2 else if t = 3 then 1 else 0)⟩
def exB_R : Mat ℚ := Mat.transpose (hankYs exB_Y exB_Yr 1 1)
def exB_Z : ℕ → ℕ → ℚ := fun i j =>
  if i = 0 then (if j = 0 then 1 else 0)
  else if i = 1 then (if j = 0 then -2 else if j = 1 then 1 else 0)
  else (if j = 0 then 4 else if j = 1 then -2 else if j = 3 then 1 else 0)

theorem exB_qr : QrRec (hankYs exB_Y exB_Yr 1 1) (exQ 3) exB_R where
  cols := by decide
  dec := by decide +kernel
  orth := by decide +kernel
  tri := by decide +kernel

example : exB_R.r = 3 ∧ exB_R.c = 6 ∧ (hankDat exB_R exB_Yr.r 1).r = 2 ∧ (hankDat exB_R exB_Yr.r 1).c = 3 ∧
    (hankDat exB_R exB_Yr.r 1).e 0 0 = 1 ∧ (hankDat exB_R exB_Yr.r 1).e 1 2 = 4 := by decide +kernel

/-- the fixed-width `hankDatOfR` is NOT what the code returns here (4 columns against the 3 of `hankDat` and of
    the real function): it mirrors the code only for `r(p+1) ≤ R.r` (`hankDat_eq_hankDatOfR`) -/
example : (hankDatOfR exB_R exB_Yr.r 1).c = 4 ∧ (hankDat exB_R exB_Yr.r 1).c = 3 := by decide

/-- all hypotheses of `C12_dat_gram_model` hold jointly in the left-inverse branch (`W = Zᵀ·Z`, a
    generalised inverse of the singular `Yp·Ypᵀ`), and those of `C12_dat_gram_short` -/
example := C12_dat_gram_model exB_Y exB_Yr 1 1 (exQ 3) exB_R exB_qr ((toMx 3 4 exB_Z)ᵀ * toMx 3 4 exB_Z)
  (toMx _ _ exB_Z) (by decide +kernel) (Or.inr (by decide +kernel))
example := C12_dat_gram_short exB_Y exB_Yr 1 1 (exQ 3) exB_R exB_qr (by decide)
example : (toMx 4 3 (hankYp exB_Y.c exB_Yr 1 1).e * (toMx 4 3 (hankYp exB_Y.c exB_Yr 1 1).e)ᵀ).det = 0 := by
  decide +kernel

/-- (C) duplicated reference channel (`Yref = Y[[0, 0]]`, 2 channels, `br = 0`, 6 samples):
    `Yp = [[1,0,0,0],[1,0,0,0]]`, `Yf = [[0,0,0,0],[2,3,1,1]]`. -/
def exC_Y : Mat ℚ := ⟨2, 6, fun ch t =>
  if ch = 0 then (if t = 1 then 1 else 0)
  else (if t = 2 then 2 else if t = 3 then 3 else if t = 4 then 1 else if t = 5 then 1 else 0)⟩
def exC_Yr : Mat ℚ := ⟨2, 6, fun _ t => exC_Y.e 0 t⟩
def exC_R : Mat ℚ := Mat.transpose (hankYs exC_Y exC_Yr 0 1)
def exC_W : ℕ → ℕ → ℚ := fun i j => if i = 0 ∧ j = 0 then 1 else 0

/-- **The full-rank hypothesis of `C12_dat_gram_model` cannot be dropped**: here the QR contract holds,
    `W` is a generalised inverse of `Yp·Ypᵀ = [[1,1],[1,1]]`, and the Gram matrix of the returned block
    (`[[0,0],[0,13]]`) is NOT that of the projection on the past reference outputs (`[[0,0],[0,4]]`): with
    dependent rows in `Yp` the factor has a zero on its diagonal, the corresponding column of `Q` is an
    arbitrary direction outside the past outputs, and the future outputs are projected on it as well. -/
theorem C12_dat_rank_needed :
    let Yp : Matrix (Fin 2) (Fin 4) ℚ := toMx _ _ (hankYp exC_Y.c exC_Yr 0 1).e
    let Yf : Matrix (Fin 2) (Fin 4) ℚ := toMx _ _ (hankYf exC_Y 0 1).e
    let H : Matrix (Fin 2) (Fin 2) ℚ := toMx _ _ (hankDat exC_R exC_Yr.r 0).e
    let W : Matrix (Fin 2) (Fin 2) ℚ := toMx _ _ exC_W
    QrRec (hankYs exC_Y exC_Yr 0 1) (exQ 4) exC_R ∧
      (0 + 1) * exC_Yr.r = 2 ∧ (0 + 1) * exC_Y.r = 2 ∧ exC_Y.c - 0 - (0 + 1) - 1 = 4 ∧
      min ((0 + 1) * exC_Yr.r) exC_R.r = 2 ∧
      (Yp * Ypᵀ) * W * (Yp * Ypᵀ) = Yp * Ypᵀ ∧
      H * Hᵀ ≠ Yf * Ypᵀ * W * (Yp * Yfᵀ) :=
  ⟨⟨by decide, by decide +kernel, by decide +kernel, by decide +kernel⟩, by decide, by decide, by decide,
    by decide, by decide +kernel, by decide +kernel⟩

end instances

end PV.C12
