import PyomaVerif.Model.EfddAll
import PyomaVerif.Lemmas.RankOneSpec
import PyomaVerif.Lemmas.Sum
import Mathlib.LinearAlgebra.Matrix.NonsingularInverse
import Mathlib.Analysis.Real.Sqrt
/-!
# C06 (depth) — faithfulness of the stored decomposition

`Efdd.svalsvec` (Model/EfddAll.lean) is `fdd.SD_svalsvec` with the two library calls
`np.linalg.svd` and `np.sqrt` applied *inside* the model (fields of `Efdd.Ext`; the driver op
`svalsvec_all` looks the recorded SVD up by its argument).  Under the contracts of the two
routines —

* `SvdContract`: for `A = SD[:, :, k]` (`nr × nc`, `nc ≤ nr`), `(U, S, Vᴴ) = svd(A)` with `UᴴU = I`,
  `VᴴV = I`-rows orthonormal, `S` non-negative and non-increasing, `A = U·diag(S)·Vᴴ`;
* `SqrtContract`: `0 ≤ √x`, `√x·√x = x` for `x ≥ 0` —

the stored pair `(S_val, S_vec)` satisfies, at every line `k`:

* `C06_sval_faithful`: `S_val[:, :, k]` is diagonal, its diagonal is `√S`, non-negative,
  non-increasing, and squares to the singular values;
* `C06_svec_faithful`: row `i` of `S_vec[:, :, k]` is the conjugate of column `i` of `U`, and
  `S_vec[:, :, k]` is unitary (rows orthonormal *and* columns orthonormal — the second from the
  first by `Matrix.mul_eq_one_comm`);
* `C06_decomposition`: `A = S_vecᴴ·diag(S_val²)·Vᴴ` for a `Vᴴ` with orthonormal rows;
* `C06_gram`: `A·Aᴴ = S_vecᴴ·diag(S_val⁴)·S_vec` — the stored pair alone determines `A·Aᴴ`;
* `C06_diagonalises`: `S_vec·(A·Aᴴ)·S_vecᴴ = diag(S_val⁴)` on the first `nc` rows — the stored
  rows diagonalise `A·Aᴴ` and the stored values are the fourth roots of its eigenvalues.

Non-negativity and ordering are now *derived* (from those of `S` through the square-root
contract), not assumed on the stored values as in `C06.C06_faithful_partial`.
That LAPACK honours `SvdContract` is floating point: checked on every recorded call by the
harness (`ctx.contract`), not proved.
-/
set_option linter.unusedSectionVars false
namespace PV.C06Faithful
open PV PV.Fdd PV.Efdd Finset

variable {K : Type} [Field K] [LinearOrder K] [IsStrictOrderedRing K]

/-- contract of `np.sqrt` on non-negative reals -/
def SqrtContract (sqrt : K → K) : Prop := ∀ x, 0 ≤ x → 0 ≤ sqrt x ∧ sqrt x * sqrt x = x

/-- the same, only at the `nc` values `S 0, …, S (nc-1)` the routine is applied to (what the
    theorems use; satisfiable over `ℚ`) -/
def SqrtOn (sqrt : K → K) (S : Nat → K) (nc : Nat) : Prop :=
  ∀ i, i < nc → 0 ≤ sqrt (S i) ∧ sqrt (S i) * sqrt (S i) = S i

theorem SqrtContract.on {sqrt : K → K} (h : SqrtContract sqrt) (S : Nat → K) (nc : Nat)
    (hS : ∀ i, i < nc → 0 ≤ S i) : SqrtOn sqrt S nc := fun i hi => h _ (hS i hi)

/-- contract of `np.linalg.svd` for an `nr × nc` matrix `A` (`nc ≤ nr`): `out = (U, S)`, and
    there is a `Vᴴ` (dropped by the code) completing the decomposition -/
structure SvdContract (nr nc : Nat) (A : Nat → Nat → Cx K) (out : SvdOut K) : Prop where
  /-- `UᴴU = I` -/
  unitary : ∀ a b, a < nr → b < nr →
    ∑ i ∈ range nr, Cx.conj (out.U i a) * out.U i b = if a = b then 1 else 0
  nonneg : ∀ i, i < nc → 0 ≤ out.S i
  mono : ∀ i j, i ≤ j → j < nc → out.S j ≤ out.S i
  /-- `A = U·diag(S)·Vᴴ` with `Vᴴ·V = I` -/
  dec : ∃ Vh : Nat → Nat → Cx K,
    (∀ a b, a < nc → b < nc → ∑ j ∈ range nc, Vh a j * Cx.conj (Vh b j) = if a = b then 1 else 0) ∧
    ∀ i j, i < nr → j < nc → A i j = ∑ r ∈ range nc, out.U i r * Cx.ofReal (out.S r) * Vh r j

/-- monotonicity of non-negative square roots -/
theorem sqrt_mono {sa sb a b : K} (hb0 : 0 ≤ sb) (ha2 : sa * sa = a) (hb2 : sb * sb = b)
    (hab : a ≤ b) : sa ≤ sb := by
  by_contra hlt
  have hlt : sb < sa := not_le.mp hlt
  have : sb * sb < sa * sa := by nlinarith
  rw [ha2, hb2] at this
  exact absurd hab (not_le.mpr this)

section stored
variable (E : Ext K) (nr nc nf : Nat) (SD : Nat → Nat → Nat → Cx K) (k : Nat)

/-- the matrix `SD[:, :, k]` handed to `np.linalg.svd` -/
abbrev lineMat (SD : Nat → Nat → Nat → Cx K) (k : Nat) : Nat → Nat → Cx K := fun i j => SD i j k

theorem sval_apply (i j : Nat) :
    (svalsvec E nr nc nf SD).1 i j k
      = if i = j then E.sqrt ((E.svd nr nc (lineMat SD k)).S i) else 0 := by
  rw [svalsvec_eq]; rfl

theorem svec_apply (i j : Nat) :
    (svalsvec E nr nc nf SD).2 i j k = Cx.conj ((E.svd nr nc (lineMat SD k)).U j i) := by
  rw [svalsvec_eq]; rfl

/-- **Stored values.**  `S_val[:, :, k]` is diagonal; its diagonal is `√S` — non-negative,
    non-increasing, squaring to the singular values `S` of `SD[:, :, k]`. -/
theorem C06_sval_faithful (hs : SqrtOn E.sqrt (E.svd nr nc (lineMat SD k)).S nc)
    (h : SvdContract nr nc (lineMat SD k) (E.svd nr nc (lineMat SD k))) :
    (∀ i j, i ≠ j → (svalsvec E nr nc nf SD).1 i j k = 0) ∧
    (∀ i, i < nc → (svalsvec E nr nc nf SD).1 i i k = E.sqrt ((E.svd nr nc (lineMat SD k)).S i) ∧
      0 ≤ (svalsvec E nr nc nf SD).1 i i k ∧
      (svalsvec E nr nc nf SD).1 i i k ^ 2 = (E.svd nr nc (lineMat SD k)).S i) ∧
    (∀ i j, i ≤ j → j < nc →
      (svalsvec E nr nc nf SD).1 j j k ≤ (svalsvec E nr nc nf SD).1 i i k) := by
  refine ⟨?_, ?_, ?_⟩
  · intro i j hij; rw [sval_apply, if_neg hij]
  · intro i hi
    rw [sval_apply, if_pos rfl]
    obtain ⟨h0, h2⟩ := hs i hi
    exact ⟨rfl, h0, by rw [sq]; exact h2⟩
  · intro i j hij hj
    rw [sval_apply, sval_apply, if_pos rfl, if_pos rfl]
    exact sqrt_mono (hs i (lt_of_le_of_lt hij hj)).1 (hs j hj).2 (hs i (lt_of_le_of_lt hij hj)).2
      (h.mono i j hij hj)

/-- `UᴴU = I ⇒ UUᴴ = I` for the square matrix `U` (index functions on `range nr`) -/
theorem unitary_comm (U : Nat → Nat → Cx K)
    (hU : ∀ a b, a < nr → b < nr → ∑ i ∈ range nr, Cx.conj (U i a) * U i b = if a = b then 1 else 0) :
    ∀ a b, a < nr → b < nr → ∑ i ∈ range nr, U a i * Cx.conj (U b i) = if a = b then 1 else 0 := by
  let M : Matrix (Fin nr) (Fin nr) (Cx K) := fun i j => U i j
  let Mh : Matrix (Fin nr) (Fin nr) (Cx K) := fun i j => Cx.conj (U j i)
  have h1 : Mh * M = 1 := by
    apply Matrix.ext
    intro a b
    rw [Matrix.mul_apply, Matrix.one_apply]
    have := hU a b a.isLt b.isLt
    rw [Finset.sum_range] at this
    simp only [Mh, M, this, Fin.ext_iff]
  have h2 : M * Mh = 1 := mul_eq_one_comm.mp h1
  intro a b ha hb
  have := congrFun (congrFun h2 ⟨a, ha⟩) ⟨b, hb⟩
  rw [Matrix.mul_apply, Matrix.one_apply] at this
  rw [Finset.sum_range]
  simp only [M, Mh, Fin.ext_iff] at this
  exact this

/-- **Stored vectors.**  Row `i` of `S_vec[:, :, k]` is the conjugate of column `i` of `U`, and
    `S_vec[:, :, k]` is unitary: its rows are orthonormal and its columns are orthonormal. -/
theorem C06_svec_faithful (h : SvdContract nr nc (lineMat SD k) (E.svd nr nc (lineMat SD k))) :
    (∀ i j, (svalsvec E nr nc nf SD).2 i j k = Cx.conj ((E.svd nr nc (lineMat SD k)).U j i)) ∧
    (∀ a b, a < nr → b < nr →
      ∑ j ∈ range nr, (svalsvec E nr nc nf SD).2 a j k * Cx.conj ((svalsvec E nr nc nf SD).2 b j k)
        = if a = b then 1 else 0) ∧
    (∀ a b, a < nr → b < nr →
      ∑ i ∈ range nr, Cx.conj ((svalsvec E nr nc nf SD).2 i a k) * (svalsvec E nr nc nf SD).2 i b k
        = if a = b then 1 else 0) := by
  refine ⟨svec_apply E nr nc nf SD k, ?_, ?_⟩
  · intro a b ha hb
    simp only [svec_apply, Cx.conj_conj]
    exact h.unitary a b ha hb
  · intro a b ha hb
    simp only [svec_apply, Cx.conj_conj]
    exact unitary_comm nr _ h.unitary a b ha hb

/-- **Decomposition through the stored pair.**  `SD[:, :, k] = S_vecᴴ·diag(S_val²)·Vᴴ` for a
    `Vᴴ` with orthonormal rows: the stored arrays are (the left half of) a singular value
    decomposition of the spectral matrix at line `k`. -/
theorem C06_decomposition (hs : SqrtOn E.sqrt (E.svd nr nc (lineMat SD k)).S nc)
    (h : SvdContract nr nc (lineMat SD k) (E.svd nr nc (lineMat SD k))) :
    ∃ Vh : Nat → Nat → Cx K,
      (∀ a b, a < nc → b < nc → ∑ j ∈ range nc, Vh a j * Cx.conj (Vh b j) = if a = b then 1 else 0) ∧
      ∀ i j, i < nr → j < nc → SD i j k
        = ∑ r ∈ range nc, Cx.conj ((svalsvec E nr nc nf SD).2 r i k)
            * Cx.ofReal ((svalsvec E nr nc nf SD).1 r r k ^ 2) * Vh r j := by
  obtain ⟨Vh, hV, hdec⟩ := h.dec
  refine ⟨Vh, hV, ?_⟩
  intro i j hi hj
  rw [show SD i j k = lineMat SD k i j from rfl, hdec i j hi hj]
  apply sum_congr rfl
  intro r hr
  rw [svec_apply, Cx.conj_conj, ((C06_sval_faithful E nr nc nf SD k hs h).2.1 r (mem_range.mp hr)).2.2]

/-- `A·Aᴴ = U·diag(S²)·Uᴴ` from `A = U·diag(S)·Vᴴ`, `VᴴV = I` -/
theorem gram_of_dec (A U Vh : Nat → Nat → Cx K) (S : Nat → K)
    (hV : ∀ a b, a < nc → b < nc → ∑ j ∈ range nc, Vh a j * Cx.conj (Vh b j) = if a = b then 1 else 0)
    (hdec : ∀ i j, i < nr → j < nc → A i j = ∑ r ∈ range nc, U i r * Cx.ofReal (S r) * Vh r j)
    (i j : Nat) (hi : i < nr) (hj : j < nr) :
    ∑ l ∈ range nc, A i l * Cx.conj (A j l)
      = ∑ r ∈ range nc, U i r * Cx.ofReal (S r * S r) * Cx.conj (U j r) := by
  have hconj : ∀ l, l < nc → Cx.conj (A j l)
      = ∑ r' ∈ range nc, Cx.conj (U j r') * Cx.ofReal (S r') * Cx.conj (Vh r' l) := by
    intro l hl
    rw [hdec j l hj hl]
    rw [show (Cx.conj (∑ r ∈ range nc, U j r * Cx.ofReal (S r) * Vh r l))
        = star (∑ r ∈ range nc, U j r * Cx.ofReal (S r) * Vh r l) from rfl, star_sum]
    apply sum_congr rfl; intro r _
    rw [Cx.star_eq_conj, Cx.conj_mul, Cx.conj_mul, Cx.conj_ofReal]
  calc ∑ l ∈ range nc, A i l * Cx.conj (A j l)
      = ∑ l ∈ range nc, ∑ r ∈ range nc, ∑ r' ∈ range nc,
          U i r * Cx.ofReal (S r) * (Cx.conj (U j r') * Cx.ofReal (S r')) * (Vh r l * Cx.conj (Vh r' l)) := by
        apply sum_congr rfl; intro l hl
        rw [hdec i l hi (mem_range.mp hl), hconj l (mem_range.mp hl), sum_mul_sum]
        apply sum_congr rfl; intro r _
        apply sum_congr rfl; intro r' _
        ring
    _ = ∑ r ∈ range nc, ∑ r' ∈ range nc,
          U i r * Cx.ofReal (S r) * (Cx.conj (U j r') * Cx.ofReal (S r')) * (if r = r' then 1 else 0) := by
        rw [sum_comm]
        apply sum_congr rfl; intro r hr
        rw [sum_comm]
        apply sum_congr rfl; intro r' hr'
        rw [← mul_sum, hV r r' (mem_range.mp hr) (mem_range.mp hr')]
    _ = ∑ r ∈ range nc, U i r * Cx.ofReal (S r * S r) * Cx.conj (U j r) := by
        apply sum_congr rfl; intro r hr
        simp only [mul_ite, mul_one, mul_zero]
        rw [sum_ite_eq (range nc) r, if_pos hr, Cx.ofReal_mul]
        ring

/-- **Gram matrix from the stored pair alone.**  `A·Aᴴ = S_vecᴴ·diag(S_val⁴)·S_vec` for
    `A = SD[:, :, k]`: entry `(i, j)` of `SD[:, :, k]·SD[:, :, k]ᴴ` is
    `Σ_r conj(S_vec[r, i, k])·S_val[r, r, k]⁴·S_vec[r, j, k]`. -/
theorem C06_gram (hs : SqrtOn E.sqrt (E.svd nr nc (lineMat SD k)).S nc)
    (h : SvdContract nr nc (lineMat SD k) (E.svd nr nc (lineMat SD k)))
    (i j : Nat) (hi : i < nr) (hj : j < nr) :
    ∑ l ∈ range nc, SD i l k * Cx.conj (SD j l k)
      = ∑ r ∈ range nc, Cx.conj ((svalsvec E nr nc nf SD).2 r i k)
          * Cx.ofReal ((svalsvec E nr nc nf SD).1 r r k ^ 4) * (svalsvec E nr nc nf SD).2 r j k := by
  obtain ⟨Vh, hV, hdec⟩ := h.dec
  have := gram_of_dec nr nc (lineMat SD k) _ Vh _ hV hdec i j hi hj
  rw [show (∑ l ∈ range nc, SD i l k * Cx.conj (SD j l k))
      = ∑ l ∈ range nc, lineMat SD k i l * Cx.conj (lineMat SD k j l) from rfl, this]
  apply sum_congr rfl
  intro r hr
  have h2 := ((C06_sval_faithful E nr nc nf SD k hs h).2.1 r (mem_range.mp hr)).2.2
  rw [svec_apply, svec_apply, Cx.conj_conj,
    show (svalsvec E nr nc nf SD).1 r r k ^ 4
      = (svalsvec E nr nc nf SD).1 r r k ^ 2 * (svalsvec E nr nc nf SD).1 r r k ^ 2 by ring, h2]

/-- **The stored rows diagonalise `A·Aᴴ`.**  `S_vec·(A·Aᴴ)·S_vecᴴ = diag(S_val⁴)` on the first
    `nc` rows (`nc ≤ nr`): the rows of `S_vec[:, :, k]` are (conjugated) eigenvectors of
    `SD[:, :, k]·SD[:, :, k]ᴴ` with eigenvalues `S_val⁴ = S²`. -/
theorem C06_diagonalises (hs : SqrtOn E.sqrt (E.svd nr nc (lineMat SD k)).S nc) (hnc : nc ≤ nr)
    (h : SvdContract nr nc (lineMat SD k) (E.svd nr nc (lineMat SD k)))
    (a b : Nat) (ha : a < nc) (hb : b < nc) :
    ∑ i ∈ range nr, ∑ j ∈ range nr,
        (svalsvec E nr nc nf SD).2 a i k * (∑ l ∈ range nc, SD i l k * Cx.conj (SD j l k))
          * Cx.conj ((svalsvec E nr nc nf SD).2 b j k)
      = if a = b then Cx.ofReal ((svalsvec E nr nc nf SD).1 a a k ^ 4) else 0 := by
  obtain ⟨_, hrow, _⟩ := C06_svec_faithful E nr nc nf SD k h
  set V := (svalsvec E nr nc nf SD).2 with hVdef
  set s4 : Nat → Cx K := fun r => Cx.ofReal ((svalsvec E nr nc nf SD).1 r r k ^ 4) with hs4
  have hrow' : ∀ a b, a < nr → b < nr →
      ∑ j ∈ range nr, V a j k * Cx.conj (V b j k) = if a = b then 1 else 0 := hrow
  calc ∑ i ∈ range nr, ∑ j ∈ range nr,
        V a i k * (∑ l ∈ range nc, SD i l k * Cx.conj (SD j l k)) * Cx.conj (V b j k)
      = ∑ i ∈ range nr, ∑ j ∈ range nr, ∑ r ∈ range nc,
          (V a i k * Cx.conj (V r i k)) * s4 r * (V r j k * Cx.conj (V b j k)) := by
        apply sum_congr rfl; intro i hi
        apply sum_congr rfl; intro j hj
        rw [C06_gram E nr nc nf SD k hs h i j (mem_range.mp hi) (mem_range.mp hj), mul_sum, sum_mul]
        apply sum_congr rfl; intro r _
        simp only [hs4, hVdef]; ring
    _ = ∑ r ∈ range nc, (∑ i ∈ range nr, V a i k * Cx.conj (V r i k)) * s4 r
          * (∑ j ∈ range nr, V r j k * Cx.conj (V b j k)) := by
        rw [sum_congr rfl (fun i _ => sum_comm), sum_comm]
        apply sum_congr rfl; intro r _
        rw [sum_mul, sum_mul]
        apply sum_congr rfl; intro i _
        rw [mul_sum]
    _ = ∑ r ∈ range nc, (if a = r then 1 else 0) * s4 r * (if r = b then 1 else 0) := by
        apply sum_congr rfl; intro r hr
        have hr' : r < nr := lt_of_lt_of_le (mem_range.mp hr) hnc
        rw [hrow' a r (lt_of_lt_of_le ha hnc) hr', hrow' r b hr' (lt_of_lt_of_le hb hnc)]
    _ = if a = b then s4 a else 0 := by
        simp only [ite_mul, one_mul, zero_mul]
        rw [sum_ite_eq (range nc) a, if_pos (mem_range.mpr ha)]
        split_ifs <;> simp

end stored

/-! ### Non-vacuity -/

/-- a `2 × 2` diagonal line `diag(4, 1)`, its SVD `U = I`, `S = (4, 1)`, `Vᴴ = I`, and a square
    root that is exact on the squares in play -/
def exSD : Nat → Nat → Nat → Cx Rat := fun i j _ =>
  if i = 0 ∧ j = 0 then ⟨4, 0⟩ else if i = 1 ∧ j = 1 then ⟨1, 0⟩ else 0
def exE : Ext Rat :=
  ⟨fun _ _ A => ⟨fun i j => if i = j then 1 else 0, fun i => (A i i).re⟩,
    fun x => if x = 4 then 2 else if x = 1 then 1 else if x = 0 then 0 else x,
    fun x => x, 3, fun _ _ _ => 0, fun _ _ => 0⟩

theorem two_cases {P : Nat → Nat → Prop} (h00 : P 0 0) (h01 : P 0 1) (h10 : P 1 0) (h11 : P 1 1) :
    ∀ a b, a < 2 → b < 2 → P a b := by
  intro a b ha hb
  obtain rfl | rfl : a = 0 ∨ a = 1 := by omega
  · obtain rfl | rfl : b = 0 ∨ b = 1 := by omega
    · exact h00
    · exact h01
  · obtain rfl | rfl : b = 0 ∨ b = 1 := by omega
    · exact h10
    · exact h11

example : SvdContract 2 2 (lineMat exSD 0) (exE.svd 2 2 (lineMat exSD 0)) := by
  refine ⟨two_cases (by decide +kernel) (by decide +kernel) (by decide +kernel) (by decide +kernel),
    by decide +kernel, ?_,
    ⟨fun i j => if i = j then 1 else 0,
      two_cases (by decide +kernel) (by decide +kernel) (by decide +kernel) (by decide +kernel),
      two_cases (by decide +kernel) (by decide +kernel) (by decide +kernel) (by decide +kernel)⟩⟩
  intro i j hij hj
  obtain rfl | rfl : j = 0 ∨ j = 1 := by omega
  · obtain rfl : i = 0 := by omega
    decide +kernel
  · obtain rfl | rfl : i = 0 ∨ i = 1 := by omega
    · decide +kernel
    · decide +kernel

example : SqrtOn exE.sqrt (exE.svd 2 2 (lineMat exSD 0)).S 2 := by
  unfold SqrtOn; decide +kernel

/-- `SqrtContract` itself is satisfiable (real square root) -/
example : SqrtContract Real.sqrt := fun x hx => ⟨Real.sqrt_nonneg x, Real.mul_self_sqrt hx⟩

end PV.C06Faithful
