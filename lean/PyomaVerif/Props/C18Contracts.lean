import PyomaVerif.Props.C18
import PyomaVerif.Lemmas.IndicatorsClosed
/-!
# C18 — the 2×2 contracts of `gen.MPC` / `gen.MPD` discharged (depth round, audit gap 10)

`Props/C18.lean` states MPC under `EigContract` (what `np.linalg.eigvals` returns for the 2×2
covariance) and MPD under `SvdMinor` (what `np.linalg.svd` returns as `V[:, 1]`) plus a gap
hypothesis.  Here

* `EigContract` is shown to be *exactly* "the two numbers are the roots of the characteristic
  polynomial of `S`", it is satisfied by the closed form `Sym2.eigvals` for any square-root
  function that squares back, and any pair satisfying it is that closed form up to order;
  `mpcEig?` (MPC with the eigenvalue step in closed form) then has bounds / invariance / the
  collinear value with no contract hypothesis;
* `SvdMinor` is satisfied by the closed-form direction `Sym2.minorDir` of the Gram matrix for
  *every* shape, any direction satisfying the contract gives the same MPD as the closed form
  unless the two singular values are exactly equal, and `mpdClosed` (MPD with the SVD step in
  closed form, the function the driver runs over IEEE doubles against `gen.MPD`) is invariant
  under complex scaling with the only proviso "no exact tie";
* `mpd?` (`none` = NaN) is `some` for every non-zero shape and non-zero direction: the
  denominator `Σ w[nz]` is positive — the "never NaN" clause for MPD.
-/
namespace PV.C18
open PV Finset
set_option linter.unusedSectionVars false

section field
variable {K : Type} [Field K] [LinearOrder K] [IsStrictOrderedRing K]

/-! ## MPC: the eigenvalue contract -/

/-- **`EigContract` = "roots of the characteristic polynomial"**: `l0, l1` have the trace as sum
    and the determinant as product iff `(t − l0)(t − l1) = det(t·1 − S)` for every `t`, i.e.
    iff they are the eigenvalues of `S` with multiplicity — the specification of
    `np.linalg.eigvals`, not a weakening of it. -/
theorem C18_eig_contract_iff_charpoly (S : Sym2 K) (l0 l1 : K) :
    EigContract S l0 l1 ↔ ∀ t : K, (t - l0) * (t - l1) = (t - S.a) * (t - S.d) - S.b * S.b := by
  constructor
  · rintro ⟨h1, h2⟩ t
    linear_combination (-t) * h1 + h2
  · intro h
    have h0 := h 0
    have h1 := h 1
    exact ⟨by linear_combination h0 - h1, by linear_combination h0⟩

/-- under the contract each of the two numbers has a non-zero eigenvector -/
theorem C18_eig_contract_eigvec (S : Sym2 K) (l0 l1 : K) (h : EigContract S l0 l1) :
    ∃ x y : K, (x ≠ 0 ∨ y ≠ 0) ∧ S.a * x + S.b * y = l0 * x ∧ S.b * x + S.d * y = l0 * y := by
  obtain ⟨h1, h2⟩ := h
  have hchar : (S.a - l0) * (S.d - l0) - S.b * S.b = 0 := by
    linear_combination l0 * h1 - h2
  by_cases hb : S.b = 0
  · by_cases ha : l0 = S.a
    · exact ⟨1, 0, Or.inl one_ne_zero, by rw [ha]; ring, by rw [hb]; ring⟩
    · have hd : S.d - l0 = 0 := by
        have : (S.a - l0) * (S.d - l0) = 0 := by rw [hb] at hchar; linear_combination hchar
        exact (mul_eq_zero.mp this).resolve_left (fun e => ha (sub_eq_zero.mp e).symm)
      exact ⟨0, 1, Or.inr one_ne_zero, by rw [hb]; ring, by linear_combination hd⟩
  · exact ⟨S.b, l0 - S.a, Or.inl hb, by ring, by linear_combination (-1 : K) * hchar⟩

/-- **the closed form satisfies the contract** for any square-root function that squares back
    on the discriminant (`Real.sqrt` does: `C18_eigvals_real`). -/
theorem C18_eigvals_contract (sqrt : K → K) (S : Sym2 K) (hs : sqrt S.disc * sqrt S.disc = S.disc) :
    EigContract S (S.eigvals sqrt).1 (S.eigvals sqrt).2 := by
  rw [Sym2.eigvals_fst, Sym2.eigvals_snd]
  generalize sqrt S.disc = s at hs ⊢
  rw [Sym2.disc_eq] at hs
  constructor
  · ring
  · field_simp
    linear_combination (-1 : K) * hs

/-- **any pair satisfying the contract is the closed form**, in one of the two orders
    (LAPACK does not promise an order; `mpc?` is symmetric in it: `C18_mpc_eig_order`). -/
theorem C18_eig_contract_unique (sqrt : K → K) (S : Sym2 K) (l0 l1 : K) (h : EigContract S l0 l1)
    (hs : sqrt S.disc * sqrt S.disc = S.disc) :
    (l0, l1) = S.eigvals sqrt ∨ (l1, l0) = S.eigvals sqrt := by
  obtain ⟨h1, h2⟩ := h
  rw [← Prod.mk.eta (p := S.eigvals sqrt), Sym2.eigvals_fst, Sym2.eigvals_snd]
  generalize sqrt S.disc = s at hs ⊢
  rw [Sym2.disc_eq] at hs
  have hp : (l0 - l1 - s) * (l0 - l1 + s) = 0 := by
    linear_combination (l0 + l1 + S.a + S.d) * h1 - 4 * h2 - hs
  rcases mul_eq_zero.mp hp with e | e
  · left
    refine Prod.ext ?_ ?_
    · show l0 = _; linear_combination (1 / 2 : K) * h1 + (1 / 2 : K) * e
    · show l1 = _; linear_combination (1 / 2 : K) * h1 - (1 / 2 : K) * e
  · right
    refine Prod.ext ?_ ?_
    · show l1 = _; linear_combination (1 / 2 : K) * h1 - (1 / 2 : K) * e
    · show l0 = _; linear_combination (1 / 2 : K) * h1 + (1 / 2 : K) * e

/-- `gen.MPC` does not depend on the order in which the two eigenvalues are returned -/
theorem C18_mpc_eig_order (n : Nat) (φ : Nat → Cx K) (l0 l1 : K) : mpc? n φ l0 l1 = mpc? n φ l1 l0 := by
  unfold mpc?
  have e1 : (l0 + l1) * (l0 + l1) = (l1 + l0) * (l1 + l0) := by ring
  have e2 : (l0 - l1) * (l0 - l1) = (l1 - l0) * (l1 - l0) := by ring
  simp only [e1, e2]

/-- **`gen.MPC` with the eigenvalue step in closed form is the trace/determinant closed form**
    — no contract hypothesis left, only that `sqrt` squares back on non-negative numbers. -/
theorem C18_mpcEig_closed (sqrt : K → K) (hs : ∀ x : K, 0 ≤ x → sqrt x * sqrt x = x)
    (n : Nat) (φ : Nat → Cx K) : mpcEig? sqrt n φ = mpcClosed? n φ :=
  C18_mpc_closed_form n φ _ _ (C18_eigvals_contract sqrt _ (hs _ (Sym2.disc_nonneg _)))

/-- **MPC ∈ [0,1], finite** — for the function with its eigenvalue step, contract-free. -/
theorem C18_mpcEig_bounds (sqrt : K → K) (hs : ∀ x : K, 0 ≤ x → sqrt x * sqrt x = x)
    (n : Nat) (hn : 2 ≤ n) (φ : Nat → Cx K) : ∃ q, mpcEig? sqrt n φ = some q ∧ 0 ≤ q ∧ q ≤ 1 := by
  rw [C18_mpcEig_closed sqrt hs]; exact C18_mpc_bounds n hn φ

/-- **MPC scale invariance**, contract-free. -/
theorem C18_mpcEig_scale (sqrt : K → K) (hs : ∀ x : K, 0 ≤ x → sqrt x * sqrt x = x)
    (n : Nat) (c : Cx K) (hc : CNonZero c) (φ : Nat → Cx K) :
    mpcEig? sqrt n (cscale c φ) = mpcEig? sqrt n φ := by
  rw [C18_mpcEig_closed sqrt hs, C18_mpcEig_closed sqrt hs]; exact C18_mpc_scale n c hc φ

/-- **MPC of `c·v` is exactly 1**, contract-free. -/
theorem C18_mpcEig_collinear (sqrt : K → K) (hs : ∀ x : K, 0 ≤ x → sqrt x * sqrt x = x)
    (n : Nat) (hn : 2 ≤ n) (c : Cx K) (hc : CNonZero c) (v : Nat → K) :
    mpcEig? sqrt n (cscale c (ofRealVec v)) = some 1 := by
  rw [C18_mpcEig_closed sqrt hs]; exact C18_collinear_mpc n hn c hc v

end field

/-- over `ℝ` the square-root hypothesis holds: the contract is discharged. -/
theorem C18_eigvals_real (S : Sym2 ℝ) : EigContract S (S.eigvals Real.sqrt).1 (S.eigvals Real.sqrt).2 :=
  C18_eigvals_contract Real.sqrt S (Real.mul_self_sqrt S.disc_nonneg)

/-- the hypothesis of the `mpcEig` theorems at `K = ℝ` -/
theorem real_sqrt_contract : ∀ x : ℝ, 0 ≤ x → Real.sqrt x * Real.sqrt x = x :=
  fun _ hx => Real.mul_self_sqrt hx

/-! ## MPD: the SVD contract -/

/-- **the closed-form direction satisfies the SVD contract for every shape** (ties included):
    `Sym2.minorDir` of the Gram matrix is an eigenvector for the smaller eigenvalue
    `(a + d − √disc)/2`.  So `SvdMinor` is satisfiable for every input, and … -/
theorem C18_minorDir_svd (n : Nat) (φ : Nat → Cx ℝ) :
    SvdMinor n φ (gram2 n φ).minorDir.1 (gram2 n φ).minorDir.2 ((gram2 n φ).eigvals Real.sqrt).2 := by
  obtain ⟨h1, h2⟩ := (gram2 n φ).minorDir_eig
  refine ⟨?_, ?_, ?_⟩
  · rw [← gram2_a, ← gram2_b]; exact h1
  · rw [← gram2_b, ← gram2_d]; exact h2
  · rw [← gram2_a, ← gram2_d, Sym2.eigvals_snd]
    have := Real.sqrt_nonneg (gram2 n φ).disc
    linarith

/-- … it is never the zero vector. -/
theorem C18_minorDir_ne (n : Nat) (φ : Nat → Cx ℝ) :
    (gram2 n φ).minorDir.1 ≠ 0 ∨ (gram2 n φ).minorDir.2 ≠ 0 := (gram2 n φ).minorDir_ne

/-- an exact tie of the two singular values: `[Re φ, Im φ]ᵀ[Re φ, Im φ]` is a multiple of the
    identity (`Re φ ⟂ Im φ` with equal norms — an isotropic shape such as `(1, i)`). -/
theorem C18_tie_iff (n : Nat) (φ : Nat → Cx ℝ) :
    (gram2 n φ).disc = 0 ↔
      (∑ k ∈ range n, (φ k).re * (φ k).re = ∑ k ∈ range n, (φ k).im * (φ k).im)
        ∧ ∑ k ∈ range n, (φ k).re * (φ k).im = 0 := by
  rw [Sym2.disc_eq_zero_iff, gram2_a, gram2_b, gram2_d]

/-- **`SvdMinor` discharged**: whatever non-zero direction `np.linalg.svd` returns under the
    contract, `gen.MPD` computed with it is `mpdClosed` — unless the two singular values are
    exactly equal (then every direction satisfies the contract and MPD does depend on it). -/
theorem C18_mpd_svd_closed (n : Nat) (φ : Nat → Cx ℝ) (v01 v11 μ : ℝ)
    (hv : SvdMinor n φ v01 v11 μ) (hne : v01 ≠ 0 ∨ v11 ≠ 0) (htie : (gram2 n φ).disc ≠ 0) :
    mpd n φ v01 v11 = mpdClosed n φ := by
  have hc := C18_minorDir_svd n φ
  have hcne := C18_minorDir_ne n φ
  have hpos : 0 < Real.sqrt (gram2 n φ).disc :=
    Real.sqrt_pos.mpr (lt_of_le_of_ne (Sym2.disc_nonneg _) (Ne.symm htie))
  have hstrict : 2 * ((gram2 n φ).eigvals Real.sqrt).2
      < (∑ k ∈ range n, (φ k).re * (φ k).re) + (∑ k ∈ range n, (φ k).im * (φ k).im) := by
    rw [← gram2_a, ← gram2_d, Sym2.eigvals_snd]; linarith
  have hpar := sym2_minor_parallel hv.eq1 hv.eq2 hc.eq1 hc.eq2 hne hcne hv.minor hstrict
  obtain ⟨t, ht, e1, e2⟩ := parallel_exists_smul hpar hne hcne
  unfold mpdClosed
  rw [e1, e2, C18_mpd_dir_scale n _ _ _ t ht]

/-- **MPD scale invariance, contract-free**: `mpdClosed (c·φ) = mpdClosed φ` for every
    `c ≠ 0` and every shape whose two singular values are not exactly equal.  The proviso is
    forced: at a tie the Gram matrix is `a·1`, the closed form (like LAPACK) picks a fixed
    direction for `φ` and for `c·φ`, and MPD of an isotropic shape depends on the direction
    (e.g. `(1, e^{iπ/3}, e^{2iπ/3})`: `2π/9` along `0`, `5π/18` along `π/6`).  The real
    function at the excluded point: `φ = (−2−2i, −2+i, −1+2i)` (Gram matrix `9·1`) gives
    `gen.MPD(φ) = 0.7854`, `gen.MPD((1+2i)·φ) = 0.6810` — the property's clause "MPD unchanged
    by a complex factor" is false at exact ties, for the definition, not for this code only. -/
theorem C18_mpdClosed_scale (n : Nat) (c : Cx ℝ) (hc : CNonZero c) (φ : Nat → Cx ℝ)
    (htie : (gram2 n φ).disc ≠ 0) : mpdClosed n (cscale c φ) = mpdClosed n φ := by
  have hs := normSq_pos_of_ne hc
  have hw := C18_svd_minor_scale n c φ _ _ _ (C18_minorDir_svd n φ)
  have hne := C18_minorDir_ne n φ
  have hwne : c.re * (gram2 n φ).minorDir.1 - c.im * (gram2 n φ).minorDir.2 ≠ 0
      ∨ c.re * (gram2 n φ).minorDir.2 + c.im * (gram2 n φ).minorDir.1 ≠ 0 := by
    by_contra hcon
    simp only [not_or, not_not] at hcon
    obtain ⟨e1, e2⟩ := hcon
    have h1 : (c.re * c.re + c.im * c.im) * (gram2 n φ).minorDir.1 = 0 := by
      linear_combination c.re * e1 + c.im * e2
    have h2 : (c.re * c.re + c.im * c.im) * (gram2 n φ).minorDir.2 = 0 := by
      linear_combination c.re * e2 - c.im * e1
    rcases hne with h | h
    · exact h ((mul_eq_zero.mp h1).resolve_left hs.ne')
    · exact h ((mul_eq_zero.mp h2).resolve_left hs.ne')
  have htie' : (gram2 n (cscale c φ)).disc ≠ 0 := by
    rw [gram2_disc_cscale]; exact mul_ne_zero (mul_ne_zero hs.ne' hs.ne') htie
  rw [← C18_mpd_svd_closed n (cscale c φ) _ _ _ hw hwne htie', C18_mpd_scale_partial n c hc]
  rfl

/-- **MPD of `c·v` is exactly 0, contract-free** (`v` real, not zero, zero components allowed). -/
theorem C18_mpdClosed_collinear (n : Nat) (c : Cx ℝ) (hc : CNonZero c) (v : Nat → ℝ)
    (hv : ∃ k, k < n ∧ v k ≠ 0) : mpdClosed n (cscale c (ofRealVec v)) = 0 :=
  C18_collinear_mpd_svd n c hc v hv _ _ _ (C18_minorDir_svd n _) (C18_minorDir_ne n _)

/-- **MPD ∈ [0, π/2], contract-free.** -/
theorem C18_mpdClosed_bounds (n : Nat) (φ : Nat → Cx ℝ) :
    0 ≤ mpdClosed n φ ∧ mpdClosed n φ ≤ Real.pi / 2 := C18_mpd_bounds n φ _ _

/-! ## `SvdMinor` from the defining properties of a singular value decomposition -/

/-- what `np.linalg.svd(np.c_[Re φ, Im φ])` returns, read as the textbook definition:
    `[Re φ, Im φ] = U[:, :2] · diag(s0, s1) · Vᵀ`, the first two columns of `U` and the columns
    of `V` orthonormal, `s0 ≥ s1 ≥ 0`  (`n ≥ 2` components; `VT[r, c] = V c r`). -/
structure SvdFact (n : Nat) (φ : Nat → Cx ℝ) (U : Nat → Nat → ℝ) (s0 s1 : ℝ) (V : Nat → Nat → ℝ) : Prop where
  re : ∀ k, k < n → (φ k).re = U k 0 * (s0 * V 0 0) + U k 1 * (s1 * V 0 1)
  im : ∀ k, k < n → (φ k).im = U k 0 * (s0 * V 1 0) + U k 1 * (s1 * V 1 1)
  u00 : ∑ k ∈ range n, U k 0 * U k 0 = 1
  u01 : ∑ k ∈ range n, U k 0 * U k 1 = 0
  u11 : ∑ k ∈ range n, U k 1 * U k 1 = 1
  v00 : V 0 0 * V 0 0 + V 1 0 * V 1 0 = 1
  v01 : V 0 0 * V 0 1 + V 1 0 * V 1 1 = 0
  v11 : V 0 1 * V 0 1 + V 1 1 * V 1 1 = 1
  s1_nonneg : 0 ≤ s1
  s_order : s1 ≤ s0

private theorem sum_bilin (n : Nat) (x y : Nat → ℝ) (α β γ δ : ℝ) :
    ∑ k ∈ range n, (x k * α + y k * β) * (x k * γ + y k * δ)
      = α * γ * (∑ k ∈ range n, x k * x k) + (α * δ + β * γ) * (∑ k ∈ range n, x k * y k)
        + β * δ * (∑ k ∈ range n, y k * y k) := by
  have h : ∀ k ∈ range n, (x k * α + y k * β) * (x k * γ + y k * δ)
      = α * γ * (x k * x k) + (α * δ + β * γ) * (x k * y k) + β * δ * (y k * y k) :=
    fun k _ => by ring
  rw [Finset.sum_congr rfl h, Finset.sum_add_distrib, Finset.sum_add_distrib, ← Finset.mul_sum,
    ← Finset.mul_sum, ← Finset.mul_sum]

/-- **a singular value decomposition satisfies `SvdMinor`**: `V[:, 1]` is a (unit, hence
    non-zero) eigenvector of the Gram matrix for its smaller eigenvalue `s1²`.  With
    `C18_mpd_svd_closed` the only thing assumed about `np.linalg.svd` in the MPD theorems is
    that it returns a singular value decomposition. -/
theorem C18_svd_fact_minor (n : Nat) (φ : Nat → Cx ℝ) (U : Nat → Nat → ℝ) (s0 s1 : ℝ)
    (V : Nat → Nat → ℝ) (h : SvdFact n φ U s0 s1 V) :
    SvdMinor n φ (V 0 1) (V 1 1) (s1 * s1) ∧ (V 0 1 ≠ 0 ∨ V 1 1 ≠ 0) := by
  obtain ⟨hre, him, u00, u01, u11, v00, v01, v11, hs1, hs⟩ := h
  have ha : ∑ k ∈ range n, (φ k).re * (φ k).re
      = s0 * s0 * (V 0 0 * V 0 0) + s1 * s1 * (V 0 1 * V 0 1) := by
    rw [Finset.sum_congr rfl fun k hk => by rw [hre k (mem_range.mp hk)], sum_bilin, u00, u01, u11]
    ring
  have hb : ∑ k ∈ range n, (φ k).re * (φ k).im
      = s0 * s0 * (V 0 0 * V 1 0) + s1 * s1 * (V 0 1 * V 1 1) := by
    rw [Finset.sum_congr rfl fun k hk => by rw [hre k (mem_range.mp hk), him k (mem_range.mp hk)],
      sum_bilin, u00, u01, u11]
    ring
  have hd : ∑ k ∈ range n, (φ k).im * (φ k).im
      = s0 * s0 * (V 1 0 * V 1 0) + s1 * s1 * (V 1 1 * V 1 1) := by
    rw [Finset.sum_congr rfl fun k hk => by rw [him k (mem_range.mp hk)], sum_bilin, u00, u01, u11]
    ring
  refine ⟨⟨?_, ?_, ?_⟩, ?_⟩
  · rw [ha, hb]
    linear_combination (s0 * s0 * V 0 0) * v01 + (s1 * s1 * V 0 1) * v11
  · rw [hb, hd]
    linear_combination (s0 * s0 * V 1 0) * v01 + (s1 * s1 * V 1 1) * v11
  · rw [ha, hd]
    have h1 : s1 * s1 ≤ s0 * s0 := mul_self_le_mul_self hs1 hs
    nlinarith [h1, v00, v11]
  · by_contra hcon
    simp only [not_or, not_not] at hcon
    rw [hcon.1, hcon.2] at v11
    norm_num at v11

/-- **MPD with any singular value decomposition is the closed form** (no exact tie). -/
theorem C18_mpd_svd_fact_closed (n : Nat) (φ : Nat → Cx ℝ) (U : Nat → Nat → ℝ) (s0 s1 : ℝ)
    (V : Nat → Nat → ℝ) (h : SvdFact n φ U s0 s1 V) (htie : (gram2 n φ).disc ≠ 0) :
    mpd n φ (V 0 1) (V 1 1) = mpdClosed n φ :=
  C18_mpd_svd_closed n φ _ _ _ (C18_svd_fact_minor n φ U s0 s1 V h).1
    (C18_svd_fact_minor n φ U s0 s1 V h).2 htie

/-! ## MPD is a finite number: the denominator `Σ w[nz]` -/

/-- **the denominator of `gen.MPD` is positive** for a shape with a non-zero component and a
    non-zero direction (`V` is orthogonal, so `V[:,1]` is a unit vector). -/
theorem C18_mpd_den_pos (n : Nat) (φ : Nat → Cx ℝ) (v01 v11 : ℝ) (hφ : NonZero n φ)
    (hv : v01 ≠ 0 ∨ v11 ≠ 0) :
    0 < ∑ k ∈ range n,
      (if 0 < Real.sqrt (v01 * v01 + v11 * v11) * Real.sqrt ((φ k).re * (φ k).re + (φ k).im * (φ k).im) then
        Real.sqrt ((φ k).re * (φ k).re + (φ k).im * (φ k).im) else 0) := by
  obtain ⟨k, hk, hφk⟩ := hφ
  have hV : 0 < Real.sqrt (v01 * v01 + v11 * v11) :=
    Real.sqrt_pos.mpr (normSq_pos_of_ne (c := ⟨v01, v11⟩) hv)
  have hW : 0 < Real.sqrt ((φ k).re * (φ k).re + (φ k).im * (φ k).im) :=
    Real.sqrt_pos.mpr (normSq_pos_of_ne (c := φ k) hφk)
  refine Finset.sum_pos' (fun j _ => ?_) ⟨k, Finset.mem_range.mpr hk, ?_⟩
  · split_ifs
    · exact Real.sqrt_nonneg _
    · exact le_refl _
  · rw [if_pos (mul_pos hV hW)]; exact hW

/-- **`gen.MPD` is a number (never NaN)** for a non-zero shape and a non-zero direction, and
    the number is in `[0, π/2]`. -/
theorem C18_mpd_some (n : Nat) (φ : Nat → Cx ℝ) (v01 v11 : ℝ) (hφ : NonZero n φ)
    (hv : v01 ≠ 0 ∨ v11 ≠ 0) :
    mpd? n φ v01 v11 = some (mpd n φ v01 v11)
      ∧ 0 ≤ mpd n φ v01 v11 ∧ mpd n φ v01 v11 ≤ Real.pi / 2 := by
  rw [mpd?_real, if_pos (C18_mpd_den_pos n φ v01 v11 hφ hv)]
  exact ⟨rfl, C18_mpd_bounds n φ v01 v11⟩

/-- … and it is NaN exactly for the zero shape (or a zero direction, which an SVD never
    returns): the `0/0` of an empty `w[nz]`. -/
theorem C18_mpd_none_iff (n : Nat) (φ : Nat → Cx ℝ) (v01 v11 : ℝ) :
    mpd? n φ v01 v11 = none ↔ (¬ NonZero n φ ∨ (v01 = 0 ∧ v11 = 0)) := by
  constructor
  · intro h
    by_contra hcon
    simp only [not_or, not_not, not_and_or] at hcon
    obtain ⟨hφ, hv⟩ := hcon
    have hv' : v01 ≠ 0 ∨ v11 ≠ 0 := hv
    rw [(C18_mpd_some n φ v01 v11 hφ hv').1] at h
    cases h
  · intro h
    rw [mpd?_real, if_neg]
    rw [not_lt]
    apply le_of_eq
    apply Finset.sum_eq_zero
    intro k hk
    rcases h with h | ⟨h1, h2⟩
    · have hz : (φ k).re = 0 ∧ (φ k).im = 0 := by
        by_contra hne
        apply h
        refine ⟨k, Finset.mem_range.mp hk, ?_⟩
        by_contra hh
        simp only [not_or, not_not] at hh
        exact hne hh
      rw [hz.1, hz.2]; simp
    · rw [h1, h2]; simp

/-- **the "never NaN" clause for MPD, contract-free**: for every shape with a non-zero
    component `mpdClosed?` is a number in `[0, π/2]`. -/
theorem C18_mpd_finite (n : Nat) (φ : Nat → Cx ℝ) (hφ : NonZero n φ) :
    ∃ q, mpdClosed? n φ = some q ∧ q = mpdClosed n φ ∧ 0 ≤ q ∧ q ≤ Real.pi / 2 := by
  obtain ⟨h1, h2, h3⟩ := C18_mpd_some n φ _ _ hφ (C18_minorDir_ne n φ)
  exact ⟨_, h1, rfl, h2, h3⟩

/-! ## Non-vacuity -/
section examples
/-- `S = [[2, 2], [2, 5]]`: discriminant `25 = 5²`, eigenvalues `6` and `1` -/
def exS : Sym2 ℚ := ⟨2, 2, 5⟩
def exSqrt : ℚ → ℚ := fun x => if x = 25 then 5 else 0
example : exSqrt exS.disc * exSqrt exS.disc = exS.disc := by decide +kernel
example : exS.eigvals exSqrt = (6, 1) := by decide +kernel
example : EigContract exS 6 1 := by constructor <;> decide +kernel
/-- the hypothesis `hs` of the `mpcEig` theorems holds for `Real.sqrt` -/
example : ∀ x : ℝ, 0 ≤ x → Real.sqrt x * Real.sqrt x = x := real_sqrt_contract
/-- hypotheses of `C18_mpd_svd_closed` / `C18_mpdClosed_scale`: the shape `(1, 0)` (real) has
    Gram matrix `[[1,0],[0,0]]`, discriminant `1 ≠ 0`, minor direction `(0, 1)`, `μ = 0` -/
def exE' : Nat → Cx ℝ := fun k => if k = 0 then ⟨1, 0⟩ else ⟨0, 0⟩
example : (gram2 2 exE').disc ≠ 0 := by
  simp [Sym2.disc_eq, gram2_a, gram2_b, gram2_d, Finset.sum_range_succ, exE']
example : SvdMinor 2 exE' 0 1 0 := by
  constructor <;> simp [Finset.sum_range_succ, exE']
/-- `SvdFact`: the shape `(3, 4i)` = `[[3,0],[0,4]]` = `U·diag(4,3)·Vᵀ` with `U = V =` the swap -/
example : SvdFact 2 (fun k => if k = 0 then (⟨3, 0⟩ : Cx ℝ) else ⟨0, 4⟩)
    (fun k r => if k = r then 0 else 1) 4 3 (fun i r => if i = r then 0 else 1) := by
  refine ⟨?_, ?_, by simp [Finset.sum_range_succ], by simp [Finset.sum_range_succ],
    by simp [Finset.sum_range_succ], by norm_num, by norm_num, by norm_num, by norm_num, by norm_num⟩
  · intro k hk
    have : k = 0 ∨ k = 1 := by omega
    rcases this with rfl | rfl <;> simp
  · intro k hk
    have : k = 0 ∨ k = 1 := by omega
    rcases this with rfl | rfl <;> simp
example : NonZero 2 exE' := ⟨0, by decide, Or.inl (by simp [exE'])⟩
end examples

end PV.C18
