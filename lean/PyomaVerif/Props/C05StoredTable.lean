import PyomaVerif.Props.C05Table
import PyomaVerif.Props.C05Stored
/-!
# C05 — the pLSCF pole table of the MODEL functions joined with the stored tables

`C05_stored` (Props/C05Stored.lean) and `C05_e2e_nan_pattern` (Props/C05E2E.lean) are stated over the old form
(`hrun : plscfOrder … = some out`, `hrm : rmfd2ac … = some (Am, Cm)`, a list `inputs` with
`hin : inputs[k] = (Cm, eigs)`, a free column index `k`).  Here both are restated over what the executable models
`plscfAll` (op `plscf_all`, stream `pLSCF[all orders]`) and `plscfPoles` (op `plscf_poles`, stream
`pLSCF_poles[loop]`) return: the column is `n − 1` (derived), the pair `(Am, Cm)` and the per-order inputs are the
model's own.

* `C05_stored_model` — hypotheses of `C05_e2e_table_model` over `ℚ`; a record `r` of the eigen-decomposition of
  pass `n − 1` that is a physical pole with damping in `(0, xi_max)`, whose shape cell `T.phi[r, n−1] = s` passes
  MPC / MPD and (with `conj` on) whose conjugate occurs in the pole table: the stored tables of every class
  program hold it at `(r, n − 1)`.
* `C05_e2e_nan_pattern_model` — one NaN pattern in the four tables of `plscfPoles` at column `n − 1`.
-/
namespace PV.C05StoredTable
open PV PV.Hc PV.HcFn PV.C09 PV.C09C18 PV.C09All PV.Stored PV.C09Stored PV.Plscf PV.C05 PV.C05Stored
open PV.BlockCompanion Finset Polynomial Matrix

/-- **C05_stored_model.**  `eigsAll[n−1]` is the record of the `np.linalg.eig` call of pass `n − 1`; `e` its `r`-th
    entry; `s` the shape cell the model returns at `(r, n − 1)`.  `rr × cc` any grid containing the cells concerned. -/
theorem C05_stored_model {L : Type} [Field L] [DecidableEq L] (f : ℚ →+* L) (I : L)
    (hI : I * I = -1) (Nch Nref Nf n ordmax : Nat) (hn1 : 1 ≤ n) (hno : n ≤ ordmax)
    (sgn : Int) (hs : sgn = -1 ∨ sgn = 1) (OmOf : Int → Nat → Plscf.Cx ℚ)
    (Sy : Nat → Nat → Nat → Plscf.Cx ℚ) (A B : Nat → Nat → Nat → ℚ) (G : Nat → Nat → ℚ)
    (hfit : ExactRMFD Nch Nref Nf n (OmOf sgn) Sy A B)
    (hG : ∀ a < Nch, ∀ b < Nch,
      ∑ t ∈ range Nch, A (cIdx (decide (sgn = 1)) n) a t * G t b = if a = b then 1 else 0)
    (Ad Bn : List (Coefs ℚ)) (hall : plscfAll Nch Nref Nf ordmax sgn OmOf Sy = .ok (Ad, Bn))
    (sqrt : ℚ → ℚ) (twoPi invdt : ℚ) (cor : Bool) (invTau : ℚ)
    (eigsAll : List (List (EigIn ℚ))) (T : Tables ℚ) (As : List (Mat ℚ))
    (hpoles : plscfPoles sqrt twoPi invdt cor invTau Ad Bn eigsAll = .ok (T, As))
    (hrec : ∀ Am, As[n - 1]? = some Am →
      Multiset.map (fun e => emb f I e.lamd) ((eigsAll.getD (n - 1) [] : List (EigIn ℚ)) : Multiset (EigIn ℚ))
        = ((toMx ((n + 1) * Nch) ((n + 1) * Nch) Am.e).charpoly.map f).roots)
    (rr cc : Nat) (cl : ClassSpec) (hcl : cl ∈ classes) (conjOn : Bool) (xiMax mpcLim mpdLim covMax : ℚ)
    (dir : Nat → (Nat → PV.Cx Rat) → ℝ × ℝ)
    (r : Nat) (hr : r < rr) (hkc : n - 1 < cc) (e : EigIn ℚ) (her : (eigsAll.getD (n - 1) [])[r]? = some e)
    (hnz : ¬ (e.lamd.re = 0 ∧ e.lamd.im = 0)) (hstab : ¬ 0 < e.logv.re * invdt)
    (hmu : ¬ ((muOf cor invdt invTau e).re = 0 ∧ (muOf cor invdt invTau e).im = 0))
    (s : List (Plscf.Cx ℚ)) (hphi : cellOf T.phi r (n - 1) = some s)
    (hdamp : 0 < -((muOf cor invdt invTau e).re / sqrt ((muOf cor invdt invTau e).re * (muOf cor invdt invTau e).re
        + (muOf cor invdt invTau e).im * (muOf cor invdt invTau e).im)) ∧
      -((muOf cor invdt invTau e).re / sqrt ((muOf cor invdt invTau e).re * (muOf cor invdt invTau e).re
        + (muOf cor invdt invTau e).im * (muOf cor invdt invTau e).im)) < xiMax)
    (hshape : ShapeOk dir mpcLim mpdLim (s.map pcx))
    (hconj : conjOn = true → ∃ r' k', r' < rr ∧ k' < cc ∧ ∃ ν : Plscf.Cx ℚ, cellOf T.lam r' k' = some ν ∧
      ν.re = (muOf cor invdt invTau e).re ∧ ν.im = -(muOf cor invdt invTau e).im) :
    let p := (plscfRaw T).params rr cc xiMax mpcLim mpdLim covMax dir
    ∃ e' Tf Tx Tp, runOf cl conjOn false p = some e' ∧
      e' (retVar cl.prog "Fn_poles") = some (CVal.tbl Tf) ∧ FiltOf p conjOn false .fn Tf ∧
      e' (retVar cl.prog "Xi_poles") = some (CVal.tbl Tx) ∧ FiltOf p conjOn false .xi Tx ∧
      e' (retVar cl.prog "Phi_poles") = some (CVal.tbl Tp) ∧ FiltOf p conjOn false .phi Tp ∧
      Kept p conjOn false (r, n - 1) ∧
      Tf (r, n - 1) = some (.real (sqrt ((muOf cor invdt invTau e).re * (muOf cor invdt invTau e).re
        + (muOf cor invdt invTau e).im * (muOf cor invdt invTau e).im) / twoPi)) ∧
      Tx (r, n - 1) = some (.real (-((muOf cor invdt invTau e).re / sqrt ((muOf cor invdt invTau e).re
        * (muOf cor invdt invTau e).re + (muOf cor invdt invTau e).im * (muOf cor invdt invTau e).im)))) ∧
      Tp (r, n - 1) = some (shapeCell (s.map pcx)) := by
  intro p
  obtain ⟨out, Am, Cm, _, _, _, _, _, hcells⟩ := C05_e2e_table_model f I hI Nch Nref Nf n ordmax hn1 hno sgn hs
    OmOf Sy A B G hfit hG Ad Bn hall sqrt twoPi invdt cor invTau eigsAll T As hpoles hrec
  obtain ⟨hl, hf, hx, _, _⟩ := hcells r
  have hl' : cellOf T.lam r (n - 1) = some (muOf cor invdt invTau e) := by
    rw [hl, her]
    simp only [Option.bind_some, if_neg hnz, if_neg hstab]
    unfold muOf
    cases cor <;> rfl
  have hf' := hf
  rw [hl'] at hf' hx
  simp only [Option.map_some, Option.bind_some, if_neg hmu] at hf' hx
  obtain ⟨e', Tf, Tx, Tp, he', hTf, fF, hTx, fX, hTp, fP, hkept, eF, eX, eP, _⟩ :=
    C09_raw_survives (plscfRaw T) rr cc cl hcl conjOn xiMax mpcLim mpdLim covMax dir (r, n - 1) ⟨hr, hkc⟩ _ _
      (s.map pcx) (pcx (muOf cor invdt invTau e)) hf' hx
      (by show cellAt (T.phi.map (·.map (Option.map (List.map pcx)))) (r, n - 1) = _
          rw [cellAt_mapCells, cellAt_eq_cellOf, hphi]; rfl)
      (by show cellAt (T.lam.map (·.map (Option.map pcx))) (r, n - 1) = _
          rw [cellAt_mapCells, cellAt_eq_cellOf, hl']; rfl)
      hdamp hshape
      (fun hc => by
        obtain ⟨r', k', h1, h2, ν, hν, hre, him⟩ := hconj hc
        refine ⟨(r', k'), h1, h2, pcx ν, ?_, hre, him⟩
        show cellAt (T.lam.map (·.map (Option.map pcx))) (r', k') = _
        rw [cellAt_mapCells, cellAt_eq_cellOf, hν]; rfl)
  exact ⟨e', Tf, Tx, Tp, he', hTf, fF, hTx, fX, hTp, fP, hkept, eF, eX, eP⟩

section pattern
variable {K : Type} [Field K] [LinearOrder K] [IsStrictOrderedRing K] [Inhabited K]

/-- **C05_e2e_nan_pattern_model — identical NaN pattern in the four tables `plscfPoles` returns, at the column of
    order `n`.**  The models of `pLSCF` and `pLSCF_poles` return (`hall`, `hpoles`); for the pair `(Am, Cm)` that
    `rmfd2ac` makes of list position `n − 1` and the record `eigsAll[n−1]`: recorded eigenvectors of `λ = 0` are
    exact null vectors of `Am` (`hq0`), the output `Cm·q` of every record with `λ ≠ 0` is not the zero vector
    (`hobs`), and no record with `λ ≠ 0` has continuous-time value exactly `0` (`hnz`).  Then a cell of column
    `n − 1` is NaN in `Fn`, `Xi`, `Phi` exactly when it is NaN in the pole table.  (No `hrun`, `hrm`, `inputs`,
    `hin`, `k`.) -/
theorem C05_e2e_nan_pattern_model (Nch Nref Nf n ordmax : Nat) (hn1 : 1 ≤ n) (hno : n ≤ ordmax)
    (sgn : Int) (hs : sgn = -1 ∨ sgn = 1) (OmOf : Int → Nat → Plscf.Cx K)
    (Sy : Nat → Nat → Nat → Plscf.Cx K)
    (Ad Bn : List (Coefs K)) (hall : plscfAll Nch Nref Nf ordmax sgn OmOf Sy = .ok (Ad, Bn))
    (sqrt : K → K) (twoPi invdt : K) (cor : Bool) (invTau : K)
    (eigsAll : List (List (EigIn K))) (T : Tables K) (As : List (Mat K))
    (hpoles : plscfPoles sqrt twoPi invdt cor invTau Ad Bn eigsAll = .ok (T, As))
    (hq0 : ∀ Am, As[n - 1]? = some Am → ∀ e ∈ eigsAll.getD (n - 1) [], (e.lamd.re = 0 ∧ e.lamd.im = 0) →
      (∀ r < (n + 1) * Nch, mulVec Am (fun t => (e.q.getD t ⟨0, 0⟩).re) r = 0)
        ∧ ∀ r < (n + 1) * Nch, mulVec Am (fun t => (e.q.getD t ⟨0, 0⟩).im) r = 0)
    (hobs : ∀ A_den B_num Am Cm, Ad[n - 1]? = some A_den → Bn[n - 1]? = some B_num →
      rmfd2ac A_den B_num = some (Am, Cm) →
      ∀ e ∈ eigsAll.getD (n - 1) [], ¬ (e.lamd.re = 0 ∧ e.lamd.im = 0) →
        ∃ y ∈ phiRaw Cm e.q, ¬ (y.re = 0 ∧ y.im = 0))
    (hnz : ∀ e ∈ eigsAll.getD (n - 1) [], ¬ (e.lamd.re = 0 ∧ e.lamd.im = 0) →
      ¬ (e.logv.re * invdt - (if cor then invTau else 0) = 0 ∧ e.logv.im * invdt = 0)) (r : Nat) :
    (cellOf T.fn r (n - 1)).isSome = (cellOf T.lam r (n - 1)).isSome
    ∧ (cellOf T.xi r (n - 1)).isSome = (cellOf T.lam r (n - 1)).isSome
    ∧ (cellOf T.phi r (n - 1)).isSome = (cellOf T.lam r (n - 1)).isSome := by
  obtain ⟨l1, _, hord⟩ := plscfAll_get Nch Nref Nf ordmax sgn hs OmOf Sy Ad Bn hall
  obtain ⟨out, _, hA, hB⟩ := hord n hn1 hno
  obtain ⟨_, _, inp, hlen, hpad, hpos⟩ := plscfPoles_get sqrt twoPi invdt cor invTau Ad Bn eigsAll T As hpoles
  obtain ⟨B_num, Am, Cm, hBn, hrm, hAs, hinp⟩ := hpos (n - 1) _ hA
  have hBeq : B_num = moveaxisBn Nch Nref n out.beta := by
    rw [hB] at hBn; exact (Option.some.inj hBn).symm
  subst hBeq
  obtain ⟨hk, hin⟩ := List.getElem?_eq_some_iff.mp hinp
  exact C05_e2e_nan_pattern (reshapeAd Nch n out.alpha) (moveaxisBn Nch Nref n out.beta) n rfl rfl Am Cm hrm
    sqrt twoPi invdt cor invTau inp T hpad (n - 1) hk (eigsAll.getD (n - 1) []) hin
    (hq0 Am hAs) (hobs _ _ Am Cm hA hB hrm) hnz r

end pattern

/-! ## Non-vacuity: the two-reference instance of `Props/C05Stored.lean` (`Ex`: roots `1/2, 3, 1/3, −2`, `LO`
convention) run through BOTH model functions (`ordmax = 2`, records `e2eEigs1` for pass 0 and `e2eEigs` for pass 1)
satisfies every hypothesis of `C05_stored_model` for the record of the root `1/2` (row 2, column `n − 1 = 1`). -/
namespace Ex
open PV.C05Stored.Ex

def lists2 : List (Coefs Rat) × List (Coefs Rat) :=
  match plscfAll 2 2 6 2 (-1) e2eOmOf Sy2 with
  | .ok p => p
  | .error _ => ([], [])

theorem all2 : plscfAll 2 2 6 2 (-1) e2eOmOf Sy2 = .ok (lists2.1, lists2.2) := by
  have h : (plscfAll 2 2 6 2 (-1) e2eOmOf Sy2).toBool = true := by decide +kernel
  unfold lists2
  cases hp : plscfAll 2 2 6 2 (-1) e2eOmOf Sy2 with
  | ok T => rfl
  | error e => rw [hp] at h; simp [Except.toBool] at h

def tabs2 : Tables Rat × List (Mat Rat) :=
  match plscfPoles id 1 10 false 0 lists2.1 lists2.2 [e2eEigs1, e2eEigs] with
  | .ok p => p
  | .error _ => (⟨[], [], [], []⟩, [])

theorem poles2 : plscfPoles id 1 10 false 0 lists2.1 lists2.2 [e2eEigs1, e2eEigs] = .ok (tabs2.1, tabs2.2) := by
  have h : (plscfPoles id 1 10 false 0 lists2.1 lists2.2 [e2eEigs1, e2eEigs]).toBool = true := by
    decide +kernel
  unfold tabs2
  cases hp : plscfPoles id 1 10 false 0 lists2.1 lists2.2 [e2eEigs1, e2eEigs] with
  | ok T => rfl
  | error e => rw [hp] at h; simp [Except.toBool] at h

theorem rec_model2 : ∀ Am, tabs2.2[2 - 1]? = some Am →
    Multiset.map (fun e => emb (Rat.castHom ℂ) Complex.I e.lamd)
        (([e2eEigs1, e2eEigs].getD (2 - 1) [] : List (EigIn Rat)) : Multiset (EigIn Rat))
      = ((toMx ((2 + 1) * 2) ((2 + 1) * 2) Am.e).charpoly.map (Rat.castHom ℂ)).roots := by
  intro Am hAm
  obtain ⟨_, _, hord⟩ := plscfAll_get 2 2 6 2 (-1) (Or.inl rfl) e2eOmOf Sy2 _ _ all2
  obtain ⟨out, hout, hA, hB⟩ := hord 2 (by decide) (by decide)
  have ho : out = out2 := by
    have : plscfOrder 2 2 6 2 false e2eOm Sy2 = some out := hout
    rw [run2] at this
    exact (Option.some.inj this).symm
  subst ho
  obtain ⟨_, _, inp, _, _, hpos⟩ := plscfPoles_get id 1 10 false 0 _ _ _ _ _ poles2
  obtain ⟨B, A', C', hBn, hrm, hAs, _⟩ := hpos (2 - 1) _ hA
  rw [hB] at hBn
  obtain rfl := Option.some.inj hBn
  rw [rm2] at hrm
  rw [hAs] at hAm
  obtain rfl := Option.some.inj hAm
  have : A' = AC2.1 := (congrArg Prod.fst (Option.some.inj hrm)).symm
  subst this
  exact rec2

/-- **the stored tables of every class hold the record of the root `1/2` at `(2, 1)`** — column `1 = n − 1` of the
    tables the MODEL of `pLSCF_poles` returned (`conj` on, `xi_max = 1/5`, `mpc_lim = 7/10`, `mpd_lim = 2`, grid
    `6 × 2`): frequency `49`, damping `1/7`. -/
theorem stored_model (cl : ClassSpec) (hcl : cl ∈ classes) :
    let p := (plscfRaw tabs2.1).params 6 2 (1 / 5) (7 / 10) 2 1 (fun _ _ => (1, -1))
    ∃ e' Tf Tx Tp, runOf cl true false p = some e' ∧
      e' (retVar cl.prog "Fn_poles") = some (CVal.tbl Tf) ∧
      e' (retVar cl.prog "Xi_poles") = some (CVal.tbl Tx) ∧
      e' (retVar cl.prog "Phi_poles") = some (CVal.tbl Tp) ∧
      Kept p true false (2, 1) ∧
      Tf (2, 1) = some (.real 49) ∧ Tx (2, 1) = some (.real (1 / 7)) ∧ Tp (2, 1) = some (shapeCell (s2.map pcx)) := by
  intro p
  obtain ⟨e', Tf, Tx, Tp, he', hTf, _, hTx, _, hTp, _, hk, eF, eX, eP⟩ :=
    C05_stored_model (Rat.castHom ℂ) Complex.I Complex.I_mul_I 2 2 6 2 2 (by decide) (by decide) (-1) (Or.inl rfl)
      e2eOmOf Sy2 e2eA B2 (e2eG false) fit2 (e2e_G false) lists2.1 lists2.2 all2 id 1 10 false 0
      [e2eEigs1, e2eEigs] tabs2.1 tabs2.2 poles2 rec_model2
      6 2 cl hcl true (1 / 5) (7 / 10) 2 1 (fun _ _ => (1, -1)) 2 (by decide) (by decide)
      ⟨⟨1/2, 0⟩, ⟨-7/10, 0⟩, e2eQ (1/2) 1 0⟩ rfl (by decide +kernel) (by decide +kernel) (by decide +kernel)
      s2 (by decide +kernel) (by decide +kernel) shapeOk2
      (fun _ => ⟨2, 1, by decide, by decide, ⟨-7, 0⟩, by decide +kernel, by decide +kernel, by decide +kernel⟩)
  refine ⟨e', Tf, Tx, Tp, he', hTf, hTx, hTp, hk, ?_, ?_, eP⟩
  · rw [eF]; congr 2; decide +kernel
  · rw [eX]; congr 2; decide +kernel

/-- … and the hypotheses of `C05_e2e_nan_pattern_model` are those of `C05_e2e_nan_pattern` on the model's own pair:
    its conclusion on the instance, checked by evaluation (column 1 of the four tables, rows 0..6) -/
example : ∀ r < 7, (cellOf tabs2.1.fn r 1).isSome = (cellOf tabs2.1.lam r 1).isSome
    ∧ (cellOf tabs2.1.xi r 1).isSome = (cellOf tabs2.1.lam r 1).isSome
    ∧ (cellOf tabs2.1.phi r 1).isSome = (cellOf tabs2.1.lam r 1).isSome := by decide +kernel

end Ex

end PV.C05StoredTable
