import PyomaVerif.Props.C10
import PyomaVerif.Props.C05Table
import PyomaVerif.Lemmas.Poles
import PyomaVerif.Props.C01Table
/-!
# C10 on the tables the pole-table models return

`C10_plscf_shift` assumes `Fn.c = ordmax` (the pLSCF tables have one column per order `1..ordmax`); for
the SSI tables the width `ordmax/step + 1` was not stated at all.  Here both come from the model
functions of `Model/Poles.lean`:

* `C10_plscf_shift_table` — the tables are those `plscfPoles` returns on the lists `plscfAll` returns
  for `ordmax`; the call `SC_apply(Fn, Xi, Phi, ordmin, ordmax − 1, 1, …)` of `pLSCF.run` never raises
  and labels order `n` (column `n − 1`) against order `n − 1`.
* `C10_ssi_table` — the tables are those `ssiPoles` returns for `(ordmax, step = 1)`; the call
  `SC_apply(Fn, Xi, Phi, ordmin, ordmax, 1, …)` of `SSIdat.run` never raises and labels column `o` =
  order `o` against order `o − 1`.
-/
namespace PV.C10
open PV PV.Plscf PV.Poles

/-- **pLSCF: `Fn.c = ordmax` derived.**  `sgn_basf ∈ {−1, 1}`; `plscfAll` returns `(Ad, Bn)` for `ordmax`;
    `plscfPoles` returns the tables `T` on them; the frequency table has at least one row.  Then the
    table has `ordmax ≥ 1` columns and the conclusion of `C10_plscf_shift` holds for the call
    `SC_apply(Fn, Xi, Phi, ordmin, ordmax − 1, 1, err_fn, err_xi, err_phi)` on the returned tables. -/
theorem C10_plscf_shift_table (Nch Nref Nf ordmax : Nat) (sgn : Int) (hs : sgn = -1 ∨ sgn = 1)
    (OmOf : Int → Nat → Cx Rat) (Sy : Nat → Nat → Nat → Cx Rat) (Ad Bn : List (Coefs Rat))
    (hall : plscfAll Nch Nref Nf ordmax sgn OmOf Sy = .ok (Ad, Bn))
    (sqrt : Rat → Rat) (twoPi invdt : Rat) (cor : Bool) (invTau : Rat)
    (eigsAll : List (List (EigIn Rat))) (T : Tables Rat) (As : List (Mat Rat))
    (hpoles : plscfPoles sqrt twoPi invdt cor invTau Ad Bn eigsAll = .ok (T, As))
    (hrow : 0 < (tblMat T.fn).r) (ordmin : Nat) (eF eX eP : Rat) :
    (tblMat T.fn).c = ordmax ∧
    ∃ Lab, scApply (tblMat T.fn) (tblMat T.xi) (phiTen3 Nch T.phi) ordmin (ordmax - 1) 1 eF eX eP
        = .ok Lab ∧
      ∀ i n, i < (tblMat T.fn).r → 1 ≤ n → n ≤ ordmax →
        (Lab.e i (n - 1) = 1 ↔ 2 ≤ n ∧ ordmin + 1 ≤ n
          ∧ StableAgainstPrev (tblMat T.fn) (tblMat T.xi) (phiTen3 Nch T.phi) eF eX eP (n - 1) i) := by
  obtain ⟨hpos, hc, _, _⟩ := PV.C05.C05_table_width Nch Nref Nf ordmax sgn hs OmOf Sy Ad Bn hall sqrt
    twoPi invdt cor invTau eigsAll T As hpoles hrow
  exact ⟨hc, C10_plscf_shift (tblMat T.fn) (tblMat T.xi) (phiTen3 Nch T.phi) ordmin ordmax eF eX eP
    hc hpos⟩

/-- **SSI: the table width derived.**  `ssiPoles` returns `T` for `step = 1`: the tables have
    `ordmax + 1` columns (column `o` = order `o`), so `SC_apply(Fn, Xi, Phi, ordmin, ordmax, 1, …)` never
    raises, and the pole `(i, order o)` is labelled stable iff `o ≥ 1`, `ordmin ≤ o ≤ ordmax` and it
    passes the soft criteria against the first nearest retained pole of order `o − 1`. -/
theorem C10_ssi_table (inp : SsiIn) (hstep : inp.step = 1) (T : SsiTables)
    (hT : ssiPoles inp = .ok T) (ordmin : Nat) (eF eX eP : Rat) :
    T.fn.c = inp.ordmax + 1 ∧
    ∃ Lab, scApply T.fn T.xi T.phi ordmin inp.ordmax 1 eF eX eP = .ok Lab ∧
      ∀ i o, i < T.fn.r →
        (Lab.e i o = 1 ↔ 1 ≤ o ∧ (ordmin ≤ o ∧ o ≤ inp.ordmax)
          ∧ StableAgainstPrev T.fn T.xi T.phi eF eX eP o i) := by
  obtain ⟨_, _, hshape, _⟩ := ssiPoles_spec inp T hT
  have hc : T.fn.c = inp.ordmax + 1 := by rw [hshape.2.1, hstep, Nat.div_one]
  refine ⟨hc, ?_⟩
  cases hr : scApply T.fn T.xi T.phi ordmin inp.ordmax 1 eF eX eP with
  | error e =>
    exfalso
    rcases (C10_error_iff T.fn T.xi T.phi ordmin inp.ordmax 1 eF eX eP e).mp hr with
      ⟨h, _⟩ | ⟨_, _, k, hle, hcc⟩
    · cases h
    · rw [Nat.div_one] at hcc; omega
  | ok Lab =>
    refine ⟨Lab, rfl, ?_⟩
    intro i o hi
    rw [C10_label_iff T.fn T.xi T.phi ordmin inp.ordmax 1 eF eX eP hr i o hi, C10_visited_step_one]

/-- non-vacuity of `C10_plscf_shift_table`: the pLSCF instance of `Props/C05Table.lean` -/
example (ordmin : Nat) (eF eX eP : Rat) :=
  C10_plscf_shift_table 2 1 6 2 (-1) (Or.inl rfl) PV.C05.e2eOmOf PV.C05.e2eSy _ _ PV.C05.e2e_all id 1 10
    false 0 _ _ _ PV.C05.e2e_poles (by decide +kernel) ordmin eF eX eP

/-- non-vacuity of `C10_ssi_table`: the SSI instance of `Props/C01Table.lean` -/
example (ordmin : Nat) (eF eX eP : Rat) : ∃ T : SsiTables, T.fn.c = 2 + 1 ∧
    ∃ Lab, scApply T.fn T.xi T.phi ordmin 2 1 eF eX eP = .ok Lab := by
  obtain ⟨T, hT, _⟩ := PV.C01Table.Ex.table
  obtain ⟨h1, Lab, h2, _⟩ := C10_ssi_table _ rfl T hT ordmin eF eX eP
  exact ⟨T, h1, Lab, h2⟩

end PV.C10
