import PyomaVerif.Lemmas.Realise
import PyomaVerif.Model.Hankel
import PyomaVerif.Props.C12
import Mathlib.Analysis.SpecialFunctions.Complex.Log
/-!
# C01 — SSI recovers exact modal parameters from noise-free free vibration
The realisation step, for every system order, channel count and block-row count.
External factorizations enter through their contracts (hypotheses).
-/
namespace PV.C01
open PV PV.Mat Matrix Finset

variable {K : Type} [Field K]

/-- **`SSI_fast`, order `n`: the state matrix is `L·O↓ₙ` for a left inverse `L` of `O↑ₙ`.**
    Contracts: `O↑ = Q·R` (QR of the order-`N` matrix, computed once), `QᵀQ = 1`, `R` upper
    triangular, `Rinv` inverts the leading `n × n` block of `R`. -/
theorem fast_is_left_inverse {M N n : ℕ} (hn : n ≤ N) (Op Om Q R Rinv : Mat K)
    (hRc : Rinv.c = n) (hQr : Q.r = M)
    (hQR : toMx M N Op.e = toMx M N Q.e * toMx N N R.e)
    (hOrth : (toMx M N Q.e)ᵀ * toMx M N Q.e = 1)
    (hTri : ∀ i j, j < i → R.e i j = 0)
    (hRinv : toMx n n Rinv.e * toMx n n R.e = 1) :
    toMx n n (fastA Rinv Q Om n).e = (toMx n n Rinv.e * (toMx M n Q.e)ᵀ) * toMx M n Om.e ∧
    (toMx n n Rinv.e * (toMx M n Q.e)ᵀ) * toMx M n Op.e = 1 := by
  constructor
  · simp only [fastA, Mat.mul, leadBlock, Mat.transpose, hRc, hQr]
    rw [toMx_mul, Matrix.mul_assoc]
    congr 1
    exact toMx_mulT n M n Q.e Om.e
  · rw [qr_leading_block hn Op.e Q.e R.e hQR hTri, Matrix.mul_assoc,
      ← Matrix.mul_assoc (toMx M n Q.e)ᵀ, orth_leading hn Q.e hOrth, Matrix.one_mul, hRinv]

/-- **C01_realisation (fast routine).** If the order-`n` observability factor the code forms is
    the true one up to an invertible `T` (`O↑ₙ = O↑·T`, `O↓ₙ = O↑·A·T` — shift structure of the
    true observability matrix), the state matrix returned for order `n` is `T⁻¹·A·T`. -/
theorem C01_realisation_fast {M N n : ℕ} (hn : n ≤ N) (Op Om Q R Rinv : Mat K)
    (hRc : Rinv.c = n) (hQr : Q.r = M)
    (hQR : toMx M N Op.e = toMx M N Q.e * toMx N N R.e)
    (hOrth : (toMx M N Q.e)ᵀ * toMx M N Q.e = 1)
    (hTri : ∀ i j, j < i → R.e i j = 0)
    (hRinv : toMx n n Rinv.e * toMx n n R.e = 1)
    (Oup : Matrix (Fin M) (Fin n) K) (A T Tinv : Matrix (Fin n) (Fin n) K)
    (hT : T * Tinv = 1)
    (hUp : toMx M n Op.e = Oup * T) (hDn : toMx M n Om.e = Oup * A * T) :
    toMx n n (fastA Rinv Q Om n).e = Tinv * A * T := by
  obtain ⟨h1, h2⟩ := fast_is_left_inverse hn Op Om Q R Rinv hRc hQr hQR hOrth hTri hRinv
  rw [h1, hDn]
  rw [hUp] at h2
  exact realisation_similar Oup (Oup * A) A T Tinv _ rfl hT h2

/-- **C01_realisation (legacy routine).** Same conclusion for `pinv(O↑ₙ)·O↓ₙ`, the
    pseudo-inverse entering only through "it is a left inverse of `O↑ₙ`". -/
theorem C01_realisation_legacy {M n l : ℕ} (Obsn Pinv : Mat K)
    (hPc : Pinv.c = M)
    (hP : toMx n M Pinv.e * toMx M n (upPart Obsn l).e = 1)
    (Oup : Matrix (Fin M) (Fin n) K) (A T Tinv : Matrix (Fin n) (Fin n) K)
    (hT : T * Tinv = 1)
    (hUp : toMx M n (upPart Obsn l).e = Oup * T) (hDn : toMx M n (dnPart Obsn l).e = Oup * A * T) :
    toMx n n (legacyA Pinv Obsn l).e = Tinv * A * T := by
  have h1 : toMx n n (legacyA Pinv Obsn l).e = toMx n M Pinv.e * toMx M n (dnPart Obsn l).e := by
    simp only [legacyA, Mat.mul, hPc]
    exact toMx_mul n M n Pinv.e (dnPart Obsn l).e
  rw [h1, hDn]
  rw [hUp] at hP
  exact realisation_similar Oup (Oup * A) A T Tinv _ rfl hT hP

omit [Field K] in
/-- the output matrix of order `n` is the first block row of the observability factor -/
theorem C01_outC (Obs : Mat K) (l n : ℕ) (i j : ℕ) : (outC Obs l n).e i j = Obs.e i j := rfl

omit [Field K] in
/-- up/down parts are what they say: rows `0..r-l` resp. `l..r` of the factor -/
theorem upPart_e (Obs : Mat K) (l i j : ℕ) : (upPart Obs l).e i j = Obs.e i j := by
  simp [upPart, rowSlice]
omit [Field K] in
theorem dnPart_e (Obs : Mat K) (l i j : ℕ) : (dnPart Obs l).e i j = Obs.e (l + i) j := by
  simp [dnPart, rowSlice]

/-- **C01_chain.** `H = O·Γ = Obs·W` (`O` the observability matrix of the true system, left
    invertible; `Γ` right invertible; `Obs = U_n·√S_n`, `W = √S_n·V_nᵀ` the truncated SVD
    factors) ⇒ `Obs = O·T` with `T` invertible; with the shift structure `O↓ = O↑·A` this is
    exactly the hypothesis of the two realisation theorems, hence both routines return a matrix
    similar to `A` with output matrix `C·T`; eigenvalues coincide and output shapes agree
    (`eig_transfer`). -/
theorem C01_chain {m n c : ℕ}
    (O Obs : Matrix (Fin m) (Fin n) K) (Γ W : Matrix (Fin n) (Fin c) K)
    (Ol : Matrix (Fin n) (Fin m) K) (Γr : Matrix (Fin c) (Fin n) K)
    (hO : Ol * O = 1) (hΓ : Γ * Γr = 1) (h : O * Γ = Obs * W) :
    ∃ T Tinv : Matrix (Fin n) (Fin n) K, T * Tinv = 1 ∧ Tinv * T = 1 ∧ Obs = O * T ∧
      ∀ (rows : Fin m → Fin m), Obs.submatrix rows id = (O.submatrix rows id) * T := by
  obtain ⟨T, Tinv, h1, h2, h3⟩ := rank_factor_unique O Obs Γ W Ol Γr hO hΓ h
  refine ⟨T, Tinv, h1, h2, h3, ?_⟩
  intro rows
  rw [h3]
  ext i j
  simp [Matrix.mul_apply]

/-- **Free vibration gives an exactly factorising moment-matrix Hankel.**  If
    `y_t = C·Aᵗ·x0` for all channels (references being some of the channels, `cr` their rows of
    `C`), then `hankMM Y Yref p s = O_{p+1}(A, C) · Γ`, where `Γ[k, j·r+b] = s²·Σ_t (A^{p+2+t}x0)_k ·
    Yref[b, p+1−j+t]`. -/
theorem freevib_hankel_factor {n : ℕ} (A : Matrix (Fin n) (Fin n) K) (x0 : Fin n → K)
    (Y Yref : Mat K) (Cm : ℕ → Fin n → K) (p : ℕ) (s : K)
    (hY : ∀ a t, Y.e a t = ∑ k, Cm a k * ((A ^ t).mulVec x0) k)
    (i a j b : ℕ) (ha : a < Y.r) (hb : b < Yref.r) (hj : j ≤ p) :
    (hankMM Y Yref p s).e (i * Y.r + a) (j * Yref.r + b)
      = ∑ k, (∑ k', Cm a k' * (A ^ i) k' k) *
          ((s * s) * ∑ t ∈ range (Y.c - p - (p + 1) - 1),
              ((A ^ (p + 2 + t)).mulVec x0) k * Yref.e b (p + 1 - j + t)) := by
  rw [PV.C12.C12_mm_entry Y Yref p s i a j b ha hb hj]
  have key : ∀ t, Y.e a (p + 2 + i + t) = ∑ k, (∑ k', Cm a k' * (A ^ i) k' k) * ((A ^ (p + 2 + t)).mulVec x0) k := by
    intro t
    rw [hY]
    have : p + 2 + i + t = i + (p + 2 + t) := by omega
    rw [this, pow_add, ← Matrix.mulVec_mulVec]
    generalize (A ^ (p + 2 + t)).mulVec x0 = w
    simp only [Matrix.mulVec, dotProduct, Finset.sum_mul, Finset.mul_sum]
    rw [Finset.sum_comm]
    apply Finset.sum_congr rfl; intro x _
    apply Finset.sum_congr rfl; intro y _
    ring
  simp only [key, Finset.mul_sum, Finset.sum_mul]
  rw [Finset.sum_comm]
  apply Finset.sum_congr rfl; intro x _
  apply Finset.sum_congr rfl; intro y _
  apply Finset.sum_congr rfl; intro z _
  ring

/-- **Discrete → continuous pole.**  A continuous pole `λ` below the Nyquist frequency
    (`|Im λ|·dt < π`) is recovered exactly from its discrete image `exp(λ·dt)` by the map the code
    uses, `log(λ_d)/dt`; natural frequency `|λ|/2π` and damping `−Re λ/|λ|` are then read off `λ`
    itself. -/
theorem pole_recovery (lam : ℂ) (dt : ℝ) (hdt : 0 < dt) (hN : |lam.im| * dt < Real.pi) :
    Complex.log (Complex.exp (lam * dt)) / dt = lam := by
  have hb := abs_lt.mp (show |lam.im * dt| < Real.pi by rw [abs_mul, abs_of_pos hdt]; exact hN)
  have h1 : -Real.pi < (lam * dt).im := by
    simp only [Complex.mul_im, Complex.ofReal_re, Complex.ofReal_im, mul_zero]
    linarith [hb.1]
  have h2 : (lam * dt).im ≤ Real.pi := by
    simp only [Complex.mul_im, Complex.ofReal_re, Complex.ofReal_im, mul_zero]
    linarith [hb.2]
  rw [Complex.log_exp h1 h2]
  have : (dt : ℂ) ≠ 0 := by exact_mod_cast hdt.ne'
  field_simp

/-! ### non-vacuity: a 1-state system `y_t = 1` (A = 1), one channel -/
example : ∃ (A : Matrix (Fin 1) (Fin 1) ℚ) (x0 : Fin 1 → ℚ) (Y : Mat ℚ),
    (∀ a t, Y.e a t = ∑ k, (fun _ _ => (1:ℚ)) a k * ((A ^ t).mulVec x0) k) :=
  ⟨1, ![1], ⟨1, 8, fun _ _ => 1⟩, by
    intro a t
    simp [Matrix.mulVec, dotProduct]⟩

end PV.C01
