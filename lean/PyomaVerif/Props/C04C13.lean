import PyomaVerif.Props.C04
import PyomaVerif.Props.C13
import Mathlib.Algebra.Order.Ring.Rat
/-!
# C04 ∘ C13 — PreGER merging with the library's own estimator model

`Props/C04.lean` proves the merging theorems for an abstract estimator under the hypotheses
`SdShape`, `Pairwise`, `SdHomog`.  Here the estimator is C13's model of `fdd.SD_est`
(`sdEstPer` — Welch/Hann — and `sdEstCor` — correlogram chain — over `CxS K`), the three
hypotheses are *proved* for it, and the corollaries are unconditional in the estimator.

Types: samples, `fs`, `pov`, frequencies are in an ordered field `K` (ℝ), spectra in
`CxS K`, which is made a `Field` here (extending C13's `CommRing` instance).  What remains a
parameter: the twiddle tables `tw nxseg`, `tw2 nxseg`, the exponential window `ew nxseg` and
the rounding `nov pov nxseg = int(nxseg·pov)` of the overlap (C13's model takes them as
parameters as well) — the statements hold for all of them.
-/
namespace PV.C04C13
open PV PV.Mat Finset

/-! ## `CxS K` is a field when `K` is an ordered field -/
section field
variable {K : Type} [Field K] [LinearOrder K] [IsStrictOrderedRing K]

theorem normSq_pos {a : CxS K} (ha : a ≠ 0) : 0 < a.re * a.re + a.im * a.im := by
  have hne : a.re ≠ 0 ∨ a.im ≠ 0 := by
    by_contra hc
    have hc' := not_or.mp hc
    exact ha (CxS.ext' (not_not.mp hc'.1) (not_not.mp hc'.2))
  rcases hne with h1 | h1
  · have := mul_self_pos.mpr h1; have := mul_self_nonneg a.im; linarith
  · have := mul_self_pos.mpr h1; have := mul_self_nonneg a.re; linarith

instance : Inv (CxS K) :=
  ⟨fun a => ⟨a.re / (a.re * a.re + a.im * a.im), -a.im / (a.re * a.re + a.im * a.im)⟩⟩

instance instField : Field (CxS K) where
  toCommRing := CxS.instCommRing
  inv := Inv.inv
  exists_pair_ne := ⟨0, 1, fun h => by
    have := congrArg CxS.re h
    simp at this⟩
  mul_inv_cancel a ha := by
    have hp := ne_of_gt (normSq_pos ha)
    ext
    · show a.re * (a.re / (a.re * a.re + a.im * a.im))
          - a.im * (-a.im / (a.re * a.re + a.im * a.im)) = 1
      rw [show a.re * (a.re / (a.re * a.re + a.im * a.im))
          - a.im * (-a.im / (a.re * a.re + a.im * a.im))
          = (a.re * a.re + a.im * a.im) / (a.re * a.re + a.im * a.im) from by ring]
      exact div_self hp
    · show a.re * (-a.im / (a.re * a.re + a.im * a.im))
          + a.im * (a.re / (a.re * a.re + a.im * a.im)) = 0
      ring
  inv_zero := by
    ext
    · show (0 : K) / _ = 0; simp
    · show -(0 : K) / _ = 0; simp
  nnqsmul := _
  nnqsmul_def := fun _ _ => rfl
  qsmul := _
  qsmul_def := fun _ _ => rfl

omit [LinearOrder K] [IsStrictOrderedRing K] in
theorem ofReal_ne_zero {c : K} (hc : c ≠ 0) : (CxS.ofReal c : CxS K) ≠ 0 := fun h => by
  have := congrArg CxS.re h
  exact hc (by simpa using this)

theorem natCast_ne_zero {n : Nat} (hn : 0 < n) : ((n : Nat) : CxS K) ≠ 0 := by
  rw [← CxS.ofReal_natCast]
  exact ofReal_ne_zero (by exact_mod_cast (Nat.pos_iff_ne_zero.mp hn))

end field

/-! ## the adapter: C13's `SD_est` model as an `Estimator` -/
section adapter
variable {K : Type} [Field K] [LinearOrder K] [IsStrictOrderedRing K]

/-- the estimator parameters C13's model leaves open, as functions of `nxseg` (and `pov`) -/
structure Tables (K : Type) where
  /-- `tw nxseg m = exp(−2πi·m/nxseg)` -/
  tw : Nat → Nat → CxS K
  /-- twiddle of length `2·(nxseg//2)` -/
  tw2 : Nat → Nat → CxS K
  /-- exponential window of the correlogram chain -/
  ew : Nat → Nat → K
  /-- `noverlap` from `pov` and `nxseg` (`int(nxseg·pov)` in scipy) -/
  nov : K → Nat → Nat

def ofSpec (S : Spec K) : SdOut K (CxS K) :=
  ⟨(List.range S.nf).map S.freq, ⟨S.nall, S.nref, S.nf, S.e⟩⟩

/-- `fdd.SD_est(Yall, Yref, dt, nxseg, method, pov)` as modelled by C13 -/
def sdEst (tb : Tables K) : Estimator K K K (CxS K) := fun π A B =>
  match π.method with
  | .per => ofSpec (sdEstPer A B π.dt π.nxseg (tb.nov π.pov π.nxseg) (tb.tw π.nxseg))
  | .cor => ofSpec (sdEstCor A B π.dt π.nxseg (tb.tw π.nxseg) (tb.tw2 π.nxseg) (tb.ew π.nxseg))
  | .other => ⟨[], ⟨A.r, B.r, 0, fun _ _ _ => 0⟩⟩

omit [LinearOrder K] [IsStrictOrderedRing K] in
theorem sdEst_shape (tb : Tables K) : SdShape (sdEst tb) := by
  refine ⟨?_, ?_, ?_⟩ <;> intro π A B <;> rcases π with ⟨dt, nx, m, pov⟩ <;> cases m <;>
    simp [sdEst, ofSpec, sdEstPer, sdEstCor]

/-- a one-channel record -/
def row1 (c : Nat) (r : Nat → K) : Mat K := ⟨1, c, fun _ => r⟩

omit [LinearOrder K] [IsStrictOrderedRing K] in
/-- pairing, from `C13.sd_pairing_per_entry` / `C13.sd_pairing_cor`: entry `(i, j)` of the
    estimate of `(A, B)` is entry `(0, 0)` of the estimate of (row `i` of `A`, row `j` of `B`);
    the grid does not see the data at all -/
theorem sdEst_pairwise (tb : Tables K) : Pairwise (sdEst tb) := by
  constructor
  · refine ⟨fun π cA cB => (sdEst tb π (row1 cA fun _ => 0) (row1 cB fun _ => 0)).freq, ?_⟩
    intro π A B
    rcases π with ⟨dt, nx, m, pov⟩
    cases m <;> rfl
  · refine ⟨fun π cA cB ra rb f => (sdEst tb π (row1 cA ra) (row1 cB rb)).S.e 0 0 f, ?_⟩
    intro π A B i j f
    rcases π with ⟨dt, nx, m, pov⟩
    cases m
    · show (sdEstPer A B dt nx _ _).e i j f = (sdEstPer (row1 A.c (A.e i)) (row1 B.c (B.e j)) dt nx _ _).e 0 0 f
      rw [C13.sd_pairing_per_entry, C13.sd_pairing_per_entry]
      rfl
    · show (sdEstCor A B dt nx _ _ _).e i j f
        = (sdEstCor (row1 A.c (A.e i)) (row1 B.c (B.e j)) dt nx _ _ _).e i j f
      exact C13.sd_pairing_cor (row1 A.c (A.e i)) (row1 B.c (B.e j)) A B dt nx _ _ _ i j f rfl
        (fun _ _ => rfl) (fun _ _ => rfl)
    · rfl

/-- homogeneity, from `C13.sd_bilinear_per_smul` / `C13.sd_bilinear_cor_smul` -/
theorem sdEst_homog (tb : Tables K) : SdHomog (sdEst tb) CxS.ofReal CxS.ofReal := by
  refine ⟨?_, ?_, ?_, ?_, ?_⟩
  · intro π A B c d; rcases π with ⟨dt, nx, m, pov⟩
    cases m <;> simp only [sdEst, ofSpec, sdEstPer, sdEstCor, welchCsd, Mat.scale]
  · intro π A B c d; rcases π with ⟨dt, nx, m, pov⟩
    cases m <;> simp only [sdEst, ofSpec, sdEstPer, sdEstCor, welchCsd, Mat.scale]
  · intro π A B c d; rcases π with ⟨dt, nx, m, pov⟩
    cases m <;> simp only [sdEst, ofSpec, sdEstPer, sdEstCor, welchCsd, Mat.scale]
  · intro π A B c d; rcases π with ⟨dt, nx, m, pov⟩
    cases m <;> simp only [sdEst, ofSpec, sdEstPer, sdEstCor, welchCsd, Mat.scale]
  · intro π A B c d i j f
    rcases π with ⟨dt, nx, m, pov⟩
    cases m
    · show (sdEstPer (Mat.scale c A) (Mat.scale d B) dt nx _ _).e i j f = _
      rw [C13.sd_bilinear_per_smul, CxS.ofReal_mul]; rfl
    · show (sdEstCor (Mat.scale c A) (Mat.scale d B) dt nx _ _ _).e i j f = _
      rw [C13.sd_bilinear_cor_smul, CxS.ofReal_mul]; rfl
    · show (0 : CxS K) = _
      simp [sdEst]

end adapter

/-! ## the unconditional corollaries -/
section corollaries
variable {K : Type} [Field K] [LinearOrder K] [IsStrictOrderedRing K]
variable (tb : Tables K) {inv : Mat (CxS K) → Mat (CxS K)} {fs : K} {nxseg : Nat} {pov : K}
  {n : Nat} {Y : Nat → Setup K}

/-- all sensors of the one recording: `[refs; mov₀; mov₁; …]` -/
def allSensors (n : Nat) (Y : Nat → Setup K) : Mat K :=
  Mat.vstack2 (Y 0).ref (Mat.vstackFn n (fun k => (Y k).mov))

/-- **Welch/Hann estimator.** One recording cut into `n ≥ 1` setups (identical reference
    records) merges to the single-setup matrix `SD_est([refs; mov…], refs, 1/fs, nxseg, "per",
    pov)` of C13's model — same grid, same shape, every entry — for every `fs`, `nxseg`,
    overlap; hypotheses left: the inverse contract and invertibility of the reference block
    of that single-setup matrix at each of its `nxseg//2 + 1` lines. -/
theorem C04_identical_refs_per (hinv : InvContract inv) (hn : 0 < n)
    (hR : ∀ ii, ii < n → (Y ii).ref = (Y 0).ref)
    (hG : ∀ f, f < nxseg / 2 + 1 →
      ∃ W, IsLeftInv W ⟨(Y 0).ref.r, (Y 0).ref.r, fun i j =>
        (sdEstPer (allSensors n Y) (Y 0).ref (1 / fs) nxseg (tb.nov pov nxseg) (tb.tw nxseg)).e i j f⟩) :
    (sdPreGER (sdEst tb) inv fs nxseg pov .per n Y).freq
        = (List.range (nxseg / 2 + 1)).map
            (sdEstPer (allSensors n Y) (Y 0).ref (1 / fs) nxseg (tb.nov pov nxseg) (tb.tw nxseg)).freq
    ∧ (sdPreGER (sdEst tb) inv fs nxseg pov .per n Y).S.n0 = (allSensors n Y).r
    ∧ (sdPreGER (sdEst tb) inv fs nxseg pov .per n Y).S.n1 = (Y 0).ref.r
    ∧ (sdPreGER (sdEst tb) inv fs nxseg pov .per n Y).S.n2 = nxseg / 2 + 1
    ∧ ∀ i j f, i < (allSensors n Y).r → j < (Y 0).ref.r → f < nxseg / 2 + 1 →
        (sdPreGER (sdEst tb) inv fs nxseg pov .per n Y).S.e i j f
          = (sdEstPer (allSensors n Y) (Y 0).ref (1 / fs) nxseg (tb.nov pov nxseg) (tb.tw nxseg)).e i j f := by
  obtain ⟨h1, h2, h3, h4, h5⟩ := C04.C04_identical_refs (sd := sdEst tb) (inv := inv) (fs := fs)
    (nxseg := nxseg) (pov := pov) (method := .per) (n := n) (Y := Y)
    (sdEst_shape tb) (sdEst_pairwise tb) hinv (by decide) (natCast_ne_zero hn) hR hG
  refine ⟨h1, h2, h3, h4, ?_⟩
  intro i j f hi hj hf
  exact h5 i j f (by rw [h2]; exact hi) (by rw [h3]; exact hj) (by rw [h4]; exact hf)

/-- **Correlogram estimator.** The same for `method = "cor"` (`pov` is irrelevant there). -/
theorem C04_identical_refs_cor (hinv : InvContract inv) (hn : 0 < n)
    (hR : ∀ ii, ii < n → (Y ii).ref = (Y 0).ref)
    (hG : ∀ f, f < (2 * (nxseg / 2 + 1 - 1)) / 2 + 1 →
      ∃ W, IsLeftInv W ⟨(Y 0).ref.r, (Y 0).ref.r, fun i j =>
        (sdEstCor (allSensors n Y) (Y 0).ref (1 / fs) nxseg (tb.tw nxseg) (tb.tw2 nxseg) (tb.ew nxseg)).e i j f⟩) :
    (sdPreGER (sdEst tb) inv fs nxseg pov .cor n Y).freq
        = (List.range ((2 * (nxseg / 2 + 1 - 1)) / 2 + 1)).map
            (sdEstCor (allSensors n Y) (Y 0).ref (1 / fs) nxseg (tb.tw nxseg) (tb.tw2 nxseg) (tb.ew nxseg)).freq
    ∧ (sdPreGER (sdEst tb) inv fs nxseg pov .cor n Y).S.n0 = (allSensors n Y).r
    ∧ (sdPreGER (sdEst tb) inv fs nxseg pov .cor n Y).S.n1 = (Y 0).ref.r
    ∧ (sdPreGER (sdEst tb) inv fs nxseg pov .cor n Y).S.n2 = (2 * (nxseg / 2 + 1 - 1)) / 2 + 1
    ∧ ∀ i j f, i < (allSensors n Y).r → j < (Y 0).ref.r → f < (2 * (nxseg / 2 + 1 - 1)) / 2 + 1 →
        (sdPreGER (sdEst tb) inv fs nxseg pov .cor n Y).S.e i j f
          = (sdEstCor (allSensors n Y) (Y 0).ref (1 / fs) nxseg (tb.tw nxseg) (tb.tw2 nxseg) (tb.ew nxseg)).e i j f := by
  obtain ⟨h1, h2, h3, h4, h5⟩ := C04.C04_identical_refs (sd := sdEst tb) (inv := inv) (fs := fs)
    (nxseg := nxseg) (pov := pov) (method := .cor) (n := n) (Y := Y)
    (sdEst_shape tb) (sdEst_pairwise tb) hinv (by decide) (natCast_ne_zero hn) hR hG
  refine ⟨h1, h2, h3, h4, ?_⟩
  intro i j f hi hj hf
  exact h5 i j f (by rw [h2]; exact hi) (by rw [h3]; exact hj) (by rw [h4]; exact hf)

/-- **Gains, either estimator.** Multiplying every channel of setup `k` by a real `c ≠ 0`
    multiplies setup `k`'s term of the mean reference block by `c²` and leaves every roving
    block equal to (unscaled transmissibility) · (new mean block). -/
theorem C04_gain_sd (method : SdMethod) (hm : method ≠ .other) (hinv : InvContract inv)
    (href : ∀ ii, ii < n → (Y ii).ref.r = (Y 0).ref.r)
    (k : Nat) (hk : k < n) (c : K) (hc : c ≠ 0)
    (hG : ∀ f, ∃ W, IsLeftInv W (refBlock (Y 0).ref.r (gyy (sdEst tb) fs nxseg pov method Y) k f)) :
    (∀ i j f, i < (Y 0).ref.r → j < (Y 0).ref.r →
      (sdPreGER (sdEst tb) inv fs nxseg pov method n (scaleSetup c k Y)).S.e i j f
        = (1 / (n : CxS K)) * ∑ ii ∈ range n,
            (if ii = k then CxS.ofReal (c * c) else 1)
              * (estRef (sdEst tb) fs nxseg pov method Y ii).S.e i j f)
    ∧ (∀ ii a j f, ii < n → a < (Y ii).mov.r →
      (sdPreGER (sdEst tb) inv fs nxseg pov method n (scaleSetup c k Y)).S.e
          ((Y 0).ref.r + (∑ k' ∈ range ii, (Y k').mov.r) + a) j f
        = (Mat.mul
            (Mat.mul (movBlock (Y 0).ref.r (gyy (sdEst tb) fs nxseg pov method Y) ii f)
                     (inv (refBlock (Y 0).ref.r (gyy (sdEst tb) fs nxseg pov method Y) ii f)))
            ((meanRefRef n (Y 0).ref.r
              (gyy (sdEst tb) fs nxseg pov method (scaleSetup c k Y))).line f)).e a j) := by
  have := C04.C04_gain (sd := sdEst tb) (inv := inv) (fs := fs) (nxseg := nxseg) (pov := pov)
    (method := method) (n := n) (Y := Y) CxS.ofReal CxS.ofReal (sdEst_shape tb) (sdEst_homog tb)
    hinv hm href k hk c (mul_ne_zero (ofReal_ne_zero hc) (ofReal_ne_zero hc)) hG
  simpa only [CxS.ofReal_mul] using this


/-- `C04_gain_sd` for the Welch/Hann estimator -/
theorem C04_gain_per (hinv : InvContract inv)
    (href : ∀ ii, ii < n → (Y ii).ref.r = (Y 0).ref.r)
    (k : Nat) (hk : k < n) (c : K) (hc : c ≠ 0)
    (hG : ∀ f, ∃ W, IsLeftInv W (refBlock (Y 0).ref.r (gyy (sdEst tb) fs nxseg pov .per Y) k f)) :
    (∀ i j f, i < (Y 0).ref.r → j < (Y 0).ref.r →
      (sdPreGER (sdEst tb) inv fs nxseg pov .per n (scaleSetup c k Y)).S.e i j f
        = (1 / (n : CxS K)) * ∑ ii ∈ range n,
            (if ii = k then CxS.ofReal (c * c) else 1)
              * (estRef (sdEst tb) fs nxseg pov .per Y ii).S.e i j f)
    ∧ (∀ ii a j f, ii < n → a < (Y ii).mov.r →
      (sdPreGER (sdEst tb) inv fs nxseg pov .per n (scaleSetup c k Y)).S.e
          ((Y 0).ref.r + (∑ k' ∈ range ii, (Y k').mov.r) + a) j f
        = (Mat.mul
            (Mat.mul (movBlock (Y 0).ref.r (gyy (sdEst tb) fs nxseg pov .per Y) ii f)
                     (inv (refBlock (Y 0).ref.r (gyy (sdEst tb) fs nxseg pov .per Y) ii f)))
            ((meanRefRef n (Y 0).ref.r
              (gyy (sdEst tb) fs nxseg pov .per (scaleSetup c k Y))).line f)).e a j) :=
  C04_gain_sd tb (inv := inv) (fs := fs) (nxseg := nxseg) (pov := pov) (n := n) (Y := Y)
    .per (by decide) hinv href k hk c hc hG

/-- `C04_gain_sd` for the correlogram estimator -/
theorem C04_gain_cor (hinv : InvContract inv)
    (href : ∀ ii, ii < n → (Y ii).ref.r = (Y 0).ref.r)
    (k : Nat) (hk : k < n) (c : K) (hc : c ≠ 0)
    (hG : ∀ f, ∃ W, IsLeftInv W (refBlock (Y 0).ref.r (gyy (sdEst tb) fs nxseg pov .cor Y) k f)) :
    (∀ i j f, i < (Y 0).ref.r → j < (Y 0).ref.r →
      (sdPreGER (sdEst tb) inv fs nxseg pov .cor n (scaleSetup c k Y)).S.e i j f
        = (1 / (n : CxS K)) * ∑ ii ∈ range n,
            (if ii = k then CxS.ofReal (c * c) else 1)
              * (estRef (sdEst tb) fs nxseg pov .cor Y ii).S.e i j f)
    ∧ (∀ ii a j f, ii < n → a < (Y ii).mov.r →
      (sdPreGER (sdEst tb) inv fs nxseg pov .cor n (scaleSetup c k Y)).S.e
          ((Y 0).ref.r + (∑ k' ∈ range ii, (Y k').mov.r) + a) j f
        = (Mat.mul
            (Mat.mul (movBlock (Y 0).ref.r (gyy (sdEst tb) fs nxseg pov .cor Y) ii f)
                     (inv (refBlock (Y 0).ref.r (gyy (sdEst tb) fs nxseg pov .cor Y) ii f)))
            ((meanRefRef n (Y 0).ref.r
              (gyy (sdEst tb) fs nxseg pov .cor (scaleSetup c k Y))).line f)).e a j) :=
  C04_gain_sd tb (inv := inv) (fs := fs) (nxseg := nxseg) (pov := pov) (n := n) (Y := Y)
    .cor (by decide) hinv href k hk c hc hG

end corollaries

/-! ## Non-vacuity over ℚ: an 8-sample recording, one reference and two roving channels, cut
into two setups; `nxseg = 4` with the exact length-4 twiddle `(−i)^m` of C13, no overlap. -/
section example_
open PV.C13

/-- exact twiddles of length 4; a rational stand-in for the decaying exponential window -/
def exTb : Tables ℚ := ⟨fun _ => tw4, fun _ => tw4, fun _ t => 1 / ((t : ℚ) + 1), fun _ _ => 0⟩
def exRefM : Mat ℚ := ⟨1, 8, fun _ t => exX t⟩
def exYs : Nat → Setup ℚ := fun ii =>
  ⟨exRefM, if ii = 0 then ⟨1, 8, fun _ t => exYd t⟩ else ⟨1, 8, fun _ t => (t : ℚ) * t - 3⟩⟩

/-- the reference auto-spectrum of the single-setup estimate is non-zero at the three lines -/
theorem ex_per_ne : ∀ f, f < 4 / 2 + 1 →
    (sdEstPer (allSensors 2 exYs) (exYs 0).ref (1 / 1) 4 (exTb.nov (1/2) 4) (exTb.tw 4)).e 0 0 f ≠ 0 := by
  decide +kernel

theorem ex_cor_ne : ∀ f, f < (2 * (4 / 2 + 1 - 1)) / 2 + 1 →
    (sdEstCor (allSensors 2 exYs) (exYs 0).ref (1 / 1) 4 (exTb.tw 4) (exTb.tw2 4) (exTb.ew 4)).e 0 0 f ≠ 0 := by
  decide +kernel

example := C04_identical_refs_per exTb (inv := C04.exInv) (fs := 1) (nxseg := 4) (pov := 1/2)
  (n := 2) (Y := exYs) C04.exInv_contract (by decide) (fun _ _ => rfl)
  (fun f hf => C04.one_by_one _ rfl rfl (ex_per_ne f hf))

example := C04_identical_refs_cor exTb (inv := C04.exInv) (fs := 1) (nxseg := 4) (pov := 1/2)
  (n := 2) (Y := exYs) C04.exInv_contract (by decide) (fun _ _ => rfl)
  (fun f hf => C04.one_by_one _ rfl rfl (ex_cor_ne f hf))

end example_
end PV.C04C13
