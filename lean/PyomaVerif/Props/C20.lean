import PyomaVerif.Model.PlotModel
import PyomaVerif.Lemmas.PlotModel
import Mathlib.Data.List.Basic
import Mathlib.Algebra.Order.Ring.Rat
/-!
# C20 — diagrams show exactly the identified poles at their frequency, order and damping
Property theorems only; all are for every table size, every NaN pattern, every label table.
A *cell* is (row `r` = pole slot, column `c` = order column). The specification lists below
enumerate every cell of the table exactly once (columns outside, rows inside), so an
equality of a marker list with a specification list is in particular an equality of
multisets: one marker per qualifying pole, none for the others.
-/
namespace PV.C20
open PV PV.Plot

/-- keep the markers whose abscissa is finite (what matplotlib can draw). -/
def finiteX {K Y : Type} (l : List (Option K × Y)) : List (K × Y) :=
  l.filterMap fun p => p.1.map fun x => (x, p.2)

/-- keep the markers with both coordinates finite. -/
def finiteXY {K : Type} (l : List (Option K × Option K)) : List (K × K) :=
  l.filterMap fun p => match p.1, p.2 with
    | some a, some b => some (a, b)
    | _, _ => none

/-- **Specification of the stabilisation markers for label `v`**: one entry
    `(Fn[r,c], c·step)` per cell with `Lab[r,c] = v` and `Fn[r,c]` not NaN. -/
def stabSpec {K : Type} (Fn : Mat (Option K)) (Lab : Mat Int) (step : Nat) (v : Int) : List (K × Nat) :=
  (List.range Fn.c).flatMap fun c => (List.range Fn.r).filterMap fun r =>
    if Lab.e r c = v then (Fn.e r c).map fun x => (x, c * step) else none

/-- **Specification of the cluster markers for label `v`**: `(Fn[r,c], Xi[r,c])` per cell with
    `Lab[r,c] = v` and both values not NaN. -/
def clusterSpec {K : Type} (Fn Xi : Mat (Option K)) (Lab : Mat Int) (v : Int) : List (K × K) :=
  (List.range Fn.c).flatMap fun c => (List.range Fn.r).filterMap fun r =>
    if Lab.e r c = v then
      match Fn.e r c, Xi.e r c with
      | some a, some b => some (a, b)
      | _, _ => none
    else none

/-- **Column-major flatten.** Element `i` of `T.flatten(order="F")` of an `R×C` table is the
    cell `(i % R, i / R)`, and there are `R·C` elements. -/
theorem flattenF_index {α : Type} (m : Mat α) (i : Nat) (h : i < m.c * m.r) :
    (flattenF m)[i]? = some (m.e (i % m.r) (i / m.r)) := by
  rw [flattenF_eq_map, List.getElem?_map, List.getElem?_range h]; rfl

theorem flattenF_length {α : Type} (m : Mat α) : (flattenF m).length = m.c * m.r :=
  Plot.flattenF_length m

/-- raw form of the marker vector of `stab_plot` for label `v`: entry `i` is the masked cell
    `(i % R, i / R)` at height `(i / R)·step` — every cell once, masked cells NaN. -/
theorem C20_stab_raw {K : Type} (Fn : Mat (Option K)) (Lab : Mat Int) (step : Nat) (v : Int) :
    stabXY Fn Lab step v
      = (List.range (Fn.c * Fn.r)).map fun i =>
          ((if Lab.e (i % Fn.r) (i / Fn.r) = v then Fn.e (i % Fn.r) (i / Fn.r) else none),
            (i / Fn.r) * step) := by
  unfold stabXY orderAxis
  simp only [flattenF_eq_map, whereEq, List.length_map, List.length_range]
  rw [List.zip_map']

/-- **Stabilisation markers, one label.** The markers with a finite abscissa are exactly
    `{(Fn[r,c], c·step) | Lab[r,c] = v, Fn[r,c] ≠ NaN}`, each once. -/
theorem C20_stab_label {K : Type} (Fn : Mat (Option K)) (Lab : Mat Int) (step : Nat) (v : Int) :
    finiteX (stabXY Fn Lab step v) = stabSpec Fn Lab step v := by
  rw [C20_stab_raw, range_mul_map]
  unfold finiteX stabSpec
  rw [List.filterMap_flatMap]
  apply List.flatMap_congr
  intro c _
  rw [List.filterMap_map]
  apply List.filterMap_congr
  intro r hr
  have h := List.mem_range.mp hr
  simp only [Function.comp, blk_mod' h, blk_div' h]
  split <;> rfl

/-- **C20, stabilisation diagram.** The `"go"` line carries exactly the poles labelled 1;
    with `hide_poles` the scatter does not exist; without it the scatter carries exactly the
    retained (non-NaN) poles labelled 0; a pole whose frequency is NaN (rejected) is in
    neither. Ordinates are `column·step`. -/
theorem C20_stab (Fn : Mat (Option Rat)) (Lab : Mat Int) (step : Nat) (hide : Bool)
    (cov : Option (Mat (Option Rat))) :
    finiteX (stabMarkers Fn Lab step hide cov).stable = stabSpec Fn Lab step 1 ∧
    (hide = true → (stabMarkers Fn Lab step hide cov).unstable = none) ∧
    (hide = false → ∃ u, (stabMarkers Fn Lab step hide cov).unstable = some u ∧
        finiteX u = stabSpec Fn Lab step 0) := by
  have hs := C20_stab_label Fn Lab step 1
  have hu := C20_stab_label Fn Lab step 0
  cases hide
  · refine ⟨hs, by simp, fun _ => ⟨stabXY Fn Lab step 0, ?_, hu⟩⟩
    simp only [stabMarkers, stabXY, orderAxis, whereEq, Plot.flattenF_length]
    rfl
  · exact ⟨hs, fun _ => rfl, by simp⟩

/-- specification of one error-bar call: bar `i` sits on marker `i` (the masked cell
    `(i % R, i / R)` at height `(i / R)·step`) and its half-width is computed from the
    covariance and frequency *of that same cell* (`g` = the ≤ 0.5 / > 0.5 selection). -/
def barSpec (Fn : Mat (Option Rat)) (Lab : Mat Int) (cov : Mat (Option Rat)) (step : Nat) (v : Int)
    (g : Option Rat → Option Rat) : List (Option Rat × Nat × Option Rat) :=
  (List.range (Fn.c * Fn.r)).map fun i =>
    ((if Lab.e (i % Fn.r) (i / Fn.r) = v then Fn.e (i % Fn.r) (i / Fn.r) else none),
      (i / Fn.r) * step,
      g (absMul (cov.e (i % Fn.r) (i / Fn.r)) (Fn.e (i % Fn.r) (i / Fn.r))))

/-- **Error bars belong to their own pole.** Hidden unstable poles: two calls (≤ 0.5 grey,
    > 0.5 red clipped at 0.5) on the stable markers. -/
theorem C20_stab_bars_hidden (Fn : Mat (Option Rat)) (Lab : Mat Int) (step : Nat) (cov : Mat (Option Rat)) :
    (stabMarkers Fn Lab step true (some cov)).bars
      = [barSpec Fn Lab cov step 1 errSmall, barSpec Fn Lab cov step 1 errLarge] := by
  simp only [stabMarkers, errorbar, orderAxis, barSpec, flattenF_eq_map, whereEq, if_true,
    List.length_map, List.length_range, List.map_map, List.zip_map', List.zipWith_map,
    List.zipWith_self, Function.comp_def]

/-- shown unstable poles: the same two calls on the stable markers, then on the unstable ones. -/
theorem C20_stab_bars_shown (Fn : Mat (Option Rat)) (Lab : Mat Int) (step : Nat) (cov : Mat (Option Rat)) :
    (stabMarkers Fn Lab step false (some cov)).bars
      = [barSpec Fn Lab cov step 1 errSmall, barSpec Fn Lab cov step 1 errLarge,
         barSpec Fn Lab cov step 0 errSmall, barSpec Fn Lab cov step 0 errLarge] := by
  simp only [stabMarkers, errorbar, orderAxis, barSpec, flattenF_eq_map, whereEq,
    List.length_map, List.length_range, List.map_map, List.zip_map', List.zipWith_map,
    List.zipWith_self, Function.comp_def, Bool.false_eq_true, if_false]

theorem C20_stab_bars_none (Fn : Mat (Option Rat)) (Lab : Mat Int) (step : Nat) (hide : Bool) :
    (stabMarkers Fn Lab step hide none).bars = [] := by
  cases hide <;> rfl

set_option linter.unusedSimpArgs false in
/-- labels are 0/1: with the unstable poles shown, *every* retained pole has exactly one
    marker (stable or unstable) — counting form. -/
theorem C20_stab_count {K : Type} (Fn : Mat (Option K)) (Lab : Mat Int) (step : Nat) (v : Int) :
    (finiteX (stabXY Fn Lab step v)).length
      = ((List.range Fn.c).map fun c =>
          ((List.range Fn.r).filter fun r => Lab.e r c = v ∧ (Fn.e r c).isSome).length).sum := by
  rw [C20_stab_label]
  unfold stabSpec
  rw [List.length_flatMap]
  congr 1
  apply List.map_congr_left
  intro c _
  induction (List.range Fn.r) with
  | nil => rfl
  | cons r t ih =>
    simp only [List.filterMap_cons, List.filter_cons]
    by_cases h1 : Lab.e r c = v
    · cases h2 : Fn.e r c <;> simp [h1, h2, ih]
    · simp [h1, ih]

-- `C20_stab_order_mpe_partial`, `C20_stab_order_step_counterexample` (ordinate = order accepted by extraction) are in
-- `Props/C20Extract.lean`, stated over C11's extraction models `ssiMpe` / `plscfMpe`.

/-- **C20, cluster diagram.** For equally shaped tables the markers with both coordinates
    finite are exactly `{(Fn[r,c], Xi[r,c]) | Lab[r,c] = v, both ≠ NaN}`, each once — the same
    cells as in the stabilisation diagram when `Fn` and `Xi` share their NaN pattern. -/
theorem C20_cluster_label {K : Type} (Fn Xi : Mat (Option K)) (Lab : Mat Int) (v : Int)
    (hr : Xi.r = Fn.r) (hc : Xi.c = Fn.c) :
    finiteXY (clusterXY Fn Xi Lab v) = clusterSpec Fn Xi Lab v := by
  unfold clusterXY
  simp only [flattenF_eq_map, whereEq, hr, hc]
  rw [List.zip_map', range_mul_map]
  unfold finiteXY clusterSpec
  rw [List.filterMap_flatMap]
  apply List.flatMap_congr
  intro c _
  rw [List.filterMap_map]
  apply List.filterMap_congr
  intro r hr
  have h := List.mem_range.mp hr
  simp only [Function.comp, blk_mod' h, blk_div' h]
  by_cases hl : Lab.e r c = v
  · simp only [if_pos hl]
  · simp only [if_neg hl]

theorem C20_cluster {K : Type} (Fn Xi : Mat (Option K)) (Lab : Mat Int) (hide : Bool)
    (hr : Xi.r = Fn.r) (hc : Xi.c = Fn.c) :
    finiteXY (clusterMarkers Fn Xi Lab hide).1 = clusterSpec Fn Xi Lab 1 ∧
    (hide = true → (clusterMarkers Fn Xi Lab hide).2 = none) ∧
    (hide = false → ∃ u, (clusterMarkers Fn Xi Lab hide).2 = some u ∧
        finiteXY u = clusterSpec Fn Xi Lab 0) := by
  cases hide
  · exact ⟨C20_cluster_label Fn Xi Lab 1 hr hc, by simp,
      fun _ => ⟨_, rfl, C20_cluster_label Fn Xi Lab 0 hr hc⟩⟩
  · exact ⟨C20_cluster_label Fn Xi Lab 1 hr hc, fun _ => rfl, by simp⟩

/-- with a shared NaN pattern the cluster diagram shows the same cells as the stabilisation
    diagram: the frequencies of the cluster markers are the abscissae of the stabilisation
    markers, in the same order. -/
theorem C20_cluster_same_poles {K : Type} (Fn Xi : Mat (Option K)) (Lab : Mat Int) (v : Int) (step : Nat)
    (hpat : ∀ r c, (Xi.e r c).isSome = (Fn.e r c).isSome) :
    (clusterSpec Fn Xi Lab v).map Prod.fst = (stabSpec Fn Lab step v).map Prod.fst := by
  unfold clusterSpec stabSpec
  rw [List.map_flatMap, List.map_flatMap]
  apply List.flatMap_congr
  intro c _
  rw [List.map_filterMap, List.map_filterMap]
  apply List.filterMap_congr
  intro r _
  have := hpat r c
  by_cases hl : Lab.e r c = v
  · cases h1 : Fn.e r c <;> cases h2 : Xi.e r c <;> simp_all
  · simp [hl]

/-- admission test of `CMIF_plot`, as documented: `"all"` or an integer below the number of
    singular values. -/
theorem C20_cmif_request (n : Nat) (nSv : Option Int) (m : Int) :
    cmifRequest n nSv = .ok m ↔ (nSv = none ∧ m = n) ∨ (∃ v, nSv = some v ∧ v < (n : Int) ∧ m = v) := by
  cases nSv with
  | none => simp [cmifRequest, pure, Except.pure, eq_comm]
  | some v =>
    unfold cmifRequest
    by_cases h : v < (n : Int)
    · simp only [if_pos h]
      constructor
      · intro h'
        have : v = m := by simpa [pure, Except.pure] using h'
        exact Or.inr ⟨v, rfl, h, this.symm⟩
      · rintro (⟨h1, _⟩ | ⟨w, h1, _, h3⟩)
        · cases h1
        · cases h1; subst h3; rfl
    · simp only [if_neg h]
      constructor
      · intro h'; simp [throw, throwThe, MonadExceptOf.throw] at h'
      · rintro (⟨h1, _⟩ | ⟨w, h1, h2, _⟩)
        · cases h1
        · cases h1; exact absurd h2 h

/-- **C20, singular-value plot.** For an admissible request (`m` curves) on a non-empty grid
    the function draws exactly `m` curves (none for `m ≤ 0`); curve `k` has one point per grid
    frequency and equals `S[k,k,f] / M` where `M` is a value of the first singular value that
    bounds all its values (its maximum). -/
theorem C20_cmif (n nf : Nat) (S : Nat → Nat → Rat) (nSv : Option Int) (m : Int)
    (hadm : cmifRequest n nSv = .ok m) (hnf : 0 < nf) :
    ∃ curves M fM, cmifCurves n nf S nSv = .ok curves ∧ curves.length = m.toNat ∧
      fM < nf ∧ M = S 0 fM ∧ (∀ f, f < nf → S 0 f ≤ M) ∧
      ∀ k, k < m.toNat → curves[k]? = some ((List.range nf).map fun f => S k f / M) := by
  refine ⟨(List.range m.toNat).map fun k => (List.range nf).map fun f => S k f / S 0 (argmaxFirst nf (S 0)),
    S 0 (argmaxFirst nf (S 0)), argmaxFirst nf (S 0), ?_, by simp, argmaxFirst_lt _ hnf, rfl,
    (argmaxFirst_spec nf (S 0)).2, ?_⟩
  · have hne : ¬ (m.toNat > 0 ∧ nf = 0) := by omega
    simp only [cmifCurves, hadm, bind, Except.bind, hne, if_false, pure, Except.pure]
    congr 1
    apply List.map_congr_left
    intro k _
    by_cases hk : k = 0
    · subst hk; simp
    · simp [hk]
  · intro k hk
    simp [hk]

/-- as coded and as documented, the number of singular values itself is refused
    while `"all"` (the same number of curves) is accepted. -/
theorem C20_cmif_full_rejected (n : Nat) :
    (∃ e, cmifRequest n (some (n : Int)) = .error e) ∧ cmifRequest n none = .ok (n : Int) := by
  simp [cmifRequest, throw, throwThe, MonadExceptOf.throw, pure, Except.pure]

/-! ### Non-vacuity -/
def exFn : Mat (Option Nat) := ⟨2, 3, fun r c => if r = 1 ∧ c = 0 then none else some (10 * c + r)⟩
def exXi : Mat (Option Nat) := ⟨2, 3, fun r c => if r = 1 ∧ c = 0 then none else some (100 + 10 * c + r)⟩
def exLab : Mat Int := ⟨2, 3, fun r c => if (r + c) % 2 = 0 then 1 else 0⟩
example : finiteX (stabXY exFn exLab 2 1) = [(0, 0), (11, 2), (20, 4)] := by decide
example : finiteX (stabXY exFn exLab 2 0) = [(10, 2), (21, 4)] := by decide
example : (flattenF exFn)[3]? = some (exFn.e 1 1) := by decide
example : (11, 1) ∈ finiteX (stabXY exFn exLab 1 1) := by decide
example : exXi.r = exFn.r ∧ exXi.c = exFn.c ∧ ∀ r c, (exXi.e r c).isSome = (exFn.e r c).isSome := by
  refine ⟨rfl, rfl, ?_⟩
  intro r c; simp only [exXi, exFn]; split <;> rfl
example : finiteXY (clusterXY exFn exXi exLab 1) = [(0, 100), (11, 111), (20, 120)] := by decide
example : cmifRequest 3 (some 2) = .ok 2 ∧ cmifRequest 3 none = .ok 3 := by decide
example : cmifCurves 2 3 (fun k f => if k = 0 then ((f : Rat) + 1) * (3 - f) else 1) (some 1)
    = .ok [[3 / 4, 1, 3 / 4]] := by decide +kernel

end PV.C20
