import PyomaVerif.Model.EfddAll
import PyomaVerif.Props.C07
import PyomaVerif.Props.C07Bell
import PyomaVerif.Lemmas.EfddAll
/-!
# C07 (depth) — `fdd.EFDD_mpe` as one composed model (`Efdd.efddMpe`, Model/EfddAll.lean)

Property theorems only (helpers: `Lemmas/EfddAll.lean`), all about the executable model the
driver runs (op `efdd_mpe_all`) and the correspondence stream `fdd.EFDD_mpe[composed]`
compares with the real `EFDD_mpe` (library calls recorded and fed back).

1. **Scale invariance end to end** (`C07_scale_all`): multiply the whole spectral matrix by
   `c > 0`; under the contracts of the library routines (`svd(c·A) = (U, c·S)`,
   `sqrt(c·s) = r·sqrt(s)`, inverse FFT homogeneous for positive factors) *everything*
   `EFDD_mpe` returns — `Fn`, `Xi`, `Phi` and the scale-free diagnostics, for every selected
   frequency, including which exception is raised — is the same.  The first stage is
   included: `Phi := phi_FDD` is invariant because the pick only sees ratios
   (`C07_first_stage_scale`, from `C07.C07_pick_scale`).
2. **Index recovery, fit selection, frequency read-off** (`C07_idxOf`, `C07_idxOf_window`,
   `C07_selectFit`, `C07_post_ok_iff`, `C07_fd_spacing`, `C07_fd_equispaced`).
-/
set_option linter.unusedSectionVars false
namespace PV.C07All
open PV PV.Fdd PV.Efdd

variable {K : Type} [Field K] [LinearOrder K] [IsStrictOrderedRing K]

/-! ## 1. Scale invariance of the whole chain -/

/-- **SVD / square-root contract for a positive factor**: `np.linalg.svd(c·A)` returns the
    same `U` and `c·S`, and `np.sqrt(c·s) = r·np.sqrt(s)` on the singular values (`r = √c`). -/
structure ScaleContract (E : Ext K) (n : Nat) (Sy : Nat → Nat → Nat → Cx K) (c r : K) : Prop where
  U : ∀ k, (E.svd n n (fun i j => Cx.smul c (Sy i j k))).U = (E.svd n n (fun i j => Sy i j k)).U
  S : ∀ k i, (E.svd n n (fun i j => Cx.smul c (Sy i j k))).S i = c * (E.svd n n (fun i j => Sy i j k)).S i
  sqrt : ∀ k i, E.sqrt (c * (E.svd n n (fun i j => Sy i j k)).S i)
    = r * E.sqrt ((E.svd n n (fun i j => Sy i j k)).S i)

/-- `SD_svalsvec(c·Sy)`: stored values multiplied by `r`, stored vectors unchanged. -/
theorem C07_svalsvec_scale (E : Ext K) (n nf : Nat) (Sy : Nat → Nat → Nat → Cx K) (c r : K)
    (h : ScaleContract E n Sy c r) :
    (svalsvec E n n nf (fun i j k => Cx.smul c (Sy i j k))).1
        = (fun i j k => r * (svalsvec E n n nf Sy).1 i j k) ∧
    (svalsvec E n n nf (fun i j k => Cx.smul c (Sy i j k))).2 = (svalsvec E n n nf Sy).2 := by
  simp only [svalsvec_eq, svalsvecSpec]
  constructor
  · funext i j k
    simp only [svalPlace, h.S, h.sqrt]
    split_ifs
    · rfl
    · rw [mul_zero]
  · funext i j k
    simp only [svecPlace, h.U]

/-- **The first stage does not see a positive factor.**  `FDD_mpe(Sval, Svec, freq, sel_freq,
    DF1)` on the decomposition of `c·Sy` returns the same picks, frequencies and normalised
    shapes (`Phi := phi_FDD`) as on that of `Sy` — the pick only sees ratios of stored values
    (`C07.C07_pick_scale`) and the stored vectors are unchanged. -/
theorem C07_first_stage_scale (E : Ext K) (n nf : Nat) (Sy : Nat → Nat → Nat → Cx K) (c r : K)
    (hr : r ≠ 0) (h : ScaleContract E n Sy c r) (freq : Nat → K) (sel : List K) (DF1 : K) :
    fddMpe n n nf freq (svalsvec E n n nf (fun i j k => Cx.smul c (Sy i j k))).1
        (svalsvec E n n nf (fun i j k => Cx.smul c (Sy i j k))).2 sel DF1
      = fddMpe n n nf freq (svalsvec E n n nf Sy).1 (svalsvec E n n nf Sy).2 sel DF1 := by
  obtain ⟨h1, h2⟩ := C07_svalsvec_scale E n nf Sy c r h
  rw [h1, h2]
  unfold fddMpe
  congr 1
  funext s
  unfold fddOne
  rw [C07.C07_pick_scale n n nf freq _ _ s DF1 r hr]

/-- one pass of the loop of `EFDD_mpe` (same first-stage shape on both sides, see
    `C07_first_stage_scale`): identical result, including the exception branches -/
theorem C07_one_scale (E : Ext K) (m : Method) (hm : m = .FSDD ∨ m = .EFDD) (ms : SyMethod)
    (nch cm nf : Nat) (dt : K) (Sy : Nat → Nat → Nat → Cx K) (DF2 MAClim c r : K) (hc : 0 < c)
    (hr : r * r = c) (h : ScaleContract E nch Sy c r)
    (hlin : ∀ (s : K) (b : Nat → Cx K), 0 < s →
      E.ifft nf (fun l => Cx.smul s (b l)) = fun i => s * E.ifft nf b i)
    (sppk npmax : Nat) (sel : K) (phiL : Option (List (Cx K))) :
    efddOne E m ms nch cm nf dt (fun i j k => Cx.smul c (Sy i j k)) DF2 MAClim sppk npmax sel phiL
      = efddOne E m ms nch cm nf dt Sy DF2 MAClim sppk npmax sel phiL := by
  obtain ⟨h1, h2⟩ := C07_svalsvec_scale E nch nf Sy c r h
  cases phiL with
  | none => rfl
  | some pl =>
    simp only [efddOne, memoGet_memoArr, h1, h2]
    have hb : sdofBell m nch cm nf dt (fun i j l => Cx.smul c (Sy i j l))
          (fun i j l => r * (svalsvec E nch nch nf Sy).1 i j l) (svalsvec E nch nch nf Sy).2
          (fun i => pl.getD i 0) sel DF2 MAClim
        = fun l => Cx.smul c (sdofBell m nch cm nf dt Sy (svalsvec E nch nch nf Sy).1
          (svalsvec E nch nch nf Sy).2 (fun i => pl.getD i 0) sel DF2 MAClim l) := by
      funext l
      exact (C07Bell.C07_bell_scale_support m hm nch cm nf dt Sy _ _ _ sel DF2 MAClim c r hc hr l).1
    rw [hb, hlin c _ hc]
    have hnc : normCorr (5 * nf) (fun i => c * E.ifft nf (sdofBell m nch cm nf dt Sy
          (svalsvec E nch nch nf Sy).1 (svalsvec E nch nch nf Sy).2 (fun i => pl.getD i 0)
          sel DF2 MAClim) i)
        = normCorr (5 * nf) (E.ifft nf (sdofBell m nch cm nf dt Sy
          (svalsvec E nch nch nf Sy).1 (svalsvec E nch nch nf Sy).2 (fun i => pl.getD i 0)
          sel DF2 MAClim)) := by
      funext i; exact C07.C07_normCorr_scale _ _ c hc i
    rw [hnc, argmaxTo_scale hc]
    generalize sdofBell m nch cm nf dt Sy (svalsvec E nch nch nf Sy).1 (svalsvec E nch nch nf Sy).2
      (fun i => pl.getD i 0) sel DF2 MAClim = B
    generalize E.ifft nf B = C
    have hz : ∀ z : Cx K, ((Cx.smul c z).re = 0 ∧ (Cx.smul c z).im = 0) ↔ (z.re = 0 ∧ z.im = 0) := by
      intro z
      have hcz : ∀ x : K, c * x = 0 ↔ x = 0 := fun x =>
        ⟨fun hx => (mul_eq_zero.mp hx).resolve_left (ne_of_gt hc), fun hx => by rw [hx, mul_zero]⟩
      simp only [Cx.smul_re, Cx.smul_im, hcz]
    have hcz : ∀ x : K, c * x = 0 ↔ x = 0 := fun x =>
      ⟨fun hx => (mul_eq_zero.mp hx).resolve_left (ne_of_gt hc), fun hx => by rw [hx, mul_zero]⟩
    simp only [hz]
    by_cases hC : C (argmaxTo (5 * nf) C) = 0
    · rw [if_pos ((hcz _).mpr hC), if_pos hC]
    · rw [if_neg (fun hx => hC ((hcz _).mp hx)), if_neg hC]

/-- **C07_scale_all.**  Multiply the whole spectral matrix by `c > 0`.  Under the contracts of
    the library routines (`ScaleContract`: `svd(c·A) = (U, c·S)` and `sqrt(c·s) = r·sqrt(s)`,
    `r² = c`, `r > 0`; inverse FFT homogeneous for positive factors — true of the modelled
    transform, `C07Bell.C07_ifft_homogeneous`), the composed model of `EFDD_mpe` returns the
    *same value*: the same exception, or for every selected frequency the same `fn`, `xi`,
    `Phi` column, bell support, extrema, fitted indices, decrements and `lam`.  No hypothesis
    on `log`, `curve_fit`, `π`: they receive identical arguments. -/
theorem C07_scale_all (E : Ext K) (m : Method) (hm : m = .FSDD ∨ m = .EFDD) (ms : SyMethod)
    (nch nf : Nat) (Sy : Nat → Nat → Nat → Cx K) (freq : Nat → K) (dt : K) (sel : List K)
    (DF1 DF2 : K) (cm : Nat) (MAClim : K) (sppk npmax : Nat) (c r : K) (hc : 0 < c) (hr0 : 0 < r)
    (hr : r * r = c) (h : ScaleContract E nch Sy c r)
    (hlin : ∀ (s : K) (b : Nat → Cx K), 0 < s →
      E.ifft nf (fun l => Cx.smul s (b l)) = fun i => s * E.ifft nf b i) :
    efddMpe E m ms nch nf (fun i j k => Cx.smul c (Sy i j k)) freq dt sel DF1 DF2 cm MAClim sppk npmax
      = efddMpe E m ms nch nf Sy freq dt sel DF1 DF2 cm MAClim sppk npmax := by
  unfold efddMpe
  simp only [C07_first_stage_scale E nch nf Sy c r (ne_of_gt hr0) h freq sel DF1]
  cases fddMpe nch nch nf freq (svalsvec E nch nch nf Sy).1 (svalsvec E nch nch nf Sy).2 sel DF1 with
  | error e => rfl
  | ok modes =>
    have hf : (fun sm : K × ModeOut K => efddOne E m ms nch cm nf dt (fun i j k => Cx.smul c (Sy i j k))
          DF2 MAClim sppk npmax sm.1 sm.2.phi)
        = fun sm => efddOne E m ms nch cm nf dt Sy DF2 MAClim sppk npmax sm.1 sm.2.phi :=
      funext fun sm =>
        C07_one_scale E m hm ms nch cm nf dt Sy DF2 MAClim c r hc hr h hlin sppk npmax sm.1 sm.2.phi
    simp only [hf]

/-- the three estimates of every selected frequency, as `EFDD_mpe` returns them -/
def estimates (r : Except String (List (ModeAll K))) :
    Except String (List (Option K × K × List (Cx K))) :=
  r.map (fun l => l.map (fun mo => (mo.fn, mo.xi, mo.phi)))

/-- `Fn`, `Xi`, `Phi` are unchanged (corollary of `C07_scale_all`, the clause of the property) -/
theorem C07_scale_estimates (E : Ext K) (m : Method) (hm : m = .FSDD ∨ m = .EFDD) (ms : SyMethod)
    (nch nf : Nat) (Sy : Nat → Nat → Nat → Cx K) (freq : Nat → K) (dt : K) (sel : List K)
    (DF1 DF2 : K) (cm : Nat) (MAClim : K) (sppk npmax : Nat) (c r : K) (hc : 0 < c) (hr0 : 0 < r)
    (hr : r * r = c) (h : ScaleContract E nch Sy c r)
    (hlin : ∀ (s : K) (b : Nat → Cx K), 0 < s →
      E.ifft nf (fun l => Cx.smul s (b l)) = fun i => s * E.ifft nf b i) :
    estimates (efddMpe E m ms nch nf (fun i j k => Cx.smul c (Sy i j k)) freq dt sel DF1 DF2 cm
        MAClim sppk npmax)
      = estimates (efddMpe E m ms nch nf Sy freq dt sel DF1 DF2 cm MAClim sppk npmax) := by
  rw [C07_scale_all E m hm ms nch nf Sy freq dt sel DF1 DF2 cm MAClim sppk npmax c r hc hr0 hr h hlin]


/-! ## 2. Index recovery, fit selection, frequency read-off -/

/-- **C07_idxOf.**  `np.argmin(abs(normSDOFcorr - v))` for a value `v = x[j]` that occurs in
    the half record returns the FIRST index at which that value occurs (searching the whole
    half record, not the window the extremum came from). -/
theorem C07_idxOf (n : Nat) (x : Nat → K) (j : Nat) (hj : j < n) :
    x (idxOf n x (x j)) = x j ∧ idxOf n x (x j) ≤ j ∧ ∀ i, i < idxOf n x (x j) → x i ≠ x j :=
  idxOf_first n x j hj

/-- if no earlier sample has the same value, the look-up recovers the index itself -/
theorem C07_idxOf_recovers (n : Nat) (x : Nat → K) (j : Nat) (hj : j < n)
    (hne : ∀ i, i < j → x i ≠ x j) : idxOf n x (x j) = j := by
  obtain ⟨h1, h2, _⟩ := idxOf_first n x j hj
  rcases Nat.eq_or_lt_of_le h2 with e | e
  · exact e
  · exact absurd h1 (hne _ e)

/-- **C07_idxOf_window.**  The index recovered for the maximum (minimum) of the window
    `[a, b)` carries that extreme value and lies before `b`; if no sample *before the window*
    equals it, the index is the position of the first maximum (minimum) inside the window.
    Without that premise the index may leave the window (witness below). -/
theorem C07_idxOf_window (n : Nat) (x : Nat → K) (a b : Nat) (hab : a < b) (hb : b ≤ n) :
    (x (idxOf n x (winMax x a b)) = winMax x a b ∧ idxOf n x (winMax x a b) < b ∧
      ((∀ i, i < a → x i ≠ winMax x a b) →
        a ≤ idxOf n x (winMax x a b) ∧
        (∀ t, a ≤ t → t < b → x t ≤ x (idxOf n x (winMax x a b))) ∧
        (∀ t, a ≤ t → t < idxOf n x (winMax x a b) → x t < x (idxOf n x (winMax x a b))))) ∧
    (x (idxOf n x (winMin x a b)) = winMin x a b ∧ idxOf n x (winMin x a b) < b ∧
      ((∀ i, i < a → x i ≠ winMin x a b) →
        a ≤ idxOf n x (winMin x a b) ∧
        (∀ t, a ≤ t → t < b → x (idxOf n x (winMin x a b)) ≤ x t) ∧
        (∀ t, a ≤ t → t < idxOf n x (winMin x a b) → x (idxOf n x (winMin x a b)) < x t))) := by
  constructor
  · obtain ⟨hle, t, ht1, ht2, hte⟩ := C07.winMax_spec x a b hab
    rw [← hte]
    obtain ⟨h1, h2, h3⟩ := idxOf_first n x t (lt_of_lt_of_le ht2 hb)
    refine ⟨h1, lt_of_le_of_lt h2 ht2, ?_⟩
    intro hbefore
    have ha : a ≤ idxOf n x (x t) := by
      by_contra hlt
      exact hbefore _ (not_le.mp hlt) (by rw [h1, hte])
    refine ⟨ha, ?_, ?_⟩
    · intro u hu1 hu2; rw [h1, hte]; exact hle u hu1 hu2
    · intro u hu1 hu2
      rw [h1]
      exact lt_of_le_of_ne (hte ▸ hle u hu1 (lt_trans hu2 (lt_of_le_of_lt h2 ht2))) (h3 u hu2)
  · obtain ⟨hle, t, ht1, ht2, hte⟩ := C07.winMin_spec x a b hab
    rw [← hte]
    obtain ⟨h1, h2, h3⟩ := idxOf_first n x t (lt_of_lt_of_le ht2 hb)
    refine ⟨h1, lt_of_le_of_lt h2 ht2, ?_⟩
    intro hbefore
    have ha : a ≤ idxOf n x (x t) := by
      by_contra hlt
      exact hbefore _ (not_le.mp hlt) (by rw [h1, hte])
    refine ⟨ha, ?_, ?_⟩
    · intro u hu1 hu2; rw [h1, hte]; exact hle u hu1 hu2
    · intro u hu1 hu2
      rw [h1]
      exact lt_of_le_of_ne (hte ▸ hle u hu1 (lt_trans hu2 (lt_of_le_of_lt h2 ht2))) (Ne.symm (h3 u hu2))

/-- the entries `sppk, …, sppk+npmax-1` -/
theorem range_map_getElem! {α : Type} [Inhabited α] (l : List α) (sppk npmax : Nat)
    (h : npmax = 0 ∨ sppk + npmax ≤ l.length) :
    (List.range npmax).map (fun a => l[sppk + a]!) = (l.drop sppk).take npmax := by
  apply List.ext_getElem?
  intro a
  by_cases ha : a < npmax
  · have hlt : sppk + a < l.length := by omega
    simp [ha, hlt, List.getElem?_take, List.getElem?_drop]
  · simp [ha, List.getElem?_take]

/-- **C07_selectFit.**  `[l[a] for a in range(sppk, sppk + npmax)]` is the slice
    `l[sppk : sppk+npmax]` when that range lies inside the list (or is empty), and raises
    `IndexError` otherwise. -/
theorem C07_selectFit {α : Type} (l : List α) (sppk npmax : Nat) :
    ((npmax = 0 ∨ sppk + npmax ≤ l.length) →
      selectFit l sppk npmax = .ok ((l.drop sppk).take npmax)) ∧
    ((0 < npmax ∧ l.length < sppk + npmax) →
      selectFit l sppk npmax = .error "IndexError: index out of range") := by
  constructor
  · intro h
    cases l with
    | nil =>
      have : npmax = 0 := by simp at h; omega
      subst this; rfl
    | cons a l =>
      letI : Inhabited α := ⟨a⟩
      rw [selectFit_ok (a :: l) sppk npmax h, range_map_getElem! (a :: l) sppk npmax h]
  · intro h; exact selectFit_error l sppk npmax h.1 h.2

/-- `minmax` and `minmax_idx` of the post-processing both have `2·nWin` entries -/
theorem minmax_lengths (n : Nat) (x : Nat → K) (zc : List Nat) :
    (interleave (truncPair (maxList x zc) (minList x zc)).2 (truncPair (maxList x zc) (minList x zc)).1).length
      = 2 * nWin zc ∧
    (interleave ((truncPair (maxList x zc) (minList x zc)).2.map (idxOf n x))
      ((truncPair (maxList x zc) (minList x zc)).1.map (idxOf n x))).length = 2 * nWin zc := by
  obtain ⟨h1, h2, _⟩ := C07.C07_interleave x zc
  rw [h1]
  refine ⟨h2, ?_⟩
  rw [interleave_length _ _ (by simp [minList, maxList])]
  simp [minList]

/-- **C07_post_ok_iff** ("an estimate, not an exception").  The post-processing of the
    normalised correlation returns — rather than raising `IndexError` — exactly when the fit
    asks for no more extrema than the half record holds: `sppk + npmax ≤ 2·⌈(len zc − 2)/2⌉`
    (`zc` the sign changes), or `npmax = 0`. -/
theorem C07_post_ok_iff (nf : Nat) (x : Nat → K) (dt : K) (sppk npmax : Nat) :
    (∃ p, postFft nf x dt sppk npmax = .ok p) ↔
      (npmax = 0 ∨ sppk + npmax ≤ 2 * nWin (zeroCross (5 * nf / 2) x)) := by
  obtain ⟨hl1, hl2⟩ := minmax_lengths (5 * nf / 2) x (zeroCross (5 * nf / 2) x)
  constructor
  · rintro ⟨p, hp⟩
    by_contra hcon
    have hcon' : 0 < npmax ∧ 2 * nWin (zeroCross (5 * nf / 2) x) < sppk + npmax := by omega
    have he := selectFit_error
      (interleave (truncPair (maxList x (zeroCross (5 * nf / 2) x)) (minList x (zeroCross (5 * nf / 2) x))).2
        (truncPair (maxList x (zeroCross (5 * nf / 2) x)) (minList x (zeroCross (5 * nf / 2) x))).1)
      sppk npmax hcon'.1 (by rw [hl1]; exact hcon'.2)
    unfold postFft at hp
    simp only [he] at hp
    cases hp
  · intro h
    have h1 := (C07_selectFit
      (interleave (truncPair (maxList x (zeroCross (5 * nf / 2) x)) (minList x (zeroCross (5 * nf / 2) x))).2
        (truncPair (maxList x (zeroCross (5 * nf / 2) x)) (minList x (zeroCross (5 * nf / 2) x))).1)
      sppk npmax).1 (by rw [hl1]; exact h)
    have h2 := (C07_selectFit
      (interleave ((truncPair (maxList x (zeroCross (5 * nf / 2) x)) (minList x (zeroCross (5 * nf / 2) x))).2.map
          (idxOf (5 * nf / 2) x))
        ((truncPair (maxList x (zeroCross (5 * nf / 2) x)) (minList x (zeroCross (5 * nf / 2) x))).1.map
          (idxOf (5 * nf / 2) x)))
      sppk npmax).1 (by rw [hl2]; exact h)
    unfold postFft
    simp only [h1, h2]
    exact ⟨_, rfl⟩

/-- **C07_post_fit.**  What a successful post-processing holds: the extrema are those of the
    windows between every second sign change, interleaved `min, max, min, …`; their indices
    are recovered by `idxOf`; the fitted values / indices are the slices
    `[sppk : sppk+npmax]`; `Td` are the doubled differences of the coded time axis at the
    fitted indices, `fd` the reciprocal of their mean. -/
theorem C07_post_fit (nf : Nat) (x : Nat → K) (dt : K) (sppk npmax : Nat) (p : Post K)
    (h : postFft nf x dt sppk npmax = .ok p) :
    p.zc = zeroCross (5 * nf / 2) x ∧ p.maxs = maxList x p.zc ∧ p.mins = minList x p.zc ∧
    p.minmax = interleave p.mins p.maxs ∧
    p.minmaxIdx = interleave (p.mins.map (idxOf (5 * nf / 2) x)) (p.maxs.map (idxOf (5 * nf / 2) x)) ∧
    p.fitVals = (p.minmax.drop sppk).take npmax ∧ p.fitIdx = (p.minmaxIdx.drop sppk).take npmax ∧
    p.fitIdx.length = npmax ∧
    p.Td = diffs2 (p.fitIdx.map (timeAt nf dt)) ∧ p.TdMean = meanL p.Td ∧
    p.fd = p.TdMean.map (fun t => ((1 : Nat) : K) / t) := by
  have hok := (C07_post_ok_iff nf x dt sppk npmax).mp ⟨p, h⟩
  obtain ⟨hl1, hl2⟩ := minmax_lengths (5 * nf / 2) x (zeroCross (5 * nf / 2) x)
  obtain ⟨ht, _, _⟩ := C07.C07_interleave x (zeroCross (5 * nf / 2) x)
  have h1 := (C07_selectFit
      (interleave (truncPair (maxList x (zeroCross (5 * nf / 2) x)) (minList x (zeroCross (5 * nf / 2) x))).2
        (truncPair (maxList x (zeroCross (5 * nf / 2) x)) (minList x (zeroCross (5 * nf / 2) x))).1)
      sppk npmax).1 (by rw [hl1]; exact hok)
  have h2 := (C07_selectFit
      (interleave ((truncPair (maxList x (zeroCross (5 * nf / 2) x)) (minList x (zeroCross (5 * nf / 2) x))).2.map
          (idxOf (5 * nf / 2) x))
        ((truncPair (maxList x (zeroCross (5 * nf / 2) x)) (minList x (zeroCross (5 * nf / 2) x))).1.map
          (idxOf (5 * nf / 2) x)))
      sppk npmax).1 (by rw [hl2]; exact hok)
  unfold postFft at h
  simp only [h1, h2] at h
  injection h with h
  subst h
  simp only [ht, true_and, and_true]
  rw [List.length_take, List.length_drop]
  rw [ht] at hl2
  rw [hl2]
  omega

/-- **C07_fd_spacing.**  For a fit on `npmax ≥ 2` extrema the damped frequency read off the
    peak spacing only depends on the first and the last fitted index (the doubled
    differences telescope): `fd = 1 / (2·(i_last − i_first)·Δ/(npmax − 1))`, `Δ = timeStep`
    the spacing of the coded time axis. -/
theorem C07_fd_spacing (nf : Nat) (x : Nat → K) (dt : K) (sppk npmax : Nat) (p : Post K)
    (h : postFft nf x dt sppk npmax = .ok p) (hn : 2 ≤ npmax) :
    p.fd = some (((1 : Nat) : K) /
      ((((p.fitIdx.getD (npmax - 1) 0 : Nat) : K) - ((p.fitIdx.getD 0 0 : Nat) : K)) * timeStep nf dt
        * ((2 : Nat) : K) / (((npmax - 1 : Nat)) : K))) := by
  obtain ⟨_, _, _, _, _, _, _, hlen, hTd, hTm, hfd⟩ := C07_post_fit nf x dt sppk npmax p h
  rw [hfd, hTm, hTd, meanL_diffs2 _ npmax hn (by rw [List.length_map, hlen])]
  simp only [Option.map_some]
  congr 3
  have e : ∀ i, i < npmax → (p.fitIdx.map (timeAt nf dt)).getD i 0 = timeAt nf dt (p.fitIdx.getD i 0) := by
    intro i hi
    simp [List.getD_eq_getElem?_getD, List.getElem?_map, List.getElem?_eq_getElem (hlen ▸ hi)]
  rw [e _ (by omega), e 0 (by omega)]
  simp only [timeAt]
  ring

/-- **C07_fd_equispaced.**  If the fitted extrema are equally spaced, `d` samples apart
    (half a period), the read-off is `fd = 1/(2·d·Δ)`: one period is `2·d` steps of the coded
    time axis — whatever `sppk` and `npmax ≥ 2`. -/
theorem C07_fd_equispaced (nf : Nat) (x : Nat → K) (dt : K) (sppk npmax : Nat) (p : Post K)
    (h : postFft nf x dt sppk npmax = .ok p) (hn : 2 ≤ npmax) (i0 d : Nat)
    (heq : ∀ a, a < npmax → p.fitIdx.getD a 0 = i0 + a * d) :
    p.fd = some (((1 : Nat) : K) / (((2 : Nat) : K) * (d : K) * timeStep nf dt)) := by
  rw [C07_fd_spacing nf x dt sppk npmax p h hn, heq _ (by omega), heq 0 (by omega)]
  congr 2
  have hm : (((npmax - 1 : Nat)) : K) ≠ 0 := by
    have : 0 < npmax - 1 := by omega
    exact_mod_cast this.ne'
  field_simp
  push_cast
  ring

/-! ## 3. What the composed model returns (the chain, stage by stage) -/

/-- **C07_one_spec.**  One pass of the loop of `EFDD_mpe` that returns: the appended shape is
    the first-stage shape it was handed (`Phi_E.append(phi_FDD)`); the post-processing ran on
    the normalised real inverse transform of the bell of `SDOF_bellandMS(Sy, dt, sel_fn,
    phi_FDD, method, cm, MAClim, DF=DF2)`; `delta = log(ratios)`, `lam` is the `methodSy`
    branch applied to the fitted slope of `delta` over `npmax` points, `xi = lam/√(4π²+lam²)`,
    `fn = fd/√(1−xi²)` with `fd` read off the peak spacing. -/
theorem C07_one_spec (E : Ext K) (m : Method) (ms : SyMethod) (nch cm nf : Nat) (dt : K)
    (Sy : Nat → Nat → Nat → Cx K) (DF2 MAClim : K) (sppk npmax : Nat) (sel : K)
    (phiL : Option (List (Cx K))) (mo : ModeAll K)
    (h : efddOne E m ms nch cm nf dt Sy DF2 MAClim sppk npmax sel phiL = .ok mo) :
    phiL = some mo.phi ∧ 0 < npmax ∧
    postFft nf (normCorr (5 * nf) (E.ifft nf
      (efddBell E m nch cm nf dt Sy (fun i => mo.phi.getD i 0) sel DF2 MAClim))) dt sppk npmax
        = .ok mo.post ∧
    mo.idSV = (List.range nf).filter (fun l =>
      ¬ ((efddBell E m nch cm nf dt Sy (fun i => mo.phi.getD i 0) sel DF2 MAClim l).re = 0 ∧
         (efddBell E m nch cm nf dt Sy (fun i => mo.phi.getD i 0) sel DF2 MAClim l).im = 0)) ∧
    mo.delta = mo.post.ratios.map E.log ∧
    mo.lam = lamOf ms nf (E.log (((1 : Nat) : K) / ((100 : Nat) : K)))
      (E.fit npmax (fun k => mo.delta.getD k 0)) ∧
    mo.xi = xiOf E.sqrt E.pi mo.lam ∧
    mo.fn = mo.post.fd.map (fun fd => fnOf E.sqrt fd mo.xi) := by
  cases phiL with
  | none => simp only [efddOne] at h; cases h
  | some pl =>
    simp only [efddOne, memoGet_memoArr] at h
    split_ifs at h with h1 h2 h3
    · split at h <;> cases h
    · split at h
      · cases h
      · rename_i p hp
        injection h with h
        subst h
        exact ⟨rfl, Nat.pos_of_ne_zero h3, hp, rfl, rfl, rfl, rfl, rfl⟩

/-- **C07_mpe_spec.**  When the composed model of `EFDD_mpe` returns, it returns one entry per
    selected frequency, in the caller's order; entry `n` is the pass `efddOne` for
    `sel_freq[n]` on the `n`-th result of the first stage `FDD_mpe(Sval, Svec, freq, sel_freq,
    DF=DF1)` run on the model's own `SD_svalsvec(Sy)` — so `Phi[:, n]` is the normalised first
    stored singular vector at the line the first stage picked within `DF1` (C06's theorems
    `C06_pick`, `C06_mode`, `C06_shape` apply to it), never a product of the second stage. -/
theorem C07_mpe_spec (E : Ext K) (m : Method) (ms : SyMethod) (nch nf : Nat)
    (Sy : Nat → Nat → Nat → Cx K) (freq : Nat → K) (dt : K) (sel : List K) (DF1 DF2 : K) (cm : Nat)
    (MAClim : K) (sppk npmax : Nat) (res : List (ModeAll K))
    (h : efddMpe E m ms nch nf Sy freq dt sel DF1 DF2 cm MAClim sppk npmax = .ok res) :
    ∃ modes, fddMpe nch nch nf freq (svalsvec E nch nch nf Sy).1 (svalsvec E nch nch nf Sy).2 sel DF1
        = .ok modes ∧
      modes.length = sel.length ∧ res.length = sel.length ∧
      ∀ n (h1 : n < sel.length) (h2 : n < modes.length) (h3 : n < res.length),
        fddOne nch nch nf freq (svalsvec E nch nch nf Sy).1 (svalsvec E nch nch nf Sy).2 DF1 sel[n]
          = .ok modes[n] ∧
        efddOne E m ms nch cm nf dt Sy DF2 MAClim sppk npmax sel[n] modes[n].phi = .ok res[n] ∧
        modes[n].phi = some res[n].phi := by
  unfold efddMpe at h
  simp only at h
  split at h
  · cases h
  · rename_i modes hm
    obtain ⟨hl1, hf1⟩ := mapM_ok_elim _ sel modes hm
    obtain ⟨hl2, hf2⟩ := mapM_ok_elim _ (List.zip sel modes) res h
    have hz : (List.zip sel modes).length = sel.length := by rw [List.length_zip, hl1, Nat.min_self]
    refine ⟨modes, hm, hl1, by rw [hl2, hz], ?_⟩
    intro n h1 h2 h3
    have hone := hf2 n (by rw [hz]; exact h1) h3
    rw [List.getElem_zip] at hone
    exact ⟨hf1 n h1 h2, hone, (C07_one_spec E m ms nch cm nf dt Sy DF2 MAClim sppk npmax _ _ _ hone).1⟩

/-! ### Non-vacuity -/

/-- library routines over `ℝ` satisfying every contract of `C07_scale_all` *jointly*, for every
    spectral matrix and every `c > 0`: the SVD of a diagonal matrix with `U = I` (read off the
    diagonal), the real square root, the modelled inverse transform on a constant twiddle
    table, the closed-form slope. -/
noncomputable def exE : Ext ℝ :=
  ⟨fun _ _ A => ⟨fun i j => if i = j then 1 else 0, fun i => (A i i).re⟩, Real.sqrt, Real.log,
    Real.pi, fun nf b t => ifftRe nf (fun _ => 1) 1 b t, fun n d => slope n d⟩

example (n nf : Nat) (Sy : Nat → Nat → Nat → Cx ℝ) (c : ℝ) (hc : 0 < c) :
    ScaleContract exE n Sy c (Real.sqrt c) ∧ 0 < Real.sqrt c ∧ Real.sqrt c * Real.sqrt c = c ∧
    (∀ (s : ℝ) (b : Nat → Cx ℝ), 0 < s →
      exE.ifft nf (fun l => Cx.smul s (b l)) = fun i => s * exE.ifft nf b i) :=
  ⟨⟨fun _ => rfl, fun _ _ => rfl, fun _ _ => Real.sqrt_mul hc.le _⟩, Real.sqrt_pos.mpr hc,
    Real.mul_self_sqrt hc.le, fun s b _ => C07Bell.C07_ifft_homogeneous nf (fun _ => 1) 1 s b⟩


/-- a damped wave on the 20 lags of `nf = 8` (`⌊5·8/2⌋ = 20`): sign changes at
    `1, 3, …, 17`, four windows, extrema at `2, 4, …, 16` — all samples distinct -/
def exW : Nat → Rat := fun i =>
  [(1:Rat), 1/11, -4/5, -1/11, 3/5, 1/12, -1/2, -1/12, 2/5, 1/13, -3/10, -1/13, 1/5, 1/14, -3/20, -1/14,
   1/10, 1/15, -1/20, -1/15].getD i 0

/-- `C07_idxOf_recovers` / `C07_idxOf_window` on `exW`: window `[1, 5)`, maximum `3/5` at 4,
    minimum `-4/5` at 2, neither value occurs earlier -/
example : idxOf 20 exW (winMax exW 1 5) = 4 ∧ idxOf 20 exW (winMin exW 1 5) = 2 ∧
    (∀ i, i < 1 → exW i ≠ winMax exW 1 5) ∧ (∀ i, i < 1 → exW i ≠ winMin exW 1 5) := by
  decide +kernel

/-- **the index look-up can leave the window**: the maximum `1/2` of the window `[1, 5)` (at
    index 4) already occurs at index 0, which is what `np.argmin(abs(x - max))` returns -/
def exLeave : Nat → Rat := fun i => [(1:Rat)/2, 1/4, -1, -1/2, 1/2, 1/4, -1/4, -1/8].getD i 0
theorem C07_idxOf_leaves_window_witness :
    winMax exLeave 1 5 = exLeave 4 ∧ idxOf 8 exLeave (winMax exLeave 1 5) = 0 := by decide +kernel

/-- `C07_post_ok_iff`, `C07_post_fit`, `C07_fd_spacing`, `C07_fd_equispaced` on `exW`
    (`sppk = 1`, `npmax = 4`): the post-processing returns, fitted indices `4, 6, 8, 10`
    (equally spaced, `d = 2`) -/
example : ∃ p, postFft 8 exW (1/100) 1 4 = .ok p ∧ 2 ≤ 4 ∧ ∀ a, a < 4 → p.fitIdx.getD a 0 = 4 + a * 2 := by
  cases h : postFft 8 exW (1/100) 1 4 with
  | error e =>
    exfalso
    have : (match postFft 8 exW (1/100) 1 4 with | .ok _ => true | .error _ => false) = true := by
      decide +kernel
    rw [h] at this; cases this
  | ok p =>
    refine ⟨p, rfl, by omega, ?_⟩
    have : (match postFft 8 exW (1/100) 1 4 with | .ok q => q.fitIdx | .error _ => []) = [4, 6, 8, 10] := by
      decide +kernel
    rw [h] at this
    simp only at this
    rw [this]
    decide
/-- and it raises when the fit asks for more extrema than the half record holds (8 here) -/
example : (match postFft 8 exW (1/100) 1 8 with | .ok _ => true | .error _ => false) = false := by
  decide +kernel

/-- `C07_selectFit` -/
example : selectFit [10, 11, 12, 13, 14] 1 3 = .ok [11, 12, 13] ∧
    selectFit [10, 11, 12] 1 3 = .error "IndexError: index out of range" := by decide +kernel

/-- a run of the composed model that returns (`C07_one_spec`, `C07_mpe_spec`): two channels,
    eight lines, a diagonal spectral matrix peaking at line 2; the library routines are the SVD
    of a diagonal matrix, the identity for `sqrt`/`log`, the closed-form slope, and an inverse
    transform returning the bell's peak value times `exW` -/
def exSy : Nat → Nat → Nat → Cx Rat := fun i j l =>
  if i = 0 ∧ j = 0 then ⟨[(1:Rat), 2, 9, 2, 1, 1, 1, 1].getD l 1, 0⟩ else if i = 1 ∧ j = 1 then ⟨1, 0⟩ else 0
def exE2 : Ext Rat :=
  ⟨fun _ _ A => ⟨fun i j => if i = j then 1 else 0, fun i => (A i i).re⟩, fun x => x, fun x => x, 3,
    fun _ b t => (b 2).re * exW t, fun n d => slope n d⟩
def exRun : Except String (List (ModeAll Rat)) :=
  efddMpe exE2 .EFDD .per 2 8 exSy (fun i => (i : Rat)) (1/16) [2] 1 2 1 (17/20) 1 4

/-- first-stage shape `(1, 0)`, bell on lines `0..3`, fitted extrema `4, 6, 8, 10` -/
theorem exRun_ok : (match exRun with
    | .ok l => l.map (fun (mo : ModeAll Rat) => (mo.phi.map (fun (z : Cx Rat) => (z.re, z.im)), mo.idSV, mo.post.fitIdx))
    | .error _ => []) = [([(1, 0), (0, 0)], [0, 1, 2, 3], [4, 6, 8, 10])] := by decide +kernel

example : ∃ res, exRun = .ok res := by
  cases h : exRun with
  | ok r => exact ⟨r, rfl⟩
  | error e =>
    exfalso
    have := exRun_ok
    rw [h] at this
    cases this

end PV.C07All
