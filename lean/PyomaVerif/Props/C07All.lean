import PyomaVerif.Model.EfddAll
import PyomaVerif.Props.C07
import PyomaVerif.Props.C07Bell
import PyomaVerif.Lemmas.EfddAll
/-!
# C07 (depth) — `fdd.EFDD_mpe` as one composed model (`Efdd.efddMpe`, Model/EfddAll.lean)

Property theorems only (helpers: `Lemmas/EfddAll.lean`), all about the executable model the
driver runs (op `efdd_mpe_all`) and the correspondence stream `fdd.EFDD_mpe[composed]`
compares with the real `EFDD_mpe` (library calls recorded and fed back).

1. **Scale invariance end to end** (`C07_scale_all`): multiply the whole spectral matrix by
   `c > 0`; under the contracts of the library routines (`svd(c·A) = (U, c·S)`,
   `sqrt(c·s) = r·sqrt(s)`, inverse FFT homogeneous for positive factors) *everything*
   `EFDD_mpe` returns — `Fn`, `Xi`, `Phi` and the scale-free diagnostics, for every selected
   frequency, including which exception is raised — is the same.  The first stage is
   included: `Phi := phi_FDD` is invariant because the pick only sees ratios
   (`C07_first_stage_scale`, from `C07.C07_pick_scale`).
2. **Index recovery, fit selection, frequency read-off** (`C07_idxOf`, `C07_idxOf_window`,
   `C07_selectFit`, `C07_post_ok_iff`, `C07_fd_spacing`, `C07_fd_equispaced`).
-/
set_option linter.unusedSectionVars false
namespace PV.C07All
open PV PV.Fdd PV.Efdd

variable {K : Type} [Field K] [LinearOrder K] [IsStrictOrderedRing K]

/-! ## 1. Scale invariance of the whole chain -/

/-- **SVD / square-root contract for a positive factor**: `np.linalg.svd(c·A)` returns the
    same `U` and `c·S`, and `np.sqrt(c·s) = r·np.sqrt(s)` on the singular values (`r = √c`). -/
structure ScaleContract (E : Ext K) (n : Nat) (Sy : Nat → Nat → Nat → Cx K) (c r : K) : Prop where
  U : ∀ k, (E.svd n n (fun i j => Cx.smul c (Sy i j k))).U = (E.svd n n (fun i j => Sy i j k)).U
  S : ∀ k i, (E.svd n n (fun i j => Cx.smul c (Sy i j k))).S i = c * (E.svd n n (fun i j => Sy i j k)).S i
  sqrt : ∀ k i, E.sqrt (c * (E.svd n n (fun i j => Sy i j k)).S i)
    = r * E.sqrt ((E.svd n n (fun i j => Sy i j k)).S i)

/-- `SD_svalsvec(c·Sy)`: stored values multiplied by `r`, stored vectors unchanged. -/
theorem C07_svalsvec_scale (E : Ext K) (n nf : Nat) (Sy : Nat → Nat → Nat → Cx K) (c r : K)
    (h : ScaleContract E n Sy c r) :
    (svalsvec E n n nf (fun i j k => Cx.smul c (Sy i j k))).1
        = (fun i j k => r * (svalsvec E n n nf Sy).1 i j k) ∧
    (svalsvec E n n nf (fun i j k => Cx.smul c (Sy i j k))).2 = (svalsvec E n n nf Sy).2 := by
  simp only [svalsvec_eq, svalsvecSpec]
  constructor
  · funext i j k
    simp only [svalPlace, h.S, h.sqrt]
    split_ifs
    · rfl
    · rw [mul_zero]
  · funext i j k
    simp only [svecPlace, h.U]

/-- **The first stage does not see a positive factor.**  `FDD_mpe(Sval, Svec, freq, sel_freq,
    DF1)` on the decomposition of `c·Sy` returns the same picks, frequencies and normalised
    shapes (`Phi := phi_FDD`) as on that of `Sy` — the pick only sees ratios of stored values
    (`C07.C07_pick_scale`) and the stored vectors are unchanged. -/
theorem C07_first_stage_scale (E : Ext K) (n nf : Nat) (Sy : Nat → Nat → Nat → Cx K) (c r : K)
    (hr : r ≠ 0) (h : ScaleContract E n Sy c r) (freq : Nat → K) (sel : List K) (DF1 : K) :
    fddMpe n n nf freq (svalsvec E n n nf (fun i j k => Cx.smul c (Sy i j k))).1
        (svalsvec E n n nf (fun i j k => Cx.smul c (Sy i j k))).2 sel DF1
      = fddMpe n n nf freq (svalsvec E n n nf Sy).1 (svalsvec E n n nf Sy).2 sel DF1 := by
  obtain ⟨h1, h2⟩ := C07_svalsvec_scale E n nf Sy c r h
  rw [h1, h2]
  unfold fddMpe
  congr 1
  funext s
  unfold fddOne
  rw [C07.C07_pick_scale n n nf freq _ _ s DF1 r hr]

/-- one pass of the loop of `EFDD_mpe` (same first-stage shape on both sides, see
    `C07_first_stage_scale`): identical result, including the exception branches -/
theorem C07_one_scale (E : Ext K) (m : Method) (hm : m = .FSDD ∨ m = .EFDD) (ms : SyMethod)
    (nch cm nf : Nat) (dt : K) (Sy : Nat → Nat → Nat → Cx K) (DF2 MAClim c r : K) (hc : 0 < c)
    (hr : r * r = c) (h : ScaleContract E nch Sy c r)
    (hlin : ∀ (s : K) (b : Nat → Cx K), 0 < s →
      E.ifft nf (fun l => Cx.smul s (b l)) = fun i => s * E.ifft nf b i)
    (sppk npmax : Nat) (sel : K) (phiL : Option (List (Cx K))) :
    efddOne E m ms nch cm nf dt (fun i j k => Cx.smul c (Sy i j k)) DF2 MAClim sppk npmax sel phiL
      = efddOne E m ms nch cm nf dt Sy DF2 MAClim sppk npmax sel phiL := by
  obtain ⟨h1, h2⟩ := C07_svalsvec_scale E nch nf Sy c r h
  cases phiL with
  | none => rfl
  | some pl =>
    simp only [efddOne, memoGet_memoArr, h1, h2]
    have hb : sdofBell m nch cm nf dt (fun i j l => Cx.smul c (Sy i j l))
          (fun i j l => r * (svalsvec E nch nch nf Sy).1 i j l) (svalsvec E nch nch nf Sy).2
          (fun i => pl.getD i 0) sel DF2 MAClim
        = fun l => Cx.smul c (sdofBell m nch cm nf dt Sy (svalsvec E nch nch nf Sy).1
          (svalsvec E nch nch nf Sy).2 (fun i => pl.getD i 0) sel DF2 MAClim l) := by
      funext l
      exact (C07Bell.C07_bell_scale_support m hm nch cm nf dt Sy _ _ _ sel DF2 MAClim c r hc hr l).1
    rw [hb, hlin c _ hc]
    have hnc : normCorr (5 * nf) (fun i => c * E.ifft nf (sdofBell m nch cm nf dt Sy
          (svalsvec E nch nch nf Sy).1 (svalsvec E nch nch nf Sy).2 (fun i => pl.getD i 0)
          sel DF2 MAClim) i)
        = normCorr (5 * nf) (E.ifft nf (sdofBell m nch cm nf dt Sy
          (svalsvec E nch nch nf Sy).1 (svalsvec E nch nch nf Sy).2 (fun i => pl.getD i 0)
          sel DF2 MAClim)) := by
      funext i; exact C07.C07_normCorr_scale _ _ c hc i
    rw [hnc, argmaxTo_scale hc]
    generalize sdofBell m nch cm nf dt Sy (svalsvec E nch nch nf Sy).1 (svalsvec E nch nch nf Sy).2
      (fun i => pl.getD i 0) sel DF2 MAClim = B
    generalize E.ifft nf B = C
    have hz : ∀ z : Cx K, ((Cx.smul c z).re = 0 ∧ (Cx.smul c z).im = 0) ↔ (z.re = 0 ∧ z.im = 0) := by
      intro z
      have hcz : ∀ x : K, c * x = 0 ↔ x = 0 := fun x =>
        ⟨fun hx => (mul_eq_zero.mp hx).resolve_left (ne_of_gt hc), fun hx => by rw [hx, mul_zero]⟩
      simp only [Cx.smul_re, Cx.smul_im, hcz]
    have hcz : ∀ x : K, c * x = 0 ↔ x = 0 := fun x =>
      ⟨fun hx => (mul_eq_zero.mp hx).resolve_left (ne_of_gt hc), fun hx => by rw [hx, mul_zero]⟩
    simp only [hz]
    by_cases hC : C (argmaxTo (5 * nf) C) = 0
    · rw [if_pos ((hcz _).mpr hC), if_pos hC]
    · rw [if_neg (fun hx => hC ((hcz _).mp hx)), if_neg hC]

/-- **C07_scale_all.**  Multiply the whole spectral matrix by `c > 0`.  Under the contracts of
    the library routines (`ScaleContract`: `svd(c·A) = (U, c·S)` and `sqrt(c·s) = r·sqrt(s)`,
    `r² = c`, `r > 0`; inverse FFT homogeneous for positive factors — true of the modelled
    transform, `C07Bell.C07_ifft_homogeneous`), the composed model of `EFDD_mpe` returns the
    *same value*: the same exception, or for every selected frequency the same `fn`, `xi`,
    `Phi` column, bell support, extrema, fitted indices, decrements and `lam`.  No hypothesis
    on `log`, `curve_fit`, `π`: they receive identical arguments. -/
theorem C07_scale_all (E : Ext K) (m : Method) (hm : m = .FSDD ∨ m = .EFDD) (ms : SyMethod)
    (nch nf : Nat) (Sy : Nat → Nat → Nat → Cx K) (freq : Nat → K) (dt : K) (sel : List K)
    (DF1 DF2 : K) (cm : Nat) (MAClim : K) (sppk npmax : Nat) (c r : K) (hc : 0 < c) (hr0 : 0 < r)
    (hr : r * r = c) (h : ScaleContract E nch Sy c r)
    (hlin : ∀ (s : K) (b : Nat → Cx K), 0 < s →
      E.ifft nf (fun l => Cx.smul s (b l)) = fun i => s * E.ifft nf b i) :
    efddMpe E m ms nch nf (fun i j k => Cx.smul c (Sy i j k)) freq dt sel DF1 DF2 cm MAClim sppk npmax
      = efddMpe E m ms nch nf Sy freq dt sel DF1 DF2 cm MAClim sppk npmax := by
  unfold efddMpe
  simp only [C07_first_stage_scale E nch nf Sy c r (ne_of_gt hr0) h freq sel DF1]
  cases fddMpe nch nch nf freq (svalsvec E nch nch nf Sy).1 (svalsvec E nch nch nf Sy).2 sel DF1 with
  | error e => rfl
  | ok modes =>
    have hf : (fun sm : K × ModeOut K => efddOne E m ms nch cm nf dt (fun i j k => Cx.smul c (Sy i j k))
          DF2 MAClim sppk npmax sm.1 sm.2.phi)
        = fun sm => efddOne E m ms nch cm nf dt Sy DF2 MAClim sppk npmax sm.1 sm.2.phi :=
      funext fun sm =>
        C07_one_scale E m hm ms nch cm nf dt Sy DF2 MAClim c r hc hr h hlin sppk npmax sm.1 sm.2.phi
    simp only [hf]

/-- the three estimates of every selected frequency, as `EFDD_mpe` returns them -/
def estimates (r : Except String (List (ModeAll K))) :
    Except String (List (Option K × K × List (Cx K))) :=
  r.map (fun l => l.map (fun mo => (mo.fn, mo.xi, mo.phi)))

/-- `Fn`, `Xi`, `Phi` are unchanged (corollary of `C07_scale_all`, the clause of the property) -/
theorem C07_scale_estimates (E : Ext K) (m : Method) (hm : m = .FSDD ∨ m = .EFDD) (ms : SyMethod)
    (nch nf : Nat) (Sy : Nat → Nat → Nat → Cx K) (freq : Nat → K) (dt : K) (sel : List K)
    (DF1 DF2 : K) (cm : Nat) (MAClim : K) (sppk npmax : Nat) (c r : K) (hc : 0 < c) (hr0 : 0 < r)
    (hr : r * r = c) (h : ScaleContract E nch Sy c r)
    (hlin : ∀ (s : K) (b : Nat → Cx K), 0 < s →
      E.ifft nf (fun l => Cx.smul s (b l)) = fun i => s * E.ifft nf b i) :
    estimates (efddMpe E m ms nch nf (fun i j k => Cx.smul c (Sy i j k)) freq dt sel DF1 DF2 cm
        MAClim sppk npmax)
      = estimates (efddMpe E m ms nch nf Sy freq dt sel DF1 DF2 cm MAClim sppk npmax) := by
  rw [C07_scale_all E m hm ms nch nf Sy freq dt sel DF1 DF2 cm MAClim sppk npmax c r hc hr0 hr h hlin]

/-! ### Non-vacuity -/

/-- library routines over `ℝ` satisfying every contract of `C07_scale_all` *jointly*, for every
    spectral matrix and every `c > 0`: the SVD of a diagonal matrix with `U = I` (read off the
    diagonal), the real square root, the modelled inverse transform on a constant twiddle
    table, the closed-form slope. -/
noncomputable def exE : Ext ℝ :=
  ⟨fun _ _ A => ⟨fun i j => if i = j then 1 else 0, fun i => (A i i).re⟩, Real.sqrt, Real.log,
    Real.pi, fun nf b t => ifftRe nf (fun _ => 1) 1 b t, fun n d => slope n d⟩

example (n nf : Nat) (Sy : Nat → Nat → Nat → Cx ℝ) (c : ℝ) (hc : 0 < c) :
    ScaleContract exE n Sy c (Real.sqrt c) ∧ 0 < Real.sqrt c ∧ Real.sqrt c * Real.sqrt c = c ∧
    (∀ (s : ℝ) (b : Nat → Cx ℝ), 0 < s →
      exE.ifft nf (fun l => Cx.smul s (b l)) = fun i => s * exE.ifft nf b i) :=
  ⟨⟨fun _ => rfl, fun _ _ => rfl, fun _ _ => Real.sqrt_mul hc.le _⟩, Real.sqrt_pos.mpr hc,
    Real.mul_self_sqrt hc.le, fun s b _ => C07Bell.C07_ifft_homogeneous nf (fun _ => 1) 1 s b⟩

end PV.C07All
