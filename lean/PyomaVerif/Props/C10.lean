import PyomaVerif.Model.Stab
import PyomaVerif.Lemmas.NanTable
import PyomaVerif.Lemmas.Stab
import Mathlib.Tactic.Linarith
/-!
# C10 — stability labels follow the soft criteria between consecutive orders (`gen.SC_apply`)

Property theorems only; all for every table size, NaN pattern, `ordmin`, `ordmax`, `step`
and tolerance triple.  `StableAgainstPrev` (in `Lemmas/Stab.lean`) spells out the three
relative tests against the **first nearest** retained pole of the previous column;
`IsFirstNearest` (in `Lemmas/NanTable.lean`) is the `np.nanargmin(np.abs(col − f))` rule.
Columns are order indices: column `o` is order `o·step` for the SSI tables and the
polynomial order `o + 1` for the pLSCF tables (whose call is `SC_apply(.., ordmin, ordmax−1, 1, ..)`).
-/
namespace PV.C10
open PV Finset

/-- column `o` is visited by `for oo in range(ordmin, ordmax + 1, step): o = int(oo / step)`. -/
def Visited (ordmin ordmax step o : Nat) : Prop :=
  ∃ k, ordmin + k * step ≤ ordmax ∧ (ordmin + k * step) / step = o

variable (Fn Xi : Mat NR) (Phi : Ten3 (Option CQ)) (ordmin ordmax step : Nat) (eF eX eP : Rat)

open Classical in
/-- what a successful call returns, cell by cell -/
theorem label_eq {Lab : Mat Nat} (h : scApply Fn Xi Phi ordmin ordmax step eF eX eP = .ok Lab) (i o : Nat) :
    Lab.e i o = if (o ≠ 0 ∧ i < Fn.r ∧ Visited ordmin ordmax step o)
      then scCell Fn Xi Phi eF eX eP o i else 0 := by
  unfold scApply at h
  by_cases hs : step = 0
  · simp [hs, throw, throwThe, MonadExceptOf.throw] at h
  · simp only [hs, if_false] at h
    obtain ⟨_, _, _, he⟩ := scLoop_ok Fn Xi Phi step eF eX eP _ _ _ h
    rw [he i o]
    have hv : (∃ oo ∈ scOrders ordmin ordmax step, oo / step = o) ↔ Visited ordmin ordmax step o := by
      constructor
      · rintro ⟨oo, hoo, hdiv⟩
        obtain ⟨k, rfl, hle⟩ := (mem_scOrders ordmin ordmax step (Nat.pos_of_ne_zero hs) oo).mp hoo
        exact ⟨k, hle, hdiv⟩
      · rintro ⟨k, hle, hdiv⟩
        exact ⟨ordmin + k * step, (mem_scOrders ordmin ordmax step (Nat.pos_of_ne_zero hs) _).mpr ⟨k, rfl, hle⟩, hdiv⟩
    simp only [hv]

/-- **C10, main statement.** `Lab[i, o] = 1` iff column `o` is visited, is not the first one, and the pole
    `(i, o)` is a number whose first nearest retained pole `j` of column `o − 1` satisfies
    `|f − f'|/f < err_fn`, `|ξ − ξ'|/ξ < err_xi`, `1 − MAC(φ_i, φ'_j) < err_phi` (as coded: `f ≠ 0`, `ξ ≠ 0`;
    a zero divisor gives `inf`/NaN, which fails the test). -/
theorem C10_label_iff {Lab : Mat Nat} (h : scApply Fn Xi Phi ordmin ordmax step eF eX eP = .ok Lab)
    (i o : Nat) (hi : i < Fn.r) :
    Lab.e i o = 1 ↔ 1 ≤ o ∧ Visited ordmin ordmax step o ∧ StableAgainstPrev Fn Xi Phi eF eX eP o i := by
  rw [label_eq Fn Xi Phi ordmin ordmax step eF eX eP h i o, ← scCell_eq_one]
  by_cases hc : o ≠ 0 ∧ i < Fn.r ∧ Visited ordmin ordmax step o
  · rw [if_pos hc]
    constructor
    · intro h1; exact ⟨by omega, hc.2.2, h1⟩
    · intro h1; exact h1.2.2
  · rw [if_neg hc]
    constructor
    · intro h0; cases h0
    · rintro ⟨h1, h2, _⟩; exact absurd ⟨by omega, hi, h2⟩ hc

/-- the same with positive frequencies and dampings (what the hard criteria leave): the relative tests
    are `|f − f'| < err_fn·f` and `|ξ − ξ'| < err_xi·ξ`. -/
theorem C10_label_iff_pos {Lab : Mat Nat} (h : scApply Fn Xi Phi ordmin ordmax step eF eX eP = .ok Lab)
    (hF : ∀ i o f, Fn.e i o = some f → 0 < f) (hX : ∀ i o ξ, Xi.e i o = some ξ → 0 < ξ)
    (i o : Nat) (hi : i < Fn.r) :
    Lab.e i o = 1 ↔ 1 ≤ o ∧ Visited ordmin ordmax step o ∧
      ∃ f j f' ξ ξ' m, Fn.e i o = some f ∧ IsFirstNearest (fun j => Fn.e j (o - 1)) Fn.r f j f' ∧
        Xi.e i o = some ξ ∧ Xi.e j (o - 1) = some ξ' ∧
        scMac Phi.d (Phi.e i o) (Phi.e j (o - 1)) = some m ∧
        |f - f'| < eF * f ∧ |ξ - ξ'| < eX * ξ ∧ 1 - m < eP := by
  rw [C10_label_iff Fn Xi Phi ordmin ordmax step eF eX eP h i o hi]
  unfold StableAgainstPrev
  constructor
  · rintro ⟨h1, h2, f, j, f', hf, hn, _, hc1, ξ, ξ', hξ, hξ', _, hc2, m, hm, hc3⟩
    have fpos := hF i o f hf
    have xpos := hX i o ξ hξ
    exact ⟨h1, h2, f, j, f', ξ, ξ', m, hf, hn, hξ, hξ', hm, (div_lt_iff₀ fpos).mp hc1, (div_lt_iff₀ xpos).mp hc2, hc3⟩
  · rintro ⟨h1, h2, f, j, f', ξ, ξ', m, hf, hn, hξ, hξ', hm, hc1, hc2, hc3⟩
    have fpos := hF i o f hf
    have xpos := hX i o ξ hξ
    exact ⟨h1, h2, f, j, f', hf, hn, ne_of_gt fpos, (div_lt_iff₀ fpos).mpr hc1, ξ, ξ', hξ, hξ',
      ne_of_gt xpos, (div_lt_iff₀ xpos).mpr hc2, m, hm, hc3⟩

/-- labels are `0` or `1` (everywhere). -/
theorem C10_label_01 {Lab : Mat Nat} (h : scApply Fn Xi Phi ordmin ordmax step eF eX eP = .ok Lab) (i o : Nat) :
    Lab.e i o = 0 ∨ Lab.e i o = 1 := by
  rw [label_eq Fn Xi Phi ordmin ordmax step eF eX eP h i o]
  split
  · exact scCell_01 Fn Xi Phi eF eX eP o i
  · left; rfl

/-- with `ordmin` on the step grid, column `o` (order `o·step`) is visited iff `ordmin ≤ o·step ≤ ordmax`. -/
theorem C10_visited_aligned (hs : 0 < step) (hal : step ∣ ordmin) (o : Nat) :
    Visited ordmin ordmax step o ↔ ordmin ≤ o * step ∧ o * step ≤ ordmax := by
  obtain ⟨a, rfl⟩ := hal
  unfold Visited
  constructor
  · rintro ⟨k, hle, hdiv⟩
    have : step * a + k * step = (a + k) * step := by ring
    rw [this, Nat.mul_div_cancel _ hs] at hdiv
    subst hdiv
    rw [this] at hle
    refine ⟨?_, hle⟩
    rw [Nat.add_mul, Nat.mul_comm step a]; exact Nat.le_add_right _ _
  · rintro ⟨h1, h2⟩
    have ha : a ≤ o := by
      rw [Nat.mul_comm] at h1
      exact Nat.le_of_mul_le_mul_right h1 hs
    refine ⟨o - a, ?_, ?_⟩
    · have : step * a + (o - a) * step = o * step := by
        rw [Nat.mul_comm step a, ← Nat.add_mul]; congr 1; omega
      rw [this]; exact h2
    · have : step * a + (o - a) * step = o * step := by
        rw [Nat.mul_comm step a, ← Nat.add_mul]; congr 1; omega
      rw [this, Nat.mul_div_cancel _ hs]

/-- `step = 1` (the only value the SSI classes run with, and the pLSCF call): visited iff `ordmin ≤ o ≤ ordmax`. -/
theorem C10_visited_step_one (o : Nat) : Visited ordmin ordmax 1 o ↔ ordmin ≤ o ∧ o ≤ ordmax := by
  have := C10_visited_aligned ordmin ordmax 1 Nat.one_pos (Nat.one_dvd _) o
  simpa using this

/-- rejected (NaN) poles are never labelled stable — NaN frequency, NaN damping, or a NaN shape component. -/
theorem C10_nan_never_stable {Lab : Mat Nat} (h : scApply Fn Xi Phi ordmin ordmax step eF eX eP = .ok Lab)
    (i o : Nat) (hi : i < Fn.r)
    (hnan : Fn.e i o = none ∨ Xi.e i o = none ∨ ∃ k, k < Phi.d ∧ Phi.e i o k = none) : Lab.e i o = 0 := by
  rcases C10_label_01 Fn Xi Phi ordmin ordmax step eF eX eP h i o with h0 | h1
  · exact h0
  · exfalso
    obtain ⟨_, _, f, j, f', hf, _, _, _, ξ, ξ', hξ, _, _, _, m, hm, _⟩ :=
      (C10_label_iff Fn Xi Phi ordmin ordmax step eF eX eP h i o hi).mp h1
    rcases hnan with hn | hn | ⟨k, hk, hn⟩
    · rw [hn] at hf; cases hf
    · rw [hn] at hξ; cases hξ
    · rw [scMac_nan_left _ _ Phi.d k hk hn] at hm; cases hm

/-- poles whose previous order is empty (all NaN) are never labelled stable. -/
theorem C10_prev_empty_never_stable {Lab : Mat Nat} (h : scApply Fn Xi Phi ordmin ordmax step eF eX eP = .ok Lab)
    (i o : Nat) (hi : i < Fn.r) (hempty : ∀ j, j < Fn.r → Fn.e j (o - 1) = none) : Lab.e i o = 0 := by
  rcases C10_label_01 Fn Xi Phi ordmin ordmax step eF eX eP h i o with h0 | h1
  · exact h0
  · exfalso
    obtain ⟨_, _, f, j, f', _, hn, _⟩ := (C10_label_iff Fn Xi Phi ordmin ordmax step eF eX eP h i o hi).mp h1
    have := hempty j hn.1
    have h2 : Fn.e j (o - 1) = some f' := hn.2.1
    rw [h2] at this; cases this

/-- the first order is never labelled stable. -/
theorem C10_first_order_never_stable {Lab : Mat Nat} (h : scApply Fn Xi Phi ordmin ordmax step eF eX eP = .ok Lab)
    (i : Nat) : Lab.e i 0 = 0 := by
  rw [label_eq Fn Xi Phi ordmin ordmax step eF eX eP h i 0]; simp

/-- orders outside the visited range are never labelled stable. -/
theorem C10_unvisited_never_stable {Lab : Mat Nat} (h : scApply Fn Xi Phi ordmin ordmax step eF eX eP = .ok Lab)
    (i o : Nat) (hv : ¬ Visited ordmin ordmax step o) : Lab.e i o = 0 := by
  rw [label_eq Fn Xi Phi ordmin ordmax step eF eX eP h i o]; simp [hv]

/-- the label table has the shape of the frequency table. -/
theorem C10_shape {Lab : Mat Nat} (h : scApply Fn Xi Phi ordmin ordmax step eF eX eP = .ok Lab) :
    Lab.r = Fn.r ∧ Lab.c = Fn.c := by
  unfold scApply at h
  by_cases hs : step = 0
  · simp [hs, throw, throwThe, MonadExceptOf.throw] at h
  · simp only [hs, if_false] at h
    obtain ⟨_, hr, hc, _⟩ := scLoop_ok Fn Xi Phi step eF eX eP _ _ _ h
    exact ⟨hr, hc⟩

/-- the call raises exactly for `step = 0` (`ValueError`) or when a visited column lies outside the table
    (`IndexError`); in particular never for `ordmax ≤ (columns − 1)·step`. -/
theorem C10_error_iff (e : String) :
    scApply Fn Xi Phi ordmin ordmax step eF eX eP = .error e ↔
      (step = 0 ∧ e = "ValueError") ∨
      (0 < step ∧ e = "IndexError" ∧ ∃ k, ordmin + k * step ≤ ordmax ∧ Fn.c ≤ (ordmin + k * step) / step) := by
  unfold scApply
  by_cases hs : step = 0
  · subst hs
    simp only [if_true, throw, throwThe, MonadExceptOf.throw, Except.error.injEq, lt_irrefl,
      false_and, or_false, true_and]
    exact eq_comm
  · rw [if_neg hs]
    have hpos := Nat.pos_of_ne_zero hs
    constructor
    · intro h
      obtain ⟨he, oo, hoo, hc⟩ := scLoop_error Fn Xi Phi step eF eX eP _ _ e h
      obtain ⟨k, rfl, hle⟩ := (mem_scOrders ordmin ordmax step hpos oo).mp hoo
      exact Or.inr ⟨hpos, he, k, hle, hc⟩
    · rintro (⟨h, _⟩ | ⟨_, he, k, hle, hc⟩)
      · exact absurd h hs
      · cases hr : scLoop Fn Xi Phi step eF eX eP (scOrders ordmin ordmax step) ⟨Fn.r, Fn.c, fun _ _ => 0⟩ with
        | error e' =>
          obtain ⟨he', _⟩ := scLoop_error Fn Xi Phi step eF eX eP _ _ e' hr
          rw [he, he']
        | ok L =>
          obtain ⟨hall, _⟩ := scLoop_ok Fn Xi Phi step eF eX eP _ _ _ hr
          have := hall (ordmin + k * step) ((mem_scOrders ordmin ordmax step hpos _).mpr ⟨k, rfl, hle⟩)
          omega

/-- **pLSCF column shift.** The pLSCF tables have `ordmax` columns, column `n − 1` holding polynomial order
    `n`, and the call is `SC_apply(Fn, Xi, Phi, ordmin, ordmax − 1, 1, …)`.  It never raises, and the pole
    `(i, order n)` is labelled stable iff `n ≥ 2`, `n − 1 ≥ ordmin` and it passes the soft criteria against
    the first nearest retained pole of order `n − 1` (column `n − 2`). -/
theorem C10_plscf_shift (hc : Fn.c = ordmax) (hpos : 1 ≤ ordmax) :
    ∃ Lab, scApply Fn Xi Phi ordmin (ordmax - 1) 1 eF eX eP = .ok Lab ∧
      ∀ i n, i < Fn.r → 1 ≤ n → n ≤ ordmax →
        (Lab.e i (n - 1) = 1 ↔ 2 ≤ n ∧ ordmin + 1 ≤ n ∧ StableAgainstPrev Fn Xi Phi eF eX eP (n - 1) i) := by
  cases hr : scApply Fn Xi Phi ordmin (ordmax - 1) 1 eF eX eP with
  | error e =>
    exfalso
    rcases (C10_error_iff Fn Xi Phi ordmin (ordmax - 1) 1 eF eX eP e).mp hr with ⟨h, _⟩ | ⟨_, _, k, hle, hcc⟩
    · cases h
    · rw [Nat.div_one] at hcc; omega
  | ok Lab =>
    refine ⟨Lab, rfl, ?_⟩
    intro i n hi h1 hn
    rw [C10_label_iff Fn Xi Phi ordmin (ordmax - 1) 1 eF eX eP hr i (n - 1) hi, C10_visited_step_one]
    constructor
    · rintro ⟨a, ⟨b, _⟩, c⟩; exact ⟨by omega, by omega, c⟩
    · rintro ⟨a, b, c⟩; exact ⟨by omega, ⟨by omega, by omega⟩, c⟩

/-- **MAC as modelled is the textbook formula** on Gaussian-rational shapes: with components
    `x_k = a_k + i b_k`, `y_k = c_k + i d_k`, `MAC = |Σ conj(x_k) y_k|² / ((Σ|x_k|²)(Σ|y_k|²))`,
    and NaN (`0/0`) if a shape is zero. -/
theorem C10_mac_formula (d : Nat) (x y : Nat → Option CQ) (xs ys : Nat → CQ)
    (hx : ∀ k, k < d → x k = some (xs k)) (hy : ∀ k, k < d → y k = some (ys k)) :
    let re := ∑ k ∈ range d, ((xs k).1 * (ys k).1 + (xs k).2 * (ys k).2)
    let im := ∑ k ∈ range d, ((xs k).1 * (ys k).2 - (xs k).2 * (ys k).1)
    let nx := ∑ k ∈ range d, ((xs k).1 * (xs k).1 + (xs k).2 * (xs k).2)
    let ny := ∑ k ∈ range d, ((ys k).1 * (ys k).1 + (ys k).2 * (ys k).2)
    scMac d x y = if nx * ny = 0 then none else some ((re * re + im * im) / (nx * ny)) := by
  intro re im nx ny
  unfold scMac
  rw [scDotH_some x y xs ys d hx hy, scDotH_some x x xs xs d hx hx, scDotH_some y y ys ys d hy hy]

/-! ### Non-vacuity: a 2-pole, 3-order table with one stable and one unstable pole. -/
def exFn : Mat NR := ⟨2, 3, fun i o =>
  if i = 0 then some (2 + (o : Rat) / 100) else if o = 1 then none else some (5 + (o : Rat))⟩
def exXi : Mat NR := ⟨2, 3, fun i o => if i = 0 then some (1 / 50 + (o : Rat) / 10000) else some (1 / 100)⟩
def exPhi : Ten3 (Option CQ) := ⟨2, 3, 2, fun i o k =>
  if i = 0 then some (if k = 0 then (1, 0) else (1 / 2, (o : Rat) / 100)) else some ((k : Rat), 1)⟩
def exLab (i o : Nat) : Nat :=
  match scApply exFn exXi exPhi 0 2 1 (1 / 100) (1 / 20) (1 / 50) with
  | .ok L => L.e i o
  | .error _ => 7
example : exLab 0 1 = 1 ∧ exLab 0 2 = 1 ∧ exLab 1 2 = 0 ∧ exLab 0 0 = 0 ∧ exLab 1 1 = 0 := by decide +kernel
example : StableAgainstPrev exFn exXi exPhi (1 / 100) (1 / 20) (1 / 50) 1 0 :=
  (scCell_eq_one _ _ _ _ _ _ _ _).mp (by decide +kernel)
example : ¬ StableAgainstPrev exFn exXi exPhi (1 / 100) (1 / 20) (1 / 50) 2 1 := fun h =>
  absurd ((scCell_eq_one _ _ _ _ _ _ _ _).mpr h) (by decide +kernel)
example : Visited 2 6 2 2 ∧ ¬ Visited 2 6 2 4 := by
  rw [C10_visited_aligned 2 6 2 (by decide) (by decide), C10_visited_aligned 2 6 2 (by decide) (by decide)]
  decide
example : ∀ i o f, exFn.e i o = some f → 0 < f := by
  intro i o f h
  simp only [exFn] at h
  have ho : (0 : Rat) ≤ (o : Rat) := Nat.cast_nonneg o
  split at h
  · cases h; linarith
  · split at h
    · cases h
    · cases h; linarith

end PV.C10
