import PyomaVerif.Model.Wiring
/-!
# Which class defines `run` / `mpe` / `mpe_from_plot` / the plot methods (C03–C06, C10–C13, C16, C20)

The wiring obligations of `WiringRun`, `WiringMpe`, `WiringStore`, `WiringPlot` are stated for the class whose body
contains the call (`SSIdat.run`, `SSIdat.mpe`, `FDD.mpe`, …).  That they also speak about SSIcov, SSIcov_MS, SSIdat_MS,
pLSCF_MS, FDD_MS, EFDD_MS, EFDD, FSDD rests on those classes NOT binding the method themselves.  Here that is an
obligation over the class table regenerated from /repo on every run (`Gen.classes`: base list and every name
bound in the class body, module-level patches included): `resolve c m = some d` — looking `m` up on an instance of
`c` ends in the body of class `d`.  Class attributes the call sites read (`self.method`, `self.ResultCls`) likewise.
-/
namespace PV.WiringClass
open PV.Wiring

/-- the algorithm classes of algorithms/{ssi,plscf,fdd}.py: a class added to these modules shows up here. -/
theorem alg_classes :
    algClasses = ["SSIdat", "SSIcov", "SSIdat_MS", "SSIcov_MS", "pLSCF", "pLSCF_MS", "FDD", "EFDD", "FSDD", "FDD_MS", "EFDD_MS"] := by
  decide

/-- **C12 (and C01).** SSIcov has no `run` of its own: `C12_run_build_hank` / `C12_run_result_store` about `SSIdat.run`
    are about `SSIcov.run`; the Hankel method that call falls back on (`self.run_params.method or self.method`) is the
    class attribute `'cov_mm'` for SSIcov and `'dat'` for SSIdat. -/
theorem C12_run_inherited :
    allResolve ["SSIdat", "SSIcov"] "run" "SSIdat" = true
    ∧ attrOf "SSIcov" "method" = some "'cov_mm'" ∧ attrOf "SSIdat" "method" = some "'dat'" := by
  decide

/-- **C03.** SSIcov_MS runs `SSIdat_MS.run` (`C03_run_multi`) with the class attribute `'cov_mm'`, SSIdat_MS with the
    inherited `'dat'`; both extract through `SSIdat.mpe` (`C11_ssi_mpe_args`). -/
theorem C03_ms_inherited :
    allResolve ["SSIdat_MS", "SSIcov_MS"] "run" "SSIdat_MS" = true
    ∧ allResolve ["SSIdat_MS", "SSIcov_MS"] "mpe" "SSIdat" = true
    ∧ attrOf "SSIcov_MS" "method" = some "'cov_mm'" ∧ attrOf "SSIdat_MS" "method" = some "'dat'" := by
  decide

/-- **C10.** the four `run` bodies of `C10_sc_apply_wiring` are all there are for the six classes with a
    stabilisation table. -/
theorem C10_run_inherited :
    allResolve ["SSIdat", "SSIcov"] "run" "SSIdat" = true
    ∧ allResolve ["SSIdat_MS", "SSIcov_MS"] "run" "SSIdat_MS" = true
    ∧ resolve "pLSCF" "run" = some "pLSCF" ∧ resolve "pLSCF_MS" "run" = some "pLSCF_MS" := by
  decide

/-- **C11.** all four SSI classes extract through `SSIdat.mpe`, both pLSCF classes through `pLSCF.mpe`. -/
theorem C11_mpe_inherited :
    allResolve ["SSIdat", "SSIcov", "SSIdat_MS", "SSIcov_MS"] "mpe" "SSIdat" = true
    ∧ allResolve ["pLSCF", "pLSCF_MS"] "mpe" "pLSCF" = true := by
  decide

/-- **C06 (and C07).** FDD_MS extracts through `FDD.mpe`; EFDD, FSDD run `FDD.run`; EFDD, FSDD, EFDD_MS extract through
    `EFDD.mpe`, which passes `self.method` = `'EFDD'` / `'FSDD'` / `'EFDD'` (`C07_efdd_mpe_wiring`). -/
theorem C06_inherited :
    allResolve ["FDD", "FDD_MS"] "mpe" "FDD" = true
    ∧ allResolve ["FDD", "EFDD", "FSDD"] "run" "FDD" = true
    ∧ resolve "FDD_MS" "run" = some "FDD_MS" ∧ resolve "EFDD_MS" "run" = some "EFDD_MS"
    ∧ allResolve ["EFDD", "FSDD", "EFDD_MS"] "mpe" "EFDD" = true
    ∧ attrOf "EFDD" "method" = some "'EFDD'" ∧ attrOf "FSDD" "method" = some "'FSDD'"
    ∧ attrOf "EFDD_MS" "method" = some "'EFDD'" := by
  decide

/-- **C13.** the single-setup spectral classes: FDD, EFDD, FSDD all run `FDD.run`, pLSCF its own
    (`C13_run_spectral`, `C13_run_result_store`). -/
theorem C13_run_inherited :
    allResolve ["FDD", "EFDD", "FSDD"] "run" "FDD" = true ∧ resolve "pLSCF" "run" = some "pLSCF" := by
  decide

/-- **C04.** each of the three multi-setup spectral classes has its own `run` (`C04_run_spectral_ms`,
    `C04_run_result_store_ms`), returning the result class of its single-setup parent. -/
theorem C04_run_own :
    resolve "FDD_MS" "run" = some "FDD_MS" ∧ resolve "EFDD_MS" "run" = some "EFDD_MS"
    ∧ resolve "pLSCF_MS" "run" = some "pLSCF_MS"
    ∧ attrOf "FDD_MS" "ResultCls" = some "FDDResult" ∧ attrOf "EFDD_MS" "ResultCls" = some "EFDDResult"
    ∧ attrOf "pLSCF_MS" "ResultCls" = some "pLSCFResult" := by
  decide

/-- **C05.** pLSCF_MS has its own `run` (`C05_run_plscf` states both) and extracts through `pLSCF.mpe`;
    both store a `pLSCFResult`. -/
theorem C05_inherited :
    resolve "pLSCF" "run" = some "pLSCF" ∧ resolve "pLSCF_MS" "run" = some "pLSCF_MS"
    ∧ allResolve ["pLSCF", "pLSCF_MS"] "mpe" "pLSCF" = true
    ∧ attrOf "pLSCF" "ResultCls" = some "pLSCFResult" ∧ attrOf "pLSCF_MS" "ResultCls" = some "pLSCFResult" := by
  decide

/-- **C16.** the four `mpe_from_plot` bodies of `C16_handover_wiring(_efdd)` / `C16_from_plot_stores` serve all
    eleven classes. -/
theorem C16_from_plot_inherited :
    allResolve ["SSIdat", "SSIcov", "SSIdat_MS", "SSIcov_MS"] "mpe_from_plot" "SSIdat" = true
    ∧ allResolve ["pLSCF", "pLSCF_MS"] "mpe_from_plot" "pLSCF" = true
    ∧ allResolve ["FDD", "FDD_MS"] "mpe_from_plot" "FDD" = true
    ∧ allResolve ["EFDD", "FSDD", "EFDD_MS"] "mpe_from_plot" "EFDD" = true := by
  decide

/-- **C20.** the plot methods: one `plot_stab` / `plot_cluster` body for the four SSI classes, one for the two pLSCF
    classes, one `plot_CMIF` body for the five FDD classes (`WiringPlot`). -/
theorem C20_plot_inherited :
    allResolve ["SSIdat", "SSIcov", "SSIdat_MS", "SSIcov_MS"] "plot_stab" "SSIdat" = true
    ∧ allResolve ["SSIdat", "SSIcov", "SSIdat_MS", "SSIcov_MS"] "plot_cluster" "SSIdat" = true
    ∧ allResolve ["pLSCF", "pLSCF_MS"] "plot_stab" "pLSCF" = true
    ∧ allResolve ["pLSCF", "pLSCF_MS"] "plot_cluster" "pLSCF" = true
    ∧ allResolve ["FDD", "EFDD", "FSDD", "FDD_MS", "EFDD_MS"] "plot_CMIF" "FDD" = true := by
  decide

end PV.WiringClass
