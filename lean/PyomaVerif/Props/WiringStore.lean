import PyomaVerif.Model.Wiring
/-!
# What `run()` stores (C04, C05, C06, C10, C12, C13): the fields of the result object every `run` of the class
layer returns, as bound in its `return ResultCls(...)` statement.  The rows are regenerated from /repo on every
run (`harness/translate_wiring.py`); the kernel evaluates the obligations.  `onlyParams` pins the field list
(no further field, none missing).
-/
namespace PV.WiringStore
open PV.Wiring

/-- **C13.** `FDD.run` and `pLSCF.run` store as `freq`, `Sy` what the spectral estimator returned (first and
    second output), untouched. -/
theorem C13_run_result_store :
    args "FDD" "run" "return self.ResultCls" [("freq", "fdd.SD_est[0]#0"), ("Sy", "fdd.SD_est[0]#1")] = true
    ∧ args "pLSCF" "run" "return self.ResultCls" [("freq", "fdd.SD_est[0]#0"), ("Sy", "fdd.SD_est[0]#1")] = true
    ∧ onlyParams "FDD" "run" "return self.ResultCls" ["freq", "Sy", "S_val", "S_vec"] = true := by
  decide

/-- **C04.** the three multi-setup spectral classes store as `freq`, `Sy` what `SD_PreGER` returned. -/
theorem C04_run_result_store_ms :
    args "FDD_MS" "run" "return self.ResultCls" [("freq", "fdd.SD_PreGER[0]#0"), ("Sy", "fdd.SD_PreGER[0]#1")] = true
    ∧ args "EFDD_MS" "run" "return self.ResultCls" [("freq", "fdd.SD_PreGER[0]#0"), ("Sy", "fdd.SD_PreGER[0]#1")] = true
    ∧ args "pLSCF_MS" "run" "return self.ResultCls" [("freq", "fdd.SD_PreGER[0]#0"), ("Sy", "fdd.SD_PreGER[0]#1")] = true
    ∧ onlyParams "FDD_MS" "run" "return self.ResultCls" ["freq", "Sy", "S_val", "S_vec"] = true
    ∧ onlyParams "EFDD_MS" "run" "return self.ResultCls" ["freq", "Sy", "S_val", "S_vec"] = true := by
  decide

/-- **C06.** the singular values / vectors that `FDD.mpe` later reads (`C06_fdd_mpe_wiring`) are the two
    outputs of `SD_svalsvec` on the stored spectrum, and `freq` is the estimator's grid — in `FDD.run`
    (inherited by EFDD, FSDD), `FDD_MS.run` and `EFDD_MS.run`. -/
theorem C06_run_result_store :
    args "FDD" "run" "return self.ResultCls"
      [("freq", "fdd.SD_est[0]#0"), ("S_val", "fdd.SD_svalsvec[0]#0"), ("S_vec", "fdd.SD_svalsvec[0]#1")] = true
    ∧ args "FDD_MS" "run" "return self.ResultCls"
      [("freq", "fdd.SD_PreGER[0]#0"), ("S_val", "fdd.SD_svalsvec[0]#0"), ("S_vec", "fdd.SD_svalsvec[0]#1")] = true
    ∧ args "EFDD_MS" "run" "return self.ResultCls"
      [("freq", "fdd.SD_PreGER[0]#0"), ("S_val", "fdd.SD_svalsvec[0]#0"), ("S_vec", "fdd.SD_svalsvec[0]#1")] = true
    ∧ onlyParams "FDD" "run" "fdd.SD_svalsvec" ["SD"] = true
    ∧ onlyParams "FDD_MS" "run" "fdd.SD_svalsvec" ["SD"] = true
    ∧ onlyParams "EFDD_MS" "run" "fdd.SD_svalsvec" ["SD"] = true := by
  decide

/-- **C05.** `pLSCF.run` / `pLSCF_MS.run` store the fitted coefficient matrices as `Ad`, `Bn` (first and second
    output of `plscf.pLSCF`) and the spectrum they were fitted to; the field list is complete. -/
theorem C05_run_result_store :
    args "pLSCF" "run" "return self.ResultCls"
      [("Ad", "plscf.pLSCF[0]#0"), ("Bn", "plscf.pLSCF[0]#1"), ("Sy", "fdd.SD_est[0]#1"), ("freq", "fdd.SD_est[0]#0")] = true
    ∧ args "pLSCF_MS" "run" "return self.ResultCls"
      [("Ad", "plscf.pLSCF[0]#0"), ("Bn", "plscf.pLSCF[0]#1"), ("Sy", "fdd.SD_PreGER[0]#1"), ("freq", "fdd.SD_PreGER[0]#0")] = true
    ∧ onlyParams "pLSCF" "run" "return self.ResultCls" ["freq", "Sy", "Ad", "Bn", "Fn_poles", "Xi_poles", "Phi_poles", "Lab"] = true
    ∧ onlyParams "pLSCF_MS" "run" "return self.ResultCls" ["freq", "Sy", "Ad", "Bn", "Fn_poles", "Xi_poles", "Phi_poles", "Lab"] = true
    ∧ rets "pLSCF" "run" "plscf.pLSCF" = some ["Ad", "Bn"] ∧ rets "pLSCF_MS" "run" "plscf.pLSCF" = some ["Ad", "Bn"] := by
  decide

/-- **C12.** `SSIResult.H` after `SSIdat.run` (inherited by SSIcov) is the first output of `build_hank`
    (the matrix `C12_run_build_hank` speaks about); the multi-setup run stores no Hankel matrix. -/
theorem C12_run_result_store :
    args "SSIdat" "run" "return SSIResult"
      [("H", "ssi.build_hank[0]#0"), ("Obs", "ssi.SSI_fast[0]#0"), ("A", "ssi.SSI_fast[0]#1"), ("C", "ssi.SSI_fast[0]#2")] = true
    ∧ rets "SSIdat" "run" "ssi.build_hank" = some ["H", "T"]
    ∧ args "SSIdat_MS" "run" "return SSIResult"
      [("H", "None"), ("Obs", "ssi.SSI_multi_setup[0]#0"), ("A", "ssi.SSI_multi_setup[0]#1"), ("C", "ssi.SSI_multi_setup[0]#2")] = true := by
  decide

/-- **C10.** `result.Lab` is the output of the `SC_apply` call of `C10_sc_apply_wiring`, in all four `run`
    bodies; `Lambds` of the SSI classes comes from the same (last) mask application as `Fn_poles`
    (list position 3 next to positions 0, 1, 2); the SSI field list is complete. -/
theorem C10_run_result_store :
    (["SSIdat", "SSIdat_MS"].all fun c => args c "run" "return SSIResult"
        [("Lab", "gen.SC_apply[0]#all"),
         ("Fn_poles", "if(gen.applymask[3]#4 is not None){gen.applymask[4]#0}else{gen.applymask[3]#0}"),
         ("Xi_poles", "if(gen.applymask[3]#4 is not None){gen.applymask[4]#1}else{gen.applymask[3]#1}"),
         ("Phi_poles", "if(gen.applymask[3]#4 is not None){gen.applymask[4]#2}else{gen.applymask[3]#2}"),
         ("Lambds", "if(gen.applymask[3]#4 is not None){gen.applymask[4]#3}else{gen.applymask[3]#3}")]
      && onlyParams c "run" "return SSIResult"
        ["Obs", "A", "C", "H", "Lambds", "Fn_poles", "Xi_poles", "Phi_poles", "Lab", "Fn_poles_cov", "Xi_poles_cov", "Phi_poles_cov"]
      && rets c "run" "gen.SC_apply" == some ["Lab"]) = true
    ∧ (["pLSCF", "pLSCF_MS"].all fun c => args c "run" "return self.ResultCls"
        [("Lab", "gen.SC_apply[0]#all"), ("Fn_poles", "gen.applymask[3]#0"), ("Xi_poles", "gen.applymask[3]#1"),
         ("Phi_poles", "gen.applymask[3]#2")]
      && rets c "run" "gen.SC_apply" == some ["Lab"]) = true := by
  decide

end PV.WiringStore
