import PyomaVerif.Props.C02
import PyomaVerif.Lemmas.MergeMatrix
/-!
# C02 — the whole merged matrix (`gen.merge_mode_shapes`, every mode, every row)

Theorems about the executable model `Merge.mergeModeShapes` (the function the driver operation
`merge_mode_shapes` runs and the correspondence streams `gen.merge_mode_shapes`,
`gen.merge_mode_shapes[exceptions]` compare with the real function; `merge_results` calls it).
-/
namespace PV.C02
open PV.Merge

variable {C : Type} [Field C] [Inhabited C]

/-- A setup of the PoSER layout, all modes: the global row of each of its channels, the positions
    of its reference channels, and its scale factor for every mode. -/
structure SetupM (C : Type) where
  rows : List Nat
  ref : List Nat
  s : Nat → C

/-- the mode-shape matrix (by rows, `nm` modes) a setup reports: the global matrix `G`
    restricted to its sensors, column `k` times `s k` -/
def SetupM.Phi (G : Nat → Nat → C) (nm : Nat) (d : SetupM C) : List (List C) :=
  d.rows.map fun r => (List.range nm).map fun k => d.s k * G r k

/-- one mode of a setup -/
def SetupM.mode (d : SetupM C) (k : Nat) : SetupD C := ⟨d.rows, d.ref, d.s k⟩

/-- well-formed setup w.r.t. the common global reference rows: reference positions in range and
    pairwise distinct, the same global reference rows in the same order, and for every mode a
    non-zero factor whose ratio to the first setup's factor `s0 k` is real (`re` fixes it). -/
structure GoodM (re : C → C) (refRows : List Nat) (nm : Nat) (s0 : Nat → C) (d : SetupM C) : Prop where
  inRange : ∀ i ∈ d.ref, i < d.rows.length
  nodup : d.ref.Nodup
  sameRefs : pick d.rows d.ref = refRows
  sne : ∀ k, k < nm → d.s k ≠ 0
  real : ∀ k, k < nm → re (s0 k / d.s k) = s0 k / d.s k

omit [Field C] in
theorem pick_length {α : Type} [Inhabited α] (v : List α) (idx : List Nat) :
    (pick v idx).length = idx.length := by simp [pick]

theorem column_Phi (G : Nat → Nat → C) (nm : Nat) (d : SetupM C) (k : Nat) (hk : k < nm) :
    column (d.Phi G nm) k = SetupD.phi (fun r => G r k) (d.mode k) := by
  unfold column SetupM.Phi SetupD.phi SetupM.mode
  rw [List.map_map]
  apply List.map_congr_left
  intro r _
  simp [List.getD, hk]

/-- **C02_merge_all** — the property's first clause for the whole matrix.
    Global mode-shape matrix `G` (`nm` modes, any number of rows), setups `d0 :: ds`; setup `i`
    reports `s_i k · G[rows_i, k]` for every mode `k`; all setups list the same global
    reference rows in the same order, at pairwise distinct in-range positions; all factors are
    non-zero with real ratios `s_0 k / s_i k`; for every mode the (unconjugated) square sum of
    the reference components of `G` does not vanish (`hg`: automatic for real-valued reference
    components that are not all zero, `C02_merge_all_real`; for complex ones it is a genuine
    premise — `MSF` divides by this number).  Then `mergeModeShapes` raises nothing and returns
    the matrix whose row for global row `r` — reference rows in the first setup's order, then
    every setup's roving rows in ascending channel position, setups in order — is
    `[s_0 k · G r k | k < nm]`: the global shape in the scale of the first setup, for every mode
    and every row.

    Hypothesis beyond `C02_merge`: `ref.Nodup` (distinct reference positions).  With a repeated
    position `np.delete` removes fewer rows than the pre-allocated matrix expects and numpy
    raises `ValueError` (mirrored: correspondence stream `gen.merge_mode_shapes[exceptions]`). -/
theorem C02_merge_all (re : C → C) (G : Nat → Nat → C) (nm : Nat) (refRows : List Nat)
    (d0 : SetupM C) (ds : List (SetupM C))
    (h0in : ∀ i ∈ d0.ref, i < d0.rows.length) (h0nd : d0.ref.Nodup)
    (h0ref : pick d0.rows d0.ref = refRows)
    (hds : ∀ d ∈ ds, GoodM re refRows nm d0.s d)
    (hg : ∀ k, k < nm → dot (refRows.map (fun r => G r k)) (refRows.map (fun r => G r k)) ≠ 0) :
    mergeModeShapes re ((d0 :: ds).map (SetupM.Phi G nm)) ((d0 :: ds).map (·.ref))
      = .ok ((refRows ++ rovingConcat ((d0 :: ds).map (·.rows)) ((d0 :: ds).map (·.ref))).map
          fun r => (List.range nm).map fun k => d0.s k * G r k) := by
  set order := refRows ++ rovingConcat ((d0 :: ds).map (·.rows)) ((d0 :: ds).map (·.ref)) with horder
  have hnref : d0.ref.length = refRows.length := by rw [← h0ref, pick_length]
  -- every column is `C02_merge`
  have hcolEq : ∀ k, k < nm →
      mergedCol re (((d0 :: ds).map (SetupM.Phi G nm)).map (column · k)) ((d0 :: ds).map (·.ref))
        = order.map (fun r => d0.s k * G r k) := by
    intro k hk
    have hphis : ((d0 :: ds).map (SetupM.Phi G nm)).map (column · k)
        = ((d0.mode k) :: ds.map (·.mode k)).map (SetupD.phi (fun r => G r k)) := by
      simp only [List.map_cons, List.map_map, column_Phi G nm d0 k hk, List.cons.injEq, true_and]
      apply List.map_congr_left
      intro d _
      exact column_Phi G nm d k hk
    have hrefs : (d0 :: ds).map (·.ref) = ((d0.mode k) :: ds.map (·.mode k)).map (·.ref) := by
      simp [SetupM.mode, List.map_map, Function.comp_def]
    have hrows : (d0 :: ds).map (·.rows) = ((d0.mode k) :: ds.map (·.mode k)).map (·.rows) := by
      simp [SetupM.mode, List.map_map, Function.comp_def]
    rw [hphis, horder, hrefs, hrows]
    exact C02_merge re (fun r => G r k) refRows (d0.mode k) (ds.map (·.mode k)) h0in h0ref
      (by
        intro d' hd'
        obtain ⟨d, hd, rfl⟩ := List.mem_map.mp hd'
        have g := hds d hd
        exact ⟨g.inRange, g.sameRefs, g.sne k hk, g.real k hk⟩)
      (hg k hk)
  -- width of the first setup's matrix
  have hw : width (d0.Phi G nm) = nm := by
    rcases Nat.eq_zero_or_pos nm with h | h
    · subst h
      unfold width SetupM.Phi
      cases d0.rows <;> simp
    · have hne : refRows ≠ [] := by
        intro he
        exact hg 0 h (by rw [he]; simp [dot])
      have : d0.rows ≠ [] := by
        intro he
        have hr : d0.ref ≠ [] := by
          intro hr; rw [hr] at hnref; exact hne (List.length_eq_zero_iff.mp hnref.symm)
        obtain ⟨i, hi⟩ := List.exists_mem_of_ne_nil _ hr
        have := h0in i hi
        rw [he] at this; simp at this
      obtain ⟨r, rs, hrs⟩ := List.exists_cons_of_ne_nil this
      unfold width SetupM.Phi
      rw [hrs]; simp
  have hrect : ∀ p ∈ (d0.Phi G nm) :: ds.map (SetupM.Phi G nm), ∀ row ∈ p, row.length = nm := by
    intro p hp row hrow
    have : ∃ d : SetupM C, p = d.Phi G nm := by
      rcases List.mem_cons.mp hp with rfl | hp'
      · exact ⟨d0, rfl⟩
      · obtain ⟨d, _, rfl⟩ := List.mem_map.mp hp'; exact ⟨d, rfl⟩
    obtain ⟨d, rfl⟩ := this
    unfold SetupM.Phi at hrow
    obtain ⟨r, _, rfl⟩ := List.mem_map.mp hrow
    simp
  have hM : totalRows d0.ref.length (((d0.Phi G nm) :: ds.map (SetupM.Phi G nm)).map List.length)
      = ((order.length : Nat) : Int) := by
    have := totalRows_eq d0.ref.length ((d0 :: ds).map (fun d => (d.rows, d.ref)))
      (by
        intro p hp
        obtain ⟨d, hd, rfl⟩ := List.mem_map.mp hp
        rcases List.mem_cons.mp hd with rfl | hd'
        · exact ⟨h0nd, h0in, rfl⟩
        · have g := hds d hd'
          exact ⟨g.nodup, g.inRange, by
            have := congrArg List.length g.sameRefs
            rw [pick_length] at this
            show d.ref.length = d0.ref.length
            omega⟩)
    simp only [List.map_map, Function.comp_def] at this
    have hl : ((d0.Phi G nm) :: ds.map (SetupM.Phi G nm)).map List.length
        = (d0 :: ds).map (fun d => d.rows.length) := by
      simp [SetupM.Phi, List.map_map, Function.comp_def]
    rw [hl, this, horder, List.length_append, hnref]
  have ht : tailChecks d0.ref.length ((ds.map (SetupM.Phi G nm)).map List.length) (ds.map (·.ref))
      = .ok () := by
    have := tailChecks_ok d0.ref.length (ds.map (fun d => (d.rows.length, d.ref)))
      (by
        intro p hp
        obtain ⟨d, hd, rfl⟩ := List.mem_map.mp hp
        have g := hds d hd
        exact ⟨g.inRange, by
          have := congrArg List.length g.sameRefs
          rw [pick_length] at this
          show d.ref.length = d0.ref.length
          omega⟩)
    simp only [List.map_map, Function.comp_def] at this
    have hl : (ds.map (SetupM.Phi G nm)).map List.length = ds.map (fun d => d.rows.length) := by
      simp [SetupM.Phi, List.map_map, Function.comp_def]
    rw [hl]; exact this
  simp only [List.map_cons] at hcolEq ⊢
  rw [mergeModeShapes_ok re _ _ _ _ nm order.length hw hrect hM
    (by simpa [SetupM.Phi] using h0in) ht
    (by intro k hk; simp only [List.map_cons]; rw [hcolEq k hk, List.length_map])]
  congr 1
  rw [← transpose_cols order nm (fun k r => d0.s k * G r k)]
  apply List.map_congr_left
  intro r _
  apply List.map_congr_left
  intro k hk
  simp only [List.map_cons]
  rw [hcolEq k (List.mem_range.mp hk)]

/-- **C02_merge_all_real** — `C02_merge_all` with every hypothesis discharged from the
    property's premise for real-valued data: the numbers `C` of the shapes contain an ordered
    field `K` (`φ`; `ℚ ⊂ ℚ(i)`, `ℝ ⊂ ℂ`, or `C = K`), `re` fixes it, the global shape matrix and
    the factors are real (`G = φ ∘ g`, `s_i = φ ∘ t_i`), the factors of the later setups are non-zero
    (the first setup's may even vanish), and in every
    mode some reference component of the global shape is non-zero. -/
theorem C02_merge_all_real {K : Type} [Field K] [LinearOrder K] [IsStrictOrderedRing K]
    (φ : K →+* C) (re : C → C) (hre : ∀ x, re (φ x) = φ x)
    (g : Nat → Nat → K) (nm : Nat) (refRows : List Nat)
    (rows0 ref0 : List Nat) (t0 : Nat → K) (rest : List (List Nat × List Nat × (Nat → K)))
    (h0in : ∀ i ∈ ref0, i < rows0.length) (h0nd : ref0.Nodup) (h0ref : pick rows0 ref0 = refRows)
    (hrest : ∀ p ∈ rest, (∀ i ∈ p.2.1, i < p.1.length) ∧ p.2.1.Nodup ∧ pick p.1 p.2.1 = refRows ∧
      ∀ k, k < nm → p.2.2 k ≠ 0)
    (hrefne : ∀ k, k < nm → ∃ r ∈ refRows, g r k ≠ 0) :
    let G : Nat → Nat → C := fun r k => φ (g r k)
    let d0 : SetupM C := ⟨rows0, ref0, fun k => φ (t0 k)⟩
    let ds : List (SetupM C) := rest.map fun p => ⟨p.1, p.2.1, fun k => φ (p.2.2 k)⟩
    mergeModeShapes re ((d0 :: ds).map (SetupM.Phi G nm)) ((d0 :: ds).map (·.ref))
      = .ok ((refRows ++ rovingConcat ((d0 :: ds).map (·.rows)) ((d0 :: ds).map (·.ref))).map
          fun r => (List.range nm).map fun k => φ (t0 k) * φ (g r k)) := by
  intro G d0 ds
  apply C02_merge_all re G nm refRows d0 ds h0in h0nd h0ref
  · intro d hd
    obtain ⟨p, hp, rfl⟩ := List.mem_map.mp hd
    obtain ⟨hin, hnd, href, hne⟩ := hrest p hp
    refine ⟨hin, hnd, href, fun k hk => (map_ne_zero φ).mpr (hne k hk), fun k _ => ?_⟩
    show re (φ (t0 k) / φ (p.2.2 k)) = φ (t0 k) / φ (p.2.2 k)
    rw [← map_div₀, hre]
  · intro k hk
    have : refRows.map (fun r => G r k) = (refRows.map (fun r => g r k)).map φ := by
      rw [List.map_map]; rfl
    rw [this]
    apply dot_self_ne_zero_of_real
    obtain ⟨r, hr, hr0⟩ := hrefne k hk
    exact ⟨g r k, List.mem_map.mpr ⟨r, hr, rfl⟩, hr0⟩

/-! ## non-vacuity -/
namespace Ex
/-- 4-row, 2-mode real global matrix -/
def g : Nat → Nat → Rat := fun r k => (r : Rat) + k + 1

/-- non-vacuity of `C02_merge_all_real` (hence of `C02_merge_all`): two setups of a 4-row, 2-mode
    global matrix over ℚ, reference = global row 1 (position 1 in both), factors `(2, 3)` and
    `(−1/2, 5)`; all hypotheses hold and the model returns `s₀ₖ·G[[1,0,2,3], k]`. -/
example :
    mergeModeShapes (C := Rat) id
      [[[2, 6], [4, 9], [6, 12]], [[-2, 25], [-1, 15]]] [[1], [1]]
      = .ok [[4, 9], [2, 6], [6, 12], [8, 15]] := by
  have h := C02_merge_all_real (C := Rat) (RingHom.id Rat) id (fun _ => rfl) g 2 [1]
    [0, 1, 2] [1] (fun k => if k = 0 then 2 else 3)
    [([3, 1], [1], fun k => if k = 0 then -1/2 else 5)]
    (by decide) (by decide) (by decide)
    (by
      intro p hp
      simp only [List.mem_singleton] at hp
      subst hp
      refine ⟨by decide, by decide, by decide, ?_⟩
      intro k _
      by_cases hk : k = 0 <;> simp [hk])
    (by
      intro k _
      refine ⟨1, by simp, ?_⟩
      unfold g
      positivity)
  simp only at h
  have e1 : (([(⟨[0, 1, 2], [1], fun k => (RingHom.id Rat) (if k = 0 then 2 else 3)⟩ : SetupM Rat),
      ⟨[3, 1], [1], fun k => (RingHom.id Rat) (if k = 0 then -1/2 else 5)⟩]).map
        (SetupM.Phi (fun r k => (RingHom.id Rat) (g r k)) 2))
      = [[[2, 6], [4, 9], [6, 12]], [[-2, 25], [-1, 15]]] := by
    decide +kernel
  simp only [List.map_cons, List.map_nil] at h e1
  rw [e1] at h
  rw [h]
  decide +kernel
end Ex

end PV.C02
