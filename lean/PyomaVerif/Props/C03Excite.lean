import PyomaVerif.Props.C03E2E
import PyomaVerif.Lemmas.Excitation
/-!
# C03 — the per-setup rank condition (`CovSetup.gam`, `DatSetup.gam`) from the property's premises

Every setup record of the multi-setup end-to-end theorems (`Props/C03E2E.lean`) carries a hypothesis
`gam`: the controllability factor of that setup's Hankel matrix is right invertible.  As for the
single-setup case (`Props/C01Excite.lean`) it follows from: `A` invertible, that setup's state
sequence spans the state space (e.g. distinct eigenvalues and an initial state exciting every mode,
`C01Excite.C01_excited_of_modal`), and the shared reference sensors observe the system with `br+1`
block rows.  The setup's gain `g ≠ 0` only scales the reference output matrix.
-/
set_option linter.unusedVariables false

namespace PV.C03Excite
open PV PV.Mat PV.Cov PV.FreeVib PV.MsFreeVib PV.Excite PV.C03E2E Matrix Finset

/-- **The `gam` field of a setup record from the property's premises.**  `Y` is the free response of
    `(A, g·C_g[refIds ++ mi], x0)` with the reference rows first; `OL` is a left inverse of the
    `br+1`-block observability matrix of the (scaled) reference sensors. -/
theorem C03_setup_gam_of_premises {n : ℕ} (A Ainv : Matrix (Fin n) (Fin n) ℚ) (hA : A * Ainv = 1)
    (Cg : ℕ → Fin n → ℚ) (br : ℕ) (refIds mi : List ℕ) (g : ℚ) (x0 : Fin n → ℚ) (Y : Mat ℚ)
    (s : ℚ) (hs : s ≠ 0) (hrows : Y.r = refIds.length + mi.length)
    (hfree : IsFreeResponse A (fun a t => g * msC Cg (refIds ++ mi) a t) x0 Y)
    (Xr : Matrix (Fin (Y.c - br - (br + 1) - 1)) (Fin n) ℚ)
    (hX : kryMx A x0 (Y.c - br - (br + 1) - 1) * Xr = 1)
    (OL : Matrix (Fin n) (Fin ((br + 1) * (refPart Y refIds.length).r)) ℚ)
    (hO : OL * obsMx ((br + 1) * (refPart Y refIds.length).r) (refPart Y refIds.length).r A
      (fun a t => g * msC Cg (refIds ++ mi) a t) = 1) :
    ∃ Γr : Matrix (Fin ((br + 1) * (refPart Y refIds.length).r)) (Fin n) ℚ,
      gamMx A x0 (refPart Y refIds.length) br s Y.c ((br + 1) * (refPart Y refIds.length).r) * Γr = 1 := by
  apply gam_right_inv A Ainv hA (fun a t => g * msC Cg (refIds ++ mi) a t) x0 (refPart Y refIds.length)
    br s hs Y.c ?_ Xr hX OL hO
  intro b t hb ht
  have hb' : b < Y.r := by
    have : (refPart Y refIds.length).r = refIds.length := rfl
    omega
  have := hfree b t hb' ht
  simp only [refPart, rowSlice, Nat.zero_add]
  rw [this]
  rfl

end PV.C03Excite
