import PyomaVerif.Props.C03E2E
import PyomaVerif.Lemmas.Excitation
import PyomaVerif.Props.C01Excite
/-!
# C03 — the per-setup rank condition (`CovSetup.gam`, `DatSetup.gam`) from the property's premises

Every setup record of the multi-setup end-to-end theorems (`Props/C03E2E.lean`) carries a hypothesis
`gam`: the controllability factor of that setup's Hankel matrix is right invertible.  As for the
single-setup case (`Props/C01Excite.lean`) it follows from: `A` invertible, that setup's state
sequence spans the state space (e.g. distinct eigenvalues and an initial state exciting every mode,
`C01Excite.C01_excited_of_modal`), and the shared reference sensors observe the system with `br+1`
block rows.  The setup's gain `g ≠ 0` only scales the reference output matrix.
-/
set_option linter.unusedVariables false

namespace PV.C03Excite
open PV PV.Mat PV.Cov PV.FreeVib PV.MsFreeVib PV.Excite PV.C03E2E PV.C01Excite Matrix Finset

/-- **The `gam` field of a setup record from the property's premises.**  `Y` is the free response of
    `(A, g·C_g[refIds ++ mi], x0)` with the reference rows first; `OL` is a left inverse of the
    `br+1`-block observability matrix of the (scaled) reference sensors. -/
theorem C03_setup_gam_of_premises {n : ℕ} (A Ainv : Matrix (Fin n) (Fin n) ℚ) (hA : A * Ainv = 1)
    (Cg : ℕ → Fin n → ℚ) (br : ℕ) (refIds mi : List ℕ) (g : ℚ) (x0 : Fin n → ℚ) (Y : Mat ℚ)
    (s : ℚ) (hs : s ≠ 0) (hrows : Y.r = refIds.length + mi.length)
    (hfree : IsFreeResponse A (fun a t => g * msC Cg (refIds ++ mi) a t) x0 Y)
    (Xr : Matrix (Fin (Y.c - br - (br + 1) - 1)) (Fin n) ℚ)
    (hX : kryMx A x0 (Y.c - br - (br + 1) - 1) * Xr = 1)
    (OL : Matrix (Fin n) (Fin ((br + 1) * (refPart Y refIds.length).r)) ℚ)
    (hO : OL * obsMx ((br + 1) * (refPart Y refIds.length).r) (refPart Y refIds.length).r A
      (fun a t => g * msC Cg (refIds ++ mi) a t) = 1) :
    ∃ Γr : Matrix (Fin ((br + 1) * (refPart Y refIds.length).r)) (Fin n) ℚ,
      gamMx A x0 (refPart Y refIds.length) br s Y.c ((br + 1) * (refPart Y refIds.length).r) * Γr = 1 := by
  apply gam_right_inv A Ainv hA (fun a t => g * msC Cg (refIds ++ mi) a t) x0 (refPart Y refIds.length)
    br s hs Y.c ?_ Xr hX OL hO
  intro b t hb ht
  have hb' : b < Y.r := by
    have : (refPart Y refIds.length).r = refIds.length := rfl
    omega
  have := hfree b t hb' ht
  simp only [refPart, rowSlice, Nat.zero_add]
  rw [this]
  rfl

/-- **The `gam` field of a setup record from modal premises only**: `A` diagonalisable over `Cpx ℚ` with
    pairwise distinct non-zero poles, this setup's initial state excites every mode, every mode is seen
    by one of the (scaled) reference sensors, `br + 1 ≥ n` block rows and at least `n` averaged samples. -/
theorem C03_setup_gam_of_modal {n : ℕ} (A : Matrix (Fin n) (Fin n) ℚ)
    (Vm Vminv : Matrix (Fin n) (Fin n) (Cpx ℚ)) (d : Fin n → Cpx ℚ)
    (hVm : Vm * Vminv = 1) (hAV : A.map ofR * Vm = Vm * diagonal d) (hd : Function.Injective d)
    (hnz : ∀ i, d i ≠ 0)
    (Cg : ℕ → Fin n → ℚ) (br : ℕ) (refIds mi : List ℕ) (g : ℚ) (x0 : Fin n → ℚ) (Y : Mat ℚ)
    (s : ℚ) (hs : s ≠ 0) (hrows : Y.r = refIds.length + mi.length)
    (hfree : IsFreeResponse A (fun a t => g * msC Cg (refIds ++ mi) a t) x0 Y)
    (hexc : ∀ i, (Vminv *ᵥ (fun k => ofR (x0 k))) i ≠ 0)
    (hobsRef : ∀ k : Fin n, ∃ b, b < (refPart Y refIds.length).r ∧
      ((fun j => ofR (g * msC Cg (refIds ++ mi) b j)) ⬝ᵥ fun j => Vm j k) ≠ 0)
    (hnp : n ≤ br + 1) (hnT : n ≤ Y.c - br - (br + 1) - 1) :
    ∃ Γr : Matrix (Fin ((br + 1) * (refPart Y refIds.length).r)) (Fin n) ℚ,
      gamMx A x0 (refPart Y refIds.length) br s Y.c ((br + 1) * (refPart Y refIds.length).r) * Γr = 1 := by
  obtain ⟨Ainv, hA⟩ := C01_invertible_of_modal A Vm Vminv d hVm hAV hnz
  obtain ⟨Xr, hX⟩ := C01_excited_of_modal A x0 Vm Vminv d hVm hAV hd hexc _ hnT
  obtain ⟨OL, hO⟩ := C01_observable_of_modal (refPart Y refIds.length).r (br + 1) A
    (fun a t => g * msC Cg (refIds ++ mi) a t) Vm Vminv d hVm hAV hd hobsRef hnp
  exact C03_setup_gam_of_premises A Ainv hA Cg br refIds mi g x0 Y s hs hrows hfree Xr hX OL hO

/-- a covariance-driven setup record assembled from modal premises instead of the `gam` hypothesis -/
theorem CovSetup.of_modal {n : ℕ} {A : Matrix (Fin n) (Fin n) ℚ}
    (Vm Vminv : Matrix (Fin n) (Fin n) (Cpx ℚ)) (d : Fin n → Cpx ℚ)
    (hVm : Vm * Vminv = 1) (hAV : A.map ofR * Vm = Vm * diagonal d) (hd : Function.Injective d)
    (hnz : ∀ i, d i ≠ 0)
    {Cg : ℕ → Fin n → ℚ} {br N : ℕ} {refIds mi : List ℕ} {g : ℚ} {x0 : Fin n → ℚ} {Y : Mat ℚ} {s : ℚ}
    {U V : Mat ℚ} {S sq : ℕ → ℚ} {P : Mat ℚ} (hg : g ≠ 0) (hs : s ≠ 0)
    (hrows : Y.r = refIds.length + mi.length)
    (hfree : IsFreeResponse A (fun a t => g * msC Cg (refIds ++ mi) a t) x0 Y)
    (hexc : ∀ i, (Vminv *ᵥ (fun k => ofR (x0 k))) i ≠ 0)
    (hobsRef : ∀ k : Fin n, ∃ b, b < (refPart Y refIds.length).r ∧
      ((fun j => ofR (g * msC Cg (refIds ++ mi) b j)) ⬝ᵥ fun j => Vm j k) ≠ 0)
    (hnp : n ≤ br + 1) (hnT : n ≤ Y.c - br - (br + 1) - 1)
    (hsvd : SvdOf (hankMM Y (refPart Y refIds.length) br s) U V S N) (hsq : SqrtOf sq S N)
    (hpinv : PinvMS (oRef br refIds.length mi.length (obsOf U sq N)) P (br * refIds.length) N) :
    CovSetup A Cg br N refIds mi g x0 Y s U V S sq P where
  hg := hg
  rows := hrows
  free := hfree
  gam := C03_setup_gam_of_modal A Vm Vminv d hVm hAV hd hnz Cg br refIds mi g x0 Y s hs hrows hfree hexc
    hobsRef hnp hnT
  svd := hsvd
  sqrt := hsq
  pinv := hpinv

/-! ## Non-vacuity: setup 0 of the instance of `Props/C03E2E.lean` (`A` = quarter-turn rotation, poles `±i`) -/
namespace Ex
open PV.C03E2E.Ex

def Vm : Matrix (Fin 2) (Fin 2) (Cpx ℚ) :=
  fun i j => if i = 0 then ⟨1, 0⟩ else if j = 0 then ⟨0, -1⟩ else ⟨0, 1⟩
def Vminv : Matrix (Fin 2) (Fin 2) (Cpx ℚ) :=
  fun i j => if j = 0 then ⟨1/2, 0⟩ else if i = 0 then ⟨0, 1/2⟩ else ⟨0, -1/2⟩
def dm : Fin 2 → Cpx ℚ := fun i => if i = 0 then ⟨0, 1⟩ else ⟨0, -1⟩

/-- all premises of `C03_setup_gam_of_modal` hold together for setup 0 (gain 1, reference DOF 1, roving
    DOF 0, `br = 3`, 12 samples) -/
example : ∃ Γr : Matrix (Fin ((3 + 1) * (refPart Y0 refIds.length).r)) (Fin 2) ℚ,
    gamMx A x00 (refPart Y0 refIds.length) 3 1 Y0.c ((3 + 1) * (refPart Y0 refIds.length).r) * Γr = 1 :=
  C03_setup_gam_of_modal A Vm Vminv dm (by decide +kernel) (by decide +kernel) (by decide +kernel)
    (by decide +kernel) Cg 3 refIds [0] 1 x00 Y0 1 (by norm_num) rfl free0 (by decide +kernel)
    (by decide +kernel) (by decide) (by decide)

end Ex
end PV.C03Excite
