import PyomaVerif.Lemmas.MsGather
import PyomaVerif.Props.C04
import PyomaVerif.Props.C04C13
/-!
# C04 — the reference/roving split composed with the spectral merging

`Props/C04.lean` (`C04_identical_refs`) starts from records that are already split (`Y ii = {ref, mov}`) and asks
for IDENTICAL reference arrays.  Here the statement starts from what the user hands to `MultiSetup_PreGER`: the
datasets (samples × channels, reference channels anywhere) and the `ref_ind` lists (any order).

* `C04_identical_refs_rows` — `C04_identical_refs` with the hypothesis on the reference arrays weakened to what
  is used: same shape, same channel records row by row (nothing about entries outside the shape's rows).
* `C04_handover` — every `SD_est` call `SD_PreGER` makes on `gen.pre_multisetup(datasets, ref_ind)`, in terms of
  the datasets: `Y_all = y_i[:, ref_i ++ roving_i].T`, `Y_ref = y_i[:, ref_i].T`, `Y_mov = y_i[:, roving_i].T`.
* `C04_identical_refs_split` — one recording cut into setups: if the `a`-th listed reference channel of every
  dataset carries the same record as the `a`-th listed reference channel of dataset 0, the merged matrix of
  `SD_PreGER(pre_multisetup(datasets, ref_ind))` is the single-setup estimate of
  `[y_0[:, ref_0].T; y_0[:, roving_0].T; y_1[:, roving_1].T; …]` against `y_0[:, ref_0].T`: references in the listed
  order first, then every setup's roving channels in ascending channel order, setup by setup.
-/
namespace PV.C04Split
open PV PV.Mat Finset PV.MsGather PV.Multi

section rows
variable {T D F K : Type} [One T] [Div T] [Field K]
variable {sd : Estimator T D F K} {inv : Mat K → Mat K} {fs : T} {nxseg : Nat} {pov : T}
  {method : SdMethod} {n : Nat} {Y : Nat → Setup D}

/-- **C04_identical_refs_rows.**  `C04_identical_refs` under the hypothesis it uses: every setup's reference array
    has the shape of setup 0's and the same record in each of its rows (`hR`); nothing is asked about the entry
    function outside the rows of the shape. -/
theorem C04_identical_refs_rows (hs : SdShape sd) (hp : Pairwise sd) (hinv : InvContract inv)
    (hm : method ≠ .other) (hn : (n : K) ≠ 0)
    (hR : ∀ ii, ii < n → (Y ii).ref.r = (Y 0).ref.r ∧ (Y ii).ref.c = (Y 0).ref.c ∧
      ∀ i, i < (Y 0).ref.r → (Y ii).ref.e i = (Y 0).ref.e i)
    (hG : ∀ f, f < (sd (sdArgs fs nxseg method pov)
                  (Mat.vstack2 (Y 0).ref (Mat.vstackFn n (fun k => (Y k).mov))) (Y 0).ref).S.n2 →
      ∃ W, IsLeftInv W ⟨(Y 0).ref.r, (Y 0).ref.r, fun i j =>
        (sd (sdArgs fs nxseg method pov)
          (Mat.vstack2 (Y 0).ref (Mat.vstackFn n (fun k => (Y k).mov))) (Y 0).ref).S.e i j f⟩) :
    (sdPreGER sd inv fs nxseg pov method n Y).freq
        = (sd (sdArgs fs nxseg method pov)
            (Mat.vstack2 (Y 0).ref (Mat.vstackFn n (fun k => (Y k).mov))) (Y 0).ref).freq
    ∧ (sdPreGER sd inv fs nxseg pov method n Y).S.n0
        = (sd (sdArgs fs nxseg method pov)
            (Mat.vstack2 (Y 0).ref (Mat.vstackFn n (fun k => (Y k).mov))) (Y 0).ref).S.n0
    ∧ (sdPreGER sd inv fs nxseg pov method n Y).S.n1
        = (sd (sdArgs fs nxseg method pov)
            (Mat.vstack2 (Y 0).ref (Mat.vstackFn n (fun k => (Y k).mov))) (Y 0).ref).S.n1
    ∧ (sdPreGER sd inv fs nxseg pov method n Y).S.n2
        = (sd (sdArgs fs nxseg method pov)
            (Mat.vstack2 (Y 0).ref (Mat.vstackFn n (fun k => (Y k).mov))) (Y 0).ref).S.n2
    ∧ ∀ i j f, i < (sdPreGER sd inv fs nxseg pov method n Y).S.n0 →
        j < (sdPreGER sd inv fs nxseg pov method n Y).S.n1 →
        f < (sdPreGER sd inv fs nxseg pov method n Y).S.n2 →
        (sdPreGER sd inv fs nxseg pov method n Y).S.e i j f
          = (sd (sdArgs fs nxseg method pov)
              (Mat.vstack2 (Y 0).ref (Mat.vstackFn n (fun k => (Y k).mov))) (Y 0).ref).S.e i j f := by
  obtain ⟨gf, hgf⟩ := hp.grid
  obtain ⟨g, hg⟩ := hp.entry
  have href : ∀ ii, ii < n → (Y ii).ref.r = (Y 0).ref.r := fun ii h => (hR ii h).1
  have hn1 : 0 < n := by
    rcases Nat.eq_zero_or_pos n with h | h
    · exact absurd (by rw [h]; simp) hn
    · exact h
  obtain ⟨sh0, sh1, sh2, shf⟩ := sdPreGER_shape (fs := fs) (nxseg := nxseg) (pov := pov) inv hs hm href
  have hrow : ∀ ii, ii < n → ∀ i, i < (Y 0).ref.r → (yAll Y ii).e i = (Y 0).ref.e i := by
    intro ii hii i hi
    funext t
    simp only [yAll, Mat.vstack2, href ii hii, if_pos hi]
    rw [(hR ii hii).2.2 i hi]
  have hallc : ∀ ii, ii < n → (yAll Y ii).c = (Y 0).ref.c := by
    intro ii hii; simp only [yAll, Mat.vstack2, (hR ii hii).2.1]
  have hest : ∀ ii, ii < n → ∀ i j f, i < (Y 0).ref.r → j < (Y 0).ref.r →
      (estRef sd fs nxseg pov method Y ii).S.e i j f
        = g (sdArgs fs nxseg method pov) (Y 0).ref.c (Y 0).ref.c ((Y 0).ref.e i) ((Y 0).ref.e j) f := by
    intro ii hii i j f hi hj
    simp only [estRef, hg, hallc ii hii, hrow ii hii i hi, (hR ii hii).2.1, (hR ii hii).2.2 j hj]
  have hbigrow : ∀ i, i < (Y 0).ref.r →
      (Mat.vstack2 (Y 0).ref (Mat.vstackFn n (fun k => (Y k).mov))).e i = (Y 0).ref.e i := by
    intro i hi; funext t; simp only [Mat.vstack2, if_pos hi]
  have hsingle : ∀ i j f, i < (Y 0).ref.r →
      (sd (sdArgs fs nxseg method pov)
          (Mat.vstack2 (Y 0).ref (Mat.vstackFn n (fun k => (Y k).mov))) (Y 0).ref).S.e i j f
        = g (sdArgs fs nxseg method pov) (Y 0).ref.c (Y 0).ref.c ((Y 0).ref.e i) ((Y 0).ref.e j) f := by
    intro i j f hi
    rw [hg, hbigrow i hi]; rfl
  have hmean : ∀ i j f, i < (Y 0).ref.r → j < (Y 0).ref.r →
      (meanRefRef n (Y 0).ref.r (gyy sd fs nxseg pov method Y)).e i j f
        = g (sdArgs fs nxseg method pov) (Y 0).ref.c (Y 0).ref.c ((Y 0).ref.e i) ((Y 0).ref.e j) f := by
    intro i j f hi hj
    rw [mean_e hs hm href i j f hj,
      Finset.sum_congr rfl (fun ii hii => hest ii (mem_range.mp hii) i j f hi hj)]
    rw [Finset.sum_const, card_range, nsmul_eq_mul]
    field_simp
  have hfreq : (sdPreGER sd inv fs nxseg pov method n Y).freq
      = (sd (sdArgs fs nxseg method pov)
          (Mat.vstack2 (Y 0).ref (Mat.vstackFn n (fun k => (Y k).mov))) (Y 0).ref).freq := by
    rw [shf]
    simp only [estRef, hgf, hallc (n - 1) (by omega), (hR (n - 1) (by omega)).2.1]
    rfl
  have hn2 : (sdPreGER sd inv fs nxseg pov method n Y).S.n2
      = (sd (sdArgs fs nxseg method pov)
          (Mat.vstack2 (Y 0).ref (Mat.vstackFn n (fun k => (Y k).mov))) (Y 0).ref).S.n2 := by
    rw [sh2, hfreq, hs.n2]
  refine ⟨hfreq, ?_, ?_, hn2, ?_⟩
  · rw [sh0, hs.n0]; simp only [Mat.vstack2, Mat.vstackFn_r]
  · rw [sh1, hs.n1]
  · intro i j f hi hj hf
    rw [sh1] at hj
    rw [sh0] at hi
    rw [hn2] at hf
    by_cases hlt : i < (Y 0).ref.r
    · rw [sdPreGER_ref inv hs hm i j f hlt, hmean i j f hlt hj, hsingle i j f hlt]
    · obtain ⟨ii, a, hii, ha, hia⟩ := Mat.row_decomp (fun k => (Y k).mov.r) n (i - (Y 0).ref.r) (by omega)
      have hi' : i = (Y 0).ref.r + (∑ k ∈ range ii, (Y k).mov.r) + a := by omega
      rw [hi', sdPreGER_roving inv hs hm href ii a j f hii ha]
      have e := href ii hii
      have hGii : ∃ W, IsLeftInv W (refBlock (Y 0).ref.r (gyy sd fs nxseg pov method Y) ii f) := by
        obtain ⟨W, hW⟩ := hG f hf
        refine ⟨W, isLeftInv_congr ?_ ?_ ?_ hW⟩
        · rw [← e]; exact refBlock_r hs hm ii f
        · rw [← e]; exact refBlock_c hs hm ii f
        · intro s t hs' ht
          rw [refBlock_e hs hm ii f s t (by rw [e]; exact ht), hest ii hii s t f hs' ht]
          exact (hsingle s t f hs').symm
      have hsq : (refBlock (Y 0).ref.r (gyy sd fs nxseg pov method Y) ii f).r
          = (refBlock (Y 0).ref.r (gyy sd fs nxseg pov method Y) ii f).c := by
        rw [← e, refBlock_r hs hm ii f, refBlock_c hs hm ii f]
      have hc : (refBlock (Y 0).ref.r (gyy sd fs nxseg pov method Y) ii f).c = (Y 0).ref.r := by
        rw [← e]; exact refBlock_c hs hm ii f
      have hr : (refBlock (Y 0).ref.r (gyy sd fs nxseg pov method Y) ii f).r = (Y 0).ref.r := by
        rw [← e]; exact refBlock_r hs hm ii f
      have hW := hinv _ hsq hGii
      simp only [rovingLine]
      rw [mul_inv_mul_cancel hW (by rw [hc, ← e]; exact movBlock_c hs hm ii f) ?_ a j (by rw [hc]; exact hj)]
      · rw [movBlock_e hs hm ii f a j (by rw [e]; exact hj)]
        simp only [estRef, hg]
        have h1 : (yAll Y ii).e ((Y 0).ref.r + a) = (Y ii).mov.e a := by
          funext t
          simp only [yAll, Mat.vstack2, e]
          rw [if_neg (by omega)]
          congr 1; omega
        have h2 : (Mat.vstack2 (Y 0).ref (Mat.vstackFn n (fun k => (Y k).mov))).e
            ((Y 0).ref.r + (∑ k ∈ range ii, (Y k).mov.r) + a) = (Y ii).mov.e a := by
          funext t
          simp only [Mat.vstack2]
          rw [if_neg (by omega)]
          have : (Y 0).ref.r + (∑ k ∈ range ii, (Y k).mov.r) + a - (Y 0).ref.r
              = (∑ k ∈ range ii, (Y k).mov.r) + a := by omega
          rw [this]
          exact Mat.vstackFn_e (fun k => (Y k).mov) n ii a t hii ha
        rw [h1, h2, hallc ii hii, (hR ii hii).2.1, (hR ii hii).2.2 j hj]
        rfl
      · intro s t hs' ht
        rw [hr] at hs'
        rw [hc] at ht
        simp only [TenG.line]
        rw [hmean s t f hs' ht, refBlock_e hs hm ii f s t (by rw [e]; exact ht), hest ii hii s t f hs' ht]

end rows

section split
variable {T D F K : Type} [One T] [Div T]

theorem setupFn_split (d : Setup D) (Ds : List (Mat D)) (R : List (List Nat)) (hval : ValidRefs Ds R) (i : Nat)
    (y : Mat D) (r : List Nat) (hy : Ds[i]? = some y) (hr : R[i]? = some r) :
    setupFn d (splitOf Ds R) i = splitAt y r := by
  simp only [setupFn, splitOf_eq Ds R hval, List.getD_eq_getElem?_getD, zipWith_splitAt_get Ds R i y r hy hr,
    Option.getD_some]

theorem splitOf_length (Ds : List (Mat D)) (R : List (List Nat)) (hval : ValidRefs Ds R) :
    (splitOf Ds R).length = Ds.length := by
  rw [splitOf_eq Ds R hval, List.length_zipWith, hval.1, Nat.min_self]

/-- **C04_handover — every `SD_est` call of `SD_PreGER` in terms of the user's datasets.**  For admissible
    `ref_ind` (`ValidRefs`) and a known estimator name: `gen.pre_multisetup` does not raise; `SD_PreGER` makes two
    calls per setup, in setup order, with the caller's `nxseg`, `method`, `pov` and `dt = 1/fs`; call `2i` gets
    `(y_i[:, ref_i ++ roving_i].T, y_i[:, ref_i].T)`, call `2i+1` gets `(y_i[:, ref_i ++ roving_i].T,
    y_i[:, roving_i].T)` — `ref_i` the listed order, `roving_i` the remaining channels ascending. -/
theorem C04_handover (d : Setup D) (Ds : List (Mat D)) (R : List (List Nat)) (hval : ValidRefs Ds R)
    (fs : T) (nxseg : Nat) (pov : T) (method : SdMethod) (hm : method ≠ .other) :
    preMultisetupRec Ds R = .ok (splitOf Ds R) ∧
    (sdCallsOf d (splitOf Ds R) fs nxseg pov method).length = 2 * Ds.length ∧
    ∀ (i : Nat) (y : Mat D) (r : List Nat), Ds[i]? = some y → R[i]? = some r →
      (sdCallsOf d (splitOf Ds R) fs nxseg pov method)[i * 2 + 0]?
        = some (⟨1 / fs, nxseg, method, pov⟩, gatherT y (r ++ rovingCols y.c r), gatherT y r) ∧
      (sdCallsOf d (splitOf Ds R) fs nxseg pov method)[i * 2 + 1]?
        = some (⟨1 / fs, nxseg, method, pov⟩, gatherT y (r ++ rovingCols y.c r), gatherT y (rovingCols y.c r)) := by
  have hcalls : sdCallsOf d (splitOf Ds R) fs nxseg pov method
      = (List.range Ds.length).flatMap fun ii =>
          [callArgs fs nxseg pov method (setupFn d (splitOf Ds R)) ii false,
           callArgs fs nxseg pov method (setupFn d (splitOf Ds R)) ii true] := by
    cases method with
    | per => simp only [sdCallsOf, sdPreGERcalls, splitOf_length Ds R hval]
    | cor => simp only [sdCallsOf, sdPreGERcalls, splitOf_length Ds R hval]
    | other => exact absurd rfl hm
  refine ⟨by rw [splitOf_eq Ds R hval]; exact preMultisetupRec_ok Ds R hval, ?_, ?_⟩
  · rw [hcalls, flatMap_blocks_length Ds.length 2 _ (fun _ => rfl), Nat.mul_comm]
  · intro i y r hy hr
    have hi : i < Ds.length := (List.getElem?_eq_some_iff.mp hy).1
    have hY := setupFn_split d Ds R hval i y r hy hr
    rw [hcalls]
    refine ⟨?_, ?_⟩
    · rw [flatMap_blocks_get Ds.length 2 _ (fun _ => rfl) i 0 hi (by omega)]
      simp only [callArgs, hY, splitAt, vstack_gather]
      rfl
    · rw [flatMap_blocks_get Ds.length 2 _ (fun _ => rfl) i 1 hi (by omega)]
      simp only [callArgs, hY, splitAt, vstack_gather]
      rfl

end split

section merged
variable {T D F K : Type} [One T] [Div T] [Field K]
variable {sd : Estimator T D F K} {inv : Mat K → Mat K} {fs : T} {nxseg : Nat} {pov : T} {method : SdMethod}

/-- all sensors of the one recording as the merged matrix orders them: the references of dataset 0 in the listed
    order, then every dataset's roving channels (`mov` block of the split: ascending channel order), setup by
    setup -/
def allSensors (d : Setup D) (Ds : List (Mat D)) (R : List (List Nat)) (y0 : Mat D) (r0 : List Nat) : Mat D :=
  Mat.vstack2 (gatherT y0 r0) (Mat.vstackFn Ds.length (fun k => (setupFn d (splitOf Ds R) k).mov))

/-- **C04_identical_refs_split — one recording cut into setups, from the user's datasets and `ref_ind`.**
    `Ds` the datasets handed to `MultiSetup_PreGER` (samples × channels), `R` the `ref_ind` lists (any order,
    `ValidRefs`).  Hypothesis "identical reference records" (`hsame`): every dataset has as many references and
    samples as dataset 0, and its `a`-th LISTED reference channel carries the same record as dataset 0's `a`-th
    listed reference channel (records are compared as functions of the sample index, the convention of
    `C04_identical_refs`).  `hG`: the reference block of the single-setup estimate is invertible at every line.
    Then `SD_PreGER(pre_multisetup(Ds, R), fs, nxseg, pov, method)` — `sdPreGER` on `splitOf Ds R` — has the
    frequency grid, the shape and every entry of `SD_est(allSensors, y_0[:, ref_0].T, 1/fs, nxseg, method, pov)`;
    block `k` of `allSensors` after the references is `y_k[:, roving_k].T`. -/
theorem C04_identical_refs_split (hs : SdShape sd) (hp : Pairwise sd) (hinv : InvContract inv)
    (hm : method ≠ .other) (d : Setup D) (Ds : List (Mat D)) (R : List (List Nat)) (hval : ValidRefs Ds R)
    (hn : ((Ds.length : Nat) : K) ≠ 0)
    (y0 : Mat D) (r0 : List Nat) (hy0 : Ds[0]? = some y0) (hr0 : R[0]? = some r0)
    (hsame : ∀ (i : Nat) (y : Mat D) (r : List Nat), Ds[i]? = some y → R[i]? = some r →
      r.length = r0.length ∧ y.r = y0.r ∧
      ∀ a, a < r0.length → ∀ t, y.e t (r.getD a 0) = y0.e t (r0.getD a 0))
    (hG : ∀ f, f < (sd (sdArgs fs nxseg method pov) (allSensors d Ds R y0 r0) (gatherT y0 r0)).S.n2 →
      ∃ W, IsLeftInv W ⟨r0.length, r0.length, fun i j =>
        (sd (sdArgs fs nxseg method pov) (allSensors d Ds R y0 r0) (gatherT y0 r0)).S.e i j f⟩) :
    preMultisetupRec Ds R = .ok (splitOf Ds R) ∧
    (∀ (k : Nat) (y : Mat D) (r : List Nat), Ds[k]? = some y → R[k]? = some r →
      (setupFn d (splitOf Ds R) k).ref = gatherT y r ∧
      (setupFn d (splitOf Ds R) k).mov = gatherT y (rovingCols y.c r)) ∧
    (sdPreGER sd inv fs nxseg pov method Ds.length (setupFn d (splitOf Ds R))).freq
        = (sd (sdArgs fs nxseg method pov) (allSensors d Ds R y0 r0) (gatherT y0 r0)).freq ∧
    (sdPreGER sd inv fs nxseg pov method Ds.length (setupFn d (splitOf Ds R))).S.n0
        = (sd (sdArgs fs nxseg method pov) (allSensors d Ds R y0 r0) (gatherT y0 r0)).S.n0 ∧
    (sdPreGER sd inv fs nxseg pov method Ds.length (setupFn d (splitOf Ds R))).S.n1
        = (sd (sdArgs fs nxseg method pov) (allSensors d Ds R y0 r0) (gatherT y0 r0)).S.n1 ∧
    (sdPreGER sd inv fs nxseg pov method Ds.length (setupFn d (splitOf Ds R))).S.n2
        = (sd (sdArgs fs nxseg method pov) (allSensors d Ds R y0 r0) (gatherT y0 r0)).S.n2 ∧
    ∀ i j f, i < (sdPreGER sd inv fs nxseg pov method Ds.length (setupFn d (splitOf Ds R))).S.n0 →
      j < (sdPreGER sd inv fs nxseg pov method Ds.length (setupFn d (splitOf Ds R))).S.n1 →
      f < (sdPreGER sd inv fs nxseg pov method Ds.length (setupFn d (splitOf Ds R))).S.n2 →
      (sdPreGER sd inv fs nxseg pov method Ds.length (setupFn d (splitOf Ds R))).S.e i j f
        = (sd (sdArgs fs nxseg method pov) (allSensors d Ds R y0 r0) (gatherT y0 r0)).S.e i j f := by
  have h0 : setupFn d (splitOf Ds R) 0 = splitAt y0 r0 := setupFn_split d Ds R hval 0 y0 r0 hy0 hr0
  have hsplit : ∀ (k : Nat) (y : Mat D) (r : List Nat), Ds[k]? = some y → R[k]? = some r →
      (setupFn d (splitOf Ds R) k).ref = gatherT y r ∧
      (setupFn d (splitOf Ds R) k).mov = gatherT y (rovingCols y.c r) := by
    intro k y r hy hr
    rw [setupFn_split d Ds R hval k y r hy hr]
    exact ⟨rfl, rfl⟩
  have hR : ∀ ii, ii < Ds.length →
      (setupFn d (splitOf Ds R) ii).ref.r = (setupFn d (splitOf Ds R) 0).ref.r ∧
      (setupFn d (splitOf Ds R) ii).ref.c = (setupFn d (splitOf Ds R) 0).ref.c ∧
      ∀ i, i < (setupFn d (splitOf Ds R) 0).ref.r →
        (setupFn d (splitOf Ds R) ii).ref.e i = (setupFn d (splitOf Ds R) 0).ref.e i := by
    intro ii hii
    have hy : Ds[ii]? = some Ds[ii] := List.getElem?_eq_getElem hii
    have hr : R[ii]? = some (R[ii]'(by rw [hval.1]; exact hii)) := List.getElem?_eq_getElem (by rw [hval.1]; exact hii)
    obtain ⟨e1, e2, e3⟩ := hsame ii _ _ hy hr
    rw [(hsplit ii _ _ hy hr).1, h0]
    refine ⟨e1, e2, fun i hi => ?_⟩
    funext t
    exact e3 i hi t
  have key := C04_identical_refs_rows (sd := sd) (inv := inv) (fs := fs) (nxseg := nxseg) (pov := pov)
    (method := method) (n := Ds.length) (Y := setupFn d (splitOf Ds R)) hs hp hinv hm hn hR
  rw [h0] at key
  exact ⟨by rw [splitOf_eq Ds R hval]; exact preMultisetupRec_ok Ds R hval, hsplit, key hG⟩

end merged

/-! ### with the library's own estimator model (C13's `SD_est`, both methods) -/
section c13
open PV.C04C13
variable {K : Type} [Field K] [LinearOrder K] [IsStrictOrderedRing K]

/-- **C04_identical_refs_split_sd.**  `C04_identical_refs_split` for C13's model of `fdd.SD_est` (`sdEst tb`:
    Welch/Hann periodogram for `"per"`, correlogram chain for `"cor"`; its shape and pairing contracts are
    `sdEst_shape`, `sdEst_pairwise`): hypotheses left are the inverse contract, the identical reference records
    and invertibility of the single-setup reference block at every line. -/
theorem C04_identical_refs_split_sd (tb : Tables K) {inv : Mat (CxS K) → Mat (CxS K)} {fs : K} {nxseg : Nat}
    {pov : K} (method : SdMethod) (hm : method ≠ .other) (hinv : InvContract inv)
    (d : Setup K) (Ds : List (Mat K)) (R : List (List Nat)) (hval : ValidRefs Ds R) (hD : Ds ≠ [])
    (y0 : Mat K) (r0 : List Nat) (hy0 : Ds[0]? = some y0) (hr0 : R[0]? = some r0)
    (hsame : ∀ (i : Nat) (y : Mat K) (r : List Nat), Ds[i]? = some y → R[i]? = some r →
      r.length = r0.length ∧ y.r = y0.r ∧
      ∀ a, a < r0.length → ∀ t, y.e t (r.getD a 0) = y0.e t (r0.getD a 0))
    (hG : ∀ f, f < (sdEst tb (sdArgs fs nxseg method pov) (allSensors d Ds R y0 r0) (gatherT y0 r0)).S.n2 →
      ∃ W, IsLeftInv W ⟨r0.length, r0.length, fun i j =>
        (sdEst tb (sdArgs fs nxseg method pov) (allSensors d Ds R y0 r0) (gatherT y0 r0)).S.e i j f⟩) :
    (sdPreGER (sdEst tb) inv fs nxseg pov method Ds.length (setupFn d (splitOf Ds R))).freq
        = (sdEst tb (sdArgs fs nxseg method pov) (allSensors d Ds R y0 r0) (gatherT y0 r0)).freq ∧
    ∀ i j f, i < (sdPreGER (sdEst tb) inv fs nxseg pov method Ds.length (setupFn d (splitOf Ds R))).S.n0 →
      j < (sdPreGER (sdEst tb) inv fs nxseg pov method Ds.length (setupFn d (splitOf Ds R))).S.n1 →
      f < (sdPreGER (sdEst tb) inv fs nxseg pov method Ds.length (setupFn d (splitOf Ds R))).S.n2 →
      (sdPreGER (sdEst tb) inv fs nxseg pov method Ds.length (setupFn d (splitOf Ds R))).S.e i j f
        = (sdEst tb (sdArgs fs nxseg method pov) (allSensors d Ds R y0 r0) (gatherT y0 r0)).S.e i j f := by
  have hn : 0 < Ds.length := List.length_pos_iff.mpr hD
  obtain ⟨_, _, h1, _, _, _, h5⟩ := C04_identical_refs_split (sd := sdEst tb) (inv := inv) (fs := fs)
    (nxseg := nxseg) (pov := pov) (method := method) (sdEst_shape tb) (sdEst_pairwise tb) hinv hm d Ds R hval
    (natCast_ne_zero hn) y0 r0 hy0 hr0 hsame hG
  exact ⟨h1, h5⟩

end c13

/-! ### Non-vacuity: the toy estimator and inverse of `Props/C04.lean`, two datasets over ℚ with the shared
reference record `(1, 2)` at channel 0 of dataset 0 (2 channels) and at channel 1 of dataset 1 (3 channels) -/
section nonvacuity
open PV.C04 (exSd exShape exPair exInv exInv_contract exY one_by_one)

def exD0 : Mat ℚ := ⟨2, 2, fun t c => if c = 0 then (t : ℚ) + 1 else 2 - (t : ℚ)⟩
def exD1 : Mat ℚ := ⟨2, 3, fun t c => if c = 1 then (t : ℚ) + 1 else if c = 0 then 3 else (t : ℚ) + 3⟩
def exDs : List (Mat ℚ) := [exD0, exD1]
def exR : List (List Nat) := [[0], [1]]
def exDflt : Setup ℚ := ⟨⟨0, 0, fun _ _ => 0⟩, ⟨0, 0, fun _ _ => 0⟩⟩

theorem exValid : ValidRefs exDs exR := by
  refine ⟨rfl, fun i y r hy hr => ?_⟩
  match i with
  | 0 =>
    obtain rfl : exD0 = y := by simpa [exDs] using hy
    obtain rfl : [0] = r := by simpa [exR] using hr
    exact ⟨by decide, by decide, by decide, by decide⟩
  | 1 =>
    obtain rfl : exD1 = y := by simpa [exDs] using hy
    obtain rfl : [1] = r := by simpa [exR] using hr
    exact ⟨by decide, by decide, by decide, by decide⟩
  | i + 2 => simp [exDs] at hy

example := C04_identical_refs_rows (K := ℚ) (sd := exSd) (inv := exInv) (fs := 100) (nxseg := 8) (pov := 1/4)
    (method := .per) (n := 2) (Y := exY) exShape exPair exInv_contract (by decide) (by norm_num)
    (fun _ _ => ⟨rfl, rfl, fun _ _ => rfl⟩)
    (fun f _ => one_by_one _ rfl rfl (by
      show (exSd _ _ (exY 0).ref).S.e 0 0 f ≠ 0
      rw [PV.C04.exRefSpec (sdArgs 100 8 .per (1/4))
        (Mat.vstack2 (exY 0).ref (Mat.vstackFn 2 fun k => (exY k).mov)) rfl rfl f]
      simp only [sdArgs]
      positivity))

example := C04_handover (T := ℚ) exDflt exDs exR exValid 100 8 (1/4) .cor (by decide)

/-- the split of the example, the roving blocks in setup order: one roving channel, then two -/
example : (splitOf exDs exR).map (fun s => (s.ref.r, s.mov.r)) = [(1, 1), (1, 2)] := by decide

example := C04_identical_refs_split (K := ℚ) (sd := exSd) (inv := exInv) (fs := 100) (nxseg := 8) (pov := 1/4)
    (method := .per) exShape exPair exInv_contract (by decide) exDflt exDs exR exValid (by norm_num [exDs])
    exD0 [0] rfl rfl
    (by
      intro i y r hy hr
      match i with
      | 0 =>
        obtain rfl : exD0 = y := by simpa [exDs] using hy
        obtain rfl : [0] = r := by simpa [exR] using hr
        exact ⟨rfl, rfl, fun _ _ _ => rfl⟩
      | 1 =>
        obtain rfl : exD1 = y := by simpa [exDs] using hy
        obtain rfl : [1] = r := by simpa [exR] using hr
        refine ⟨rfl, rfl, fun a ha t => ?_⟩
        obtain rfl : a = 0 := by simpa using ha
        simp [exD1, exD0]
      | i + 2 => simp [exDs] at hy)
    (fun f _ => one_by_one _ rfl rfl (by
      show (exSd _ (allSensors exDflt exDs exR exD0 [0]) (gatherT exD0 [0])).S.e 0 0 f ≠ 0
      have : (exSd (sdArgs (100 : ℚ) 8 .per (1/4)) (allSensors exDflt exDs exR exD0 [0]) (gatherT exD0 [0])).S.e 0 0 f
          = 5 * ((f : ℚ) + 1 + 1/4) := by
        simp only [exSd, allSensors, Mat.vstack2, gatherT, exD0, sdArgs, Finset.sum_range_succ, Finset.sum_range_zero]
        norm_num
      rw [this]
      positivity))

end nonvacuity

/-! ### Non-vacuity of `C04_identical_refs_split_sd`: the 8-sample recording of `Props/C04C13.lean` as two datasets,
the reference at channel 1 of dataset 0 and at channel 0 of dataset 1 -/
section nonvacuity_sd
open PV.C13 PV.C04C13

def sdD0 : Mat ℚ := ⟨8, 2, fun t c => if c = 1 then exX t else exYd t⟩
def sdD1 : Mat ℚ := ⟨8, 2, fun t c => if c = 0 then exX t else (t : ℚ) * t - 3⟩
def sdDs : List (Mat ℚ) := [sdD0, sdD1]
def sdR : List (List Nat) := [[1], [0]]

theorem sdValid : ValidRefs sdDs sdR := by
  refine ⟨rfl, fun i y r hy hr => ?_⟩
  match i with
  | 0 =>
    obtain rfl : sdD0 = y := by simpa [sdDs] using hy
    obtain rfl : [1] = r := by simpa [sdR] using hr
    exact ⟨by decide, by decide, by decide, by decide⟩
  | 1 =>
    obtain rfl : sdD1 = y := by simpa [sdDs] using hy
    obtain rfl : [0] = r := by simpa [sdR] using hr
    exact ⟨by decide, by decide, by decide, by decide⟩
  | i + 2 => simp [sdDs] at hy

theorem sdSame : ∀ (i : Nat) (y : Mat ℚ) (r : List Nat), sdDs[i]? = some y → sdR[i]? = some r →
    r.length = [1].length ∧ y.r = sdD0.r ∧ ∀ a, a < [1].length → ∀ t, y.e t (r.getD a 0) = sdD0.e t ([1].getD a 0) := by
  intro i y r hy hr
  match i with
  | 0 =>
    obtain rfl : sdD0 = y := by simpa [sdDs] using hy
    obtain rfl : [1] = r := by simpa [sdR] using hr
    exact ⟨rfl, rfl, fun _ _ _ => rfl⟩
  | 1 =>
    obtain rfl : sdD1 = y := by simpa [sdDs] using hy
    obtain rfl : [0] = r := by simpa [sdR] using hr
    refine ⟨rfl, rfl, fun a ha t => ?_⟩
    obtain rfl : a = 0 := by simpa using ha
    simp [sdD1, sdD0]
  | i + 2 => simp [sdDs] at hy

theorem sd_per_ne : ∀ f, f < 3 →
    (sdEst exTb (sdArgs 1 4 .per (1/2)) (allSensors exDflt sdDs sdR sdD0 [1]) (gatherT sdD0 [1])).S.e 0 0 f ≠ 0 := by
  decide +kernel

theorem sd_cor_ne : ∀ f,
    f < (sdEst exTb (sdArgs 1 4 .cor (1/2)) (allSensors exDflt sdDs sdR sdD0 [1]) (gatherT sdD0 [1])).S.n2 →
    (sdEst exTb (sdArgs 1 4 .cor (1/2)) (allSensors exDflt sdDs sdR sdD0 [1]) (gatherT sdD0 [1])).S.e 0 0 f ≠ 0 := by
  decide +kernel

example := C04_identical_refs_split_sd exTb (inv := C04.exInv) (fs := 1) (nxseg := 4) (pov := 1/2) .per (by decide)
  C04.exInv_contract exDflt sdDs sdR sdValid (by decide) sdD0 [1] rfl rfl sdSame
  (fun f hf => C04.one_by_one _ rfl rfl (sd_per_ne f hf))

example := C04_identical_refs_split_sd exTb (inv := C04.exInv) (fs := 1) (nxseg := 4) (pov := 1/2) .cor (by decide)
  C04.exInv_contract exDflt sdDs sdR sdValid (by decide) sdD0 [1] rfl rfl sdSame
  (fun f hf => C04.one_by_one _ rfl rfl (sd_cor_ne f hf))

end nonvacuity_sd

end PV.C04Split
