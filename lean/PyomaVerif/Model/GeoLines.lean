import PyomaVerif.Model.Geo
/-!
# The zero-based index arrays CONSUMED (C19 clause 9): `plot.plt_lines` as called by `Geo1MplPlotter.plot_mode`,
`Geo2MplPlotter.plot_mode` and `MplPlotter._plot_background`

Core Lean only.  `plt_lines(ax, nodes_coord, lines, …)` draws, for every row `ii` of `lines`, one segment from
`nodes_coord[lines[ii, 0]]` to `nodes_coord[lines[ii, 1]]` — numpy indexing of an integer array: a negative index
counts from the end, an index outside `[-n, n)` raises `IndexError`.  Domain: the index sheets hold integers (an
integer-typed array; a NaN or a string in the sheet makes the array float / object and every indexing an `IndexError`,
which is what `pyIndex` returns for a cell that is not an integer).
-/
namespace PV
namespace Geo

/-- `nodes_coord[c]` for an integer `c` and `n = len(nodes_coord)`: the row position -/
def pyIndex (n : Nat) : Cell → Except GeoErr Nat
  | .num q =>
    if q.den != 1 then .error .indexError
    else if 0 ≤ q.num then (if q.num.toNat < n then .ok q.num.toNat else .error .indexError)
    else if q.num.natAbs ≤ n then .ok (n - q.num.natAbs) else .error .indexError
  | _ => .error .indexError

/-- a drawn segment: start point, end point -/
abbrev Seg := List (Option Rat) × List (Option Rat)

/-- one pass of the loop of `plt_lines`: `lines[ii, 0]`, `lines[ii, 1]` (`IndexError` for a row shorter than 2) -/
def segOf (pts : List (List (Option Rat))) (row : List Cell) : Except GeoErr Seg :=
  match row with
  | a :: b :: _ =>
    match pyIndex pts.length a with
    | .error e => .error e
    | .ok i =>
      match pyIndex pts.length b with
      | .error e => .error e
      | .ok j => .ok (pts.getD i [], pts.getD j [])
  | _ => .error .indexError

/-- `plt_lines(ax, pts, lines, color=…)`: the segments, in the order of the rows of `lines` -/
def pltLines (pts : List (List (Option Rat))) (lines : List (List Cell)) : Except GeoErr (List Seg) :=
  lines.mapM (segOf pts)

/-- `if geo.<lines> is not None: plt_lines(ax, pts, geo.<lines>, …)` -/
def optLines (pts : List (List (Option Rat))) : Option (List (List Cell)) → Except GeoErr (List Seg)
  | none => .ok []
  | some l => pltLines pts l

/-- `_plot_background`: the background lines join background nodes, and are drawn only when there are nodes -/
def bgSegs (bgNodes bgLines : Option (List (List Cell))) : Except GeoErr (List Seg) :=
  match bgNodes with
  | none => .ok []
  | some nd => optLines (nd.map fun r => r.map cellVal) bgLines

/-- the line artists of a mode-shape plot: background lines, then sensor lines -/
structure Lines where
  bg : List Seg
  sens : List Seg
  deriving DecidableEq, Repr

/-- `Geo2MplPlotter.plot_mode`: `newpoints` first (`plotMode2`), then `_plot_background`, then
    `plt_lines(ax, newpoints, self.geo.sens_lines, …)` — the sensor lines join the DISPLACED points -/
def plotMode2Lines (phi : List Rat) (scaleF : Rat) (g : Out2) (p m s : Tbl) : Except GeoErr Lines :=
  match plotMode2 phi scaleF g.names p m g.cstr s with
  | .error e => .error e
  | .ok np =>
    match bgSegs g.bgNodes g.bgLines with
    | .error e => .error e
    | .ok bg =>
      match optLines np g.lines with
      | .error e => .error e
      | .ok sl => .ok ⟨bg, sl⟩

/-- `Geo1MplPlotter.plot_mode`: nodes and arrows first (`plotMode1`), then `_plot_background`, then
    `plt_lines(ax, sens_coord, self.geo.sens_lines, …)` — the sensor lines join the sensor positions (rows of the
    re-ordered coordinate table, columns x, y, z) -/
def plotMode1Lines (phi : List Rat) (scaleF : Rat) (g : Out1) : Except GeoErr Lines :=
  match plotMode1 g.coordCols g.coord g.dir phi scaleF with
  | .error e => .error e
  | .ok arrows =>
    match bgSegs g.bgNodes g.bgLines with
    | .error e => .error e
    | .ok bg =>
      match optLines (arrows.map (·.1)) g.lines with
      | .error e => .error e
      | .ok sl => .ok ⟨bg, sl⟩

/-- `setup.def_geo2(...)` then `setup.plot_mode_geo2_mpl(res, mode_nr, scaleF)`: the line artists -/
def defPlotGeo2Lines (nm : NamesArg) (pts map : Tbl) (cstr sign lines surf bgNodes bgLines bgSurf : Option ArrArg)
    (refInd : Option (List (List Nat))) (phi : List Rat) (scaleF : Rat) : Except GeoErr Lines :=
  match defGeo2 nm pts map cstr sign lines surf bgNodes bgLines bgSurf refInd with
  | .error e => .error e
  | .ok g =>
    match g.pts, g.map, g.sign with
    | some p, some m, some s => plotMode2Lines phi scaleF g p m s
    | _, _, _ => .error .attributeError

/-- `setup.def_geo1(...)` then `setup.plot_mode_geo1(res, mode_nr, scaleF)`: the line artists -/
def defPlotGeo1Lines (nm : NamesArg) (coord : Tbl) (dir : ArrArg) (lines bgNodes bgLines bgSurf : Option ArrArg)
    (refInd : Option (List (List Nat))) (phi : List Rat) (scaleF : Rat) : Except GeoErr Lines :=
  match defGeo1 nm coord dir lines bgNodes bgLines bgSurf refInd with
  | .error e => .error e
  | .ok g => plotMode1Lines phi scaleF g

end Geo
end PV
