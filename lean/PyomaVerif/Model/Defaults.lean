import PyomaVerif.Generated.Defaults
import PyomaVerif.Model.Wiring
/-! Queries over the generated table of default values (core Lean only).  What a caller who leaves a parameter out
gets: through a class method (the method the class RESOLVES to, `PV.Wiring.resolve`), through a module-level
function, and as a field of the run-parameter class the algorithm class names in `RunParamCls`. -/
namespace PV.Defaults
open PV.DefaultsTbl PV.Gen.Defaults

/-- default of a field of a `*RunParams` class (inherited fields included; `hc.xi_max` = entry of a dict default) -/
def fieldDefault (rp field : String) : Option Val :=
  (fields.find? (fun r => r.cls == rp && r.field == field)).map (·.val)

/-- the run-parameter class an instance of algorithm class `c` builds from keyword arguments -/
def runParamCls (c : String) : Option String := PV.Wiring.attrOf c "RunParamCls"

/-- default of a run parameter as an instance of algorithm class `c` sees it -/
def rpDefault (c field : String) : Option Val := (runParamCls c).bind (fieldDefault · field)

/-- default of parameter `p` of method `m` looked up on an instance of `c` (the defining class is resolved
    through the class table: `FSDD().mpe` is `EFDD.mpe`) -/
def methodDefault (c m p : String) : Option Val :=
  (PV.Wiring.resolve c m).bind fun d =>
    (methodParams.find? (fun r => r.cls == d && r.method == m && r.param == p)).map (·.val)

/-- the parameters (without self) of method `m` as an instance of `c` sees it, in signature order -/
def methodSig (c m : String) : Option (List String) :=
  (PV.Wiring.resolve c m).map fun d => (methodParams.filter (fun r => r.cls == d && r.method == m)).map (·.param)

/-- default of parameter `p` of the module-level function `fn` (`"fdd.EFDD_mpe"`) -/
def funcDefault (fn p : String) : Option Val :=
  (funcParams.find? (fun r => r.fn == fn && r.param == p)).map (·.val)

/-- every listed (parameter, value) is the default of the method as seen from EVERY listed class -/
def methodDefaults (cs : List String) (m : String) (want : List (String × Val)) : Bool :=
  cs.all fun c => want.all fun pv => methodDefault c m pv.1 == some pv.2

def funcDefaults (fn : String) (want : List (String × Val)) : Bool :=
  want.all fun pv => funcDefault fn pv.1 == some pv.2

def rpDefaults (cs : List String) (want : List (String × Val)) : Bool :=
  cs.all fun c => want.all fun pv => rpDefault c pv.1 == some pv.2

/-- the parameters of `fn` that HAVE a default are exactly the listed ones (a parameter that gains or loses a
    default changes which calls are legal) -/
def funcDefaulted (fn : String) : List String :=
  ((funcParams.filter (fun r => r.fn == fn && r.val != .required && r.val != .var)).map (·.param))

def dedup (l : List Val) : List Val := l.foldl (fun acc v => if acc.contains v then acc else acc ++ [v]) []

/-- the distinct constants the label table `Lab` is compared with (`==`) in the function -/
def labelTests (fn : String) : List Val :=
  dedup ((labelLits.filter (fun r => r.fn == fn && r.kind == "test:==")).map (·.val))

/-- every comparison of `Lab` in the function is an equality test -/
def labelTestsAllEq (fn : String) : Bool :=
  (labelLits.filter (fun r => r.fn == fn && r.kind != "store")).all (·.kind == "test:==")

/-- the distinct constants the function stores into `Lab` -/
def labelStores (fn : String) : List Val :=
  dedup ((labelLits.filter (fun r => r.fn == fn && r.kind == "store")).map (·.val))

/-- the one label value the function selects (`np.where(Lab == v, …)`), when it selects exactly one -/
def labelInt (fn : String) : Option Int :=
  match labelTests fn with
  | [.int i] => if labelTestsAllEq fn then some i else none
  | _ => none

/-- the members of a `*RunParams` class body that are not fields (validators, methods, plain assignments) -/
def extrasOf (rp : String) : List String := (fieldExtras.filter (·.1 == rp)).map (·.2.1)

/-- a numeric default of the hard / soft criteria dictionaries as a rational -/
def rpRat (c field : String) : Option Rat := (rpDefault c field).bind Val.toRat?

end PV.Defaults
