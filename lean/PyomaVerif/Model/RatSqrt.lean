/-!
# An integer-arithmetic square root on `Rat` (core Lean only)

The driver's stand-in for the square root inside the closed-form eigenvalues of a symmetric 2×2
matrix when the model runs over exact rationals (op `c18_mpc_whole`): there is no exact square root
in `ℚ`; this one is exact on squares and within `2⁻¹⁹⁸` (relative) elsewhere.
-/
namespace PV

/-- `√(p/q) = √(p·q)/q`, with `p·q` scaled to at least 400 bits before the integer square root
    (floor; relative error below `2⁻¹⁹⁹`); `0` for `x ≤ 0`. -/
def ratSqrt (x : Rat) : Rat :=
  if x ≤ 0 then 0 else
  let p := x.num.toNat
  let q := x.den
  let m := p * q
  let bits := m.log2
  let k := if bits < 400 then (400 - bits) / 2 + 1 else 0
  let r := Nat.sqrt (m * 4 ^ k)
  (r : Rat) / ((q * 2 ^ k : Nat) : Rat)

end PV
