import PyomaVerif.Model.HcProg
/-!
# `gen.HC_damp`, `gen.HC_cov`, `gen.HC_conj`, `gen.HC_phi_comp`, `gen.applymask` on NaN-bearing
tables (core Lean only).  A table is a list of rows; NaN is `none`.  Every float is a
rational, and these functions only compare and multiply by 0/1, so the rational model is
exact for every float input.
-/
namespace PV.HcFn

abbrev T (α : Type) := List (List (Option α))

/-- `mask = np.logical_and(damp < max_damp, damp > 0)` on one cell (NaN compares False). -/
def dampMask (mx : Rat) : Option Rat → Bool
  | none => false
  | some v => decide (v < mx) && decide (v > 0)

/-- `filt = damp * mask; filt[filt == 0] = nan` on one cell. -/
def dampFilt (mx : Rat) (x : Option Rat) : Option Rat :=
  match x with
  | none => none
  | some v =>
    let p := v * (if dampMask mx (some v) then 1 else 0)
    if p = 0 then none else some p

def hcDamp (t : T Rat) (mx : Rat) : T Rat × List (List Bool) :=
  (t.map (·.map (dampFilt mx)), t.map (·.map (dampMask mx)))

/-- `mask = Fn_cov < max_cov` on one cell. -/
def covMask (mx : Rat) : Option Rat → Bool
  | none => false
  | some v => decide (v < mx)

/-- `filt_cov = np.where(mask, Fn_cov, nan)` (the code after the repair of F23). -/
def covFilt (mx : Rat) (x : Option Rat) : Option Rat :=
  if covMask mx x then x else none

/-- the pre-repair variant: `filt = Fn_cov * mask; filt[filt == 0] = nan` -/
def covFiltOld (mx : Rat) (x : Option Rat) : Option Rat :=
  match x with
  | none => none
  | some v =>
    let p := v * (if covMask mx (some v) then 1 else 0)
    if p = 0 then none else some p

def hcCov (t : T Rat) (mx : Rat) : T Rat × List (List Bool) :=
  (t.map (·.map (covFilt mx)), t.map (·.map (covMask mx)))

/-- complex numbers as pairs -/
abbrev C := Rat × Rat
def cconj (z : C) : C := (z.1, -z.2)

/-- all non-NaN entries of the table (`set(lambd.flatten())`; NaN is never found in it) -/
def entries (t : T C) : List C := (t.flatMap id).filterMap id

def conjMask (t : T C) : Option C → Bool
  | none => false
  | some z => decide (z ∈ entries t) && decide (cconj z ∈ entries t)

def hcConj (t : T C) : T C × List (List Bool) :=
  (t.map (·.map fun x => if conjMask t x then x else none), t.map (·.map (conjMask t)))

/-- `HC_phi_comp` given the per-cell indicator values the code computes
    (`none` = NaN or an exception inside MPD/MPC → mask 0). -/
def mpdMask (lim : Rat) : Option Rat → Bool
  | none => false
  | some v => decide (v ≤ lim)
def mpcMask (lim : Rat) : Option Rat → Bool
  | none => false
  | some v => decide (v ≥ lim)

def hcPhiComp (mpd mpc : T Rat) (mpcLim mpdLim : Rat) : List (List Bool) × List (List Bool) :=
  (mpd.map (·.map (mpdMask mpdLim)), mpc.map (·.map (mpcMask mpcLim)))

/-- `np.where(mask, arr, nan)` for a 2-D array (3-D arrays: the same mask for every component,
    the cell then is the whole mode-shape vector). -/
def applymask {α : Type} (t : T α) (m : List (List Bool)) : T α :=
  List.zipWith (fun row mrow => List.zipWith (fun x b => if b then x else none) row mrow) t m

/-! ## Bridge to the cell-function tables of `Model/HcProg.lean` (additions of the depth round)

`Model/HcProg.lean` interprets a `run()` body over tables `Idx → Option Val`; the functions above
work on lists of rows.  With `Idx = Nat × Nat` (pole row, order column): -/

/-- cell `(i, j)` of a list-of-rows table; NaN and "outside the table" are both `none` -/
def cellAt {α : Type} (t : T α) (x : Nat × Nat) : Option α :=
  ((t[x.1]?).bind (fun row => row[x.2]?)).join

/-- cell `(i, j)` of a Boolean mask; outside the mask: `false` -/
def maskAt (m : List (List Bool)) (x : Nat × Nat) : Bool :=
  ((m[x.1]?).bind (fun row => row[x.2]?)).getD false

/-- the `r × c` list-of-rows table of a cell function (inverse of `cellAt` on `r × c` tables) -/
def gridOf {α : Type} (r c : Nat) (f : Nat × Nat → Option α) : T α :=
  (List.range r).map fun i => (List.range c).map fun j => f (i, j)

/-- the table has at most `r` rows of at most `c` cells -/
def Fits {α : Type} (r c : Nat) (t : T α) : Prop := t.length ≤ r ∧ ∀ row ∈ t, row.length ≤ c

/-- **`gen.HC_conj` as the whole-table criterion of the `run()` interpreter**: the table is a
    cell function on an `r × c` grid; the mask at a cell is `conjMask` of the grid's list-of-rows
    table (the function the driver runs as `hc_conj`). -/
def conjGrid (r c : Nat) (t : Nat × Nat → Option C) (x : Nat × Nat) : Bool :=
  conjMask (gridOf r c t) (t x)

end PV.HcFn
