import PyomaVerif.Model.Fdd
/-!
# `fdd.SDOF_bellandMS` and the part of `fdd.EFDD_mpe` after the inverse FFT — core Lean only

Mirrors `src/pyoma2/functions/fdd.py:319-590` (after the repair of F22: the EFDD branch
squares the stored square root of the singular value).  The SVD (`Sval`, `Svec`), the
inverse FFT (`corr`), `log`, `sqrt` and `π` are parameters.
-/
namespace PV.Efdd
open PV PV.Fdd

inductive Method | FSDD | EFDD | other
  deriving DecidableEq, Repr
inductive SyMethod | cor | per | other
  deriving DecidableEq, Repr

section bell
variable {K : Type} [Zero K] [Add K] [Sub K] [Mul K] [Div K] [Neg K] [LT K] [DecidableLT K]
  [NatCast K]

/-- `np.conj(x).T @ a` for two vectors -/
def cdot (n : Nat) (x a : Nat → Cx K) : Cx K := sumTo n (fun i => (x i).conj * a i)

/-- `gen.MAC(x, a)` for two vectors, as coded:
    `abs(conj(x)@a)**2` cast to complex, divided by `conj(x) @ x * conj(a) @ a`
    (evaluated left to right), real part. -/
def mac (n : Nat) (x a : Nat → Cx K) : K :=
  let num : Cx K := Cx.ofReal (cdot n x a).normSq
  let s : Cx K := cdot n x x
  let den : Cx K := sumTo n (fun i => (s * (a i).conj) * a i)
  (num / den).re

/-- `freq = np.arange(0, nxseg) * (1 / dt / (2 * nxseg))` inside `SDOF_bellandMS`
    (`nxseg` there is the number of spectral lines). -/
def bellFreq (nf : Nat) (dt : K) (i : Nat) : K :=
  (i : K) * (((1 : Nat) : K) / dt / ((((2 : Nat) : K)) * (nf : K)))

/-- the MAC test of one line and one close mode -/
def maskAt (nch : Nat) (phi : Nat → Cx K) (Svec : Nat → Nat → Nat → Cx K) (MAClim : K)
    (csm l : Nat) : Bool :=
  decide (MAClim < mac nch phi (fun i => Svec csm i l))

/-- the value stored when the MAC test passes -/
def bellVal (m : Method) (nch : Nat) (Sy : Nat → Nat → Nat → Cx K) (Sval : Nat → Nat → Nat → K)
    (phi : Nat → Cx K) (csm l : Nat) : Cx K :=
  match m with
  | .FSDD => sumTo nch (fun j => (sumTo nch (fun i => (phi i).conj * Sy i j l)) * phi j)
  | .EFDD => Cx.ofReal (Sval csm csm l * Sval csm csm l)
  | .other => 0

/-- pre-repair EFDD branch (F22): the stored square root itself -/
def bellValOld (Sval : Nat → Nat → Nat → K) (csm l : Nat) : Cx K := Cx.ofReal (Sval csm csm l)

/-- `SDOFbell` entry of line `l` (inside the band): sum over the close modes -/
def bellAt (m : Method) (nch cm : Nat) (Sy : Nat → Nat → Nat → Cx K) (Sval : Nat → Nat → Nat → K)
    (Svec : Nat → Nat → Nat → Cx K) (phi : Nat → Cx K) (MAClim : K) (l : Nat) : Cx K :=
  sumTo cm (fun csm =>
    if maskAt nch phi Svec MAClim csm l then bellVal m nch Sy Sval phi csm l else 0)

/-- `SDOFbell1`: zero outside `[lo, hi)`, the band limits as in `FDD_mpe` but on the
    routine's own frequency grid. -/
def sdofBell (m : Method) (nch cm nf : Nat) (dt : K) (Sy : Nat → Nat → Nat → Cx K)
    (Sval : Nat → Nat → Nat → K) (Svec : Nat → Nat → Nat → Cx K) (phi : Nat → Cx K)
    (sel DF MAClim : K) (l : Nat) : Cx K :=
  let lo := bandLo nf (bellFreq nf dt) sel DF
  let hi := bandHi nf (bellFreq nf dt) sel DF
  if lo ≤ l ∧ l < hi then bellAt m nch cm Sy Sval Svec phi MAClim l else 0

end bell

section post
variable {K : Type} [Zero K] [Add K] [Sub K] [Mul K] [Div K] [Neg K] [LT K] [DecidableLT K]
  [NatCast K]

/-- `SDOFcorr1 = np.fft.ifft(SDOFbell, n=nIFFT, axis=0, norm="ortho").real` at lag `t`,
    `nIFFT = 5·nf`: the bell (length `nf`) is zero-padded to `nIFFT` points, so only the
    first `nf` terms of the transform sum are non-zero.  `tw m = exp(+2πi·m/nIFFT)`
    (`m < nIFFT`) and `rs = 1/√nIFFT` (the `"ortho"` factor) are parameters. -/
def ifftRe (nf : Nat) (tw : Nat → Cx K) (rs : K) (bell : Nat → Cx K) (t : Nat) : K :=
  rs * (sumTo nf (fun l => bell l * tw (l * t % (5 * nf)))).re

/-- `normSDOFcorr = SDOFcorr1[: n // 2] / SDOFcorr1[np.argmax(SDOFcorr1)]` (entry `i < n/2`) -/
def normCorr (n : Nat) (corr : Nat → K) (i : Nat) : K := corr i / corr (argmaxTo n corr)

/-- `np.sign` -/
def sgn (x : K) : Int := if x < 0 then -1 else if 0 < x then 1 else 0

/-- `np.where(np.diff(np.sign(x)))[0]` for an array of length `n` -/
def zeroCross (n : Nat) (x : Nat → K) : List Nat :=
  (List.range (n - 1)).filter (fun i => sgn (x i) != sgn (x (i + 1)))

/-- number of `_i` in `range(0, len(zc) - 2, 2)` -/
def nWin (zc : List Nat) : Nat := (zc.length - 2 + 1) / 2

/-- `np.max(x[a:b])`, `np.min(x[a:b])` -/
def winMax (x : Nat → K) (a b : Nat) : K := maxTo (b - a) (fun t => x (a + t))
def winMin (x : Nat → K) (a b : Nat) : K := minTo (b - a) (fun t => x (a + t))

def maxList (x : Nat → K) (zc : List Nat) : List K :=
  (List.range (nWin zc)).map (fun j => winMax x (zc.getD (2 * j) 0) (zc.getD (2 * j + 2) 0))
def minList (x : Nat → K) (zc : List Nat) : List K :=
  (List.range (nWin zc)).map (fun j => winMin x (zc.getD (2 * j) 0) (zc.getD (2 * j + 2) 0))

/-- the `if len(max) > len(min) … elif …` truncation; returns `(max, min)` -/
def truncPair {α : Type} (mx mn : List α) : List α × List α :=
  if mx.length > mn.length then (mx.dropLast, mn)
  else if mx.length < mn.length then (mx, mn.dropLast)
  else (mx, mn)

/-- `np.ravel(np.array((a, b)), order="F")` for equally long `a`, `b` -/
def interleave {α : Type} : List α → List α → List α
  | a :: as, b :: bs => a :: b :: interleave as bs
  | _, _ => []

/-- `np.argmin(abs(x - v))` over the whole normalised correlation (length `n`) -/
def idxOf (n : Nat) (x : Nat → K) (v : K) : Nat := argminTo n (fun i => absK (x i - v))

/-- `[l[a] for a in range(sppk, sppk + npmax)]` -/
def selectFit {α : Type} (l : List α) (sppk npmax : Nat) : Except String (List α) :=
  (List.range npmax).mapM (fun a =>
    match l[sppk + a]? with
    | some v => .ok v
    | none => .error "IndexError: index out of range")

/-- `time = np.linspace(0, tlag, num)`, `tlag = 1/df = nf·dt`, `num = (5·nf)//2` -/
def timeStep (nf : Nat) (dt : K) : K := ((nf : K) * dt) / (((5 * nf / 2 - 1 : Nat)) : K)
def timeAt (nf : Nat) (dt : K) (i : Nat) : K := (i : K) * timeStep nf dt

/-- the lag spacing the inverse transform really has: `nxseg·dt/(5·nf)` with
    `nxseg = 2(nf-1)` samples per segment -/
def trueStep (nf : Nat) (dt : K) : K := (((2 * (nf - 1) : Nat)) : K) * dt / (((5 * nf : Nat)) : K)

/-- `np.diff(t) * 2` -/
def diffs2 (t : List K) : List K := List.zipWith (fun a b => (b - a) * ((2 : Nat) : K)) t t.tail

/-- `np.mean` (`none` = NaN for an empty array) -/
def meanL (l : List K) : Option K :=
  if l.length = 0 then none else some (l.foldl (· + ·) 0 / (l.length : K))

structure Post (K : Type) where
  zc : List Nat
  maxs : List K
  mins : List K
  minmax : List K
  minmaxIdx : List Nat
  fitVals : List K
  fitIdx : List Nat
  Td : List K
  TdMean : Option K
  fd : Option K
  ratios : List K

/-- everything `EFDD_mpe` does between `normSDOFcorr` and the logarithm:
    `x` is `normSDOFcorr` (length `(5·nf)//2`). -/
def postFft (nf : Nat) (x : Nat → K) (dt : K) (sppk npmax : Nat) : Except String (Post K) :=
  let n := 5 * nf / 2
  let zc := zeroCross n x
  let p := truncPair (maxList x zc) (minList x zc)
  let maxs := p.1
  let mins := p.2
  let minmax := interleave mins maxs
  let maxIdx := maxs.map (idxOf n x)
  let minIdx := mins.map (idxOf n x)
  let minmaxIdx := interleave minIdx maxIdx
  match selectFit minmax sppk npmax, selectFit minmaxIdx sppk npmax with
  | .error e, _ => .error e
  | _, .error e => .error e
  | .ok fitVals, .ok fitIdx =>
    let Td := diffs2 (fitIdx.map (timeAt nf dt))
    let TdMean := meanL Td
    let fd := TdMean.map (fun t => ((1 : Nat) : K) / t)
    let ratios := (List.range npmax).map
      (fun ii => absK (minmax.getD 0 0) / absK (minmax.getD ii 0))
    .ok ⟨zc, maxs, mins, minmax, minmaxIdx, fitVals, fitIdx, Td, TdMean, fd, ratios⟩

/-- closed form of `curve_fit(lambda x, m: m*x, arange(n), delta)`:
    least squares through the origin, `Σ k·δ_k / Σ k²` -/
def slope (n : Nat) (delta : Nat → K) : K :=
  sumTo n (fun k => (k : K) * delta k) / sumTo n (fun k => (k : K) * (k : K))

/-- `tau = -(nxseg - 1) / np.log(0.01)` -/
def tauOf (nf : Nat) (log001 : K) : K := -(((nf - 1 : Nat)) : K) / log001

/-- the `methodSy` branch: `2*lam - 1/tau` (`"cor"`), `2*lam` (`"per"`), unchanged otherwise -/
def lamOf (m : SyMethod) (nf : Nat) (log001 s : K) : K :=
  match m with
  | .cor => ((2 : Nat) : K) * s - ((1 : Nat) : K) / tauOf nf log001
  | .per => ((2 : Nat) : K) * s
  | .other => s

/-- `xi = lam / np.sqrt(4 * np.pi**2 + lam**2)` -/
def xiOf (sqrt : K → K) (pi lam : K) : K :=
  lam / sqrt (((4 : Nat) : K) * (pi * pi) + lam * lam)

/-- `fn = fd / np.sqrt(1 - xi**2)` -/
def fnOf (sqrt : K → K) (fd xi : K) : K := fd / sqrt (((1 : Nat) : K) - xi * xi)

end post
end PV.Efdd
