import PyomaVerif.Model.Basic
/-!
# Interactive pole picking (`support/sel_from_plot.py`, class `SelFromPlot`)

State of the dialog = the two parallel Python lists (`sel_freq`, `pole_ind` / `freq_ind`)
and the `shift_is_held` flag.  Events are injected at the handler level
(`on_key_press`, `on_key_release`, `on_click_SSI`, `on_click_FDD`).  NaN is `none`; a click
outside the axes has `xdata = ydata = None`, here `pos = none`.

The handlers are mirrored statement by statement; a Python exception leaves the lists
as they were at that point (all raising statements precede the list updates) and is
reported as `Except.error <exception class>`.

`sortSelected` mirrors `sort_selected_poles` AFTER the proposed repair (fix F11: the index
list is permuted together with the frequency list, stable argsort); the code as pinned
is `PV.Pick.Mut.sortSelFreqOnly` in `Mutants/C16.lean`.
-/
namespace PV
namespace Pick

/-- `np.abs` on an exact scalar -/
def absR (q : Rat) : Rat := if q < 0 then -q else q

/-- `np.argmin` with the minimum itself: FIRST index of the minimum; `none` on an empty
    sequence (numpy raises `ValueError`). -/
def argminV : List Rat → Option (Nat × Rat)
  | [] => none
  | x :: xs =>
    match argminV xs with
    | none => some (0, x)
    | some (j, v) => if v < x then some (j + 1, v) else some (0, x)

/-- `np.nanargmin` with the minimum: first index of the minimum over the non-NaN entries;
    `none` when there is no such entry (numpy raises `ValueError`: all-NaN slice / empty). -/
def nanargminV : List (Option Rat) → Option (Nat × Rat)
  | [] => none
  | x :: xs =>
    match x, nanargminV xs with
    | none, none => none
    | none, some (j, v) => some (j + 1, v)
    | some a, none => some (0, a)
    | some a, some (j, v) => if v < a then some (j + 1, v) else some (0, a)

/-- insert `a` behind every leading element whose key is `≤ key a` -/
def insertByKey {α : Type} (key : α → Rat) (a : α) : List α → List α
  | [] => [a]
  | b :: l => if key b ≤ key a then b :: insertByKey key a l else a :: b :: l

/-- stable sort by key (left-to-right insertion; equal keys keep their order) -/
def sortByKey {α : Type} (key : α → Rat) (l : List α) : List α :=
  l.foldl (fun acc a => insertByKey key a acc) []

/-- `np.argsort(xs, kind="stable")` -/
def argsort (xs : List Rat) : List Nat :=
  sortByKey (fun i => xs.getD i 0) (List.range xs.length)

/-- the dialog state: `shift_is_held`, `sel_freq`, `pole_ind` (SSI, pLSCF) / `freq_ind` (FDD) -/
structure State where
  shift : Bool
  selFreq : List Rat
  ind : List Nat
deriving Repr, DecidableEq

def State.init : State := ⟨false, [], []⟩

/-- what `SelFromPlot.__init__` stores in `.result` for the stabilisation diagrams:
    `(sel_freq, pole_ind)` (for FDD only the first component is used). -/
def State.result (s : State) : List Rat × List Nat := (s.selFreq, s.ind)

/-- matplotlib events as the handlers see them: `event.key`; `event.button`,
    `event.xdata`, `event.ydata` (both `None` outside the axes). -/
inductive Event where
  | keyPress (key : String)
  | keyRelease (key : String)
  | click (button : Nat) (pos : Option (Rat × Rat))
deriving Repr

/-- `sort_selected_poles` (repaired):
    `idx = argsort(sel_freq)`; `sel_freq = sel_freq[idx]`; `ind = [ind[i] for i in idx]`. -/
def sortSelected (s : State) : State :=
  let idx := argsort s.selFreq
  { s with selFreq := idx.map (fun i => s.selFreq.getD i 0),
           ind := idx.map (fun i => s.ind.getD i 0) }

/-- `y_ind = int(np.argmin(np.abs(np.arange(Fn_poles.shape[1]) - [ydata])))` -/
def closestOrder (ncol : Nat) (y : Rat) : Option (Nat × Rat) :=
  argminV ((List.range ncol).map fun (j : Nat) => absR ((j : Rat) - y))

/-- `sel = np.nanargmin(np.abs(Fn_poles[:, y_ind] - xdata))` -/
def closestRow (t : Mat (Option Rat)) (yInd : Nat) (x : Rat) : Option (Nat × Rat) :=
  nanargminV ((List.range t.r).map fun i => (t.e i yInd).map fun f => absR (f - x))

/-- the pole a select click at `(x, y)` designates: `(Fn_poles[sel, y_ind], y_ind)` -/
def pick (t : Mat (Option Rat)) (x y : Rat) : Option (Rat × Nat) :=
  match closestOrder t.c y with
  | none => none
  | some (yInd, _) =>
    match closestRow t yInd x with
    | none => none
    | some (sel, _) =>
      match t.e sel yInd with
      | none => none
      | some f => some (f, yInd)

/-- `get_closest_pole` -/
def getClosestPole (t : Mat (Option Rat)) (s : State) (x y : Rat) : Except String State :=
  match closestOrder t.c y with
  | none => .error "ValueError"            -- argmin of an empty sequence
  | some (yInd, _) =>
    match closestRow t yInd x with
    | none => .error "ValueError"          -- all-NaN slice / empty column
    | some (sel, _) =>
      match t.e sel yInd with
      | none => .error "unreachable"        -- nanargmin never designates a NaN (`pick_isSome`)
      | some f =>
        .ok (sortSelected { s with ind := s.ind ++ [yInd], selFreq := s.selFreq ++ [f] })

/-- `get_closest_freq` -/
def getClosestFreq (freq : List Rat) (s : State) (x : Rat) : Except String State :=
  match argminV (freq.map fun f => absR (f - x)) with
  | none => .error "ValueError"
  | some (sel, _) =>
    .ok (sortSelected { s with ind := s.ind ++ [sel], selFreq := s.selFreq ++ [freq.getD sel 0] })

/-- the two deselect branches, identical in `on_click_SSI` and `on_click_FDD` -/
def deselect (s : State) (button : Nat) (pos : Option (Rat × Rat)) : Except String State :=
  if button == 3 && s.shift then
    if !s.selFreq.isEmpty && !s.ind.isEmpty then
      .ok { s with selFreq := s.selFreq.dropLast, ind := s.ind.dropLast }   -- `.pop()` twice
    else .ok s
  else if button == 2 && s.shift then
    if !s.selFreq.isEmpty && !s.ind.isEmpty then
      match pos with
      | none => .error "TypeError"          -- `list - None`
      | some (x, _) =>
        match argminV (s.selFreq.map fun f => absR (f - x)) with
        | none => .error "ValueError"       -- not reachable: the list is non-empty
        | some (i, _) => .ok { s with selFreq := s.selFreq.eraseIdx i, ind := s.ind.eraseIdx i }
    else .ok s
  else .ok s

/-- `on_click_SSI(event, plot)` for `plot in ("SSI", "pLSCF")` -/
def onClickSSI (t : Mat (Option Rat)) (s : State) (button : Nat) (pos : Option (Rat × Rat)) :
    Except String State :=
  if button == 1 && s.shift then
    match pos with
    | none => .error "TypeError"            -- `np.arange(n) - [None]`
    | some (x, y) => getClosestPole t s x y
  else deselect s button pos

/-- `on_click_FDD(event)` -/
def onClickFDD (freq : List Rat) (s : State) (button : Nat) (pos : Option (Rat × Rat)) :
    Except String State :=
  if button == 1 && s.shift then
    match pos with
    | none => .error "TypeError"            -- `freq - None`
    | some (x, _) => getClosestFreq freq s x
  else deselect s button pos

/-- the dialog variant with the data it reads from `algo.result` -/
inductive Plot where
  | stab (t : Mat (Option Rat))    -- "SSI" and "pLSCF": `Fn_poles`
  | fdd (freq : List Rat)          -- "FDD": `freq`

/-- one event through its handler -/
def step (p : Plot) (s : State) : Event → Except String State
  | .keyPress k => .ok (if k == "shift" then { s with shift := true } else s)
  | .keyRelease k => .ok (if k == "shift" then { s with shift := false } else s)
  | .click b pos =>
    match p with
    | .stab t => onClickSSI t s b pos
    | .fdd freq => onClickFDD freq s b pos

/-- state after the event (an exception in a handler leaves the state as it was) -/
def stepKeep (p : Plot) (s : State) (e : Event) : State :=
  match step p s e with
  | .ok s' => s'
  | .error _ => s

/-- state after a whole history -/
def run (p : Plot) (s : State) (evs : List Event) : State := evs.foldl (stepKeep p) s

/-! ## the abstract dialog: a list of (frequency, order) pairs -/

/-- `select`: put the pair behind the last pair whose frequency is `≤` its own -/
def specInsert (p : Rat × Nat) (l : List (Rat × Nat)) : List (Rat × Nat) :=
  l.takeWhile (fun q => q.1 ≤ p.1) ++ p :: l.dropWhile (fun q => q.1 ≤ p.1)

/-- first index whose frequency is nearest to `x` (`argminV_spec`: first minimum) -/
def specNearest (x : Rat) (l : List (Rat × Nat)) : Option Nat :=
  (argminV (l.map fun q => absR (q.1 - x))).map Prod.fst

/-- the designated datum of a select click in the two dialog variants -/
def specPick : Plot → Rat → Rat → Option (Rat × Nat)
  | .stab t, x, y => pick t x y
  | .fdd freq, x, _ => (argminV (freq.map fun f => absR (f - x))).map fun (i, _) => (freq.getD i 0, i)

/-- abstract step on (modifier held, selected pairs in ascending frequency) -/
def specStep (p : Plot) : Bool × List (Rat × Nat) → Event → Bool × List (Rat × Nat)
  | (sh, l), .keyPress k => (if k == "shift" then true else sh, l)
  | (sh, l), .keyRelease k => (if k == "shift" then false else sh, l)
  | (sh, l), .click b pos =>
    if !sh then (sh, l) else
    match b, pos with
    | 1, some (x, y) =>
      match specPick p x y with
      | some q => (sh, specInsert q l)      -- pick
      | none => (sh, l)                     -- nothing to pick in that column
    | 3, _ => (sh, l.dropLast)              -- deselect-one
    | 2, some (x, _) =>                     -- deselect-nearest
      match specNearest x l with
      | some i => (sh, l.eraseIdx i)
      | none => (sh, l)
    | _, _ => (sh, l)

def specRun (p : Plot) (evs : List Event) : Bool × List (Rat × Nat) :=
  evs.foldl (specStep p) (false, [])

-- hand-over to extraction: the list-of-orders branch of `SSI_mpe` / `pLSCF_mpe` is `PV.ssiMpe` / `PV.plscfMpe`
-- (`Model/Mpe.lean`, the models of C11); see `Props/C16Extract.lean`.

end Pick
end PV
