import PyomaVerif.Model.Basic
/-!
# Model of the diagram data of `functions/plot.py` (core Lean only)

`stab_plot`, `cluster_plot`, `CMIF_plot` mirrored statement by statement as far as the
data handed to the matplotlib artists are concerned (titles, colours, limits, legends are
not data and are left out).  A pole table is a `Mat (Option K)` (`none` = NaN), a label
table a `Mat Int`.  Rows are pole slots, columns are model orders.
-/
namespace PV
namespace Plot

/-- `np.where(Lab == v, T, np.nan)` for equally shaped tables. -/
def whereEq {α : Type} (lab : Mat Int) (v : Int) (t : Mat (Option α)) : Mat (Option α) :=
  ⟨t.r, t.c, fun i j => if lab.e i j = v then t.e i j else none⟩

/-- `T.flatten(order="F")`: the columns one after the other. -/
def flattenF {α : Type} (m : Mat α) : List α :=
  (List.range m.c).flatMap fun j => (List.range m.r).map fun i => m.e i j

/-- `T.flatten()` (C order): the rows one after the other — NOT what the code uses; kept
    for the mutants. -/
def flattenC {α : Type} (m : Mat α) : List α :=
  (List.range m.r).flatMap fun i => (List.range m.c).map fun j => m.e i j

/-- `np.array([i // len(T) for i in range(len(x))]) * step` (`len(T)` is the number of rows). -/
def orderAxis (rows len step : Nat) : List Nat :=
  (List.range len).map fun i => (i / rows) * step

/-- NaN-propagating product and absolute value: `abs(Fn_cov * Fn)`. -/
def absMul (a b : Option Rat) : Option Rat :=
  match a, b with
  | some x, some y => some (if x * y < 0 then -(x * y) else x * y)
  | _, _ => none

/-- `np.where(xerr <= 0.5, xerr, np.nan)` (a NaN compares false). -/
def errSmall (e : Option Rat) : Option Rat :=
  match e with
  | some x => if x ≤ 1 / 2 then some x else none
  | none => none

/-- `np.where(xerr > 0.5, 0.5, np.nan)`. -/
def errLarge (e : Option Rat) : Option Rat :=
  match e with
  | some x => if x > 1 / 2 then some (1 / 2) else none
  | none => none

/-- one `ax.errorbar(x, y, xerr=e, fmt="None")` call: position-wise triples. -/
def errorbar (x : List (Option Rat)) (y : List Nat) (e : List (Option Rat)) :
    List (Option Rat × Nat × Option Rat) :=
  List.zipWith (fun (p : Option Rat × Nat) ee => (p.1, p.2, ee)) (List.zip x y) e

/-- Data of one stabilisation chart: the `"go"` line, the red scatter (absent when the
    unstable poles are hidden) and the error-bar calls in the order the code issues them. -/
structure StabData (K : Type) where
  stable : List (Option K × Nat)
  unstable : Option (List (Option K × Nat))
  bars : List (List (Option Rat × Nat × Option Rat))

/-- marker part of `stab_plot` (any scalar type: the values are only copied). -/
def stabXY {K : Type} (Fn : Mat (Option K)) (Lab : Mat Int) (step : Nat) (v : Int) :
    List (Option K × Nat) :=
  let T := whereEq Lab v Fn
  let x := flattenF T
  let y := orderAxis T.r x.length step
  List.zip x y

/-- `stab_plot(Fn, Lab, step, ordmax, ordmin, freqlim, hide_poles, fig, ax, Fn_cov)`. -/
def stabMarkers (Fn : Mat (Option Rat)) (Lab : Mat Int) (step : Nat) (hide : Bool)
    (FnCov : Option (Mat (Option Rat))) : StabData Rat :=
  let Ts := whereEq Lab 1 Fn
  let Tu := whereEq Lab 0 Fn
  if hide then
    let x := flattenF Ts
    let y := orderAxis Ts.r x.length step
    let bars := match FnCov with
      | none => []
      | some cov =>
        -- xerr = abs(Fn_cov * Fn).flatten(order="f"); the where's act on the flat vector
        let xerr := flattenF (⟨Fn.r, Fn.c, fun i j => absMul (cov.e i j) (Fn.e i j)⟩ : Mat (Option Rat))
        [errorbar x y (xerr.map errSmall), errorbar x y (xerr.map errLarge)]
    ⟨List.zip x y, none, bars⟩
  else
    let x := flattenF Ts
    let y := orderAxis Ts.r x.length step
    let x1 := flattenF Tu
    -- `for i in range(len(x))` — the length of the *stable* vector, as coded
    let y1 := orderAxis Tu.r x.length step
    let bars := match FnCov with
      | none => []
      | some cov =>
        let xerr : Mat (Option Rat) := ⟨Fn.r, Fn.c, fun i j => absMul (cov.e i j) (Fn.e i j)⟩
        let e1 := flattenF (⟨xerr.r, xerr.c, fun i j => errSmall (xerr.e i j)⟩ : Mat (Option Rat))
        let e2 := flattenF (⟨xerr.r, xerr.c, fun i j => errLarge (xerr.e i j)⟩ : Mat (Option Rat))
        [errorbar x y e1, errorbar x y e2, errorbar x1 y1 e1, errorbar x1 y1 e2]
    ⟨List.zip x y, some (List.zip x1 y1), bars⟩

/-- marker part of `cluster_plot` for the label value `v`. -/
def clusterXY {K : Type} (Fn Xi : Mat (Option K)) (Lab : Mat Int) (v : Int) :
    List (Option K × Option K) :=
  List.zip (flattenF (whereEq Lab v Fn)) (flattenF (whereEq Lab v Xi))

/-- `cluster_plot(Fn, Xi, Lab, ordmin, freqlim, hide_poles)`: the `"go"` line and the scatter. -/
def clusterMarkers {K : Type} (Fn Xi : Mat (Option K)) (Lab : Mat Int) (hide : Bool) :
    List (Option K × Option K) × Option (List (Option K × Option K)) :=
  if hide then (clusterXY Fn Xi Lab 1, none)
  else (clusterXY Fn Xi Lab 1, some (clusterXY Fn Xi Lab 0))

/-! ### CMIF -/

/-- `np.argmax` of a non-empty vector given as a function on `0..n-1`: first maximum. -/
def argmaxFirst (n : Nat) (f : Nat → Rat) : Nat :=
  (List.range n).foldl (fun best i => if f best < f i then i else best) 0

/-- the `nSv` admission test of `CMIF_plot`: `"all"` (`none`) gives `S_val.shape[1]`;
    an integer must satisfy `int(nSv) < S_val.shape[1]`, else `ValueError("ERROR")`.
    The result is the argument of `range(nSv)`. -/
def cmifRequest (n : Nat) (nSv : Option Int) : Except String Int :=
  match nSv with
  | none => pure (n : Int)
  | some v => if v < (n : Int) then pure v else throw "ValueError: ERROR"

/-- `CMIF_plot`: curve `k` is `S_val[k,k,:] / S_val[0,0,:][argmax(S_val[0,0,:])]`
    (for `k = 0` the code writes the same expression with `k`), over all `nf` grid points;
    `10*log10` is applied by the harness. `S k f` stands for `S_val[k,k,f]`. -/
def cmifCurves (n nf : Nat) (S : Nat → Nat → Rat) (nSv : Option Int) :
    Except String (List (List Rat)) := do
  let m ← cmifRequest n nSv
  let cnt := m.toNat            -- `range` of a negative number is empty
  if cnt > 0 ∧ nf = 0 then throw "ValueError: argmax of an empty sequence"
  else
    pure ((List.range cnt).map fun k =>
      let den := if k = 0 then S k (argmaxFirst nf (S k)) else S 0 (argmaxFirst nf (S 0))
      (List.range nf).map fun f => S k f / den)

end Plot
end PV
