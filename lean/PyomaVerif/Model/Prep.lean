/-!
# Preprocessing state machines (C14) — core Lean only

Mirrors, statement by statement, `decimate_data`, `detrend_data`, `filter_data`,
`rollback`, `add_algorithms` of `SingleSetup` (`setup/single.py`) and
`MultiSetup_PreGER` (`setup/multi.py`), the static helpers of `BaseSetup`
(`setup/base.py`) and `gen.pre_multisetup` / `gen.filter_data`.

* sampling attributes are exact `Rat`;
* an array is a **symbolic term** over the constructor arguments: scipy's `decimate`,
  `detrend`, `butter`+`sosfiltfilt` are uninterpreted constructors, of which only the
  calling contract is modelled (which keyword sets raise, the output length);
* a `Variant` says which statements of the pinned tree are kept: `Variant.pinned` (defects
  F7–F10 all present), `Variant.current` (the tree after `proposed_fixes/fix_1..4`: the model the
  driver runs and the property theorems are about — `SingleSetup.T` keeps the helper's value,
  because a pinned repository test asserts that the duration *changes* under decimation, so that
  defect is a known finding, not a repair), `Variant.fixed` (no defect left).
  `Mutants/C14.lean` has a kernel-checked witness for every flag.
-/
namespace PV.Prep

/-! ## Keyword records, errors, terms -/

inductive Err | typeError | valueError | zeroDivisionError | indexError
  deriving DecidableEq, Repr, Inhabited

/-- `ftype=` of `scipy.signal.decimate`; `bad` is any other string (`ValueError`). -/
inductive FType | iir | fir | bad
  deriving DecidableEq, Repr, Inhabited
/-- `type=` of `scipy.signal.detrend`; `bad` is any other string (`ValueError`). -/
inductive DType | linear | constant | bad
  deriving DecidableEq, Repr, Inhabited
inductive BType | lowpass | highpass | bandpass | bandstop
  deriving DecidableEq, Repr, Inhabited

/-- `Wn`: a scalar or a length-2 sequence. -/
inductive Wn | one (w : Rat) | two (lo hi : Rat)
  deriving DecidableEq, Repr, Inhabited

/-- A `**kwargs` dictionary aimed at `scipy.signal.decimate`: every key may be absent.
    `n` distinguishes *absent* / `n=None` / `n=k`.  `axis0`: the key `axis` is present
    (its value is always 0 in this model).  `bogus`: some key `decimate` does not know. -/
structure DecKwIn where
  n : Option (Option Nat) := none
  ftype : Option FType := none
  axis0 : Bool := false
  zeroPhase : Option Bool := none
  bogus : Bool := false
  deriving DecidableEq, Repr, Inhabited

/-- the arguments as `scipy.signal.decimate` sees them after its own defaults. -/
structure DecKw where
  n : Option Nat
  ftype : FType
  zeroPhase : Bool
  deriving DecidableEq, Repr, Inhabited

/-- `**kwargs` aimed at `scipy.signal.detrend`. -/
structure DetKwIn where
  type : Option DType := none
  bp : Option (List Nat) := none
  axis0 : Bool := false
  bogus : Bool := false
  /-- `overwrite_data=` (documented scipy keyword, forwarded by `_detrend_data(**kwargs)`): no effect on the value or on
      which calls raise; it decides WHERE the result is written (Model/PrepOwn.lean). -/
  overwriteData : Option Bool := none
  deriving DecidableEq, Repr, Inhabited

/-- The symbolic array. `init i` is the `i`-th array handed to the constructor. -/
inductive Term where
  | init (i : Nat)
  | dec (q : Nat) (kw : DecKw) (t : Term)
  | det (type : DType) (bp : List Nat) (t : Term)
  | filt (fs : Rat) (wn : Wn) (order : Nat) (btype : BType) (t : Term)
  deriving DecidableEq, Repr, Inhabited

namespace Term
/-- `shape[0]`: `decimate` keeps every `q`-th sample (`⌈len/q⌉`), the others keep the shape. -/
def len (n0 : Nat → Nat) : Term → Nat
  | init i => n0 i
  | dec q _ t => (t.len n0 + q - 1) / q
  | det _ _ t => t.len n0
  | filt _ _ _ _ t => t.len n0
/-- `shape[1]`: never changed (everything acts along axis 0). -/
def ncols (nch : Nat → Nat) : Term → Nat
  | init i => nch i
  | dec _ _ t => t.ncols nch
  | det _ _ t => t.ncols nch
  | filt _ _ _ _ t => t.ncols nch
end Term

/-- Which statements of the pinned tree are kept (each `true` = one defect of DESIGN §6). -/
structure Variant where
  /-- F7 (SingleSetup): `self.T = T`, the helper's `1/fs_new/q·Ndat`, instead of `dt·Ndat`. -/
  helperTS : Bool
  /-- F7 (PreGER): `Ts.append(T)` with the helper's `T` instead of `dt·Ndat`. -/
  helperTM : Bool
  /-- F8: PreGER `dt = 1 / self.fs` evaluated before `self.fs` is assigned. -/
  staleDt : Bool
  /-- F9: PreGER `filter_data` / `detrend_data` do not assign `self.datasets`. -/
  forgetDatasets : Bool
  /-- F10: PreGER `decimate_data` reads the keywords with `kwargs.get` (not `pop`) and then
      passes them explicitly *and* through `**kwargs`. -/
  dupKw : Bool
  deriving DecidableEq, Repr, Inhabited

def Variant.fixed : Variant := ⟨false, false, false, false, false⟩
def Variant.pinned : Variant := ⟨true, true, true, true, true⟩
/-- the four PreGER repairs are in. -/
def Variant.multiRepaired (v : Variant) : Bool :=
  !v.helperTM && !v.staleDt && !v.forgetDatasets && !v.dupKw
/-- the tree with `proposed_fixes/fix_1.diff … fix_4.diff` applied. -/
def Variant.current : Variant := ⟨true, false, false, false, false⟩

/-! ## scipy calling contracts (uninterpreted results) -/

/-- Python call `f(n=…, ftype=…, axis=…, zero_phase=…, **kwargs)`: a key that is given
    explicitly *and* is in `kwargs` is a `TypeError` raised at the call site. -/
def mergeKw (explicit kwargs : DecKwIn) : Except Err DecKwIn :=
  if (explicit.n.isSome && kwargs.n.isSome) || (explicit.ftype.isSome && kwargs.ftype.isSome)
      || (explicit.axis0 && kwargs.axis0) || (explicit.zeroPhase.isSome && kwargs.zeroPhase.isSome)
  then .error .typeError
  else .ok { n := explicit.n.orElse fun _ => kwargs.n
             ftype := explicit.ftype.orElse fun _ => kwargs.ftype
             axis0 := explicit.axis0 || kwargs.axis0
             zeroPhase := explicit.zeroPhase.orElse fun _ => kwargs.zeroPhase
             bogus := explicit.bogus || kwargs.bogus }

/-- scipy's own defaults: `n=None, ftype='iir', zero_phase=True`. -/
def DecKwIn.resolve (k : DecKwIn) : DecKw :=
  { n := k.n.getD none, ftype := k.ftype.getD .iir, zeroPhase := k.zeroPhase.getD true }

/-- `scipy.signal.decimate(x, q, **kw)`: unknown keyword → `TypeError`; `ftype` not
    `'iir'`/`'fir'` → `ValueError` (the `else` branch, before `q` is used); `q = 0` →
    `ZeroDivisionError` (`cheby1(n, 0.05, 0.8 / q)`, `firwin(n+1, 1. / q)`); `q = 1` with `'fir'` →
    `ValueError` (`firwin` refuses the cut-off `1.0`), while `q = 1` with `'iir'` is a legal call
    (Chebyshev low-pass at 0.8·Nyquist, every sample kept); else the decimated array. -/
def sciDecimate (x : Term) (q : Nat) (kw : DecKwIn) : Except Err Term :=
  if kw.bogus then .error .typeError
  else if kw.resolve.ftype = .bad then .error .valueError
  else if q = 0 then .error .zeroDivisionError
  else if q = 1 ∧ kw.resolve.ftype = .fir then .error .valueError
  else .ok (.dec q kw.resolve x)

/-- `scipy.signal.detrend(x, axis=0, **kw)` on an array with `N` rows: unknown keyword →
    `TypeError`; bad `type` → `ValueError`; `'constant'` ignores `bp`; `'linear'` raises
    `ValueError` when a breakpoint exceeds `N`. -/
def sciDetrend (N : Nat) (x : Term) (kw : DetKwIn) : Except Err Term :=
  let ty := kw.type.getD .linear
  let bp := kw.bp.getD [0]
  if kw.bogus then .error .typeError
  else if ty = .bad then .error .valueError
  else if ty = .constant then .ok (.det ty bp x)
  else if bp.any (fun b => N < b) then .error .valueError
  else .ok (.det ty bp x)

/-- `scipy.signal.butter(order, Wn, btype, output='sos', fs=fs)` accepts iff every critical
    frequency is in `(0, fs/2)` and the arity fits `btype`. -/
def butterOk (fs : Rat) (wn : Wn) (bt : BType) : Bool :=
  match wn, bt with
  | .one w, .lowpass | .one w, .highpass => decide (0 < w) && decide (w < fs / 2)
  | .two lo hi, .bandpass | .two lo hi, .bandstop =>
      decide (0 < lo) && decide (lo < fs / 2) && decide (0 < hi) && decide (hi < fs / 2)
  | _, _ => false

/-- `gen.filter_data(data, fs, Wn, order, btype)` = `butter(…, fs=fs)` + `sosfiltfilt(axis=0)`. -/
def genFilter (data : Term) (fs : Rat) (wn : Wn) (order : Nat) (bt : BType) : Except Err Term :=
  if butterOk fs wn bt then .ok (.filt fs wn order bt data) else .error .valueError

/-! ## `BaseSetup` static helpers -/

/-- `BaseSetup._decimate_data(data, fs, q, **kwargs)` → `(newdata, fs, dt, Ndat, T)`.
    The returned `T` is `1/fs/q·Ndat` with the *new* `fs` (pinned by the repository tests:
    15 samples at 50 Hz ↦ 0.15); the repaired methods do not use it. -/
def helperDecimate (n0 : Nat → Nat) (data : Term) (fs : Rat) (q : Nat) (kwargs : DecKwIn) :
    Except Err (Term × Rat × Rat × Nat × Rat) := do
  let newdata ← sciDecimate data q kwargs
  let fs := fs / (q : Rat)
  let dt := 1 / fs
  let Ndat := newdata.len n0
  let T := 1 / fs / (q : Rat) * (Ndat : Rat)
  pure (newdata, fs, dt, Ndat, T)

/-- `BaseSetup._detrend_data(data, **kwargs)`: `axis = kwargs.pop("axis", 0)`;
    `detrend(data, axis=axis, **kwargs)`. -/
def helperDetrend (n0 : Nat → Nat) (data : Term) (kwargs : DetKwIn) : Except Err Term :=
  sciDetrend (data.len n0) data { kwargs with axis0 := false }

/-- `BaseSetup._filter_data` forwards to `gen.filter_data`. -/
def helperFilter (data : Term) (fs : Rat) (wn : Wn) (order : Nat) (bt : BType) : Except Err Term :=
  genFilter data fs wn order bt

/-! ## Operations -/

inductive Op where
  | decimate (q : Nat) (kw : DecKwIn)
  | detrend (kw : DetKwIn)
  | filter (wn : Wn) (order : Nat) (btype : BType)
  | rollback
  | add
  deriving DecidableEq, Repr, Inhabited

/-! ## SingleSetup -/

/-- constructor arguments: `data.shape = (n0, nch)`, `fs`. -/
structure SCfg where
  n0 : Nat
  nch : Nat
  fs0 : Rat
  deriving DecidableEq, Repr, Inhabited

/-- what `alg._set_data(data=…, fs=…)` stores in the algorithm. -/
structure SBound where
  data : Term
  fs : Rat
  dt : Rat
  deriving DecidableEq, Repr, Inhabited

structure SState where
  data : Term
  fs : Rat
  initData : Term
  initFs : Rat
  dt : Rat
  Nch : Nat
  Ndat : Nat
  T : Rat
  /-- `self.algorithms` (only what each entry was given). -/
  algs : List SBound
  /-- history: every binding ever made by `add_algorithms`, newest first (the algorithm
      objects keep it even when `rollback` re-creates the dictionary). -/
  bound : List SBound
  deriving DecidableEq, Repr, Inhabited

def SCfg.len (c : SCfg) : Term → Nat := Term.len (fun _ => c.n0)
def SCfg.ncols (c : SCfg) : Term → Nat := Term.ncols (fun _ => c.nch)

/-- `SingleSetup._initialize_data(data, fs)` (the two assignments preceding the call,
    `self.data = …; self.fs = …`, are done by the callers). -/
def sInitialize (c : SCfg) (s : SState) (data : Term) (fs : Rat) : SState :=
  let s := { s with initData := data, initFs := fs }      -- deepcopy(data); fs
  let s := { s with dt := 1 / fs }
  let s := { s with Nch := c.ncols data }
  let s := { s with Ndat := c.len data }
  let s := { s with T := s.dt * (s.Ndat : Rat) }
  { s with algs := [] }

/-- `SingleSetup.__init__(data, fs)`. -/
def sInit (c : SCfg) : SState :=
  let s : SState := { data := .init 0, fs := c.fs0, initData := .init 0, initFs := c.fs0,
                      dt := 0, Nch := 0, Ndat := 0, T := 0, algs := [], bound := [] }
  sInitialize c s (.init 0) c.fs0

def sStep (v : Variant) (c : SCfg) (s : SState) : Op → Except Err SState
  | .decimate q kwargs => do
      -- axis = kwargs.pop("axis", 0)
      let kwargs' := { kwargs with axis0 := false }
      -- super()._decimate_data(data=self.data, fs=self.fs, q=q, axis=axis, **kwargs)
      let kw ← mergeKw { axis0 := true } kwargs'
      let (decimated, fs, dt, Ndat, T) ← helperDecimate (fun _ => c.n0) s.data s.fs q kw
      let s := { s with data := decimated }
      let s := { s with fs := fs }
      let s := { s with dt := dt }
      let s := { s with Ndat := Ndat }
      pure { s with T := if v.helperTS then T else dt * (Ndat : Rat) }
  | .detrend kwargs => do
      let detrended ← helperDetrend (fun _ => c.n0) s.data kwargs
      pure { s with data := detrended }
  | .filter wn order bt => do
      let filt ← helperFilter s.data s.fs wn order bt
      pure { s with data := filt }
  | .rollback =>
      let s := { s with data := s.initData }
      let s := { s with fs := s.initFs }
      pure (sInitialize c s s.initData s.initFs)
  | .add =>
      -- {**self.algorithms, alg.name: alg._set_data(data=self.data, fs=self.fs)}
      let b : SBound := { data := s.data, fs := s.fs, dt := 1 / s.fs }
      pure { s with algs := s.algs ++ [b], bound := b :: s.bound }

/-! ## MultiSetup_PreGER -/

/-- constructor arguments: `datasets[i].shape = (n0[i], nch[i])`, `fs`, `ref_ind`. -/
structure MCfg where
  n0 : List Nat
  nch : List Nat
  fs0 : Rat
  refInd : List (List Nat)
  deriving DecidableEq, Repr, Inhabited

def MCfg.n0f (c : MCfg) : Nat → Nat := fun i => c.n0.getD i 0
def MCfg.nchf (c : MCfg) : Nat → Nat := fun i => c.nch.getD i 0

/-- one entry of `pre_multisetup`'s result: `{"ref": y[:, ref].T, "mov": y[:, mov].T}`. -/
structure Split where
  ref : List Nat
  mov : List Nat
  y : Term
  deriving DecidableEq, Repr, Inhabited

/-- `gen.pre_multisetup(dataList, reflist)`; `mov_id = list(range(n_sens))` with every
    reference removed in turn.  (Lists of equal length: the constructor already fails
    otherwise.) -/
def preMultisetup (nch : Nat → Nat) (dataList : List Term) (reflist : List (List Nat)) : List Split :=
  List.zipWith (fun y refId =>
    let nSens := y.ncols nch
    let movId := refId.foldl (fun l r => l.erase r) (List.range nSens)
    { ref := refId, mov := movId, y := y }) dataList reflist

structure MBound where
  data : List Split
  fs : Rat
  dt : Rat
  deriving DecidableEq, Repr, Inhabited

structure MState where
  fs : Rat
  refInd : List (List Nat)
  datasets : List Term
  initFs : Rat
  initRefInd : List (List Nat)
  initDatasets : List Term
  dt : Rat
  Nsetup : Nat
  data : List Split
  Nchs : List Nat
  Ndats : List Nat
  Ts : List Rat
  algs : List MBound
  bound : List MBound
  deriving DecidableEq, Repr, Inhabited

/-- `MultiSetup_PreGER._initialize_data(fs, ref_ind, datasets)`. -/
def mInitialize (c : MCfg) (s : MState) (fs : Rat) (refInd : List (List Nat)) (datasets : List Term) :
    MState :=
  let s := { s with initFs := fs, initRefInd := refInd, initDatasets := datasets }
  let s := { s with dt := 1 / fs }
  let s := { s with Nsetup := refInd.length }
  let Y := preMultisetup c.nchf datasets refInd
  let s := { s with data := Y, algs := [] }
  { s with Nchs := datasets.map (Term.ncols c.nchf)
           Ndats := datasets.map (Term.len c.n0f)
           Ts := datasets.map (fun d => s.dt * ((d.len c.n0f : Nat) : Rat)) }

def mInitTerms (c : MCfg) : List Term := (List.range c.n0.length).map Term.init

/-- `MultiSetup_PreGER.__init__(fs, ref_ind, datasets)`. -/
def mInit (c : MCfg) : MState :=
  let s : MState := { fs := c.fs0, refInd := c.refInd, datasets := mInitTerms c,
                      initFs := c.fs0, initRefInd := c.refInd, initDatasets := mInitTerms c,
                      dt := 0, Nsetup := 0, data := [], Nchs := [], Ndats := [], Ts := [],
                      algs := [], bound := [] }
  mInitialize c s c.fs0 c.refInd (mInitTerms c)

/-- the keywords `decimate_data` hands to the helper for every dataset. -/
def mDecimateKw (v : Variant) (kwargs : DecKwIn) : Except Err DecKwIn :=
  -- n = kwargs.pop("n", None); ftype = kwargs.pop("ftype", "iir");
  -- axis = kwargs.pop("axis", 0); zero_phase = kwargs.pop("zero_phase", True)
  -- (pinned tree: kwargs.get — the keys stay in kwargs)
  let explicit : DecKwIn :=
    { n := some (kwargs.n.getD none), ftype := some (kwargs.ftype.getD .iir), axis0 := true,
      zeroPhase := some (kwargs.zeroPhase.getD true) }
  let rest : DecKwIn :=
    if v.dupKw then kwargs
    else { n := none, ftype := none, axis0 := false, zeroPhase := none, bogus := kwargs.bogus }
  -- _decimate_data(data=…, fs=…, q=q, n=n, ftype=ftype, axis=axis, zero_phase=zero_phase, **kwargs)
  mergeKw explicit rest

/-- loop body of `decimate_data`: `super()._decimate_data(data=data, fs=self.fs, q=q, n=n, …, **kwargs)`. -/
def mDecimateOne (v : Variant) (c : MCfg) (fs : Rat) (q : Nat) (kwargs : DecKwIn) (data : Term) :
    Except Err (Term × Rat × Rat × Nat × Rat) := do
  let kw ← mDecimateKw v kwargs
  helperDecimate c.n0f data fs q kw

def mStep (v : Variant) (c : MCfg) (s : MState) : Op → Except Err MState
  | .decimate q kwargs => do
      -- for data in self.datasets: newdata, _, dt, Ndat, _ = super()._decimate_data(…)
      let res ← s.datasets.mapM (mDecimateOne v c s.fs q kwargs)
      let newdatasets := res.map (fun r => r.1)
      let Ndats := res.map (fun r => r.2.2.2.1)
      let Ts := res.map (fun r => if v.helperTM then r.2.2.2.2 else r.2.2.1 * (r.2.2.2.1 : Rat))
      let Y := preMultisetup c.nchf newdatasets s.refInd
      let fs := s.fs / (q : Rat)
      let dt := if v.staleDt then 1 / s.fs else 1 / fs
      let s := { s with datasets := newdatasets }
      let s := { s with data := Y }
      let s := { s with fs := fs }
      let s := { s with dt := dt }
      let s := { s with Ndats := Ndats }
      pure { s with Ts := Ts }
  | .filter wn order bt => do
      let newdatasets ← s.datasets.mapM (fun data => helperFilter data s.fs wn order bt)
      let Y := preMultisetup c.nchf newdatasets s.refInd
      let s := if v.forgetDatasets then s else { s with datasets := newdatasets }
      pure { s with data := Y }
  | .detrend kwargs => do
      let newdatasets ← s.datasets.mapM (fun data => helperDetrend c.n0f data kwargs)
      let Y := preMultisetup c.nchf newdatasets s.refInd
      let s := if v.forgetDatasets then s else { s with datasets := newdatasets }
      pure { s with data := Y }
  | .rollback =>
      let s := { s with fs := s.initFs }
      let s := { s with refInd := s.initRefInd }
      let s := { s with datasets := s.initDatasets }
      pure (mInitialize c s s.initFs s.initRefInd s.initDatasets)
  | .add =>
      let b : MBound := { data := s.data, fs := s.fs, dt := 1 / s.fs }
      pure { s with algs := s.algs ++ [b], bound := b :: s.bound }

/-! ## Running a history (an exception leaves the object as it was) -/

def sStep' (v : Variant) (c : SCfg) (s : SState) (op : Op) : SState :=
  match sStep v c s op with | .ok s' => s' | .error _ => s
def mStep' (v : Variant) (c : MCfg) (s : MState) (op : Op) : MState :=
  match mStep v c s op with | .ok s' => s' | .error _ => s

def sRun (v : Variant) (c : SCfg) (ops : List Op) : SState := ops.foldl (sStep' v c) (sInit c)
def mRun (v : Variant) (c : MCfg) (ops : List Op) : MState := ops.foldl (mStep' v c) (mInit c)

/-! ## The specification: the obvious fold

What the property statement says the object must describe after a history: per dataset
the scipy operations applied in order to the initial array, and the sampling frequency
divided by every decimation factor.  A call that scipy itself must reject (unknown
keyword, bad `ftype`/`type`, breakpoint beyond the current length, cut-off outside
`(0, fs/2)` for the **current** `fs`) changes nothing. -/

structure Spec where
  terms : List Term
  fs : Rat
  deriving DecidableEq, Repr, Inhabited

/-- documented keyword sets (`n`, `ftype ∈ {iir, fir}`, `zero_phase`, and `axis=0`). -/
def DecKwIn.documented (k : DecKwIn) : Bool := !k.bogus && k.resolve.ftype != .bad

/-- scipy's own condition on the decimation factor: `2 ≤ q`, or `q = 1` with the IIR design. -/
def decQOk (q : Nat) (kw : DecKwIn) : Bool := decide (2 ≤ q) || (q == 1 && kw.resolve.ftype == .iir)

/-- the decimation call is one scipy accepts: documented keywords and a factor it can design for. -/
def decOk (q : Nat) (kw : DecKwIn) : Bool := kw.documented && decQOk q kw

/-- is the call one scipy accepts on arrays of the given lengths at sampling frequency `fs`? -/
def Op.accepted (lens : List Nat) (fs : Rat) : Op → Bool
  | .decimate q kw => decOk q kw
  | .detrend kw =>
      !kw.bogus && kw.type.getD .linear != .bad &&
        (kw.type.getD .linear == .constant ||
          lens.all fun N => !(kw.bp.getD [0]).any (fun b => N < b))
  | .filter wn _ bt => butterOk fs wn bt
  | .rollback => true
  | .add => true

def specStep (n0 : Nat → Nat) (init : Spec) (σ : Spec) (op : Op) : Spec :=
  if op.accepted (σ.terms.map (Term.len n0)) σ.fs then
    match op with
    | .decimate q kw => ⟨σ.terms.map (Term.dec q kw.resolve), σ.fs / (q : Rat)⟩
    | .detrend kw => ⟨σ.terms.map (Term.det (kw.type.getD .linear) (kw.bp.getD [0])), σ.fs⟩
    | .filter wn o bt => ⟨σ.terms.map (Term.filt σ.fs wn o bt), σ.fs⟩
    | .rollback => init
    | .add => σ
  else σ

def specRun (n0 : Nat → Nat) (init : Spec) (ops : List Op) : Spec :=
  ops.foldl (specStep n0 init) init

def SCfg.spec0 (c : SCfg) : Spec := ⟨[.init 0], c.fs0⟩
def MCfg.spec0 (c : MCfg) : Spec := ⟨mInitTerms c, c.fs0⟩
def SCfg.spec (c : SCfg) (ops : List Op) : Spec := specRun (fun _ => c.n0) c.spec0 ops
def MCfg.spec (c : MCfg) (ops : List Op) : Spec := specRun c.n0f c.spec0 ops

/-- decimation factors of the accepted decimations since the last rollback. -/
def qsStep (qs : List Nat) : Op → List Nat
  | .decimate q kw => if decOk q kw then qs ++ [q] else qs
  | .rollback => []
  | _ => qs
def activeQs (ops : List Op) : List Nat := ops.foldl qsStep []

def prodNat (l : List Nat) : Nat := l.foldl (· * ·) 1

/-! ## `pre_multisetup` with its exceptions (what the constructor does with a malformed `ref_ind`) -/

/-- `for ii in range(n_ref): mov_id.remove(ref_id[ii])` — `list.remove` raises `ValueError` when the entry is not
    (any more) in the list: a duplicated or out-of-range reference. -/
def removeRefs (mov : List Nat) : List Nat → Except Err (List Nat)
  | [] => .ok mov
  | r :: rs => if r ∈ mov then removeRefs (mov.erase r) rs else .error .valueError

/-- `gen.pre_multisetup(dataList, reflist)` as it is: `n_setup = len(dataList)` (surplus reference lists are
    ignored, a missing one is an `IndexError`), per setup the removals, then `.reshape(n_ref, -1)` /
    `.reshape(n_sens - n_ref, -1)`, which raise `ValueError` on an empty selection (no reference / no roving channel). -/
def preMultisetupChecked (nch : Nat → Nat) : List Term → List (List Nat) → Except Err (List Split)
  | [], _ => .ok []
  | _ :: _, [] => .error .indexError
  | y :: ys, r :: rs => do
      let mov ← removeRefs (List.range (y.ncols nch)) r
      if r = [] ∨ mov = [] then .error .valueError
      else do
        let rest ← preMultisetupChecked nch ys rs
        pure ({ ref := r, mov := mov, y := y } :: rest)

end PV.Prep
