/-!
# Orchestration model (C15): `BaseSetup` / `BaseAlgorithm` run-and-extract protocol, PoSER validation

Core Lean only.  The numerical work is **uninterpreted**: `Sem.run`, `Sem.mpeRes`,
`Sem.mpeParams`, `Sem.pre` are parameters.  What is mirrored statement by statement is the
*control flow* of

* `setup/base.py`  `add_algorithms`, `run_by_name`, `run_all`, `mpe`, `__getitem__`
* `algorithms/base.py`  `_pre_run`, `_set_result`, `_set_data`, the `mpe` guard
* `algorithms/{fdd,ssi,plscf}.py`  the order "guard – store parameters – extract – store result"
  of every `mpe` (and the order of `EFDD.mpe`, which differs, through `Sem.guarded`)
* `setup/single.py`  `decimate_data`/`detrend_data`/`filter_data` (new `data`, bindings untouched),
  `rollback` (which re-runs `_initialize_data` and thereby empties `algorithms`)
* `setup/multi.py`  `MultiSetup_PoSER._init_setups`.
-/
namespace PV.Orch

/-- exception classes, as raised by the code at the mirrored places -/
inductive Exc where
  | valueError | keyError | attributeError
  deriving DecidableEq, Repr, Inhabited

inductive Outcome where
  | ok
  | raised (e : Exc)
  deriving DecidableEq, Repr, Inhabited

/-- the `fs`/`data` attributes of an algorithm instance: they are only *annotated* on the
    class (`fs: Optional[float]` without value), so an instance that never went through
    `_set_data` does not have them at all (`missing`); `unset` is `fs is None or data is None`. -/
inductive Bound (D : Type) where
  | missing
  | unset
  | set (d : D)
  deriving DecidableEq, Repr

/-- one algorithm instance: class, `run_params`, bound `(data, fs)`, `result`. -/
structure Entry (C P D R : Type) where
  cls : C
  params : Option P
  bound : Bound D
  result : Option R
  deriving DecidableEq, Repr

/-- a setup: current `(data, fs)`, the copy kept by `_initialize_data`, and the insertion-ordered
    dict `algorithms` (keys are unique: it is a Python dict). -/
structure State (C P D R : Type) where
  data : D
  initial : D
  algs : List (String × Entry C P D R)

/-- uninterpreted numerical semantics.
    * `run c p d` — `c.run()` with `run_params = p` on the bound `(data, fs) = d`
    * `mpeParams c p a` — `run_params` after the stores `self.run_params.sel_freq = …` of `c.mpe(a)`
    * `mpeRes c p b r a` — `result` after `c.mpe(a)` finished (it reads `self.result`, the freshly
      stored `run_params` and, for EFDD, `self.dt`)
    * `guarded c` — does `c.mpe` call the base-class guard (`if not self.result: raise ValueError`)
      *before* it stores anything?  (`FDD`, `SSIdat`, `SSIcov`, `pLSCF`: yes.  `EFDD`, `FSDD`,
      `EFDD_MS` on the pinned tree: no.)
    * `pre q d` — `decimate_data` / `detrend_data` / `filter_data` applied to `d`. -/
structure Sem (C P D R A Q : Type) where
  run : C → P → D → R
  mpeRes : C → P → Bound D → R → A → R
  mpeParams : C → P → A → P
  guarded : C → Bool
  pre : Q → D → D

inductive Op (C P A Q : Type) where
  /-- `setup.add_algorithms(c(name=n, **p))` with a fresh instance (`p = none`: no run parameters) -/
  | add (n : String) (c : C) (p : Option P)
  /-- `setup.algorithms[n] = c(name=n, **p)` — an instance that never saw `_set_data`
      (`isNone = true`: with `fs = data = None` set by hand) -/
  | inject (n : String) (c : C) (p : Option P) (isNone : Bool)
  | runByName (n : String)
  | runAll
  | mpe (n : String) (a : A)
  | pre (q : Q)
  | rollback
  deriving DecidableEq, Repr

variable {C P D R A Q : Type}

/-- `d[n]` of a dict kept as an association list (first match). -/
def get {α : Type} (n : String) : List (String × α) → Option α
  | [] => none
  | (k, v) :: t => if k = n then some v else get n t

/-- `{**d, n: v}`: an existing key keeps its position, a new key goes to the end. -/
def dictSet {α : Type} (n : String) (v : α) : List (String × α) → List (String × α)
  | [] => [(n, v)]
  | (k, w) :: t => if k = n then (k, v) :: t else (k, w) :: dictSet n v t

/-- `BaseAlgorithm._pre_run`. -/
def preRun (e : Entry C P D R) : Except Exc (P × D) :=
  match e.bound with
  | .missing => .error .attributeError            -- `self.fs`: no such attribute
  | .unset => .error .valueError                  -- "Sampling frequency and data must be set …"
  | .set d =>
    match e.params with
    | none => .error .valueError                  -- "Run parameters must be set …"
    | some p => .ok (p, d)

/-- `_pre_run(); result = run(); _set_result(result)` on one instance. -/
def runEntry (sem : Sem C P D R A Q) (e : Entry C P D R) : Except Exc (Entry C P D R) :=
  match preRun e with
  | .error x => .error x
  | .ok (p, d) => .ok { e with result := some (sem.run e.cls p d) }

/-- `BaseSetup.run_by_name`. -/
def runByName (sem : Sem C P D R A Q) (n : String) (s : State C P D R) : Outcome × State C P D R :=
  match get n s.algs with
  | none => (.raised .keyError, s)                -- `self[name]`
  | some e =>
    match runEntry sem e with
    | .error x => (.raised x, s)
    | .ok e' => (.ok, { s with algs := dictSet n e' s.algs })

/-- `for alg_name in self.algorithms: self.run_by_name(alg_name)` — the first exception ends the loop;
    what ran before keeps its new result. -/
def runAllAux (sem : Sem C P D R A Q) :
    List (String × Entry C P D R) → Outcome × List (String × Entry C P D R)
  | [] => (.ok, [])
  | (k, e) :: t =>
    match runEntry sem e with
    | .error x => (.raised x, (k, e) :: t)
    | .ok e' => ((runAllAux sem t).1, (k, e') :: (runAllAux sem t).2)

/-- `alg.mpe(a)` on one instance: outcome and the instance afterwards. -/
def mpeEntry (sem : Sem C P D R A Q) (e : Entry C P D R) (a : A) : Outcome × Entry C P D R :=
  if sem.guarded e.cls then
    -- `super().mpe(...)`: `if not self.result: raise ValueError("Run algorithm first")`
    match e.result with
    | none => (.raised .valueError, e)
    | some r =>
      match e.params with
      | none => (.raised .attributeError, e)      -- `self.run_params.sel_freq = …` on `None`
      | some p =>
        let p' := sem.mpeParams e.cls p a
        (.ok, { e with params := some p', result := some (sem.mpeRes e.cls p' e.bound r a) })
  else
    -- `EFDD.mpe` as coded on the pinned tree: the stores come first
    match e.params with
    | none => (.raised .attributeError, e)        -- `self.run_params.sel_freq = …` on `None`
    | some p =>
      let p' := sem.mpeParams e.cls p a
      match e.result with
      | none => (.raised .attributeError, { e with params := some p' })   -- `self.result.Sy` on `None`
      | some r => (.ok, { e with params := some p', result := some (sem.mpeRes e.cls p' e.bound r a) })

def step (sem : Sem C P D R A Q) (op : Op C P A Q) (s : State C P D R) : Outcome × State C P D R :=
  match op with
  | .add n c p =>
    (.ok, { s with algs := dictSet n { cls := c, params := p, bound := .set s.data, result := none } s.algs })
  | .inject n c p isNone =>
    (.ok, { s with algs := dictSet n { cls := c, params := p, bound := if isNone then .unset else .missing,
                                        result := none } s.algs })
  | .runByName n => runByName sem n s
  | .runAll => ((runAllAux sem s.algs).1, { s with algs := (runAllAux sem s.algs).2 })
  | .mpe n a =>
    match get n s.algs with
    | none => (.raised .keyError, s)
    | some e => ((mpeEntry sem e a).1, { s with algs := dictSet n (mpeEntry sem e a).2 s.algs })
  | .pre q => (.ok, { s with data := sem.pre q s.data })
  | .rollback =>
    -- `self.data = self._initial_data; …; self._initialize_data(...)` whose last line is
    -- `self.algorithms = {}`
    (.ok, { s with data := s.initial, algs := [] })

/-- state after a call sequence (exceptions are caught by the caller, the session goes on). -/
def exec (sem : Sem C P D R A Q) : List (Op C P A Q) → State C P D R → State C P D R
  | [], s => s
  | op :: t, s => exec sem t (step sem op s).2

/-- outcomes and states after every call of a sequence. -/
def trace (sem : Sem C P D R A Q) : List (Op C P A Q) → State C P D R → List (Outcome × State C P D R)
  | [], _ => []
  | op :: t, s => step sem op s :: trace sem t (step sem op s).2

/-- `SingleSetup(data, fs)`. -/
def State.new (d : D) : State C P D R := ⟨d, d, []⟩

/-! ## PoSER constructor validation (`MultiSetup_PoSER._init_setups`) -/
namespace Poser

/-- what `_init_setups` looks at in one algorithm: `type(alg)`, `alg.result`, `alg.result.Fn`. -/
structure AlgInfo (C : Type) where
  cls : C
  hasResult : Bool
  hasFn : Bool
  deriving DecidableEq, Repr

/-- `single_setups` (each the list of `setup.algorithms.values()`) and `len(names)`. -/
structure Config (C : Type) where
  setups : List (List (AlgInfo C))
  nNames : Nat

def classes (s : List (AlgInfo C)) : List C := s.map (·.cls)

/-- the generator body, line by line; `.ok ()` = every setup was yielded. -/
def check [DecidableEq C] (cfg : Config C) : Except Exc Unit :=
  if cfg.setups.length ≤ 1 then
    .error .valueError                                        -- "You must pass at least two setup"
  else if cfg.setups.any (fun s => s.isEmpty) then
    .error .valueError                                        -- "… at least one algorithm"
  else if !(cfg.setups.all (fun s => decide (classes s = classes (cfg.setups.headD [])))) then
    .error .valueError                                        -- "… must be consistent between setups"
  else if cfg.nNames ≠ (cfg.setups.headD []).length then
    .error .valueError                                        -- "The number of names must match …"
  else if cfg.setups.any (fun s => s.any (fun a => !a.hasResult || !a.hasFn)) then
    .error .valueError                                        -- "… already been run and … mpe …"
  else .ok ()

def accepts [DecidableEq C] (cfg : Config C) : Bool :=
  match check cfg with
  | .ok _ => true
  | .error _ => false

end Poser
end PV.Orch
