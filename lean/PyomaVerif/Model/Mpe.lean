import PyomaVerif.Model.NanTable
/-!
# `ssi.SSI_mpe` and `plscf.pLSCF_mpe` — modal parameter extraction (core Lean only)

Branch by branch as coded (`order` an `int`, a `list` of `int`, or `"find_min"`).
The closeness test of the `int`/`list` branches is a parameter (`chk`), so that the
same loop serves the repaired code (`np.isclose(pole, fj, rtol)`) and the pinned one
(`np.isclose(pole, freq_ref, rtol).any()`, see `Mutants/C11.lean`).
Orders are column indices (`Nat`; negative Python indices are not modelled).
-/
namespace PV

/-- the `order` argument -/
inductive MpeOrder where
  | findMin
  | int (o : Nat)
  | list (os : List Nat)
  deriving Repr

/-- the returned `order_out`: `None`, a Python `int`, or a numpy array -/
inductive OrderOut where
  | none
  | int (o : Int)
  | arr (os : List Int)
  deriving Repr, DecidableEq

/-- optional covariance tables (`Fn_cov`, `Xi_cov`, `Phi_cov`; the code tests `Fn_cov is not None` only). -/
structure MpeCov where
  fn : Mat NR
  xi : Mat NR
  phi : Ten3 NR

/-- the six lists the code appends to in parallel -/
structure MpeAcc where
  fn : List NR := []
  xi : List NR := []
  phi : List (List (Option CQ)) := []
  fnCov : List NR := []
  xiCov : List NR := []
  phiCov : List (List NR) := []

/-- result: the lists (one entry per returned mode; `Phi` is their transpose), `order_out`. -/
structure MpeOut where
  acc : MpeAcc
  orderOut : OrderOut

/-- `Phi[sel, ord, :]` -/
def ten3Row {K} (T : Ten3 K) (sel ord : Nat) : List K := (List.range T.d).map (T.e sel ord)

/-- the parallel appends of one selected cell `(sel, ord)`:
    `sel_freq.append(Fn_pol[:, ord][sel])`, `sel_xi.append(Xi_pol[:, ord][sel])`,
    `sel_phi.append(Phi_pol[:, ord][sel, :])` and, `if Fn_cov is not None`, the three covariances. -/
def accPush (Fn Xi : Mat NR) (Phi : Ten3 (Option CQ)) (cov : Option MpeCov) (acc : MpeAcc)
    (sel ord : Nat) : MpeAcc :=
  { fn := acc.fn ++ [Fn.e sel ord]
    xi := acc.xi ++ [Xi.e sel ord]
    phi := acc.phi ++ [ten3Row Phi sel ord]
    fnCov := match cov with | some c => acc.fnCov ++ [c.fn.e sel ord] | none => acc.fnCov
    xiCov := match cov with | some c => acc.xiCov ++ [c.xi.e sel ord] | none => acc.xiCov
    phiCov := match cov with | some c => acc.phiCov ++ [ten3Row c.phi sel ord] | none => acc.phiCov }

/-- one pass of the request loop of the `int`/`list` branches, request `fj` at column `ord?`
    (`none`: `order[ii]` out of range → `IndexError`).
    `sel = np.nanargmin(np.abs(Fn_pol[:, ord] - fj))` (all-NaN column → `ValueError`, not caught);
    `chk fj pole` is the closeness test. -/
def mpePass (Fn Xi : Mat NR) (Phi : Ten3 (Option CQ)) (cov : Option MpeCov) (chk : Rat → NR → Bool)
    (acc : MpeAcc) (fj : Rat) (ord? : Option Nat) : Except String MpeAcc :=
  match ord? with
  | none => throw "IndexError"
  | some ord =>
    if Fn.c ≤ ord then throw "IndexError"
    else match nanargminAbs (fun r => Fn.e r ord) Fn.r (some fj) with
      | none => throw "ValueError"
      | some sel =>
        if chk fj (Fn.e sel ord) then pure (accPush Fn Xi Phi cov acc sel ord)
        else pure acc          -- logger.warning("Could not find any values")

/-- the request loop over `(fj, order for fj)` pairs. -/
def mpeLoop (Fn Xi : Mat NR) (Phi : Ten3 (Option CQ)) (cov : Option MpeCov) (chk : Rat → NR → Bool) :
    List (Rat × Option Nat) → MpeAcc → Except String MpeAcc
  | [], acc => pure acc
  | (fj, ord?) :: rest, acc =>
    match mpePass Fn Xi Phi cov chk acc fj ord? with
    | .error e => .error e
    | .ok acc' => mpeLoop Fn Xi Phi cov chk rest acc'

/-- `enumerate(freq)` paired with `order[ii]`. -/
def listReqs (freq : List Rat) (os : List Nat) : List (Rat × Option Nat) :=
  (List.range freq.length).filterMap fun ii =>
    match freq[ii]? with
    | some f => some (f, os[ii]?)
    | none => none

/-- the repaired closeness test: `np.isclose(pole, fj, rtol=rtol)`. -/
def chkOwn (rtol : Rat) (fj : Rat) (pole : NR) : Bool := isclose pole (some fj) rtol

/-- `np.allclose(u, freq, rtol=rtol)` for equally long vectors. -/
def allcloseL (u freq : List Rat) (rtol : Rat) : Bool :=
  (List.zipWith (fun a b => isclose (some a) (some b) rtol) u freq).all id

/-- `np.isclose(u, freq, rtol=rtol).any()` for equally long vectors. -/
def anycloseL (u freq : List Rat) (rtol : Rat) : Bool :=
  (List.zipWith (fun a b => isclose (some a) (some b) rtol) u freq).any id

/-- first `i ∈ [start, start + fuel)` with `p i = some _`. -/
def firstSome {α} (p : Nat → Option α) : Nat → Nat → Option (Nat × α)
  | 0, _ => none
  | fuel + 1, i =>
    match p i with
    | some a => some (i, a)
    | none => firstSome p fuel (i + 1)

/-- `aggregated_poles` of `SSI_mpe`: stable poles (`Lab == lab`) inside the closed bands
    `[f − w, f + w]`, summed over the bands, `0 → NaN`. -/
def aggClosed (Fn : Mat NR) (Lab : Mat Int) (lab : Int) (freq : List Rat) (w : Rat) : Mat NR :=
  let st := whereEq Lab lab Fn
  ⟨Fn.r, Fn.c, fun i o =>
    let s := freq.foldl (fun acc f =>
      acc + (if nanGe (st.e i o) (f - w) && nanLe (st.e i o) (f + w) then (st.e i o).getD 0 else 0)) 0
    if s = 0 then none else some s⟩

/-- `aa` of `pLSCF_mpe`: the same with open bands `(f − w, f + w)`. -/
def aggOpen (Fn : Mat NR) (Lab : Mat Int) (lab : Int) (freq : List Rat) (w : Rat) : Mat NR :=
  let st := whereEq Lab lab Fn
  ⟨Fn.r, Fn.c, fun i o =>
    let s := freq.foldl (fun acc f =>
      acc + (if nanLt (st.e i o) (f + w) && nanGt (st.e i o) (f - w) then (st.e i o).getD 0 else 0)) 0
    if s = 0 then none else some s⟩

/-- the test of `SSI_mpe` on column `i`: `len(unique) == len(freq_ref) and np.allclose(unique, freq_ref, rtol)`. -/
def ssiQual (agg : Mat NR) (freq : List Rat) (rtol : Rat) (i : Nat) : Option (List Rat) :=
  let u := uniqueNonNan (fun r => agg.e r i) agg.r
  if u.length = freq.length && allcloseL u freq rtol then some u else none

/-- `for freq in unique_poles: index = np.nanargmin(np.abs(col - freq)); append Xi[index, i], …`
    (`fn` is not appended here: the code stores the `unique_poles` array itself). -/
def pickLoop (agg : Mat NR) (Xi : Mat NR) (Phi : Ten3 (Option CQ)) (cov : Option MpeCov) (i : Nat) :
    List Rat → MpeAcc → Except String MpeAcc
  | [], acc => pure acc
  | f :: rest, acc =>
    match nanargminAbs (fun r => agg.e r i) agg.r (some f) with
    | none => throw "ValueError"
    | some index =>
      pickLoop agg Xi Phi cov i rest
        { acc with
          xi := acc.xi ++ [Xi.e index i]
          phi := acc.phi ++ [ten3Row Phi index i]
          fnCov := match cov with | some c => acc.fnCov ++ [c.fn.e index i] | none => acc.fnCov
          xiCov := match cov with | some c => acc.xiCov ++ [c.xi.e index i] | none => acc.xiCov
          phiCov := match cov with | some c => acc.phiCov ++ [ten3Row c.phi index i] | none => acc.phiCov }

/-- `ssi.SSI_mpe(freq_ref, Fn_pol, Xi_pol, Phi_pol, order, Lab, rtol, Fn_cov, Xi_cov, Phi_cov)`
    with the closeness test `chk` in the `int`/`list` branches. -/
def ssiMpeWith (chk : Rat → NR → Bool) (freq : List Rat) (Fn Xi : Mat NR) (Phi : Ten3 (Option CQ))
    (order : MpeOrder) (Lab : Option (Mat Int)) (rtol : Rat) (cov : Option MpeCov) : Except String MpeOut :=
  match order with
  | .findMin =>
    match Lab with
    | none => throw "AttributeError"
    | some Lab =>
      let agg := aggClosed Fn Lab 1 freq rtol
      match firstSome (ssiQual agg freq rtol) agg.c 0 with
      | none => pure ⟨{}, .none⟩                    -- "Could not find any values"
      | some (i, u) =>
        match pickLoop agg Xi Phi cov i u { fn := u.map some } with
        | .error e => .error e
        | .ok acc => pure ⟨acc, .int i⟩
  | .int o =>
    match mpeLoop Fn Xi Phi cov chk (freq.map fun f => (f, some o)) {} with
    | .error e => .error e
    | .ok acc => if freq.isEmpty then throw "UnboundLocalError" else pure ⟨acc, .int o⟩
  | .list os =>
    match mpeLoop Fn Xi Phi cov chk (listReqs freq os) {} with
    | .error e => .error e
    | .ok acc => pure ⟨acc, .arr (os.map Int.ofNat)⟩   -- order_out = np.array(order)

/-- `ssi.SSI_mpe` after the proposed repair (closeness against the request itself). -/
def ssiMpe (freq : List Rat) (Fn Xi : Mat NR) (Phi : Ten3 (Option CQ)) (order : MpeOrder)
    (Lab : Option (Mat Int)) (rtol : Rat) (cov : Option MpeCov) : Except String MpeOut :=
  ssiMpeWith (chkOwn rtol) freq Fn Xi Phi order Lab rtol cov

/-- the `while check.any() == False:` loop of `pLSCF_mpe`, entered at column `ii` with `check`
    all `False`; returns `ii` at loop exit (before the `ii -= 1`) and the last `fn_at_ord_ii`. -/
def plscfWhile (aa : Mat NR) (freq : List Rat) (rtol : Rat) : Nat → Nat → Nat × List Rat
  | 0, ii => (ii, [])
  | fuel + 1, ii =>
    let u := uniqueNonNan (fun r => aa.e r ii) aa.r
    let chk := if u.length = freq.length then anycloseL u freq rtol else false
    if ii + 1 = aa.c then (ii, u)              -- if ii == aa.shape[1] - 1: warning; break
    else if chk then (ii + 1, u)               -- ii += 1; loop condition now false
    else plscfWhile aa freq rtol fuel (ii + 1)

/-- `for fj in sel_freq1: r_ind = np.nanargmin(np.abs(b - fj)); sel_xi.append(Xi_pol[r_ind, ii]); …` -/
def plscfPick (aa Xi : Mat NR) (Phi : Ten3 (Option CQ)) (col : Nat) :
    List Rat → MpeAcc → Except String MpeAcc
  | [], acc => pure acc
  | f :: rest, acc =>
    match nanargminAbs (fun r => aa.e r col) aa.r (some f) with
    | none => throw "ValueError"
    | some r =>
      plscfPick aa Xi Phi col rest
        { acc with xi := acc.xi ++ [Xi.e r col], phi := acc.phi ++ [ten3Row Phi r col] }

/-- `plscf.pLSCF_mpe(sel_freq, Fn_pol, Xi_pol, Phi_pol, order, Lab, deltaf, rtol)`;
    `lab` is the label value selected by `np.where(Lab == lab, Fn_pol, np.nan)` (`7` in the code). -/
def plscfMpeWith (chk : Rat → NR → Bool) (lab : Int) (freq : List Rat) (Fn Xi : Mat NR)
    (Phi : Ten3 (Option CQ)) (order : MpeOrder) (Lab : Option (Mat Int)) (deltaf rtol : Rat) :
    Except String MpeOut :=
  match order with
  | .findMin =>
    match Lab with
    | none => throw "ValueError"
    | some Lab =>
      if freq.isEmpty then pure ⟨{}, .arr []⟩       -- the loop body never runs: order_out = np.empty(0)
      else
        -- every pass of the outer loop recomputes the same thing; the last one is returned
        let aa := aggOpen Fn Lab lab freq deltaf
        if aa.c = 0 then throw "IndexError"          -- aa[:, 0]
        else
          let (iiExit, u) := plscfWhile aa freq rtol aa.c 0
          -- ii -= 1; a Python index of -1 is the last column
          let col := if iiExit = 0 then aa.c - 1 else iiExit - 1
          let c := nonNan (fun r => aa.e r col) aa.r
          if c.any (fun v => v != 0) then
            match plscfPick aa Xi Phi col u { fn := u.map some } with
            | .error e => .error e
            | .ok acc => pure ⟨acc, .int ((iiExit : Int) - 1)⟩
          else pure ⟨{ fn := u.map some }, .int ((iiExit : Int) - 1)⟩
  | .int o =>
    match mpeLoop Fn Xi Phi none chk (freq.map fun f => (f, some o)) {} with
    | .error e => .error e
    | .ok acc => pure ⟨acc, if freq.isEmpty then .arr [] else .int o⟩
  | .list os =>
    match mpeLoop Fn Xi Phi none chk (listReqs freq os) {} with
    | .error e => .error e
    -- order_out = np.empty(len(sel_freq)); order_out[ii] = order[ii] in either branch
    | .ok acc => pure ⟨acc, .arr ((os.take freq.length).map Int.ofNat)⟩

/-- `plscf.pLSCF_mpe` after the proposed repair of the `int`/`list` closeness test; the
    `find_min` branch is the pinned one (`Lab == 7`). -/
def plscfMpe (freq : List Rat) (Fn Xi : Mat NR) (Phi : Ten3 (Option CQ)) (order : MpeOrder)
    (Lab : Option (Mat Int)) (deltaf rtol : Rat) : Except String MpeOut :=
  plscfMpeWith (chkOwn rtol) 7 freq Fn Xi Phi order Lab deltaf rtol

end PV
