/-!
# Structures of the table `Generated/Dialog.lean` (written by `harness/translate_dialog.py` from
`support/sel_from_plot.py` and the `SelFromPlot(...)` call sites of `algorithms/*.py`) and queries over them.
Core Lean only.

Local names are resolved through their (single) assignment, parameters are renamed positionally (`$1` = first
parameter after `self`), zero-effect helper methods (`return <expr>` after local assignments) are inlined: the rows say
which OBJECT is read / written / searched, not how the statement is spelt.
-/
namespace PV.DialogTbl

/-- one method of the dialog class -/
structure Meth where
  name : String
  nparams : Nat
  /-- attributes of `self` the body binds, deletes or mutates in place (`append/pop/…`, `self.a[i] = …`), directly;
      `"*"` when the body can write any attribute (`setattr(self, …)`, `self.__dict__`, `vars(self)`) -/
  writes : List String
  /-- methods of `self` the body calls directly (calls inside a `lambda` / nested `def` are deferred: see `Callback`) -/
  calls : List String
  /-- maximal attribute chains rooted at `self` or at a parameter that the body reads -/
  reads : List String
deriving DecidableEq, Repr

/-- a callable handed to somebody else to be run later (`canvas.mpl_connect(ev, h)`, `menu.add_command(command=h)`,
    `root.protocol(name, h)`, `w.bind(seq, h)`, `root.after(ms, h)`, …: ANY call that receives a bound method of the
    dialog, a `lambda` or a local function) -/
structure Callback where
  method : String
  kind : String
  event : String
  /-- the methods of `self` the callable runs (a bound method: itself; a lambda / local def: every `self.m(…)` in it) -/
  targets : List String
  /-- the callable writes attributes of `self` itself, or is none of the recognised forms -/
  unknown : Bool
deriving DecidableEq, Repr

/-- a method that appends to the frequency list: what it appends and where it looked -/
structure PickHelper where
  name : String
  /-- the array whose element is appended to `sel_freq` (`T` of `self.sel_freq.append(T[…])`), resolved -/
  freqTable : String
  /-- everything read by the subscript of that element -/
  freqIndexReads : List String
  /-- the list the index is appended to (`pole_ind` / `freq_ind`) -/
  indList : String
  /-- everything read by the appended index -/
  indReads : List String
  /-- the appended index IS a component of the subscript of the appended frequency (`T[sel, y_ind]` / `T[sel]`):
      the frequency is the table entry AT the stored order / line -/
  indInFreqIndex : Bool
  /-- the resolved base of every other subscript / `.shape` in the two appended expressions -/
  tables : List String
  /-- names assigned more than once, or under a loop (their value is not a single expression) -/
  unresolved : List String
  /-- `freqTable` as an expression on the algorithm object: `self.algo.` replaced by `self.` (`""` when the table is not
      an attribute chain of `self.algo`) -/
  tableOnAlgo : String
deriving DecidableEq, Repr

inductive Act where
  /-- `self.x_data_pole = x; self.y_data_pole = y; self.<helper>(…)` -/
  | pick (helper x y : String)
  /-- `.pop()` on every list of `popped` -/
  | popLast
  /-- `.pop(i)` on every list of `popped`, `i = fn(…)` reading `reads` -/
  | popNearest (fn : String) (reads : List String)
  | other (src : String)
deriving DecidableEq, Repr

/-- one branch `if <param>.button == k and self.shift_is_held:` of a click handler -/
structure Branch where
  button : Nat
  /-- the test also requires `self.shift_is_held` -/
  shift : Bool
  /-- the lists that must be non-empty (`if self.a and self.b:` around the action) -/
  guard : List String
  /-- the lists popped -/
  popped : List String
  act : Act
deriving DecidableEq, Repr

/-- a method whose body is one `if / elif` chain on `<param>.button`; `branches` sorted by button code (the tests are
    pairwise exclusive when `wellFormed`) -/
structure Handler where
  name : String
  nparams : Nat
  /-- every test is `<first param>.button == <int>` ∧ possibly `self.shift_is_held`, the codes are pairwise distinct,
      there is no `else` branch, and nothing precedes / follows the chain but a docstring -/
  wellFormed : Bool
  branches : List Branch
deriving DecidableEq, Repr

/-- `self.<target> = <source permuted by argsort(<perm>)>` in force for one dialog variant -/
structure SortAssign where
  method : String
  target : String
  source : String
  /-- the argument of `np.argsort` the permutation comes from (evaluated BEFORE any list is rebound) -/
  perm : String
  stable : Bool
deriving DecidableEq, Repr

/-- `SelFromPlot(...)` in a method of an algorithm class: the expressions bound to the constructor's parameters -/
structure DlgSite where
  cls : String
  method : String
  algo : String
  plot : String
deriving DecidableEq, Repr

end PV.DialogTbl
