import PyomaVerif.Model.MsGather
import PyomaVerif.Model.Poles
/-!
# `ssi.SSI_multi_setup` as ONE executed function (core Lean only)

* `selRows`, `oRef`, `oMov`, `msObsAll` (namespace `PV.MsFreeVib`, moved here unchanged from
  `Lemmas/MsFreeVib.lean` so that the compiled driver can run them): fancy-index row selection, the
  reference / roving part of a per-setup observability factor, the re-based and block-interleaved `Obs_all`.
* `PV.MultiSetup.ssiMultiSetup Y br ordmax step rc` — `ssi.SSI_multi_setup(Y, fs, br, ordmax, method_hank, step)`
  statement by statement, everything the function does AROUND `build_hank`, `np.linalg.svd`, `np.sqrt`,
  `np.linalg.pinv`, `np.linalg.qr`, `np.linalg.inv` (their results are the record `rc`):
  the head (`n_setup`, `n_ref = Y[0]["ref"].shape[0]`, `n_mov`, `n_DOF`), per pass `kk` the two arrays handed to
  `build_hank` (`np.vstack((ref, mov))`, `ref`), `Obs = U1[:, :ordmax]·S1rad[:ordmax, :ordmax]` with numpy's
  slice clipping (`ValueError` when `ordmax` exceeds the number of singular values), `ref_id` / `mov_id`,
  `O_ref = Obs[ref_id, :]` (the ARGUMENT of `pinv`), `if kk == 0: O1_ref = O_ref`,
  `O_movs = O_mov·pinv(O_ref)·O1_ref`; the `zeros` + slice writes of the interleaving; `O_p` (the ARGUMENT of
  `qr`), `O_m`, `S = Qᵀ·O_m`; the loop `for i in range(0, ordmax + 1, step)`: `R[:i, :i]` (the ARGUMENT of
  `inv`), `A.append(inv(R[:i,:i])·S[:i,:i])`, `C.append(Obs_all[:n_DOF, :i])`.

`fs` and `method_hank` are not parameters: `fs` is never read by the code (`# dt = 1 / fs` is a comment) and
`method_hank` only travels to `build_hank`.

Exceptions (first in program order): `Y[0]` on an empty list → `IndexError`; `np.vstack` of records with
different sample counts → `ValueError`; `np.dot(U1[:, :ordmax], S1rad[:ordmax, :ordmax])` with clipped,
unequal slices → `ValueError`; `Obs[ref_id, :]` / `Obs[mov_id, :]` with an index array without entries
(`np.array([])` is float64: no reference or no roving sensor) or an index past the last row → `IndexError`;
`range(0, ordmax + 1, 0)` → `ValueError` (after the setup loop and the `qr`); `np.linalg.inv(R[:i, :i])` of a clipped,
non-square slice (an order above the number of rows of `O_p`) → `LinAlgError`.

Three situations are reported as `unmodelled: …` (the harness never compares them; none can arise from
`gen.pre_multisetup` output with equally many references per setup and `br ≥ 1`):
`br = 0`; a setup whose reference block has another number of rows than setup 0 (the code keeps using
`n_ref` of setup 0); a recorded `svd` with fewer than `ordmax` singular values whose `U` has equally few
columns (then the slice writes into `np.zeros((n_DOF*br, ordmax))` broadcast or raise).
-/
namespace PV.MsFreeVib
open PV PV.Multi

section model
variable {K : Type}

/-- `Obs[rows, :]` (fancy indexing with an index array) -/
def selRows (O : Mat K) (rows : List Nat) : Mat K := ⟨rows.length, O.c, fun i j => O.e (rows.getD i 0) j⟩

/-- `O_ref = Obs[ref_id, :]` of a setup with `nm` roving sensors -/
def oRef (br nref nm : Nat) (Obs : Mat K) : Mat K := selRows Obs (refRows br nref nm)
/-- `O_mov = Obs[mov_id, :]` -/
def oMov (br nref nm : Nat) (Obs : Mat K) : Mat K := selRows Obs (movRows br nref nm)

/-- `Obs_all` of `SSI_multi_setup`: `Ob kk` the per-setup factor `U1[:, :ordmax]·S1rad[:ordmax, :ordmax]`,
    `P kk` the recorded `pinv(O_ref)` of setup `kk`; `O1_ref` is the reference part of setup 0; row `r` is
    copied from the source `allRows[r]` (the `id1/id2` loop). -/
def msObsAll [Zero K] [Add K] [Mul K] (br N nref : Nat) (nmov : List Nat) (Ob P : Nat → Mat K) : Mat K :=
  ⟨br * (nref + nmov.sum), N, fun r j =>
    match (allRows br nref nmov)[r]? with
    | some (.ref q) => (oRef br nref (nmov.getD 0 0) (Ob 0)).e q j
    | some (.mov jj q) =>
        (rebase (oMov br nref (nmov.getD jj 0) (Ob jj)) (P jj) (oRef br nref (nmov.getD 0 0) (Ob 0))).e q j
    | none => 0⟩

end model
end PV.MsFreeVib

namespace PV.MultiSetup
open PV PV.Multi PV.MsGather PV.MsFreeVib PV.Poles

/-- what the LAPACK / numpy calls of one `SSI_multi_setup` run returned -/
structure MsRec (K : Type) where
  /-- `U1` of `np.linalg.svd(H)` in pass `kk` (all its columns) -/
  U : Nat → Mat K
  /-- `np.sqrt(S1)` of pass `kk` (ALL singular values; `S1rad = np.sqrt(np.diag(S1))` is the diagonal matrix of
      these, its off-diagonal zeros contribute exact zeros to the product) -/
  sq : Nat → List K
  /-- `np.linalg.pinv(O_ref)` of pass `kk` -/
  P : Nat → Mat K
  /-- `Q, R = np.linalg.qr(O_p)` -/
  Q : Mat K
  R : Mat K
  /-- `np.linalg.inv(R[:i, :i])` of pass `k` of the order loop (`i = k·step`) -/
  Rinv : Nat → Mat K

/-- what `SSI_multi_setup` returns (`obsAll`, `A`, `C`) and the arguments it forms on the way -/
structure MsOut (L K : Type) where
  head : MsHead
  /-- `(Y_all, Y_ref)` handed to `build_hank`, one pair per pass -/
  hankArgs : List (Mat L × Mat L)
  /-- the argument `O_ref` of `np.linalg.pinv`, one per pass -/
  pinvArgs : List (Mat K)
  obsAll : Mat K
  /-- the argument `O_p` of `np.linalg.qr` -/
  qrArg : Mat K
  /-- the arguments `R[:i, :i]` of `np.linalg.inv`, one per pass of the order loop -/
  invArgs : List (Mat K)
  A : List (Mat K)
  C : List (Mat K)

section
variable {L K : Type} [Zero K] [Add K] [Mul K]

/-- `np.sqrt(S1)[j]`, zero past the last singular value -/
def sqFn (rc : MsRec K) (kk : Nat) : Nat → K := fun j => (rc.sq kk).getD j 0

/-- `Obs = np.dot(U1[:, :ordmax], S1rad[:ordmax, :ordmax])` of pass `kk`: `U1[:, :ordmax]` has
    `min(ordmax, U1.shape[1])` columns, `S1rad[:ordmax, :ordmax]` is square of size `min(ordmax, len(S1))`. -/
def msObs (rc : MsRec K) (ordmax kk : Nat) : Except String (Mat K) :=
  if min ordmax (rc.U kk).c ≠ min ordmax (rc.sq kk).length then .error "ValueError"
  else if (rc.sq kk).length < ordmax then .error "unmodelled: fewer than ordmax singular values and columns of U"
  else .ok (obsOf (rc.U kk) (sqFn rc kk) ordmax)

/-- the loop `for kk in trange(n_setup)` over the passes `kks`: the `build_hank` arguments and the `pinv`
    argument of every pass (the re-based roving parts are assembled by `msObsAll`). -/
def msSetupLoop (Y : List (Setup L)) (h : MsHead) (br ordmax : Nat) (rc : MsRec K) :
    List Nat → Except String (List ((Mat L × Mat L) × Mat K))
  | [] => .ok []
  | kk :: rest =>
    -- Y_ref = Y[kk]["ref"]; Y_all = np.vstack((Y[kk]["ref"], Y[kk]["mov"])); r = Y_all.shape[0]
    match ssiMsHankArgs Y kk with
    | none => .error "ValueError"
    | some hk =>
      if hk.2.r ≠ h.n_ref then .error "unmodelled: n_ref of setup 0 used for a setup with another number of references"
      else
      -- H, _ = build_hank(Y_all, Y_ref, br, …); U1, S1, V1_t = np.linalg.svd(H); S1rad = np.sqrt(np.diag(S1))
      match msObs rc ordmax kk with
      | .error e => .error e
      | .ok Obs =>
        let nm := h.n_mov.getD kk 0
        -- ref_id / mov_id: np.array([]) of an empty list is float64, not an index array
        if h.n_ref = 0 ∨ nm = 0 then .error "IndexError"
        else if (refRows br h.n_ref nm ++ movRows br h.n_ref nm).any (fun i => decide (Obs.r ≤ i)) then .error "IndexError"
        else
        match msSetupLoop Y h br ordmax rc rest with
        | .error e => .error e
        | .ok ps => .ok ((hk, oRef br h.n_ref nm Obs) :: ps)

/-- **`ssi.SSI_multi_setup(Y, fs, br, ordmax, method_hank, step)`** around its LAPACK calls. -/
def ssiMultiSetup (Y : List (Setup L)) (br ordmax step : Nat) (rc : MsRec K) : Except String (MsOut L K) :=
  match ssiMsHead Y with
  | none => .error "IndexError"
  | some h =>
    if br = 0 then .error "unmodelled: br = 0" else
    match msSetupLoop Y h br ordmax rc (List.range h.n_setup) with
    | .error e => .error e
    | .ok ps =>
      -- Obs_all = np.zeros((n_DOF * br, ordmax)) and the slice writes of the `ii` / `jj` loops
      let Obs_all := msObsAll br ordmax h.n_ref h.n_mov (fun kk => obsOf (rc.U kk) (sqFn rc kk) ordmax) rc.P
      -- O_p = Obs_all[: Obs_all.shape[0] - n_DOF, :]; O_m = Obs_all[n_DOF:, :]; Q, R = qr(O_p); S = Q.T·O_m
      let O_p := upPart Obs_all h.n_DOF
      -- for i in trange(0, ordmax + 1, step)
      if step = 0 then .error "ValueError" else
      -- np.linalg.inv(R[:i, :i]): the slice clips to min(i, R.shape[0]) x min(i, R.shape[1]); not square -> LinAlgError
      if (List.range ((ordmax + 1 + step - 1) / step)).any
          (fun k => decide (min (k * step) rc.R.r ≠ min (k * step) rc.R.c)) then .error "LinAlgError" else
      let AC := fastLists rc.Rinv rc.Q Obs_all h.n_DOF ordmax step
      .ok { head := h, hankArgs := ps.map (·.1), pinvArgs := ps.map (·.2), obsAll := Obs_all, qrArg := O_p,
            invArgs := (List.range ((ordmax + 1 + step - 1) / step)).map fun k => leadBlock rc.R (k * step),
            A := AC.1, C := AC.2 }

end
end PV.MultiSetup
