import PyomaVerif.Model.Basic
/-!
# Spectral matrix estimation (`fdd.SD_est`) — executable model, core Lean only

`SD_est(Yall, Yref, dt, nxseg, method, pov)` calls `scipy.signal.csd` on
`Yall.reshape(n_all,1,Ndat)`, `Yref.reshape(1,n_ref,Ndat)` (broadcasting over the
channel/reference pairs).  `welchCsd` is Welch's estimate as `csd` computes it (defaults
`detrend="constant"`, `scaling="density"`, `average="mean"`, one-sided):

* hop `step = nperseg − noverlap`, `(n − noverlap) // step` segments starting at `s·step`;
* every segment has its mean removed, is multiplied by the window and zero-padded to `nfft`;
* `X_s[k] = Σ_t seg_s[t]·tw(k·t)` with `tw m = exp(−2πi·m/nfft)` (a parameter of the model);
* `conj(X_s[k])·Y_s[k]` scaled by `1/(fs·Σw²)`, doubled for the one-sided density except
  at DC and (even `nfft`) Nyquist, averaged over the segments;
* frequencies `k/(nfft·(1/fs))`, `k = 0 … nfft//2`.

Everything is polymorphic in the real scalar type `K` (run with `Float` in the driver,
reasoned about over an ordered field); complex numbers are pairs `CxS K`.
The model covers records with `nxseg ≤ Ndat` (shorter records make scipy shrink the
segment with a warning; the property's domain has at least two segments).
-/
namespace PV

/-- complex numbers as pairs -/
structure CxS (K : Type) where
  re : K
  im : K
deriving DecidableEq

namespace CxS
variable {K : Type}
instance [Zero K] : Zero (CxS K) := ⟨⟨0, 0⟩⟩
instance [Add K] : Add (CxS K) := ⟨fun a b => ⟨a.re + b.re, a.im + b.im⟩⟩
instance [Add K] [Sub K] [Mul K] : Mul (CxS K) :=
  ⟨fun a b => ⟨a.re * b.re - a.im * b.im, a.re * b.im + a.im * b.re⟩⟩
def conj [Neg K] (a : CxS K) : CxS K := ⟨a.re, -a.im⟩
def ofReal [Zero K] (x : K) : CxS K := ⟨x, 0⟩
/-- real multiple -/
def smul [Mul K] (s : K) (a : CxS K) : CxS K := ⟨s * a.re, s * a.im⟩
/-- division by a real -/
def divR [Div K] (a : CxS K) (s : K) : CxS K := ⟨a.re / s, a.im / s⟩
end CxS

section
variable {K : Type} [Zero K] [One K] [Add K] [Sub K] [Mul K] [Div K] [Neg K] [NatCast K]

/-- `Σ_{t<n} x[t]·tw(k·t)`: line `k` of the discrete Fourier transform of `x[0:n]`
    (zero-padded to the length `N` for which `tw m = exp(−2πi·m/N)`). -/
def dft (n : Nat) (tw : Nat → CxS K) (x : Nat → CxS K) (k : Nat) : CxS K :=
  sumTo n (fun t => x t * tw (k * t))

/-- circular delay by `d` samples of the first `n` samples: `y[t] = x[(t − d) mod n]`. -/
def circDelay {α : Type} (n d : Nat) (x : Nat → α) (t : Nat) : α := x ((t + (n - d % n)) % n)

/-- mean of segment `s` (start `s·step`, length `nperseg`): what `detrend="constant"` removes. -/
def segMean (x : Nat → K) (nperseg step s : Nat) : K :=
  sumTo nperseg (fun t => x (s * step + t)) / (nperseg : K)

/-- transform of segment `s` after mean removal and windowing (zero-padded to the length of `tw`). -/
def welchX (x : Nat → K) (w : Nat → K) (nperseg step : Nat) (tw : Nat → CxS K) (s k : Nat) : CxS K :=
  let m := segMean x nperseg step s
  dft nperseg tw (fun t => CxS.ofReal (w t * (x (s * step + t) - m))) k

/-- result of `scipy.signal.csd` for one pair of real records -/
structure Csd (K : Type) where
  nf : Nat
  freq : Nat → K
  val : Nat → CxS K

def welchNseg (n nperseg noverlap : Nat) : Nat := (n - noverlap) / (nperseg - noverlap)

/-- `scipy.signal.csd(x, y, fs, window=w, nperseg, noverlap, nfft)` for records of length `n`
    (`conj(X)·Y`: the FIRST argument is conjugated). -/
def welchCsd (x y : Nat → K) (n : Nat) (fs : K) (w : Nat → K) (nperseg noverlap nfft : Nat)
    (tw : Nat → CxS K) : Csd K :=
  let step := nperseg - noverlap
  let nseg := welchNseg n nperseg noverlap
  let scale : K := 1 / (fs * sumTo nperseg (fun t => w t * w t))
  { nf := nfft / 2 + 1
    freq := fun k => (k : K) * (1 / ((nfft : K) * (1 / fs)))
    val := fun k =>
      let avg := CxS.divR (sumTo nseg (fun s =>
        CxS.conj (welchX x w nperseg step tw s k) * welchX y w nperseg step tw s k)) (nseg : K)
      let p := CxS.smul scale avg
      if k = 0 ∨ (nfft % 2 = 0 ∧ k = nfft / 2) then p else CxS.smul (1 + 1) p }

/-- periodic Hann window of the length `N` of the twiddle: `0.5 − 0.5·cos(2πt/N)`,
    `cos(2πt/N) = Re tw(t)`. -/
def hann (tw : Nat → CxS K) (t : Nat) : K := 1 / (1 + 1) - 1 / (1 + 1) * (tw t).re

/-- the `n_all × n_ref × n_freq` spectral matrix with its frequency vector -/
structure Spec (K : Type) where
  nall : Nat
  nref : Nat
  nf : Nat
  freq : Nat → K
  e : Nat → Nat → Nat → CxS K

/-- `SD_est(Yall, Yref, dt, nxseg, method="per", pov)` with `noverlap = int(nxseg·pov)`:
    `csd(Yall[:,None,:], Yref[None,:,:], fs=1/dt, nperseg=nxseg, noverlap, window="hann")`. -/
def sdEstPer (Yall Yref : Mat K) (dt : K) (nxseg noverlap : Nat) (tw : Nat → CxS K) : Spec K :=
  let Ndat := Yref.c
  let fs : K := 1 / dt
  let one := fun (i j : Nat) =>
    welchCsd (Yall.e i) (Yref.e j) Ndat fs (hann tw) nxseg noverlap nxseg tw
  { nall := Yall.r, nref := Yref.r
    nf := nxseg / 2 + 1
    freq := (one 0 0).freq
    e := fun i j k => (one i j).val k }

/-! ### the correlogram chain (`method="cor"`) -/

/-- first stage: `csd(..., nperseg=nxseg//2, nfft=nxseg, noverlap=0, window="boxcar")`
    with the default `fs = 1.0`; `nxseg//2 + 1` lines. -/
def corPxy (Yall Yref : Mat K) (nxseg : Nat) (tw : Nat → CxS K) (i j : Nat) : Nat → CxS K :=
  (welchCsd (Yall.e i) (Yref.e j) Yref.c 1 (fun _ => 1) (nxseg / 2) 0 nxseg tw).val

/-- `np.fft.irfft(P)` for `m` input lines: output length `n2 = 2(m−1)`, the imaginary parts
    of the first and last line are ignored; `tw2 q = exp(−2πi·q/n2)`. -/
def irfft (m : Nat) (tw2 : Nat → CxS K) (P : Nat → CxS K) (t : Nat) : K :=
  ((P 0).re
    + sumTo (m - 2) (fun k' => (1 + 1) * (P (k' + 1) * CxS.conj (tw2 ((k' + 1) * t))).re)
    + (if t % 2 = 0 then (P (m - 1)).re else - (P (m - 1)).re)) / ((2 * (m - 1) : Nat) : K)

/-- second stage from the first-stage spectrum `P` (`m` lines):
    `Rxy = irfft(P); Rxy *= exponential(n2, center=0, tau=−n2/ln 0.01); Sy = rfft(Rxy)`;
    `ew t` is the exponential window value `0.01^(t/n2)`. -/
def corFromPxy (m : Nat) (tw2 : Nat → CxS K) (ew : Nat → K) (P : Nat → CxS K) (k : Nat) : CxS K :=
  dft (2 * (m - 1)) tw2 (fun t => CxS.ofReal (irfft m tw2 P t * ew t)) k

/-- `SD_est(..., method="cor")`. `tw` is the twiddle of length `nxseg`, `tw2` that of length
    `2·(nxseg//2)` (the same for even `nxseg`), `ew` the exponential window. The frequency
    vector is `arange(n_lines)·(1/dt/nxseg)`. -/
def sdEstCor (Yall Yref : Mat K) (dt : K) (nxseg : Nat) (tw tw2 : Nat → CxS K) (ew : Nat → K) :
    Spec K :=
  let m := nxseg / 2 + 1
  { nall := Yall.r, nref := Yref.r
    nf := (2 * (m - 1)) / 2 + 1
    freq := fun k => (k : K) * (1 / dt / (nxseg : K))
    e := fun i j k => corFromPxy m tw2 ew (corPxy Yall Yref nxseg tw i j) k }

end

end PV
