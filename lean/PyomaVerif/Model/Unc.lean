import PyomaVerif.Model.Basic
import PyomaVerif.Model.Hankel
/-!
# Uncertainty propagation of covariance-driven SSI (`ssi.build_hank` uncertainty branch,
`ssi.SSI_fast` Kronecker selections / `Q1..Q4` assembly, `ssi.SSI_poles` variance read-out)

Core Lean only.  The model mirrors the code AFTER the three one-line repairs in `proposed_fixes/`
(fix_13: `order="F"` in the two `reshape(-1, 1)` of `build_hank`; fix_14:
`Vom = V1_t[:ordmax, :].T`; fix_25: `Hcov_k = np.dot(Yp_k, Ym_k.T) * N / Nb`);
the pre-repair variants are in `Mutants/C17.lean`.
-/
namespace PV
namespace Unc
open Mat

variable {K : Type}

/-! ## Vectorisations -/

/-- position of entry `(i, j)` in `M.reshape(-1, order="F")` for a matrix with `r` rows. -/
def idxC (r i j : Nat) : Nat := j * r + i
/-- position of entry `(i, j)` in `M.reshape(-1)` (row-major) for a matrix with `c` columns. -/
def idxR (c i j : Nat) : Nat := i * c + j

/-- `H.reshape(-1, order="F")`: column stacking. -/
def vecC (H : Mat K) : Nat → K := fun m => H.e (m % H.r) (m / H.r)
/-- `H.reshape(-1)`: row-major flattening (numpy default order). -/
def vecR (H : Mat K) : Nat → K := fun m => H.e (m / H.c) (m % H.c)

/-! ## Kronecker selections of `SSI_fast` (index level) -/

/-- `np.eye(n)`. -/
def eye [Zero K] [One K] (n : Nat) : Mat K := ⟨n, n, fun i j => if i = j then 1 else 0⟩
/-- a 1-D array of length `n` as numpy's `kron` promotes it: shape `(1, n)`. -/
def rowVec (n : Nat) (u : Nat → K) : Mat K := ⟨1, n, fun _ j => u j⟩
/-- `np.kron(A, B)`: entry `[i·B.r + k, j·B.c + l] = A[i,j]·B[k,l]`. -/
def kron [Mul K] (A B : Mat K) : Mat K :=
  ⟨A.r * B.r, A.c * B.c, fun i j => A.e (i / B.r) (j / B.c) * B.e (i % B.r) (j % B.c)⟩
/-- `np.kron(np.eye(c), u.T)` with `u = Uom[:, ii]` of length `n` (`.T` of a 1-D array is a
    no-op): shape `(c, c·n)`. -/
def selIU [Zero K] [One K] [Mul K] (c n : Nat) (u : Nat → K) : Mat K := kron (eye c) (rowVec n u)
/-- `np.kron(v.T, np.eye(n))` with `v = Vom[:, ii]` of length `c`: shape `(n, c·n)`. -/
def selVI [Zero K] [One K] [Mul K] (c n : Nat) (v : Nat → K) : Mat K := kron (rowVec c v) (eye n)
/-- matrix times 1-D array. -/
def mulVec [Zero K] [Add K] [Mul K] (M : Mat K) (x : Nat → K) : Nat → K :=
  fun i => sumTo M.c (fun m => M.e i m * x m)
/-- column `j` as a one-column matrix (`T[:, [j]]`). -/
def colOf (T : Mat K) (j : Nat) : Mat K := ⟨T.r, 1, fun i _ => T.e i j⟩

/-- `Vom = V1_t[:ordmax, :].T` (after the repair of F14): column `ii` is the `ii`-th right
    singular vector, i.e. row `ii` of `Vᵀ`. -/
def vom (Vt : Mat K) (ordmax : Nat) : Mat K := transpose (rowSlice Vt 0 ordmax)

/-! ## Covariance factor of `build_hank(..., method="cov_mm", calc_unc=True, nb)` -/

/-- numpy `M[:, a:b]` with the stop clipped to the number of columns (what a slice does when
    `b > M.c`; `colSlice` of `Basic` is for in-range slices). -/
def colSliceT (m : Mat K) (a b : Nat) : Mat K := ⟨m.r, min b m.c - a, fun i j => m.e i (a + j)⟩

/-- `Hcov_k = np.dot(Yf[:, k*Nb:(k+1)*Nb], Yp[:, k*Nb:(k+1)*Nb].T) * N / Nb` (after the repair
    of the block scale: `Yf`, `Yp` carry `1/sqrt(N)` each, so the product of the block's
    columns has to be multiplied by `N` to be the Hankel estimate of that block). -/
def blockEst [Zero K] [Add K] [Mul K] [Div K] [NatCast K] (Yf Yp : Mat K) (N Nb k : Nat) : Mat K :=
  let A := colSliceT Yf (k * Nb) ((k + 1) * Nb)
  let B := colSliceT Yp (k * Nb) ((k + 1) * Nb)
  let P := mulT A B
  ⟨P.r, P.c, fun i j => P.e i j * (N : K) / (Nb : K)⟩

/-- outcome of the uncertainty branch -/
inductive Factor (K : Type) where
  /-- `N // nb` with `nb = 0`: `ZeroDivisionError` -/
  | zeroDiv : Factor K
  /-- `Nb = 0` (division `0/0` of every block estimate) or `nb = 1` (division by
      `sqrt(nb·(nb−1)) = 0`): every entry of `T` is NaN or ±inf -/
  | nonFinite : Factor K
  | ok (T : Mat K) : Factor K

/-- The factor `T`, given the stacked future/past data `Yf`, `Yp` (`hankYf`, `hankYp`), the
    Hankel length `N` (`Nb = N // nb`) and `s = 1/sqrt(nb·(nb−1))`:
    `T[:, k] = (Hcov_k.reshape(-1, 1, order="F") − Hank.reshape(-1, 1, order="F")).flatten() · s`.
    (`Hcov`, the running mean of the block estimates, is accumulated by the code but never
    used: the deviations are from the full estimate `Hank`.) -/
def covFactor [Zero K] [Add K] [Sub K] [Mul K] [Div K] [NatCast K]
    (Yf Yp : Mat K) (nb N : Nat) (s : K) : Factor K :=
  if nb = 0 then .zeroDiv
  else if N / nb = 0 ∨ nb = 1 then .nonFinite
  else .ok ⟨Yf.r * Yp.r, nb,
    fun m k => (vecC (blockEst Yf Yp N (N / nb) k) m - vecC (mulT Yf Yp) m) * s⟩

/-- `build_hank(Y, Yref, br=p, "cov_mm", calc_unc=True, nb)`: `(Hank, T)`; `s0 = 1/N**0.5`. -/
def buildHankUnc [Zero K] [Add K] [Sub K] [Mul K] [Div K] [NatCast K]
    (Y Yref : Mat K) (p nb : Nat) (s0 s : K) : Mat K × Factor K :=
  let N := Y.c - p - (p + 1)
  let Yf := hankYf Y p s0
  let Yp := hankYp Y.c Yref p s0
  (mulT Yf Yp, covFactor Yf Yp nb N s)

/-! ## Variance read-out of `SSI_poles` -/

/-- `Ufx = Jfx · vstack([real(JaohT), imag(JaohT)])` where the complex row
    `JaohT = Σ_m w[m]·Q[m, :]` is a complex combination `w = wr + i·wi` of the rows of the real
    stacked sensitivities `Q` (`Q1_n, Q2_n, Q3_n`, each a real matrix times `T`). -/
def ufx [Zero K] [Add K] [Mul K] (J : Mat K) (wr wi : Nat → K) (Q : Mat K) : Mat K :=
  ⟨2, Q.c, fun a j =>
    J.e a 0 * sumTo Q.r (fun m => wr m * Q.e m j) + J.e a 1 * sumTo Q.r (fun m => wi m * Q.e m j)⟩

/-- the real `2 × Q.r` matrix `G` with `ufx J wr wi Q = G·Q`. -/
def gOf [Add K] [Mul K] (J : Mat K) (wr wi : Nat → K) (n : Nat) : Mat K :=
  ⟨2, n, fun a m => J.e a 0 * wr m + J.e a 1 * wi m⟩

/-- `cov_fx = Ufx·Ufxᵀ; cov_fx[0, 0]` (the code stores `abs` of it). -/
def var00 [Zero K] [Add K] [Mul K] (U : Mat K) : K := (mulT U U).e 0 0

/-! ## `Q1..Q4` of `SSI_fast` (eqs 28–37 as coded), given the recorded `svd` / `inv` outputs

`np.linalg.svd`, `np.sqrt` and `np.linalg.inv` are external: `U = Uom`, `V = Vom` (after
fix_14), `sig ii = Som[ii]`, `rs ii = 1/np.sqrt(Som[ii])`, `Ki ii` = the inverse the code
obtained, `Op`, `Om` = `O_p`, `O_m`.  Intermediate results are materialised (`force`) for
speed only. -/

def zeros [Zero K] (r c : Nat) : Mat K := ⟨r, c, fun _ _ => 0⟩
/-- `np.hstack([A, B])` -/
def hstack2 (A B : Mat K) : Mat K :=
  ⟨A.r, A.c + B.c, fun i j => if j < A.c then A.e i j else B.e i (j - A.c)⟩
/-- `np.vstack([A, B])` -/
def vstack2 (A B : Mat K) : Mat K :=
  ⟨A.r + B.r, A.c, fun i j => if i < A.r then A.e i j else B.e (i - A.r) j⟩
/-- `u.reshape(-1, 1)` -/
def colVec (n : Nat) (u : Nat → K) : Mat K := ⟨n, 1, fun i _ => u i⟩
/-- `M[:, j]` -/
def col (M : Mat K) (j : Nat) : Nat → K := fun i => M.e i j
/-- `M / a` -/
def divS [Div K] (M : Mat K) (a : K) : Mat K := ⟨M.r, M.c, fun i j => M.e i j / a⟩

section Q
variable [Zero K] [One K] [Add K] [Sub K] [Mul K] [Div K] [Inhabited K]

/-- the argument of `np.linalg.inv` in eq. 28:
    `eye(qr) + vstack([zeros((qr−1, qr)), 2·v.T]) − HᵀH/σ²`. -/
def kiArg (H : Mat K) (nV : Nat) (v : Nat → K) (sig : K) : Mat K :=
  sub (add (eye nV) (vstack2 (zeros (nV - 1) nV) (rowVec nV (fun j => (1 + 1) * v j))))
      (divS (mul (transpose H) H).force (sig * sig))

/-- eq. 29: `Bi1 = hstack([eye + (H/σ·Ki)·(Hᵀ/σ − vstack([zeros, u.T])), H/σ·Ki])`. -/
def bi1 (H : Mat K) (nU nV : Nat) (u : Nat → K) (sig : K) (Ki : Mat K) : Mat K :=
  let HKi := (mul (divS H sig) Ki).force
  hstack2
    (add (eye nU)
      (mul HKi (sub (divS (transpose H) sig) (vstack2 (zeros (nV - 1) nU) (rowVec nU u))))).force
    HKi

/-- eqs 33–34: `JOHTi`. -/
def johT (H T : Mat K) (nU nV : Nat) (u v : Nat → K) (sig rs : K) (Ki : Mat K) : Mat K :=
  let Ti1 := (mul (selIU nV nU u) T).force
  let Ti2 := (mul (selVI nV nU v) T).force
  let vT1 := (mul (rowVec nV v) Ti1).force
  let uT2 := (mul (rowVec nU u) Ti2).force
  let B := bi1 H nU nV u sig Ki
  let stack := (vstack2 (sub Ti2 (mul (colVec nU u) uT2)) (sub Ti1 (mul (colVec nV v) vT1))).force
  (add (mul (scale ((1 / (1 + 1)) * rs) (colVec nU u)) vT1) (scale rs (mul B stack).force)).force

/-- eqs 36–37: the four stacked blocks, `l` channels, `p` block rows, `step = 1`. -/
def q1234 (H T Op Om : Mat K) (l r p ordmax : Nat) (U V : Mat K) (sig rs : Nat → K)
    (Ki : Nat → Mat K) : Mat K × Mat K × Mat K × Mat K :=
  let nU := (p + 1) * l
  let nV := (p + 1) * r
  let Sel1 := hstack2 (eye (p * l)) (zeros (p * l) l)
  let Sel2 := hstack2 (zeros (p * l) l) (eye (p * l))
  let A1 := (mul (transpose Op) Sel1).force
  let A2 := (mul (transpose Om) Sel1).force
  let A3 := (mul (transpose Op) Sel2).force
  let A4 : Mat K := hstack2 (eye l) (zeros l (p * l))
  let J : Nat → Mat K := fun ii => johT H T nU nV (col U ii) (col V ii) (sig ii) (rs ii) (Ki ii)
  let Js : Array (Mat K) := Array.ofFn (n := ordmax) fun ii => J ii.1
  let Jm : Nat → Mat K := fun ii => Js.getD ii (zeros 0 0)
  ( (vstackN ordmax ordmax T.c fun ii => mul A1 (Jm ii)).force,
    (vstackN ordmax ordmax T.c fun ii => mul A2 (Jm ii)).force,
    (vstackN ordmax ordmax T.c fun ii => mul A3 (Jm ii)).force,
    (vstackN ordmax l T.c fun ii => mul A4 (Jm ii)).force )

end Q

/-! ## Uncertainty loop of `SSI_poles` (eqs 15, 40–49 as coded)

`np.linalg.inv` (`OO`), `scipy.linalg.eig` (`lam_d`, `r_eigvt`, `l_eigvt`), `np.conj`, `np.log`, `np.abs`,
`np.real`, `np.imag` are external.  Two scalar types: `R` (float64) and `K` (complex128); `ι : R → K` is
numpy's promotion of a real array in a product with a complex one, `re`, `im : K → R` are `np.real`,
`np.imag`.  `chi` is `np.conj(l_eigvt[:, jj])`, `phi` is `r_eigvt[:, jj]`, `lam` is `lam_d[jj]`. -/

/-- `ek = np.zeros((n, 1)); ek[b] = 1` (`b = _kk − 1`). -/
def ek [Zero K] [One K] (n b : Nat) : Mat K := ⟨n, 1, fun a _ => if a = b then 1 else 0⟩

/-- the permutation matrix of eq. 15 as the loop builds it:
    `Pnn[:, (_kk−1)·n : _kk·n] = np.kron(np.eye(n), ek)` for `_kk = 1..n`. -/
def pnn [Zero K] [One K] [Mul K] (n : Nat) : Mat K :=
  hstackN n (n * n) n fun b => kron (eye n) (ek n b)

/-- `np.hstack([np.eye(n), np.zeros((n, ordmax − n))])` -/
def selLead [Zero K] [One K] (n ordmax : Nat) : Mat K := hstack2 (eye n) (zeros n (ordmax - n))

/-- `S4_n = np.kron(hstack([eye(n), zeros]), hstack([eye(n), zeros]))` -/
def s4n [Zero K] [One K] [Mul K] (n ordmax : Nat) : Mat K :=
  kron (selLead n ordmax) (selLead n ordmax)

/-- entrywise image (`astype(complex)`, `np.real`, `np.imag`) -/
def mapM {R K : Type} (f : R → K) (M : Mat R) : Mat K := ⟨M.r, M.c, fun i j => f (M.e i j)⟩

section Pole
variable {R : Type} [Zero R] [One R] [Add R] [Mul R] [Inhabited R]

/-- `Q1_n = np.dot(S4_n, Q1)` (eq. 49; the same for `Q2`, `Q3`). -/
def qn (n ordmax : Nat) (Q : Mat R) : Mat R := (mul (s4n n ordmax) Q).force
/-- `PnQ1 = np.dot((Pnn + np.eye(n**2)), Q1_n)` -/
def pnQ1 (n ordmax : Nat) (Q1 : Mat R) : Mat R :=
  (mul (add (pnn n) (eye (n * n))) (qn n ordmax Q1)).force
/-- `PnQ2_Q3 = np.dot(Pnn, Q2_n) + Q3_n` -/
def pnQ23 (n ordmax : Nat) (Q2 Q3 : Mat R) : Mat R :=
  (add (mul (pnn n) (qn n ordmax Q2)) (qn n ordmax Q3)).force

variable [Zero K] [One K] [Add K] [Neg K] [Mul K] [Div K] [Inhabited K]

/-- Eq. 44: `Qi = np.dot(np.kron(r_eigvt[:, jj], np.eye(n)), (-lam_d[jj] * PnQ1 + PnQ2_Q3))`. -/
def qiOf (ι : R → K) (n : Nat) (phi : Nat → K) (lam : K) (PnQ1 PnQ23 : Mat R) : Mat K :=
  (mul (selVI n n phi) (add (scale (-lam) (mapM ι PnQ1)) (mapM ι PnQ23))).force

/-- Eq. 43: `JaohT = 1/np.dot(conj(l), r) * np.dot(np.dot(conj(l), OO), Qi)` (a 1-D array of length
    `nb`, here one row). -/
def jaohT (ι : R → K) (n : Nat) (chi phi : Nat → K) (OO : Mat R) (Qi : Mat K) : Mat K :=
  scale (1 / sumTo n (fun m => chi m * phi m)) (mul (mul (rowVec n chi) (mapM ι OO)).force Qi)

/-- Eq. 42: `Ufx = np.dot(Jfx_l, np.vstack([np.real(JaohT), np.imag(JaohT)]))`. -/
def ufxOf (re im : K → R) (J : Mat R) (Ja : Mat K) : Mat R :=
  (mul J (vstack2 (mapM re Ja) (mapM im Ja))).force

/-- one `(jj, ii)` pass of the uncertainty loop up to `cov_fx[0, 0]` (eq. 40; `Fn_cov[jj, ii]` is its
    `abs`): `n = ii`, `Q1..Q3` from `SSI_fast`, `OO` the recorded inverse, `J = Jfx_l`. -/
def poleVar (ι : R → K) (re im : K → R) (n ordmax : Nat) (Q1 Q2 Q3 OO : Mat R) (lam : K)
    (chi phi : Nat → K) (J : Mat R) : R :=
  var00 (ufxOf re im J
    (jaohT ι n chi phi OO (qiOf ι n phi lam (pnQ1 n ordmax Q1) (pnQ23 n ordmax Q2 Q3))))

/-- the argument of `np.linalg.inv` in `OO = inv(np.dot(O_p.T, O_p))` with `O_p = Obs[:, :n][:−Nch, :]`. -/
def ooArg (Obs : Mat R) (l n : Nat) : Mat R :=
  let Opn : Mat R := ⟨Obs.r - l, n, Obs.e⟩
  mul (transpose Opn) Opn

end Pole

/-! ## `Jfx_l` of `SSI_poles` (Lemma 5), statement by statement -/

section JfxModel
variable {K : Type} [Zero K] [One K] [Add K] [Sub K] [Neg K] [Mul K] [Div K] [NatCast K]

/-- `np.array([[p, q], [r, s]])` -/
def mat22 (p q r s : K) : Mat K :=
  ⟨2, 2, fun i j => if i = 0 then (if j = 0 then p else q) else (if j = 0 then r else s)⟩

/-- `Mat1 = [[1/(2π), 0], [0, 100/|λ_c|²]]` -/
def jfxMat1 (pi absc : K) : Mat K := mat22 (1 / ((2 : Nat) * pi)) 0 0 ((100 : Nat) / (absc * absc))
/-- `Mat2 = [[Re λ_c, Im λ_c], [−(Im λ_c)², Re λ_c·Im λ_c]]` -/
def jfxMat2 (a b : K) : Mat K := mat22 a b (-(b * b)) (a * b)
/-- `Mat3 = [[Re λ_d, Im λ_d], [−Im λ_d, Re λ_d]]` -/
def jfxMat3 (x y : K) : Mat K := mat22 x y (-y) x

/-- `Jfx_l = 1/(dt·|λ_d|²·|λ_c|) · (Mat1·Mat2)·Mat3` with `pi = np.pi`, `absd = np.abs(lam_d[jj])`,
    `absc = np.abs(lam_c[jj])`, `a, b = Re, Im lam_c[jj]`, `x, y = Re, Im lam_d[jj]`. -/
def jfx (pi dt absd absc a b x y : K) : Mat K :=
  scale (1 / (dt * (absd * absd) * absc)) (mul (mul (jfxMat1 pi absc) (jfxMat2 a b)) (jfxMat3 x y))

end JfxModel

/-! ## Which columns of `Yf`, `Yp` enter which block of `build_hank` (slice clipping) -/

/-- `(start, stop)` of the column slice `[k*Nb : (k+1)*Nb]` of an array with `ncols` columns as numpy
    evaluates it: both ends are clipped to `ncols` (an empty slice when `k*Nb ≥ ncols`). -/
def blockCols (ncols Nb k : Nat) : Nat × Nat := (min (k * Nb) ncols, min ((k + 1) * Nb) ncols)

/-- the block estimate written as the explicit sum over the columns `blockCols` names
    (`C17_blockEst_explicit`: this IS `blockEst`): the products of the columns `start ≤ t < stop`,
    times `N`, divided by `Nb` — by `Nb` also when the slice was clipped to fewer than `Nb` columns. -/
def blockEstR [Zero K] [Add K] [Mul K] [Div K] [NatCast K] (Yf Yp : Mat K) (N Nb k : Nat) : Mat K :=
  let ab := blockCols Yf.c Nb k
  ⟨Yf.r, Yp.r, fun i j =>
    sumTo (ab.2 - ab.1) (fun t => Yf.e i (ab.1 + t) * Yp.e j (ab.1 + t)) * (N : K) / (Nb : K)⟩

/-- the columns of `Yf`, `Yp` that enter no block (`Hank` alone uses them): `nb·Nb ≤ t < ncols`. -/
def leftoverCols (ncols Nb nb : Nat) : Nat × Nat := (min (nb * Nb) ncols, ncols)

/-! ## The tables `Fn_cov`, `Xi_cov` of `SSI_poles` (allocation, order loop, pole loop, writes)

`step = 1` (the routines crash for other steps).  Per order `ii` the code calls `ac2mp` (external `eig`,
`log`, `abs`) and `np.linalg.inv`; what they returned is the record `OrderRec`. -/

/-- what `ac2mp(AA[ii], CC[ii], dt, calc_unc=True)`, `np.abs` and `np.linalg.inv(O_p.T·O_p)` returned at one
    order. -/
structure OrderRec (R K : Type) where
  /-- `len(lam_c)` (the bound of the pole loop) -/
  np : Nat
  /-- `lam_d` -/
  lamd : Nat → K
  /-- `lam_c` -/
  lamc : Nat → K
  /-- `np.abs(lam_d[jj])` -/
  absd : Nat → R
  /-- `np.abs(lam_c[jj])` -/
  absc : Nat → R
  /-- `l_eigvt` (columns are the left eigenvectors; the code conjugates them) -/
  lv : Mat K
  /-- `r_eigvt` -/
  rv : Mat K
  /-- `OO` -/
  oo : Mat R

/-- `Fn_cov`, `Xi_cov` (shape `ordmax × (ordmax + 1)`; `none` = NaN) -/
structure CovTabs (R : Type) where
  fn : Nat → Nat → Option R
  xi : Nat → Nat → Option R

/-- `tab[i, j] = v` -/
def setCell {R : Type} (tab : Nat → Nat → Option R) (i j : Nat) (v : R) : Nat → Nat → Option R :=
  fun a b => if a = i ∧ b = j then some v else tab a b

section Table
variable {R K : Type} [Zero R] [One R] [Add R] [Sub R] [Neg R] [Mul R] [Div R] [NatCast R] [Inhabited R]
  [Zero K] [One K] [Add K] [Neg K] [Mul K] [Div K] [Inhabited K]

/-- the body of the pole loop up to `cov_fx = np.dot(Ufx, Ufx.T)` (eqs 44, Lemma 5, 43, 42, 40) for pole
    `jj` at order `n = ii`: the `jj`-th entries of `lam_d`, `lam_c` and the `jj`-th COLUMNS of `r_eigvt`,
    `l_eigvt` (conjugated), with `PnQ1`, `PnQ2_Q3`, `OO` of this order. -/
def covFx (ι : R → K) (re im : K → R) (conj : K → K) (pi dt : R) (n : Nat) (P1 P23 : Mat R)
    (rc : OrderRec R K) (jj : Nat) : Mat R :=
  let phi := col rc.rv jj
  let chi : Nat → K := fun m => conj (rc.lv.e m jj)
  let Qi := qiOf ι n phi (rc.lamd jj) P1 P23
  let J := jfx pi dt (rc.absd jj) (rc.absc jj) (re (rc.lamc jj)) (im (rc.lamc jj)) (re (rc.lamd jj))
    (im (rc.lamd jj))
  let U := ufxOf re im J (jaohT ι n chi phi rc.oo Qi)
  mulT U U

/-- `for jj in range(len(lam_c)): …; Fn_cov[jj, ii] = abs(cov_fx[0, 0]); Xi_cov[jj, ii] = abs(cov_fx[1, 0])`
    at order `ii`, after `PnQ1`, `PnQ2_Q3` of this order were formed; `none` = `IndexError` (row `jj`
    outside the `ordmax` rows of the tables). -/
def orderPass (ι : R → K) (re im : K → R) (conj : K → K) (absR : R → R) (pi dt : R) (ordmax : Nat)
    (Q1 Q2 Q3 : Mat R) (rc : OrderRec R K) (ii : Nat) (t : CovTabs R) : Option (CovTabs R) :=
  let P1 := pnQ1 ii ordmax Q1
  let P23 := pnQ23 ii ordmax Q2 Q3
  (List.range rc.np).foldlM (fun t jj =>
    if jj < ordmax then
      let c := covFx ι re im conj pi dt ii P1 P23 rc jj
      some ⟨setCell t.fn jj ii (absR (c.e 0 0)), setCell t.xi jj ii (absR (c.e 1 0))⟩
    else none) t

/-- `Fn_cov = Xi_cov = np.full((ordmax, ordmax + 1), np.nan)`, then
    `for ii in range(1, ordmax + 1): …` with `recs ii` the external results at order `ii`. -/
def covTables (ι : R → K) (re im : K → R) (conj : K → K) (absR : R → R) (pi dt : R) (ordmax : Nat)
    (Q1 Q2 Q3 : Mat R) (recs : Nat → OrderRec R K) : Option (CovTabs R) :=
  (List.range' 1 ordmax).foldlM (fun t ii =>
    orderPass ι re im conj absR pi dt ordmax Q1 Q2 Q3 (recs ii) ii t)
    ⟨fun _ _ => none, fun _ _ => none⟩

end Table


end Unc
end PV
