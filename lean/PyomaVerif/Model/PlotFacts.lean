import PyomaVerif.Model.PlotModel
/-!
# Axis limits and the decibel transform of the diagrams of `functions/plot.py` (core Lean only)
(depth round 2, runner-up gap C20)

`Model/PlotModel.lean` leaves the limits out and hands the `10*log10` of `CMIF_plot` to the harness.
Here they are model functions, run by the driver (ops `plot_limits`, `cmif_db`) and compared with the
Agg axes (`Axes.get_xlim/get_ylim/get_autoscalex_on/get_autoscaley_on`) and the `Line2D` data.

`none` for a limit = the code never calls `set_xlim` / `set_ylim`: matplotlib's autoscale stays on.
-/
namespace PV
namespace Plot

/-- what the code sets explicitly on the axes -/
structure Limits where
  xlim : Option (Rat × Rat)
  ylim : Option (Int × Int)
deriving DecidableEq, Repr

/-- the tail of `stab_plot`, `cluster_plot`, `CMIF_plot`:
    `if freqlim is not None: ax.set_xlim(freqlim[0], freqlim[1])` -/
def setXlim (freqlim : Option (Rat × Rat)) : Option (Rat × Rat) :=
  match freqlim with
  | none => none
  | some l => some (l.1, l.2)

/-- `stab_plot`: `ax.set_ylim(ordmin, ordmax + 1)` is the last statement of the `else` branch of
    `if hide_poles:` (only when the unstable poles are shown), then the common `set_xlim` tail. -/
def stabLimits (freqlim : Option (Rat × Rat)) (hide : Bool) (ordmin ordmax : Int) : Limits :=
  let ylim := if hide then none else some (ordmin, ordmax + 1)
  ⟨setXlim freqlim, ylim⟩

/-- `cluster_plot` (its `ordmin` parameter is not used) -/
def clusterLimits (freqlim : Option (Rat × Rat)) : Limits := ⟨setXlim freqlim, none⟩

/-- `CMIF_plot` -/
def cmifLimits (freqlim : Option (Rat × Rat)) : Limits := ⟨setXlim freqlim, none⟩

/-- `CMIF_plot`'s ordinates: `10 * np.log10(S_val[k,k,:] / S_val[·,·,:][argmax])`, the logarithm a
    parameter (driver: IEEE `log10` of the correctly rounded quotient; theorems: `Real.logb 10`). -/
def cmifCurvesDb {K : Type} [Mul K] (ten : K) (log10 : Rat → K) (n nf : Nat) (S : Nat → Nat → Rat)
    (nSv : Option Int) : Except String (List (List K)) :=
  match cmifCurves n nf S nSv with
  | .ok cs => .ok (cs.map fun c => c.map fun q => ten * log10 q)
  | .error e => .error e

/-- a rational as the nearest double (up to a second rounding at 2⁻⁶⁴): 64 significant bits of the
    quotient by integer division, then an exact scaling by a power of two. -/
def ratToFloat (x : Rat) : Float :=
  if x.num = 0 then 0.0 else
  let p := x.num.natAbs
  let q := x.den
  -- shift so that the integer quotient has 64..65 bits
  let s : Int := 64 + (q.log2 : Int) - (p.log2 : Int)
  let m : Nat := if s ≥ 0 then (p * 2 ^ s.toNat) / q else p / (q * 2 ^ (-s).toNat)
  let f := (Float.ofNat m).scaleB (-s)
  if x.num < 0 then -f else f

/-- the driver's `log10`: `np.log10` of the double nearest to the quotient -/
def log10Float (q : Rat) : Float := Float.log10 (ratToFloat q)

end Plot
end PV
