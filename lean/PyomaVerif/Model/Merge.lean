import PyomaVerif.Model.Basic
/-!
# PoSER merging: `gen.MSF`, `gen.merge_mode_shapes`, the multi-setup branch of
`gen.flatten_sns_names`, and the statistics of `MultiSetup_PoSER.merge_results`
(core Lean only; polymorphic in the number type `C` — `Cpx Rat` in the driver, any field in
the theorems; `re` is `np.real` re-embedded).
-/
namespace PV.Merge

variable {C : Type}

/-- numpy fancy indexing `v[idx]` (indices assumed in range; the driver rejects others as
    numpy's IndexError does). -/
def pick [Inhabited α] (v : List α) (idx : List Nat) : List α := idx.map (fun i => v.getD i default)

/-- `np.delete(v, idx)`: the entries whose position is not listed, in ascending position. -/
def delete (v : List α) (idx : List Nat) : List α :=
  (v.zipIdx.filter (fun xi => !idx.contains xi.2)).map (·.1)

def dot [Zero C] [Add C] [Mul C] (x y : List C) : C :=
  (List.zipWith (· * ·) x y).foldl (· + ·) 0

/-- `gen.MSF(phi_1, phi_2)` for one mode: `dot(phi_2.T, phi_1)/dot(phi_1.T, phi_1)` (no
    conjugation), then `.real`. -/
def msf [Zero C] [Add C] [Mul C] [Div C] (re : C → C) (phi1 phi2 : List C) : C :=
  re (dot phi2 phi1 / dot phi1 phi1)

/-- the roving part shared by mode-shape merging and name flattening: each setup's entries
    outside its reference positions, in ascending position, setups in order. -/
def rovingConcat (xs : List (List α)) (refs : List (List Nat)) : List α :=
  (List.zipWith delete xs refs).flatten

/-- One mode (column `k`) of `gen.merge_mode_shapes` (after the repair of F1): the first
    setup's reference entries in listed order, its remaining entries, then for every later
    setup its roving entries times `alpha_i = MSF(phi_ref_i, phi_ref_1)`. -/
def mergedCol [Zero C] [Add C] [Mul C] [Div C] [Inhabited C] (re : C → C)
    (phis : List (List C)) (refs : List (List Nat)) : List C :=
  match phis, refs with
  | phi1 :: rest, ref1 :: refRest =>
    let r1 := pick phi1 ref1
    r1 ++ delete phi1 ref1 ++
      (List.zipWith (fun phi ref => (delete phi ref).map (fun x => msf re (pick phi ref) r1 * x))
        rest refRest).flatten
  | _, _ => []

/-- the pre-repair variant: `alpha_i = MSF(phi_ref_1, phi_ref_i)` -/
def mergedColOld [Zero C] [Add C] [Mul C] [Div C] [Inhabited C] (re : C → C)
    (phis : List (List C)) (refs : List (List Nat)) : List C :=
  match phis, refs with
  | phi1 :: rest, ref1 :: refRest =>
    let r1 := pick phi1 ref1
    r1 ++ delete phi1 ref1 ++
      (List.zipWith (fun phi ref => (delete phi ref).map (fun x => msf re r1 (pick phi ref) * x))
        rest refRest).flatten
  | _, _ => []

/-- multi-setup branch of `gen.flatten_sns_names`: `REF1..REFk` (k = number of references of
    the first setup) followed by every setup's names outside its reference positions. -/
def flattenNames (names : List (List String)) (refs : List (List Nat)) : List String :=
  ((List.range (refs.headD []).length).map (fun i => s!"REF{i+1}")) ++ rovingConcat names refs

/-- `np.mean` -/
def mean [Zero C] [Add C] [Div C] [NatCast C] (xs : List C) : C :=
  xs.foldl (· + ·) 0 / (xs.length : C)

/-- population variance (`np.std(...)**2`) -/
def pvar [Zero C] [Add C] [Sub C] [Mul C] [Div C] [NatCast C] (xs : List C) : C :=
  mean (xs.map (fun x => (x - mean xs) * (x - mean xs)))

/-! ## the whole matrix: `gen.merge_mode_shapes` with its loop over modes and its exceptions -/

/-- `Except`-valued map, first error wins (a Python loop that may raise) -/
def mapE {α β : Type} (f : α → Except String β) : List α → Except String (List β)
  | [] => .ok []
  | a :: as =>
    match f a with
    | .error e => .error e
    | .ok b =>
      match mapE f as with
      | .error e => .error e
      | .ok bs => .ok (b :: bs)

/-- `P[:, k]` of a matrix given by its rows (`[row][mode]`) -/
def column [Inhabited C] (p : List (List C)) (k : Nat) : List C := p.map (fun row => row.getD k default)

/-- `P.shape[1]` of a matrix given by its rows -/
def width (p : List (List C)) : Nat := (p.headD []).length

/-- the exceptions of one pass of the loop over the later setups (`i = 1 .. Nsetup-1`) of
    `merge_mode_shapes`, in the order in which they are raised: `reflist[i]` missing
    (`IndexError`), a reference position outside the setup's rows (`IndexError` of the fancy
    index / of `np.delete`), `MSF` on reference vectors of different lengths (`Exception`).
    `ns` are the row counts of the later setups, `nref = len(reflist[0])`. -/
def tailChecks (nref : Nat) : List Nat → List (List Nat) → Except String Unit
  | [], _ => .ok ()
  | _ :: _, [] => .error "IndexError"
  | n :: ns, ref :: rs =>
    if ref.any (fun i => decide (n ≤ i)) then .error "IndexError"
    else if ref.length ≠ nref then .error "Exception"
    else tailChecks nref ns rs

/-- `M = Nref + np.sum([MSarr_list[i].shape[0] - Nref for i in range(Nsetup)])` (Python integers:
    may be negative) -/
def totalRows (nref : Nat) (ns : List Nat) : Int :=
  (nref : Int) + (ns.map (fun (n : Nat) => (n : Int) - (nref : Int))).foldl (· + ·) 0

/-- **`gen.merge_mode_shapes(MSarr_list, reflist)`** on matrices given by their rows
    (`phis[i][row][mode]`; rectangular — a numpy array cannot be ragged, a ragged list is rejected
    like a differing mode count): statement by statement
    `Nmodes = MSarr_list[0].shape[1]`, `Nref = len(reflist[0])`, `M`, the mode-count check
    (`ValueError`), `np.zeros((M, Nmodes))` (`ValueError` for negative `M`), then for every mode
    `k` the column `mergedCol` of the `k`-th columns with the exceptions of the loop body
    (`IndexError`, `Exception` of `MSF`, `ValueError` of the assignment
    `merged_mode_shapes[:, k] = merged_mode_k` when the lengths differ), and the result
    matrix (`M` rows) by rows.  Reference lists beyond the number of setups are never read. -/
def mergeModeShapes [Zero C] [Add C] [Mul C] [Div C] [Inhabited C] (re : C → C)
    (phis : List (List (List C))) (refs : List (List Nat)) : Except String (List (List C)) :=
  match phis, refs with
  | [], _ => .error "IndexError"
  | _ :: _, [] => .error "IndexError"
  | p0 :: ps, r0 :: rs =>
    let nmodes := width p0
    let nref := r0.length
    let M := totalRows nref ((p0 :: ps).map List.length)
    if (p0 :: ps).any (fun p => p.any (fun row => row.length != nmodes)) then .error "ValueError"
    else if M < 0 then .error "ValueError"
    else
      match mapE (fun k =>
          if r0.any (fun i => decide (p0.length ≤ i)) then .error "IndexError"
          else match tailChecks nref (ps.map List.length) rs with
            | .error e => .error e
            | .ok () =>
              let col := mergedCol re ((p0 :: ps).map (column · k)) (r0 :: rs)
              if (col.length : Int) ≠ M then .error "ValueError" else .ok col)
        (List.range nmodes) with
      | .error e => .error e
      | .ok cols => .ok ((List.range M.toNat).map fun r => cols.map (fun c => c.getD r default))

/-! ## `MultiSetup_PoSER.merge_results` -/

/-- what `merge_results` reads of one algorithm of one setup: `alg.result.{Fn, Xi, Phi}` -/
structure AlgRes (K C : Type) where
  Fn : List K
  Xi : List K
  Phi : List (List C)
deriving Inhabited, DecidableEq, Repr

/-- `MsPoserResult` -/
structure PoserRes (K C : Type) where
  Phi : List (List C)
  Fn : List K
  Fn_cov : List K
  Xi : List K
  Xi_cov : List K
deriving DecidableEq, Repr

/-- `alg_groups.setdefault(key, []).append(a)` on an insertion-ordered dictionary -/
def groupAppend {α : Type} (g : List (String × List α)) (key : String) (a : α) : List (String × List α) :=
  match g with
  | [] => [(key, [a])]
  | (k, as) :: rest => if k = key then (k, as ++ [a]) :: rest else (k, as) :: groupAppend rest key a

/-- the inner loop `for ii, alg in enumerate(setup.algorithms.values())`, `ii` counted from `i0`:
    `names[ii]` raises `IndexError` when there are more algorithms than names -/
def groupSetup {α : Type} (names : List String) :
    List (String × List α) → Nat → List α → Except String (List (String × List α))
  | g, _, [] => .ok g
  | g, ii, a :: as =>
    match names[ii]? with
    | none => .error "IndexError"
    | some key => groupSetup names (groupAppend g key a) (ii + 1) as

/-- the grouping loops of `merge_results`: setups in order, algorithms by position, key
    `self.names[ii]` -/
def algGroups {α : Type} (names : List String) :
    List (String × List α) → List (List α) → Except String (List (String × List α))
  | g, [] => .ok g
  | g, s :: ss =>
    match groupSetup names g 0 s with
    | .error e => .error e
    | .ok g' => algGroups names g' ss

/-- `np.mean(a, axis=0)` of `a = np.array([...])` given by its rows (`[setup][mode]`) -/
def colMean [Zero C] [Add C] [Div C] [NatCast C] (a : List (List C)) : List C :=
  (List.range (width a)).map fun k => mean (a.map (fun row => row.getD k 0))

/-- `np.std(a, axis=0)`: the square root (`sqrt`: `np.sqrt`, a parameter) of the mean of the
    squared deviations from the mean (`ddof = 0`) -/
def colStd [Zero C] [Add C] [Sub C] [Mul C] [Div C] [NatCast C] (sqrt : C → C) (a : List (List C)) : List C :=
  (List.range (width a)).map fun k => sqrt (pvar (a.map (fun row => row.getD k 0)))

/-- the body of the loop over the algorithm groups of `merge_results`: stack `Fn`, `Xi`
    (`np.array` of per-setup vectors: `ValueError` when their lengths differ), column means,
    `np.std(...)/mean`, `merge_mode_shapes(all_phi, self.ref_ind)`, `MsPoserResult(...)`.
    `K`: the real numbers of `Fn`/`Xi`, `C`: the numbers of `Phi`. -/
def mergeGroup {K : Type} [Zero K] [Add K] [Sub K] [Mul K] [Div K] [NatCast K]
    [Zero C] [Add C] [Mul C] [Div C] [Inhabited C] (sqrt : K → K) (re : C → C)
    (algs : List (AlgRes K C)) (refInd : List (List Nat)) : Except String (PoserRes K C) :=
  let allFn := algs.map (·.Fn)
  let allXi := algs.map (·.Xi)
  let allPhi := algs.map (·.Phi)
  if allFn.any (fun v => v.length != width allFn) then .error "ValueError"
  else if allXi.any (fun v => v.length != width allXi) then .error "ValueError"
  else
    let fnMean := colMean allFn
    let xiMean := colMean allXi
    let fnCov := List.zipWith (· / ·) (colStd sqrt allFn) fnMean
    let xiCov := List.zipWith (· / ·) (colStd sqrt allXi) xiMean
    match mergeModeShapes re allPhi refInd with
    | .error e => .error e
    | .ok Phi => .ok ⟨Phi, fnMean, fnCov, xiMean, xiCov⟩

/-- **`MultiSetup_PoSER.merge_results()`**: `setups[i][ii]` is what the `ii`-th algorithm of
    setup `i` carries; the returned dictionary in insertion order (one entry per distinct name). -/
def mergeResults {K : Type} [Zero K] [Add K] [Sub K] [Mul K] [Div K] [NatCast K]
    [Zero C] [Add C] [Mul C] [Div C] [Inhabited C] (sqrt : K → K) (re : C → C)
    (names : List String) (setups : List (List (AlgRes K C))) (refInd : List (List Nat)) :
    Except String (List (String × PoserRes K C)) :=
  match algGroups names [] setups with
  | .error e => .error e
  | .ok groups =>
    mapE (fun (g : String × List (AlgRes K C)) =>
      match mergeGroup sqrt re g.2 refInd with
      | .error e => .error e
      | .ok r => .ok (g.1, r)) groups

end PV.Merge
