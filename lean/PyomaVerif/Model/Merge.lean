import PyomaVerif.Model.Basic
/-!
# PoSER merging: `gen.MSF`, `gen.merge_mode_shapes`, the multi-setup branch of
`gen.flatten_sns_names`, and the statistics of `MultiSetup_PoSER.merge_results`
(core Lean only; polymorphic in the number type `C` — `Cpx Rat` in the driver, any field in
the theorems; `re` is `np.real` re-embedded).
-/
namespace PV.Merge

variable {C : Type}

/-- numpy fancy indexing `v[idx]` (indices assumed in range; the driver rejects others as
    numpy's IndexError does). -/
def pick [Inhabited α] (v : List α) (idx : List Nat) : List α := idx.map (fun i => v.getD i default)

/-- `np.delete(v, idx)`: the entries whose position is not listed, in ascending position. -/
def delete (v : List α) (idx : List Nat) : List α :=
  (v.zipIdx.filter (fun xi => !idx.contains xi.2)).map (·.1)

def dot [Zero C] [Add C] [Mul C] (x y : List C) : C :=
  (List.zipWith (· * ·) x y).foldl (· + ·) 0

/-- `gen.MSF(phi_1, phi_2)` for one mode: `dot(phi_2.T, phi_1)/dot(phi_1.T, phi_1)` (no
    conjugation), then `.real`. -/
def msf [Zero C] [Add C] [Mul C] [Div C] (re : C → C) (phi1 phi2 : List C) : C :=
  re (dot phi2 phi1 / dot phi1 phi1)

/-- the roving part shared by mode-shape merging and name flattening: each setup's entries
    outside its reference positions, in ascending position, setups in order. -/
def rovingConcat (xs : List (List α)) (refs : List (List Nat)) : List α :=
  (List.zipWith delete xs refs).flatten

/-- One mode (column `k`) of `gen.merge_mode_shapes` (after the repair of F1): the first
    setup's reference entries in listed order, its remaining entries, then for every later
    setup its roving entries times `alpha_i = MSF(phi_ref_i, phi_ref_1)`. -/
def mergedCol [Zero C] [Add C] [Mul C] [Div C] [Inhabited C] (re : C → C)
    (phis : List (List C)) (refs : List (List Nat)) : List C :=
  match phis, refs with
  | phi1 :: rest, ref1 :: refRest =>
    let r1 := pick phi1 ref1
    r1 ++ delete phi1 ref1 ++
      (List.zipWith (fun phi ref => (delete phi ref).map (fun x => msf re (pick phi ref) r1 * x))
        rest refRest).flatten
  | _, _ => []

/-- the pre-repair variant: `alpha_i = MSF(phi_ref_1, phi_ref_i)` -/
def mergedColOld [Zero C] [Add C] [Mul C] [Div C] [Inhabited C] (re : C → C)
    (phis : List (List C)) (refs : List (List Nat)) : List C :=
  match phis, refs with
  | phi1 :: rest, ref1 :: refRest =>
    let r1 := pick phi1 ref1
    r1 ++ delete phi1 ref1 ++
      (List.zipWith (fun phi ref => (delete phi ref).map (fun x => msf re r1 (pick phi ref) * x))
        rest refRest).flatten
  | _, _ => []

/-- multi-setup branch of `gen.flatten_sns_names`: `REF1..REFk` (k = number of references of
    the first setup) followed by every setup's names outside its reference positions. -/
def flattenNames (names : List (List String)) (refs : List (List Nat)) : List String :=
  ((List.range (refs.headD []).length).map (fun i => s!"REF{i+1}")) ++ rovingConcat names refs

/-- `np.mean` -/
def mean [Zero C] [Add C] [Div C] [NatCast C] (xs : List C) : C :=
  xs.foldl (· + ·) 0 / (xs.length : C)

/-- population variance (`np.std(...)**2`) -/
def pvar [Zero C] [Add C] [Sub C] [Mul C] [Div C] [NatCast C] (xs : List C) : C :=
  mean (xs.map (fun x => (x - mean xs) * (x - mean xs)))

end PV.Merge
