import PyomaVerif.Generated.Wiring
/-! Queries over the generated wiring tables (core Lean only). -/
namespace PV.Wiring
open Gen

def site (cls method callee : String) (idx : Nat := 0) : Option Site :=
  sites.find? (fun s => s.cls == cls && s.method == method && s.callee == callee && s.idx == idx)

/-- the expression parameter `param` of the callee receives at that call site -/
def arg (cls method callee param : String) (idx : Nat := 0) : Option String :=
  (site cls method callee idx).bind (fun s => s.bind.lookup param)

/-- every listed parameter receives the listed expression; a parameter that the site leaves at the callee's literal
    default (not bound at all, and listed by the translator among the parameters at their default there) is accepted ONLY when the
    listed value is a literal (`None`, `1`, `False`, a quoted string) — writing a default out, or leaving it out, is the same call (the default VALUES
    themselves are pinned by `Props/WiringDefaults*`) -/
def isLiteral (v : String) : Bool :=
  v == "None" || v == "True" || v == "False" || v.startsWith "'" || v.startsWith "\""
    || (v.toList.all (fun c => c.isDigit || c == '.' || c == '-' || c == 'e') && !v.isEmpty)

def args (cls method callee : String) (want : List (String × String)) (idx : Nat := 0) : Bool :=
  want.all (fun pv => arg cls method callee pv.1 idx == some pv.2
    || (isLiteral pv.2 && arg cls method callee pv.1 idx == none
        && ((site cls method callee idx).map (fun s => s.dflt.contains pv.1)).getD false))

/-- exactly the listed parameters are passed (nothing else, e.g. no stray positional argument); the order in
    which the call spells them is immaterial (a positional argument rewritten as a keyword is the same call) -/
def onlyParams (cls method callee : String) (ps : List String) (idx : Nat := 0) : Bool :=
  match site cls method callee idx with
  | some s =>
    -- parameters with a literal default that the site leaves alone or binds to exactly that literal do not count
    -- (writing a default out is the same call), on either side
    let names := (s.bind.map (·.1)).filter (fun p => !s.dflt.contains p)
    let ps := ps.filter (fun p => !s.dflt.contains p)
    names.length == ps.length && names.all (ps.contains ·) && ps.all (names.contains ·)
  | none => false

def store (cls method target : String) : Option Store :=
  stores.find? (fun s => s.cls == cls && s.method == method && s.target == target)

def stored (cls method : String) (want : List (String × String)) : Bool :=
  want.all (fun tv => (store cls method tv.1).map (·.value) == some tv.2)

/-- all `self.result.* / self.run_params.*` stores of the method, in source order -/
def storesOf (cls method : String) : List (String × String) :=
  (stores.filter (fun s => s.cls == cls && s.method == method)).map (fun s => (s.target, s.value))

/-- the method stores exactly the listed (target, value) pairs — each once, nothing else, no later overwrite
    (the order of the assignments is immaterial) -/
def storedExactly (cls method : String) (want : List (String × String)) : Bool :=
  let have_ := storesOf cls method
  have_.length == want.length && have_.all (want.contains ·) && want.all (have_.contains ·)

/-- the names the results of the call are unpacked into -/
def rets (cls method callee : String) (idx : Nat := 0) : Option (List String) :=
  (site cls method callee idx).map (·.ret)

def sameSet (a b : List String) : Bool := a.length == b.length && a.all (b.contains ·) && b.all (a.contains ·)

/-- the library calls (and the `return ResultCls(...)`) of the method body, in source order, with the parameters
    of the callee that are bound at the site (positional arguments already resolved to parameter names) -/
def callsOf (cls method : String) : List (String × List String) :=
  (sites.filter (fun s => s.cls == cls && s.method == method)).map (fun s => (s.callee, s.bind.map (·.1)))

/-- per call of the body: the parameters that are at the callee's literal default at that site (unbound, or bound to
    exactly that literal) -/
def dfltOf (cls method : String) : List (List String) :=
  (sites.filter (fun s => s.cls == cls && s.method == method)).map (·.dflt)

/-- the method makes exactly the listed calls in the listed order, and at each the SET of callee parameters that
    receive an argument is exactly the listed one (spelling — positional or keyword, and the order of keywords — is
    immaterial; every parameter not listed is left at the callee's default).  A new argument at a site, a dropped
    one, a new or dropped call all make this false. -/
def callsExactly (cls method : String) (want : List (String × List String)) : Bool :=
  let have_ := callsOf cls method
  let dfl := dfltOf cls method
  have_.length == want.length && ((have_.zip want).zip dfl).all (fun q =>
    let p := q.1
    p.1.1 == p.2.1 && sameSet (p.1.2.filter (fun x => !q.2.contains x)) (p.2.2.filter (fun x => !q.2.contains x)))

/-- the store happens before the call site (position inside the method) -/
def storedBefore (cls method target callee : String) (idx : Nat := 0) : Bool :=
  match store cls method target, site cls method callee idx with
  | some st, some s => st.pos < s.pos
  | _, _ => false

def storedAfter (cls method target callee : String) (idx : Nat := 0) : Bool :=
  match store cls method target, site cls method callee idx with
  | some st, some s => s.pos < st.pos
  | _, _ => false

/-! ## Classes: who defines what (method resolution over the generated class table) -/

def classInfo (c : String) : Option ClassInfo := classes.find? (fun k => k.name == c)

def methodInfo (c m : String) : Option MethodInfo := methods.find? (fun k => k.cls == c && k.method == m)

/-- the class whose body binds the name `m` when it is looked up on an instance of `c`: `c` itself if its body
    binds `m` (method, attribute, or a module-level patch `c.m = …`), otherwise the lookup continues in the base
    class.  Only single inheritance is resolved (a class with several bases that does not bind `m` itself gives
    `none`, as does a decorated class or one with class keywords such as `metaclass=`); a base class outside the
    table is returned as the definer without looking further. -/
def resolveAux : Nat → String → String → Option String
  | 0, _, _ => none
  | fuel + 1, c, m =>
    match classInfo c with
    | none => some c
    | some k =>
      if !k.extras.isEmpty then none
      else if k.own.contains m then some c
      else match k.bases with
        | [b] => resolveAux fuel b m
        | _ => none

def resolve (c m : String) : Option String := resolveAux (classes.length + 1) c m

/-- the value of the class attribute `a` an instance of `c` sees -/
def attrOf (c a : String) : Option String :=
  (resolve c a).bind (fun d => (classInfo d).bind (fun k => k.attrs.lookup a))

/-- every listed class resolves `m` to the class `d` -/
def allResolve (cs : List String) (m d : String) : Bool := cs.all (fun c => resolve c m == some d)

/-! ## Guards: `mpe` / `mpe_from_plot` raise before anything is read or stored -/

/-- all recorded stores and call sites of the method body come after position `p` -/
def allAfter (c m : String) (p : Nat) : Bool :=
  (stores.filter (fun s => s.cls == c && s.method == m)).all (fun s => p < s.pos)
  && (sites.filter (fun s => s.cls == c && s.method == m)).all (fun s => p < s.pos)

def isResultGuard (g : String) : Bool :=
  g == "if not self.result: raise ValueError" || g == "if self.result is None: raise ValueError"

/-- the body of `m` as defined in class `d` starts with the guard: nothing but a docstring / aliases of arguments in
    front of it (`pre = []`), every store and every library call after it, the method undecorated; the guard is
    either the test itself or `super().m(...)` reaching a guarded body in the (single) base class. -/
def guardedBodyAux : Nat → String → String → Bool
  | 0, _, _ => false
  | fuel + 1, d, m =>
    match methodInfo d m with
    | none => false
    | some mi =>
      mi.pre.isEmpty && allAfter d m mi.guardPos && (mi.decorators.isEmpty || d == "BaseAlgorithm")
      && ((mi.guardKind == "raise" && isResultGuard mi.guardArg)
          || (mi.guardKind == "super" && mi.guardArg == m
              && match classInfo d with
                 | some k => (match k.bases with
                              | [b] => (match resolve b m with
                                        | some d' => guardedBodyAux fuel d' m
                                        | none => false)
                              | _ => false)
                 | none => false))

/-- calling `m` on an instance of `c` without a result raises `ValueError` before anything is stored -/
def guarded (c m : String) : Bool :=
  match resolve c m with
  | some d => guardedBodyAux (classes.length + 1) d m
  | none => false

/-- the algorithm classes of the table (everything but the abstract base) -/
def algClasses : List String := (classes.filter (fun k => k.module != "base")).map (·.name)

/-- the classes whose `m` is NOT guarded (what the C15 model takes as its `unguarded` list) -/
def unguarded (m : String) : List String := algClasses.filter (fun c => !guarded c m)

/-! ## The picking dialog (support/sel_from_plot.py): event connections, instance state, hand-over tuple

Queries over the `d*` tables of `Generated/Wiring.lean`.  A row counts for the dialog variant `plot`
("SSI" / "pLSCF" / "FDD") when every branch condition on the way to it holds for `self.plot = plot`; a condition that
is not a test of `self.plot` against string constants (or a loop / try around the row) makes the answer `none`, and
every obligation built on it false. -/

def dlg : String := "SelFromPlot"

/-- value of a branch test when `self.plot == plot` (`and` / `or` short-circuit as in Python) -/
def Gen.Cond.eval (plot : String) : Cond → Option Bool
  | .plotIn vs => some (vs.contains plot)
  | .plotEq v => some (plot == v)
  | .not c => (c.eval plot).map (!·)
  | .and a b => match a.eval plot with
    | some true => b.eval plot
    | some false => some false
    | none => none
  | .or a b => match a.eval plot with
    | some true => some true
    | some false => b.eval plot
    | none => none
  | .opaque _ => none

/-- is a statement under the nested branch conditions `path` executed for this variant -/
def pathActive (plot : String) : List Cond → Option Bool
  | [] => some true
  | c :: cs => match c.eval plot with
    | some true => pathActive plot cs
    | some false => some false
    | none => none

/-- the rows with a decided, true path; `none` as soon as one row is undecided -/
def activeRows {α : Type} (cond : α → List Cond) (plot : String) : List α → Option (List α)
  | [] => some []
  | r :: rs => match pathActive plot (cond r), activeRows cond plot rs with
    | some true, some l => some (r :: l)
    | some false, some l => some l
    | _, _ => none

def dmethod (m : String) : Option DMethod := dmethods.find? (fun k => k.cls == dlg && k.name == m)

/-- what a method of the dialog does, read off its parameter count, body text (parameters renamed positionally) and the
    attributes of `self` it writes — so that a handler is identified by its behaviour, not by its name -/
inductive Role where
  | press | release | clickStab | clickFdd | closing | other
deriving DecidableEq, Repr

def roleOf (m : DMethod) : Role :=
  if !m.decorators.isEmpty then .other
  else if m.params.length == 1 && m.body == "if $1.key == 'shift': {self.shift_is_held = True}" then .press
  else if m.params.length == 1 && m.body == "if $1.key == 'shift': {self.shift_is_held = False}" then .release
  else if m.params.length == 2 && m.selfCalls.contains "get_closest_pole" && !m.selfCalls.contains "get_closest_freq"
      && m.writes.contains "sel_freq" && m.writes.contains "pole_ind" && !m.writes.contains "freq_ind"
      && !m.writes.contains "shift_is_held" && !m.writes.contains "result" then .clickStab
  else if m.params.length == 1 && m.selfCalls.contains "get_closest_freq" && !m.selfCalls.contains "get_closest_pole"
      && m.writes.contains "sel_freq" && m.writes.contains "freq_ind" && !m.writes.contains "pole_ind"
      && !m.writes.contains "shift_is_held" && !m.writes.contains "result" then .clickFdd
  else if m.params.isEmpty && m.body == "self.root.quit(); self.root.destroy()" then .closing
  else .other

def roleOfName (m : String) : Role := match dmethod m with | some k => roleOf k | none => .other

/-- the canvas of the dialog's figure: `self.fig.canvas`, or the `FigureCanvasTkAgg(self.fig, self.root)` object
    (constructing it installs it as `self.fig.canvas`) held in a local variable -/
def isFigCanvas (r : String) : Bool :=
  r == "self.fig.canvas" || r == "<FigureCanvasTkAgg(self.fig, self.root)>" || r == "<FigureCanvasTkAgg(self.fig, master=self.root)>"

/-- the event connections in force for the variant -/
def connectionsFor (plot : String) : Option (List DConnect) :=
  activeRows (·.cond) plot (dconnects.filter (·.cls == dlg))

/-- the handlers matplotlib calls for an event of the given name: role of the connected method and the expressions
    its parameters receive (`<event>` = the event object), in signature order.  `none` if a connection of the variant
    is undecided, sits on another canvas, or its handler is not a method of the dialog (directly or through a
    `lambda … : self.m(…)`). -/
def dispatch (plot event : String) : Option (List (Role × List String)) :=
  match connectionsFor plot with
  | none => none
  | some cs =>
    let mpl := cs.filter (·.kind == "mpl_connect")
    if mpl.all (fun c => isFigCanvas c.registry && c.handler != "") then
      some ((mpl.filter (·.event == event)).map (fun c => (roleOfName c.handler, c.hbind.map (·.2))))
    else none

/-- the names of the canvas events the variant listens to -/
def eventsOf (plot : String) : Option (List String) :=
  (connectionsFor plot).map (fun cs => (cs.filter (·.kind == "mpl_connect")).map (·.event))

/-- closing the window: what `WM_DELETE_WINDOW` of the root window is bound to -/
def closeHandlers (plot : String) : Option (List (String × Role)) :=
  (connectionsFor plot).map (fun cs => (cs.filter (·.kind != "mpl_connect")).map (fun c => (c.registry ++ ":" ++ c.event, roleOfName c.handler)))

/-- position of the one unconditional call `callee(...)` in the method (none: absent, repeated or conditional) -/
def callPos (method callee : String) : Option Nat :=
  match dcalls.filter (fun c => c.cls == dlg && c.method == method && c.callee == callee) with
  | [c] => if c.cond.isEmpty then some c.pos else none
  | _ => none

/-- `self.root.mainloop()` is called once in the whole class: unconditionally in `__init__` -/
def mainloopPos : Option Nat :=
  if (dcalls.filter (fun c => c.cls == dlg && c.callee == "self.root.mainloop")).length == 1 then callPos "__init__" "self.root.mainloop" else none

/-- the methods that run while the dialog is being set up: `__init__` and the methods it calls before the main loop -/
def setupMethods : List String :=
  match mainloopPos with
  | none => []
  | some p => "__init__" :: ((dmethods.filter (fun m => m.cls == dlg && dcalls.any (fun c =>
      c.cls == dlg && c.method == "__init__" && c.pos < p && c.callee == "self." ++ m.name))).map (·.name))

/-- every event connection is made before the main loop starts: in `__init__` ahead of `mainloop()`, or in a method
    `__init__` calls unconditionally ahead of it -/
def connectsBeforeMainloop : Bool :=
  match mainloopPos with
  | none => false
  | some p => (dconnects.filter (·.cls == dlg)).all (fun c =>
      (c.method == "__init__" && c.pos < p) ||
      (match callPos "__init__" ("self." ++ c.method) with | some q => q < p | none => false))

/-- the value the variant's `__init__` (and the methods it calls during set-up) gives the attribute: exactly one
    assignment in force, located in `__init__` before the main loop -/
def initValue (plot attr : String) : Option String :=
  match mainloopPos, activeRows (·.cond) plot (dassigns.filter (fun a => a.cls == dlg && setupMethods.contains a.method && a.target == "self." ++ attr)) with
  | some p, some [a] => if a.method == "__init__" && a.pos < p then some a.value else none
  | _, _ => none

/-- the value handed over: `self.result` is assigned only in `__init__`, exactly once for the variant, AFTER the main
    loop has returned (the handlers rebind `self.sel_freq` / `self.pole_ind`, so a tuple built earlier holds stale lists) -/
def resultValue (plot : String) : Option String :=
  let rs := dassigns.filter (fun a => a.cls == dlg && a.target == "self.result")
  if rs.all (·.method == "__init__") && !(dmethods.any (fun m => m.cls == dlg && m.name != "__init__" && m.writes.contains "result")) then
    match mainloopPos, activeRows (·.cond) plot rs with
    | some p, some [a] => if p < a.pos then some a.value else none
    | _, _ => none
  else none

/-- nothing of the dialog's state lives on the class: the class body binds methods only (no class attributes, no
    bases, decorators or keywords that could supply shared state) -/
def stateIsPerInstance : Bool :=
  match dialogClasses.filter (·.name == dlg) with
  | [k] => k.attrs.isEmpty && k.bases.isEmpty && k.extras.isEmpty && k.own.all (fun n => (dmethod n).isSome)
      && (dmethods.filter (·.cls == dlg)).length == k.own.length
  | _ => false

/-- nothing is ever disconnected (the translator lists `mpl_disconnect` / `unbind` calls among the connections) -/
def noDisconnect : Bool := dconnects.all (fun c => c.kind != "mpl_disconnect" && c.kind != "unbind" && c.kind != "unbind_all")

end PV.Wiring
