import PyomaVerif.Generated.Wiring
/-! Queries over the generated wiring tables (core Lean only). -/
namespace PV.Wiring
open Gen

def site (cls method callee : String) (idx : Nat := 0) : Option Site :=
  sites.find? (fun s => s.cls == cls && s.method == method && s.callee == callee && s.idx == idx)

/-- the expression parameter `param` of the callee receives at that call site -/
def arg (cls method callee param : String) (idx : Nat := 0) : Option String :=
  (site cls method callee idx).bind (fun s => s.bind.lookup param)

/-- every listed parameter receives the listed expression -/
def args (cls method callee : String) (want : List (String × String)) (idx : Nat := 0) : Bool :=
  want.all (fun pv => arg cls method callee pv.1 idx == some pv.2)

/-- exactly the listed parameters are passed (nothing else, e.g. no stray positional argument) -/
def onlyParams (cls method callee : String) (ps : List String) (idx : Nat := 0) : Bool :=
  match site cls method callee idx with
  | some s => s.bind.map (·.1) == ps
  | none => false

def store (cls method target : String) : Option Store :=
  stores.find? (fun s => s.cls == cls && s.method == method && s.target == target)

def stored (cls method : String) (want : List (String × String)) : Bool :=
  want.all (fun tv => (store cls method tv.1).map (·.value) == some tv.2)

/-- the store happens before the call site (position inside the method) -/
def storedBefore (cls method target callee : String) (idx : Nat := 0) : Bool :=
  match store cls method target, site cls method callee idx with
  | some st, some s => st.pos < s.pos
  | _, _ => false

def storedAfter (cls method target callee : String) (idx : Nat := 0) : Bool :=
  match store cls method target, site cls method callee idx with
  | some st, some s => s.pos < st.pos
  | _, _ => false

end PV.Wiring
