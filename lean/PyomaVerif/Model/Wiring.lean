import PyomaVerif.Generated.Wiring
/-! Queries over the generated wiring tables (core Lean only). -/
namespace PV.Wiring
open Gen

def site (cls method callee : String) (idx : Nat := 0) : Option Site :=
  sites.find? (fun s => s.cls == cls && s.method == method && s.callee == callee && s.idx == idx)

/-- the expression parameter `param` of the callee receives at that call site -/
def arg (cls method callee param : String) (idx : Nat := 0) : Option String :=
  (site cls method callee idx).bind (fun s => s.bind.lookup param)

/-- every listed parameter receives the listed expression -/
def args (cls method callee : String) (want : List (String × String)) (idx : Nat := 0) : Bool :=
  want.all (fun pv => arg cls method callee pv.1 idx == some pv.2)

/-- exactly the listed parameters are passed (nothing else, e.g. no stray positional argument); the order in
    which the call spells them is immaterial (a positional argument rewritten as a keyword is the same call) -/
def onlyParams (cls method callee : String) (ps : List String) (idx : Nat := 0) : Bool :=
  match site cls method callee idx with
  | some s =>
    let names := s.bind.map (·.1)
    names.length == ps.length && names.all (ps.contains ·) && ps.all (names.contains ·)
  | none => false

def store (cls method target : String) : Option Store :=
  stores.find? (fun s => s.cls == cls && s.method == method && s.target == target)

def stored (cls method : String) (want : List (String × String)) : Bool :=
  want.all (fun tv => (store cls method tv.1).map (·.value) == some tv.2)

/-- all `self.result.* / self.run_params.*` stores of the method, in source order -/
def storesOf (cls method : String) : List (String × String) :=
  (stores.filter (fun s => s.cls == cls && s.method == method)).map (fun s => (s.target, s.value))

/-- the method stores exactly the listed (target, value) pairs — each once, nothing else, no later overwrite
    (the order of the assignments is immaterial) -/
def storedExactly (cls method : String) (want : List (String × String)) : Bool :=
  let have_ := storesOf cls method
  have_.length == want.length && have_.all (want.contains ·) && want.all (have_.contains ·)

/-- the names the results of the call are unpacked into -/
def rets (cls method callee : String) (idx : Nat := 0) : Option (List String) :=
  (site cls method callee idx).map (·.ret)

def sameSet (a b : List String) : Bool := a.length == b.length && a.all (b.contains ·) && b.all (a.contains ·)

/-- the library calls (and the `return ResultCls(...)`) of the method body, in source order, with the parameters
    of the callee that are bound at the site (positional arguments already resolved to parameter names) -/
def callsOf (cls method : String) : List (String × List String) :=
  (sites.filter (fun s => s.cls == cls && s.method == method)).map (fun s => (s.callee, s.bind.map (·.1)))

/-- the method makes exactly the listed calls in the listed order, and at each the SET of callee parameters that
    receive an argument is exactly the listed one (spelling — positional or keyword, and the order of keywords — is
    immaterial; every parameter not listed is left at the callee's default).  A new argument at a site, a dropped
    one, a new or dropped call all make this false. -/
def callsExactly (cls method : String) (want : List (String × List String)) : Bool :=
  let have_ := callsOf cls method
  have_.length == want.length && (have_.zip want).all (fun p => p.1.1 == p.2.1 && sameSet p.1.2 p.2.2)

/-- the store happens before the call site (position inside the method) -/
def storedBefore (cls method target callee : String) (idx : Nat := 0) : Bool :=
  match store cls method target, site cls method callee idx with
  | some st, some s => st.pos < s.pos
  | _, _ => false

def storedAfter (cls method target callee : String) (idx : Nat := 0) : Bool :=
  match store cls method target, site cls method callee idx with
  | some st, some s => s.pos < st.pos
  | _, _ => false

/-! ## Classes: who defines what (method resolution over the generated class table) -/

def classInfo (c : String) : Option ClassInfo := classes.find? (fun k => k.name == c)

def methodInfo (c m : String) : Option MethodInfo := methods.find? (fun k => k.cls == c && k.method == m)

/-- the class whose body binds the name `m` when it is looked up on an instance of `c`: `c` itself if its body
    binds `m` (method, attribute, or a module-level patch `c.m = …`), otherwise the lookup continues in the base
    class.  Only single inheritance is resolved (a class with several bases that does not bind `m` itself gives
    `none`, as does a decorated class or one with class keywords such as `metaclass=`); a base class outside the
    table is returned as the definer without looking further. -/
def resolveAux : Nat → String → String → Option String
  | 0, _, _ => none
  | fuel + 1, c, m =>
    match classInfo c with
    | none => some c
    | some k =>
      if !k.extras.isEmpty then none
      else if k.own.contains m then some c
      else match k.bases with
        | [b] => resolveAux fuel b m
        | _ => none

def resolve (c m : String) : Option String := resolveAux (classes.length + 1) c m

/-- the value of the class attribute `a` an instance of `c` sees -/
def attrOf (c a : String) : Option String :=
  (resolve c a).bind (fun d => (classInfo d).bind (fun k => k.attrs.lookup a))

/-- every listed class resolves `m` to the class `d` -/
def allResolve (cs : List String) (m d : String) : Bool := cs.all (fun c => resolve c m == some d)

/-! ## Guards: `mpe` / `mpe_from_plot` raise before anything is read or stored -/

/-- all recorded stores and call sites of the method body come after position `p` -/
def allAfter (c m : String) (p : Nat) : Bool :=
  (stores.filter (fun s => s.cls == c && s.method == m)).all (fun s => p < s.pos)
  && (sites.filter (fun s => s.cls == c && s.method == m)).all (fun s => p < s.pos)

def isResultGuard (g : String) : Bool :=
  g == "if not self.result: raise ValueError" || g == "if self.result is None: raise ValueError"

/-- the body of `m` as defined in class `d` starts with the guard: nothing but a docstring / aliases of arguments in
    front of it (`pre = []`), every store and every library call after it, the method undecorated; the guard is
    either the test itself or `super().m(...)` reaching a guarded body in the (single) base class. -/
def guardedBodyAux : Nat → String → String → Bool
  | 0, _, _ => false
  | fuel + 1, d, m =>
    match methodInfo d m with
    | none => false
    | some mi =>
      mi.pre.isEmpty && allAfter d m mi.guardPos && (mi.decorators.isEmpty || d == "BaseAlgorithm")
      && ((mi.guardKind == "raise" && isResultGuard mi.guardArg)
          || (mi.guardKind == "super" && mi.guardArg == m
              && match classInfo d with
                 | some k => (match k.bases with
                              | [b] => (match resolve b m with
                                        | some d' => guardedBodyAux fuel d' m
                                        | none => false)
                              | _ => false)
                 | none => false))

/-- calling `m` on an instance of `c` without a result raises `ValueError` before anything is stored -/
def guarded (c m : String) : Bool :=
  match resolve c m with
  | some d => guardedBodyAux (classes.length + 1) d m
  | none => false

/-- the algorithm classes of the table (everything but the abstract base) -/
def algClasses : List String := (classes.filter (fun k => k.module != "base")).map (·.name)

/-- the classes whose `m` is NOT guarded (what the C15 model takes as its `unguarded` list) -/
def unguarded (m : String) : List String := algClasses.filter (fun c => !guarded c m)

end PV.Wiring
