/-! Row types and queries of the generated table of call sites inside module-level functions
    (`Generated/FnCalls.lean`, written by `harness/translate_fncalls.py`).  Core Lean only. -/
namespace PV.FnCallsTbl

/-- one call of a tracked callee inside a module-level function -/
structure FnSite where
  caller : String
  callee : String
  /-- number of the call among the calls of the same callee in the same caller, in source order -/
  idx : Nat
  /-- branch tests on the way to the call (`not (…)` for an `else` / `elif` side), outermost first -/
  path : List String
  /-- inside a `for` loop -/
  loop : Bool
  /-- (callee parameter, bound expression), in the callee's parameter order; local helper names replaced by what
      they were assigned; arguments written as the callee's literal default are left out -/
  bind : List (String × String)
  /-- names the result is unpacked into -/
  ret : List String
deriving DecidableEq, Repr

structure FnSig where
  name : String
  params : List String
  /-- parameters with a default, and the default as source text -/
  dflt : List (String × String)
deriving DecidableEq, Repr

def siteOf (tbl : List FnSite) (caller callee : String) (idx : Nat := 0) : Option FnSite :=
  tbl.find? (fun s => s.caller == caller && s.callee == callee && s.idx == idx)

/-- the call exists, is reached under exactly the listed branch tests, and binds exactly the listed parameters to the
    listed values (every other parameter of the callee is at its default) -/
def bindsExactly (tbl : List FnSite) (caller callee : String) (idx : Nat) (path : List String)
    (want : List (String × String)) : Bool :=
  match siteOf tbl caller callee idx with
  | some s => s.path == path && s.bind == want
  | none => false

/-- the calls of `callee` in `caller` that are reached with `cond` as the innermost branch test that holds (the last
    entry of the path: earlier entries are the negations of exclusive tests on the same variable, whose number and order
    depend on how the `if / elif` chain is written) -/
def sitesUnder (tbl : List FnSite) (caller callee cond : String) : List FnSite :=
  tbl.filter (fun s => s.caller == caller && s.callee == callee && s.path.getLast? == some cond)

/-- exactly one call of `callee` is reached under `cond`, and it binds exactly the listed parameters -/
def bindsUnder (tbl : List FnSite) (caller callee cond : String) (want : List (String × String)) : Bool :=
  match sitesUnder tbl caller callee cond with
  | [s] => s.bind == want
  | _ => false

/-- the tracked calls of a function, in source order -/
def callsOf (tbl : List FnSite) (caller : String) : List String :=
  (tbl.filter (fun s => s.caller == caller)).map (·.callee)

def dfltOf (sg : List FnSig) (fn param : String) : Option String :=
  (sg.find? (fun s => s.name == fn)).bind (fun s => s.dflt.lookup param)

end PV.FnCallsTbl
