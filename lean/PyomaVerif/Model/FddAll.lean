import PyomaVerif.Model.EfddAll
/-!
# `fdd.SD_svalsvec` followed by `fdd.FDD_mpe` as ONE composed model — core Lean only

What `FDD.run` + `FDD.mpe` (and the first stage of `EFDD_mpe`) do with a spectral matrix
sequence `Sy` of shape `(nr, nc, nf)`:

`Sval, Svec = SD_svalsvec(Sy)` (`Efdd.svalsvec`, `np.linalg.svd` and `np.sqrt` applied inside the
model) → `FDD_mpe(Sval, Svec, freq, sel_freq, DF)` (`Fdd.fddMpe`).

`S_val` has shape `(nc, nc, nf)` and `S_vec` shape `(nr, nr, nf)` (`fdd.py:225-227`), so inside
`FDD_mpe` the subscript `Sval[1, 1, …]` needs `nc ≥ 2` and the shape row `Svec[0, :, k]` has `nr`
components: `fddOne nr nc …` (its guard `nr < 2 ∨ nc < 2` is `nc < 2` for `nc ≤ nr`).

Outside the compared domain (the model returns `.error "outside-model: …"`):
* `nr = 1 < nc`: numpy broadcasts the single singular value into the `(nc, nc)` block
  (for `2 ≤ nr < nc`, or `nr = 0`, and `nf > 0`, `Sval[k, :] = np.sqrt(S)` raises a broadcast
  `ValueError` in `SD_svalsvec`, `fdd.py:230` — an explicit `ValueError` branch of the model);
* a second stored singular value that is exactly zero somewhere in the band: numpy forms
  `x/0 = inf` (or `0/0 = nan`) and goes on, the `Rat` model would compute `x/0 = 0`.
-/
namespace PV.Fdd
open PV PV.Efdd

section all
variable {K : Type} [Zero K] [Add K] [Sub K] [Mul K] [Div K] [Neg K] [LT K] [DecidableLT K]
  [DecidableEq K]

/-- is `s2` exactly zero at some line of `[lo, hi)`? -/
def zeroInBand (s2 : Nat → K) (lo hi : Nat) : Bool :=
  (List.range (hi - lo)).any (fun i => decide (s2 (lo + i) = 0))

/-- one selected frequency through `SD_svalsvec` + the loop body of `FDD_mpe` -/
def fddOfSpecOne (E : Ext K) (nr nc nf : Nat) (Sy : Nat → Nat → Nat → Cx K) (freq : Nat → K)
    (DF sel : K) : Except String (ModeOut K) :=
  if 0 < nf ∧ nr < nc then
    if nr = 1 then .error "outside-model: a single row is broadcast into the (nc, nc) block"
    else .error "ValueError: could not broadcast input array"
  else
    let sv := svalsvec E nr nc nf Sy
    match fddPick nr nc nf freq (sv.1 0 0) (sv.1 1 1) sel DF with
    | .error e => .error e
    | .ok p =>
      if zeroInBand (sv.1 1 1) p.lo p.hi then
        .error "outside-model: zero second singular value in the band (numpy: inf/nan ratio)"
      else fddOne nr nc nf freq sv.1 sv.2 DF sel

/-- `FDD_mpe(*SD_svalsvec(Sy), freq, sel_freq, DF)`: the loop over `sel_freq`
    (the first exception aborts) -/
def fddOfSpec (E : Ext K) (nr nc nf : Nat) (Sy : Nat → Nat → Nat → Cx K) (freq : Nat → K)
    (sel : List K) (DF : K) : Except String (List (ModeOut K)) :=
  sel.mapM (fddOfSpecOne E nr nc nf Sy freq DF)

end all
end PV.Fdd
