import PyomaVerif.Model.Prep
/-!
# Who owns the buffers (C14: "no call ever modifies the arrays the user passed in or the stored initial copy")

`Model/Prep.lean` describes the VALUE of every array by a symbolic term; terms have no identity.  This layer adds the
identity: every numpy buffer is a number, the constructor arguments are `0 … k-1` (the USER's arrays), `copy.deepcopy`
and every scipy call that returns a new array allocate the next number.  Mirrored statements:

* `SingleSetup.__init__`: `self.data = data` (the user's buffer itself), `_initialize_data`: `self._initial_data =
  copy.deepcopy(data)` (single.py:78, 90); `rollback`: `self.data = self._initial_data` and then `_initialize_data(data=
  self._initial_data)` deep-copies AGAIN, so the buffer `data` now holds is the *former* initial copy (single.py:108-111);
* `MultiSetup_PreGER`: the same per dataset (multi.py:327, 344, 379); `self.data = pre_multisetup(…)` is built with
  fancy indexing (`y[:, ref].T`), always new buffers — not tracked;
* `decimate` / `sosfiltfilt` / `detrend(type='constant')` / `detrend(overwrite_data=False)` return new arrays;
  `scipy.signal.detrend(data, type='linear', overwrite_data=True)` on a float array detrends **in the buffer it was given**
  and returns a view of it (scipy/signal/_signaltools.py: `if not overwrite_data: newdata = newdata.copy()`); every check
  that raises (bad `type`, breakpoint beyond the length) comes before the first write;
* `PreGER.detrend_data` loops over the datasets: a dataset that is accepted is written before a later, shorter one raises.

`OwnVariant` says which statements are kept; `OwnVariant.current` is the tree as it is today.
-/
namespace PV.Prep

/-- who holds a buffer: the caller (constructor argument), the setup's stored initial copy, or nobody else. -/
inductive Owner | user | init | fresh
  deriving DecidableEq, Repr, Inhabited

structure OwnVariant where
  /-- `BaseSetup._detrend_data` hands `overwrite_data` on to scipy (base.py:310-311 `detrend(data, axis=axis, **kwargs)`). -/
  forwardOverwrite : Bool
  /-- `_initialize_data` stores `copy.deepcopy(…)` of its argument (not the argument itself). -/
  deepcopyInit : Bool
  deriving DecidableEq, Repr, Inhabited

/-- today's tree. -/
def OwnVariant.current : OwnVariant := ⟨true, true⟩
/-- the tree after `proposed_fixes/fix_g11.diff` (the keyword is accepted and not forwarded). -/
def OwnVariant.repaired : OwnVariant := ⟨false, true⟩

/-- the call asks scipy to work in place (`overwrite_data=True`). -/
def Op.overwrites : Op → Bool
  | .detrend kw => kw.overwriteData == some true
  | _ => false

/-- an ACCEPTED `scipy.signal.detrend` call writes into its argument: `overwrite_data` truthy and the linear branch
    (`'constant'` returns `data - mean` before `overwrite_data` is looked at).  Float arrays (`dtype.char in 'dfDF'`). -/
def detInPlace (kw : DetKwIn) : Bool :=
  kw.overwriteData == some true && kw.type.getD .linear == .linear

/-! ## SingleSetup -/

structure SOwn where
  st : SState
  /-- buffer of `self.data` -/
  dataId : Nat
  /-- buffer of `self._initial_data` -/
  initId : Nat
  /-- next unused buffer number -/
  next : Nat
  /-- buffers that were written in place, newest first -/
  writes : List Nat
  /-- buffers handed to algorithms by `add_algorithms` (`alg.data is self.data`), newest first -/
  boundIds : List Nat
  deriving DecidableEq, Repr, Inhabited

/-- `_initialize_data(data=<buffer arg>, …)`: `self._initial_data = copy.deepcopy(data)`. -/
def sOwnInitialize (ov : OwnVariant) (o : SOwn) (arg : Nat) : SOwn :=
  if ov.deepcopyInit then { o with initId := o.next, next := o.next + 1 } else { o with initId := arg }

/-- `SingleSetup.__init__(data, fs)`: buffer `0` is the user's array. -/
def sOwnInit (ov : OwnVariant) (c : SCfg) : SOwn :=
  sOwnInitialize ov { st := sInit c, dataId := 0, initId := 0, next := 1, writes := [], boundIds := [] } 0

/-- what an ACCEPTED call does to the buffers. -/
def sOwnIds (ov : OwnVariant) (o : SOwn) : Op → SOwn
  | .decimate _ _ => { o with dataId := o.next, next := o.next + 1 }
  | .filter _ _ _ => { o with dataId := o.next, next := o.next + 1 }
  | .detrend kw =>
      if ov.forwardOverwrite && detInPlace kw then { o with writes := o.dataId :: o.writes }
      else { o with dataId := o.next, next := o.next + 1 }
  | .rollback =>
      -- self.data = self._initial_data; self._initialize_data(data=self._initial_data, …)
      let o := { o with dataId := o.initId }
      sOwnInitialize ov o o.initId
  | .add => { o with boundIds := o.dataId :: o.boundIds }

/-- one call: the values move as in `sStep'`; a call that raises touches nothing (every scipy check precedes its first
    write, and `SingleSetup` makes one scipy call per method). -/
def sOwnStep (ov : OwnVariant) (v : Variant) (c : SCfg) (o : SOwn) (op : Op) : SOwn :=
  match sStep v c o.st op with
  | .ok st' => { sOwnIds ov o op with st := st' }
  | .error _ => o

def sOwnRun (ov : OwnVariant) (v : Variant) (c : SCfg) (ops : List Op) : SOwn :=
  ops.foldl (sOwnStep ov v c) (sOwnInit ov c)

/-- the tag of a buffer of a single-setup object (the user's array is buffer `0`). -/
def SOwn.owner (o : SOwn) (id : Nat) : Owner :=
  if id = 0 then .user else if id = o.initId then .init else .fresh

def SOwn.userWritten (o : SOwn) : Bool := o.writes.contains 0
def SOwn.initWritten (o : SOwn) : Bool := o.writes.contains o.initId

/-! ## MultiSetup_PreGER -/

structure MOwn where
  st : MState
  /-- buffers of `self.datasets[i]` -/
  dsIds : List Nat
  /-- buffers of `self._initial_datasets[i]` -/
  initIds : List Nat
  next : Nat
  writes : List Nat
  deriving DecidableEq, Repr, Inhabited

def freshIds (next k : Nat) : List Nat := List.range' next k

/-- `_initialize_data(…, datasets=<buffers args>)`: `self._initial_datasets = copy.deepcopy(datasets)`. -/
def mOwnInitialize (ov : OwnVariant) (o : MOwn) (args : List Nat) : MOwn :=
  if ov.deepcopyInit then { o with initIds := freshIds o.next args.length, next := o.next + args.length }
  else { o with initIds := args }

/-- `MultiSetup_PreGER.__init__`: buffers `0 … k-1` are the user's arrays. -/
def mOwnInit (ov : OwnVariant) (c : MCfg) : MOwn :=
  let k := c.n0.length
  mOwnInitialize ov { st := mInit c, dsIds := List.range k, initIds := [], next := k, writes := [] } (List.range k)

/-- the loop `for data in self.datasets: newdata = super()._detrend_data(data=data, **kwargs)` with an in-place
    keyword: the buffers written before the loop ends or the first dataset raises (oldest first). -/
def detWritesPrefix (n0 : Nat → Nat) (kw : DetKwIn) : List (Term × Nat) → List Nat
  | [] => []
  | (t, id) :: r =>
      match helperDetrend n0 t kw with
      | .ok _ => id :: detWritesPrefix n0 kw r
      | .error _ => []

/-- what an ACCEPTED call does to the buffers (writes of `detrend` are added by `mOwnStep`: they also happen in a
    call that ends with an exception). -/
def mOwnIds (ov : OwnVariant) (o : MOwn) : Op → MOwn
  | .decimate _ _ => { o with dsIds := freshIds o.next o.dsIds.length, next := o.next + o.dsIds.length }
  | .filter _ _ _ => { o with dsIds := freshIds o.next o.dsIds.length, next := o.next + o.dsIds.length }
  | .detrend kw =>
      if ov.forwardOverwrite && detInPlace kw then o
      else { o with dsIds := freshIds o.next o.dsIds.length, next := o.next + o.dsIds.length }
  | .rollback =>
      -- self.datasets = self._initial_datasets; self._initialize_data(…, datasets=self._initial_datasets)
      let o := { o with dsIds := o.initIds }
      mOwnInitialize ov o o.initIds
  | .add => o

/-- buffers written by this call, whether or not it ends with an exception (newest first). -/
def mOwnWrites (ov : OwnVariant) (c : MCfg) (o : MOwn) : Op → List Nat
  | .detrend kw =>
      if ov.forwardOverwrite && detInPlace kw then
        (detWritesPrefix c.n0f kw (o.st.datasets.zip o.dsIds)).reverse
      else []
  | _ => []

def mOwnStep (ov : OwnVariant) (v : Variant) (c : MCfg) (o : MOwn) (op : Op) : MOwn :=
  let o := { o with writes := mOwnWrites ov c o op ++ o.writes }
  match mStep v c o.st op with
  | .ok st' => { mOwnIds ov o op with st := st' }
  | .error _ => o

def mOwnRun (ov : OwnVariant) (v : Variant) (c : MCfg) (ops : List Op) : MOwn :=
  ops.foldl (mOwnStep ov v c) (mOwnInit ov c)

/-- the tag of a buffer of a PreGER object built from `k` arrays. -/
def MOwn.owner (k : Nat) (o : MOwn) (id : Nat) : Owner :=
  if id < k then .user else if o.initIds.contains id then .init else .fresh

def MOwn.userWritten (k : Nat) (o : MOwn) : Bool := o.writes.any (· < k)
def MOwn.initWritten (o : MOwn) : Bool := o.writes.any (o.initIds.contains ·)

end PV.Prep
