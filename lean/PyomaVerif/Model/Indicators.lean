import PyomaVerif.Model.Basic
/-!
# Mode-shape indicators `gen.MAC`, `gen.MSF`, `gen.MCF`, `gen.MPC`, `gen.MPD`
(core Lean only — no Mathlib)

The scalar type `K` is a parameter: the driver runs these very definitions over exact
`Rat` (and `mpd` over `Float`), the theorems are about them over an arbitrary linearly
ordered field (and over `ℝ` for `mpd`).  A complex number is the pair `Cx K`.
`Option.none` stands for a non-finite float (`0/0 = NaN`, `x/0 = ±inf`).

The model mirrors the code **after** the proposed repairs `proposed_fixes/fix_1.diff`
(MPD: components with zero modulus carry zero weight and are skipped, the `arccos`
argument is clipped to `[0, 1]`) and `fix_2.diff` (MPC: a shape without scatter about its
mean has MPC 1).  The pre-repair variants are in `Mutants/C18.lean`.
-/
namespace PV

/-- a complex number as a pair (numpy `complex128` ↔ `Cx Rat` exactly) -/
structure Cx (K : Type) where
  re : K
  im : K
deriving Repr

namespace Cx
variable {K : Type}

instance [Zero K] : Zero (Cx K) := ⟨⟨0, 0⟩⟩
instance [Add K] : Add (Cx K) := ⟨fun z w => ⟨z.re + w.re, z.im + w.im⟩⟩
instance [Add K] [Sub K] [Mul K] : Mul (Cx K) :=
  ⟨fun z w => ⟨z.re * w.re - z.im * w.im, z.re * w.im + z.im * w.re⟩⟩
instance [Inhabited K] : Inhabited (Cx K) := ⟨⟨default, default⟩⟩

/-- `np.conj` -/
def conj [Neg K] (z : Cx K) : Cx K := ⟨z.re, -z.im⟩
/-- `np.abs(z) ** 2` in exact arithmetic -/
def normSq [Add K] [Mul K] (z : Cx K) : K := z.re * z.re + z.im * z.im
/-- a real number as a complex one (`MAC.astype(complex)`, real-valued shapes) -/
def ofReal [Zero K] (x : K) : Cx K := ⟨x, 0⟩

/-- complex division `z / w`; `none` when `w = 0` (numpy: NaN / inf). -/
def div? [Add K] [Sub K] [Mul K] [Div K] [Zero K] [DecidableEq K] (z w : Cx K) : Option (Cx K) :=
  if normSq w = 0 then none
  else some ⟨(z.re * w.re + z.im * w.im) / normSq w, (z.im * w.re - z.re * w.im) / normSq w⟩

end Cx

section
variable {K : Type} [Zero K] [Add K] [Sub K] [Mul K] [Neg K]

/-- `np.conj(x) @ y` -/
def dotc (n : Nat) (x y : Nat → Cx K) : Cx K := sumTo n fun k => Cx.conj (x k) * y k
/-- `np.dot(x.T, y)` for 1-D `x`, `y` (no conjugation) -/
def dotu (n : Nat) (x y : Nat → Cx K) : Cx K := sumTo n fun k => x k * y k

/-- the vector `c·φ` -/
def cscale (c : Cx K) (φ : Nat → Cx K) : Nat → Cx K := fun k => c * φ k
/-- a real vector as a complex one -/
def ofRealVec (v : Nat → K) : Nat → Cx K := fun k => Cx.ofReal (v k)

variable [Div K] [DecidableEq K]

/-- One entry of `gen.MAC`:
    `np.abs(np.conj(x) @ a)**2` (cast to complex) divided by
    `np.conj(x) @ x * np.conj(a) @ a` — Python parses this product left to right as
    `((x̄·x) * ā) @ a` — and `.real` of the quotient. -/
def macEntry? (n : Nat) (x a : Nat → Cx K) : Option K :=
  let s := dotc n x a
  let num : Cx K := ⟨Cx.normSq s, 0⟩
  let xx := dotc n x x
  let den := sumTo n fun k => (xx * Cx.conj (a k)) * a k
  (Cx.div? num den).map Cx.re

/-- One entry of `gen.MSF`: `(np.dot(φ₂.T, φ₁) / np.dot(φ₁.T, φ₁)).real`. -/
def msfEntry? (n : Nat) (p1 p2 : Nat → Cx K) : Option K :=
  (Cx.div? (dotu n p2 p1) (dotu n p1 p1)).map Cx.re

variable [NatCast K] [One K]

/-- `((a − d)² + 4b²) / (a + d)²` — the common closed form of MCF (`1 −` it, on the raw
    second moments) and MPC (on the covariance). -/
def collin? (a b d : K) : Option K :=
  let den := (a + d) * (a + d)
  if den = 0 then none else some (((a - d) * (a - d) + ((4 : Nat) : K) * (b * b)) / den)

/-- One entry of `gen.MCF`. -/
def mcfEntry? (n : Nat) (φ : Nat → Cx K) : Option K :=
  let Sxx := sumTo n fun k => (φ k).re * (φ k).re
  let Syy := sumTo n fun k => (φ k).im * (φ k).im
  let Sxy := sumTo n fun k => (φ k).re * (φ k).im
  (collin? Sxx Sxy Syy).map fun r => 1 - r

/-- a symmetric 2×2 matrix `[[a, b], [b, d]]` -/
structure Sym2 (K : Type) where
  a : K
  b : K
  d : K

/-- `np.cov(phi.real, phi.imag)`: means removed, `dot`, times `1/(n−1)`. -/
def cov2 (n : Nat) (φ : Nat → Cx K) : Sym2 K :=
  let mr := (sumTo n fun k => (φ k).re) / (n : K)
  let mi := (sumTo n fun k => (φ k).im) / (n : K)
  let f : K := 1 / ((n - 1 : Nat) : K)
  ⟨(sumTo n fun k => ((φ k).re - mr) * ((φ k).re - mr)) * f,
   (sumTo n fun k => ((φ k).re - mr) * ((φ k).im - mi)) * f,
   (sumTo n fun k => ((φ k).im - mi) * ((φ k).im - mi)) * f⟩

/-- `gen.MPC` (repaired) with the two numbers returned by `np.linalg.eigvals(S)` as a
    parameter.  `n ≤ 1` makes `np.cov` divide by zero. -/
def mpc? (n : Nat) (φ : Nat → Cx K) (l0 l1 : K) : Option K :=
  if n ≤ 1 then none
  else
    let S := cov2 n φ
    if S.a + S.d = 0 then some 1      -- fix_2: no scatter about the mean
    else
      let den := (l0 + l1) * (l0 + l1)
      if den = 0 then none else some ((l0 - l1) * (l0 - l1) / den)

/-- `gen.MPC` with the eigenvalue step replaced by trace and determinant
    (`(λ₀−λ₁)² = (a+d)² − 4(ad−b²)`). -/
def mpcClosed? (n : Nat) (φ : Nat → Cx K) : Option K :=
  if n ≤ 1 then none
  else
    let S := cov2 n φ
    if S.a + S.d = 0 then some 1 else collin? S.a S.b S.d

/-- Square of the `arccos` argument of `gen.MPD` at one component:
    `(Re·V₁₁ − Im·V₀₁)² / ((V₀₁² + V₁₁²)·|φ_k|²)`; `none` is the `0/0` of a zero component. -/
def mpdArgSq? (z : Cx K) (v01 v11 : K) : Option K :=
  let num := z.re * v11 - z.im * v01
  let den := (v01 * v01 + v11 * v11) * Cx.normSq z
  if den = 0 then none else some (num * num / den)

end

/-! ### arrays as `MAC`, `MSF`, `MCF` receive them -/

/-- a numpy array argument: 1-D, 2-D, or of higher dimension (then only `ndim` and the
    first dimension are looked at before the exception). -/
inductive Phi (K : Type) where
  | vec (n : Nat) (v : Nat → K)
  | mat (m : Mat K)
  | nd (ndim : Nat) (d0 : Nat)

namespace Phi
variable {K : Type}
def ndim : Phi K → Nat
  | vec _ _ => 1
  | mat _ => 2
  | nd k _ => k
/-- `phi[:, np.newaxis]` for a 1-D array, the array itself for a 2-D one -/
def toMat? : Phi K → Option (Mat K)
  | vec n v => some ⟨n, 1, fun i _ => v i⟩
  | mat m => some m
  | nd _ _ => none
def col (m : Mat K) (j : Nat) : Nat → K := fun k => m.e k j
end Phi

inductive MacOut (K : Type) where
  | scalar (x : Option K)
  | matrix (m : Mat (Option K))

section
variable {K : Type} [Zero K] [Add K] [Sub K] [Mul K] [Neg K] [Div K] [DecidableEq K]

/-- `gen.MAC`: the two exceptions in the order of the code, one row per shape of the first
    argument, one column per shape of the second, `(1,1)` collapsed to a scalar. -/
def mac (X A : Phi (Cx K)) : Except String (MacOut K) :=
  if X.ndim > 2 ∨ A.ndim > 2 then .error "ndim"
  else match X.toMat?, A.toMat? with
    | some x, some a =>
      if x.r ≠ a.r then .error "first-dimension"
      else
        let M : Mat (Option K) := ⟨x.c, a.c, fun i j => macEntry? x.r (Phi.col x i) (Phi.col a j)⟩
        if M.r = 1 ∧ M.c = 1 then .ok (.scalar (M.e 0 0)) else .ok (.matrix M)
    | _, _ => .error "ndim"

/-- `gen.MSF`: same-shape check, one value per column. -/
def msf (P1 P2 : Phi (Cx K)) : Except String (List (Option K)) :=
  match P1.toMat?, P2.toMat? with
  | some a, some b =>
    if a.r ≠ b.r ∨ a.c ≠ b.c then .error "shape"
    else .ok ((List.range a.c).map fun i => msfEntry? a.r (Phi.col a i) (Phi.col b i))
  | _, _ => .error "unsupported"

variable [NatCast K] [One K]

/-- `gen.MCF`: one value per column. -/
def mcf (P : Phi (Cx K)) : Except String (List (Option K)) :=
  match P.toMat? with
  | some a => .ok ((List.range a.c).map fun i => mcfEntry? a.r (Phi.col a i))
  | none => .error "unsupported"

end

/-! ### MPD with the transcendental steps (runs over `Float`, proved over `ℝ`) -/

/-- the non-field operations `gen.MPD` uses -/
class MpdOps (K : Type) where
  sqrt : K → K
  arccos : K → K
  abs : K → K
  /-- decidable `<` -/
  lt : K → K → Bool

section
variable {K : Type} [Zero K] [One K] [Add K] [Sub K] [Mul K] [Div K] [MpdOps K]

/-- `np.clip(x, 0, 1)` -/
def clip01 (x : K) : K := if MpdOps.lt x 0 then 0 else if MpdOps.lt 1 x then 1 else x

/-- `gen.MPD` (repaired, fix_1) given the second column `(V[0,1], V[1,1])` of the right
    singular vectors of `[Re φ, Im φ]`:
    `w = |φ|`, `num = Re·V₁₁ − Im·V₀₁`, `den = √(V₀₁²+V₁₁²)·|φ|`, components with
    `den = 0` skipped, `Σ w·arccos(clip(|num/den|)) / Σ w`. -/
def mpd (n : Nat) (φ : Nat → Cx K) (v01 v11 : K) : K :=
  let w : Nat → K := fun k => MpdOps.sqrt (Cx.normSq (φ k))
  let num : Nat → K := fun k => (φ k).re * v11 - (φ k).im * v01
  let vn : K := MpdOps.sqrt (v01 * v01 + v11 * v11)
  let den : Nat → K := fun k => vn * w k
  let nz : Nat → Bool := fun k => MpdOps.lt 0 (den k)
  let ratio : Nat → K := fun k => clip01 (MpdOps.abs (num k / den k))
  (sumTo n fun k => if nz k then w k * MpdOps.arccos (ratio k) else 0)
    / (sumTo n fun k => if nz k then w k else 0)

end

instance : MpdOps Float := ⟨Float.sqrt, Float.acos, Float.abs, fun a b => a < b⟩

/-! ### closed forms of the symmetric 2×2 eigen-problem (depth round: the `np.linalg.eigvals`
    step of `gen.MPC` and the `np.linalg.svd` step of `gen.MPD` without parameters)

`gen.MPC` asks LAPACK for the eigenvalues of the 2×2 covariance, `gen.MPD` for the second right
singular vector of the `n×2` matrix `[Re φ, Im φ]`, i.e. the eigenvector of the 2×2 Gram matrix
`[Re, Im]ᵀ[Re, Im]` for its smaller eigenvalue.  Both have closed forms through one square
root; the definitions below take the square root from `MpdOps` (driver: IEEE `sqrt`,
theorems: `Real.sqrt`), so that the whole of `gen.MPD` runs in the driver with nothing recorded. -/

section closed2
variable {K : Type} [Zero K] [One K] [Add K] [Sub K] [Mul K] [Div K]

/-- discriminant `(a − d)² + 4b²` of `[[a, b], [b, d]]` (`4` spelled `(1+1)·(1+1)`: exact in
    binary floating point as well) -/
def Sym2.disc (S : Sym2 K) : K :=
  (S.a - S.d) * (S.a - S.d) + ((1 + 1) * (1 + 1)) * (S.b * S.b)

/-- the two eigenvalues `((a + d) ± s) / 2` of `[[a, b], [b, d]]`, larger first, given the
    square root function -/
def Sym2.eigvals (sqrt : K → K) (S : Sym2 K) : K × K :=
  let s := sqrt S.disc
  ((S.a + S.d + s) / (1 + 1), (S.a + S.d - s) / (1 + 1))

variable [Neg K]

/-- the Gram matrix `[Re φ, Im φ]ᵀ [Re φ, Im φ]` -/
def gram2 (n : Nat) (φ : Nat → Cx K) : Sym2 K :=
  ⟨sumTo n fun k => (φ k).re * (φ k).re,
   sumTo n fun k => (φ k).re * (φ k).im,
   sumTo n fun k => (φ k).im * (φ k).im⟩

variable [MpdOps K]

/-- an eigenvector of `[[a, b], [b, d]]` for its smaller eigenvalue `μ = (a + d − s)/2`,
    `s = √disc`: `(b, μ − a)` when `a > d`, else `(μ − d, b)` (the variant without
    cancellation: `μ − a = (d − a − s)/2`, `μ − d = (a − d − s)/2`); at an exact tie
    (`s = 0`: the matrix is a multiple of the identity, every direction is an eigenvector)
    `(0, 1)`.  Never the zero vector. -/
def Sym2.minorDir (S : Sym2 K) : K × K :=
  let s := MpdOps.sqrt S.disc
  if MpdOps.lt S.d S.a then (S.b, (S.d - S.a - s) / (1 + 1))
  else if MpdOps.lt 0 s then ((S.a - S.d - s) / (1 + 1), S.b)
  else (0, 1)

/-- `gen.MPD` (repaired) as an `Option`: `none` is the `0/0 = NaN` of `np.sum(w[nz]) = 0`
    (the weights are moduli, so the sum is `0` exactly when it is not positive). -/
def mpd? (n : Nat) (φ : Nat → Cx K) (v01 v11 : K) : Option K :=
  let w : Nat → K := fun k => MpdOps.sqrt (Cx.normSq (φ k))
  let vn : K := MpdOps.sqrt (v01 * v01 + v11 * v11)
  let nz : Nat → Bool := fun k => MpdOps.lt 0 (vn * w k)
  if MpdOps.lt 0 (sumTo n fun k => if nz k then w k else 0) then some (mpd n φ v01 v11) else none

/-- `gen.MPD` with the SVD step in closed form: the direction `V[:, 1]` is the minor
    direction of the Gram matrix (up to length and sign, which `mpd` does not see). -/
def mpdClosed (n : Nat) (φ : Nat → Cx K) : K :=
  mpd n φ (gram2 n φ).minorDir.1 (gram2 n φ).minorDir.2

/-- the same as an `Option` (`none` = NaN) -/
def mpdClosed? (n : Nat) (φ : Nat → Cx K) : Option K :=
  mpd? n φ (gram2 n φ).minorDir.1 (gram2 n φ).minorDir.2

end closed2

section mpceig
variable {K : Type} [Zero K] [One K] [Add K] [Sub K] [Mul K] [Neg K] [Div K] [DecidableEq K] [NatCast K]

/-- `gen.MPC` with the eigenvalue step in closed form (`sqrt` a parameter function) -/
def mpcEig? (sqrt : K → K) (n : Nat) (φ : Nat → Cx K) : Option K :=
  mpc? n φ ((cov2 n φ).eigvals sqrt).1 ((cov2 n φ).eigvals sqrt).2

end mpceig

end PV
