import PyomaVerif.Model.Geo
import PyomaVerif.Generated.GeoWiring
/-!
# Geometry from a file (C19 clause 1): `GeometryMixin._def_geo_by_file`, `def_geo1_by_file`, `def_geo2_by_file`

Core Lean only.  `read_excel_file(path, **kwargs)` is the boundary: its result (the dictionary of sheets, a
`FileDict`) is an input of the model (the harness patches `read_excel_file` and hands the same dictionary to both).

Which position of the checker's result tuple reaches which field of the stored `Geometry1/2` object is NOT visible in
the model (`Out1`/`Out2` are records with named fields); it is read from the source by `harness/translate_geo.py`
(`Generated/GeoWiring.lean`) and pinned by the obligations of `Props/WiringGeo.lean` (`PV.GeoWiring` below holds the
queries), and executed by the stream `def_geo{1,2}_by_file` of `harness/c19.py`.
-/
namespace PV
namespace Geo

/-- what ends up on the setup object: `self.geo1 = Geometry1(...)` or `self.geo2 = Geometry2(...)` -/
inductive GeoObj where
  | geo1 (g : Out1)
  | geo2 (g : Out2)
  deriving DecidableEq, Repr

inductive FileErr where
  /-- an exception of `check_on_geo1/2` (or of building the object) -/
  | geo (e : GeoErr)
  /-- `raise ValueError(f"Invalid geometry type: {geo_type}")` -/
  | invalidType
  deriving DecidableEq, Repr

/-- `float(cell)`: a string raises `ValueError: could not convert string to float` (strings of the domain do not
    parse as floats) -/
def floatCell : Cell → Except GeoErr Cell
  | .str _ => .error (.valueError .mapUnknown)
  | c => .ok c

/-- `df.astype(float)` -/
def astypeFloat (t : Tbl) : Except GeoErr Tbl :=
  match t.cells.mapM (fun r => r.mapM floatCell) with
  | .ok c => .ok { t with cells := c }
  | .error e => .error e

/-- `Geometry2(sens_names=res_ok[0], pts_coord=res_ok[1].astype(float), …)`: `.astype` on the `None` of an empty
    points table raises `AttributeError` -/
def storeGeo2 (r : Out2) : Except GeoErr Out2 :=
  match r.pts with
  | none => .error .attributeError
  | some p =>
    match astypeFloat p with
    | .ok p' => .ok { r with pts := some p' }
    | .error e => .error e

/-- `_def_geo_by_file(geo_type, path, **kw)` after `file_dict = read_excel_file(path=path, **kw)` returned `fd`
    (`ref_ind = getattr(self, "ref_ind", None)`). -/
def defGeoByFile (geoType : String) (fd : FileDict) (refInd : Option (List (List Nat))) :
    Except FileErr GeoObj :=
  if geoType == "geo1" then
    match checkGeo1 fd refInd with
    | .error e => .error (.geo e)
    | .ok r => .ok (.geo1 r)
  else if geoType == "geo2" then
    match checkGeo2 fd refInd with
    | .error e => .error (.geo e)
    | .ok r =>
      match storeGeo2 r with
      | .error e => .error (.geo e)
      | .ok g => .ok (.geo2 g)
  else .error .invalidType

/-- `def_geo1_by_file(path, **kw)` = `self._def_geo_by_file(geo_type="geo1", path=path, **kw)` -/
def defGeo1ByFile (fd : FileDict) (refInd : Option (List (List Nat))) : Except FileErr GeoObj :=
  defGeoByFile "geo1" fd refInd

/-- `def_geo2_by_file(path, **kw)` = `self._def_geo_by_file(geo_type="geo2", path=path, **kw)` -/
def defGeo2ByFile (fd : FileDict) (refInd : Option (List (List Nat))) : Except FileErr GeoObj :=
  defGeoByFile "geo2" fd refInd

end Geo

/-! ## Queries over the generated entry-point table -/
namespace GeoWiring
open Gen.GeoWiring

def sameSet {α} [BEq α] (a b : List α) : Bool := a.length == b.length && a.all (b.contains ·) && b.all (a.contains ·)

def fieldsOf (entry : String) : List Field := fields.filter (·.entry == entry)

/-- per keyword of the stored object: (field, position in the checker's result tuple, what the checker returns
    there, calls applied on the way) -/
def fieldMap (entry : String) : List (String × Nat × String × String) :=
  (fieldsOf entry).map fun f => (f.field, f.idx, f.what, f.wrap)

def callOf (entry : String) (n : Nat) : Option Call := calls.find? fun c => c.entry == entry && c.call == n

/-- the entry point stores exactly ONE object, of class `cls`, on `self.<target>`; every keyword of it comes from ONE
    call of `checker`; the parameters of that call receive exactly `bind` (as a set: keyword or positional spelling
    and order are immaterial) -/
def storesFrom (entry target cls checker : String) (bind : List (String × String)) : Bool :=
  storeCount.lookup entry == some 1 &&
  match fieldsOf entry with
  | [] => false
  | f :: fs =>
    (f :: fs).all (fun g => g.target == target && g.cls == cls && g.checker == checker && g.call == f.call) &&
    (calls.filter fun c => c.entry == entry && c.callee == checker).length == 1 &&
    match callOf entry f.call with
    | some c => c.callee == checker && sameSet c.bind bind && c.star == ""
    | none => false

/-- the one call of `read_excel_file` of the entry point: what its parameters receive and what travels in `**` -/
def readCall (entry : String) : Option (List (String × String) × String) :=
  match calls.filter fun c => c.entry == entry && c.callee == "read_excel_file" with
  | [c] => some (c.bind, c.star)
  | _ => none

/-- the arguments of the entry point the value under sheet key `k` of the assembled dictionary is computed from -/
def dictUses (entry k : String) : Option (List String) :=
  match dictRows.filter fun r => r.entry == entry && r.key == k with
  | [r] => some r.uses
  | _ => none

/-- the assembled dictionary has exactly the listed keys, each computed from exactly the listed arguments -/
def dictExactly (entry : String) (want : List (String × List String)) : Bool :=
  (dictRows.filter (·.entry == entry)).length == want.length &&
  want.all fun kv => match dictUses entry kv.1 with
    | some us => sameSet us kv.2
    | none => false

/-- the field ← position tables of the code, geometry 1 / 2 (what `check_on_geo1/2` return, in order) -/
def geo1Fields : List (String × Nat × String × String) :=
  [("sens_names", 0, "computed", ""), ("sens_coord", 1, "computed", ""), ("sens_dir", 2, "computed", ""),
   ("sens_lines", 3, "sheet:sensors lines", ""), ("bg_nodes", 4, "sheet:BG nodes", ""),
   ("bg_lines", 5, "sheet:BG lines", ""), ("bg_surf", 6, "sheet:BG surfaces", "")]

def geo2Fields : List (String × Nat × String × String) :=
  [("sens_names", 0, "computed", ""), ("pts_coord", 1, "sheet:points coordinates", ".astype(float)"),
   ("sens_map", 2, "sheet:mapping", ""), ("cstrn", 3, "sheet:constraints", ""),
   ("sens_sign", 4, "sheet:sensors sign", ""), ("sens_lines", 5, "sheet:sensors lines", ""),
   ("sens_surf", 6, "sheet:sensors surfaces", ""), ("bg_nodes", 7, "sheet:BG nodes", ""),
   ("bg_lines", 8, "sheet:BG lines", ""), ("bg_surf", 9, "sheet:BG surfaces", "")]

def refIndExpr : String := "getattr(self.ref_ind, None)"

end GeoWiring
end PV
