/-!
# Geometry tables (C19): `gen.flatten_sns_names`, `gen.check_on_geo1`, `gen.check_on_geo2`,
`gen.dfphi_map_func`, `GeometryMixin.def_geo1/def_geo2`, displayed displacement
(`mpl_plotter.Geo2MplPlotter.plot_mode`).

Core Lean only.  The model follows the code statement by statement *after* the two proposed
repairs (`proposed_fixes/fix_F19.diff`: the optional `constraints` sheet may be absent;
`proposed_fixes/fix_F21.diff`: `def_geo1/def_geo2` convert the documented list / ndarray
argument forms to tables).  The pre-fix variants are in `Mutants/C19.lean`.

Domain of the model (what the harness generates, what pandas does outside is not modelled):
* a sheet is a pandas `DataFrame` as `read_excel(index_col=0)` delivers it: an index
  (labels rendered as strings), column labels and a rectangular block of cells
  (`Tbl.WF`); column labels of one table are distinct;
* a cell is a number, a string or NaN; sensor names are strings (a NaN in the one-row
  name table is kept as `none`, as the code keeps it);
* numeric mapping cells are `0` (`str(0)`/`str(0.0)` are both in the code's list of
  non-constraint strings, so the model renders every zero as `"0"`); no sensor or
  constraint is called `"0"`, `"0.0"`, `"interp"`, and no mapping string parses as a float.
-/
namespace PV
namespace Geo

/-- one cell of a sheet -/
inductive Cell where
  | num (q : Rat)
  | str (s : String)
  | nan
  deriving DecidableEq, Repr, Inhabited

/-- a `DataFrame`: `.values.shape = (index.length, cols.length)` -/
structure Tbl where
  index : List String
  cols : List String
  cells : List (List Cell)
  deriving DecidableEq, Repr, Inhabited

namespace Tbl
def nrows (t : Tbl) : Nat := t.index.length
def ncols (t : Tbl) : Nat := t.cols.length
/-- `df.values.shape` -/
def shape (t : Tbl) : Nat × Nat := (t.nrows, t.ncols)
/-- `df.empty`: some axis has length 0 -/
def empty (t : Tbl) : Bool := t.nrows == 0 || t.ncols == 0
/-- `pd.DataFrame()` -/
def nil : Tbl := ⟨[], [], []⟩
/-- the block of cells is `nrows × ncols` -/
def WF (t : Tbl) : Prop := t.cells.length = t.index.length ∧ ∀ r ∈ t.cells, r.length = t.cols.length
end Tbl

/-- a sensor name as the code carries it: a string, or the NaN of an unfilled name cell -/
abbrev Name := Option String

/-- reason of a `ValueError` (the message of the code, classified) -/
inductive Why where
  | missingRequired | unknownSheet | coordCols | shapeMismatch | signShape
  | bgNodesCols | bgLinesCols | bgSurfCols | indexMismatch | namesForm | nameAbsent
  | dupIndex | cstrCols | cstrRows | lenMismatch | mapUnknown
  deriving DecidableEq, Repr

inductive GeoErr where
  | valueError (why : Why)
  | keyError
  | attributeError
  | indexError
  | typeError
  deriving DecidableEq, Repr

/-! ## `flatten_sns_names` -/

/-- the accepted forms of the `sens_names` argument / sheet -/
inductive NamesArg where
  /-- `DataFrame`, one row per setup, short rows padded with NaN (`none`) -/
  | table (rows : List (List Name))
  /-- python list of `str` (also `[]`) -/
  | list (l : List String)
  /-- python list of lists of `str` -/
  | listList (l : List (List String))
  /-- 1-D `ndarray` of `str` -/
  | array (l : List String)
  /-- anything else (tuple, 2-D array, mixed list) -/
  | other
  deriving DecidableEq, Repr

/-- `["REF1", …, "REFk"]` -/
def refNames (k : Nat) : List Name := (List.range k).map fun i => some s!"REF{i + 1}"

/-- `[row[j] for j in range(len(row)) if j not in ref]` -/
def roving (row : List Name) (ref : List Nat) : List Name :=
  (row.zipIdx.filter fun p => !ref.contains p.2).map (·.1)

/-- multi-setup branch: `ref_ind is None → AttributeError`; `k = len(ref_ind[0])`
    (`IndexError` on an empty list); `ref_ind[i]` for every setup `i`
    (`IndexError` when there are fewer entries than setups). -/
def flattenMulti (rows : List (List Name)) (refInd : Option (List (List Nat))) :
    Except GeoErr (List Name) :=
  match refInd with
  | none => .error .attributeError
  | some [] => .error .indexError
  | some (r0 :: rs) =>
    if rows.length > (r0 :: rs).length then .error .indexError
    else .ok (refNames r0.length ++ (rows.zip (r0 :: rs)).flatMap fun p => roving p.1 p.2)

def flattenNames (a : NamesArg) (refInd : Option (List (List Nat))) : Except GeoErr (List Name) :=
  match a with
  | .table [] => .error (.valueError .namesForm)
  | .table [row] => .ok row
  | .table rows => flattenMulti (rows.map fun r => r.filter Option.isSome) refInd
  | .list l => if l.isEmpty then flattenMulti [] refInd else .ok (l.map some)
  | .listList l => flattenMulti (l.map fun r => r.map some) refInd
  | .array l => .ok (l.map some)
  | .other => .error (.valueError .namesForm)

/-! ## re-indexing by name -/

def nanRow (n : Nat) : List Cell := List.replicate n .nan

/-- the row of a table labelled `s` (first match), NaN row if there is none -/
def lookupRow (t : Tbl) (s : String) : List Cell :=
  ((t.index.zip t.cells).lookup s).getD (nanRow t.ncols)

/-- `df.reindex(index=names).values`: pandas returns the frame as it is when the index
    already equals the target, raises `ValueError` ("cannot reindex on an axis with
    duplicate labels") when the index has duplicates, and otherwise looks every target
    label up (NaN row for an unknown label). -/
def reindexRows (t : Tbl) (names : List Name) : Except GeoErr (List (List Cell)) :=
  if t.index.map some = names then .ok t.cells
  else if ¬ t.index.Nodup then .error (.valueError .dupIndex)
  else .ok (names.map fun n => match n with
    | some s => lookupRow t s
    | none => nanRow t.ncols)

/-! ## the dictionary of sheets -/

/-- `file_dict`: the value under `"sensors names"` (any accepted form) and the other
    sheets in dictionary order (keys distinct). -/
structure FileDict where
  names : Option NamesArg
  tbls : List (String × Tbl)
  deriving Repr

/-- `del file_dict["INFO"]` -/
def dropInfo (d : List (String × Tbl)) : List (String × Tbl) := d.filter fun p => p.1 != "INFO"

/-- `file_dict.get(k) is not None and not file_dict[k].empty and file_dict[k].values.shape[1] != n` -/
def colsBad (d : List (String × Tbl)) (k : String) (n : Nat) : Bool :=
  match d.lookup k with
  | some t => !t.empty && t.ncols != n
  | none => false

def sub1Cell : Cell → Except GeoErr Cell
  | .num q => .ok (.num (q - 1))
  | .nan => .ok .nan
  | .str _ => .error .typeError

def sub1Rows (c : List (List Cell)) : Except GeoErr (List (List Cell)) := c.mapM fun r => r.mapM sub1Cell

/-- an index sheet on return: absent or empty → `None`, else the array of `df.sub(1)` -/
def subIdx (d : List (String × Tbl)) (k : String) : Except GeoErr (Option (List (List Cell))) :=
  match d.lookup k with
  | none => .ok none
  | some t => if t.empty then .ok none else
      match sub1Rows t.cells with
      | .ok c => .ok (some c)
      | .error e => .error e

/-- a coordinate sheet on return: absent or empty → `None`, else its array, untouched -/
def plainArr (d : List (String × Tbl)) (k : String) : Option (List (List Cell)) :=
  match d.lookup k with
  | none => none
  | some t => if t.empty then none else some t.cells

def noneIfEmpty (t : Tbl) : Option Tbl := if t.empty then none else some t

def isTable : NamesArg → Bool
  | .table _ => true
  | _ => false

/-! ## `check_on_geo1` -/

def geo1All : List String :=
  ["sensors coordinates", "sensors directions", "sensors lines", "BG nodes", "BG lines", "BG surfaces"]

structure Out1 where
  names : List Name
  /-- `sens_coord` (a frame indexed by `names`, columns of the input) -/
  coordCols : List String
  coord : List (List Cell)
  dir : List (List Cell)
  lines : Option (List (List Cell))
  bgNodes : Option (List (List Cell))
  bgLines : Option (List (List Cell))
  bgSurf : Option (List (List Cell))
  deriving DecidableEq, Repr

def nameIn (l : List String) : Name → Bool
  | some s => l.contains s
  | none => false

/-- the checks on sheet names, shapes and row labels, in the order of the code:
    the reason of the first `ValueError`, if any -/
def geo1Pre (d : List (String × Tbl)) (co di : Tbl) : Option Why :=
  if d.any (fun p => !geo1All.contains p.1) then some .unknownSheet else
  if co.ncols != 3 then some .coordCols else
  if co.shape != di.shape then some .shapeMismatch else
  if colsBad d "BG nodes" 3 then some .bgNodesCols else
  if colsBad d "BG lines" 2 then some .bgLinesCols else
  if colsBad d "BG surfaces" 3 then some .bgSurfCols else
  if co.index != di.index then some .indexMismatch else none

def checkGeo1 (fd : FileDict) (refInd : Option (List (List Nat))) : Except GeoErr Out1 :=
  let d := dropInfo fd.tbls
  match fd.names, d.lookup "sensors coordinates", d.lookup "sensors directions" with
  | some nm, some co, some di =>
    match geo1Pre d co di with
    | some w => .error (.valueError w)
    | none =>
    match flattenNames nm refInd with
    | .error e => .error e
    | .ok names =>
      if !names.all (nameIn co.index) then .error (.valueError .nameAbsent) else
      match reindexRows co names with
      | .error e => .error e
      | .ok cc =>
      match reindexRows di names with
      | .error e => .error e
      | .ok dd =>
      match subIdx d "sensors lines" with
      | .error e => .error e
      | .ok sl =>
      match subIdx d "BG lines" with
      | .error e => .error e
      | .ok bl =>
      match subIdx d "BG surfaces" with
      | .error e => .error e
      | .ok bs =>
        -- `for sheet, df in file_dict.items(): if df.empty` on a list / ndarray value
        if !isTable nm then .error .attributeError else
        .ok { names := names, coordCols := co.cols, coord := cc, dir := dd, lines := sl,
              bgNodes := plainArr d "BG nodes", bgLines := bl, bgSurf := bs }
  | _, _, _ => .error (.valueError .missingRequired)

/-! ## `check_on_geo2` -/

def geo2All : List String :=
  ["points coordinates", "mapping", "constraints", "sensors sign", "sensors lines",
   "sensors surfaces", "BG nodes", "BG lines", "BG surfaces"]

structure Out2 where
  names : List Name
  pts : Option Tbl
  map : Option Tbl
  cstr : Option Tbl
  sign : Option Tbl
  lines : Option (List (List Cell))
  surf : Option (List (List Cell))
  bgNodes : Option (List (List Cell))
  bgLines : Option (List (List Cell))
  bgSurf : Option (List (List Cell))
  deriving DecidableEq, Repr

/-- `df.fillna(0)` -/
def fill0Cell : Cell → Cell
  | .nan => .num 0
  | c => c
def fill0 (t : Tbl) : Tbl := { t with cells := t.cells.map fun r => r.map fill0Cell }

/-- `pd.DataFrame(np.ones(shape), columns=pts.columns)` (default `RangeIndex`) -/
def onesLike (pt : Tbl) : Tbl :=
  ⟨(List.range pt.nrows).map toString, pt.cols, List.replicate pt.nrows (List.replicate pt.ncols (.num 1))⟩

/-- `str(value)` of a mapping cell (see the domain note at the top for numbers) -/
def cellStr : Cell → String
  | .str s => s
  | .num q => if q = 0 then "0" else s!"num:{q.num}/{q.den}"
  | .nan => "nan"

def possibleCstr : List String := ["0", "0.0", "interp"]

/-- `constraints[name] = 0` for the missing names, then `constraints[sens_names]`:
    one column per sensor name, in the order of the names. -/
def reorderCols (cs : Tbl) (names : List Name) : Tbl :=
  { index := cs.index
    cols := names.map fun n => n.getD "nan"
    cells := cs.cells.map fun row => names.map fun n => match n with
      | some s => ((cs.cols.zip row).lookup s).getD (.num 0)
      | none => .num 0 }

/-- `sensors sign` present, not empty and of another shape than the points -/
def signBad (d : List (String × Tbl)) (pt : Tbl) : Bool :=
  match d.lookup "sensors sign" with
  | some sg => !sg.empty && pt.shape != sg.shape
  | none => false

/-- the checks on sheet names and shapes, in the order of the code -/
def geo2Pre (d : List (String × Tbl)) (pt mp : Tbl) : Option Why :=
  if d.any (fun p => !geo2All.contains p.1) then some .unknownSheet else
  if pt.ncols != 3 then some .coordCols else
  if pt.shape != mp.shape then some .shapeMismatch else
  if signBad d pt then some .signShape else
  if colsBad d "BG nodes" 3 then some .bgNodesCols else
  if colsBad d "BG lines" 2 then some .bgLinesCols else
  if colsBad d "BG surfaces" 3 then some .bgSurfCols else none

/-- `sens_sign`: the sheet, or ones when it is absent or empty -/
def signOf (d : List (String × Tbl)) (pt : Tbl) : Tbl :=
  match d.lookup "sensors sign" with
  | some sg => if sg.empty then onesLike pt else sg
  | none => onesLike pt

/-- `[str(v) for v in df_map.values.flatten()]` -/
def mapStrs (mp : Tbl) : List String := mp.cells.flatten.map cellStr

/-- the strings of the mapping that are neither sensor names nor `0`/`0.0`/`interp` -/
def mapCstrs (mp : Tbl) (names : List Name) : List String :=
  (mapStrs mp).filter fun v => !names.contains (some v) && !possibleCstr.contains v

/-- the checks that tie names, mapping and constraints -/
def geo2Names (names : List Name) (mp' cs : Tbl) : Option Why :=
  if !names.all (nameIn (mapStrs mp')) then some .nameAbsent else
  if !cs.cols.all (fun c => names.contains (some c)) then some .cstrCols else
  if !cs.index.all (fun i => (mapCstrs mp' names).contains i) then some .cstrRows else none

/-- `file_dict["constraints"]`, with `mc` for a missing key (`none` = `KeyError`) -/
def cstrOf (mc : Option Tbl) (d : List (String × Tbl)) : Option Tbl :=
  match d.lookup "constraints" with
  | some c => some c
  | none => mc

/-- `checkGeo2` with the treatment of a missing `constraints` key as a parameter
    (`none` = `file_dict["constraints"]` raises `KeyError`, the pinned code). -/
def checkGeo2With (missingCstr : Option Tbl) (fd : FileDict) (refInd : Option (List (List Nat))) :
    Except GeoErr Out2 :=
  let d := dropInfo fd.tbls
  match fd.names, d.lookup "points coordinates", d.lookup "mapping" with
  | some nm, some pt, some mp =>
    match geo2Pre d pt mp with
    | some w => .error (.valueError w)
    | none =>
    match flattenNames nm refInd with
    | .error e => .error e
    | .ok names =>
    match cstrOf missingCstr d with
    | none => .error .keyError
    | some cs0 =>
      match geo2Names names (fill0 mp) (fill0 cs0) with
      | some w => .error (.valueError w)
      | none =>
      match subIdx d "sensors lines" with
      | .error e => .error e
      | .ok sl =>
      match subIdx d "sensors surfaces" with
      | .error e => .error e
      | .ok ss =>
      match subIdx d "BG lines" with
      | .error e => .error e
      | .ok bl =>
      match subIdx d "BG surfaces" with
      | .error e => .error e
      | .ok bs =>
        if !isTable nm then .error .attributeError else
        .ok { names := names, pts := noneIfEmpty pt, map := noneIfEmpty (fill0 mp),
              cstr := noneIfEmpty (reorderCols (fill0 cs0) names),
              sign := noneIfEmpty (signOf d pt), lines := sl, surf := ss,
              bgNodes := plainArr d "BG nodes", bgLines := bl, bgSurf := bs }
  | _, _, _ => .error (.valueError .missingRequired)

/-- `check_on_geo2` (after `fix_F19`: `file_dict.get("constraints", pd.DataFrame())`) -/
def checkGeo2 (fd : FileDict) (refInd : Option (List (List Nat))) : Except GeoErr Out2 :=
  checkGeo2With (some Tbl.nil) fd refInd

/-! ## `def_geo1` / `def_geo2` (after `fix_F21`) -/

/-- an optional array-like argument: `None`, a `DataFrame`, or an `ndarray`
    (given as the table `pd.DataFrame(arr)` with `isArr = true`) -/
structure ArrArg where
  t : Tbl
  isArr : Bool
  deriving Repr

/-- `sens_names` is brought to the one-row table of the flattened names unless it is a table -/
def namesToTable (nm : NamesArg) (refInd : Option (List (List Nat))) : Except GeoErr NamesArg :=
  if isTable nm then .ok nm else
    match flattenNames nm refInd with
    | .ok l => .ok (.table [l])
    | .error e => .error e

def optSheet (k : String) (a : Option ArrArg) : (String × Tbl) :=
  (k, match a with
      | some x => x.t
      | none => Tbl.nil)

/-- `def_geo1`: an ndarray of directions takes the row labels of `sens_coord`
    (`pd.DataFrame(sens_dir, index=sens_coord.index)`, `ValueError` on a length mismatch). -/
def defGeo1 (nm : NamesArg) (coord : Tbl) (dir : ArrArg) (lines bgNodes bgLines bgSurf : Option ArrArg)
    (refInd : Option (List (List Nat))) : Except GeoErr Out1 :=
  match namesToTable nm refInd with
  | .error e => .error e
  | .ok nm' =>
    if dir.isArr && dir.t.nrows != coord.nrows then .error (.valueError .lenMismatch) else
    let di : Tbl := if dir.isArr then { dir.t with index := coord.index } else dir.t
    checkGeo1 ⟨some nm', [("sensors coordinates", coord), ("sensors directions", di),
      optSheet "sensors lines" lines, optSheet "BG nodes" bgNodes, optSheet "BG lines" bgLines,
      optSheet "BG surfaces" bgSurf]⟩ refInd

def defGeo2 (nm : NamesArg) (pts map : Tbl) (cstr sign lines surf bgNodes bgLines bgSurf : Option ArrArg)
    (refInd : Option (List (List Nat))) : Except GeoErr Out2 :=
  match namesToTable nm refInd with
  | .error e => .error e
  | .ok nm' =>
    checkGeo2 ⟨some nm', [("points coordinates", pts), ("mapping", map),
      optSheet "constraints" cstr, optSheet "sensors sign" sign, optSheet "sensors lines" lines,
      optSheet "sensors surfaces" surf, optSheet "BG nodes" bgNodes, optSheet "BG lines" bgLines,
      optSheet "BG surfaces" bgSurf]⟩ refInd

/-! ## `dfphi_map_func` and the displayed displacement -/

/-- `dict(zip(keys, vals))[k]`: the last pair with that key wins -/
def dictGet {α β} [BEq α] (kv : List (α × β)) (k : α) : Option β := kv.reverse.lookup k

/-- numpy `a @ b` for one row -/
def dot (a b : List Rat) : Rat := (List.zipWith (· * ·) a b).sum

/-- `to_numpy(na_value=0)` on a numeric frame -/
def cellNum0 : Cell → Except GeoErr Rat
  | .num q => .ok q
  | .nan => .ok 0
  | .str _ => .error .typeError

/-- `val = cstr @ phi`, one value per constraint row (`ValueError` on a length mismatch) -/
def cstrVals (cs : Tbl) (phi : List Rat) : Except GeoErr (List (String × Rat)) :=
  if cs.ncols != phi.length then .error (.valueError .lenMismatch) else
  match cs.cells.mapM (fun r => r.mapM cellNum0) with
  | .error e => .error e
  | .ok rows => .ok (cs.index.zip (rows.map fun r => dot r phi))

/-- one cell of `sens_map.replace(mapping).astype(float)`: numbers stay, a string is
    replaced through `dict(mapping_sens, **mapping_cstrn)` (constraints override sensors),
    a string that is no key cannot be converted (`ValueError`). -/
def mapCell (sens : List (Name × Rat)) (cons : List (String × Rat)) : Cell → Except GeoErr (Option Rat)
  | .num q => .ok (some q)
  | .nan => .ok none
  | .str s =>
    match dictGet cons s with
    | some v => .ok (some v)
    | none =>
      match dictGet sens (some s) with
      | some v => .ok (some v)
      | none => .error (.valueError .mapUnknown)

def mapPhi (phi : List Rat) (names : List Name) (smap : Tbl) (cstr : Option Tbl) :
    Except GeoErr (List (List (Option Rat))) :=
  if names.length != phi.length then .error (.valueError .lenMismatch) else
  let cv : Except GeoErr (List (String × Rat)) := match cstr with
    | none => .ok []
    | some cs => cstrVals cs phi
  match cv with
  | .error e => .error e
  | .ok cons => smap.cells.mapM fun (r : List Cell) => r.mapM (mapCell (names.zip phi) cons)

def cellVal : Cell → Option Rat
  | .num q => some q
  | _ => none

/-- `coord + mapped * sign` for one cell (NaN propagates) -/
def displaceCell (c : Cell) (m : Option Rat) (s : Cell) : Option Rat :=
  match cellVal c, m, cellVal s with
  | some x, some v, some g => some (x + v * g)
  | _, _, _ => none

def zipWith3 {α β γ δ} (f : α → β → γ → δ) : List α → List β → List γ → List δ
  | a :: as, b :: bs, c :: cs => f a b c :: zipWith3 f as bs cs
  | _, _, _ => []

/-- `pts_coord.to_numpy() + df_phi_map.to_numpy() * sens_sign.to_numpy()` -/
def displace (coord : List (List Cell)) (mapped : List (List (Option Rat))) (sign : List (List Cell)) :
    List (List (Option Rat)) :=
  zipWith3 (fun rc rm rs => zipWith3 displaceCell rc rm rs) coord mapped sign

/-! ## the displayed mode shape: `Geo1MplPlotter.plot_mode` / `plt_quiver` and
`Geo2MplPlotter.plot_mode` (additions of the depth round)

Domain: coordinate, direction and sign cells are numbers or NaN (a string is treated as NaN:
`astype(float)` / the arithmetic of numpy would raise on it); the mode shape has one real
component per sensor, or a number of components ≥ 2 different from a number of sensors ≥ 2
(numpy broadcasts a length-1 axis instead of raising; not modelled). -/

/-- one row of `sens_coord[["x", "y", "z"]]`: the cells under the columns labelled `x`, `y`, `z` -/
def selRow (cols : List String) (row : List Cell) : List Cell :=
  ["x", "y", "z"].map fun w => ((cols.zip row).lookup w).getD .nan

/-- `sens_coord[["x", "y", "z"]].to_numpy()`: the cells under the columns labelled `x`, `y`,
    `z`, in that order, row by row (`KeyError` when the frame has no such column) -/
def selectXYZ (cols : List String) (cells : List (List Cell)) : Except GeoErr (List (List Cell)) :=
  if !(["x", "y", "z"].all fun w => cols.contains w) then .error .keyError else
  .ok (cells.map (selRow cols))

/-- one arrow of `plt_quiver(ax, nodes, sens_dir * phi.reshape(-1, 1), scaleF, method="2")`:
    `Points_f = nodes_coord + directions * scaleF`, drawn from `nodes_coord[k]` to `Points_f[k]` -/
def arrowTip (base dir : List Cell) (p scaleF : Rat) : List (Option Rat) :=
  List.zipWith (fun b d => match cellVal b, cellVal d with
    | some x, some y => some (x + (y * p) * scaleF)
    | _, _ => none) base dir

/-- `Geo1MplPlotter.plot_mode`: the arrows (start point, end point), one per sensor row.
    `sens_dir * phi.reshape(-1, 1)` raises `ValueError` when the numbers of rows differ. -/
def plotMode1 (coordCols : List String) (coord dir : List (List Cell)) (phi : List Rat) (scaleF : Rat) :
    Except GeoErr (List (List (Option Rat) × List (Option Rat))) :=
  match selectXYZ coordCols coord with
  | .error e => .error e
  | .ok nodes =>
    if dir.length != phi.length then .error (.valueError .lenMismatch) else
    .ok (zipWith3 (fun b d p => (b.map cellVal, arrowTip b d p scaleF)) nodes dir phi)

/-- `phi = self.res.Phi[:, mode_nr - 1].real * scaleF` -/
def scalePhi (phi : List Rat) (scaleF : Rat) : List Rat := phi.map (· * scaleF)

/-- `Geo2MplPlotter.plot_mode`: `newpoints = pts_coord.to_numpy() + dfphi_map_func(phi * scaleF,
    sens_names, sens_map, cstrn).to_numpy() * sens_sign.to_numpy()` -/
def plotMode2 (phi : List Rat) (scaleF : Rat) (names : List Name) (pts smap : Tbl) (cstr : Option Tbl)
    (sign : Tbl) : Except GeoErr (List (List (Option Rat))) :=
  match mapPhi (scalePhi phi scaleF) names smap cstr with
  | .error e => .error e
  | .ok m => .ok (displace pts.cells m sign.cells)

/-- `setup.def_geo1(...)` then `setup.plot_mode_geo1(res, mode_nr, scaleF)`: the arrows drawn -/
def defPlotGeo1 (nm : NamesArg) (coord : Tbl) (dir : ArrArg) (lines bgNodes bgLines bgSurf : Option ArrArg)
    (refInd : Option (List (List Nat))) (phi : List Rat) (scaleF : Rat) :
    Except GeoErr (List (List (Option Rat) × List (Option Rat))) :=
  match defGeo1 nm coord dir lines bgNodes bgLines bgSurf refInd with
  | .error e => .error e
  | .ok g => plotMode1 g.coordCols g.coord g.dir phi scaleF

/-- `setup.def_geo2(...)` then `setup.plot_mode_geo2_mpl(res, mode_nr, scaleF)`: the points drawn
    (`res_ok[1].astype(float)` on the `None` of an empty points table: `AttributeError`) -/
def defPlotGeo2 (nm : NamesArg) (pts map : Tbl) (cstr sign lines surf bgNodes bgLines bgSurf : Option ArrArg)
    (refInd : Option (List (List Nat))) (phi : List Rat) (scaleF : Rat) :
    Except GeoErr (List (List (Option Rat))) :=
  match defGeo2 nm pts map cstr sign lines surf bgNodes bgLines bgSurf refInd with
  | .error e => .error e
  | .ok g =>
    match g.pts, g.map, g.sign with
    | some p, some m, some s => plotMode2 phi scaleF g.names p m g.cstr s
    | _, _, _ => .error .attributeError

end Geo
end PV
