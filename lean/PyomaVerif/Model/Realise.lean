import PyomaVerif.Model.Basic
import PyomaVerif.Model.Cpx
/-!
# Realisation step of SSI: `ssi.SSI_fast`, `ssi.SSI` (legacy), `ssi.ac2mp`, table assembly of
`ssi.SSI_poles` (core Lean only).  LAPACK results (`svd`, `qr`, `pinv`, `inv`, `eig`, `log`,
`abs`) are *arguments*: the model is everything the code does around those calls.
-/
namespace PV
open Mat

variable {K : Type}

/-- `Obs = U[:, :n] · diag(sqrt S)[:n, :n]` -/
def obsOf [Mul K] (U : Mat K) (sq : Nat → K) (n : Nat) : Mat K :=
  ⟨U.r, n, fun i j => U.e i j * sq j⟩

/-- `Obs[: Obs.shape[0] - l, :]` -/
def upPart (Obs : Mat K) (l : Nat) : Mat K := rowSlice Obs 0 (Obs.r - l)
/-- `Obs[l:, :]` -/
def dnPart (Obs : Mat K) (l : Nat) : Mat K := rowSlice Obs l Obs.r
/-- `M[:n, :n]` -/
def leadBlock (M : Mat K) (n : Nat) : Mat K := ⟨n, n, M.e⟩
/-- `M[:, :n]` -/
def leadCols (M : Mat K) (n : Nat) : Mat K := ⟨M.r, n, M.e⟩

/-- `SSI_fast`: `A[n] = inv(R[:n,:n]) · S[:n,:n]` with `S = Qᵀ·O_m`; `Rinv` is the external inverse. -/
def fastA [Zero K] [Add K] [Mul K] (Rinv Q Om : Mat K) (n : Nat) : Mat K :=
  Mat.mul Rinv (leadBlock (Mat.mul (transpose Q) Om) n)

/-- `SSI` (legacy): `A[n] = pinv(Obs_n[:-l]) · Obs_n[l:]`; `Pinv` is the external pseudo-inverse. -/
def legacyA [Zero K] [Add K] [Mul K] (Pinv Obsn : Mat K) (l : Nat) : Mat K :=
  Mat.mul Pinv (dnPart Obsn l)

/-- `C[n] = Obs[:l, :n]` -/
def outC (Obs : Mat K) (l n : Nat) : Mat K := ⟨l, n, Obs.e⟩

/-! ### `ac2mp` after the eigen-decomposition -/

/-- index of the first entry of largest squared magnitude (`np.argmax(abs(v))`) -/
def argmaxNormSq (v : List (Cpx Rat)) : Nat :=
  let rec go (l : List (Cpx Rat)) (i best : Nat) (bv : Rat) : Nat :=
    match l with
    | [] => best
    | x :: xs => if Cpx.normSq x > bv then go xs (i + 1) i (Cpx.normSq x) else go xs (i + 1) best bv
  match v with
  | [] => 0
  | x :: xs => go xs 1 0 (Cpx.normSq x)

/-- unity normalisation: divide by the component of largest magnitude -/
def normalise (v : List (Cpx Rat)) : List (Cpx Rat) :=
  let p := v.getD (argmaxNormSq v) 0
  v.map (· / p)

/-- `xi = -Re(lam_c)/|lam_c|`, `fn = |lam_c|/(2π)` with `|·|` and `2π` supplied -/
def xiOf (lam : Cpx Rat) (absLam : Rat) : Rat := -(lam.re / absLam)
def fnOf (absLam twoPi : Rat) : Rat := absLam / twoPi

/-- mode shapes `C · V`, column by column, normalised -/
def shapesOf (C : Mat (Cpx Rat)) (V : Mat (Cpx Rat)) : List (List (Cpx Rat)) :=
  (List.range V.c).map fun k =>
    normalise ((List.range C.r).map fun i => sumTo C.c (fun t => C.e i t * V.e t k))

/-- table assembly of `SSI_poles` (step 1): column `c` (1 ≤ c ≤ ordmax) holds the `c` values of
    order `c` in rows `:c`; everything else is NaN; shape `ordmax × (ordmax+1)`. -/
def polesTable {α : Type} (ordmax : Nat) (perOrder : Nat → List α) : List (List (Option α)) :=
  (List.range ordmax).map fun r => (List.range (ordmax + 1)).map fun c =>
    if 1 ≤ c then (perOrder c)[r]? else none

end PV
