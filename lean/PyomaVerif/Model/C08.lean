import PyomaVerif.Model.Realise
/-!
# `ssi.ac2mp` including the discrete-to-continuous map (core Lean only)

`Model/Realise.lean` has the pieces of `ac2mp` after the line `lam_c = np.log(lam_d) * (1 / dt)`
(`xiOf`, `fnOf`, `shapesOf`).  Here that line is part of the model: the recorded values are the complex
logarithms `np.log(lam_d)` of the eigenvalues and the moduli `abs(lam_c)`; `dt` enters as `1 / dt`, the way
the code uses it.  This is the only place of the SSI chain where the declared sampling step is used.
-/
namespace PV

/-- `lam_c = np.log(lam_d) * (1 / dt)` (ssi.py:211): a complex number times the real `1 / dt` -/
def lamCOf (logLam : Cpx Rat) (invdt : Rat) : Cpx Rat := ⟨logLam.re * invdt, logLam.im * invdt⟩

/-- `fn, xi, phi, lam_c` of `ssi.ac2mp` -/
structure Ac2mpOut where
  fn : List Rat
  xi : List Rat
  phi : List (List (Cpx Rat))
  lam : List (Cpx Rat)
deriving DecidableEq

/-- `ssi.ac2mp(A, C, dt)` after `linalg.eig`: `logLam` the recorded `np.log(lam_d)`, `V` the recorded right
    eigenvectors, `absLam` the recorded `abs(lam_c)`, `twoPi` the value of `2 * np.pi`. -/
def ac2mpSsi (C V : Mat (Cpx Rat)) (logLam : List (Cpx Rat)) (invdt : Rat) (absLam : List Rat)
    (twoPi : Rat) : Ac2mpOut :=
  let lam_c := logLam.map fun z => lamCOf z invdt
  { fn := absLam.map fun a => fnOf a twoPi,
    xi := (lam_c.zip absLam).map fun (z, a) => xiOf z a,
    phi := shapesOf C V,
    lam := lam_c }

end PV
