import PyomaVerif.Model.Hc
/-!
# The hard-criteria part of a `run()` body, executed on list-of-rows tables (core Lean only)

`Model/HcProg.lean` gives the translated `run()` bodies a semantics over cell FUNCTIONS (`cexec`), which the
theorems are about but which cannot be executed.  Here the same statements are executed on the list-of-rows
tables the driver works with, calling the very functions the harness compares with `gen.HC_damp`, `gen.HC_cov`,
`gen.HC_conj`, `gen.HC_phi_comp`, `gen.applymask` (`HcFn.hcDamp`, `hcCov`, `hcConj`, `hcPhiComp`, `applymask`).
`Lemmas/HcRun.lean` proves that `lrun` simulates `crun`; the driver op `hc_run` (`Ops/C09Run.lean`) runs it on the
unfiltered tables captured from a real `run()` and the harness compares the result with `algorithm.result`.

One cell type for all tables: a real number (`Fn`, `Xi`, covariances), an eigenvalue, or a mode-shape vector
together with the MPD / MPC values the library computed for it (`none` = NaN or exception — `HC_phi_comp` then
puts 0 in the mask).
-/
namespace PV.HcFn
open PV.Hc

inductive LCell
  | real (x : Rat)
  | cplx (z : C)
  | shape (v : List C) (mpd mpc : Option Rat)
deriving Repr, DecidableEq

namespace LCell
def real? : LCell → Option Rat
  | real x => some x
  | _ => none
def cplx? : LCell → Option C
  | cplx z => some z
  | _ => none
def mpd? : LCell → Option Rat
  | shape _ d _ => d
  | _ => none
def mpc? : LCell → Option Rat
  | shape _ _ c => c
  | _ => none
end LCell

/-- the `β`-valued reading of a table (cells of another kind read as NaN) -/
def projT {β : Type} (f : LCell → Option β) (t : T LCell) : T β := t.map (·.map (·.bind f))
/-- a `β`-valued table as a table of cells -/
def embT {β : Type} (mk : β → LCell) (t : T β) : T LCell := t.map (·.map (Option.map mk))

/-- the numeric entries of the `hc` dictionary -/
structure Lims where
  xiMax : Rat
  mpcLim : Rat
  mpdLim : Rat
  covMax : Rat
deriving Repr

def Lims.get (L : Lims) : Thr → Rat
  | .xiMax => L.xiMax
  | .mpcLim => L.mpcLim
  | .mpdLim => L.mpdLim
  | .covMax => L.covMax
  | .other => 0

inductive LVal
  | tbl (t : T LCell)
  | mask (m : List (List Bool))
  | none
  | lst (l : List (Option (T LCell)))
deriving Repr

abbrev LEnv := List (Var × LVal)

def LEnv.get (e : LEnv) (x : Var) : Option LVal := (e.find? (·.1 = x)).map (·.2)
def LEnv.set (e : LEnv) (x : Var) (v : LVal) : LEnv := (x, v) :: e

def lLookList (e : LEnv) : List Var → Option (List (Option (T LCell)))
  | [] => some []
  | x :: xs => match e.get x, lLookList e xs with
    | some (.tbl t), some ts => some (some t :: ts)
    | some .none, some ts => some (Option.none :: ts)
    | _, _ => Option.none

def lSetMany (e : LEnv) : List Var → List LVal → LEnv
  | x :: xs, v :: vs => lSetMany (e.set x v) xs vs
  | _, _ => e

/-- `gen.applymask` on one entry of the list (an array or `None`) -/
def lmaskO (m : List (List Bool)) : Option (T LCell) → LVal
  | some t => .tbl (applymask t m)
  | Option.none => .none

/-- the filtered table and the mask a one-table criterion returns -/
def hc1Of (L : Lims) (c : Crit) (t : T LCell) : T LCell × List (List Bool) :=
  match c with
  | .conj => let r := hcConj (projT LCell.cplx? t); (embT .cplx r.1, r.2)
  | .damp thr => let r := hcDamp (projT LCell.real? t) (L.get thr); (embT .real r.1, r.2)
  | .cov thr => let r := hcCov (projT LCell.real? t) (L.get thr); (embT .real r.1, r.2)
  -- never produced by the translator (MPD / MPC come from `HC_phi_comp`); total for completeness
  | .mpd thr => let m := (hcPhiComp (projT LCell.mpd? t) (projT LCell.mpc? t) 0 (L.get thr)).1; (applymask t m, m)
  | .mpc thr => let m := (hcPhiComp (projT LCell.mpd? t) (projT LCell.mpc? t) (L.get thr) 0).2; (applymask t m, m)

/-- one statement of a translated `run()` body on list-of-rows tables -/
def lexec (L : Lims) (e : LEnv) : Stmt → Option LEnv
  | .hc1 c dT dM src =>
    match e.get src with
    | some (.tbl t) => some ((e.set dT (.tbl (hc1Of L c t).1)).set dM (.mask (hc1Of L c t).2))
    | _ => Option.none
  | .hcPhi d3 d4 src tMpc tMpd =>
    match e.get src with
    | some (.tbl t) =>
      let r := hcPhiComp (projT LCell.mpd? t) (projT LCell.mpc? t) (L.get tMpc) (L.get tMpd)
      some ((e.set d3 (.mask r.1)).set d4 (.mask r.2))
    | _ => Option.none
  | .bind l vs =>
    match lLookList e vs with
    | some ts => some (e.set l (.lst ts))
    | Option.none => Option.none
  | .apply dsts l m =>
    match e.get m, e.get l with
    | some (.mask mk), some (.lst ts) =>
      if dsts.length = ts.length then some (lSetMany e dsts (ts.map (lmaskO mk))) else Option.none
    | _, _ => Option.none
  | .blank x m =>
    match e.get x, e.get m with
    | some (.tbl t), some (.mask mk) => some (e.set x (.tbl (applymask t mk)))
    | _, _ => Option.none

def lrun (L : Lims) : LEnv → List Stmt → Option LEnv
  | e, [] => some e
  | e, s :: ss => match lexec L e s with
    | some e' => lrun L e' ss
    | Option.none => Option.none

/-- the environment right after the pole routine: each name holds its unfiltered table; covariance names are
    `None` when uncertainties are not computed -/
def lInit (covOn : Bool) (init : List (Var × Tbl)) (raw : Tbl → T LCell) : LEnv :=
  init.map fun vt => (vt.1, if isCovTbl vt.2 && !covOn then LVal.none else LVal.tbl (raw vt.2))

/-- **the hard-criteria part of a class's `run()`**: the tracked result fields it stores (`none` = the field is
    `None`); `Option.none` overall = a statement could not be executed -/
def lrunClass (P : ClassProg) (L : Lims) (conjOn covOn : Bool) (raw : Tbl → T LCell) :
    Option (List (String × Option (T LCell))) :=
  match lrun L (lInit covOn P.init raw) (select conjOn covOn P.prog) with
  | Option.none => Option.none
  | some e =>
    some ((P.ret.filter fun fx => (fieldTbl fx.1).isSome).map fun fx =>
      (fx.1, match e.get fx.2 with
        | some (.tbl t) => some t
        | _ => Option.none))

end PV.HcFn
