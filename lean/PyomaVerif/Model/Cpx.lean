/-! Complex numbers over an arbitrary scalar type, for exact execution over `Rat` (core only). -/
namespace PV

structure Cpx (K : Type) where
  re : K
  im : K
deriving Repr, DecidableEq, Inhabited

namespace Cpx
variable {K : Type}

instance [Zero K] : Zero (Cpx K) := ⟨⟨0, 0⟩⟩
instance [Add K] : Add (Cpx K) := ⟨fun a b => ⟨a.re + b.re, a.im + b.im⟩⟩
instance [Sub K] : Sub (Cpx K) := ⟨fun a b => ⟨a.re - b.re, a.im - b.im⟩⟩
instance [Neg K] : Neg (Cpx K) := ⟨fun a => ⟨-a.re, -a.im⟩⟩
instance [Add K] [Sub K] [Mul K] : Mul (Cpx K) :=
  ⟨fun a b => ⟨a.re * b.re - a.im * b.im, a.re * b.im + a.im * b.re⟩⟩
instance [Add K] [Sub K] [Mul K] [Div K] : Div (Cpx K) :=
  ⟨fun a b =>
    let d := b.re * b.re + b.im * b.im
    ⟨(a.re * b.re + a.im * b.im) / d, (a.im * b.re - a.re * b.im) / d⟩⟩

def conj [Neg K] (a : Cpx K) : Cpx K := ⟨a.re, -a.im⟩
/-- `np.real(z)` re-embedded as a complex number -/
def realPart [Zero K] (a : Cpx K) : Cpx K := ⟨a.re, 0⟩
def ofReal [Zero K] (x : K) : Cpx K := ⟨x, 0⟩
def normSq [Add K] [Mul K] (a : Cpx K) : K := a.re * a.re + a.im * a.im

end Cpx
end PV
