import PyomaVerif.Model.Basic
import PyomaVerif.Model.Merge
/-!
# PreGER multi-setup SSI: the reference/roving split (`gen.pre_multisetup`) and the index logic of
`ssi.SSI_multi_setup` (row selection, re-basing, block interleaving).  Core Lean only.
-/
namespace PV.Multi
open PV.Merge

/-- `mov_id = list(range(n)); for r in ref_id: mov_id.remove(r)` — `none` where Python raises
    `ValueError` (an index listed twice or not a channel). -/
def removeAll : List Nat → List Nat → Option (List Nat)
  | mov, [] => some mov
  | mov, r :: rs => if r ∈ mov then removeAll (mov.erase r) rs else none

/-- `gen.pre_multisetup` for one setup with `n` channels: the channel indices of the
    reference block (listed order) and of the roving block. -/
def preSplit (n : Nat) (refId : List Nat) : Option (List Nat × List Nat) :=
  if refId.all (· < n) then (removeAll (List.range n) refId).map (fun mov => (refId, mov)) else none

/-- `ref_id = array([arange(br)*(nref+nmov)+j for j in range(nref)]).flatten(order="f")` -/
def refRows (br nref nmov : Nat) : List Nat :=
  (List.range br).flatMap fun b => (List.range nref).map fun j => b * (nref + nmov) + j

/-- `mov_id = array([arange(br)*(nref+nmov)+j for j in range(nref, r)]).flatten(order="f")` -/
def movRows (br nref nmov : Nat) : List Nat :=
  (List.range br).flatMap fun b => (List.range nmov).map fun j => b * (nref + nmov) + (nref + j)

/-- where a row of the global observability matrix is copied from -/
inductive RowSrc
  | ref (row : Nat)              -- row of `O1_ref`
  | mov (setup : Nat) (row : Nat) -- row of `O_mov_s[setup]`
deriving Repr, DecidableEq

/-- the inner loop over setups of the interleaving (`id1 = id2; id2 = id1 + n_mov[jj]`: blocks are
    written back to back, which is list append) -/
def movBlocks (ii : Nat) : Nat → List Nat → List RowSrc
  | _, [] => []
  | jj, nm :: rest => ((List.range nm).map fun k => RowSrc.mov jj (ii * nm + k)) ++ movBlocks ii (jj + 1) rest

/-- `Obs_all` row sources: for every block row `ii`, the reference rows of block `ii` followed by
    each setup's roving rows of block `ii` in setup order. -/
def allRows (br nref : Nat) (nmov : List Nat) : List RowSrc :=
  (List.range br).flatMap fun ii =>
    ((List.range nref).map fun k => RowSrc.ref (ii * nref + k)) ++ movBlocks ii 0 nmov

/-- `O_movs = O_mov · pinv(O_ref) · O1_ref` (pseudo-inverse external) -/
def rebase {K} [Zero K] [Add K] [Mul K] (Omov Pinv O1ref : Mat K) : Mat K :=
  Mat.mul (Mat.mul Omov Pinv) O1ref

end PV.Multi
