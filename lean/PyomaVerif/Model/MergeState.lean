import PyomaVerif.Model.Cpx
import PyomaVerif.Model.Merge
/-!
# PoSER merging, the parts the stateless model of `Model/Merge.lean` leaves out

* the private attribute `MultiSetup_PoSER.__result` (multi.py:70, :101, :243-252): `None` after
  the constructor, created on the first assignment inside the loop over the algorithm groups of
  `merge_results`, RE-USED by every later call (`self.__result[alg_name] = ...`), returned by
  `merge_results()` and by the `result` property (`ValueError` while it is `None`);
* `gen.MSF` on its documented matrix arguments (gen.py:1171-1191): `phi[:, None]` for 1-D
  arguments, the shape `Exception`, one factor per mode (column);
* reference positions as Python integers: numpy's fancy index and `np.delete` accept `-n .. n-1`
  (negative positions count from the end, anything else is an `IndexError`), whereas the
  `j not in ref_ind[i]` of `gen.flatten_sns_names` compares the non-negative loop index with the
  listed integers as they are written.

Core Lean only.
-/
namespace PV.Merge

variable {C : Type}

/-! ## `__result` -/

/-- `d[key] = v` on an insertion-ordered dictionary: an existing key keeps its place and gets the
    new value, a new key goes to the end -/
def dictSet {β : Type} (d : List (String × β)) (key : String) (v : β) : List (String × β) :=
  match d with
  | [] => [(key, v)]
  | (k, w) :: rest => if k = key then (k, v) :: rest else (k, w) :: dictSet rest key v

/-- the loop `for alg_name, algs in alg_groups.items()` of `merge_results` with the attribute
    `__result` threaded through (`st`): a group that raises (second component `some e`) leaves the
    assignments of the groups before it in place;
    `if self.__result is None: self.__result = {}` is `st.getD []`. -/
def mergeLoopSt {K : Type} [Zero K] [Add K] [Sub K] [Mul K] [Div K] [NatCast K]
    [Zero C] [Add C] [Mul C] [Div C] [Inhabited C] (sqrt : K → K) (re : C → C)
    (refInd : List (List Nat)) :
    Option (List (String × PoserRes K C)) → List (String × List (AlgRes K C)) →
      Option (List (String × PoserRes K C)) × Option String
  | st, [] => (st, none)
  | st, g :: gs =>
    match mergeGroup sqrt re g.2 refInd with
    | .error e => (st, some e)
    | .ok r => mergeLoopSt sqrt re refInd (some (dictSet (st.getD []) g.1 r)) gs

/-- **`MultiSetup_PoSER.merge_results()` as a method of an object**: `prev` is `self.__result`
    before the call; the first component is `self.__result` after the call (also when the call
    raises), the second what the call returns (`return self.__result`: the attribute itself, `None`
    when no group was ever merged) or the name of the exception it raises. -/
def mergeResultsSt {K : Type} [Zero K] [Add K] [Sub K] [Mul K] [Div K] [NatCast K]
    [Zero C] [Add C] [Mul C] [Div C] [Inhabited C] (sqrt : K → K) (re : C → C)
    (names : List String) (setups : List (List (AlgRes K C))) (refInd : List (List Nat))
    (prev : Option (List (String × PoserRes K C))) :
    Option (List (String × PoserRes K C)) × Except String (Option (List (String × PoserRes K C))) :=
  match algGroups names [] setups with
  | .error e => (prev, .error e)
  | .ok groups =>
    match mergeLoopSt sqrt re refInd prev groups with
    | (st, some e) => (st, .error e)
    | (st, none) => (st, .ok st)

/-- the property `MultiSetup_PoSER.result` -/
def resultGetter {β : Type} (st : Option β) : Except String β :=
  match st with
  | none => .error "ValueError"
  | some d => .ok d

/-- one call of `merge_results()` as the harness drives it: what the object holds at that moment
    (`self.names`, the stored results of every algorithm of every setup, `self.ref_ind`) -/
structure PoserCall (K C : Type) where
  names : List String
  setups : List (List (AlgRes K C))
  refInd : List (List Nat)

/-- what is observed after one call: the value returned / the exception, and the `result`
    property read right after it -/
structure PoserObs (K C : Type) where
  ret : Except String (Option (List (String × PoserRes K C)))
  getter : Except String (List (String × PoserRes K C))

/-- a sequence of `merge_results()` calls on ONE object, starting from `self.__result = st` -/
def poserSession {K : Type} [Zero K] [Add K] [Sub K] [Mul K] [Div K] [NatCast K]
    [Zero C] [Add C] [Mul C] [Div C] [Inhabited C] (sqrt : K → K) (re : C → C) :
    Option (List (String × PoserRes K C)) → List (PoserCall K C) → List (PoserObs K C)
  | _, [] => []
  | st, c :: cs =>
    let r := mergeResultsSt sqrt re c.names c.setups c.refInd st
    ⟨r.2, resultGetter r.1⟩ :: poserSession sqrt re r.1 cs

/-! ## `gen.MSF` on vectors and matrices -/

/-- a numpy array of dimension 1 or 2 (the matrix by rows, with its column count `shape[1]`
    carried along so that a matrix without rows still has a shape) -/
inductive NdArr (C : Type) where
  | vec (v : List C)
  | mat (ncols : Nat) (rows : List (List C))
deriving Repr

/-- `phi[:, None]` when `phi.ndim == 1`: shape `(rows, columns)` and the rows -/
def NdArr.as2d : NdArr C → Nat × Nat × List (List C)
  | .vec v => (v.length, 1, v.map ([·]))
  | .mat m rows => (rows.length, m, rows)

/-- **`gen.MSF(phi_1, phi_2)`**: the two `ndim == 1` branches, the shape check (`Exception`), the
    loop over the modes `i` with `dot(phi_2[:, i].T, phi_1[:, i]) / dot(phi_1[:, i].T, phi_1[:, i])`
    (numerator and denominator of the SAME column `i`), `.real` -/
def msfArr [Zero C] [Add C] [Mul C] [Div C] [Inhabited C] (re : C → C) (phi1 phi2 : NdArr C) :
    Except String (List C) :=
  let (n1, m1, p1) := phi1.as2d
  let (n2, m2, p2) := phi2.as2d
  if n1 ≠ n2 ∨ m1 ≠ m2 then .error "Exception"
  else .ok ((List.range m1).map fun i => msf re (column p1 i) (column p2 i))

/-! ## reference positions as Python integers -/

/-- numpy's treatment of an integer position on an axis of length `n`: `0 ≤ i < n` is `i`,
    `-n ≤ i < 0` is `n + i`, anything else is out of bounds (`none`) -/
def normIdx (n : Nat) (i : Int) : Option Nat :=
  if 0 ≤ i then (if i < (n : Int) then some i.toNat else none)
  else if -(n : Int) ≤ i then some (i + (n : Int)).toNat else none

/-- the position numpy reads, with the out-of-bounds positions sent to out-of-bounds natural
    numbers (`i` itself above, `n` below): in bounds ⇔ the image is `< n` -/
def normPos (n : Nat) (i : Int) : Nat :=
  match normIdx n i with
  | some k => k
  | none => if 0 ≤ i then i.toNat else n

/-- every setup's listed positions as numpy reads them on that setup's rows (`ns`: row counts);
    lists beyond the number of setups are never read -/
def normRefs : List Nat → List (List Int) → List (List Nat)
  | _, [] => []
  | [], r :: rs => r.map Int.toNat :: normRefs [] rs
  | n :: ns, r :: rs => r.map (normPos n) :: normRefs ns rs

/-- **`gen.merge_mode_shapes(MSarr_list, reflist)` for reference positions that are Python
    integers**: `phi[reflist[i]]`, `MSarr_list[i][ref_ind, k]` and `np.delete(phi, ref_ind)` all
    read a listed position `p` of a setup with `n` rows as `normIdx n p` and raise `IndexError`
    for a position outside `-n .. n-1`; `len(reflist[0])` counts the list as written. -/
def mergeModeShapesI [Zero C] [Add C] [Mul C] [Div C] [Inhabited C] (re : C → C)
    (phis : List (List (List C))) (refs : List (List Int)) : Except String (List (List C)) :=
  mergeModeShapes re phis (normRefs (phis.map List.length) refs)

/-- the loop `for i in range(n): for j in range(len(sens_names[i])): if j not in ref_ind[i]` of
    `gen.flatten_sns_names`: `ref_ind[i]` is only evaluated for a setup with at least one name
    (`IndexError` when it is missing); the membership test compares the non-negative `j` with the
    listed integers as written -/
def rovingNamesI : List (List String) → List (List Int) → Except String (List String)
  | [], _ => .ok []
  | ns :: rest, refs =>
    let here : Except String (List String) :=
      match ns, refs with
      | [], _ => .ok []
      | _ :: _, [] => .error "IndexError"
      | _ :: _, ref :: _ => .ok ((ns.zipIdx.filter (fun xi => !ref.contains (xi.2 : Int))).map (·.1))
    match here with
    | .error e => .error e
    | .ok h =>
      match rovingNamesI rest (refs.drop 1) with
      | .error e => .error e
      | .ok t => .ok (h ++ t)

/-- **the multi-setup branch of `gen.flatten_sns_names`** for integer reference positions:
    `k = len(ref_ind[0])` (`IndexError` for an empty `ref_ind`), `REF1..REFk`, then the names that
    are `not in ref_ind[i]` -/
def flattenNamesI (names : List (List String)) (refs : List (List Int)) : Except String (List String) :=
  match refs with
  | [] => .error "IndexError"
  | r0 :: _ =>
    match rovingNamesI names refs with
    | .error e => .error e
    | .ok t => .ok (((List.range r0.length).map (fun i => s!"REF{i+1}")) ++ t)

/-! ## what the driver runs -/

def poserSessionQ (sqrt : Rat → Rat) (calls : List (PoserCall Rat (Cpx Rat))) :
    List (PoserObs Rat (Cpx Rat)) :=
  poserSession sqrt Cpx.realPart none calls

def msfArrQ (phi1 phi2 : NdArr (Cpx Rat)) : Except String (List (Cpx Rat)) :=
  msfArr Cpx.realPart phi1 phi2

def mergeModeShapesIQ (phis : List (List (List (Cpx Rat)))) (refs : List (List Int)) :
    Except String (List (List (Cpx Rat))) :=
  mergeModeShapesI Cpx.realPart phis refs

end PV.Merge
