import PyomaVerif.Model.Poles
/-!
# `ssi.SSI_fast` as ONE function after its `np.linalg.svd`, and the LAPACK ARGUMENTS of both realisation
routines (core Lean only)

`Model/Poles.lean` has the list-building loop of `SSI_fast` with the number of channels `l` as an INPUT and the
recorded `qr` / `inv` / `pinv` results as inputs whose ARGUMENTS are never formed.  Here:

* `fastSSI` — `ssi.SSI_fast(H, br, ordmax, step)` (without `calc_unc`) after `np.linalg.svd(H)`:
  `l = int(H.shape[0] / (br + 1))` is DERIVED (`U.r = H.shape[0]`: `U1` is the full left factor);
  `Obs = np.dot(U1[:, :ordmax], S1rad[:ordmax, :ordmax])` with the clipping of both slices (`legacyObs`:
  `ValueError` of `np.dot` for a tall `H` with `ordmax > H.shape[1]`); `O_p = Obs[: Obs.shape[0] - l, :]` is
  the matrix handed to `np.linalg.qr` (`qrArg`); `S = Qᵀ·Obs[l:, :]`; the loop
  `for ii in trange(0, ordmax + 1, step)` with `R[:ii, :ii]` (clipped slices; `LinAlgError` of `np.linalg.inv`
  for a non-square block) handed to `np.linalg.inv` (`invArgs`, one per pass), `A.append(inv·S[:ii, :ii])`,
  `C.append(Obs[:l, :ii])`; `range(0, ordmax + 1, 0)` raises `ValueError`.
  What LAPACK returned comes in as `Q`, `R` (of the one `qr` call) and `Rinv k` (of the `inv` call in pass `k`).
* `legacyPinvArgs` — the matrices `Obs[: Obs.shape[0] - Nch, :]` the legacy `ssi.SSI` hands to
  `np.linalg.pinv`, one per pass of its loop (`Nch`, `Obs` exactly as in `legacySSI`).
-/
namespace PV
namespace Poles
open Mat

section args
variable {K : Type}

/-- `M[:a, :b]` with numpy's clipping of both slices -/
def clipBlock (M : Mat K) (a b : Nat) : Mat K := ⟨min a M.r, min b M.c, M.e⟩

/-- what `fastSSI` returns: `Obs`, the lists `A`, `C`, and the arguments of its LAPACK calls after the `svd` -/
structure FastOut (K : Type) where
  /-- `l = int(H.shape[0] / (br + 1))` -/
  l : Nat
  obs : Mat K
  A : List (Mat K)
  C : List (Mat K)
  /-- the argument of `np.linalg.qr` -/
  qrArg : Mat K
  /-- the arguments of the successive `np.linalg.inv` calls (pass `k` of the loop at position `k`) -/
  invArgs : List (Mat K)

variable [Zero K] [Add K] [Mul K]

/-- the loop `for ii in trange(0, ordmax + 1, step)` of `SSI_fast` over the orders `rest`, `k` the number of the
    pass; returns `(A, C, arguments of inv)` -/
def fastLoop (Rinv : Nat → Mat K) (R S Obs : Mat K) (l : Nat) :
    List Nat → Nat → Except String (List (Mat K) × List (Mat K) × List (Mat K))
  | [], _ => .ok ([], [], [])
  | ii :: rest, k =>
    let Ra := clipBlock R ii ii                             -- R[:ii, :ii]
    if Ra.r ≠ Ra.c then .error "LinAlgError"                -- np.linalg.inv of a non-square array
    else
      match fastLoop Rinv R S Obs l rest (k + 1) with
      | .error e => .error e
      | .ok (As, Cs, Is) =>
        .ok (Mat.mul (Rinv k) (clipBlock S ii ii) :: As, clipBlock Obs l ii :: Cs, Ra :: Is)

/-- **`ssi.SSI_fast(H, br, ordmax, step)`** (no `calc_unc`) after `np.linalg.svd(H)`: `U` all columns of `U1`
    (`U.r = H.shape[0]`), `sq = np.sqrt(SIG)` the roots of ALL singular values; `Q`, `R` what
    `np.linalg.qr(qrArg)` returned, `Rinv k` what `np.linalg.inv` returned in pass `k`. -/
def fastSSI (Rinv : Nat → Mat K) (Q R U : Mat K) (sq : List K) (br ordmax step : Nat) :
    Except String (FastOut K) :=
  let l := U.r / (br + 1)
  match legacyObs U sq ordmax with                          -- the same product as in the legacy loop
  | .error e => .error e
  | .ok Obs =>
    let Op := upPart Obs l
    let S := Mat.mul (transpose Q) (dnPart Obs l)
    if step = 0 then .error "ValueError"                    -- trange(0, ordmax + 1, 0)
    else
      match fastLoop Rinv R S Obs l (scOrders 0 ordmax step) 0 with
      | .error e => .error e
      | .ok (As, Cs, Is) => .ok ⟨l, Obs, As, Cs, Op, Is⟩

/-- the arguments of `np.linalg.pinv` in the loop of the legacy `ssi.SSI` over the orders `rest` -/
def legacyArgLoop (U : Mat K) (sq : List K) (l : Nat) : List Nat → Except String (List (Mat K))
  | [] => .ok []
  | ii :: rest =>
    match legacyObs U sq ii with
    | .error e => .error e
    | .ok Obs =>
      match legacyArgLoop U sq l rest with
      | .error e => .error e
      | .ok Ps => .ok (upPart Obs l :: Ps)

/-- **the arguments of the successive `np.linalg.pinv` calls of `ssi.SSI(H, br, ordmax, step)`**:
    `Obs[: Obs.shape[0] - Nch, :]` of every pass, `Nch = int(H.shape[0] / (br + 1))`. -/
def legacyPinvArgs (U : Mat K) (sq : List K) (br ordmax step : Nat) : Except String (List (Mat K)) :=
  if step = 0 then .error "ValueError"
  else legacyArgLoop U sq (U.r / (br + 1)) (scOrders 0 ordmax step)

end args

end Poles
end PV
