import PyomaVerif.Model.Basic
/-!
# `ssi.build_hank` — covariance (moment-matrix), correlation (Toeplitz) and data-driven
layouts, mirroring the slices of `src/pyoma2/functions/ssi.py`.
-/
namespace PV
open Mat

variable {K : Type}

/-- `Yf = vstack([s * Y[:, q+1+i : N+q+i] for i in range(p+1)])`, `q = p+1`, `N = Ndat-p-q`. -/
def hankYf [Mul K] (Y : Mat K) (p : Nat) (s : K) : Mat K :=
  let q := p + 1
  let N := Y.c - p - q
  vstackN (p + 1) Y.r (N - 1) (fun i => scale s (colSlice Y (q + 1 + i) (N + q + i)))

/-- `Yp = vstack([s * Yref[:, q+i : N+q-1+i] for i in range(0, -q, -1)])`
    (block `j` uses `i = -j`). `Ndat` is the data length of `Y`, as in the code. -/
def hankYp [Mul K] (Ndat : Nat) (Yref : Mat K) (p : Nat) (s : K) : Mat K :=
  let q := p + 1
  let N := Ndat - p - q
  vstackN q Yref.r (N - 1) (fun j => scale s (colSlice Yref (q - j) (N + q - 1 - j)))

/-- `build_hank(Y, Yref, br=p, method="cov_mm")[0]`, the factor `1/N**0.5` passed as `s`. -/
def hankMM [Zero K] [Add K] [Mul K] (Y Yref : Mat K) (p : Nat) (s : K) : Mat K :=
  mulT (hankYf Y p s) (hankYp Y.c Yref p s)

/-- `Ri[k] = 1/(Ndat-k) * Y[:, :Ndat-k] · Yref[:, k:]ᵀ`; `w k` is the weight `1/(Ndat-k)`. -/
def corrR [Zero K] [Add K] [Mul K] (Y Yref : Mat K) (w : Nat → K) (k : Nat) : Mat K :=
  scale (w k) (mulT (colSlice Y 0 (Y.c - k)) (colSlice Yref k Yref.c))

/-- `build_hank(..., method="cov_R")[0]`:
    `vstack([hstack([Ri[k] for k in range(p+l_, l_-1, -1)]) for l_ in range(q)])`. -/
def hankR [Zero K] [Add K] [Mul K] (Y Yref : Mat K) (p : Nat) (w : Nat → K) : Mat K :=
  let q := p + 1
  vstackN q Y.r ((p + 1) * Yref.r)
    (fun l_ => hstackN (p + 1) Y.r Yref.r (fun cblk => corrR Y Yref w (p + l_ - cblk)))

/-- `Ys = vstack((Yp, Yf))` of the data-driven method; the code takes
    `R = qr(Ys.T, mode="r")`, `Hank = R.T[r(p+1):, :r(p+1)]`. -/
def hankYs [Mul K] (Y Yref : Mat K) (p : Nat) (s : K) : Mat K :=
  let Yp := hankYp Y.c Yref p s
  let Yf := hankYf Y p s
  ⟨Yp.r + Yf.r, Yp.c, fun i j => if i < Yp.r then Yp.e i j else Yf.e (i - Yp.r) j⟩

/-- the block the code cuts out of `Rᵀ` (`R` is passed in: external QR). -/
def hankDatOfR (R : Mat K) (nref p : Nat) : Mat K :=
  let Rt := transpose R
  ⟨Rt.r - nref * (p + 1), nref * (p + 1), fun i j => Rt.e (nref * (p + 1) + i) j⟩

/-- `Hank = R21[n_ref*(p+1):, :n_ref*(p+1)]`, `R21 = R.T`, **with numpy's slice clipping**: `R` (the
    `mode="r"` factor of `Ys.T`, passed in) has `k = min(N-1, (r+l)(p+1))` rows, so `R.T` has `k`
    columns and the column slice `:a` keeps `min(a, k)` of them (records with fewer than `a = r(p+1)`
    columns in the data matrix return a NARROWER matrix); the row slice `a:` keeps `R.c - a` rows.
    Same entries as `hankDatOfR`, which hard-wires `a` columns (equal whenever `a ≤ R.r`). -/
def hankDat (R : Mat K) (nref p : Nat) : Mat K :=
  let Rt := transpose R
  ⟨Rt.r - nref * (p + 1), min (nref * (p + 1)) Rt.c, fun i j => Rt.e (nref * (p + 1) + i) j⟩

end PV
