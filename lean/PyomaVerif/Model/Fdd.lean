import PyomaVerif.Model.Basic
/-!
# `fdd.SD_svalsvec` (placement) and `fdd.FDD_mpe` — core Lean only

Mirrors `src/pyoma2/functions/fdd.py:201-313` statement by statement.  Arrays are an
index function plus a length (entries outside the length are never read).  Complex
numbers are pairs over the scalar type, so that the same definitions run over `Rat` in
the driver and are the subject of the theorems over an ordered field.

Conventions that are *not* numpy's and are kept out of the compared domain by the
harness: division by an exact zero (numpy: `inf`/`nan`; `Rat`: 0) — the normalisation
returns `none` for it, the singular-value ratio is only compared for non-zero second
singular values; `np.abs` of a complex number is replaced by its square (`normSq`), which
has the same `argmax` (monotone; near-ties are excluded by the harness).
-/
namespace PV.Fdd

/-- complex number over `K` (numpy `complex128` when `K` is the set of doubles) -/
structure Cx (K : Type) where
  re : K
  im : K

namespace Cx
variable {K : Type}

def conj [Neg K] (z : Cx K) : Cx K := ⟨z.re, -z.im⟩
def normSq [Add K] [Mul K] (z : Cx K) : K := z.re * z.re + z.im * z.im
def ofReal [Zero K] (x : K) : Cx K := ⟨x, 0⟩
instance [Zero K] : Zero (Cx K) := ⟨⟨0, 0⟩⟩
instance [Zero K] [One K] : One (Cx K) := ⟨⟨1, 0⟩⟩
instance [Add K] : Add (Cx K) := ⟨fun a b => ⟨a.re + b.re, a.im + b.im⟩⟩
instance [Add K] [Sub K] [Mul K] : Mul (Cx K) :=
  ⟨fun a b => ⟨a.re * b.re - a.im * b.im, a.re * b.im + a.im * b.re⟩⟩
/-- `a / b = a·conj(b) / |b|²` -/
instance [Add K] [Sub K] [Mul K] [Div K] : Div (Cx K) :=
  ⟨fun a b => ⟨(a.re * b.re + a.im * b.im) / normSq b, (a.im * b.re - a.re * b.im) / normSq b⟩⟩
/-- real scalar times complex -/
def smul [Mul K] (c : K) (z : Cx K) : Cx K := ⟨c * z.re, c * z.im⟩

end Cx

section order
variable {K : Type} [LT K] [DecidableLT K]

/-- `np.argmin` of `f 0 … f (n-1)`: the first index attaining the minimum (`n ≥ 1`). -/
def argminTo : Nat → (Nat → K) → Nat
  | 0, _ => 0
  | n + 1, f => if f n < f (argminTo n f) then n else argminTo n f

/-- `np.argmax`: the first index attaining the maximum. -/
def argmaxTo : Nat → (Nat → K) → Nat
  | 0, _ => 0
  | n + 1, f => if f (argmaxTo n f) < f n then n else argmaxTo n f

/-- `np.max` / `np.min` of a non-empty array -/
def maxTo (n : Nat) (f : Nat → K) : K := f (argmaxTo n f)
def minTo (n : Nat) (f : Nat → K) : K := f (argminTo n f)

/-- `np.abs` on reals -/
def absK [Zero K] [Neg K] (x : K) : K := if x < 0 then -x else x

end order

section svalsvec
variable {K : Type}

/-- `S_val[i, j, k] = np.diag(np.sqrt(S_k))[i, j]`; `sq k i` is `np.sqrt(S_k)[i]`
    (`S_k` the singular values LAPACK returned for line `k`). -/
def svalPlace [Zero K] (sq : Nat → Nat → K) : Nat → Nat → Nat → K :=
  fun i j k => if i = j then sq k i else 0

/-- `S_vec[i, j, k] = U_k.conj().T[i, j] = conj(U_k[j, i])`. -/
def svecPlace [Neg K] (U : Nat → Nat → Nat → Cx K) : Nat → Nat → Nat → Cx K :=
  fun i j k => (U k j i).conj

end svalsvec

section mpe
variable {K : Type} [Zero K] [Add K] [Sub K] [Mul K] [Div K] [Neg K] [LT K] [DecidableLT K]

/-- `idxlim[0] = np.argmin(np.abs(freq - (sel_fn - DF)))` -/
def bandLo (nf : Nat) (freq : Nat → K) (sel DF : K) : Nat :=
  argminTo nf (fun i => absK (freq i - (sel - DF)))
/-- `idxlim[1] = np.argmin(np.abs(freq - (sel_fn + DF)))` -/
def bandHi (nf : Nat) (freq : Nat → K) (sel DF : K) : Nat :=
  argminTo nf (fun i => absK (freq i - (sel + DF)))

/-- `diffS1S2 = Sval[0,0,lo:hi] / Sval[1,1,lo:hi]` (entry `i` of the slice) -/
def ratioAt (s1 s2 : Nat → K) (lo i : Nat) : K := s1 (lo + i) / s2 (lo + i)

/-- `idx1 = np.argmin(np.abs(diffS1S2 - np.max(diffS1S2)))` on a slice of length `m` -/
def pickIdx (s1 s2 : Nat → K) (lo m : Nat) : Nat :=
  argminTo m (fun i => absK (ratioAt s1 s2 lo i - maxTo m (ratioAt s1 s2 lo)))

structure Pick (K : Type) where
  lo : Nat
  hi : Nat
  idx : Nat
  mx : K

/-- the line selection of one pass through the loop body of `FDD_mpe`
    (`s1 = Sval[0,0,:]`, `s2 = Sval[1,1,:]`, both of length `nf = len(freq)`). -/
def fddPick (nch nref nf : Nat) (freq s1 s2 : Nat → K) (sel DF : K) : Except String (Pick K) :=
  if nf = 0 then .error "ValueError: attempt to get argmin of an empty sequence"
  else if nch < 2 ∨ nref < 2 then .error "IndexError: index 1 is out of bounds"
  else if bandHi nf freq sel DF - bandLo nf freq sel DF = 0 then
    .error "ValueError: zero-size array to reduction operation maximum which has no identity"
  else
    .ok ⟨bandLo nf freq sel DF, bandHi nf freq sel DF,
      bandLo nf freq sel DF +
        pickIdx s1 s2 (bandLo nf freq sel DF) (bandHi nf freq sel DF - bandLo nf freq sel DF),
      maxTo (bandHi nf freq sel DF - bandLo nf freq sel DF) (ratioAt s1 s2 (bandLo nf freq sel DF))⟩

/-- `phi / phi[np.argmax(np.abs(phi))]`; `none` when that component is exactly zero
    (numpy then yields NaNs). -/
def normalise [DecidableEq K] (n : Nat) (phi : Nat → Cx K) : Option (Nat → Cx K) :=
  let k := argmaxTo n (fun i => (phi i).normSq)
  if (phi k).normSq = 0 then none else some (fun i => phi i / phi k)

structure ModeOut (K : Type) where
  pick : Pick K
  fn : K
  phi : Option (List (Cx K))

/-- one pass of the loop of `FDD_mpe` -/
def fddOne [DecidableEq K] (nch nref nf : Nat) (freq : Nat → K) (Sval : Nat → Nat → Nat → K)
    (Svec : Nat → Nat → Nat → Cx K) (DF sel : K) : Except String (ModeOut K) :=
  match fddPick nch nref nf freq (Sval 0 0) (Sval 1 1) sel DF with
  | .error e => .error e
  | .ok p =>
    .ok ⟨p, freq p.idx,
      (normalise nch (fun i => Svec 0 i p.idx)).map (fun v => (List.range nch).map v)⟩

/-- `FDD_mpe`: the loop over `sel_freq` (the first exception aborts). -/
def fddMpe [DecidableEq K] (nch nref nf : Nat) (freq : Nat → K) (Sval : Nat → Nat → Nat → K)
    (Svec : Nat → Nat → Nat → Cx K) (sel : List K) (DF : K) : Except String (List (ModeOut K)) :=
  sel.mapM (fddOne nch nref nf freq Sval Svec DF)

end mpe
end PV.Fdd
