import PyomaVerif.Model.Spectral
/-!
# `fdd.SD_est` as ONE dispatching function — executable model, core Lean only

`Model/Spectral.lean` has the two estimators (`sdEstPer`, `sdEstCor`) with the overlap `noverlap : Nat` and the
exponential lag window `ew : Nat → K` as free parameters.  Here is the function the library exports, statement by
statement (fdd.py, `def SD_est(Yall, Yref, dt, nxseg=1024, method="cor", pov=0.5)`):

```
if method == "cor":   Ndat, n_ref, n_all; csd(Yall.reshape(n_all,1,Ndat), Yref.reshape(1,n_ref,Ndat),
                          nperseg=nxseg//2, nfft=nxseg, noverlap=0, window="boxcar"); irfft;
                      tau = -Rxy.shape[2]/np.log(0.01); win = exponential(Rxy.shape[2], center=0, tau=tau, sym=False)
elif method == "per": noverlap = nxseg*pov; ...; csd(..., fs=1/dt, nperseg=nxseg, noverlap=noverlap, window="hann")
return freq, Sy       # neither branch taken: UnboundLocalError
```

together with the argument checks of `scipy.signal.csd` that the two calls can reach (`nperseg < 1`,
`noverlap = int(noverlap) >= nperseg` → ValueError; `nperseg > n` → warning and a shorter segment: outside the model).
What stays a parameter (`SdEnv`): Python's `int()` on the scalar type, `exp`, `log`, and the two twiddle tables.
-/
namespace PV

/-- how a call of `SD_est` ends when it does not return -/
inductive SdErr where
  /-- `return freq, Sy` with neither `if method == …` branch taken -/
  | unboundLocal
  /-- raised by `reshape` or by `scipy.signal.csd` -/
  | valueError (why : String)
  /-- the real call returns (or warns) but the model does not describe the result -/
  | unmodelled (why : String)
deriving DecidableEq, Repr

/-- what the model of `SD_est` takes from the platform -/
structure SdEnv (K : Type) where
  /-- Python `int(x)`: truncation towards zero -/
  trunc : K → Int
  /-- `np.exp` -/
  expf : K → K
  /-- `np.log` -/
  logf : K → K
  /-- `tw m = exp(−2πi·m/nxseg)` -/
  tw : Nat → CxS K
  /-- `tw2 m = exp(−2πi·m/(2·(nxseg//2)))` -/
  tw2 : Nat → CxS K

section
variable {K : Type} [Zero K] [One K] [Add K] [Sub K] [Mul K] [Div K] [Neg K] [NatCast K]

/-- `noverlap = nxseg * pov` (fdd.py) followed by `noverlap = int(noverlap)` (scipy `csd`): the product is formed in
    the scalar type, then truncated. -/
def perNoverlap (trunc : K → Int) (nxseg : Nat) (pov : K) : Int := trunc ((nxseg : K) * pov)

/-- `signal.windows.exponential(M, center=0, tau=-M/np.log(0.01), sym=False)[t] = exp(−|t − 0|/tau)`. -/
def expWin (expf logf : K → K) (M : Nat) (t : Nat) : K :=
  let tau : K := -(M : K) / logf (1 / ((100 : Nat) : K))
  expf (-(t : K) / tau)

/-- `SD_est(Yall, Yref, dt, nxseg, method, pov)`. -/
def sdEstM (env : SdEnv K) (method : String) (Yall Yref : Mat K) (dt : K) (nxseg : Nat) (pov : K) :
    Except SdErr (Spec K) :=
  if method = "cor" then
    let Ndat := Yref.c
    -- `Yall.reshape(n_all, 1, Ndat)`: the sizes must agree
    if Yall.r * Yall.c ≠ Yall.r * Ndat then .error (.valueError "cannot reshape array") else
    if Yall.r = 0 ∨ Yref.r = 0 ∨ Ndat = 0 then .error (.unmodelled "empty array") else
    -- csd: `nperseg = nxseg // 2` must be positive; `nfft = nxseg ≥ nperseg`, `noverlap = 0 < nperseg`
    let nperseg := nxseg / 2
    if nperseg < 1 then .error (.valueError "nperseg is not a positive integer") else
    if Ndat < nperseg then .error (.unmodelled "nperseg greater than the signal length: warning, shorter segment") else
    let n2 := 2 * (nxseg / 2 + 1 - 1)      -- `Rxy.shape[2]`
    .ok (sdEstCor Yall Yref dt nxseg env.tw env.tw2 (expWin env.expf env.logf n2))
  else if method = "per" then
    let noverlap := perNoverlap env.trunc nxseg pov
    let Ndat := Yref.c
    if Yall.r * Yall.c ≠ Yall.r * Ndat then .error (.valueError "cannot reshape array") else
    if Yall.r = 0 ∨ Yref.r = 0 ∨ Ndat = 0 then .error (.unmodelled "empty array") else
    if nxseg < 1 then .error (.valueError "nperseg is not a positive integer") else
    -- `get_window("hann", 1) = [1.0]` is a special case of scipy, not `1/2 − 1/2·cos 0`
    if nxseg < 2 then .error (.unmodelled "Hann window of length 1") else
    if Ndat < nxseg then .error (.unmodelled "nperseg greater than the signal length: warning, shorter segment") else
    if noverlap ≥ (nxseg : Int) then .error (.valueError "noverlap must be less than nperseg") else
    if noverlap < 0 then .error (.unmodelled "negative noverlap") else
    .ok (sdEstPer Yall Yref dt nxseg noverlap.toNat env.tw)
  else .error .unboundLocal

end

end PV
