import PyomaVerif.Model.Basic
/-!
# Model of `fdd.SD_PreGER` (PreGER merging of per-setup spectral matrices)

Core Lean only.  The spectral estimator `fdd.SD_est` is a *parameter* `sd` (its own model
belongs to C13), and so is `np.linalg.inv`.  Everything is polymorphic:

* `D` — sample type of the records, `T` — type of `fs`, `dt`, `pov`,
* `F` — type of the frequency values, `K` — type of the spectral values (a field in the
  theorems, `CxG Rat` in the driver).

The model mirrors the code *after* the repair of F2 (the user's `pov` is handed on to
`SD_est`); the pre-repair variant is in `Mutants/C04.lean`.
-/
namespace PV

/-! ## complex numbers as pairs (used by the driver: `CxG Rat`) -/
structure CxG (R : Type) where
  re : R
  im : R
deriving DecidableEq, Repr, Inhabited

namespace CxG
variable {R : Type}
instance [Zero R] : Zero (CxG R) := ⟨⟨0, 0⟩⟩
instance [Zero R] [One R] : One (CxG R) := ⟨⟨1, 0⟩⟩
instance [Add R] : Add (CxG R) := ⟨fun a b => ⟨a.re + b.re, a.im + b.im⟩⟩
instance [Sub R] : Sub (CxG R) := ⟨fun a b => ⟨a.re - b.re, a.im - b.im⟩⟩
instance [Add R] [Sub R] [Mul R] : Mul (CxG R) :=
  ⟨fun a b => ⟨a.re * b.re - a.im * b.im, a.re * b.im + a.im * b.re⟩⟩
instance [Add R] [Sub R] [Mul R] [Div R] : Div (CxG R) :=
  ⟨fun a b =>
    let d := b.re * b.re + b.im * b.im
    ⟨(a.re * b.re + a.im * b.im) / d, (a.im * b.re - a.re * b.im) / d⟩⟩
instance [Zero R] [NatCast R] : NatCast (CxG R) := ⟨fun n => ⟨(n : R), 0⟩⟩
end CxG

/-! ## matrices and three-axis arrays -/
namespace Mat
variable {K : Type}

/-- `np.vstack((a, b))` (column count of the first block). -/
def vstack2 (a b : Mat K) : Mat K :=
  ⟨a.r + b.r, a.c, fun i j => if i < a.r then a.e i j else b.e (i - a.r) j⟩

/-- `np.vstack([blk 0, …, blk (n-1)])`, blocks of any heights. -/
def vstackFn : Nat → (Nat → Mat K) → Mat K
  | 0, blk => ⟨0, (blk 0).c, (blk 0).e⟩
  | n + 1, blk => vstack2 (vstackFn n blk) (blk n)

/-- the labels of the rows (first sample of every row) — used by the driver only -/
def rowHeads (m : Mat K) : List K := (List.range m.r).map fun i => m.e i 0

end Mat

/-- numpy array of shape `(n0, n1, n2)`. -/
structure TenG (K : Type) where
  n0 : Nat
  n1 : Nat
  n2 : Nat
  e : Nat → Nat → Nat → K

namespace TenG
variable {K : Type}
/-- `np.hstack((A, B))` of three-axis arrays: concatenation along axis 1. -/
def hstack (A B : TenG K) : TenG K :=
  ⟨A.n0, A.n1 + B.n1, A.n2, fun i j f => if j < A.n1 then A.e i j f else B.e i (j - A.n1) f⟩
/-- `G[:a, :b]` (numpy clips the stops to the axis lengths). -/
def head01 (G : TenG K) (a b : Nat) : TenG K := ⟨min a G.n0, min b G.n1, G.n2, G.e⟩
/-- `G[a:, :b]`. -/
def tail0head1 (G : TenG K) (a b : Nat) : TenG K :=
  ⟨G.n0 - a, min b G.n1, G.n2, fun i j f => G.e (a + i) j f⟩
/-- `G[:, :, ff]`. -/
def line (G : TenG K) (ff : Nat) : Mat K := ⟨G.n0, G.n1, fun i j => G.e i j ff⟩
/-- `np.array([g 0, …, g (nf-1)])` of `r × c` matrices: shape `(nf, r, c)`. -/
def ofMats (nf r c : Nat) (g : Nat → Mat K) : TenG K := ⟨nf, r, c, fun f i j => (g f).e i j⟩
/-- `np.moveaxis(S, 0, 2)`. -/
def moveaxis02 (S : TenG K) : TenG K := ⟨S.n1, S.n2, S.n0, fun i j f => S.e f i j⟩
def sameShape (A B : TenG K) : Bool := A.n0 == B.n0 && A.n1 == B.n1 && A.n2 == B.n2
end TenG

/-! ## the estimator interface -/
inductive SdMethod where
  | per
  | cor
  | other
deriving DecidableEq, Repr, Inhabited

/-- the arguments `dt, nxseg, method, pov` of one `SD_est` call -/
structure SdArgs (T : Type) where
  dt : T
  nxseg : Nat
  method : SdMethod
  pov : T
deriving DecidableEq, Repr

/-- `freq, Sy` as returned by `SD_est` -/
structure SdOut (F K : Type) where
  freq : List F
  S : TenG K

/-- `SD_est(Yall, Yref, dt, nxseg, method, pov)` -/
abbrev Estimator (T D F K : Type) := SdArgs T → Mat D → Mat D → SdOut F K

/-- one setup: `{"ref": …, "mov": …}`, each channels × samples -/
structure Setup (D : Type) where
  ref : Mat D
  mov : Mat D

section model
variable {T D F K : Type}

/-- The argument tuple of the first (`second = false`: all × ref) or second (all × mov)
    `SD_est` call for setup `ii`:
    `SD_est(Y_all, Y_ref|Y_mov, dt, nxseg, method, pov=pov)` with `dt = 1 / fs`,
    `Y_all = np.vstack((Y[ii]["ref"], Y[ii]["mov"]))`. -/
def callArgs [One T] [Div T] (fs : T) (nxseg : Nat) (pov : T) (method : SdMethod)
    (Y : Nat → Setup D) (ii : Nat) (second : Bool) : SdArgs T × Mat D × Mat D :=
  let dt := 1 / fs
  let Y_ref := (Y ii).ref
  let Y_mov := (Y ii).mov
  let Y_all := Mat.vstack2 (Y ii).ref (Y ii).mov
  (⟨dt, nxseg, method, pov⟩, Y_all, if second then Y_mov else Y_ref)

def Estimator.app (sd : Estimator T D F K) (a : SdArgs T × Mat D × Mat D) : SdOut F K :=
  sd a.1 a.2.1 a.2.2

/-- every `SD_est` call `SD_PreGER` makes, in order -/
def sdPreGERcalls [One T] [Div T] (fs : T) (nxseg : Nat) (pov : T) (method : SdMethod)
    (n : Nat) (Y : Nat → Setup D) : List (SdArgs T × Mat D × Mat D) :=
  match method with
  | .other => []
  | _ => (List.range n).flatMap fun ii =>
      [callArgs fs nxseg pov method Y ii false, callArgs fs nxseg pov method Y ii true]

/-- `Gyy[ii] = np.hstack((Sy_allref, Sy_allmov))`; both branches of the `if method ==`
    chain are the same two calls. -/
def gyy [One T] [Div T] (sd : Estimator T D F K) (fs : T) (nxseg : Nat) (pov : T)
    (method : SdMethod) (Y : Nat → Setup D) (ii : Nat) : TenG K :=
  match method with
  | .per =>
    let Sy_allref := (sd.app (callArgs fs nxseg pov method Y ii false)).S
    let Sy_allmov := (sd.app (callArgs fs nxseg pov method Y ii true)).S
    TenG.hstack Sy_allref Sy_allmov
  | .cor =>
    let Sy_allref := (sd.app (callArgs fs nxseg pov method Y ii false)).S
    let Sy_allmov := (sd.app (callArgs fs nxseg pov method Y ii true)).S
    TenG.hstack Sy_allref Sy_allmov
  | .other => ⟨0, 0, 0, (sd.app (callArgs fs nxseg pov method Y ii false)).S.e⟩

/-- `Gy_refref = 1 / n_setup * np.sum([Gyy[ii][:n_ref, :n_ref] for ii in range(n_setup)], axis=0)` -/
def meanRefRef [Zero K] [One K] [Add K] [Mul K] [Div K] [NatCast K]
    (n n_ref : Nat) (Gyy : Nat → TenG K) : TenG K :=
  let B := fun ii => (Gyy ii).head01 n_ref n_ref
  ⟨(B 0).n0, (B 0).n1, (B 0).n2, fun i j f => (1 / (n : K)) * sumTo n (fun ii => (B ii).e i j f)⟩

/-- `Gyy[ii][:n_ref, :n_ref][:, :, ff]` -/
def refBlock (n_ref : Nat) (Gyy : Nat → TenG K) (ii ff : Nat) : Mat K :=
  ((Gyy ii).head01 n_ref n_ref).line ff

/-- `Gyy[ii][n_ref:, :n_ref][:, :, ff]` -/
def movBlock (n_ref : Nat) (Gyy : Nat → TenG K) (ii ff : Nat) : Mat K :=
  ((Gyy ii).tail0head1 n_ref n_ref).line ff

/-- `G1[ii]` of the loop body for the frequency line `ff`:
    `dot(dot(Gyy[ii][n_ref:, :n_ref][:, :, ff], inv(Gyy[ii][:n_ref, :n_ref][:, :, ff])), Gy_refref[:, :, ff])` -/
def rovingLine [Zero K] [Add K] [Mul K] (inv : Mat K → Mat K) (n_ref : Nat)
    (Gyy : Nat → TenG K) (Gy_refref : TenG K) (ff ii : Nat) : Mat K :=
  Mat.mul
    (Mat.mul (movBlock n_ref Gyy ii ff) (inv (refBlock n_ref Gyy ii ff)))
    (Gy_refref.line ff)

/-- `G3` of the loop body: `vstack([Gy_refref[:, :, ff], vstack(G1)])` -/
def mergedLine [Zero K] [Add K] [Mul K] (inv : Mat K → Mat K) (n n_ref : Nat)
    (Gyy : Nat → TenG K) (Gy_refref : TenG K) (ff : Nat) : Mat K :=
  let G1 := fun ii => rovingLine inv n_ref Gyy Gy_refref ff ii
  let G2 := Mat.vstackFn n G1
  Mat.vstack2 (Gy_refref.line ff) G2

/-- `fdd.SD_PreGER(Y, fs, nxseg, pov, method)` on inputs on which numpy raises no exception
    (see `sdPreGERchecked`). -/
def sdPreGER [One T] [Div T] [Zero K] [One K] [Add K] [Mul K] [Div K] [NatCast K]
    (sd : Estimator T D F K) (inv : Mat K → Mat K)
    (fs : T) (nxseg : Nat) (pov : T) (method : SdMethod)
    (n : Nat) (Y : Nat → Setup D) : SdOut F K :=
  let n_setup := n
  let n_ref := (Y 0).ref.r
  let Gyy := fun ii => gyy sd fs nxseg pov method Y ii
  -- `freq` is re-bound in every pass of the loop; the last one survives
  let freq := (sd.app (callArgs fs nxseg pov method Y (n_setup - 1) false)).freq
  let Gy_refref := meanRefRef n_setup n_ref Gyy
  let Gg := fun ff => mergedLine inv n_setup n_ref Gyy Gy_refref ff
  let Sy := TenG.ofMats freq.length (Gg 0).r (Gg 0).c Gg
  ⟨freq, Sy.moveaxis02⟩

/-- The exception behaviour of `SD_PreGER`: an empty setup list (`Y[0]`), an unknown
    method (`Gyy` stays empty: `IndexError` at `Gyy[ii]`, before the unbound `freq` is reached), `vstack`/`hstack`/`np.sum`/`dot` shape errors, a non-square or
    singular reference block (`invOpt = none`), an empty frequency vector or one longer
    than the spectra; otherwise the value of `sdPreGER`. -/
def sdPreGERchecked [One T] [Div T] [Zero K] [One K] [Add K] [Mul K] [Div K] [NatCast K]
    (sd : Estimator T D F K) (invOpt : Mat K → Option (Mat K))
    (fs : T) (nxseg : Nat) (pov : T) (method : SdMethod)
    (n : Nat) (Y : Nat → Setup D) : Except String (SdOut F K) :=
  if n = 0 then .error "IndexError: list index out of range" else
  -- unknown method: no branch appends to `Gyy`; `Gyy[ii]` in the `Gy_refref` comprehension (fdd.py:95) fails first
  if method = .other then .error "IndexError: list index out of range (Gyy is empty)" else
  let n_ref := (Y 0).ref.r
  let Gyy := fun ii => gyy sd fs nxseg pov method Y ii
  let inv := fun G => (invOpt G).getD G
  let out := sdPreGER sd inv fs nxseg pov method n Y
  let nf := out.freq.length
  let B0 := (Gyy 0).head01 n_ref n_ref
  let setupsOk := (List.range n).all fun ii =>
    let a := (sd.app (callArgs fs nxseg pov method Y ii false)).S
    let b := (sd.app (callArgs fs nxseg pov method Y ii true)).S
    (Y ii).ref.c == (Y ii).mov.c && a.n0 == b.n0 && a.n2 == b.n2
      && ((Gyy ii).head01 n_ref n_ref).sameShape B0
  if !setupsOk then .error "ValueError: shapes" else
  if nf = 0 then .error "AxisError: no frequency line" else
  if nf > B0.n2 then .error "IndexError: frequency axis" else
  let linesOk := (List.range nf).all fun ff => (List.range n).all fun ii =>
    let Grr := refBlock n_ref Gyy ii ff
    Grr.r == Grr.c && (invOpt Grr).isSome
  if !linesOk then .error "LinAlgError: reference block not invertible" else
  .ok out

/-- the head of `FDD_MS.run`, `EFDD_MS.run`, `pLSCF_MS.run`:
    `fdd.SD_PreGER(Y, self.fs, nxseg=run_params.nxseg, method=run_params.method_SD, pov=run_params.pov)` -/
structure MSRunParams (T : Type) where
  nxseg : Nat
  method_SD : SdMethod
  pov : T

def msRunSpectrum [One T] [Div T] [Zero K] [One K] [Add K] [Mul K] [Div K] [NatCast K]
    (sd : Estimator T D F K) (invOpt : Mat K → Option (Mat K))
    (fs : T) (rp : MSRunParams T) (n : Nat) (Y : Nat → Setup D) : Except String (SdOut F K) :=
  let nxseg := rp.nxseg
  let method := rp.method_SD
  let pov := rp.pov
  sdPreGERchecked sd invOpt fs nxseg pov method n Y

end model

/-! ## exact inverse by Gauss–Jordan elimination (driver's stand-in for `np.linalg.inv`) -/
def gaussInv {K : Type} [Zero K] [One K] [Sub K] [Mul K] [Div K] [DecidableEq K] [Inhabited K]
    (G : Mat K) : Option (Mat K) := Id.run do
  if G.r ≠ G.c then return none
  let n := G.r
  let mut A : Array (Array K) := Array.ofFn (n := n) fun i =>
    Array.ofFn (n := 2 * n) fun j =>
      if j.1 < n then G.e i.1 j.1 else if j.1 - n = i.1 then (1 : K) else (0 : K)
  for col in [0:n] do
    let mut piv : Option Nat := none
    for r in [col:n] do
      if piv.isNone && (A[r]!)[col]! ≠ (0 : K) then piv := some r
    match piv with
    | none => return none
    | some p =>
      let rp := A[p]!
      let rc := A[col]!
      A := (A.set! p rc).set! col rp
      let pv := rp[col]!
      let rowN := rp.map fun x => x / pv
      A := A.set! col rowN
      for r in [0:n] do
        if r ≠ col then
          let fac := (A[r]!)[col]!
          if fac ≠ (0 : K) then
            let old := A[r]!
            A := A.set! r (Array.ofFn (n := 2 * n) fun j => old[j.1]! - fac * rowN[j.1]!)
  let R := A
  return some ⟨n, n, fun i j => (R[i]!)[n + j]!⟩

end PV
