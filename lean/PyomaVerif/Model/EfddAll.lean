import PyomaVerif.Model.Efdd
/-!
# `fdd.SD_svalsvec` and `fdd.EFDD_mpe` as ONE composed model — core Lean only

Mirrors `src/pyoma2/functions/fdd.py:201-233` (`SD_svalsvec`, now with the two library calls
`np.linalg.svd` and `np.sqrt` as parameters *applied inside the model*) and `fdd.py:424-590`
(`EFDD_mpe`), statement by statement, by composing the existing pieces

`SD_svalsvec(Sy)` → `FDD_mpe(Sval, Svec, freq, sel_freq, DF=DF1)` (`Fdd.fddMpe`) → per selected
frequency: `SDOF_bellandMS(Sy, dt, sel_fn, phi_FDD, method, cm, MAClim, DF=DF2)` (which calls
`SD_svalsvec(Sy)` again; `Efdd.sdofBell`) → `np.where(SDOFbell)` → `np.fft.ifft(…, n=5·nf,
norm="ortho").real` → `normSDOFcorr` (`normCorr`) → crossings / extrema / `idxOf` / `selectFit`
/ `Td` / `fd` (`postFft`) → `np.log` of the decrement ratios → `curve_fit` → `methodSy`
branch (`lamOf`) → `xi` (`xiOf`) → `fn` (`fnOf`); `Phi_E.append(phi_FDD)`.

The numerical library routines are the fields of `Ext` (parameters; their contracts are
hypotheses of the theorems, their recorded values are fed to the driver by the harness).

numpy arrays are values: the bell, the correlation and the normalised correlation are
materialised once (`memoArr`) and read through `memoGet`, which is the identity on functions
(`memoGet_memoArr`) — so the composed model *is* the composition of the function models.

Outside the compared domain (model returns `.error "outside-model: …"`): a NaN first-stage
shape (zero singular vector) and an identically zero correlation (numpy: NaNs, no exception).
-/
namespace PV.Efdd
open PV PV.Fdd

/-- what `np.linalg.svd(A)` returns, `V` dropped (`U1, S, _ = np.linalg.svd(…)`) -/
structure SvdOut (K : Type) where
  U : Nat → Nat → Cx K
  S : Nat → K

/-- the numerical library routines `EFDD_mpe` / `SD_svalsvec` call -/
structure Ext (K : Type) where
  /-- `np.linalg.svd` of an `nr × nc` matrix -/
  svd : Nat → Nat → (Nat → Nat → Cx K) → SvdOut K
  /-- `np.sqrt` -/
  sqrt : K → K
  /-- `np.log` -/
  log : K → K
  /-- `np.pi` -/
  pi : K
  /-- `np.fft.ifft(b, n=5·nf, axis=0, norm="ortho").real` of the length-`nf` array `b` -/
  ifft : Nat → (Nat → Cx K) → Nat → K
  /-- `curve_fit(lambda x, m: m*x, np.arange(n), delta)[0]` -/
  fit : Nat → (Nat → K) → K

section memo
variable {α : Type}

/-- the array `[f 0, …, f (n-1)]` -/
def memoArr (n : Nat) (f : Nat → α) : Array α := Array.ofFn (n := n) (fun i => f i.val)

/-- read a materialised array (outside its length: the function itself) -/
@[inline] def memoGet (a : Array α) (f : Nat → α) (i : Nat) : α := if h : i < a.size then a[i] else f i

theorem memoGet_memoArr (n : Nat) (f : Nat → α) : memoGet (memoArr n f) f = f := by
  funext i
  unfold memoGet memoArr
  split
  · simp
  · rfl

end memo

section svalsvec
variable {K : Type} [Zero K] [Neg K]

/-- `SD_svalsvec(SD)` for `SD` of shape `(nr, nc, nf)`: one `np.linalg.svd(SD[:, :, k])` per
    line, `S_val[:, :, k] = np.diag(np.sqrt(S))`, `S_vec[:, :, k] = U1.conj().T`. -/
def svalsvec (E : Ext K) (nr nc nf : Nat) (SD : Nat → Nat → Nat → Cx K) :
    (Nat → Nat → Nat → K) × (Nat → Nat → Nat → Cx K) :=
  let outF : Nat → SvdOut K := fun k => E.svd nr nc (fun i j => SD i j k)
  let outA := memoArr nf outF
  let out := memoGet outA outF
  let sqF : Nat → Array K := fun k => memoArr nc (fun i => E.sqrt ((out k).S i))
  let sqA := memoArr nf sqF
  let sq : Nat → Nat → K := fun k i => memoGet (memoGet sqA sqF k) (fun i => E.sqrt ((out k).S i)) i
  (svalPlace sq, svecPlace (fun k => (out k).U))

/-- the same without the materialised arrays -/
def svalsvecSpec (E : Ext K) (nr nc : Nat) (SD : Nat → Nat → Nat → Cx K) :
    (Nat → Nat → Nat → K) × (Nat → Nat → Nat → Cx K) :=
  (svalPlace (fun k i => E.sqrt ((E.svd nr nc (fun i j => SD i j k)).S i)),
   svecPlace (fun k => (E.svd nr nc (fun i j => SD i j k)).U))

theorem svalsvec_eq (E : Ext K) (nr nc nf : Nat) (SD : Nat → Nat → Nat → Cx K) :
    svalsvec E nr nc nf SD = svalsvecSpec E nr nc SD := by
  unfold svalsvec svalsvecSpec
  simp only [memoGet_memoArr]

end svalsvec

section all
variable {K : Type} [Zero K] [Add K] [Sub K] [Mul K] [Div K] [Neg K] [LT K] [DecidableLT K]
  [NatCast K] [DecidableEq K]

/-- the call `SDOF_bellandMS(Sy, dt, sel_fn, phi_FDD, method, cm, MAClim, DF=DF2)[0]` inside
    `EFDD_mpe` (its first statement is `Sval, Svec = SD_svalsvec(Sy)`) -/
def efddBell (E : Ext K) (m : Method) (nch cm nf : Nat) (dt : K) (Sy : Nat → Nat → Nat → Cx K)
    (phi : Nat → Cx K) (sel DF2 MAClim : K) : Nat → Cx K :=
  let sv := svalsvec E nch nch nf Sy
  sdofBell m nch cm nf dt Sy sv.1 sv.2 phi sel DF2 MAClim

/-- what one pass of the loop of `EFDD_mpe` appends (`Fn_E`, `Xi_E`, `Phi_E`) and the
    scale-free part of `PerPlot` -/
structure ModeAll (K : Type) where
  fn : Option K
  xi : K
  phi : List (Cx K)
  /-- `idSV = np.where(SDOFbell)` -/
  idSV : List Nat
  post : Post K
  /-- `delta` -/
  delta : List K
  /-- `lam` after the `methodSy` branch -/
  lam : K

/-- one pass of the loop `for n in trange(len(sel_freq))` of `EFDD_mpe`;
    `phiL = Phi_FDD[:, n]` (`none` = NaN), `sel = sel_freq[n]`. -/
def efddOne (E : Ext K) (m : Method) (ms : SyMethod) (nch cm nf : Nat) (dt : K)
    (Sy : Nat → Nat → Nat → Cx K) (DF2 MAClim : K) (sppk npmax : Nat) (sel : K)
    (phiL : Option (List (Cx K))) : Except String (ModeAll K) :=
  match phiL with
  | none => .error "outside-model: NaN first-stage mode shape"
  | some pl =>
    let phi : Nat → Cx K := fun i => pl.getD i 0
    -- `SDOFms += np.array([…])` with an empty band: shapes (0, Nch) and (0,)
    if (m = .FSDD ∨ m = .EFDD) ∧ 0 < cm ∧
        bandHi nf (bellFreq nf dt) sel DF2 ≤ bandLo nf (bellFreq nf dt) sel DF2 then
      .error "ValueError: operands could not be broadcast together"
    else
      -- `Sval, Svec = SD_svalsvec(Sy)` inside `SDOF_bellandMS` (evaluated once per pass)
      let sv := svalsvec E nch nch nf Sy
      let bellF := sdofBell m nch cm nf dt Sy sv.1 sv.2 phi sel DF2 MAClim  -- `= efddBell …`
      let bellA := memoArr nf bellF
      let bell := memoGet bellA bellF
      let idSV := (List.range nf).filter (fun l => ¬ ((bell l).re = 0 ∧ (bell l).im = 0))
      let corrF := E.ifft nf bell
      let corrA := memoArr (5 * nf) corrF
      let corr := memoGet corrA corrF
      if corr (argmaxTo (5 * nf) corr) = 0 then .error "outside-model: zero correlation"
      else
        let xF := normCorr (5 * nf) corr
        let xA := memoArr (5 * nf / 2) xF
        let x := memoGet xA xF
        match postFft nf x dt sppk npmax with
        | .error e => .error e
        | .ok p =>
          -- `time[minmax_fit_idx]` with an empty (float) index array
          if npmax = 0 then .error "IndexError: arrays used as indices must be of integer (or boolean) type"
          else
            let delta := p.ratios.map E.log
            let s := E.fit npmax (fun k => delta.getD k 0)
            let lam := lamOf ms nf (E.log (((1 : Nat) : K) / ((100 : Nat) : K))) s
            let xi := xiOf E.sqrt E.pi lam
            .ok ⟨p.fd.map (fun fd => fnOf E.sqrt fd xi), xi, pl, idSV, p, delta, lam⟩

/-- `EFDD_mpe(Sy, freq, dt, sel_freq, methodSy, method, DF1, DF2, cm, MAClim, sppk, npmax)`:
    `(Fn, Xi, Phi)` and the scale-free diagnostics, one entry per selected frequency
    (the first exception aborts; the first stage runs for all frequencies before the loop). -/
def efddMpe (E : Ext K) (m : Method) (ms : SyMethod) (nch nf : Nat) (Sy : Nat → Nat → Nat → Cx K)
    (freq : Nat → K) (dt : K) (sel : List K) (DF1 DF2 : K) (cm : Nat) (MAClim : K)
    (sppk npmax : Nat) : Except String (List (ModeAll K)) :=
  let sv := svalsvec E nch nch nf Sy
  match fddMpe nch nch nf freq sv.1 sv.2 sel DF1 with
  | .error e => .error e
  | .ok modes =>
    (List.zip sel modes).mapM
      (fun sm => efddOne E m ms nch cm nf dt Sy DF2 MAClim sppk npmax sm.1 sm.2.phi)

end all
end PV.Efdd
