import PyomaVerif.Model.Cpx
import PyomaVerif.Model.Merge
/-!
The instantiations of the merging model that the driver runs (`Ops/C02.lean`): shapes over the
Gaussian rationals `Cpx Rat`, `np.real` as `Cpx.realPart`, frequencies / damping ratios over `Rat`
— with the core arithmetic instances of `Model/Cpx.lean` fixed here, so that theorems stated about
these names speak about exactly the executed code.
-/
namespace PV.Merge

/-- `gen.merge_mode_shapes` as executed by the driver operation `merge_mode_shapes` -/
def mergeModeShapesQ (phis : List (List (List (Cpx Rat)))) (refs : List (List Nat)) :
    Except String (List (List (Cpx Rat))) :=
  mergeModeShapes Cpx.realPart phis refs

/-- `MultiSetup_PoSER.merge_results` as executed by the driver operation `poser_merge_results`
    (`sqrt`: the driver passes its 40-digit rational square root) -/
def mergeResultsQ (sqrt : Rat → Rat) (names : List String)
    (setups : List (List (AlgRes Rat (Cpx Rat)))) (refInd : List (List Nat)) :
    Except String (List (String × PoserRes Rat (Cpx Rat))) :=
  mergeResults sqrt Cpx.realPart names setups refInd

end PV.Merge
