/-!
# Hard-criteria mask sequencing of the `run()` methods (C09) — core Lean only

A tiny straight-line language into which the translator (`harness/translate_hc.py`)
turns the hard-criteria part of `SSIdat.run`, `SSIdat_MS.run`, `pLSCF.run`, `pLSCF_MS.run`,
a concrete interpreter over NaN-bearing tables and an abstract interpreter that tracks,
per variable, its source table and the set of criteria it has been filtered by.
-/
namespace PV.Hc

/-- keys of the `hc` dictionary that carry thresholds -/
inductive Thr | xiMax | mpcLim | mpdLim | covMax | other
deriving DecidableEq, Repr

/-- a criterion together with the threshold variable the code passes to it -/
inductive Crit
  | conj
  | damp (t : Thr)
  | mpd (t : Thr)
  | mpc (t : Thr)
  | cov (t : Thr)
deriving DecidableEq, Repr

/-- the unfiltered solution tables -/
inductive Tbl | fn | xi | phi | lam | fncov | xicov | phicov
deriving DecidableEq, Repr

abbrev Var := String

inductive Stmt
  /-- `(dstT, dstM) = gen.HC_conj(src)` / `HC_damp(src, t)` / `HC_cov(src, t)` -/
  | hc1 (c : Crit) (dstT dstM : Var) (src : Var)
  /-- `(d3, d4) = gen.HC_phi_comp(src, tMpc, tMpd)`: `d3` is the MPD mask, `d4` the MPC mask -/
  | hcPhi (d3 d4 : Var) (src : Var) (tMpc tMpd : Thr)
  /-- `l = [v₁, …]` — a Python list of the arrays the names are bound to *now* (a snapshot);
      also used for `Lab = gen.SC_apply(v₁, v₂, v₃, …)` (the label table is a function of
      exactly these argument values) -/
  | bind (l : Var) (vs : List Var)
  /-- `dsts = gen.applymask(l, m, _)` -/
  | apply (dsts : List Var) (l : Var) (m : Var)
  /-- `x[np.logical_not(m)] = np.nan` — the table `x` blanked in place where the mask `m` is
      false (what `applymask` does to each element, written into the same object; a 2-D boolean
      index on a 3-D table selects whole cells). Only the `logical_not` spelling: `x[~m]` is an
      integer index for the 0/1 integer masks `HC_damp`/`HC_cov`/`HC_phi_comp` return. The
      translator emits it only when no list still in use holds the object (value semantics here,
      object semantics in Python). A `None` in `x` (absent covariance) is a `TypeError` in Python
      and a stuck state here. -/
  | blank (x : Var) (m : Var)
deriving Repr, DecidableEq

section Concrete
variable {Idx Val : Type}

/-- What the criteria mean on cells: a parameter of the concrete semantics (instantiated by
    the models of `gen.HC_*` in `Model/Hc.lean`). -/
structure Sem (Idx Val : Type) where
  orig : Tbl → Idx → Option Val
  /-- pointwise criteria on an optional cell value -/
  cell : Crit → Option Val → Bool
  /-- NaN never satisfies a pointwise criterion (`nan < x`, `nan > 0`, `MPC(nan) >= lim` are False) -/
  cell_none : ∀ c, c ≠ Crit.conj → cell c none = false
  /-- the conjugate criterion looks at the whole table it is given -/
  conjT : (Idx → Option Val) → Idx → Bool

inductive CVal (Idx Val : Type)
  | tbl (t : Idx → Option Val)
  | mask (m : Idx → Bool)
  | none
  | lst (l : List (Option (Idx → Option Val)))

abbrev CEnv (Idx Val : Type) := Var → Option (CVal Idx Val)

def CEnv.set (e : CEnv Idx Val) (x : Var) (v : CVal Idx Val) : CEnv Idx Val :=
  fun y => if y = x then some v else e y

/-- `np.where(mask, arr, nan)` -/
def maskTbl (m : Idx → Bool) (t : Idx → Option Val) : Idx → Option Val :=
  fun i => if m i then t i else none

def setMany (e : CEnv Idx Val) : List Var → List (CVal Idx Val) → CEnv Idx Val
  | x :: xs, v :: vs => setMany (e.set x v) xs vs
  | _, _ => e

/-- values of a list of names, each an array or `None` -/
def lookList (e : CEnv Idx Val) : List Var → Option (List (Option (Idx → Option Val)))
  | [] => some []
  | x :: xs => match e x, lookList e xs with
    | some (.tbl t), some ts => some (some t :: ts)
    | some .none, some ts => some (Option.none :: ts)
    | _, _ => Option.none

def maskO (m : Idx → Bool) : Option (Idx → Option Val) → CVal Idx Val
  | some t => .tbl (maskTbl m t)
  | Option.none => .none

def cexec (S : Sem Idx Val) (e : CEnv Idx Val) : Stmt → Option (CEnv Idx Val)
  | .hc1 c dT dM src =>
    match e src with
    | some (.tbl t) =>
      let m : Idx → Bool := if c = Crit.conj then S.conjT t else fun i => S.cell c (t i)
      some ((e.set dT (.tbl (maskTbl m t))).set dM (.mask m))
    | _ => Option.none
  | .hcPhi d3 d4 src tMpc tMpd =>
    match e src with
    | some (.tbl t) =>
      some ((e.set d3 (.mask fun i => S.cell (.mpd tMpd) (t i))).set d4
        (.mask fun i => S.cell (.mpc tMpc) (t i)))
    | _ => Option.none
  | .bind l vs =>
    match lookList e vs with
    | some ts => some (e.set l (.lst ts))
    | Option.none => Option.none
  | .apply dsts l m =>
    match e m, e l with
    | some (.mask mk), some (.lst ts) =>
      if dsts.length = ts.length then some (setMany e dsts (ts.map (maskO mk))) else Option.none
    | _, _ => Option.none
  | .blank x m =>
    match e x, e m with
    | some (.tbl t), some (.mask mk) => some (e.set x (.tbl (maskTbl mk t)))
    | _, _ => Option.none

def crun (S : Sem Idx Val) : CEnv Idx Val → List Stmt → Option (CEnv Idx Val)
  | e, [] => some e
  | e, s :: ss => match cexec S e s with
    | some e' => crun S e' ss
    | Option.none => Option.none
end Concrete

/-! ## abstract domain -/
inductive AVal
  | tbl (o : Tbl) (cs : List Crit)     -- original table `o` filtered by all criteria in `cs`
  | mask (cs : List Crit)              -- conjunction of the criteria `cs`
  | none
  | lst (l : List (Option (Tbl × List Crit)))
deriving DecidableEq, Repr

abbrev AEnv := List (Var × AVal)

def AEnv.get (e : AEnv) (x : Var) : Option AVal := (e.find? (·.1 = x)).map (·.2)
def AEnv.set (e : AEnv) (x : Var) (v : AVal) : AEnv := (x, v) :: e

/-- which unfiltered table a criterion is evaluated on -/
def critTbl : Crit → Tbl
  | .conj => .lam | .damp _ => .xi | .mpd _ => .phi | .mpc _ => .phi | .cov _ => .fncov

def aLookList (e : AEnv) : List Var → Option (List (Option (Tbl × List Crit)))
  | [] => some []
  | x :: xs => match e.get x, aLookList e xs with
    | some (.tbl o cs), some r => some (some (o, cs) :: r)
    | some .none, some r => some (Option.none :: r)
    | _, _ => Option.none

def aSetMany (e : AEnv) : List Var → List AVal → AEnv
  | x :: xs, v :: vs => aSetMany (e.set x v) xs vs
  | _, _ => e

def amaskO (ms : List Crit) : Option (Tbl × List Crit) → AVal
  | some (o, cs) => .tbl o (ms ++ cs)
  | Option.none => .none

/-- Abstract execution; `none` = the statement is outside what the abstraction can justify
    (e.g. the whole-table conjugate criterion applied to an already filtered table, or a
    criterion applied to the wrong table): the obligation fails closed. -/
def aexec (e : AEnv) : Stmt → Option AEnv
  | .hc1 c dT dM src =>
    match e.get src with
    | some (.tbl o cs) =>
      if o = critTbl c ∧ (c = .conj → cs = []) then
        some ((e.set dT (.tbl o (c :: cs))).set dM (.mask (c :: cs)))
      else Option.none
    | _ => Option.none
  | .hcPhi d3 d4 src tMpc tMpd =>
    match e.get src with
    | some (.tbl o cs) =>
      if o = .phi then
        some ((e.set d3 (.mask (.mpd tMpd :: cs))).set d4 (.mask (.mpc tMpc :: cs)))
      else Option.none
    | _ => Option.none
  | .bind l vs =>
    match aLookList e vs with
    | some ts => some (e.set l (.lst ts))
    | Option.none => Option.none
  | .apply dsts l m =>
    match e.get m, e.get l with
    | some (.mask ms), some (.lst ts) =>
      if dsts.length = ts.length then some (aSetMany e dsts (ts.map (amaskO ms))) else Option.none
    | _, _ => Option.none
  | .blank x m =>
    match e.get x, e.get m with
    | some (.tbl o cs), some (.mask ms) => some (e.set x (.tbl o (ms ++ cs)))
    | _, _ => Option.none

def arun : AEnv → List Stmt → Option AEnv
  | e, [] => some e
  | e, s :: ss => match aexec e s with
    | some e' => arun e' ss
    | Option.none => Option.none

/-- canonical order of criteria, for comparing criterion *sets* -/
def allCrits : List Crit :=
  [.conj, .damp .xiMax, .mpd .mpdLim, .mpc .mpcLim, .cov .covMax]

/-- `cs` as a set equals `want` as a set -/
def sameSet (cs want : List Crit) : Bool :=
  cs.all (· ∈ want) && want.all (· ∈ cs)

/-- the criteria enabled by a configuration -/
def enabled (conjOn covOn : Bool) : List Crit :=
  (if conjOn then [Crit.conj] else []) ++ [.damp .xiMax, .mpd .mpdLim, .mpc .mpcLim]
    ++ (if covOn then [Crit.cov .covMax] else [])

/-- does variable `x` hold table `o` filtered by exactly the criteria `want`? -/
def holds (e : AEnv) (x : Var) (o : Tbl) (want : List Crit) : Bool :=
  match e.get x with
  | some (.tbl o' cs) => o' = o && sameSet cs want
  | _ => false

def isNone (e : AEnv) (x : Var) : Bool :=
  match e.get x with
  | some .none => true
  | _ => false

/-- the label table is `SC_apply` of exactly the three filtered tables -/
def labOf (e : AEnv) (lab : Var) (want : List Crit) : Bool :=
  match e.get lab with
  | some (.lst [some (o1, c1), some (o2, c2), some (o3, c3)]) =>
    o1 = .fn && o2 = .xi && o3 = .phi && sameSet c1 want && sameSet c2 want && sameSet c3 want
  | _ => false


/-! ## whole `run()` bodies as produced by the translator -/
inductive Guard | conjOn | covOn
deriving DecidableEq, Repr

structure ClassProg where
  /-- names bound by the pole computation, with the unfiltered table each holds -/
  init : List (Var × Tbl)
  /-- hard-criteria statements, each under the `if` guards that enclose it -/
  prog : List (List Guard × Stmt)
  /-- keyword arguments of the result constructor: field ↦ variable -/
  ret : List (String × Var)
  /-- the variable receiving `gen.SC_apply(...)` -/
  lab : Var
deriving Repr

def guardOn (conjOn covOn : Bool) : Guard → Bool
  | .conjOn => conjOn
  | .covOn => covOn

/-- the statements executed under a configuration (`hc["conj"]`, covariances computed) -/
def select (conjOn covOn : Bool) (prog : List (List Guard × Stmt)) : List Stmt :=
  (prog.filter (fun gs => gs.1.all (guardOn conjOn covOn))).map (·.2)

def isCovTbl : Tbl → Bool
  | .fncov | .xicov | .phicov => true
  | _ => false

/-- abstract environment after the pole computation: covariance variables are `None`
    when uncertainties are not computed -/
def initEnv (covOn : Bool) (init : List (Var × Tbl)) : AEnv :=
  init.map (fun vt => (vt.1, if isCovTbl vt.2 && !covOn then AVal.none else AVal.tbl vt.2 []))

/-- the result fields whose NaN pattern the property speaks about -/
def fieldTbl : String → Option Tbl
  | "Fn_poles" => some .fn
  | "Xi_poles" => some .xi
  | "Phi_poles" => some .phi
  | "Lambds" => some .lam
  | "Fn_poles_cov" => some .fncov
  | "Xi_poles_cov" => some .xicov
  | "Phi_poles_cov" => some .phicov
  | _ => Option.none

/-- one result field carries exactly the enabled criteria (or is `None` for an absent covariance) -/
def fieldOk (a : AEnv) (conjOn covOn : Bool) (fx : String × Var) : Bool :=
  match fieldTbl fx.1 with
  | some o => if isCovTbl o && !covOn then isNone a fx.2 else holds a fx.2 o (enabled conjOn covOn)
  | Option.none => true

/-- **The sequencing obligation** for one class and one configuration: the abstract run
    succeeds, every tracked result field is filtered by exactly the enabled criteria, the
    `required` fields are all present in the result, and the label table is `SC_apply` of the
    three filtered pole tables. -/
def check (P : ClassProg) (required : List String) (conjOn covOn : Bool) : Bool :=
  match arun (initEnv covOn P.init) (select conjOn covOn P.prog) with
  | Option.none => false
  | some a =>
    P.ret.all (fieldOk a conjOn covOn)
      && required.all (fun f => P.ret.any (fun fx => fx.1 = f))
      && labOf a P.lab (enabled conjOn covOn)

def requiredSSI : List String :=
  ["Fn_poles", "Xi_poles", "Phi_poles", "Lambds", "Fn_poles_cov", "Xi_poles_cov", "Phi_poles_cov"]
def requiredPLSCF : List String := ["Fn_poles", "Xi_poles", "Phi_poles"]

end PV.Hc
