/-! Structures of the generated table of default values (`Generated/Defaults.lean`, written by
`harness/translate_defaults.py`).  Core Lean only. -/
namespace PV.DefaultsTbl

/-- the VALUE of a default: Python `None`, a bool, an int, a float (as the exact rational `num/den` of its shortest
    decimal), a string; `required` = the parameter / field has no default; `var` = `*args` / `**kwargs`;
    `keys ks` = a dictionary with exactly the keys `ks` (its values are separate rows `field.key`). -/
inductive Val where
  | none
  | required
  | var
  | bool (b : Bool)
  | int (i : Int)
  | float (num : Int) (den : Nat)
  | str (s : String)
  | keys (ks : List String)
deriving DecidableEq, Repr

structure FieldRow where
  cls : String
  field : String
  val : Val
deriving DecidableEq, Repr

structure MethodRow where
  cls : String
  method : String
  param : String
  idx : Nat
  val : Val
deriving DecidableEq, Repr

structure FuncRow where
  fn : String
  param : String
  idx : Nat
  val : Val
deriving DecidableEq, Repr

structure LabelRow where
  fn : String
  kind : String
  val : Val
deriving DecidableEq, Repr

/-- a float or int default as a rational number -/
def Val.toRat? : Val → Option Rat
  | .int i => some (i : Rat)
  | .float n d => some ((n : Rat) / (d : Rat))
  | _ => Option.none

end PV.DefaultsTbl
