import PyomaVerif.Model.Realise
import PyomaVerif.Model.NanTable
import PyomaVerif.Model.Stab
import PyomaVerif.Model.Unc
import PyomaVerif.Model.Plscf
/-!
# Pole-table assembly as model functions (core Lean only)

* `ssiPoles` — `ssi.SSI_poles` as ONE function: the width `int(ordmax/step + 1)` of the tables, the
  loop `for ii in trange(1, ordmax + 1, step)`, `A = AA[ii]`, `C = CC[ii]`, the call of `ac2mp`
  (`ac2mp` below: everything after `scipy.linalg.eig`, `np.log`, `np.abs`), the four writes
  `T[:len(fn), ii] = …` into column `ii` (NaN elsewhere) and, with `calc_unc`, the uncertainty block:
  `PnQ1`, `PnQ2_Q3` of order `ii`, the loop `for jj in range(len(lam_c))` and the cells
  `Fn_cov[jj, ii] = abs(cov_fx[0, 0])`, `Xi_cov[jj, ii] = abs(cov_fx[1, 0])` (`Model/Unc.lean` has the
  factors).  What the LAPACK / libm calls returned comes in as one record per call of `ac2mp`
  (`EigRec`, in call order) and one recorded inverse `OO` per order.
* `fastLists` — the list-building loop of `ssi.SSI_fast` (`for ii in trange(0, ordmax + 1, step)`).
* `legacySSI` / `legacyLists` — the legacy `ssi.SSI` after its `np.linalg.svd`: `Nch`, the loop
  `for ii in trange(0, ordmax + 1, step)`, per pass `Obs = U1[:, :ii]·S1rad[:ii, :ii]` with the clipping of
  the slices (`legacyObs`, `ValueError` of `np.dot` for a tall `H`), the recorded `pinv`, `A`, `C`.
* `plscfAll` — `plscf.pLSCF`: `sgn_basf` decides BOTH the constraint (`"LO"`/`"HI"`) and the basis
  `Omega = exp(sgn_basf·1j·omega·dt)`; loop over the orders; `alpha.reshape((-1, Nch, Nch))`
  (`reshapeAd`), `np.moveaxis(beta, 1, 0)` (`moveaxisBn`); the two lists.
* `plscfPoles` — `plscf.pLSCF_poles`: the loop `for ii in range(len(Ad))` (`rmfd2ac`, `ac2mp_poly`,
  `fn[fn == inf] = nan`) and the padding (`padTables`): column `ii` = list position `ii` = order `ii+1`.

Exceptions are `Except String` with the Python exception class as the message.
-/
namespace PV
namespace Poles
open Mat

/-! ## `ssi.ac2mp` after the eigen-decomposition -/

/-- what one call `ac2mp(A, C, dt, calc_unc)` obtains from outside the model:
    `lamd, L, V = scipy.linalg.eig(A, left=True)`, `lamc = np.log(lamd) * (1/dt)`,
    `absc = abs(lamc)`; `absd = np.abs(lamd)` is taken by the uncertainty block of `SSI_poles`. -/
structure EigRec where
  lamd : List (Cpx Rat)
  L : Mat (Cpx Rat)
  V : Mat (Cpx Rat)
  lamc : List (Cpx Rat)
  absc : List Rat
  absd : List Rat

/-- numpy's promotion of the real `C` in `np.dot(C, r_eigvt)` -/
def cplxM (C : Mat Rat) : Mat (Cpx Rat) := ⟨C.r, C.c, fun i j => ⟨C.e i j, 0⟩⟩

structure Ac2mpOut where
  fn : List Rat
  xi : List Rat
  phi : List (List (Cpx Rat))
  lamc : List (Cpx Rat)

/-- `fn = abs(lam_c)/(2π)`, `xi = -(real(lam_c)/abs(lam_c))` (elementwise), the unity-normalised
    columns of `C·r_eigvt` as rows (`.reshape(-1, Nch)`), `lam_c`. -/
def ac2mp (C : Mat Rat) (e : EigRec) (twoPi : Rat) : Ac2mpOut :=
  { fn := e.absc.map (fun a => fnOf a twoPi),
    xi := List.zipWith xiOf e.lamc e.absc,
    phi := shapesOf (cplxM C) e.V,
    lamc := e.lamc }

/-! ## the tables -/

/-- a complex number as the tables of `Model/Stab.lean`, `Model/Mpe.lean` store it -/
def toCQ (z : Cpx Rat) : CQ := (z.re, z.im)

/-- `T[:n, ii] = v` on a 2-D table (`n = len(fn) ≤ T.r`, `ii < T.c` checked by the caller; `v` has
    `n` entries) -/
def setCol {α : Type} (T : Mat (Option α)) (ii n : Nat) (v : List α) : Mat (Option α) :=
  ⟨T.r, T.c, fun r c => if c = ii ∧ r < n then v[r]? else T.e r c⟩

/-- `Phi[:n, ii, :] = phi` (`phi` a list of `n` rows of length `Phi.d`) -/
def setCol3 (T : Ten3 (Option CQ)) (ii n : Nat) (v : List (List (Cpx Rat))) : Ten3 (Option CQ) :=
  ⟨T.r, T.c, T.d, fun r c k =>
    if c = ii ∧ r < n then ((v.getD r [])[k]?).map toCQ else T.e r c k⟩

/-- `T[jj, ii] = x` -/
def setCell {α : Type} (T : Mat (Option α)) (jj ii : Nat) (x : α) : Mat (Option α) :=
  ⟨T.r, T.c, fun r c => if r = jj ∧ c = ii then some x else T.e r c⟩

/-- `np.full((r, c), np.nan)` -/
def nanMat {α : Type} (r c : Nat) : Mat (Option α) := ⟨r, c, fun _ _ => none⟩

/-- the uncertainty inputs of `SSI_poles(…, calc_unc=True, Q1, Q2, Q3, Q4)`: `Obs` enters only through
    the recorded `OO k = np.linalg.inv(np.dot(O_p.T, O_p))` of the `k`-th pass of the loop (its
    argument is `Unc.ooArg Obs Nch ii`); `pi = np.pi`; `Q4` only feeds the unused `Q4_n`. -/
structure UncIn where
  Q1 : Mat Rat
  Q2 : Mat Rat
  Q3 : Mat Rat
  OO : List (Mat Rat)
  pi : Rat
  dt : Rat

structure SsiIn where
  AA : List (Mat Rat)
  CC : List (Mat Rat)
  ordmax : Nat
  step : Nat
  /-- record of the `k`-th call of `ac2mp` (`k = 0, 1, …` in loop order) -/
  recs : List EigRec
  twoPi : Rat
  /-- `none`: `calc_unc=False` -/
  unc : Option UncIn

structure SsiTables where
  fn : Mat NR
  xi : Mat NR
  phi : Ten3 (Option CQ)
  lam : Mat (Option CQ)
  /-- `None` unless `calc_unc` -/
  fnCov : Option (Mat NR)
  xiCov : Option (Mat NR)
  /-- allocated, never written (the block is commented out in the code): all NaN -/
  phiCov : Option (Ten3 NR)

/-- `1 + 0j` (a local instance: the proof files have their own ring structure on `Cpx ℚ`) -/
@[instance_reducible] def cpxOne : One (Cpx Rat) := ⟨⟨1, 0⟩⟩
attribute [local instance] cpxOne

/-- `cov_fx[1, 0]` of `cov_fx = Ufx·Ufxᵀ` (`Unc.var00` is `cov_fx[0, 0]`) -/
def var10 (U : Mat Rat) : Rat := (mulT U U).e 1 0

/-- column `jj` of a matrix as a 1-D array -/
def colFn (M : Mat (Cpx Rat)) (jj : Nat) : Nat → Cpx Rat := fun t => M.e t jj

/-- `Ufx` of one `(jj, ii)` pass: `Qi` (eq. 44), `Jfx_l` (Lemma 5), `JaohT` (eq. 43), `Ufx` (eq. 42) -/
def ufxAt (u : UncIn) (ordmax ii : Nat) (OO : Mat Rat) (e : EigRec) (jj : Nat) : Mat Rat :=
  let lam := e.lamd.getD jj 0
  let lc := e.lamc.getD jj 0
  let J := Unc.jfx u.pi u.dt (e.absd.getD jj 0) (e.absc.getD jj 0) lc.re lc.im lam.re lam.im
  Unc.ufxOf Cpx.re Cpx.im J
    (Unc.jaohT Cpx.ofReal ii (fun t => Cpx.conj (e.L.e t jj)) (colFn e.V jj) OO
      (Unc.qiOf Cpx.ofReal ii (colFn e.V jj) lam (Unc.pnQ1 ii ordmax u.Q1) (Unc.pnQ23 ii ordmax u.Q2 u.Q3)))

/-- the inner loop `for jj in range(len(lam_c))`: `Fn_cov[jj, ii] = abs(cov_fx[0, 0])`,
    `Xi_cov[jj, ii] = abs(cov_fx[1, 0])` -/
def covLoop (u : UncIn) (ordmax ii : Nat) (OO : Mat Rat) (e : EigRec) :
    List Nat → Mat NR × Mat NR → Mat NR × Mat NR
  | [], T => T
  | jj :: rest, T =>
    let U := ufxAt u ordmax ii OO e jj
    covLoop u ordmax ii OO e rest
      (setCell T.1 jj ii (qabs (Unc.var00 U)), setCell T.2 jj ii (qabs (var10 U)))

/-- the record of a call that was never made (`recs` shorter than the loop) -/
def EigRec.empty : EigRec := ⟨[], ⟨0, 0, fun _ _ => 0⟩, ⟨0, 0, fun _ _ => 0⟩, [], [], []⟩

/-- the uncertainty block of pass `k` (order `ii`, `n = len(lam_c)`) on the two covariance tables;
    nothing happens without `calc_unc` -/
def covStep (unc : Option UncIn) (ordmax k ii : Nat) (e : EigRec) (n : Nat)
    (FC XC : Option (Mat NR)) : Option (Mat NR) × Option (Mat NR) :=
  match unc, FC, XC with
  | some u, some F, some X =>
    let P := covLoop u ordmax ii (u.OO.getD k ⟨0, 0, fun _ _ => 0⟩) e (List.range n) (F, X)
    (some P.1, some P.2)
  | _, _, _ => (FC, XC)

/-- one pass of `for ii in trange(1, ordmax + 1, step)`, `k` the number of the pass -/
def ssiStep (inp : SsiIn) (T : SsiTables) (k ii : Nat) : Except String SsiTables :=
  match inp.AA[ii]?, inp.CC[ii]? with
  | none, _ => .error "IndexError"           -- A = AA[ii]
  | _, none => .error "IndexError"           -- C = CC[ii]
  | some _, some C =>
    let e := inp.recs.getD k EigRec.empty
    let o := ac2mp C e inp.twoPi
    if T.fn.c ≤ ii then .error "IndexError"                 -- Fn[: len(fn), ii] = fn
    else if T.fn.r < o.fn.length then .error "ValueError"   -- … could not broadcast
    else if C.r ≠ T.phi.d then .error "ValueError"          -- Phi[: len(fn), ii, :] = phi
    else
      let cv := covStep inp.unc inp.ordmax k ii e o.lamc.length T.fnCov T.xiCov
      .ok { T with fn := setCol T.fn ii o.fn.length o.fn, xi := setCol T.xi ii o.fn.length o.xi,
                   phi := setCol3 T.phi ii o.fn.length o.phi,
                   lam := setCol T.lam ii o.fn.length (o.lamc.map toCQ),
                   fnCov := cv.1, xiCov := cv.2 }

def ssiLoop (inp : SsiIn) : List Nat → Nat → SsiTables → Except String SsiTables
  | [], _, T => .ok T
  | ii :: rest, k, T =>
    match ssiStep inp T k ii with
    | .error e => .error e
    | .ok T' => ssiLoop inp rest (k + 1) T'

/-- the orders visited: `list(range(1, ordmax + 1, step))` -/
def ssiOrders (ordmax step : Nat) : List Nat := scOrders 1 ordmax step

/-- **`ssi.SSI_poles(Obs, AA, CC, ordmax, dt, step, calc_unc, Q1, Q2, Q3, Q4)`**. -/
def ssiPoles (inp : SsiIn) : Except String SsiTables :=
  match inp.CC[0]? with
  | none => .error "IndexError"                              -- Nch = CC[0].shape[0]
  | some C0 =>
    if inp.step = 0 then .error "ZeroDivisionError"          -- int((ordmax) / step + 1)
    else
      let nch := C0.r
      let w := inp.ordmax / inp.step + 1
      let T0 : SsiTables :=
        { fn := nanMat inp.ordmax w, xi := nanMat inp.ordmax w,
          phi := ⟨inp.ordmax, w, nch, fun _ _ _ => none⟩, lam := nanMat inp.ordmax w,
          fnCov := inp.unc.map fun _ => nanMat inp.ordmax w,
          xiCov := inp.unc.map fun _ => nanMat inp.ordmax w,
          phiCov := inp.unc.map fun _ => ⟨inp.ordmax, w, nch, fun _ _ _ => none⟩ }
      ssiLoop inp (ssiOrders inp.ordmax inp.step) 0 T0

/-- the arguments of the successive `scipy.linalg.eig` calls (`AA[ii]` for the visited orders) -/
def ssiEigArgs (AA : List (Mat Rat)) (ordmax step : Nat) : List (Option (Mat Rat)) :=
  (ssiOrders ordmax step).map fun ii => AA[ii]?

/-! ## the lists of `ssi.SSI_fast` -/

/-- `for ii in trange(0, ordmax + 1, step): A.append(inv(R[:ii,:ii])·S[:ii,:ii]); C.append(Obs[:l,:ii])`
    with `S = Qᵀ·O_m`; `Rinv k` the inverse recorded in pass `k` of the loop (`ii = k·step`).  List
    position `k` holds order `k·step`. -/
def fastLists {K : Type} [Zero K] [Add K] [Mul K] (Rinv : Nat → Mat K) (Q Obs : Mat K)
    (l ordmax step : Nat) : List (Mat K) × List (Mat K) :=
  ((List.range ((ordmax + 1 + step - 1) / step)).map fun k =>
      fastA (Rinv k) Q (dnPart Obs l) (k * step),
   (List.range ((ordmax + 1 + step - 1) / step)).map fun k => outC Obs l (k * step))

/-! ## the lists of the legacy `ssi.SSI` -/

section legacy
variable {K : Type} [Zero K] [Add K] [Mul K]

/-- `Obs = np.dot(U1[:, :ii], S1rad[:ii, :ii])` of one pass of the legacy loop.  `U1` is the recorded left
    factor of `np.linalg.svd(H)` (all its columns), `sq = np.sqrt(S1)` the recorded roots of ALL singular
    values (`S1rad = np.sqrt(np.diag(S1))` is the diagonal matrix of these; its off-diagonal zeros
    contribute exact zeros to the product).  Slices clip: `U1[:, :ii]` has `min(ii, U1.shape[1])`
    columns, `S1rad[:ii, :ii]` is square of size `min(ii, len(S1))`; `np.dot` raises `ValueError` when the
    two differ (a tall `H` with `ii > H.shape[1]`). -/
def legacyObs (U : Mat K) (sq : List K) (ii : Nat) : Except String (Mat K) :=
  if min ii U.c ≠ min ii sq.length then .error "ValueError"
  else .ok (obsOf U (fun j => sq.getD j 0) (min ii sq.length))

/-- the loop `for ii in trange(0, ordmax + 1, step)` of `ssi.SSI` over the orders `rest`, `k` the number
    of the pass: `A.append(np.dot(np.linalg.pinv(Obs[: Obs.shape[0] - Nch, :]), Obs[Nch:, :]))`,
    `C.append(Obs[:Nch, :])`; `Pinv k` is what `np.linalg.pinv` returned in pass `k`. -/
def legacyLoop (Pinv : Nat → Mat K) (U : Mat K) (sq : List K) (l : Nat) :
    List Nat → Nat → Except String (List (Mat K) × List (Mat K))
  | [], _ => .ok ([], [])
  | ii :: rest, k =>
    match legacyObs U sq ii with
    | .error e => .error e
    | .ok Obs =>
      match legacyLoop Pinv U sq l rest (k + 1) with
      | .error e => .error e
      | .ok (As, Cs) => .ok (legacyA (Pinv k) Obs l :: As, outC Obs l Obs.c :: Cs)

/-- the two lists the legacy loop builds for `Nch = l` and `step ≥ 1`: list position `k` holds order
    `k·step` (`range(0, ordmax + 1, step)`). -/
def legacyLists (Pinv : Nat → Mat K) (U : Mat K) (sq : List K) (l ordmax step : Nat) :
    Except String (List (Mat K) × List (Mat K)) :=
  legacyLoop Pinv U sq l (scOrders 0 ordmax step) 0

/-- **`ssi.SSI(H, br, ordmax, step)`** (legacy) after `np.linalg.svd(H)` (`U`, `sq` as in `legacyObs`;
    `U.r = H.shape[0]`): `Nch = int(H.shape[0] / (br + 1))`; `range(0, ordmax + 1, 0)` raises
    `ValueError`. -/
def legacySSI (Pinv : Nat → Mat K) (U : Mat K) (sq : List K) (br ordmax step : Nat) :
    Except String (List (Mat K) × List (Mat K)) :=
  if step = 0 then .error "ValueError"
  else legacyLists Pinv U sq (U.r / (br + 1)) ordmax step

end legacy

end Poles

/-! ## `plscf.pLSCF` and `plscf.pLSCF_poles` -/
namespace Plscf

variable {K : Type}

/-- `A_den = alpha.reshape((-1, Nch, Nch))`: `A_den[k, a, b] = alpha[k*Nch + a, b]`, `n+1` blocks. -/
def reshapeAd (Nch n : Nat) (alpha : Nat → Nat → K) : Coefs K :=
  ⟨n + 1, Nch, Nch, fun k a b => alpha (k * Nch + a) b⟩

/-- `B_num = np.moveaxis(beta, 1, 0)` with `beta[o, k, c]`: `B_num[k, o, c] = beta[o, k, c]`. -/
def moveaxisBn (Nch Nref n : Nat) (beta : Nat → Nat → Nat → K) : Coefs K :=
  ⟨n + 1, Nref, Nch, fun k o c => beta o k c⟩

section run
variable [Zero K] [One K] [Add K] [Sub K] [Neg K] [Mul K] [Div K] [DecidableEq K] [Inhabited K]

/-- the loop `for n in trange(1, ordmax + 1)` from order `n` on, `todo` orders left -/
def plscfLoop (Nch Nref Nf : Nat) (hi : Bool) (Om : Nat → Cx K) (Sy : Nat → Nat → Nat → Cx K) :
    (todo n : Nat) → Except String (List (Coefs K) × List (Coefs K))
  | 0, _ => .ok ([], [])
  | t + 1, n =>
    match plscfOrder Nch Nref Nf n hi Om Sy with
    | none => .error "LinAlgError"
    | some out =>
      match plscfLoop Nch Nref Nf hi Om Sy t (n + 1) with
      | .error e => .error e
      | .ok (Ad, Bn) =>
        .ok (reshapeAd Nch n out.alpha :: Ad, moveaxisBn Nch Nref n out.beta :: Bn)

/-- **`plscf.pLSCF(Sy, dt, ordmax, sgn_basf)`**.  `sgn` is `sgn_basf`; `OmOf s f` is what
    `np.exp(s * 1j * omega * dt)[f]` returned.  ONE input decides both the constraint
    (`sgn == -1` → `"LO"`, `sgn == 1` → `"HI"`) and the sign of the basis.  Any other value leaves
    `constr` unbound: the first pass of the loop raises at `if constr == "LO"` — after its
    `np.linalg.solve(Ro, So)` calls (`Nch ≥ 1` assumed: `reshape((-1, 0, 0))` is not modelled). -/
def plscfAll (Nch Nref Nf ordmax : Nat) (sgn : Int) (OmOf : Int → Nat → Cx K)
    (Sy : Nat → Nat → Nat → Cx K) : Except String (List (Coefs K) × List (Coefs K)) :=
  if sgn = -1 ∨ sgn = 1 then
    plscfLoop Nch Nref Nf (decide (sgn = 1)) (OmOf sgn) Sy ordmax 1
  else if ordmax = 0 then .ok ([], [])
  else
    let Ra := memoArr 2 2 (Ro Nf (OmOf sgn))
    let Sa := Array.ofFn (n := Nref) fun o => memoArr 2 (2 * Nch) (So Nch Nf (OmOf sgn) (Sy o.1))
    match solveEach 2 (2 * Nch) (rd Ra) (fun o => rd (Sa[o]!)) Nref with
    | none => .error "LinAlgError"
    | some _ => .error "UnboundLocalError"

/-- the loop of `pLSCF_poles` from list position `ii` on: `rmfd2ac`, `ac2mp_poly` (+ `inf → nan`,
    folded into `fnCell`) on the `ii`-th recorded eigen-decomposition -/
def polesLoop [LT K] [DecidableLT K] (sqrt : K → K) (twoPi invdt : K) (cor : Bool) (invTau : K)
    (Bn : List (Coefs K)) (eigs : List (List (EigIn K))) :
    List (Coefs K) → Nat → Except String (List (Mat K × Column K))
  | [], _ => .ok []
  | A_den :: rest, ii =>
    match Bn[ii]? with
    | none => .error "IndexError"                           -- B_num = Bn[ii]
    | some B_num =>
      match rmfd2ac A_den B_num with
      | none => .error "LinAlgError"
      | some (A, C) =>
        match polesLoop sqrt twoPi invdt cor invTau Bn eigs rest (ii + 1) with
        | .error e => .error e
        | .ok cols => .ok ((A, ac2mpPoly sqrt twoPi invdt cor invTau C (eigs.getD ii [])) :: cols)

/-- **`plscf.pLSCF_poles(Ad, Bn, dt, methodSy, nxseg)`**: the four tables and the arguments of the
    successive `np.linalg.eig` calls.  `eigs[ii]` is the record of the `ii`-th call. -/
def plscfPoles [LT K] [DecidableLT K] (sqrt : K → K) (twoPi invdt : K) (cor : Bool) (invTau : K)
    (Ad Bn : List (Coefs K)) (eigs : List (List (EigIn K))) :
    Except String (Tables K × List (Mat K)) :=
  match polesLoop sqrt twoPi invdt cor invTau Bn eigs Ad 0 with
  | .error e => .error e
  | .ok cols =>
    if cols.isEmpty then .error "AxisError"                  -- np.moveaxis of a 1-D empty array
    else
      match padTables (cols.map (·.2)) with
      | .error e => .error e
      | .ok T => .ok (T, cols.map (·.1))

end run

/-- a padded 2-D table as the `Mat` the stabilisation / extraction models read; numpy's shape of
    `np.array(rows)` for `rows ≠ []` -/
def tblMat {α : Type} (t : List (List (Option α))) : Mat (Option α) :=
  ⟨t.length, (t.headD []).length, fun r c => ((t.getD r []).getD c none)⟩

/-- the mode-shape table (`Nch` components per cell) as a `Ten3` -/
def phiTen3 (Nch : Nat) (t : List (List (Option (List (Cx Rat))))) : Ten3 (Option CQ) :=
  ⟨t.length, (t.headD []).length, Nch, fun r c k =>
    (((t.getD r []).getD c none).bind fun v => v[k]?).map fun z => (z.re, z.im)⟩

end Plscf
end PV
