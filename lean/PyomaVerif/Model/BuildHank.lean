import PyomaVerif.Model.Hankel
import PyomaVerif.Model.Unc
/-!
# `ssi.build_hank` as ONE function (ssi.py:24-163)

`Model/Hankel.lean` has the three layouts with the scale factors as PARAMETERS (`s`, `w`) and for records
long enough that no slice is clipped; `Model/Unc.lean` has the uncertainty branch (`covFactor`).  This file is
the function itself, statement by statement: `N = Ndat - p - q` as a Python `int` (it can be 0 or negative),
the guard on `calc_unc`, the dispatch on the `method` string, the three branches with the weights the code
computes (`1/N**0.5` in each stacked factor, `1/(Ndat-k)` per lag), Python slice semantics for the stacked
blocks (negative stops count from the end, everything is clipped), and every exception the code raises on
its way: both `AttributeError`s, `ZeroDivisionError` (`1/N**0.5` at `N = 0`, `1/(Ndat-k)` at `k = Ndat`,
`N // nb` at `nb = 0`), `ValueError` (`np.vstack` of blocks of different widths: records with
`p+2 ≤ Ndat ≤ 2p`), `UFuncTypeError` (`Hcov += <complex>`: `calc_unc` on a record with `N < 0`).

Three things are passed in because they are not rational arithmetic:
* `rs n` — the value of `1 / n**0.5` (for `n < 0` Python returns a COMPLEX number; `Props/C12Build` states
  the theorems under the contract `rs N * rs N = 1/N`, which `1/(i√|N|)` satisfies too);
* `sT` — the value of `1/np.sqrt(nb*(nb-1))` (as in `covFactor`);
* `qr` — `np.linalg.qr(·, mode="r")` (the driver passes the recorded output).

Domain of the model: `Yref.shape[1] = Y.shape[1]` (the callers pass `Yref = Y[ref_ind, :]`), `nb ≥ 0`.
-/
namespace PV
open Mat Unc

variable {K : Type}

/-- exceptions of `build_hank` -/
inductive HankErr where
  /-- ssi.py:77-80 `AttributeError("Uncertainty calculations are only available for 'cov_mm' method")` -/
  | attrUnc
  /-- ssi.py:159-163 `AttributeError(f'{method} is not a valid argument…')` -/
  | attrMethod
  /-- `ZeroDivisionError` -/
  | zeroDiv
  /-- `ValueError` of `np.vstack` / `np.dot` (shape mismatch) -/
  | valueErr
  /-- numpy `UFuncTypeError` (a `TypeError`): in-place add of a complex array to a float array -/
  | typeErr
  deriving DecidableEq, Repr

/-- the `calc_unc` argument as the code reads it: the guard uses its truth value (`calc_unc and …`), the
    branch uses identity (`calc_unc is True`); `truthy` is any true value other than `True` (e.g. `1`). -/
inductive UncFlag where
  | off | on | truthy
  deriving DecidableEq, Repr

/-- second component of the returned tuple: `None`, an array with no finite entry, or the factor `T` -/
inductive UncOut (K : Type) where
  | none
  | nonFinite
  | factor (T : Mat K)

/-- what `build_hank` returns: `Hank`, whether its dtype is complex (`N < 0`), and `T` -/
structure HankOut (K : Type) where
  hank : Mat K
  cplx : Bool
  T : UncOut K

/-- Python index normalisation of a slice bound on an axis of length `n`: negative bounds count from the
    end, then everything is clipped to `[0, n]`. -/
def pySliceIdx (n : Nat) (i : Int) : Nat := if i < 0 then ((n : Int) + i).toNat else min i.toNat n

/-- numpy `M[:, a:b]` for Python ints `a`, `b` of either sign (empty if the normalised stop is not after
    the normalised start). -/
def colSlicePy (m : Mat K) (a b : Int) : Mat K :=
  ⟨m.r, pySliceIdx m.c b - pySliceIdx m.c a, fun i j => m.e i (pySliceIdx m.c a + j)⟩

/-- `np.vstack([blk i for i in range(n)])`, every block with `h` rows: `ValueError` unless all blocks have
    the same number of columns. -/
def vstackChk (n h : Nat) (blk : Nat → Mat K) : Except HankErr (Mat K) :=
  if (List.range n).all (fun i => (blk i).c == (blk 0).c) then .ok (vstackN n h (blk 0).c blk)
  else .error .valueErr

/-- `np.vstack((Yp, Yf))` -/
def stackYs (Yp Yf : Mat K) : Mat K :=
  ⟨Yp.r + Yf.r, Yp.c, fun i j => if i < Yp.r then Yp.e i j else Yf.e (i - Yp.r) j⟩

/-- the two stacked data matrices of the `cov_mm` and `dat` branches (same two statements in both):
    `Yf = np.vstack([(1 / N**0.5) * Y[:, q + 1 + i : N + q + i] for i in range(p + 1)])`,
    `Yp = np.vstack([(1 / N**0.5) * Yref[:, q + i : N + q - 1 + i] for i in range(0, -q, -1)])`
    (block `j` of `Yp` is `i = -j`).  `1 / N**0.5` raises `ZeroDivisionError` at `N = 0` (first block of `Yf`). -/
def hankStacks [Mul K] (rs : Int → K) (Y Yref : Mat K) (p : Nat) : Except HankErr (Mat K × Mat K) :=
  let q : Int := p + 1
  let N : Int := (Y.c : Int) - p - q
  if N = 0 then .error .zeroDiv
  else do
    let Yf ← vstackChk (p + 1) Y.r (fun i => scale (rs N) (colSlicePy Y (q + 1 + i) (N + q + i)))
    let Yp ← vstackChk (p + 1) Yref.r (fun j => scale (rs N) (colSlicePy Yref (q - j) (N + q - 1 - j)))
    pure (Yf, Yp)

/-- the uncertainty block of the `cov_mm` branch (ssi.py:93-111), after `Hank = np.dot(Yf, Yp.T)`:
    `Nb = N // nb` (`ZeroDivisionError` at `nb = 0`); with `N < 0` the stacks are complex and
    `Hcov += Hcov_k / nb` cannot be cast to the float accumulator; else `covFactor`. -/
def hankUnc [Zero K] [Add K] [Sub K] [Mul K] [Div K] [NatCast K]
    (Yf Yp : Mat K) (N : Int) (nb : Nat) (sT : K) : Except HankErr (UncOut K) :=
  if nb = 0 then .error .zeroDiv
  else if N < 0 then .error .typeErr
  else match covFactor Yf Yp nb N.toNat sT with
    | .zeroDiv => .error .zeroDiv
    | .nonFinite => .ok .nonFinite
    | .ok T => .ok (.factor T)

/-- **`ssi.build_hank(Y, Yref, br, method, calc_unc, nb)`.** -/
def buildHank [Zero K] [Add K] [Sub K] [Mul K] [Div K] [NatCast K]
    (rs : Int → K) (sT : K) (qr : Mat K → Mat K)
    (Y Yref : Mat K) (br : Nat) (method : String) (calcUnc : UncFlag) (nb : Nat) :
    Except HankErr (HankOut K) :=
  let Ndat := Y.c
  let p := br
  let q := p + 1
  let N : Int := (Ndat : Int) - p - q
  -- if calc_unc and method != "cov_mm": raise AttributeError
  if calcUnc ≠ .off ∧ method ≠ "cov_mm" then .error .attrUnc
  else if method = "cov_mm" then do
    let (Yf, Yp) ← hankStacks rs Y Yref p
    -- Hank = np.dot(Yf, Yp.T)
    if Yf.c ≠ Yp.c then .error .valueErr
    else
      let Hank := mulT Yf Yp
      -- if calc_unc is True:
      if calcUnc = .on then do
        let T ← hankUnc Yf Yp N nb sT
        pure ⟨Hank, decide (N < 0), T⟩
      else pure ⟨Hank, decide (N < 0), .none⟩
  else if method = "cov_R" then
    -- Ri = [1 / (Ndat - k) * np.dot(Y[:, : Ndat - k], Yref[:, k:].T) for k in trange(p + q)]:
    -- the first `k` with `Ndat - k = 0` raises (for `k < Ndat` both slices have `Ndat - k` columns)
    if (List.range (p + q)).any (fun k => Ndat - k == 0) then .error .zeroDiv
    else pure ⟨hankR Y Yref p (fun k => ((1 : Nat) : K) / ((Ndat - k : Nat) : K)), false, .none⟩
  else if method = "dat" then do
    let (Yf, Yp) ← hankStacks rs Y Yref p
    -- Ys = np.vstack((Yp, Yf))
    if Yp.c ≠ Yf.c then .error .valueErr
    else
      -- R21 = np.linalg.qr(Ys.T, mode="r").T ; Hank = R21[n_ref*(p+1):, :n_ref*(p+1)]
      pure ⟨hankDat (qr (transpose (stackYs Yp Yf))) Yref.r p, decide (N < 0), .none⟩
  else .error .attrMethod

/-- the matrix the `dat` branch hands to `np.linalg.qr` (`Ys.T`), when the branch gets that far -/
def buildHankQrArg [Mul K] (rs : Int → K) (Y Yref : Mat K) (br : Nat) : Except HankErr (Mat K) := do
  let (Yf, Yp) ← hankStacks rs Y Yref br
  if Yp.c ≠ Yf.c then .error .valueErr else pure (transpose (stackYs Yp Yf))

end PV
