import PyomaVerif.Model.Multi
import PyomaVerif.Model.PreGER
import PyomaVerif.Model.Hankel
/-!
# The reference/roving split at record level, and its hand-over to the identification routines

`Model/Multi.lean` (`preSplit`) and `Model/Prep.lean` (`preMultisetup`) model the INDEX side of
`gen.pre_multisetup`.  Here is the data side, statement by statement:

* `gatherT`, `splitOne`, `preMultisetupRec` — `gen.pre_multisetup(dataList, reflist)`: the loop over the
  setups, `ref = y[:, ref_id]`, `mov = y[:, mov_id]`, `np.array(ref).T.reshape(n_ref, -1)`; datasets are
  samples × channels, the result records are channels × samples.
* `ssiMsHead`, `ssiMsHankArgs`, `ssiMsHankMM` — the head of `ssi.SSI_multi_setup` (`n_ref = Y[0]["ref"].shape[0]`,
  `n_mov`, `n_DOF`) and the two arrays pass `kk` hands to `build_hank`: `Y_all = np.vstack((Y[kk]["ref"],
  Y[kk]["mov"]))`, `Y_ref = Y[kk]["ref"]`.
* `setupFn`, `sdCallsOf` — the list of per-setup records as `fdd.SD_PreGER`'s model (`Model/PreGER.lean`) takes it,
  and every `SD_est` call of `SD_PreGER` on a split (`callArgs`: `Y_all = vstack(ref, mov)`, `Y_ref`, `Y_mov`).

Core Lean only.  Reference indices are naturals (a negative index makes `list.remove` raise `ValueError`,
like an index that is not a channel).
-/
namespace PV.MsGather
open PV PV.Multi

variable {K : Type}

/-- `np.array(y[:, ids]).T.reshape(len(ids), -1)` for a samples × channels array `y`:
    row `a` is channel `ids[a]`, column `t` is sample `t` (the reshape of the `(len(ids), N)` array to
    `(len(ids), -1)` moves nothing; where it raises is in `splitOne`). -/
def gatherT (y : Mat K) (ids : List Nat) : Mat K :=
  ⟨ids.length, y.r, fun a t => y.e t (ids.getD a 0)⟩

/-- one pass of the loop of `gen.pre_multisetup`. -/
def splitOne (y : Mat K) (refId : List Nat) : Except String (Setup K) :=
  let n_ref := refId.length
  let n_sens := y.c
  -- mov_id = list(range(n_sens)); for ii in range(n_ref): mov_id.remove(ref_id[ii])
  match preSplit n_sens refId with
  | none => .error "ValueError: list.remove(x): x not in list"
  | some (ref_id, mov_id) =>
    -- `.reshape(0, -1)` of an array without elements raises (no reference, or no roving channel)
    if n_ref = 0 ∨ n_sens - n_ref = 0 then .error "ValueError: cannot reshape array of size 0" else
    .ok ⟨gatherT y ref_id, gatherT y mov_id⟩

/-- `gen.pre_multisetup(dataList, reflist)`: `for i in range(len(dataList))`, `reflist[i]` raising
    `IndexError` when the list of reference lists is shorter; surplus reference lists are never read. -/
def preMultisetupRec : List (Mat K) → List (List Nat) → Except String (List (Setup K))
  | [], _ => .ok []
  | _ :: _, [] => .error "IndexError: list index out of range"
  | y :: ys, r :: rs =>
    match splitOne y r with
    | .error e => .error e
    | .ok s =>
      match preMultisetupRec ys rs with
      | .error e => .error e
      | .ok rest => .ok (s :: rest)

/-- `n_setup`, `n_ref`, `n_mov`, `n_DOF` of `ssi.SSI_multi_setup`. -/
structure MsHead where
  n_setup : Nat
  n_ref : Nat
  n_mov : List Nat
  n_DOF : Nat
  deriving DecidableEq, Repr

/-- the head of `ssi.SSI_multi_setup(Y, …)`: `none` where `Y[0]` raises `IndexError`. -/
def ssiMsHead (Y : List (Setup K)) : Option MsHead :=
  match Y with
  | [] => none
  | y0 :: _ =>
    let n_setup := Y.length
    let n_ref := y0.ref.r                       -- Y[0]["ref"].shape[0]
    let n_mov := Y.map fun y => y.mov.r         -- [Y[i]["mov"].shape[0] for i in range(n_setup)]
    let n_DOF := n_ref + n_mov.sum
    some ⟨n_setup, n_ref, n_mov, n_DOF⟩

/-- pass `kk` of the setup loop of `ssi.SSI_multi_setup`: `(Y_all, Y_ref)` as handed to `build_hank`
    (`Y_ref = Y[kk]["ref"]`, `Y_all = np.vstack((Y[kk]["ref"], Y[kk]["mov"]))`); `none` where `vstack` raises
    (different sample counts) or `kk` is not a setup. -/
def ssiMsHankArgs (Y : List (Setup K)) (kk : Nat) : Option (Mat K × Mat K) :=
  match Y[kk]? with
  | none => none
  | some y =>
    let Y_ref := y.ref
    if y.ref.c ≠ y.mov.c then none else
    let Y_all := Mat.vstack2 y.ref y.mov
    some (Y_all, Y_ref)

/-- `build_hank(Y_all, Y_ref, br, method="cov_mm")[0]` of pass `kk` (`s` the factor `1/√N` of the code). -/
def ssiMsHankMM [Zero K] [Add K] [Mul K] (Y : List (Setup K)) (kk br : Nat) (s : K) : Option (Mat K) :=
  (ssiMsHankArgs Y kk).map fun a => hankMM a.1 a.2 br s

/-- the list of per-setup records as the function `Model/PreGER.lean` works with (`Y[i]`; `d` stands for the
    indices past the last setup, which `SD_PreGER` never reads). -/
def setupFn (d : Setup K) (Y : List (Setup K)) : Nat → Setup K := fun i => Y.getD i d

/-- every `SD_est` call of `fdd.SD_PreGER(Y, fs, nxseg, pov, method)` on the split `Y`, in order:
    `(args, Y_all, Y_ref)` then `(args, Y_all, Y_mov)` per setup, `Y_all = np.vstack((Y[ii]["ref"], Y[ii]["mov"]))`. -/
def sdCallsOf {T : Type} [One T] [Div T] (d : Setup K) (Y : List (Setup K)) (fs : T) (nxseg : Nat) (pov : T)
    (method : SdMethod) : List (SdArgs T × Mat K × Mat K) :=
  sdPreGERcalls fs nxseg pov method Y.length (setupFn d Y)

end PV.MsGather
