import PyomaVerif.Model.Orch
/-!
# Orchestration model, extended alphabet (C15 cl. 4/6)

Core Lean only.  `Model/Orch.lean` has `add` (always a *fresh* instance), `run_by_name`, `run_all`, `mpe`,
preprocessing and rollback.  Three things a user does with the very same API were outside it:

* `setup.add_algorithms(setup[n])` — adding **the same object again** (the idiom for re-binding an algorithm to the
  setup's data after `decimate_data`): `setup/base.py` `add_algorithms` calls `alg._set_data(data=self.data,
  fs=self.fs)` on whatever it is handed and puts it under `alg.name`; class, `run_params` and — this is the point —
  `result` stay what they are;
* `setup[n].set_run_params(p)` — `algorithms/base.py`: `self.run_params = run_params` (any value, also `None`);
* `setup.mpe_from_plot(n, …)` — `setup/base.py`: `self[name].mpe_from_plot(*args, **kwargs)`: `KeyError` from
  `__getitem__`, then the class's method: guard (`if not self.result: raise ValueError`), stores into
  `self.run_params` (`AttributeError` when that is `None`), the dialog `SelFromPlot(algo=self, …)` — uninterpreted,
  it only reads the instance —, the extraction, the stores into `self.result`.

`OpX` wraps the old alphabet (`.base`) and adds the three; `stepX` delegates old letters to `step`.
-/
namespace PV.Orch

/-- `Sem` plus the uninterpreted parts of `mpe_from_plot`:
    * `plotParams c p a` — `run_params` after the stores of `c.mpe_from_plot(**a)` (FDD: `DF`; EFDD/FSDD: `DF1 … npmax`;
      SSI/pLSCF: `rtol`; never `sel_freq`)
    * `plotRes c p b r a` — `result` after the dialog returned and the extraction was stored (reads the freshly stored
      parameters, the previous result and, for EFDD, `self.dt`); the user's clicks are part of `a`
    * `plotGuarded c` — does `c.mpe_from_plot` test `self.result` before it stores anything?  (every class on the
      repaired tree; `EFDD`/`FSDD`/`EFDD_MS` not on the pinned one) -/
structure SemX (C P D R A Q : Type) extends Sem C P D R A Q where
  plotParams : C → P → A → P
  plotRes : C → P → Bound D → R → A → R
  plotGuarded : C → Bool

inductive OpX (C P A Q : Type) where
  /-- a call of the old alphabet -/
  | base (op : Op C P A Q)
  /-- `setup.add_algorithms(setup[n])`: the object that is already there, once more -/
  | readd (n : String)
  /-- `setup[n].set_run_params(p)` (`p = none`: `None`) -/
  | setParams (n : String) (p : Option P)
  /-- `setup.mpe_from_plot(n, **a)` -/
  | mpeFromPlot (n : String) (a : A)
  deriving DecidableEq, Repr

variable {C P D R A Q : Type}

/-- `alg._set_data(data=self.data, fs=self.fs)` on an existing instance: `data`, `fs`, `dt` are overwritten,
    nothing else is touched. -/
def rebind (d : D) (e : Entry C P D R) : Entry C P D R := { e with bound := .set d }

/-- `alg.mpe_from_plot(**a)` on one instance: outcome and the instance afterwards. -/
def plotEntry (sx : SemX C P D R A Q) (e : Entry C P D R) (a : A) : Outcome × Entry C P D R :=
  if sx.plotGuarded e.cls then
    -- `super().mpe_from_plot(...)` / EFDD's own test: `if not self.result: raise ValueError(...)`
    match e.result with
    | none => (.raised .valueError, e)
    | some r =>
      match e.params with
      | none => (.raised .attributeError, e)      -- `self.run_params.DF = …` on `None`
      | some p =>
        let p' := sx.plotParams e.cls p a
        (.ok, { e with params := some p', result := some (sx.plotRes e.cls p' e.bound r a) })
  else
    -- `EFDD.mpe_from_plot` as coded on the pinned tree: the stores come first
    match e.params with
    | none => (.raised .attributeError, e)
    | some p =>
      let p' := sx.plotParams e.cls p a
      match e.result with
      | none => (.raised .attributeError, { e with params := some p' })   -- the dialog reads `algo.result.freq`
      | some r => (.ok, { e with params := some p', result := some (sx.plotRes e.cls p' e.bound r a) })

def stepX (sx : SemX C P D R A Q) (op : OpX C P A Q) (s : State C P D R) : Outcome × State C P D R :=
  match op with
  | .base o => step sx.toSem o s
  | .readd n =>
    match get n s.algs with
    | none => (.raised .keyError, s)               -- `setup[n]`
    | some e => (.ok, { s with algs := dictSet n (rebind s.data e) s.algs })
  | .setParams n p =>
    match get n s.algs with
    | none => (.raised .keyError, s)               -- `setup[n]`
    | some e => (.ok, { s with algs := dictSet n { e with params := p } s.algs })
  | .mpeFromPlot n a =>
    match get n s.algs with
    | none => (.raised .keyError, s)               -- `self[name]`
    | some e => ((plotEntry sx e a).1, { s with algs := dictSet n (plotEntry sx e a).2 s.algs })

def execX (sx : SemX C P D R A Q) : List (OpX C P A Q) → State C P D R → State C P D R
  | [], s => s
  | op :: t, s => execX sx t (stepX sx op s).2

def traceX (sx : SemX C P D R A Q) : List (OpX C P A Q) → State C P D R → List (Outcome × State C P D R)
  | [], _ => []
  | op :: t, s => stepX sx op s :: traceX sx t (stepX sx op s).2

end PV.Orch
