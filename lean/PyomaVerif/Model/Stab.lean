import PyomaVerif.Model.NanTable
/-!
# `gen.SC_apply` — stability labels between consecutive orders (core Lean only)

Mirrors `src/pyoma2/functions/gen.py::SC_apply` statement by statement, and the
`gen.MAC` call on two one-dimensional shapes inside it.
-/
namespace PV

/-- complex product `conj(a)·b` on rational pairs. -/
def cqConjMul (a b : CQ) : CQ := (a.1 * b.1 + a.2 * b.2, a.1 * b.2 - a.2 * b.1)

/-- NaN-propagating complex addition. -/
def nanCAdd : Option CQ → Option CQ → Option CQ
  | some a, some b => some (a.1 + b.1, a.2 + b.2)
  | _, _ => none

def nanCConjMul : Option CQ → Option CQ → Option CQ
  | some a, some b => some (cqConjMul a b)
  | _, _ => none

/-- `np.conj(x) @ y` for vectors of length `d`; any NaN component makes the result NaN. -/
def scDotH (d : Nat) (x y : Nat → Option CQ) : Option CQ :=
  (List.range d).foldl (fun acc k => nanCAdd acc (nanCConjMul (x k) (y k))) (some (0, 0))

/-- `gen.MAC(x, y)` for two 1-D shapes: `|xᴴy|² / ((xᴴx)(yᴴy))`, real part.
    `xᴴx` and `yᴴy` are real (their imaginary parts are sums of `ab − ba`), so the
    complex quotient reduces to the real one.  A zero shape gives `0/0` = NaN. -/
def scMac (d : Nat) (x y : Nat → Option CQ) : NR :=
  match scDotH d x y, scDotH d x x, scDotH d y y with
  | some xy, some xx, some yy =>
    if xx.1 * yy.1 = 0 then none else some ((xy.1 * xy.1 + xy.2 * xy.2) / (xx.1 * yy.1))
  | _, _, _ => none

/-- body of the `try:` block for row `i` at column `o` (value written to `Lab[i, o]`;
    an exception — all-NaN previous order or NaN query — leaves the initial `0`). -/
def scCell (Fn Xi : Mat NR) (Phi : Ten3 (Option CQ)) (eF eX eP : Rat) (o i : Nat) : Nat :=
  -- idx = np.nanargmin(np.abs(f_n1 - f_n[i]))
  match nanargminAbs (fun j => Fn.e j (o - 1)) Fn.r (Fn.e i o) with
  | none => 0
  | some idx =>
    -- cond1 = np.abs(f_n[i] - f_n1[idx]) / f_n[i]
    let cond1 := nanDivPos (nanAbs (nanSub (Fn.e i o) (Fn.e idx (o - 1)))) (Fn.e i o)
    -- cond2 = np.abs(xi_n[i] - xi_n1[idx]) / xi_n[i]
    let cond2 := nanDivPos (nanAbs (nanSub (Xi.e i o) (Xi.e idx (o - 1)))) (Xi.e i o)
    -- cond3 = 1 - MAC(phi_n[i, :], phi_n1[idx, :])
    let cond3 := nanSub (some 1) (scMac Phi.d (Phi.e i o) (Phi.e idx (o - 1)))
    if nanLt cond1 eF && nanLt cond2 eX && nanLt cond3 eP then 1 else 0

/-- `Lab[i, o] = v`. -/
def setLab (Lab : Mat Nat) (i o v : Nat) : Mat Nat :=
  ⟨Lab.r, Lab.c, fun i' o' => if i' = i ∧ o' = o then v else Lab.e i' o'⟩

/-- `for i in range(len(f_n)): …` at column `o`. -/
def scRows (Fn Xi : Mat NR) (Phi : Ten3 (Option CQ)) (eF eX eP : Rat) (o : Nat) (Lab : Mat Nat) : Mat Nat :=
  (List.range Fn.r).foldl (fun L i => setLab L i o (scCell Fn Xi Phi eF eX eP o i)) Lab

/-- one pass of `for oo in range(ordmin, ordmax + 1, step)`. -/
def scStep (Fn Xi : Mat NR) (Phi : Ten3 (Option CQ)) (step : Nat) (eF eX eP : Rat)
    (Lab : Mat Nat) (oo : Nat) : Except String (Mat Nat) :=
  let o := oo / step                       -- o = int(oo / step)
  if Fn.c ≤ o then throw "IndexError"      -- Fn[:, o]
  else if o = 0 then pure Lab              -- if o == 0: continue
  else pure (scRows Fn Xi Phi eF eX eP o Lab)

/-- `list(range(ordmin, ordmax + 1, step))` for `step ≥ 1`. -/
def scOrders (ordmin ordmax step : Nat) : List Nat :=
  (List.range ((ordmax + 1 - ordmin + step - 1) / step)).map (fun k => ordmin + k * step)

def scLoop (Fn Xi : Mat NR) (Phi : Ten3 (Option CQ)) (step : Nat) (eF eX eP : Rat) :
    List Nat → Mat Nat → Except String (Mat Nat)
  | [], Lab => pure Lab
  | oo :: rest, Lab =>
    match scStep Fn Xi Phi step eF eX eP Lab oo with
    | .error e => .error e
    | .ok Lab' => scLoop Fn Xi Phi step eF eX eP rest Lab'

/-- `gen.SC_apply(Fn, Xi, Phi, ordmin, ordmax, step, err_fn, err_xi, err_phi)`;
    `Xi`, `Phi` have the shape of `Fn` (their first two axes). -/
def scApply (Fn Xi : Mat NR) (Phi : Ten3 (Option CQ)) (ordmin ordmax step : Nat) (eF eX eP : Rat) :
    Except String (Mat Nat) :=
  if step = 0 then throw "ValueError"      -- range() arg 3 must not be zero
  else scLoop Fn Xi Phi step eF eX eP (scOrders ordmin ordmax step) ⟨Fn.r, Fn.c, fun _ _ => 0⟩

end PV
