/-!
# Core of the executable model (core Lean only — no Mathlib)

Everything in `Model/` is polymorphic in the scalar type through the core arithmetic
classes, so that the *same* definitions run exactly over `Rat` in the driver and are
the subject of the theorems over a Mathlib `Field`.
-/
namespace PV

/-- `Σ_{i<n} f i` as a left fold over `List.range` (numpy `sum`/`dot` inner loop). -/
def sumTo {K : Type} [Zero K] [Add K] (n : Nat) (f : Nat → K) : K :=
  (List.range n).foldl (fun acc i => acc + f i) 0

/-- A matrix is its shape and an entry function; entries outside the shape are
    never read by the model functions (theorems state `i < r`, `j < c`). -/
structure Mat (K : Type) where
  r : Nat
  c : Nat
  e : Nat → Nat → K

namespace Mat
variable {K : Type}

/-- numpy `M[:, a:b]` (for `a ≤ b ≤ c`). -/
def colSlice (m : Mat K) (a b : Nat) : Mat K := ⟨m.r, b - a, fun i j => m.e i (a + j)⟩
/-- numpy `M[a:b, :]`. -/
def rowSlice (m : Mat K) (a b : Nat) : Mat K := ⟨b - a, m.c, fun i j => m.e (a + i) j⟩
/-- `np.vstack` of `n` blocks, each with `h` rows and `c` columns. -/
def vstackN (n h c : Nat) (blk : Nat → Mat K) : Mat K :=
  ⟨n * h, c, fun i j => (blk (i / h)).e (i % h) j⟩
/-- `np.hstack` of `n` blocks, each with `r` rows and `w` columns. -/
def hstackN (n r w : Nat) (blk : Nat → Mat K) : Mat K :=
  ⟨r, n * w, fun i j => (blk (j / w)).e i (j % w)⟩
def scale [Mul K] (s : K) (m : Mat K) : Mat K := ⟨m.r, m.c, fun i j => s * m.e i j⟩
def transpose (m : Mat K) : Mat K := ⟨m.c, m.r, fun i j => m.e j i⟩
/-- `np.dot(a, b.T)`. -/
def mulT [Zero K] [Add K] [Mul K] (a b : Mat K) : Mat K :=
  ⟨a.r, b.r, fun i j => sumTo a.c (fun t => a.e i t * b.e j t)⟩
/-- `np.dot(a, b)`. -/
def mul [Zero K] [Add K] [Mul K] (a b : Mat K) : Mat K :=
  ⟨a.r, b.c, fun i j => sumTo a.c (fun t => a.e i t * b.e t j)⟩
def add [Add K] (a b : Mat K) : Mat K := ⟨a.r, a.c, fun i j => a.e i j + b.e i j⟩
def sub [Sub K] (a b : Mat K) : Mat K := ⟨a.r, a.c, fun i j => a.e i j - b.e i j⟩

/-- Materialise into an array (speed only; `force_e` shows it is the identity in range). -/
def force [Inhabited K] (m : Mat K) : Mat K :=
  let data : Array (Array K) := Array.ofFn (n := m.r) fun i => Array.ofFn (n := m.c) fun j => m.e i.1 j.1
  ⟨m.r, m.c, fun i j => (data[i]!)[j]!⟩

def toLists (m : Mat K) : List (List K) :=
  (List.range m.r).map fun i => (List.range m.c).map fun j => m.e i j

end Mat
end PV
