import PyomaVerif.Model.Mpe
/-!
# `SSI_mpe` / `pLSCF_mpe` on every Python value of `order`, and the shapes of the returned arrays (core Lean only)

`Model/Mpe.lean` takes `order` as a natural column index, a list of them or `"find_min"`. Here the argument is the
Python object itself (`PyOrder`): the dispatch `order == "find_min"` / `isinstance(order, int)` /
`isinstance(order, list)` / `else: raise` is modelled branch by branch, integers index the columns with Python
semantics (`-1` is the last column), and `order_out` echoes the object that was passed.
`ssiShapes` / `plscfShapes` are `np.shape` of the arrays the routines assemble at the end
(`np.array(sel_freq).reshape(-1)`, `np.array(sel_phi).T`, `np.array(sel_xi)`, the covariances).
-/
namespace PV

/-- the Python object passed as `order` -/
inductive PyOrder where
  /-- the string `"find_min"` -/
  | findMin
  /-- a Python `int` (not `bool`) -/
  | int (o : Int)
  /-- `True` / `False`: `isinstance(order, int)` holds, the `int` branch runs with a boolean scalar index -/
  | bool (b : Bool)
  /-- a `list` of Python ints -/
  | list (os : List Int)
  /-- anything else (`None`, `np.int64`, `float`, `tuple`, another `str`): not `"find_min"`, not `int`, not `list` -/
  | other
  deriving Repr

/-- an integer index on an axis of length `n`, Python/numpy semantics (`none`: `IndexError`). -/
def pyIdx (n : Nat) (i : Int) : Option Nat :=
  if 0 ≤ i then (if i < (n : Int) then some i.toNat else none)
  else if -(n : Int) ≤ i then some ((n : Int) + i).toNat else none

/-- the column a Python index stands for; `n` (one past the last column) if it is out of range -/
def resolveCol (n : Nat) (i : Int) : Nat := (pyIdx n i).getD n

/-- `enumerate(freq)` paired with `order[ii]` (a Python `int`, resolved against `c` columns; `none`: the list is
    too short or the index out of range — `IndexError` either way). -/
def listReqsI (c : Nat) (freq : List Rat) (os : List Int) : List (Rat × Option Nat) :=
  (List.range freq.length).filterMap fun ii =>
    match freq[ii]? with
    | some f => some (f, (os[ii]?).bind (pyIdx c))
    | none => none

/-- `np.nanargmin` over the whole table in C order (what `Fn_pol[:, True] - fj` is reduced over). -/
def flatNanargminAbs (Fn : Mat NR) (f : Rat) : Option Nat :=
  nanargminAbs (fun k => Fn.e (k / Fn.c) (k % Fn.c)) (Fn.r * Fn.c) (some f)

/-- marker for the one path that is not modelled (see `boolFirst`) -/
def unmodelledBool : String := "unmodelled: order=True returns a block of rows"

/-- the first pass of the request loop with a `bool` order. `Fn_pol[:, False]` has shape `(rows, 0, cols)`:
    `nanargmin` of an empty sequence → `ValueError`. `Fn_pol[:, True]` has shape `(rows, 1, cols)`: `sel` is a flat
    index into the whole table and then indexes the ROW axis: `IndexError` for `sel ≥ rows`; otherwise row `sel` of
    the table is processed as a `(1, cols)` block — that path is outside this model and is marked as such. -/
def boolFirst (Fn : Mat NR) (f : Rat) (b : Bool) : Except String MpeOut :=
  if !b then throw "ValueError"
  else match flatNanargminAbs Fn f with
    | none => throw "ValueError"
    | some sel => if Fn.r ≤ sel then throw "IndexError" else throw unmodelledBool

/-- `ssi.SSI_mpe` for every Python value of `order`. -/
def ssiMpePy (freq : List Rat) (Fn Xi : Mat NR) (Phi : Ten3 (Option CQ)) (order : PyOrder)
    (Lab : Option (Mat Int)) (rtol : Rat) (cov : Option MpeCov) : Except String MpeOut :=
  match order with
  | .findMin => ssiMpe freq Fn Xi Phi .findMin Lab rtol cov
  | .int o =>                                           -- elif isinstance(order, int):
    match mpeLoop Fn Xi Phi cov (chkOwn rtol) (freq.map fun f => (f, pyIdx Fn.c o)) {} with
    | .error e => .error e
    | .ok acc => if freq.isEmpty then throw "UnboundLocalError" else pure ⟨acc, .int o⟩
  | .bool b =>                                          -- isinstance(True, int)
    match freq with
    | [] => throw "UnboundLocalError"
    | f :: _ => boolFirst Fn f b
  | .list os =>                                         -- elif isinstance(order, list):
    match mpeLoop Fn Xi Phi cov (chkOwn rtol) (listReqsI Fn.c freq os) {} with
    | .error e => .error e
    | .ok acc => pure ⟨acc, .arr os⟩                    -- order_out = np.array(order)
  | .other => throw "AttributeError"                    -- else: raise AttributeError(...)

/-- `plscf.pLSCF_mpe` for every Python value of `order`; the dispatch sits INSIDE the request loop, so with an
    empty request list nothing is tested and `order_out = np.empty(0)` is returned. -/
def plscfMpePy (freq : List Rat) (Fn Xi : Mat NR) (Phi : Ten3 (Option CQ)) (order : PyOrder)
    (Lab : Option (Mat Int)) (deltaf rtol : Rat) : Except String MpeOut :=
  match order with
  | .findMin => plscfMpe freq Fn Xi Phi .findMin Lab deltaf rtol
  | .int o =>
    match mpeLoop Fn Xi Phi none (chkOwn rtol) (freq.map fun f => (f, pyIdx Fn.c o)) {} with
    | .error e => .error e
    | .ok acc => pure ⟨acc, if freq.isEmpty then .arr [] else .int o⟩
  | .bool b =>
    match freq with
    | [] => pure ⟨{}, .arr []⟩
    | f :: _ => boolFirst Fn f b
  | .list os =>
    match mpeLoop Fn Xi Phi none (chkOwn rtol) (listReqsI Fn.c freq os) {} with
    | .error e => .error e
    | .ok acc => pure ⟨acc, .arr (os.take freq.length)⟩  -- order_out = np.empty(len(sel_freq)); order_out[ii] = order[ii]
  | .other => if freq.isEmpty then pure ⟨{}, .arr []⟩ else throw "ValueError"

/-- the orders of `Model/Mpe.lean` as Python objects -/
def MpeOrder.toPy : MpeOrder → PyOrder
  | .findMin => .findMin
  | .int o => .int o
  | .list os => .list (os.map Int.ofNat)

/-! ### shapes of the assembled arrays -/

/-- `np.shape(np.array(items))` for a Python list of arrays of one common shape, given as the list of the item
    shapes (`[]` = a scalar); the empty list gives shape `(0,)`. -/
def npArrayShape (items : List (List Nat)) : List Nat :=
  match items with
  | [] => [0]
  | s :: _ => items.length :: s

/-- `.reshape(-1)` -/
def shapeFlat (s : List Nat) : List Nat := [s.foldl (· * ·) 1]

/-- `.T` -/
def shapeT (s : List Nat) : List Nat := s.reverse

/-- `np.shape` of the returned `Fn`, `Xi`, `Phi` and (if returned) `Fn_cov`, `Xi_cov`, `Phi_cov` -/
structure MpeShapes where
  fn : List Nat
  xi : List Nat
  phi : List Nat
  cov : Option (List Nat × List Nat × List Nat)
  deriving DecidableEq, Repr

/-- item shapes of a list of scalars -/
def scalarItems {α} (l : List α) : List (List Nat) := l.map fun _ => []

/-- item shapes of a list of vectors -/
def vectorItems {α} (l : List (List α)) : List (List Nat) := l.map fun v => [v.length]

/-- the Python list `sel_freq` when `SSI_mpe` leaves its branches, as item shapes: the `find_min` branch appends
    ONE array (`sel_freq.append(unique_poles)`) when an order qualifies and nothing otherwise; the `int`/`list`
    branches append one scalar per returned mode. -/
def ssiSelFreqItems (order : PyOrder) (out : MpeOut) : List (List Nat) :=
  match order, out.orderOut with
  | .findMin, .int _ => [[out.acc.fn.length]]
  | .findMin, _ => []
  | _, _ => scalarItems out.acc.fn

/-- `Fn = np.array(sel_freq).reshape(-1)`, `Phi = np.array(sel_phi).T`, `Xi = np.array(sel_xi)` and,
    `if Fn_cov is not None`, `np.array(sel_freq_cov).reshape(-1)`, `np.array(sel_xi_cov)`, `np.array(sel_phi_cov).T`.
    `flat = false` is the routine without the two `.reshape(-1)` (see `Mutants/C11Py.lean`). -/
def ssiShapesWith (flat : Bool) (order : PyOrder) (covGiven : Bool) (out : MpeOut) : MpeShapes :=
  let fl := fun s => if flat then shapeFlat s else s
  { fn := fl (npArrayShape (ssiSelFreqItems order out))
    xi := npArrayShape (scalarItems out.acc.xi)
    phi := shapeT (npArrayShape (vectorItems out.acc.phi))
    cov := if covGiven then
        some (fl (npArrayShape (scalarItems out.acc.fnCov)), npArrayShape (scalarItems out.acc.xiCov),
              shapeT (npArrayShape (vectorItems out.acc.phiCov)))
      else none }

/-- shapes of what `ssi.SSI_mpe` returns -/
def ssiShapes (order : PyOrder) (covGiven : Bool) (out : MpeOut) : MpeShapes := ssiShapesWith true order covGiven out

/-- shapes of what `plscf.pLSCF_mpe` returns: `Fn = np.array(sel_freq1)` (a list of scalars, or in the `find_min`
    branch the 1-D array `fn_at_ord_ii`), `Phi = np.array(sel_phi).T`, `Xi = np.array(sel_xi)`. -/
def plscfShapes (out : MpeOut) : MpeShapes :=
  { fn := npArrayShape (scalarItems out.acc.fn)
    xi := npArrayShape (scalarItems out.acc.xi)
    phi := shapeT (npArrayShape (vectorItems out.acc.phi))
    cov := none }

end PV
