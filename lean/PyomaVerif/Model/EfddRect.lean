import PyomaVerif.Model.EfddAll
/-!
# `fdd.EFDD_mpe` on a RECTANGULAR spectral array `Sy` of shape `(nr, nc, nf)` — core Lean only

`EFDD_MS` / `FSDD` on a multi-setup spectrum hand `EFDD_mpe` the half spectrum of
`SD_PreGER`: all channels × reference channels.  `Model/EfddAll.efddMpe` is the square case
(`svalsvec E nch nch`).  This file mirrors the same statements of `src/pyoma2/functions/fdd.py`
for `nr ≠ nc`, where the shapes of the intermediate arrays differ and three exceptions appear:

* `SD_svalsvec` (fdd.py:222-233): `Sval = np.zeros((nf, nc))`, `S_val = np.empty((nf, nc, nc))`,
  `S_vec = np.empty((nf, nr, nr))`; `np.linalg.svd(SD[:, :, k])` returns `min(nr, nc)` singular
  values, so for `1 < nr < nc` the statement `Sval[k, :] = np.sqrt(S)` raises `ValueError`
  (could not broadcast) at the first line.  (`nr = 1 < nc` broadcasts the single value over the
  whole `nc × nc` block: outside the model; so are `nr = 0`, `nc = 0`.)
* `EFDD_mpe` (fdd.py:489-494): `Nch, Nref, nxseg = Sval.shape` are `(nc, nc, nf)`;
  `FDD_mpe(Sval, Svec, …)` reads `Sval[1, 1]` (needs `nc ≥ 2`) and returns shapes
  `Svec[0, :, idx]` of length `nr`.
* `SDOF_bellandMS` (fdd.py:348-412): `Nch = phi_FDD.shape[0] = nr`; per close mode `csm` and
  line `el` of the band FIRST `MAC(phi_FDD, Svec[csm, :, el])` (`IndexError` for `csm ≥ nr`), and
  only when it exceeds `MAClim`: `"FSDD"`: `np.dot(np.dot(phi.conj().T, Sy[:, :, el]), phi)` =
  `(nc,)·(nr,)` → `ValueError` (shapes not aligned) for `nr ≠ nc`; `"EFDD"`: `Sval[csm, csm, el]`
  → `IndexError` for `csm ≥ nc`.  `SDOFms` (band × `nr`) adds `Svec[csm, :, el]` on the same mask.

Everything after the bell is the tail of `efddOne` on arrays of length `nf`, unchanged.
-/
namespace PV.Efdd
open PV PV.Fdd

section rectsv
variable {K : Type} [Zero K] [Neg K]

/-- `SD_svalsvec(SD)` for `SD` of shape `(nr, nc, nf)` with its exception -/
def svalsvecR (E : Ext K) (nr nc nf : Nat) (SD : Nat → Nat → Nat → Cx K) :
    Except String ((Nat → Nat → Nat → K) × (Nat → Nat → Nat → Cx K)) :=
  if nr = 0 ∨ nc = 0 then .error "outside-model: empty spectral matrix"
  else if nf = 0 then .ok (svalsvec E nr nc nf SD)      -- the loop over the lines is not entered
  else if nr < nc then
    -- `Sval[k, :] = np.sqrt(S)`: `(nr,)` into `(nc,)`
    if nr = 1 then .error "outside-model: a single row is broadcast over the nc x nc block"
    else .error "ValueError: could not broadcast input array"
  else .ok (svalsvec E nr nc nf SD)

end rectsv

section rect
variable {K : Type} [Zero K] [Add K] [Sub K] [Mul K] [Div K] [Neg K] [LT K] [DecidableLT K]
  [NatCast K] [DecidableEq K]

/-- the first exception raised inside pass `csm` of `for csm in range(cm)` of `SDOF_bellandMS`
    (`mask csm l` is `MAC(phi_FDD, Svec[csm, :, l]) > MAClim`, band `[lo, hi)`) -/
def bellGuardAt (m : Method) (nr nc : Nat) (mask : Nat → Nat → Bool) (lo hi csm : Nat) :
    Option String :=
  match m with
  | .FSDD =>
    if lo < hi ∧ nr ≤ csm then some "IndexError: index is out of bounds for axis 0"
    else if nr ≠ nc ∧ (List.range' lo (hi - lo)).any (mask csm) then
      some "ValueError: shapes not aligned"
    else none
  | .EFDD =>
    if lo < hi ∧ nr ≤ csm then some "IndexError: index is out of bounds for axis 0"
    else if nc ≤ csm ∧ (List.range' lo (hi - lo)).any (mask csm) then
      some "IndexError: index is out of bounds for axis 0"
    else none
  | .other => none

/-- the first exception of the loop over the close modes (`none`: the loop completes) -/
def bellGuard (m : Method) (nr nc cm : Nat) (mask : Nat → Nat → Bool) (lo hi : Nat) :
    Option String :=
  (List.range cm).findSome? (bellGuardAt m nr nc mask lo hi)

/-- `SDOFms1[l, i]` of `SDOF_bellandMS` (shape `(nf, nr)`): inside the band the sum over the
    close modes of `Svec[csm, i, l]` where the MAC test passes, zero elsewhere -/
def sdofMs (m : Method) (nr cm nf : Nat) (dt : K) (Svec : Nat → Nat → Nat → Cx K)
    (phi : Nat → Cx K) (sel DF MAClim : K) (l i : Nat) : Cx K :=
  let lo := bandLo nf (bellFreq nf dt) sel DF
  let hi := bandHi nf (bellFreq nf dt) sel DF
  if (m = .FSDD ∨ m = .EFDD) ∧ lo ≤ l ∧ l < hi then
    sumTo cm (fun csm => if maskAt nr phi Svec MAClim csm l then Svec csm i l else 0)
  else 0

/-- the part of one pass of `EFDD_mpe` after `Sval, Svec = SD_svalsvec(Sy)` inside
    `SDOF_bellandMS` returned `sv` and the loop over the close modes completed
    (text of `efddOne`, `nch := nr` = `phi_FDD.shape[0]`) -/
def efddTail (E : Ext K) (m : Method) (ms : SyMethod) (nr cm nf : Nat) (dt : K)
    (Sy : Nat → Nat → Nat → Cx K)
    (sv : (Nat → Nat → Nat → K) × (Nat → Nat → Nat → Cx K))
    (DF2 MAClim : K) (sppk npmax : Nat) (sel : K) (pl : List (Cx K)) :
    Except String (ModeAll K) :=
  let phi : Nat → Cx K := fun i => pl.getD i 0
  let bellF := sdofBell m nr cm nf dt Sy sv.1 sv.2 phi sel DF2 MAClim
  let bellA := memoArr nf bellF
  let bell := memoGet bellA bellF
  let idSV := (List.range nf).filter (fun l => ¬ ((bell l).re = 0 ∧ (bell l).im = 0))
  let corrF := E.ifft nf bell
  let corrA := memoArr (5 * nf) corrF
  let corr := memoGet corrA corrF
  if corr (argmaxTo (5 * nf) corr) = 0 then .error "outside-model: zero correlation"
  else
    let xF := normCorr (5 * nf) corr
    let xA := memoArr (5 * nf / 2) xF
    let x := memoGet xA xF
    match postFft nf x dt sppk npmax with
    | .error e => .error e
    | .ok p =>
      if npmax = 0 then .error "IndexError: arrays used as indices must be of integer (or boolean) type"
      else
        let delta := p.ratios.map E.log
        let s := E.fit npmax (fun k => delta.getD k 0)
        let lam := lamOf ms nf (E.log (((1 : Nat) : K) / ((100 : Nat) : K))) s
        let xi := xiOf E.sqrt E.pi lam
        .ok ⟨p.fd.map (fun fd => fnOf E.sqrt fd xi), xi, pl, idSV, p, delta, lam⟩

/-- one pass of the loop of `EFDD_mpe` on `Sy` of shape `(nr, nc, nf)`;
    `phiL = Phi_FDD[:, n]` (length `nr`; `none` = NaN), `sel = sel_freq[n]` -/
def efddOneR (E : Ext K) (m : Method) (ms : SyMethod) (nr nc cm nf : Nat) (dt : K)
    (Sy : Nat → Nat → Nat → Cx K) (DF2 MAClim : K) (sppk npmax : Nat) (sel : K)
    (phiL : Option (List (Cx K))) : Except String (ModeAll K) :=
  match phiL with
  | none => .error "outside-model: NaN first-stage mode shape"
  | some pl =>
    -- `Sval, Svec = SD_svalsvec(Sy)`: first statement of `SDOF_bellandMS`
    match svalsvecR E nr nc nf Sy with
    | .error e => .error e
    | .ok sv =>
      -- `SDOFms += np.array([…])` with an empty band: shapes (0, nr) and (0,)
      if (m = .FSDD ∨ m = .EFDD) ∧ 0 < cm ∧
          bandHi nf (bellFreq nf dt) sel DF2 ≤ bandLo nf (bellFreq nf dt) sel DF2 then
        .error "ValueError: operands could not be broadcast together"
      else
        match bellGuard m nr nc cm (maskAt nr (fun i => pl.getD i 0) sv.2 MAClim)
            (bandLo nf (bellFreq nf dt) sel DF2) (bandHi nf (bellFreq nf dt) sel DF2) with
        | some e => .error e
        | none => efddTail E m ms nr cm nf dt Sy sv DF2 MAClim sppk npmax sel pl

/-- `EFDD_mpe(Sy, freq, dt, sel_freq, methodSy, method, DF1, DF2, cm, MAClim, sppk, npmax)` for
    `Sy` of shape `(nr, nc, nf)`: the first stage is `FDD_mpe` on the `nc × nc × nf` values and
    the `nr × nr × nf` vectors of the model's own `SD_svalsvec(Sy)` -/
def efddMpeR (E : Ext K) (m : Method) (ms : SyMethod) (nr nc nf : Nat)
    (Sy : Nat → Nat → Nat → Cx K) (freq : Nat → K) (dt : K) (sel : List K) (DF1 DF2 : K) (cm : Nat)
    (MAClim : K) (sppk npmax : Nat) : Except String (List (ModeAll K)) :=
  match svalsvecR E nr nc nf Sy with
  | .error e => .error e
  | .ok sv =>
    match fddMpe nr nc nf freq sv.1 sv.2 sel DF1 with
    | .error e => .error e
    | .ok modes =>
      (List.zip sel modes).mapM
        (fun sm => efddOneR E m ms nr nc cm nf dt Sy DF2 MAClim sppk npmax sm.1 sm.2.phi)

end rect
end PV.Efdd
