/-!
# Structures and queries for the generated table of the SETUP LAYER and the ALGORITHM PROTOCOL (core Lean only)

`harness/translate_setup.py` walks `setup/{base,single,multi}.py` (classes `BaseSetup`, `SingleSetup`,
`MultiSetup_PreGER`) and `algorithms/base.py` (`BaseAlgorithm`) of the tested tree and writes
`Generated/Setup.lean` (namespace `PV.Gen.Setup`): per method, in execution order,

* every assignment to an attribute of `self` (`stores`) with the VALUE it receives, written in terms of the state at
  method entry and the method's parameters: local aliases are substituted, private helpers / `super()._x(...)` static
  helpers of the walked classes are inlined (their return expressions are substituted for the unpacked names), a read of
  `self.x` after a store to `self.x` is replaced by the stored value, a list filled by `append` in a `for` loop reads as the
  comprehension it computes, and the result of any other call is the symbol `<callee>[k]` (`#i` = i-th component);
* every call (`sites`) with the expression each PARAMETER receives (positional arguments resolved through the signature
  when the callee is a method of a walked class or a function of `pyoma2.functions.gen`; `#i` otherwise);
* every `raise` (`raises`) with the branch conditions it sits under;
* per method the attributes of `self` it writes, the objects it modifies in place, its decorators (`methods`);
* per class its bases, the names its body binds and the class-level values (`classes`).

Positions number stores, sites and raises of one method in execution order (helpers inlined in place).
-/
namespace PV.SetupTbl

structure SStore where
  cls : String
  method : String
  pos : Nat
  target : String
  value : String
  cond : List String
  loop : Bool
deriving DecidableEq, Repr

structure SSite where
  cls : String
  method : String
  pos : Nat
  callee : String
  idx : Nat
  bind : List (String × String)
  cond : List String
  loop : Bool
deriving DecidableEq, Repr

structure SRaise where
  cls : String
  method : String
  pos : Nat
  exc : String
  cond : List String
deriving DecidableEq, Repr

structure SMethod where
  cls : String
  name : String
  params : List String
  decorators : List String
  /-- attributes of `self` the body (and the helpers it inlines) assigns, deletes, or modifies in place -/
  writes : List String
  /-- parameters / attributes of `self` / aliases of them that are modified IN PLACE (`x[...] = …`, `x += …`, `x.sort()` …) -/
  inplace : List String
  /-- the expression returned (`""`: no `return` with a value; `"<several>"`: more than one) -/
  ret : String
  /-- an entry point: the name does not start with `_`, or is `__init__` (private helpers are accounted for in the
      `writes` of the methods that call them) -/
  pub : Bool
deriving DecidableEq, Repr

structure SClass where
  name : String
  module : String
  bases : List String
  own : List String
  attrs : List (String × String)
  extras : List String
deriving DecidableEq, Repr

/-- one generated table -/
structure Tbl where
  stores : List SStore
  sites : List SSite
  raises : List SRaise
  methods : List SMethod
  classes : List SClass

namespace Tbl
variable (t : Tbl)

def storesOf (c m : String) : List SStore := t.stores.filter (fun s => s.cls == c && s.method == m)
def sitesOf (c m : String) : List SSite := t.sites.filter (fun s => s.cls == c && s.method == m)
def raisesOf (c m : String) : List SRaise := t.raises.filter (fun s => s.cls == c && s.method == m)
def method (c m : String) : Option SMethod := t.methods.find? (fun k => k.cls == c && k.name == m)
def classInfo (c : String) : Option SClass := t.classes.find? (fun k => k.name == c)

/-- (target, value) of every store of the method, in execution order -/
def storePairs (c m : String) : List (String × String) := (t.storesOf c m).map (fun s => (s.target, s.value))

/-- the method assigns exactly the listed `self` attributes to the listed values — each once, unconditionally, outside
    loops, nothing else (the ORDER of the assignments is immaterial: a tuple assignment is the same stores) -/
def storedExactly (c m : String) (want : List (String × String)) : Bool :=
  let have_ := t.storesOf c m
  have_.length == want.length && have_.all (fun s => s.cond.isEmpty && !s.loop && want.contains (s.target, s.value))
    && want.all ((t.storePairs c m).contains ·)

/-- the value the (single, unconditional) store to `target` receives -/
def stored (c m target : String) : Option String :=
  match (t.storesOf c m).filter (·.target == target) with
  | [s] => if s.cond.isEmpty && !s.loop then some s.value else none
  | _ => none

/-- every store of the method comes after EVERY call and every `raise` of the method (helpers inlined), is
    unconditional and outside loops: once the first attribute is assigned nothing is left that can raise — a call that
    fails has changed no attribute.  The method is present in the table and stores something. -/
def storesAfterAllCalls (c m : String) : Bool :=
  let ss := t.storesOf c m
  (t.method c m).isSome && !ss.isEmpty
    && ss.all (fun s => s.cond.isEmpty && !s.loop
        && (t.sitesOf c m).all (fun k => k.pos < s.pos) && (t.raisesOf c m).all (fun k => k.pos < s.pos))

/-- the sites of the method calling `callee` -/
def calls (c m callee : String) : List SSite := (t.sitesOf c m).filter (·.callee == callee)

/-- the expression parameter `p` receives at the `idx`-th call of `callee` in the method -/
def arg (c m callee p : String) (idx : Nat := 0) : Option String :=
  ((t.calls c m callee).find? (·.idx == idx)).bind (fun s => s.bind.lookup p)

/-- the `idx`-th call of `callee` binds exactly the listed parameters to the listed expressions (spelling — positional or
    keyword, order of keywords — is immaterial) -/
def bindsExactly (c m callee : String) (want : List (String × String)) (idx : Nat := 0) : Bool :=
  match (t.calls c m callee).find? (·.idx == idx) with
  | some s => s.bind.length == want.length && s.bind.all (want.contains ·) && want.all (s.bind.contains ·)
  | none => false

/-- the callees of the method in execution order -/
def callees (c m : String) : List String := (t.sitesOf c m).map (·.callee)

/-- `(condition path, exception class)` of every `raise` of the method, in execution order -/
def raisePairs (c m : String) : List (List String × String) := (t.raisesOf c m).map (fun r => (r.cond, r.exc))

/-- method resolution: the class whose body binds `m` for an instance of `c` — depth first, bases left to right (a stack
    of classes still to visit); a base class outside the table that is reached BEFORE the name is found makes the answer
    `none` (it could bind the name), as do decorated classes / class keywords (`metaclass=`) and a name nobody binds. -/
def resolveStack : Nat → List String → String → Option String
  | 0, _, _ => none
  | _, [], _ => none
  | fuel + 1, c :: rest, m =>
    match t.classInfo c with
    | none => none
    | some k =>
      if !k.extras.isEmpty then none
      else if k.own.contains m then some c
      else resolveStack fuel (k.bases ++ rest) m

def resolve (c m : String) : Option String := t.resolveStack (2 * t.classes.length + 2) [c] m

/-- the entry points (public methods and `__init__`, own or inherited from walked classes) of `c` that write an attribute
    of `self`, directly or through a private helper -/
def writers (c : String) : List String :=
  ((t.methods.filter (fun k => k.pub && !k.writes.isEmpty && t.resolve c k.name == some k.cls)).map (·.name)).eraseDups

end Tbl

def sameSet (a b : List String) : Bool := a.all (b.contains ·) && b.all (a.contains ·)

end PV.SetupTbl
