import PyomaVerif.Model.Basic
/-!
# `functions/plscf.py` — `pLSCF`, `rmfd2ac`, `ac2mp_poly`, `pLSCF_poles` (core Lean only)

Statement-by-statement mirror of the code.  Real matrices are `Mat K`; complex numbers are
pairs `Cx K`; NaN / non-finite cells are `none`.  LAPACK results (`np.linalg.eig`) and
transcendental values (`np.log`, `1/tau`, `2π`, `sqrt`) enter as parameters; linear solves
(`np.linalg.solve`) are modelled by exact Gauss–Jordan elimination whose result is
re-checked (`solveChecked`), so that "the solve returned an exact solution" is a fact about
every value the model returns and not an assumption.
-/
namespace PV
namespace Plscf

variable {K : Type}

/-! ## complex numbers as pairs -/

structure Cx (K : Type) where
  re : K
  im : K
deriving Repr, DecidableEq, Inhabited

namespace Cx
def mul [Add K] [Sub K] [Mul K] (a b : Cx K) : Cx K :=
  ⟨a.re * b.re - a.im * b.im, a.re * b.im + a.im * b.re⟩
def add [Add K] (a b : Cx K) : Cx K := ⟨a.re + b.re, a.im + b.im⟩
def neg [Neg K] (a : Cx K) : Cx K := ⟨-a.re, -a.im⟩
def ofReal [Zero K] (x : K) : Cx K := ⟨x, 0⟩
/-- `|a|²` -/
def normSq [Add K] [Mul K] (a : Cx K) : K := a.re * a.re + a.im * a.im
/-- `Re(conj a · b)` — the entry of `np.real(np.dot(Xh, Y))` contributed by one line. -/
def reConjMul [Add K] [Mul K] (a b : Cx K) : K := a.re * b.re + a.im * b.im
/-- `a / b` (numpy complex division, exact). -/
def div [Add K] [Sub K] [Mul K] [Div K] (a b : Cx K) : Cx K :=
  ⟨(a.re * b.re + a.im * b.im) / normSq b, (a.im * b.re - a.re * b.im) / normSq b⟩
/-- `z ** i` for a natural exponent. -/
def pow [One K] [Zero K] [Add K] [Sub K] [Mul K] (z : Cx K) : Nat → Cx K
  | 0 => ⟨1, 0⟩
  | i + 1 => mul (pow z i) z
end Cx

/-! ## `np.linalg.solve` : exact elimination with a certificate check -/

section solve
variable [Zero K] [One K] [Add K] [Sub K] [Mul K] [Div K] [DecidableEq K] [Inhabited K]

/-- Gauss–Jordan elimination on the augmented rows `[A | B]` (`n` rows, `n + c` columns).
    `none` when a pivot column is entirely zero (numpy raises `LinAlgError: Singular matrix`). -/
def gaussJordan (n c : Nat) (A B : Nat → Nat → K) : Option (Array (Array K)) := Id.run do
  let mut rows : Array (Array K) :=
    Array.ofFn (n := n) fun i => Array.ofFn (n := n + c) fun j =>
      if j.1 < n then A i.1 j.1 else B i.1 (j.1 - n)
  for col in [0:n] do
    -- first row at or below the diagonal with a non-zero entry in this column
    let mut piv : Option Nat := none
    for r in [col:n] do
      if piv.isNone && (rows[r]!)[col]! ≠ 0 then piv := some r
    match piv with
    | none => return none
    | some pr =>
      let rowP := rows[pr]!
      let rowC := rows[col]!
      rows := (rows.set! pr rowC).set! col rowP
      let d := rowP[col]!
      let rowN := rowP.map (· / d)
      rows := rows.set! col rowN
      for r in [0:n] do
        if r ≠ col then
          let f := (rows[r]!)[col]!
          if f ≠ 0 then
            let rr := rows[r]!
            rows := rows.set! r (Array.ofFn (n := n + c) fun j => rr[j.1]! - f * rowN[j.1]!)
  return some rows

/-- the certificate: `A · X = B` on the `n × c` range, checked entry by entry. -/
def checkSolve (n c : Nat) (A B X : Nat → Nat → K) : Bool :=
  (List.range n).all fun i => (List.range c).all fun j =>
    decide (sumTo n (fun t => A i t * X t j) = B i j)

/-- `np.linalg.solve(A, B)` for an `n × n` matrix and `c` right-hand sides: `some X` only
    if `A·X = B` exactly. -/
def solveChecked (n c : Nat) (A B : Nat → Nat → K) : Option (Nat → Nat → K) :=
  match gaussJordan n c A B with
  | none => none
  | some rows =>
    let X : Nat → Nat → K := fun i j => (rows[i]!)[n + j]!
    if checkSolve n c A B X then some X else none

end solve

/-! ## `rmfd2ac` -/

/-- A stack of coefficient matrices (`A_den` : `len × r × c` array). -/
structure Coefs (K : Type) where
  len : Nat
  r : Nat
  c : Nat
  blk : Nat → Nat → Nat → K

/-- The state matrix `A` of `rmfd2ac`, given what the `np.linalg.solve(Ad_last, Adi)` calls
    returned: `prod i` is the result for the `i`-th pair of
    `zip(A_den[:-1][::-1], B_num[:-1][::-1])`, `cnt` the number of pairs.
    ```
    n, l_, m = B_num.shape
    A = np.zeros((n*m, n*m)); A[m:, :-m] = np.eye((n-1)*m)
    A[:m, i*m:(i+1)*m] = -prod        # i = 0 .. cnt-1
    ```
    Here `n = order + 1`: the block column `n-1` is never written and stays zero (F12). -/
def companionA [Zero K] [One K] [Neg K] (n m cnt : Nat) (prod : Nat → Nat → Nat → K) : Mat K :=
  ⟨n * m, n * m, fun i j =>
    if i < m then (if j / m < cnt then - prod (j / m) i (j % m) else 0)
    else if j + m = i then 1 else 0⟩

/-- The output matrix `C` of `rmfd2ac`:
    `C[:, i*m:(i+1)*m] = Bni - np.dot(Bn_last, prod)`, `Bni = B_num[:-1][::-1][i] = B_num[n-2-i]`. -/
def companionC [Zero K] [Add K] [Sub K] [Mul K] (n l m cnt : Nat) (Bn : Nat → Nat → Nat → K)
    (prod : Nat → Nat → Nat → K) : Mat K :=
  ⟨l, n * m, fun i j =>
    if j / m < cnt then
      Bn (n - 2 - j / m) i (j % m) - sumTo m (fun t => Bn (n - 1) i t * prod (j / m) t (j % m))
    else 0⟩

/-- all `cnt` solves of the loop; `none` if one of them fails. -/
def solveAll [Zero K] [One K] [Add K] [Sub K] [Mul K] [Div K] [DecidableEq K] [Inhabited K]
    (m : Nat) (Alast : Nat → Nat → K) (rhs : Nat → Nat → Nat → K) :
    (cnt : Nat) → Option (Nat → Nat → Nat → K)
  | 0 => some (fun _ _ _ => 0)
  | k + 1 =>
    match solveAll m Alast rhs k, solveChecked m m Alast (rhs k) with
    | some P, some X => some (fun i => if i = k then X else P i)
    | _, _ => none

/-- `rmfd2ac(A_den, B_num)`.  The zip runs over `min(len A_den, len B_num) - 1` pairs;
    pair `i` is `(A_den[lenA-2-i], B_num[lenB-2-i])`. -/
def rmfd2ac [Zero K] [One K] [Add K] [Sub K] [Neg K] [Mul K] [Div K] [DecidableEq K] [Inhabited K]
    (Ad Bn : Coefs K) : Option (Mat K × Mat K) :=
  let n := Bn.len
  let l := Bn.r
  let m := Bn.c
  let cnt := min Ad.len Bn.len - 1
  match solveAll m (Ad.blk (Ad.len - 1)) (fun i => Ad.blk (Ad.len - 2 - i)) cnt with
  | none => none
  | some P => some (companionA n m cnt P, companionC n l m cnt Bn.blk P)

/-! ## `ac2mp_poly` -/

/-- one eigenpair as `np.linalg.eig` returned it, with what `np.log` made of the eigenvalue -/
structure EigIn (K : Type) where
  lamd : Cx K          -- eigenvalue `lam_d[ii]`
  logv : Cx K          -- `np.log(lam_d[ii])` (ignored when `lamd = 0`: numpy gives `-inf`)
  q : List (Cx K)      -- eigenvector `AuVett[:, ii]`

/-- `lambd = np.log(lam_d) * (1/dt)`; `none` = non-finite (`log 0 = -inf`, and the complex
    product with `1/dt + 0j` makes it `-inf + nan j`). -/
def lambdOf [Zero K] [Mul K] [DecidableEq K] (invdt : K) (e : EigIn K) : Option (Cx K) :=
  if e.lamd.re = 0 ∧ e.lamd.im = 0 then none else some ⟨e.logv.re * invdt, e.logv.im * invdt⟩

/-- `np.real(lambd) > 0` (False for the non-finite `-inf`). -/
def blanked [Zero K] [LT K] [DecidableLT K] : Option (Cx K) → Bool
  | none => false
  | some l => decide (0 < l.re)

/-- `lam_c = np.where(np.real(lambd) > 0, nan, lambd)` then, for `methodSy == "cor"`,
    `lam_c = lam_c - 1/(tau*dt)`; the real shift is the parameter `invTau` (the code after the
    repair of F3 — property C08 — subtracts `1/(tau*dt)`, before it `1/tau`; C05 does not
    depend on which).  `none` = NaN or non-finite. -/
def toContinuousBlank [Zero K] [Sub K] [LT K] [DecidableLT K]
    (cor : Bool) (invTau : K) (lambd : Option (Cx K)) : Option (Cx K) :=
  match lambd with
  | none => none
  | some l => if blanked (some l) then none else
      some (if cor then ⟨l.re - invTau, l.im⟩ else l)

/-- `fn = abs(lam_c) / (2π)` with `sqrt` and `2π` as parameters. -/
def fnOf [Add K] [Mul K] [Div K] (sqrt : K → K) (twoPi : K) (l : Cx K) : K :=
  sqrt (Cx.normSq l) / twoPi
/-- `xi = -(Re lam_c / abs(lam_c))`. -/
def xiOf [Add K] [Mul K] [Div K] [Neg K] (sqrt : K → K) (l : Cx K) : K :=
  -(l.re / sqrt (Cx.normSq l))

/-- frequency cell (after `fn[fn == inf] = nan` of `pLSCF_poles`). -/
def fnCell [Add K] [Mul K] [Div K] (sqrt : K → K) (twoPi : K) : Option (Cx K) → Option K
  | none => none
  | some l => some (fnOf sqrt twoPi l)

/-- damping cell: `0/0 = nan` when `lam_c = 0` exactly. -/
def xiCell [Zero K] [Add K] [Mul K] [Div K] [Neg K] [DecidableEq K] (sqrt : K → K) :
    Option (Cx K) → Option K
  | none => none
  | some l => if l.re = 0 ∧ l.im = 0 then none else some (xiOf sqrt l)

/-- `np.dot(C, Q)[:, ii]` for the kept column `q`. -/
def phiRaw [Zero K] [Add K] [Mul K] (C : Mat K) (q : List (Cx K)) : List (Cx K) :=
  (List.range C.r).map fun a =>
    ⟨sumTo C.c (fun t => C.e a t * (q.getD t ⟨0, 0⟩).re),
     sumTo C.c (fun t => C.e a t * (q.getD t ⟨0, 0⟩).im)⟩

/-- `np.argmax(abs(v))`: first index of the largest modulus. -/
def argmaxAbs [Zero K] [Add K] [Mul K] [LT K] [DecidableLT K] (v : List (Cx K)) : Nat :=
  let rec go (rest : List (Cx K)) (idx best : Nat) (bestv : K) : Nat :=
    match rest with
    | [] => best
    | x :: xs => if bestv < Cx.normSq x then go xs (idx + 1) idx (Cx.normSq x)
                 else go xs (idx + 1) best bestv
  match v with
  | [] => 0
  | x :: xs => go xs 1 0 (Cx.normSq x)

/-- mode-shape row of one eigenpair: blanked column → NaN; else `phi / phi[argmax |phi|]`,
    which is NaN (`0/0`) when the whole column is zero. -/
def phiCell [Zero K] [Add K] [Sub K] [Mul K] [Div K] [LT K] [DecidableLT K] [DecidableEq K]
    (C : Mat K) (lambd : Option (Cx K)) (q : List (Cx K)) : Option (List (Cx K)) :=
  if blanked lambd then none else
    let v := phiRaw C q
    let p := v.getD (argmaxAbs v) ⟨0, 0⟩
    if p.re = 0 ∧ p.im = 0 then none else some (v.map fun x => Cx.div x p)

/-- what `ac2mp_poly` + the `inf → nan` line produce for one model order -/
structure Column (K : Type) where
  fn : List (Option K)
  xi : List (Option K)
  phi : List (Option (List (Cx K)))
  lam : List (Option (Cx K))

def ac2mpPoly [Zero K] [Add K] [Sub K] [Neg K] [Mul K] [Div K] [LT K] [DecidableLT K] [DecidableEq K]
    (sqrt : K → K) (twoPi invdt : K) (cor : Bool) (invTau : K) (C : Mat K)
    (eigs : List (EigIn K)) : Column K :=
  let lam := eigs.map fun e => toContinuousBlank cor invTau (lambdOf invdt e)
  { fn := lam.map (fnCell sqrt twoPi),
    xi := lam.map (xiCell sqrt),
    phi := eigs.map fun e => phiCell C (lambdOf invdt e) e.q,
    lam := lam }

/-! ## `pLSCF_poles` padding -/

/-- `np.array(list(itertools.zip_longest(*cols, fillvalue=nan)))`: row `r`, column `k`. -/
def zipLongest {α : Type} (cols : List (List (Option α))) : List (List (Option α)) :=
  let h := (cols.map List.length).foldl max 0
  (List.range h).map fun r => cols.map fun c => (c[r]?).join

/-- the mode-shape table: every order is padded to `len(Phis[-1])` rows
    (`phi1[:len(phi)] = phi` raises when an earlier order is longer), then `moveaxis`. -/
def padPhi {α : Type} (cols : List (List (Option α))) : Except String (List (List (Option α))) :=
  match cols.getLast? with
  | none => .ok []
  | some last =>
    if cols.all (fun c => c.length ≤ last.length) then
      .ok ((List.range last.length).map fun r => cols.map fun c => (c[r]?).join)
    else .error "ValueError: could not broadcast input array"

structure Tables (K : Type) where
  fn : List (List (Option K))
  xi : List (List (Option K))
  phi : List (List (Option (List (Cx K))))
  lam : List (List (Option (Cx K)))

def padTables (cols : List (Column K)) : Except String (Tables K) :=
  match padPhi (cols.map (·.phi)) with
  | .error e => .error e
  | .ok p => .ok { fn := zipLongest (cols.map (·.fn)), xi := zipLongest (cols.map (·.xi)),
                   phi := p, lam := zipLongest (cols.map (·.lam)) }

/-! ## `pLSCF` : normal equations of one model order -/

section normal
variable [Zero K] [One K] [Add K] [Sub K] [Neg K] [Mul K]

/-- `Xo[f, i] = Omega[f] ** i` -/
def Xo (Om : Nat → Cx K) (f i : Nat) : Cx K := Cx.pow (Om f) i

/-- `Yo[f, J] = -np.kron(Xo[f], Sy[o, :, f])[J] = -(Xo[f, J / Nch] * Sy[o, J % Nch, f])` -/
def Yo (Nch : Nat) (Om : Nat → Cx K) (Syo : Nat → Nat → Cx K) (f J : Nat) : Cx K :=
  Cx.neg (Cx.mul (Xo Om f (J / Nch)) (Syo (J % Nch) f))

/-- `Ro = np.real(Xoh @ Xo)` -/
def Ro (Nf : Nat) (Om : Nat → Cx K) (i j : Nat) : K :=
  sumTo Nf (fun f => Cx.reConjMul (Xo Om f i) (Xo Om f j))

/-- `So = np.real(Xoh @ Yo)` -/
def So (Nch Nf : Nat) (Om : Nat → Cx K) (Syo : Nat → Nat → Cx K) (i J : Nat) : K :=
  sumTo Nf (fun f => Cx.reConjMul (Xo Om f i) (Yo Nch Om Syo f J))

/-- `To = np.real(Yo.conj().T @ Yo)` -/
def To (Nch Nf : Nat) (Om : Nat → Cx K) (Syo : Nat → Nat → Cx K) (I J : Nat) : K :=
  sumTo Nf (fun f => Cx.reConjMul (Yo Nch Om Syo f I) (Yo Nch Om Syo f J))

/-- `M = Σ_o (To - So.T @ solve(Ro, So))`, the solves' results `X o` passed in.
    `Sy o c f` is `Sy[o, c, f]`; `n` the model order. -/
def Mmat (Nch Nref Nf n : Nat) (Om : Nat → Cx K) (Sy : Nat → Nat → Nat → Cx K)
    (X : Nat → Nat → Nat → K) (I J : Nat) : K :=
  sumTo Nref (fun o => To Nch Nf Om (Sy o) I J
    - sumTo (n + 1) (fun t => So Nch Nf Om (Sy o) t I * X o t J))

/-- `alpha` for the `LO` constraint: `np.r_[eye(Nch), Z]` -/
def alphaLO (Nch : Nat) (Z : Nat → Nat → K) (I c : Nat) : K :=
  if I < Nch then (if I = c then 1 else 0) else Z (I - Nch) c

/-- `alpha` for the `HI` constraint: `np.r_[Z, eye(Nch)]` -/
def alphaHI (Nch n : Nat) (Z : Nat → Nat → K) (I c : Nat) : K :=
  if I < n * Nch then Z I c else (if I - n * Nch = c then 1 else 0)

end normal

structure OrderOut (K : Type) where
  M : Nat → Nat → K
  alpha : Nat → Nat → K                -- ((n+1)·Nch) × Nch
  beta : Nat → Nat → Nat → K           -- beta o : (n+1) × Nch

section run
variable [Zero K] [One K] [Add K] [Sub K] [Neg K] [Mul K] [Div K] [DecidableEq K] [Inhabited K]

def solveEach (n c : Nat) (A : Nat → Nat → K) (B : Nat → Nat → Nat → K) :
    (cnt : Nat) → Option (Nat → Nat → Nat → K)
  | 0 => some (fun _ _ _ => 0)
  | k + 1 =>
    match solveEach n c A B k, solveChecked n c A (B k) with
    | some P, some X => some (fun i => if i = k then X else P i)
    | _, _ => none

/-- entries of a matrix function materialised in an array (speed only; `memo_eq`) -/
def memoArr (r c : Nat) (f : Nat → Nat → K) : Array (Array K) :=
  Array.ofFn (n := r) fun i => Array.ofFn (n := c) fun j => f i.1 j.1

def rd (a : Array (Array K)) (i j : Nat) : K := (a[i]!)[j]!

/-- one pass of the `for n in trange(1, ordmax+1)` loop body; `hi = (sgn_basf == 1)`. -/
def plscfOrder (Nch Nref Nf n : Nat) (hi : Bool) (Om : Nat → Cx K)
    (Sy : Nat → Nat → Nat → Cx K) : Option (OrderOut K) :=
  let d := (n + 1) * Nch
  let Ra := memoArr (n + 1) (n + 1) (Ro Nf Om)
  let R := rd Ra
  let Sa := Array.ofFn (n := Nref) fun o => memoArr (n + 1) d (So Nch Nf Om (Sy o.1))
  let S : Nat → Nat → Nat → K := fun o => rd (Sa[o]!)
  match solveEach (n + 1) d R S Nref with
  | none => none
  | some X =>
    let Ma := memoArr d d (fun I J => sumTo Nref (fun o => To Nch Nf Om (Sy o) I J
        - sumTo (n + 1) (fun t => S o t I * X o t J)))
    let M := rd Ma
    let zsol :=
      if hi then
        solveChecked (n * Nch) Nch (fun I J => - M I J) (fun I c => M I (n * Nch + c))
      else
        solveChecked (n * Nch) Nch (fun I J => - M (Nch + I) (Nch + J)) (fun I c => M (Nch + I) c)
    match zsol with
    | none => none
    | some Z =>
      let alpha := if hi then alphaHI Nch n Z else alphaLO Nch Z
      match solveEach (n + 1) Nch (fun i j => - R i j)
              (fun o i c => sumTo d (fun J => S o i J * alpha J c)) Nref with
      | none => none
      | some beta => some { M := M, alpha := alpha, beta := beta }

end run

end Plscf
end PV
