import PyomaVerif.Model.Basic
/-!
# NaN-bearing tables and the numpy idioms used on them (core Lean only)

A float that may be NaN is an `Option Rat` (`none` = NaN).  Pole tables are
`Mat (Option Rat)` (frequencies, dampings, covariances), label tables are `Mat Int`,
mode-shape tables are `Ten3`.  The idioms mirrored here:

* arithmetic with NaN propagation (`nanSub`, `nanAbs`, `nanDivPos`);
* comparisons with NaN are `False` (`nanLt`, `nanLe`, `nanGe`, `nanGt`);
* `np.nanargmin` — index of the **first** minimum among the non-NaN entries,
  `ValueError` (here `none`) on an all-NaN / empty slice;
* `np.isclose(a, b, rtol)` = `|a − b| ≤ 1e-8 + rtol·|b|`, `False` on NaN;
* `np.where(Lab == k, T, nan)`, `np.unique` of the non-NaN entries of a column.
-/
namespace PV

/-- a float that may be NaN -/
abbrev NR := Option Rat
/-- a complex number with rational parts (`re`, `im`) -/
abbrev CQ := Rat × Rat

/-- three-index table (`Phi[i, o, k]`): shape `r × c × d`. -/
structure Ten3 (K : Type) where
  r : Nat
  c : Nat
  d : Nat
  e : Nat → Nat → Nat → K

/-- `|x|` (core `Rat` has no `abs`). -/
def qabs (x : Rat) : Rat := if x < 0 then -x else x

/-- `a - b` with NaN propagation. -/
def nanSub : NR → NR → NR
  | some a, some b => some (a - b)
  | _, _ => none

/-- `np.abs` with NaN propagation. -/
def nanAbs : NR → NR
  | some a => some (qabs a)
  | none => none

/-- numpy true division `a / b` **for a numerator that is `≥ 0` or NaN** (the only use:
    `np.abs(..) / x`).  `a / 0` is then `+inf` or NaN; both compare `<` false against any
    float, exactly as NaN does, and are represented by `none`. -/
def nanDivPos : NR → NR → NR
  | some a, some b => if b = 0 then none else some (a / b)
  | _, _ => none

/-- `x < t` — `False` when `x` is NaN. -/
def nanLt (x : NR) (t : Rat) : Bool :=
  match x with
  | some v => decide (v < t)
  | none => false

def nanLe (x : NR) (t : Rat) : Bool :=
  match x with
  | some v => decide (v ≤ t)
  | none => false

def nanGt (x : NR) (t : Rat) : Bool :=
  match x with
  | some v => decide (t < v)
  | none => false

def nanGe (x : NR) (t : Rat) : Bool :=
  match x with
  | some v => decide (t ≤ v)
  | none => false

/-- running first minimum of `f 0 … f (n-1)` over the non-NaN entries: `(index, value)`. -/
def nanargminFn (f : Nat → NR) : Nat → Option (Nat × Rat)
  | 0 => none
  | n + 1 =>
    match nanargminFn f n, f n with
    | none, none => none
    | none, some v => some (n, v)
    | some b, none => some b
    | some b, some v => if v < b.2 then some (n, v) else some b

/-- `np.nanargmin(f[0:n])`: `none` is the `ValueError("All-NaN slice encountered")`
    (also raised for an empty slice). -/
def nanargmin (f : Nat → NR) (n : Nat) : Option Nat := (nanargminFn f n).map Prod.fst

/-- `np.nanargmin(np.abs(col - x))` — the idiom of `SC_apply`, `SSI_mpe`, `pLSCF_mpe`. -/
def nanargminAbs (col : Nat → NR) (n : Nat) (x : NR) : Option Nat :=
  nanargmin (fun j => nanAbs (nanSub (col j) x)) n

/-- the default `atol` of `np.isclose` / `np.allclose`: `1e-8`. -/
def iscloseAtol : Rat := 1 / 100000000

/-- `np.isclose(a, b, rtol=rtol)` for scalars: `|a − b| ≤ atol + rtol·|b|`; `False` if either is NaN. -/
def isclose (a b : NR) (rtol : Rat) : Bool :=
  match a, b with
  | some x, some y => decide (qabs (x - y) ≤ iscloseAtol + rtol * qabs y)
  | _, _ => false

/-- `np.where(Lab == k, T, np.nan)`. -/
def whereEq (Lab : Mat Int) (k : Int) (T : Mat NR) : Mat NR :=
  ⟨T.r, T.c, fun i o => if Lab.e i o = k then T.e i o else none⟩

/-- insertion into a strictly ascending list, dropping duplicates. -/
def insertUniq (x : Rat) : List Rat → List Rat
  | [] => [x]
  | y :: t => if x < y then x :: y :: t else if x = y then y :: t else y :: insertUniq x t

/-- `np.unique(v)` for a NaN-free vector: ascending, distinct. -/
def uniqueSorted (l : List Rat) : List Rat := l.foldr insertUniq []

/-- the non-NaN entries `col[0:n]`, in order (`v[~np.isnan(v)]`). -/
def nonNan (col : Nat → NR) (n : Nat) : List Rat := (List.range n).filterMap col

/-- `u = np.unique(col); u[~np.isnan(u)]` (and equally `np.unique(col[~np.isnan(col)])`). -/
def uniqueNonNan (col : Nat → NR) (n : Nat) : List Rat := uniqueSorted (nonNan col n)

end PV
