import PyomaVerif.Model.Prep
/-!
# `add_algorithms` by NAME (C14) — core Lean only

`Model/Prep.lean` models `add_algorithms` as the append of one anonymous binding.  Here the two
dictionaries involved are modelled as Python has them:

* `self.algorithms : name ↦ algorithm object` (insertion-ordered `dict`; `rollback` / `_initialize_data`
  resets it to `{}`);
* what every algorithm OBJECT holds (`alg.data`, `alg.fs`, `alg.dt`), keyed by the object's identity —
  the objects belong to the user and survive `rollback` and being displaced from `self.algorithms`.

`BaseSetup.add_algorithms(*algorithms)` is

    self.algorithms = {**getattr(self, "algorithms", {}),
                       **{alg.name: alg._set_data(data=self.data, fs=self.fs) for alg in algorithms}}

i.e. `_set_data` on exactly the objects passed (left to right), a fresh dict of them (a later object of the
same name displaces an earlier one of the same call), merged over the old dict (an existing name keeps its
position and gets the new object; other entries are not touched, *not re-bound*).

The machine is generic in the underlying setup (`stepN step bind`): `sStepN` / `mStepN` instantiate it with
`sStep` / `mStep` of `Model/Prep.lean`, so that the `base` component IS the state of those machines.
-/
namespace PV.Prep

/-- an algorithm object as `add_algorithms` sees it: its identity and its `name` attribute. -/
structure Alg where
  oid : Nat
  name : Nat
  deriving DecidableEq, Repr, Inhabited

/-- `d[k] = v` on an insertion-ordered dict: an existing key keeps its position, a new one goes last. -/
def dictSet {V : Type} (d : List (Nat × V)) (k : Nat) (v : V) : List (Nat × V) :=
  if d.any (fun p => p.1 == k) then d.map (fun p => if p.1 == k then (k, v) else p) else d ++ [(k, v)]

/-- `d.get(k)`. -/
def dictGet {V : Type} (d : List (Nat × V)) (k : Nat) : Option V :=
  (d.find? (fun p => p.1 == k)).map (fun p => p.2)

/-- `{**old, **new}`. -/
def dictMerge {V : Type} (old new : List (Nat × V)) : List (Nat × V) :=
  new.foldl (fun d p => dictSet d p.1 p.2) old

/-- `BaseSetup.add_algorithms(*algs)` with `b` = what `_set_data(data=self.data, fs=self.fs)` stores:
    returns the new `self.algorithms` and the new per-object store. -/
def addAlgorithms {B : Type} (b : B) (dict : List (Nat × Nat)) (held : List (Nat × B)) (algs : List Alg) :
    List (Nat × Nat) × List (Nat × B) :=
  -- the comprehension, left to right: alg._set_data(...) re-binds THAT object …
  let held' := algs.foldl (fun h a => dictSet h a.oid b) held
  -- … and `alg.name: alg` goes into a fresh dict
  let new := algs.foldl (fun d a => dictSet d a.name a.oid) ([] : List (Nat × Nat))
  (dictMerge dict new, held')

/-- operations of the named machine: the preprocessing calls of `Model/Prep.lean`, and
    `add_algorithms(*algs)`. -/
inductive NOp where
  | prep (op : Op)
  | addN (algs : List Alg)
  deriving DecidableEq, Repr, Inhabited

/-- what the underlying machine of `Model/Prep.lean` sees (it counts one anonymous binding per call). -/
def NOp.toOp : NOp → Op
  | .prep op => op
  | .addN _ => .add

structure NState (S B : Type) where
  /-- the setup object as `Model/Prep.lean` has it -/
  base : S
  /-- `self.algorithms`: name ↦ object identity -/
  algorithms : List (Nat × Nat)
  /-- per algorithm object: what `_set_data` stored in it last -/
  held : List (Nat × B)
  deriving DecidableEq, Repr

/-- one call on a setup whose preprocessing step is `step` and whose `_set_data` payload is `bind`. -/
def stepN {S B : Type} (step : S → Op → Except Err S) (bind : S → B) (s : NState S B) (nop : NOp) :
    Except Err (NState S B) := do
  let base ← step s.base nop.toOp
  match nop with
  | .addN algs =>
      let (d, h) := addAlgorithms (bind s.base) s.algorithms s.held algs
      pure { base := base, algorithms := d, held := h }
  | .prep .rollback => pure { s with base := base, algorithms := [] }   -- _initialize_data: self.algorithms = {}
  | .prep _ => pure { s with base := base }

/-- an exception leaves the object as it was. -/
def stepN' {S B : Type} (step : S → Op → Except Err S) (bind : S → B) (s : NState S B) (nop : NOp) :
    NState S B :=
  match stepN step bind s nop with | .ok s' => s' | .error _ => s

def runN {S B : Type} (step : S → Op → Except Err S) (bind : S → B) (s0 : S) (ops : List NOp) : NState S B :=
  ops.foldl (stepN' step bind) { base := s0, algorithms := [], held := [] }

/-- `alg._set_data(data=self.data, fs=self.fs)` on a SingleSetup. -/
def sBind (s : SState) : SBound := { data := s.data, fs := s.fs, dt := 1 / s.fs }
/-- … on a MultiSetup_PreGER. -/
def mBind (s : MState) : MBound := { data := s.data, fs := s.fs, dt := 1 / s.fs }

def sStepN (v : Variant) (c : SCfg) := stepN (sStep v c) sBind
def mStepN (v : Variant) (c : MCfg) := stepN (mStep v c) mBind
def sRunN (v : Variant) (c : SCfg) (ops : List NOp) : NState SState SBound := runN (sStep v c) sBind (sInit c) ops
def mRunN (v : Variant) (c : MCfg) (ops : List NOp) : NState MState MBound := runN (mStep v c) mBind (mInit c) ops

/-! ## Variants of `add_algorithms` seen as seeded changes -/

/-- "merge first, then (re)bind EVERY algorithm of the merged dict" (seeded C15-r3m2). -/
def addAlgorithmsRebindAll {B : Type} (b : B) (dict : List (Nat × Nat)) (held : List (Nat × B)) (algs : List Alg) :
    List (Nat × Nat) × List (Nat × B) :=
  let merged := dictMerge dict (algs.foldl (fun d a => dictSet d a.name a.oid) ([] : List (Nat × Nat)))
  (merged, merged.foldl (fun h p => dictSet h p.2 b) held)

/-- "`registered.setdefault(alg.name, alg._set_data(...))`": an existing name keeps its OLD object
    (seeded C14-r4m2 / C03-r4m2). -/
def addAlgorithmsSetdefault {B : Type} (b : B) (dict : List (Nat × Nat)) (held : List (Nat × B)) (algs : List Alg) :
    List (Nat × Nat) × List (Nat × B) :=
  (algs.foldl (fun d a => if d.any (fun p => p.1 == a.name) then d else d ++ [(a.name, a.oid)]) dict,
   algs.foldl (fun h a => dictSet h a.oid b) held)

/-- the named machine with another `add_algorithms`. -/
def stepNWith {S B : Type} (add : B → List (Nat × Nat) → List (Nat × B) → List Alg → List (Nat × Nat) × List (Nat × B))
    (step : S → Op → Except Err S) (bind : S → B) (s : NState S B) (nop : NOp) : NState S B :=
  match step s.base nop.toOp with
  | .error _ => s
  | .ok base =>
    match nop with
    | .addN algs => let (d, h) := add (bind s.base) s.algorithms s.held algs; { base := base, algorithms := d, held := h }
    | .prep .rollback => { s with base := base, algorithms := [] }
    | .prep _ => { s with base := base }

end PV.Prep
