import PyomaVerif.Codec
import PyomaVerif.Ops.C12
import PyomaVerif.Ops.C09
import PyomaVerif.Ops.C02
import PyomaVerif.Ops.C01
import PyomaVerif.Ops.C16
import PyomaVerif.Ops.C20
import PyomaVerif.Ops.C03
import PyomaVerif.Ops.C18
import PyomaVerif.Ops.C14
import PyomaVerif.Ops.C14Own
import PyomaVerif.Ops.C19
import PyomaVerif.Ops.C10
import PyomaVerif.Ops.C11
import PyomaVerif.Ops.C17
import PyomaVerif.Ops.C15
import PyomaVerif.Ops.C06
import PyomaVerif.Ops.C07
import PyomaVerif.Ops.C04
import PyomaVerif.Ops.C13
import PyomaVerif.Ops.C13M
import PyomaVerif.Ops.C05
import PyomaVerif.Ops.C07All
import PyomaVerif.Ops.C06All
import PyomaVerif.Ops.C09Run
import PyomaVerif.Ops.Poles
import PyomaVerif.Ops.C17Table
import PyomaVerif.Ops.C08
import PyomaVerif.Ops.MsGather
import PyomaVerif.Ops.C02State
import PyomaVerif.Ops.BuildHank
import PyomaVerif.Ops.C07Rect
import PyomaVerif.Ops.MultiSetup
import PyomaVerif.Ops.C15X
import PyomaVerif.Ops.SsiArgs
import PyomaVerif.Ops.GeoFile
import PyomaVerif.Ops.Defaults
import PyomaVerif.Ops.C18Whole
import PyomaVerif.Ops.C20Facts
/-! Line-protocol driver: one JSON object per line in, one JSON value per line out. -/
open Lean PV PV.Codec

def allOps : List (String × (Json → Except String Json)) :=
  PV.Ops.C12.ops ++ PV.Ops.C09.ops ++ PV.Ops.C02.ops ++ PV.Ops.C01.ops ++ PV.Ops.C16.ops ++ PV.Ops.C20.ops ++ PV.Ops.C03.ops ++ PV.Ops.C18.ops ++ PV.Ops.C14.ops ++ PV.Ops.C19.ops ++ PV.Ops.C10.ops ++ PV.Ops.C11.ops ++ PV.Ops.C17.ops ++ PV.Ops.C15.ops ++ PV.Ops.C06.ops ++ PV.Ops.C07.ops ++ PV.Ops.C04.ops ++ PV.Ops.C13.ops ++ PV.Ops.C05.ops
    ++ PV.Ops.C07All.ops
  ++ PV.Ops.C09Run.ops
  ++ PV.Ops.Poles.ops
  ++ PV.Ops.C17Table.ops
  ++ PV.Ops.C08.ops
  ++ PV.Ops.MsGather.ops
  ++ PV.Ops.C02State.ops
  ++ PV.Ops.C06All.ops
  ++ PV.Ops.BuildHank.ops
  ++ PV.Ops.C14Own.ops
  ++ PV.Ops.C07Rect.ops
  ++ PV.Ops.C13M.ops
  ++ PV.Ops.MultiSetup.ops
  ++ PV.Ops.C15X.ops
  ++ PV.Ops.SsiArgs.ops
  ++ PV.Ops.GeoFile.ops
  ++ PV.Ops.Defaults.ops
  ++ PV.Ops.C18Whole.ops
  ++ PV.Ops.C20Facts.ops

def handle (line : String) : String :=
  match Json.parse line with
  | .error e => (Json.mkObj [("error", Json.str s!"bad-json {e}")]).compress
  | .ok j =>
    match (do
      let op ← (← j.getObjVal? "op").getStr?
      match allOps.lookup op with
      | some f => f j
      | none => throw s!"unknown op {op}") with
    | .ok r => (Json.mkObj [("ok", r)]).compress
    | .error e => (Json.mkObj [("error", Json.str e)]).compress

partial def loop (h : IO.FS.Stream) (out : IO.FS.Stream) : IO Unit := do
  let line ← h.getLine
  if line.isEmpty then return ()
  out.putStrLn (handle line)
  out.flush
  loop h out

def main : IO Unit := do loop (← IO.getStdin) (← IO.getStdout)
