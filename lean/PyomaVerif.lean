import PyomaVerif.Model.Basic
import PyomaVerif.Model.Hankel
import PyomaVerif.Codec
